import DhcpProofs.Lemmas.V6LeafBasic
/-
  Soundness of the leaf decoders against the declarative layouts of
  Dhcp/Spec/Leaf6.lean: whatever `decSimple code v` / `decDUID v` /
  `parseNTPSub code v` return without error is the RFC reading `PLeaf` / `PDUID` /
  `PNTPSub` of `v`.  One lemma per branch, walking the Lexer chain backwards
  from `FinError() == nil` with the `*_spec` inversions of V6Inv.lean.
-/
namespace Dhcp.V6
open Dhcp List Dhcp.Spec

/-! ### NTP sub-options -/

theorem addr16_of_copyN {d : Bytes} {v : IP} {l : Lexer} {α : Type} {a b : α}
    (hr : Lexer.copyN ⟨d, false⟩ 16 = (v, l)) (h : fin l a = .ok b) :
    v = some d ∧ d.length = 16 ∧ a = b := by
  obtain ⟨he, hd, hab⟩ := fin_spec h
  obtain ⟨bs, rfl, hlen, _, hdd⟩ := copyN_spec hr he
  simp only [hd, List.append_nil] at hdd
  subst hdd
  exact ⟨rfl, hlen, hab⟩

theorem parseNTPSub_sound (c : Nat) (v : Bytes) (s : NTPSub) (h : parseNTPSub c v = .ok s) :
    PNTPSub c v s := by
  unfold parseNTPSub at h
  by_cases h1 : c = 1
  · subst h1
    simp only [if_true, Lexer.new] at h
    rcases hr : Lexer.copyN ⟨v, false⟩ 16 with ⟨ip, l⟩
    rw [hr] at h; simp only at h
    obtain ⟨rfl, hl, rfl⟩ := addr16_of_copyN hr h
    exact .srvAddr hl
  by_cases h2 : c = 2
  · subst h2
    simp only [show ¬ ((2 : Nat) = 1) by decide, if_false, if_true, Lexer.new] at h
    rcases hr : Lexer.copyN ⟨v, false⟩ 16 with ⟨ip, l⟩
    rw [hr] at h; simp only at h
    obtain ⟨rfl, hl, rfl⟩ := addr16_of_copyN hr h
    exact .mcAddr hl
  by_cases h3 : c = 3
  · subst h3
    simp only [show ¬ ((3 : Nat) = 1) by decide, show ¬ ((3 : Nat) = 2) by decide, if_false, if_true] at h
    cases hf : Label.fromBytes v with
    | ok lb =>
      rw [hf] at h
      simp only at h
      by_cases hl : lb.labels.length = 1
      · simp only [hl, ne_eq, not_true_eq_false, if_false, Res.ok.injEq] at h
        subst h
        exact .srvFQDN ((fromBytes_iff v lb).mp hf) hl
      · simp [hl] at h
    | err => rw [hf] at h; simp at h
    | panic => rw [hf] at h; simp at h
  simp only [h1, h2, h3, if_false, Res.ok.injEq] at h
  subst h
  exact .other h1 h2 h3

/-! ### one lemma per branch of `decSimple` -/

theorem sound_6 (v : Bytes) (o : Opt6) (h : decSimple 6 v = .ok o) : PLeaf 6 v o := by
  rw [decSimple_6] at h
  rcases hr : u16Loop (v.length + 1) ⟨v, false⟩ [] with ⟨cs, l⟩
  rw [hr] at h; simp only at h
  obtain ⟨_, hd, rfl⟩ := fin_spec h
  obtain ⟨xs, hcs, hlt, _, hv⟩ := u16Loop_spec _ _ _ _ _ _ hr (by omega)
  simp only [List.nil_append] at hcs
  subst hcs
  rw [hd, List.append_nil] at hv
  rw [dedup_nil_eq]
  exact .oro ⟨hlt, hv⟩

theorem sound_8 (v : Bytes) (o : Opt6) (h : decSimple 8 v = .ok o) : PLeaf 8 v o := by
  rw [decSimple_8] at h
  rcases hr : Lexer.read16 ⟨v, false⟩ with ⟨t, l⟩
  rw [hr] at h; simp only at h
  obtain ⟨he, hd, rfl⟩ := fin_spec h
  obtain ⟨ht, hs⟩ := read16_spec hr
  obtain ⟨_, hv⟩ := hs he
  simp only [hd, List.append_nil] at hv
  subst hv
  exact .elapsed ht

theorem sound_13 (v : Bytes) (o : Opt6) (h : decSimple 13 v = .ok o) : PLeaf 13 v o := by
  rw [decSimple_13] at h
  rcases hr : Lexer.read16 ⟨v, false⟩ with ⟨c, l1⟩
  rw [hr] at h; simp only at h
  rcases hr2 : l1.readAll with ⟨m, l2⟩
  rw [hr2] at h; simp only at h
  obtain ⟨he, _, rfl⟩ := fin_spec h
  obtain ⟨hm, _, he2⟩ := readAll_spec hr2
  obtain ⟨hc, hs⟩ := read16_spec hr
  obtain ⟨_, hv⟩ := hs (by rw [← he2]; exact he)
  simp only [hm] at hv
  subst hv
  exact .status hc

theorem items_of_lenPref {v : Bytes} {xs : List Bytes} (hok : ItemsOK xs) (hv : v = lenPref xs) :
    Items v xs := ⟨hok, hv⟩

theorem sound_15 (v : Bytes) (o : Opt6) (h : decSimple 15 v = .ok o) : PLeaf 15 v o := by
  rw [decSimple_15] at h
  by_cases h0 : v.length = 0
  · simp [h0] at h
  simp only [h0, if_false] at h
  rcases hr : lenPrefLoop (v.length + 1) ⟨v, false⟩ [] with ⟨cls, l⟩
  rw [hr] at h; simp only at h
  obtain ⟨he, hd, rfl⟩ := fin_spec h
  obtain ⟨xs, hcs, hok, _, hv⟩ := lenPrefLoop_spec _ _ _ _ _ _ hr (by omega) he
  simp only [List.nil_append] at hcs
  subst hcs
  rw [hd, List.append_nil] at hv
  refine .userClass (items_of_lenPref hok hv) ?_
  intro hnil
  subst hnil
  simp [lenPref] at hv
  simp [hv] at h0

theorem sound_16 (v : Bytes) (o : Opt6) (h : decSimple 16 v = .ok o) : PLeaf 16 v o := by
  rw [decSimple_16] at h
  rcases hr1 : Lexer.read32 ⟨v, false⟩ with ⟨en, l1⟩
  rw [hr1] at h; simp only at h
  rcases hr : lenPrefLoop (v.length + 1) l1 [] with ⟨ds, l⟩
  rw [hr] at h; simp only at h
  by_cases h0 : ds.length = 0
  · simp [h0] at h
  simp only [h0, if_false] at h
  obtain ⟨he, hd, rfl⟩ := fin_spec h
  obtain ⟨hen, hs⟩ := read32_spec hr1
  by_cases he1 : l1.err = true
  · have := lenPrefLoop_err (v.length + 1) l1 [] he1
    rw [hr] at this
    simp only at this
    rw [he] at this; cases this
  have he1' : l1.err = false := by simpa using he1
  obtain ⟨_, hv⟩ := hs he1'
  simp only at hv
  obtain ⟨xs, hcs, hok, _, hv2⟩ := lenPrefLoop_spec _ l1.data l1.err _ _ _ hr
    (by rw [hv]; simp only [List.length_append, be32_length]; omega) he
  simp only [List.nil_append] at hcs
  subst hcs
  rw [hd, List.append_nil] at hv2
  rw [hv2] at hv
  subst hv
  refine .vendorClass hen (items_of_lenPref hok rfl) ?_
  intro hnil; subst hnil; simp at h0

theorem sound_17 (v : Bytes) (o : Opt6) (h : decSimple 17 v = .ok o) : PLeaf 17 v o := by
  rw [decSimple_17] at h
  rcases hr1 : Lexer.read32 ⟨v, false⟩ with ⟨en, l1⟩
  rw [hr1] at h; simp only at h
  rcases hr2 : l1.readAll with ⟨rest, l2⟩
  rw [hr2] at h; simp only at h
  cases ho : optionsFromBytes (fun c d => Res.ok (c, d)) rest with
  | ok os =>
    rw [ho] at h; simp only at h
    obtain ⟨he, _, rfl⟩ := fin_spec h
    obtain ⟨hm, _, he2⟩ := readAll_spec hr2
    obtain ⟨hen, hs⟩ := read32_spec hr1
    obtain ⟨_, hv⟩ := hs (by rw [← he2]; exact he)
    simp only [hm] at hv
    subst hv
    have ht := optionsFromBytes_sound (fun c d => Res.ok (c, d)) (fun c d (x : Nat × Bytes) => x = (c, d))
      (by intro c v x hx; simp only [Res.ok.injEq] at hx; exact hx.symm) rest os ho
    exact .vendorOpts hen (subOpts_of_tiles ht)
  | err => rw [ho] at h; simp at h
  | panic => rw [ho] at h; simp at h

theorem sound_addrs (v : Bytes) (ips : List IP) (l : Lexer) {α : Type} {a b : α}
    (hr : ip16Loop (v.length + 1) ⟨v, false⟩ [] = (ips, l)) (h : fin l a = .ok b) :
    Addrs v ips ∧ a = b := by
  obtain ⟨hok, hv, hab⟩ := inv_ip16 v ips l hr h
  rw [← hv]
  exact ⟨addrs_of_ip16 ips hok, hab⟩

theorem sound_23 (v : Bytes) (o : Opt6) (h : decSimple 23 v = .ok o) : PLeaf 23 v o := by
  rw [decSimple_23] at h
  rcases hr : ip16Loop (v.length + 1) ⟨v, false⟩ [] with ⟨ips, l⟩
  rw [hr] at h; simp only at h
  obtain ⟨ha, rfl⟩ := sound_addrs v ips l hr h
  exact .dns ha

theorem sound_88 (v : Bytes) (o : Opt6) (h : decSimple 88 v = .ok o) : PLeaf 88 v o := by
  rw [decSimple_88] at h
  rcases hr : ip16Loop (v.length + 1) ⟨v, false⟩ [] with ⟨ips, l⟩
  rw [hr] at h; simp only at h
  obtain ⟨ha, rfl⟩ := sound_addrs v ips l hr h
  exact .dhcp4o6Server ha

theorem sound_24 (v : Bytes) (o : Opt6) (h : decSimple 24 v = .ok o) : PLeaf 24 v o := by
  rw [decSimple_24] at h
  cases hf : Label.fromBytes v with
  | ok lb =>
    rw [hf] at h; simp only [Res.ok.injEq] at h
    subst h
    exact .domainSearch ((fromBytes_iff v lb).mp hf)
  | err => rw [hf] at h; simp at h
  | panic => rw [hf] at h; simp at h

theorem sound_32 (v : Bytes) (o : Opt6) (h : decSimple 32 v = .ok o) : PLeaf 32 v o := by
  rw [decSimple_32] at h
  rcases hr : decDur ⟨v, false⟩ with ⟨d, l⟩
  rw [hr] at h; simp only at h
  obtain ⟨he, hd, rfl⟩ := fin_spec h
  obtain ⟨s, hs, rfl, hsp⟩ := decDur_spec hr
  obtain ⟨_, hv⟩ := hsp he
  simp only [hd, List.append_nil] at hv
  subst hv
  exact .infoRefresh hs

theorem sound_37 (v : Bytes) (o : Opt6) (h : decSimple 37 v = .ok o) : PLeaf 37 v o := by
  rw [decSimple_37] at h
  rcases hr : Lexer.read32 ⟨v, false⟩ with ⟨c, l1⟩
  rw [hr] at h; simp only at h
  rcases hr2 : l1.readAll with ⟨m, l2⟩
  rw [hr2] at h; simp only at h
  obtain ⟨he, _, rfl⟩ := fin_spec h
  obtain ⟨hm, _, he2⟩ := readAll_spec hr2
  obtain ⟨hc, hs⟩ := read32_spec hr
  obtain ⟨_, hv⟩ := hs (by rw [← he2]; exact he)
  simp only [hm] at hv
  subst hv
  exact .remoteID hc

theorem sound_39 (v : Bytes) (o : Opt6) (h : decSimple 39 v = .ok o) : PLeaf 39 v o := by
  rw [decSimple_39] at h
  rcases hr : Lexer.read8 ⟨v, false⟩ with ⟨f, l1⟩
  rw [hr] at h; simp only at h
  rcases hr2 : l1.readAll with ⟨rest, l2⟩
  rw [hr2] at h; simp only at h
  cases hf : Label.fromBytes rest with
  | ok lb =>
    rw [hf] at h; simp only at h
    obtain ⟨he, _, rfl⟩ := fin_spec h
    obtain ⟨hm, _, he2⟩ := readAll_spec hr2
    obtain ⟨_, hv⟩ := read8_spec hr (by rw [← he2]; exact he)
    simp only [hm] at hv
    subst hv
    exact .fqdn ((fromBytes_iff rest lb).mp hf)
  | err => rw [hf] at h; simp at h
  | panic => rw [hf] at h; simp at h

theorem sound_56 (v : Bytes) (o : Opt6) (h : decSimple 56 v = .ok o) : PLeaf 56 v o := by
  rw [decSimple_56] at h
  cases ho : optionsFromBytes parseNTPSub v with
  | ok subs =>
    rw [ho] at h; simp only [Res.ok.injEq] at h
    subst h
    have ht := optionsFromBytes_sound parseNTPSub PNTPSub parseNTPSub_sound v subs ho
    exact .ntp (subOpts_of_tiles ht)
  | err => rw [ho] at h; simp at h
  | panic => rw [ho] at h; simp at h

theorem sound_60 (v : Bytes) (o : Opt6) (h : decSimple 60 v = .ok o) : PLeaf 60 v o := by
  rw [decSimple_60] at h
  rcases hr : lenPrefLoop (v.length + 1) ⟨v, false⟩ [] with ⟨ps, l⟩
  rw [hr] at h; simp only at h
  obtain ⟨he, hd, rfl⟩ := fin_spec h
  obtain ⟨xs, hcs, hok, _, hv⟩ := lenPrefLoop_spec _ _ _ _ _ _ hr (by omega) he
  simp only [List.nil_append] at hcs
  subst hcs
  rw [hd, List.append_nil] at hv
  exact .bootfileParam (items_of_lenPref hok hv)

theorem sound_61 (v : Bytes) (o : Opt6) (h : decSimple 61 v = .ok o) : PLeaf 61 v o := by
  rw [decSimple_61] at h
  by_cases h0 : v.length = 0
  · simp [h0] at h
  simp only [h0, if_false] at h
  rcases hr : u16Loop (v.length + 1) ⟨v, false⟩ [] with ⟨cs, l⟩
  rw [hr] at h; simp only at h
  obtain ⟨_, hd, rfl⟩ := fin_spec h
  obtain ⟨xs, hcs, hlt, _, hv⟩ := u16Loop_spec _ _ _ _ _ _ hr (by omega)
  simp only [List.nil_append] at hcs
  subst hcs
  rw [hd, List.append_nil] at hv
  refine .archType ⟨hlt, hv⟩ ?_
  intro hnil; subst hnil
  simp at hv
  simp [hv] at h0

theorem sound_62 (v : Bytes) (o : Opt6) (h : decSimple 62 v = .ok o) : PLeaf 62 v o := by
  rw [decSimple_62] at h
  rcases hr1 : Lexer.read8 ⟨v, false⟩ with ⟨t, l1⟩
  rw [hr1] at h; simp only at h
  rcases hr2 : l1.read8 with ⟨ma, l2⟩
  rw [hr2] at h; simp only at h
  rcases hr3 : l2.read8 with ⟨mi, l3⟩
  rw [hr3] at h; simp only at h
  obtain ⟨he, hd, rfl⟩ := fin_spec h
  obtain ⟨he2, hd2⟩ := read8_spec hr3 he
  obtain ⟨he1, hd1⟩ := read8_spec hr2 he2
  obtain ⟨_, hv⟩ := read8_spec hr1 he1
  simp only [hd1, hd2, hd] at hv
  subst hv
  exact .nii

theorem sound_79 (v : Bytes) (o : Opt6) (h : decSimple 79 v = .ok o) : PLeaf 79 v o := by
  rw [decSimple_79] at h
  rcases hr : Lexer.read16 ⟨v, false⟩ with ⟨c, l1⟩
  rw [hr] at h; simp only at h
  rcases hr2 : l1.readAll with ⟨m, l2⟩
  rw [hr2] at h; simp only at h
  obtain ⟨he, _, rfl⟩ := fin_spec h
  obtain ⟨hm, _, he2⟩ := readAll_spec hr2
  obtain ⟨hc, hs⟩ := read16_spec hr
  obtain ⟨_, hv⟩ := hs (by rw [← he2]; exact he)
  simp only [hm] at hv
  subst hv
  exact .clientLLA hc

theorem sound_87 (v : Bytes) (o : Opt6) (h : decSimple 87 v = .ok o) : PLeaf 87 v o := by
  obtain ⟨p, rfl, hd⟩ := inv_87 v o h
  exact .dhcpv4Msg (V4.dec4_sound v p hd)

theorem sound_98 (v : Bytes) (o : Opt6) (h : decSimple 98 v = .ok o) : PLeaf 98 v o := by
  rw [decSimple_98] at h
  rcases hr1 : Lexer.read8 ⟨v, false⟩ with ⟨p4len, l1⟩
  rw [hr1] at h; simp only at h
  rcases hr2 : l1.read8 with ⟨p6len, l2⟩
  rw [hr2] at h; simp only at h
  by_cases hb : (decide (p4len.toNat > 32) || decide (p6len.toNat > 128)) = true
  · simp [hb] at h
  simp only [hb, Bool.false_eq_true, if_false] at h
  rcases hr3 : l2.read8 with ⟨ea, l3⟩
  rw [hr3] at h; simp only at h
  rcases hr4 : l3.read8 with ⟨fl, l4⟩
  rw [hr4] at h; simp only at h
  rcases hr5 : l4.copyN 4 with ⟨p4, l5⟩
  rw [hr5] at h; simp only at h
  rcases hr6 : l5.copyN 16 with ⟨p6, l6⟩
  rw [hr6] at h; simp only at h
  obtain ⟨he, hd, rfl⟩ := fin_spec h
  obtain ⟨b6, rfl, hl6, he5, hd5⟩ := copyN_spec hr6 he
  obtain ⟨b4, rfl, hl4, he4, hd4⟩ := copyN_spec hr5 he5
  obtain ⟨he3, hd3⟩ := read8_spec hr4 he4
  obtain ⟨he2, hd2⟩ := read8_spec hr3 he3
  obtain ⟨he1, hd1⟩ := read8_spec hr2 he2
  obtain ⟨_, hv⟩ := read8_spec hr1 he1
  simp only [hd1, hd2, hd3, hd4, hd5, hd, List.append_nil] at hv
  subst hv
  have hb' : p4len.toNat ≤ 32 ∧ p6len.toNat ≤ 128 := by
    simp only [Bool.or_eq_true, decide_eq_true_eq, not_or, Nat.not_lt] at hb
    exact hb
  rw [bit7]
  exact .fourRDMapRule hb'.1 hb'.2 hl4 hl6

theorem sound_99 (v : Bytes) (o : Opt6) (h : decSimple 99 v = .ok o) : PLeaf 99 v o := by
  rw [decSimple_99] at h
  rcases hr1 : Lexer.read8 ⟨v, false⟩ with ⟨fl, l1⟩
  rw [hr1] at h; simp only at h
  rcases hr2 : l1.read8 with ⟨tc, l2⟩
  rw [hr2] at h; simp only at h
  rcases hr3 : l2.read16 with ⟨pmtu, l3⟩
  rw [hr3] at h; simp only at h
  obtain ⟨he, hd, rfl⟩ := fin_spec h
  obtain ⟨hp, hs⟩ := read16_spec hr3
  obtain ⟨he2, hd2⟩ := hs he
  obtain ⟨he1, hd1⟩ := read8_spec hr2 he2
  obtain ⟨_, hv⟩ := read8_spec hr1 he1
  simp only [hd1, hd2, hd, List.append_nil] at hv
  subst hv
  rw [bit7, bit0]
  simp only [decide_eq_true_eq]
  exact .fourRDNonMapRule hp

theorem sound_135 (v : Bytes) (o : Opt6) (h : decSimple 135 v = .ok o) : PLeaf 135 v o := by
  rw [decSimple_135] at h
  rcases hr : Lexer.read16 ⟨v, false⟩ with ⟨t, l⟩
  rw [hr] at h; simp only at h
  obtain ⟨he, hd, rfl⟩ := fin_spec h
  obtain ⟨ht, hs⟩ := read16_spec hr
  obtain ⟨_, hv⟩ := hs he
  simp only [hd, List.append_nil] at hv
  subst hv
  exact .relayPort ht

/-- **soundness, every leaf code.** -/
theorem decSimple_sound (c : Nat) (v : Bytes) (o : Opt6) (hcc : c ∉ containerCodes)
    (h : decSimple c v = .ok o) : PLeaf c v o := by
  by_cases h6 : c = 6
  · subst h6; exact sound_6 v o h
  by_cases h8 : c = 8
  · subst h8; exact sound_8 v o h
  by_cases h13 : c = 13
  · subst h13; exact sound_13 v o h
  by_cases h15 : c = 15
  · subst h15; exact sound_15 v o h
  by_cases h16 : c = 16
  · subst h16; exact sound_16 v o h
  by_cases h17 : c = 17
  · subst h17; exact sound_17 v o h
  by_cases h18 : c = 18
  · subst h18; rw [decSimple_18] at h; simp only [Res.ok.injEq] at h; subst h; exact .interfaceID
  by_cases h23 : c = 23
  · subst h23; exact sound_23 v o h
  by_cases h24 : c = 24
  · subst h24; exact sound_24 v o h
  by_cases h32 : c = 32
  · subst h32; exact sound_32 v o h
  by_cases h37 : c = 37
  · subst h37; exact sound_37 v o h
  by_cases h39 : c = 39
  · subst h39; exact sound_39 v o h
  by_cases h56 : c = 56
  · subst h56; exact sound_56 v o h
  by_cases h59 : c = 59
  · subst h59; rw [decSimple_59] at h; simp only [Res.ok.injEq] at h; subst h; exact .bootfileURL
  by_cases h60 : c = 60
  · subst h60; exact sound_60 v o h
  by_cases h61 : c = 61
  · subst h61; exact sound_61 v o h
  by_cases h62 : c = 62
  · subst h62; exact sound_62 v o h
  by_cases h79 : c = 79
  · subst h79; exact sound_79 v o h
  by_cases h87 : c = 87
  · subst h87; exact sound_87 v o h
  by_cases h88 : c = 88
  · subst h88; exact sound_88 v o h
  by_cases h98 : c = 98
  · subst h98; exact sound_98 v o h
  by_cases h99 : c = 99
  · subst h99; exact sound_99 v o h
  by_cases h135 : c = 135
  · subst h135; exact sound_135 v o h
  have hn : c ∉ simpleCodes := by
    simp only [simpleCodes, List.mem_cons, List.mem_nil_iff, or_false, not_or]
    exact ⟨h6, h8, h13, h15, h16, h17, h18, h23, h24, h32, h37, h39, h56, h59,
      h60, h61, h62, h79, h87, h88, h98, h99, h135⟩
  rw [decSimple_other c v hn] at h
  simp only [Res.ok.injEq] at h; subst h
  exact .generic (not_mem_knownCodes hcc hn)

end Dhcp.V6

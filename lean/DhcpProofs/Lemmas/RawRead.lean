import Dhcp.Raw
import Dhcp.Spec.Inet
import DhcpProofs.Lemmas.Basic
/-
  The reader (`readFrame`) against the specification's view of a frame:
  accessor by accessor, then the whole loop body.
-/
namespace Dhcp.Raw
open Dhcp Dhcp.Spec.Inet

/-! ### accessors -/

theorem byteAt_take (g : Bytes) {n i : Nat} (h : i < n) : byteAt (g.take n) i = byteAt g i := by
  simp [byteAt, List.getD_eq_getElem?_getD, h]

theorem byteAt_drop (g : Bytes) (n i : Nat) : byteAt (g.drop n) i = byteAt g (n + i) := by
  simp [byteAt, List.getD_eq_getElem?_getD, List.getElem?_drop]

theorem wordAt_take (g : Bytes) {n i : Nat} (h : i + 1 < n) : wordAt (g.take n) i = wordAt g i := by
  simp [wordAt, byteAt_take g (show i < n by omega), byteAt_take g h]

theorem wordAt_drop (g : Bytes) (n i : Nat) : wordAt (g.drop n) i = wordAt g (n + i) := by
  simp [wordAt, byteAt_drop, Nat.add_assoc]

theorem idx_ok {b : Bytes} {i : Nat} (h : i < b.length) : idx b i = .ok (b.getD i 0) := by
  simp [idx, List.getD_eq_getElem?_getD, List.getElem?_eq_getElem h]

theorem take2_drop {b : Bytes} {off : Nat} (h : off + 2 ≤ b.length) :
    (b.drop off).take 2 = [b.getD off 0, b.getD (off + 1) 0] := by
  have e1 : b.getD off 0 = b[off]'(by omega) := by
    simp [List.getD_eq_getElem?_getD, List.getElem?_eq_getElem (show off < b.length by omega)]
  have e2 : b.getD (off + 1) 0 = b[off + 1]'(by omega) := by
    simp [List.getD_eq_getElem?_getD, List.getElem?_eq_getElem (show off + 1 < b.length by omega)]
  rw [e1, e2, List.drop_eq_getElem_cons (by omega), List.drop_eq_getElem_cons (by omega)]
  rfl

theorem get16_ok {b : Bytes} {off : Nat} (h : off + 2 ≤ b.length) : get16 b off = .ok (wordAt b off) := by
  simp [get16, h, take2_drop h, beNat, wordAt, byteAt]

theorem and15 (x : Nat) : x &&& 0xf = x % 16 := Nat.and_two_pow_sub_one_eq_mod x 4
theorem shr4 (x : Nat) : x >>> 4 = x / 16 := Nat.shiftRight_eq_div_pow x 4

theorem headerLength_ok {b : Bytes} (h : 0 < b.length) : headerLength b = .ok (hdrLen b) := by
  have : (b.getD 0 0).toNat < 256 := (b.getD 0 0).toNat_lt
  simp only [headerLength, versIHL, idx_ok h, bind, Res.bind, pure, and15, u8, hdrLen, ihl, byteAt]
  congr 1; omega

theorem totalLength_ok {b : Bytes} (h : 4 ≤ b.length) : totalLength b = .ok (totalLen b) := by
  simp [totalLength, totalLenOff, get16_ok (show 2 + 2 ≤ b.length by omega), totalLen]

theorem hdrLen_le (b : Bytes) : hdrLen b ≤ 60 := by simp only [hdrLen, ihl]; omega
theorem totalLen_lt (b : Bytes) : totalLen b < 65536 := by
  have := (b.getD 2 0).toNat_lt; have := (b.getD 3 0).toNat_lt
  simp only [totalLen, wordAt, byteAt, Nat.reduceAdd]; omega

theorem payloadLength_ok {b : Bytes} (h : 4 ≤ b.length) (hle : hdrLen b ≤ totalLen b) :
    payloadLength b = .ok (totalLen b - hdrLen b) := by
  have := hdrLen_le b; have := totalLen_lt b
  simp only [payloadLength, totalLength_ok h, headerLength_ok (show 0 < b.length by omega), bind, Res.bind, pure, u16]
  congr 1; omega

theorem ipVersion_ok {b : Bytes} (h : 0 < b.length) : ipVersion b = some (version b) := by
  match b, h with
  | x :: _, _ => simp [ipVersion, ipVersionShift, shr4, version, byteAt]

/-- `isValid` decides the header-level conditions of the specification. -/
theorem isValid_ok {g : Bytes} (h : 20 ≤ g.length) :
    isValid g g.length = .ok (decide (5 ≤ ihl g ∧ hdrLen g ≤ totalLen g ∧ totalLen g ≤ g.length ∧ version g = 4)) := by
  simp only [isValid, headerLength_ok (show 0 < g.length by omega),
    totalLength_ok (show 4 ≤ g.length by omega), ipVersion_ok (show 0 < g.length by omega), bind, Res.bind, pure,
    ipv4MinimumSize, ipv4Version]
  have e : hdrLen g = 4 * ihl g := rfl
  rw [if_neg (by omega)]
  split
  · rename_i c
    have : ¬ (5 ≤ ihl g ∧ hdrLen g ≤ totalLen g ∧ totalLen g ≤ g.length ∧ version g = 4) := by omega
    simp [this]
  · rename_i c
    by_cases c4 : version g = 4
    · have : 5 ≤ ihl g ∧ hdrLen g ≤ totalLen g ∧ totalLen g ≤ g.length ∧ version g = 4 := by omega
      simp [this]
    · simp [c4]

/-! ### address matching -/

/-- the model's bound address as the specification sees it -/
def toSpec (b : Option Addr) : Bound := b.map (fun a => (a.ip, a.port))

theorem eq_decide {b : Bool} {P : Prop} [Decidable P] (h : b = true ↔ P) : b = decide P := by
  cases b <;> simp_all

theorem ipEqual4_iff (ip x : Bytes) (hx : x.length = 4) : ipEqual4 ip x = true ↔ AddrIs ip x := by
  unfold ipEqual4 AddrIs
  have hsplit : ip = ip.take 12 ++ ip.drop 12 := (List.take_append_drop 12 ip).symm
  by_cases h1 : ip.length = x.length
  · have : ip ≠ [0, 0, 0, 0, 0, 0, 0, 0, 0, 0, 255, 255] ++ x := by
      intro e; rw [e] at h1; simp at h1; omega
    simp only [h1, if_true, beq_iff_eq, this, or_false]
  · have hne : ip ≠ x := by intro e; exact h1 (by rw [e])
    by_cases h2 : ip.length = 16
    · rw [if_neg h1, if_pos ⟨h2, hx⟩]
      simp only [Bool.and_eq_true, beq_iff_eq, v4InV6Prefix, hne, false_or]
      constructor
      · intro ⟨a, b⟩; rw [hsplit, a, b]
      · intro e; rw [e]; simp
    · have : ip ≠ [0, 0, 0, 0, 0, 0, 0, 0, 0, 0, 255, 255] ++ x := by
        intro e; rw [e] at h2; simp [hx] at h2
      simp only [h1, if_false, h2, false_and, hne, this, or_self]
      simp

theorem udpMatch_eq (g : Bytes) (bound : Option Addr) (h4 : (dstAddr g).length = 4) :
    udpMatch (dstAddr g) (dstPort g) bound = decide (ForMe g (toSpec bound)) := by
  apply eq_decide
  cases bound with
  | none => simp [udpMatch, toSpec, ForMe]
  | some a =>
    obtain ⟨ip, port⟩ := a
    cases ip with
    | none =>
      simp only [udpMatch, toSpec, ForMe, Option.map_some, beq_iff_eq]
      exact eq_comm
    | some ip =>
      simp only [udpMatch, toSpec, ForMe, Option.map_some]
      by_cases c : ipEqual4 ip (dstAddr g) = true
      · simp only [c, if_true, beq_iff_eq, (ipEqual4_iff ip _ h4).1 c, and_true]
        exact eq_comm
      · have : ¬ AddrIs ip (dstAddr g) := fun h => c ((ipEqual4_iff ip _ h4).2 h)
        simp [c, this]

/-! ### the loop body -/

/-- What the specification says one loop iteration does with the bytes `g` it
received: EOF on nothing, delivery (cut to the caller's buffer) of a well-formed
frame addressed to the bound address, `continue` otherwise. -/
def specStep (bound : Bound) (buflen : Nat) (g : Bytes) : Step :=
  if g = [] then .eof
  else if WellFormedForMe g bound then .deliver ((udpData g).take buflen) (srcAddr g) (srcPort g)
  else .skip

theorem isValid_short {g : Bytes} (h : g.length < 20) (n : Nat) : isValid g n = .ok false := by
  simp [isValid, ipv4MinimumSize, h]

theorem consumeI_ok (l : Lexer) (n : Nat) (h : n ≤ l.data.length) :
    consumeI l (Int.ofNat n) = .ok (some (l.data.take n), { l with data := l.data.drop n }) := by
  simp [consumeI, Lexer.consume, h]

theorem getD_take (g : Bytes) {n i : Nat} (h : i < n) : (g.take n).getD i 0 = g.getD i 0 := by
  simp [List.getD_eq_getElem?_getD, h]

theorem hdrLen_take (g : Bytes) {n : Nat} (h : 0 < n) : hdrLen (g.take n) = hdrLen g := by
  simp [hdrLen, ihl, byteAt_take g h]

theorem totalLen_take (g : Bytes) {n : Nat} (h : 3 < n) : totalLen (g.take n) = totalLen g := by
  simp [totalLen, wordAt_take g (show 2 + 1 < n by omega)]

theorem payloadLength_hdr (g : Bytes) (hl20 : 20 ≤ hdrLen g) (htl : hdrLen g ≤ totalLen g)
    (hlen : totalLen g ≤ g.length) : payloadLength (g.take (hdrLen g)) = .ok (totalLen g - hdrLen g) := by
  have := payloadLength_ok (b := g.take (hdrLen g)) (by simp; omega)
    (by rw [hdrLen_take g (by omega), totalLen_take g (by omega)]; omega)
  rwa [hdrLen_take g (by omega), totalLen_take g (by omega)] at this

theorem slice_dst (g : Bytes) (hl20 : 20 ≤ hdrLen g) (hlen : hdrLen g ≤ g.length) :
    slice (g.take (hdrLen g)) dstAddrOff (dstAddrOff + ipv4AddressSize) = .ok (dstAddr g) := by
  have e : min 20 (hdrLen g) = 20 := by omega
  simp [slice, dstAddrOff, ipv4AddressSize, dstAddr, List.take_take, e, List.drop_take]
  omega

theorem slice_src (g : Bytes) (hl20 : 20 ≤ hdrLen g) (hlen : hdrLen g ≤ g.length) :
    slice (g.take (hdrLen g)) srcAddrOff (srcAddrOff + ipv4AddressSize) = .ok (srcAddr g) := by
  have e : min 16 (hdrLen g) = 16 := by omega
  simp [slice, srcAddrOff, ipv4AddressSize, srcAddr, List.take_take, e, List.drop_take]
  omega

theorem udp_word (g : Bytes) (htl : hdrLen g + 8 ≤ totalLen g) (hlen : totalLen g ≤ g.length)
    (i : Nat) (hi : i + 1 < 8) :
    get16 ((g.drop (hdrLen g)).take 8) i = .ok (wordAt (ipPayload g) i) := by
  rw [get16_ok (by simp; omega), wordAt_take _ hi, wordAt_drop, ipPayload, wordAt_drop, wordAt_take _ (by omega)]

theorem payload_eq (g : Bytes) :
    (((g.drop (hdrLen g)).drop 8).take (totalLen g - hdrLen g - 8)) = udpData g := by
  simp only [udpData, ipPayload, List.drop_drop, List.drop_take]

theorem dstAddr_length (g : Bytes) (h : 20 ≤ g.length) : (dstAddr g).length = 4 := by
  simp [dstAddr]; omega

/-- **The loop body refines the specification**, for every byte string. -/
theorem readPkt_eq (bound : Option Addr) (buflen : Nat) (g : Bytes) :
    readPkt bound buflen g = .ok (specStep (toSpec bound) buflen g) := by
  unfold readPkt
  simp only [udpMinimumSize]
  by_cases hg : g = []
  · subst hg; simp [specStep, pure]
  · have hlen : 0 < g.length := List.length_pos_iff.mpr hg
    rw [if_neg (by omega)]
    by_cases h20 : 20 ≤ g.length
    · simp only [Lexer.new, isValid_ok h20, bind, Res.bind]
      by_cases hv : 5 ≤ ihl g ∧ hdrLen g ≤ totalLen g ∧ totalLen g ≤ g.length ∧ version g = 4
      · obtain ⟨v1, v2, v3, v4⟩ := hv
        have e : hdrLen g = 4 * ihl g := rfl
        have hp : idx (g.take (hdrLen g)) protocolOff = .ok (g.getD 9 0) := by
          rw [idx_ok (by simp [protocolOff]; omega), protocolOff, getD_take g (by omega)]
        simp only [v1, v2, v3, v4, and_self, decide_true, Bool.not_true, Bool.false_eq_true, if_false,
          headerLength_ok hlen, consumeI_ok ⟨g, false⟩ (hdrLen g) (by simp; omega), orNil, hp,
          udpProtocolNumber]
        by_cases h17 : proto g = 17
        · have h17' : (g.getD 9 0).toNat = 17 := h17
          simp only [h17', ne_eq, not_true_eq_false, if_false, Lexer.has, List.length_drop]
          by_cases hroom : hdrLen g + 8 ≤ totalLen g
          · have hhas : 8 ≤ g.length - hdrLen g := by omega
            simp only [hhas, decide_true, Bool.not_true, Bool.false_eq_true, if_false,
              payloadLength_hdr g (by omega) v2 v3, if_neg (show ¬ totalLen g - hdrLen g < 8 by omega),
              consumeI_ok ⟨g.drop (hdrLen g), false⟩ 8 (by simp; omega),
              slice_dst g (by omega) (by omega), slice_src g (by omega) (by omega),
              udpDstPortOff, udpSrcPortOff, udp_word g hroom v3 2 (by omega), udp_word g hroom v3 0 (by omega)]
            have hwf : WellFormed g := ⟨h20, v4, v1, v3, hroom, h17⟩
            rw [show wordAt (ipPayload g) 2 = dstPort g from rfl, udpMatch_eq g bound (dstAddr_length g h20)]
            by_cases hme : ForMe g (toSpec bound)
            · simp only [hme, decide_true, Bool.not_true, Bool.false_eq_true, if_false]
              have hc : consumeI ⟨(g.drop (hdrLen g)).drop 8, false⟩
                  (Int.ofNat (totalLen g - hdrLen g) - Int.ofNat 8) =
                  .ok (some (((g.drop (hdrLen g)).drop 8).take (totalLen g - hdrLen g - 8)),
                    ⟨((g.drop (hdrLen g)).drop 8).drop (totalLen g - hdrLen g - 8), false⟩) := by
                have : Int.ofNat (totalLen g - hdrLen g) - Int.ofNat 8 = Int.ofNat (totalLen g - hdrLen g - 8) := by
                  simp only [Int.ofNat_eq_natCast]; omega
                rw [this, consumeI_ok _ _ (by simp; omega)]
              simp only [hc, payload_eq, pure, specStep, hg, if_false, WellFormedForMe, hwf, hme, and_self, if_true]
              rfl
            · simp [hme, specStep, hg, WellFormedForMe, pure]
          · have : ¬ WellFormed g := fun h => hroom h.2.2.2.2.1
            by_cases hhas : 8 ≤ g.length - hdrLen g
            · simp only [hhas, decide_true, Bool.not_true, Bool.false_eq_true, if_false,
                payloadLength_hdr g (by omega) v2 v3, if_pos (show totalLen g - hdrLen g < 8 by omega)]
              simp [specStep, hg, WellFormedForMe, this, pure]
            · simp [hhas, specStep, hg, WellFormedForMe, this, pure]
        · have h17' : ¬ (g.getD 9 0).toNat = 17 := h17
          have : ¬ WellFormed g := fun h => h17 h.2.2.2.2.2
          simp only [h17', ne_eq, not_false_eq_true, if_true]
          simp [specStep, hg, WellFormedForMe, this, pure]
      · simp only [hv, decide_false, Bool.not_false, if_true]
        have : ¬ WellFormed g := fun h => hv ⟨h.2.2.1, by have := h.2.2.2.2.1; omega, h.2.2.2.1, h.2.1⟩
        simp [specStep, hg, WellFormedForMe, this, pure]
    · simp only [Lexer.new, isValid_short (show g.length < 20 by omega), bind, Res.bind]
      have : ¬ WellFormed g := fun h => h20 h.1
      simp [specStep, hg, WellFormedForMe, this, pure]

theorem readFrame_eq (bound : Option Addr) (buflen : Nat) (f : Bytes) :
    readFrame bound buflen f = .ok (specStep (toSpec bound) buflen (f.take (60 + 8 + buflen))) := by
  simp [readFrame, readPkt_eq, ipv4MaximumHeaderSize, udpMinimumSize]

/-- a non-`skip` step is a result of `ReadFrom`; `skip` is not -/
def stepResult : Step → Option Step
  | .skip => none
  | s => some s

theorem readFrames_eq (bound : Option Addr) (buflen : Nat) (fs : List Bytes) :
    readFrames bound buflen fs =
      .ok (fs.filterMap (fun f => stepResult (specStep (toSpec bound) buflen (f.take (60 + 8 + buflen))))) := by
  induction fs with
  | nil => simp [readFrames]
  | cons f rest ih =>
    simp only [readFrames, readFrame_eq, ih, List.filterMap_cons]
    cases h : specStep (toSpec bound) buflen (f.take (60 + 8 + buflen)) <;> simp [stepResult, Res.map, Res.bind]

theorem filterMap_congr' {α β} (f g : α → Option β) (l : List α) (h : ∀ a ∈ l, f a = g a) :
    l.filterMap f = l.filterMap g := by
  induction l with
  | nil => rfl
  | cons a l ih =>
    simp only [List.filterMap_cons, h a (by simp), ih (fun b hb => h b (by simp [hb]))]

theorem filterMap_ite {α β} (p : α → Prop) [DecidablePred p] (d : α → β) (l : List α) :
    l.filterMap (fun a => if p a then some (d a) else none) = (l.filter (fun a => decide (p a))).map d := by
  induction l with
  | nil => rfl
  | cons a l ih =>
    by_cases h : p a <;> simp [h, ih]

/-- On frames that are not empty and fit the receive buffer the reader returns
exactly the well-formed frames addressed to it. -/
theorem readFrames_clean (bound : Option Addr) (buflen : Nat) (fs : List Bytes)
    (h : ∀ f ∈ fs, f ≠ [] ∧ f.length ≤ 60 + 8 + buflen) :
    readFrames bound buflen fs =
      .ok ((fs.filter (fun f => decide (WellFormedForMe f (toSpec bound)))).map
        (fun f => Step.deliver ((udpData f).take buflen) (srcAddr f) (srcPort f))) := by
  rw [readFrames_eq, ← filterMap_ite]
  apply congrArg
  apply filterMap_congr'
  intro f hf
  obtain ⟨h1, h2⟩ := h f hf
  rw [List.take_of_length_le h2]
  by_cases c : WellFormedForMe f (toSpec bound) <;> simp [specStep, h1, c, stepResult]

end Dhcp.Raw

import Dhcp.V4.Packet
/-
  C07, map iteration order: `sortedKeysFrom it o` (the code's `sortedKeys`
  run on the key order `it` that Go's runtime happens to yield) is
  `sortedKeys o` for EVERY permutation `it` of the key set — because the
  collected codes are sorted before 82 and 255 are appended.
-/
namespace Dhcp.V4
open Dhcp List

/-! ### insertion sort on codes -/

theorem insertCode_perm (x : UInt8) (l : List UInt8) : (insertCode x l).Perm (x :: l) := by
  induction l with
  | nil => exact Perm.refl _
  | cons y ys ih =>
    unfold insertCode
    split
    · exact Perm.refl _
    · exact (Perm.cons y ih).trans (Perm.swap x y ys)

theorem sortCodes_perm (l : List UInt8) : (sortCodes l).Perm l := by
  induction l with
  | nil => exact Perm.refl _
  | cons x xs ih =>
    show (insertCode x (sortCodes xs)).Perm (x :: xs)
    exact (insertCode_perm x _).trans (Perm.cons x ih)

def Asc (l : List UInt8) : Prop := l.Pairwise (fun a b => a.toNat ≤ b.toNat)

theorem insertCode_asc (x : UInt8) (l : List UInt8) (h : Asc l) : Asc (insertCode x l) := by
  induction l with
  | nil => exact pairwise_singleton _ _
  | cons y ys ih =>
    unfold insertCode
    have hy := (pairwise_cons.mp h)
    split
    · rename_i hxy
      refine pairwise_cons.mpr ⟨?_, h⟩
      intro b hb
      rcases mem_cons.mp hb with rfl | hb
      · exact hxy
      · exact Nat.le_trans hxy (hy.1 b hb)
    · rename_i hxy
      refine pairwise_cons.mpr ⟨?_, ih hy.2⟩
      intro b hb
      have := (insertCode_perm x ys).mem_iff.mp hb
      rcases mem_cons.mp this with rfl | hb
      · omega
      · exact hy.1 b hb

theorem sortCodes_asc (l : List UInt8) : Asc (sortCodes l) := by
  induction l with
  | nil => exact Pairwise.nil
  | cons x xs ih => exact insertCode_asc x _ ih

/-- an ascending list is determined by its elements (with multiplicity) -/
theorem asc_perm_eq : ∀ (l₁ l₂ : List UInt8), Asc l₁ → Asc l₂ → l₁.Perm l₂ → l₁ = l₂
  | [], l₂, _, _, hp => (Perm.nil_eq hp)
  | a :: t, [], _, _, hp => absurd hp.symm (by intro h; exact absurd (Perm.nil_eq h) (by simp))
  | a :: t, b :: u, h₁, h₂, hp => by
    have ha : a ∈ b :: u := hp.mem_iff.mp (mem_cons_self)
    have hb : b ∈ a :: t := hp.mem_iff.mpr (mem_cons_self)
    have hab : a.toNat ≤ b.toNat := by
      rcases mem_cons.mp hb with rfl | hb
      · exact Nat.le_refl _
      · exact (pairwise_cons.mp h₁).1 b hb
    have hba : b.toNat ≤ a.toNat := by
      rcases mem_cons.mp ha with rfl | ha
      · exact Nat.le_refl _
      · exact (pairwise_cons.mp h₂).1 a ha
    have e : a = b := UInt8.toNat_inj.mp (Nat.le_antisymm hab hba)
    subst e
    have := asc_perm_eq t u (pairwise_cons.mp h₁).2 (pairwise_cons.mp h₂).2 (Perm.cons_inv hp)
    rw [this]

/-- `sort.Ints` specified: ANY function returning an ascending permutation of its
input returns what `sortCodes` returns — the model does not depend on which
sorting algorithm the standard library uses -/
theorem sortCodes_unique (l r : List UInt8) (hr : Asc r) (hp : r.Perm l) : r = sortCodes l :=
  asc_perm_eq r (sortCodes l) hr (sortCodes_asc l) (hp.trans (sortCodes_perm l).symm)

theorem sortCodes_eq_of_perm {l₁ l₂ : List UInt8} (h : l₁.Perm l₂) : sortCodes l₁ = sortCodes l₂ :=
  asc_perm_eq _ _ (sortCodes_asc _) (sortCodes_asc _)
    ((sortCodes_perm l₁).trans (h.trans (sortCodes_perm l₂).symm))

theorem sortCodes_of_asc {l : List UInt8} (h : Asc l) : sortCodes l = l :=
  (sortCodes_unique l l h (Perm.refl _)).symm

/-! ### the key list of the model is ascending -/

theorem allCodes_asc : Asc Opts.allCodes := by
  unfold Asc Opts.allCodes
  rw [pairwise_map]
  have : (List.range 256).Pairwise (fun a b => a < b) := pairwise_lt_range
  refine Pairwise.imp_of_mem ?_ this
  intro a b ha hb hab
  have ha' := mem_range.mp ha
  have hb' := mem_range.mp hb
  simp only [UInt8.toNat_ofNat']
  omega

theorem keys_asc (o : Opts) : Asc o.keys :=
  Pairwise.sublist filter_sublist allCodes_asc

theorem mem_keys (o : Opts) (k : UInt8) : k ∈ o.keys ↔ (o.f k).isSome = true := by
  unfold Opts.keys
  rw [mem_filter]
  constructor
  · exact fun h => h.2
  · intro h
    refine ⟨?_, h⟩
    unfold Opts.allCodes
    exact mem_map.mpr ⟨k.toNat, mem_range.mpr k.toNat_lt, by simp⟩

/-- **the iteration order is irrelevant**: whatever order the runtime yields the
map's keys in, `sortedKeys` computes the same list -/
theorem sortedKeysFrom_eq (o : Opts) (it : List UInt8) (h : it.Perm o.keys) :
    sortedKeysFrom it = sortedKeys o := by
  unfold sortedKeysFrom sortedKeys
  have h1 : sortCodes (it.filter (fun k => k != optAgentInfo && k != optEnd)) =
      o.keys.filter (fun k => k != optAgentInfo && k != optEnd) := by
    rw [sortCodes_eq_of_perm (Perm.filter _ h)]
    exact sortCodes_of_asc (Pairwise.sublist filter_sublist (keys_asc o))
  have h2 : ∀ c, it.contains c = o.has c := by
    intro c
    rw [Bool.eq_iff_iff, contains_iff_mem, h.mem_iff, mem_keys]
    rfl
  rw [h1, h2, h2]

theorem marshalOptsFrom_eq (o : Opts) (it : List UInt8) (h : it.Perm o.keys) :
    marshalOptsFrom it o = marshalOpts o := by
  unfold marshalOptsFrom marshalOpts
  rw [sortedKeysFrom_eq o it h]

end Dhcp.V4

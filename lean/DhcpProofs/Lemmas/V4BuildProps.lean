import Dhcp.V4.Domain
import DhcpProofs.Lemmas.V4Build
/-
  Proofs of the C15 clauses (stated in Props/C15.lean): each combines the frame
  lemma `build_*` (user modifiers that do not write a field leave the default)
  with the closed form `*_nil` of the builder without user modifiers.
-/
namespace Dhcp.V4
open Dhcp List

theorem length_pos_iff_ne_nil (v : Bytes) : v.length > 0 ↔ v ≠ [] := by
  cases v <;> simp

theorem copiedValue_eq (src : Pkt4) (c : UInt8) (v : Bytes) (h : src.opts.get c = some v) (hv : v ≠ []) :
    copiedValue src c = some v := by
  have : v.length > 0 := (length_pos_iff_ne_nil v).2 hv
  simp [copiedValue, h, this]

theorem copiedValue_ne_none_iff (src : Pkt4) (c : UInt8) :
    copiedValue src c ≠ none ↔ ∃ v, src.opts.get c = some v ∧ v ≠ [] := by
  unfold copiedValue
  cases h : src.opts.get c with
  | none => simp
  | some v =>
    by_cases hv : v.length > 0
    · have : v ≠ [] := (length_pos_iff_ne_nil v).1 hv
      simp [hv, this]
    · have : v = [] := by
        cases v with
        | nil => rfl
        | cons a t => exact absurd (by simp) hv
      simp [this]

/-! ### reply -/

theorem replyOp_ne (op : UInt8) : replyOp op ≠ op := by
  unfold replyOp
  by_cases h : op = opBootRequest
  · subst h; decide
  · simp only [h, if_false]; exact fun e => h e.symm

theorem reply_opcode (xid : Bytes) (req : Pkt4) (user : List Modifier) (h : NoWrite user .op) :
    (newReplyFromRequest xid req user).op ≠ req.op ∧
    (req.op = opBootRequest → (newReplyFromRequest xid req user).op = opBootReply) ∧
    (req.op ≠ opBootRequest → (newReplyFromRequest xid req user).op = opBootRequest) := by
  have e : (newReplyFromRequest xid req user).op = replyOp req.op := by
    unfold newReplyFromRequest; rw [build_op _ _ _ h, replyFromRequest_nil]
  rw [e]
  refine ⟨replyOp_ne _, fun h1 => by simp [replyOp, h1], fun h1 => by simp [replyOp, h1]⟩

theorem reply_fields (xid : Bytes) (req : Pkt4) (user : List Modifier) :
    (NoWrite user .xid → (newReplyFromRequest xid req user).xid = req.xid) ∧
    (NoWrite user .htype → (newReplyFromRequest xid req user).htype = req.htype) ∧
    (NoWrite user .hw → (newReplyFromRequest xid req user).hw = req.hw) ∧
    (NoWrite user .flags → (newReplyFromRequest xid req user).flags = req.flags) ∧
    (NoWrite user .giaddr → (newReplyFromRequest xid req user).giaddr = req.giaddr) := by
  unfold newReplyFromRequest
  refine ⟨fun h => ?_, fun h => ?_, fun h => ?_, fun h => ?_, fun h => ?_⟩
  · rw [build_xid _ _ _ h, replyFromRequest_nil]
  · rw [build_htype _ _ _ h, replyFromRequest_nil]
  · rw [build_hw _ _ _ h, replyFromRequest_nil]
  · rw [build_flags _ _ _ h, replyFromRequest_nil]
  · rw [build_giaddr _ _ _ h, replyFromRequest_nil]

theorem reply_nil_get (xid : Bytes) (req : Pkt4) (c : UInt8) (hc : c = optAgentInfo ∨ c = optClientID) :
    (build (.replyFromRequest req) xid []).opts.get c = copiedValue req c := by
  rw [replyFromRequest_nil]
  show (copyOpt req optClientID (copyOpt req optAgentInfo Opts.empty)).get c = _
  rcases hc with rfl | rfl
  · rw [copyOpt_get_ne _ _ (by decide), copyOpt_get_self _ _ _ rfl]
  · rw [copyOpt_get_self]
    rw [copyOpt_get_ne _ _ (by decide)]; rfl

theorem reply_echo (xid : Bytes) (req : Pkt4) (user : List Modifier) (c : UInt8)
    (hc : c = optAgentInfo ∨ c = optClientID) (h : NoWrite user (.opt c)) :
    ((newReplyFromRequest xid req user).opts.get c ≠ none ↔ ∃ v, req.opts.get c = some v ∧ v ≠ []) ∧
    (∀ v, req.opts.get c = some v → v ≠ [] → (newReplyFromRequest xid req user).opts.get c = some v) := by
  unfold newReplyFromRequest
  rw [build_opt _ _ _ c h, reply_nil_get xid req c hc]
  exact ⟨copiedValue_ne_none_iff req c, fun v h1 h2 => copiedValue_eq req c v h1 h2⟩

theorem reply_no_other (xid : Bytes) (req : Pkt4) (k : UInt8) (h1 : k ≠ optAgentInfo) (h2 : k ≠ optClientID) :
    (newReplyFromRequest xid req []).opts.get k = none := by
  unfold newReplyFromRequest
  rw [replyFromRequest_nil]
  show (copyOpt req optClientID (copyOpt req optAgentInfo Opts.empty)).get k = _
  rw [copyOpt_get_ne _ _ h2, copyOpt_get_ne _ _ h1]; rfl

/-! ### request from offer -/

theorem offer_nil_opts (xid : Bytes) (offer : Pkt4) (k : UInt8) :
    (build (.requestFromOffer offer) xid []).opts.get k =
      if k = optParamList then some [1, 3, 15, 6]
      else if k = optServerID then copiedValue offer optServerID
      else if k = optRequestedIP then some (ipTo4Bytes offer.yiaddr)
      else if k = optMessageType then some [mtRequest] else none := by
  rw [requestFromOffer_nil]
  show ((copyOpt offer optServerID _).set optParamList [1, 3, 15, 6]).get k = _
  rw [Opts.get_set]
  by_cases h1 : k = optParamList
  · simp [h1]
  · simp only [h1, if_false]
    by_cases h2 : k = optServerID
    · subst h2
      rw [copyOpt_get_self]
      · simp
      · have h1 : optServerID ≠ optRequestedIP := by decide
        have h2 : optServerID ≠ optMessageType := by decide
        simp [h1, h2]
    · rw [copyOpt_get_ne _ _ h2]; simp [h2]

theorem request_from_offer (xid : Bytes) (offer : Pkt4) (user : List Modifier) :
    (NoWrite user .xid → (newRequestFromOffer xid offer user).xid = offer.xid) ∧
    (NoWrite user (.opt optMessageType) →
      (newRequestFromOffer xid offer user).opts.get optMessageType = some [mtRequest]) ∧
    (NoWrite user (.opt optRequestedIP) →
      (newRequestFromOffer xid offer user).opts.get optRequestedIP = some (ipTo4Bytes offer.yiaddr)) ∧
    (NoWrite user (.opt optServerID) →
      (∀ v, offer.opts.get optServerID = some v → v ≠ [] →
        (newRequestFromOffer xid offer user).opts.get optServerID = some v) ∧
      ((newRequestFromOffer xid offer user).opts.get optServerID ≠ none ↔
        ∃ v, offer.opts.get optServerID = some v ∧ v ≠ [])) ∧
    (NoWrite user (.opt optParamList) →
      (newRequestFromOffer xid offer user).opts.get optParamList = some [1, 3, 15, 6]) ∧
    (NoWrite user .ciaddr → (newRequestFromOffer xid offer user).ciaddr = offer.ciaddr) ∧
    (NoWrite user .hw → (newRequestFromOffer xid offer user).hw = offer.hw) ∧
    (NoWrite user .flags → (newRequestFromOffer xid offer user).flags = offer.flags) ∧
    (NoWrite user .op → (offer.op = opBootReply → (newRequestFromOffer xid offer user).op = opBootRequest)) := by
  unfold newRequestFromOffer
  refine ⟨fun h => ?_, fun h => ?_, fun h => ?_, fun h => ?_, fun h => ?_, fun h => ?_, fun h => ?_,
    fun h => ?_, fun h ho => ?_⟩
  · rw [build_xid _ _ _ h, requestFromOffer_nil]
  · rw [build_opt _ _ _ _ h, offer_nil_opts]
    have h1 : optMessageType ≠ optParamList := by decide
    have h2 : optMessageType ≠ optServerID := by decide
    have h3 : optMessageType ≠ optRequestedIP := by decide
    simp [h1, h2, h3]
  · rw [build_opt _ _ _ _ h, offer_nil_opts]
    have h1 : optRequestedIP ≠ optParamList := by decide
    have h2 : optRequestedIP ≠ optServerID := by decide
    simp [h1, h2]
  · rw [build_opt _ _ _ _ h, offer_nil_opts]
    have h1 : optServerID ≠ optParamList := by decide
    simp only [h1, if_false, if_true]
    exact ⟨fun v a b => copiedValue_eq offer _ v a b, copiedValue_ne_none_iff offer _⟩
  · rw [build_opt _ _ _ _ h, offer_nil_opts]; rfl
  · rw [build_ciaddr _ _ _ h, requestFromOffer_nil]
  · rw [build_hw _ _ _ h, requestFromOffer_nil]
  · rw [build_flags _ _ _ h, requestFromOffer_nil]
  · rw [build_op _ _ _ h, requestFromOffer_nil]
    show replyOp offer.op = _
    rw [ho]; decide

theorem ipTo4Bytes_eq_ip4 (ip : IP) (h : ip ≠ none) : ipTo4Bytes ip = ip4 ip := by
  cases ip with
  | none => exact absurd rfl h
  | some b => rfl

theorem request_from_offer_ip (xid : Bytes) (offer : Pkt4) (user : List Modifier)
    (h : NoWrite user (.opt optRequestedIP)) :
    (offer.yiaddr ≠ none →
      (newRequestFromOffer xid offer user).opts.get optRequestedIP = some (ip4 offer.yiaddr)) ∧
    (∀ b, offer.yiaddr = some b → b.length = 4 →
      (newRequestFromOffer xid offer user).opts.get optRequestedIP = some b) := by
  have e := (request_from_offer xid offer user).2.2.1 h
  refine ⟨fun hn => by rw [e, ipTo4Bytes_eq_ip4 _ hn], fun b hb hl => ?_⟩
  rw [e, hb]; simp [ipTo4Bytes, to4, hl]

/-- witness: an offer whose `YourIPAddr` is nil -/
def offerNilYiaddr : Pkt4 :=
  { op := 2, htype := 1, hw := [2, 0, 0, 0, 0, 1], hops := 0, xid := [1, 2, 3, 4], secs := 0, flags := 0,
    ciaddr := none, yiaddr := none, siaddr := none, giaddr := none, sname := [], file := [],
    opts := (Opts.empty.set 53 [2]).set 54 [192, 168, 1, 1] }

theorem request_from_offer_nil_yiaddr :
    ¬ ∀ (xid : Bytes) (offer : Pkt4),
      (newRequestFromOffer xid offer []).opts.get optRequestedIP = some (ip4 offer.yiaddr) := by
  intro h
  have := h [0, 0, 0, 0] offerNilYiaddr
  revert this; decide

/-! ### renew, release, inform, discover -/

theorem renew (xid : Bytes) (ack : Pkt4) (user : List Modifier) :
    (NoWrite user .ciaddr → (newRenewFromAck xid ack user).ciaddr = ack.yiaddr) ∧
    (NoWrite user .flags → isBroadcast (newRenewFromAck xid ack user) = false ∧
      (newRenewFromAck xid ack user).flags = ack.flags % 32768) ∧
    (NoWrite user (.opt optMessageType) →
      (newRenewFromAck xid ack user).opts.get optMessageType = some [mtRequest]) ∧
    (NoWrite user (.opt optRequestedIP) → (newRenewFromAck xid ack user).opts.get optRequestedIP = none) ∧
    (NoWrite user (.opt optServerID) → (newRenewFromAck xid ack user).opts.get optServerID = none) ∧
    (NoWrite user (.opt optParamList) →
      (newRenewFromAck xid ack user).opts.get optParamList = some [1, 3, 15, 6]) ∧
    (NoWrite user .xid → (newRenewFromAck xid ack user).xid = ack.xid) ∧
    (NoWrite user .hw → (newRenewFromAck xid ack user).hw = ack.hw) := by
  unfold newRenewFromAck
  refine ⟨fun h => ?_, fun h => ?_, fun h => ?_, fun h => ?_, fun h => ?_, fun h => ?_, fun h => ?_, fun h => ?_⟩
  · rw [build_ciaddr _ _ _ h, renewFromAck_nil]
  · have e : (build (.renewFromAck ack) xid user).flags = (setUnicast ack).flags := by
      rw [build_flags _ _ _ h, renewFromAck_nil]; rfl
    refine ⟨?_, by rw [e, setUnicast_flags]⟩
    have := isBroadcast_setUnicast ack
    simp only [isBroadcast] at this ⊢
    rw [e]; exact this
  · rw [build_opt _ _ _ _ h, renewFromAck_nil]; rfl
  · rw [build_opt _ _ _ _ h, renewFromAck_nil]; rfl
  · rw [build_opt _ _ _ _ h, renewFromAck_nil]; rfl
  · rw [build_opt _ _ _ _ h, renewFromAck_nil]; rfl
  · rw [build_xid _ _ _ h, renewFromAck_nil]
  · rw [build_hw _ _ _ h, renewFromAck_nil]

theorem release_nil_get54 (xid : Bytes) (ack : Pkt4) :
    (build (.releaseFromAck ack) xid []).opts.get optServerID = copiedValue ack optServerID := by
  rw [releaseFromAck_nil]
  show (copyOpt ack optServerID _).get optServerID = _
  rw [copyOpt_get_self]; decide

theorem release (xid : Bytes) (ack : Pkt4) (user : List Modifier) :
    (NoWrite user (.opt optMessageType) →
      (newReleaseFromAck xid ack user).opts.get optMessageType = some [mtRelease]) ∧
    (NoWrite user .ciaddr → (newReleaseFromAck xid ack user).ciaddr = ack.yiaddr) ∧
    (NoWrite user .hw → (newReleaseFromAck xid ack user).hw = ack.hw) ∧
    (NoWrite user .flags → isBroadcast (newReleaseFromAck xid ack user) = false ∧
      (newReleaseFromAck xid ack user).flags = 0) ∧
    (NoWrite user .op → (newReleaseFromAck xid ack user).op = opBootRequest) ∧
    (NoWrite user (.opt optServerID) →
      (∀ v, ack.opts.get optServerID = some v → v ≠ [] →
        (newReleaseFromAck xid ack user).opts.get optServerID = some v) ∧
      ((newReleaseFromAck xid ack user).opts.get optServerID ≠ none ↔
        ∃ v, ack.opts.get optServerID = some v ∧ v ≠ [])) := by
  unfold newReleaseFromAck
  refine ⟨fun h => ?_, fun h => ?_, fun h => ?_, fun h => ?_, fun h => ?_, fun h => ?_⟩
  · rw [build_opt _ _ _ _ h, releaseFromAck_nil]
    show (copyOpt ack optServerID _).get optMessageType = _
    rw [copyOpt_get_ne _ _ (by decide)]; rfl
  · rw [build_ciaddr _ _ _ h, releaseFromAck_nil]
  · rw [build_hw _ _ _ h, releaseFromAck_nil]
  · have e : (build (.releaseFromAck ack) xid user).flags = 0 := by
      rw [build_flags _ _ _ h, releaseFromAck_nil]
      show 0 &&& unicastMask = 0
      decide
    refine ⟨?_, e⟩
    simp only [isBroadcast]; rw [e]; decide
  · rw [build_op _ _ _ h, releaseFromAck_nil]; rfl
  · rw [build_opt _ _ _ _ h, release_nil_get54]
    exact ⟨fun v a b => copiedValue_eq ack _ v a b, copiedValue_ne_none_iff ack _⟩

theorem inform (xid hw : Bytes) (localIP : IP) (user : List Modifier) :
    (NoWrite user (.opt optMessageType) →
      (newInform xid hw localIP user).opts.get optMessageType = some [mtInform]) ∧
    (NoWrite user .hw → (newInform xid hw localIP user).hw = hw) ∧
    (NoWrite user .ciaddr → (newInform xid hw localIP user).ciaddr = localIP) ∧
    (NoWrite user .op → (newInform xid hw localIP user).op = opBootRequest) ∧
    (NoWrite user .flags → (newInform xid hw localIP user).flags = 0) ∧
    (NoWrite user .xid → (newInform xid hw localIP user).xid = xid) := by
  unfold newInform
  refine ⟨fun h => ?_, fun h => ?_, fun h => ?_, fun h => ?_, fun h => ?_, fun h => ?_⟩
  · rw [build_opt _ _ _ _ h, inform_nil]; rfl
  · rw [build_hw _ _ _ h, inform_nil]
  · rw [build_ciaddr _ _ _ h, inform_nil]
  · rw [build_op _ _ _ h, inform_nil]; rfl
  · rw [build_flags _ _ _ h, inform_nil]; rfl
  · rw [build_xid _ _ _ h, inform_nil]; rfl

theorem discover (xid hw : Bytes) (user : List Modifier) :
    (NoWrite user (.opt optMessageType) →
      (newDiscovery xid hw user).opts.get optMessageType = some [mtDiscover]) ∧
    (NoWrite user .hw → (newDiscovery xid hw user).hw = hw) ∧
    (NoWrite user (.opt optParamList) →
      (newDiscovery xid hw user).opts.get optParamList = some [1, 3, 15, 6]) ∧
    (NoWrite user .op → (newDiscovery xid hw user).op = opBootRequest) ∧
    (NoWrite user .ciaddr → (newDiscovery xid hw user).ciaddr = some ipv4zero) ∧
    (NoWrite user .xid → (newDiscovery xid hw user).xid = xid) := by
  unfold newDiscovery
  refine ⟨fun h => ?_, fun h => ?_, fun h => ?_, fun h => ?_, fun h => ?_, fun h => ?_⟩
  · rw [build_opt _ _ _ _ h, discovery_nil]; rfl
  · rw [build_hw _ _ _ h, discovery_nil]
  · rw [build_opt _ _ _ _ h, discovery_nil]; rfl
  · rw [build_op _ _ _ h, discovery_nil]; rfl
  · rw [build_ciaddr _ _ _ h, discovery_nil]; rfl
  · rw [build_xid _ _ _ h, discovery_nil]; rfl

/-! ### user modifiers prevail -/

theorem last_writer (b : Builder) (xid : Bytes) (pre post : List Modifier) (m : Modifier) (f : Field)
    (h : NoWrite post f) :
    (build b xid (pre ++ m :: post)).field f = (apply m (build b xid pre)).field f := by
  have e : pre ++ m :: post = (pre ++ [m]) ++ post := by simp
  rw [e, build_eq b xid ((pre ++ [m]) ++ post), applyAll_append, applyAll_frame post f h,
    ← build_eq b xid (pre ++ [m]), build_snoc]

theorem user_prevails (b : Builder) (xid : Bytes) (user : List Modifier) :
    (∀ t, (build b xid (user ++ [.withMessageType t])).opts.get optMessageType = some [t]) ∧
    (∀ ip, (build b xid (user ++ [.withClientIP ip])).ciaddr = ip) ∧
    (∀ x, (build b xid (user ++ [.withTransactionID x])).xid = x) ∧
    (∀ hw, (build b xid (user ++ [.withHwAddr hw])).hw = hw) ∧
    (∀ ip, (build b xid (user ++ [.withGatewayIP ip])).giaddr = ip) ∧
    (isBroadcast (build b xid (user ++ [.withBroadcast true])) = true) ∧
    (isBroadcast (build b xid (user ++ [.withBroadcast false])) = false) ∧
    (∀ c, (build b xid (user ++ [.withoutOption c])).opts.get c = none) ∧
    (∀ c v, (build b xid (user ++ [.withGeneric c v])).opts.get c = some v) ∧
    (∀ cs, (build b xid (user ++ [.withRequestedOptions cs])).opts.get optParamList =
        some ((addCodes (paramRequestList (build b xid user)) cs).map (·.code))) := by
  refine ⟨fun t => ?_, fun ip => ?_, fun x => ?_, fun hw => ?_, fun ip => ?_, ?_, ?_, fun c => ?_,
    fun c v => ?_, fun cs => ?_⟩
  all_goals rw [build_snoc]
  · simp [apply]
  · rfl
  · rfl
  · rfl
  · rfl
  · exact isBroadcast_setBroadcast _
  · exact isBroadcast_setUnicast _
  · simp [apply]
  · simp [apply]
  · simp [apply, requestOptions]

/-! ### `OptionCodeList.Add` keeps what was there and adds what is asked for -/

theorem mem_addCodes_of_mem (l cs : List OptCode) (c : OptCode) (h : c ∈ l) : c ∈ addCodes l cs := by
  unfold addCodes
  induction cs generalizing l with
  | nil => simpa using h
  | cons a cs ih =>
    simp only [List.foldl_cons]
    apply ih
    split
    · exact h
    · exact List.mem_append_left _ h

theorem addCodes_mem (l cs : List OptCode) (c : OptCode) (h : c ∈ cs) : c ∈ addCodes l cs := by
  induction cs generalizing l with
  | nil => cases h
  | cons a cs ih =>
    rcases List.mem_cons.mp h with rfl | h
    · have : c ∈ (if l.contains c then l else l ++ [c]) := by
        split
        · rename_i hc; simpa using hc
        · simp
      simpa [addCodes] using mem_addCodes_of_mem _ cs c this
    · simpa [addCodes] using ih (if l.contains a then l else l ++ [a]) h


end Dhcp.V4

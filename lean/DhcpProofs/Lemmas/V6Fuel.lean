import DhcpProofs.Lemmas.V6Simple
/- `fuelFor` (input length + 2) is enough decoder fuel for any encoder output. -/
namespace Dhcp.V6
open Dhcp List

theorem encPfx_length (pfx : Option (Nat × IP)) : 1 ≤ (encPfx pfx).length := by
  cases pfx with
  | none => simp [encPfx]
  | some q => obtain ⟨n, ip⟩ := q; simp [encPfx]

mutual
theorem fuelOpt_le : (o : Opt6) → fuelOpt o ≤ (encOpt o).length + 2
  | .iana i t1 t2 os => by
    have := fuelOpts_le os
    simp only [fuelOpt, encOpt, List.length_append, copyInto_length, encDur_length]; omega
  | .iata i os => by
    have := fuelOpts_le os
    simp only [fuelOpt, encOpt, List.length_append, copyInto_length]; omega
  | .iaaddr ip p v os => by
    have := fuelOpts_le os
    simp only [fuelOpt, encOpt, List.length_append, encDur_length]; omega
  | .relayMsg m => by
    have := fuelMsg_le m
    simp only [fuelOpt, encOpt]; omega
  | .iapd i t1 t2 os => by
    have := fuelOpts_le os
    simp only [fuelOpt, encOpt, List.length_append, copyInto_length, encDur_length]; omega
  | .iaprefix p v pfx os => by
    have := fuelOpts_le os
    simp only [fuelOpt, encOpt, List.length_append, encDur_length]; omega
  | .fourRD os => by
    have := fuelOpts_le os
    simp only [fuelOpt, encOpt]; omega
  | .clientID _ | .serverID _ | .oro _ | .elapsed _ | .status .. | .userClass _ | .vendorClass ..
  | .vendorOpts .. | .interfaceID _ | .dns _ | .domainSearch _ | .infoRefresh _ | .remoteID ..
  | .fqdn .. | .ntp _ | .bootfileURL _ | .bootfileParam _ | .archType _ | .nii .. | .clientLLA ..
  | .dhcpv4Msg _ | .dhcp4o6Server _ | .fourRDMapRule .. | .fourRDNonMapRule .. | .relayPort _
  | .generic .. => by simp only [fuelOpt]; omega
theorem fuelOpts_le : (os : List Opt6) → fuelOpts os ≤ (encOpts os).length
  | [] => by simp [fuelOpts]
  | o :: os => by
    have h1 := fuelOpt_le o
    have h2 := fuelOpts_le os
    simp only [fuelOpts, encOpts, List.length_append, tlv_length]; omega
theorem fuelMsg_le : (m : Msg6) → fuelMsg m ≤ (encMsg m).length
  | .msg t xid os => by
    have := fuelOpts_le os
    simp only [fuelMsg, encMsg, List.length_cons, List.length_append, copyInto_length]; omega
  | .relay t h l p os => by
    have := fuelOpts_le os
    simp only [fuelMsg, encMsg, List.length_cons, List.length_append]; omega
end

/-- the decoder entry point reads back every well-formed message -/
theorem dec6_encMsg (m : Msg6) (h : WFMsg m) : dec6 (encMsg m) = .ok m := by
  unfold dec6 fuelFor
  exact roundtrip_msg m h _ (by have := fuelMsg_le m; omega)

theorem parseOption_encOpt (o : Opt6) (h : WFOpt o) : parseOption o.code (encOpt o) = .ok o := by
  unfold parseOption fuelFor
  exact rtOpt simpleRT_all o h _ (by have := fuelOpt_le o; omega)

end Dhcp.V6

import DhcpProofs.Lemmas.V6Basic
/-
  The DHCPv6 round trip `decode (encode m) = m`, by mutual structural recursion
  over the nested inductive `Opt6`/`Msg6`.  The non-recursive ("simple") option
  codecs enter through one hypothesis `SimpleRT`, discharged per constructor in
  V6Simple.lean.
-/
namespace Dhcp.V6
open Dhcp List

/-- options whose decoder is `decSimple` (no nested option list, no nested message) -/
def isSimple : Opt6 → Bool
  | .clientID _ | .serverID _ | .iana .. | .iata .. | .iaaddr .. | .relayMsg _ | .iapd ..
  | .iaprefix .. | .fourRD _ => false
  | _ => true

/-- the round trip of every simple option codec -/
def SimpleRT : Prop := ∀ o : Opt6, isSimple o = true → WFOpt o → decSimple o.code (encOpt o) = .ok o

theorem code_lt (o : Opt6) (h : WFOpt o) : o.code < 65536 := by
  cases o <;> simp only [Opt6.code] <;> try omega
  all_goals (simp only [WFOpt] at h; omega)

theorem parseOpt_simple (f : Nat) (o : Opt6) (hs : isSimple o = true) (hw : WFOpt o) (data : Bytes) :
    parseOpt (f + 1) o.code data = decSimple o.code data := by
  have hk : o.code ≠ 1 ∧ o.code ≠ 2 ∧ o.code ≠ 3 ∧ o.code ≠ 4 ∧ o.code ≠ 5 ∧ o.code ≠ 9 ∧
      o.code ≠ 25 ∧ o.code ≠ 26 ∧ o.code ≠ 97 := by
    cases o
    case generic c d =>
      simp only [WFOpt, knownCodes] at hw
      obtain ⟨_, hn⟩ := hw
      simp only [List.mem_cons, List.mem_nil_iff, or_false, not_or] at hn
      simp only [Opt6.code]; omega
    all_goals first
      | (simp [isSimple] at hs; done)
      | (simp only [Opt6.code]; decide)
  obtain ⟨h1, h2, h3, h4, h5, h9, h25, h26, h97⟩ := hk
  simp only [parseOpt, h1, h2, h3, h4, h5, h9, h25, h26, h97, if_false]

theorem parseOpt_1 (f : Nat) (d : Bytes) : parseOpt (f + 1) 1 d = (decDUID d).map .clientID := by
  simp [parseOpt]
theorem parseOpt_2 (f : Nat) (d : Bytes) : parseOpt (f + 1) 2 d = (decDUID d).map .serverID := by
  simp [parseOpt]
theorem parseOpt_3 (f : Nat) (d : Bytes) :
    parseOpt (f + 1) 3 d = decIA .iana (fun x => decOptsF f x) d := by simp [parseOpt]
theorem parseOpt_4 (f : Nat) (d : Bytes) :
    parseOpt (f + 1) 4 d = decIATA (fun x => decOptsF f x) d := by simp [parseOpt]
theorem parseOpt_5 (f : Nat) (d : Bytes) :
    parseOpt (f + 1) 5 d = decIAAddr (fun x => decOptsF f x) d := by simp [parseOpt]
theorem parseOpt_9 (f : Nat) (d : Bytes) : parseOpt (f + 1) 9 d = (decMsgF f d).map .relayMsg := by
  simp [parseOpt]
theorem parseOpt_25 (f : Nat) (d : Bytes) :
    parseOpt (f + 1) 25 d = decIA .iapd (fun x => decOptsF f x) d := by simp [parseOpt]
theorem parseOpt_26 (f : Nat) (d : Bytes) :
    parseOpt (f + 1) 26 d = decIAPrefix (fun x => decOptsF f x) d := by simp [parseOpt]
theorem parseOpt_97 (f : Nat) (d : Bytes) : parseOpt (f + 1) 97 d = (decOptsF f d).map .fourRD := by
  simp [parseOpt]

theorem Res.map_ok {α β : Type} (f : α → β) (a : α) : (Res.ok a).map f = .ok (f a) := rfl

/-- every element of a well-formed list is well-formed and framed -/
theorem WFOpts_mem {os : List Opt6} (h : WFOpts os) : ∀ o ∈ os, WFOpt o ∧ (encOpt o).length < 65536 := by
  induction os with
  | nil => intro o ho; simp at ho
  | cons a os ih =>
    intro o ho
    simp only [WFOpts] at h
    rcases List.mem_cons.mp ho with rfl | h'
    · exact ⟨h.1, h.2.1⟩
    · exact ih h.2.2 o h'

theorem fuelOpts_mem {os : List Opt6} : ∀ o ∈ os, fuelOpt o ≤ fuelOpts os := by
  induction os with
  | nil => intro o ho; simp at ho
  | cons a os ih =>
    intro o ho
    simp only [fuelOpts]
    rcases List.mem_cons.mp ho with rfl | h'
    · omega
    · have := ih o h'; omega

/-- shape of a container option's decoder on its encoder's output, given that
the nested list reads back -/
theorem decIA_enc (mk : Bytes → Dur → Dur → List Opt6 → Opt6) (decO : Bytes → Res (List Opt6))
    (i : Bytes) (t1 t2 : Dur) (os : List Opt6) (hi : i.length = 4) (h1 : DurOK t1) (h2 : DurOK t2)
    (hd : decO (encOpts os) = .ok os) :
    decIA mk decO (copyInto 4 i ++ encDur t1 ++ encDur t2 ++ encOpts os) = .ok (mk i t1 t2 os) := by
  unfold decIA
  simp only [Lexer.new, List.append_assoc, copyInto_of_length_eq hi]
  rw [Lexer.readBytes_append i _ false hi.symm]
  simp only [decDur_encDur t1 h1, decDur_encDur t2 h2, readAll_mk, hd, fin_ok]

theorem decIATA_enc (decO : Bytes → Res (List Opt6)) (i : Bytes) (os : List Opt6)
    (hi : i.length = 4) (hd : decO (encOpts os) = .ok os) :
    decIATA decO (copyInto 4 i ++ encOpts os) = .ok (.iata i os) := by
  unfold decIATA
  simp only [Lexer.new, copyInto_of_length_eq hi]
  rw [Lexer.readBytes_append i _ false hi.symm]
  simp only [readAll_mk, hd, fin_ok]

theorem decIAAddr_enc (decO : Bytes → Res (List Opt6)) (ip : IP) (p v : Dur) (os : List Opt6)
    (hip : IP16 ip) (h1 : DurOK p) (h2 : DurOK v) (hd : decO (encOpts os) = .ok os) :
    decIAAddr decO (write16 ip ++ encDur p ++ encDur v ++ encOpts os) = .ok (.iaaddr ip p v os) := by
  obtain ⟨b, rfl, hb, hw⟩ := write16_ip16 hip
  unfold decIAAddr
  simp only [Lexer.new, List.append_assoc, hw]
  rw [Lexer.copyN_append b _ false hb.symm]
  simp only [decDur_encDur p h1, decDur_encDur v h2, readAll_mk, hd, fin_ok]

theorem decIAPrefix_enc (decO : Bytes → Res (List Opt6)) (p v : Dur) (pfx : Option (Nat × IP))
    (os : List Opt6) (h1 : DurOK p) (h2 : DurOK v)
    (hp : PfxOK pfx)
    (hd : decO (encOpts os) = .ok os) :
    decIAPrefix decO (encDur p ++ encDur v ++ encPfx pfx ++ encOpts os) = .ok (.iaprefix p v pfx os) := by
  unfold decIAPrefix
  simp only [Lexer.new, List.append_assoc, decDur_encDur p h1, decDur_encDur v h2]
  cases pfx with
  | none =>
    simp only [encPfx, List.cons_append, Lexer.read8_cons]
    have h0 : ¬ ((0 : UInt8).toNat > 128) := by decide
    simp only [h0, if_false]
    rw [Lexer.copyN_append (zeros 16) _ false (by simp)]
    simp only [if_true, readAll_mk, hd, fin_ok]
  | some q =>
    obtain ⟨n, ip⟩ := q
    obtain ⟨hn1, hn2, hip⟩ := hp
    obtain ⟨b, rfl, hb, hw⟩ := write16_ip16 hip
    simp only [encPfx, List.cons_append, Lexer.read8_cons, hw]
    have hn : (UInt8.ofNat n).toNat = n := UInt8.toNat_ofNat_lt (by omega)
    have hgt : ¬ ((UInt8.ofNat n).toNat > 128) := by omega
    have hne : ¬ (UInt8.ofNat n = 0) := by
      intro h; have := congrArg UInt8.toNat h; rw [hn] at this; simp at this; omega
    simp only [hgt, if_false]
    rw [Lexer.copyN_append b _ false hb.symm]
    simp only [hne, if_false, hn, readAll_mk, hd, fin_ok]

/-- `Options.FromBytes` reads a well-formed list back once each element does -/
theorem rtOpts_of_all (os : List Opt6) (hw : WFOpts os) (f : Nat)
    (hall : ∀ x ∈ os, parseOpt f x.code (encOpt x) = .ok x) :
    decOptsF (f + 1) (encOpts os) = .ok os := by
  apply decOptsF_encOpts f os
  intro x hx
  have hwx := WFOpts_mem hw x hx
  exact ⟨hall x hx, code_lt x hwx.1, hwx.2⟩

mutual
/-- every well-formed option reads back (given enough fuel for its nesting) -/
theorem rtOpt (hS : SimpleRT) : (o : Opt6) → WFOpt o → (f : Nat) → fuelOpt o ≤ f →
    parseOpt f o.code (encOpt o) = .ok o
  | .clientID d, hw, f + 1, _ => by
    simp only [WFOpt] at hw
    simp only [Opt6.code, encOpt, parseOpt_1, decDUID_encDUID d hw, Res.map_ok]
  | .serverID d, hw, f + 1, _ => by
    simp only [WFOpt] at hw
    simp only [Opt6.code, encOpt, parseOpt_2, decDUID_encDUID d hw, Res.map_ok]
  | .iana i t1 t2 os, hw, f + 2, hf => by
    simp only [WFOpt] at hw
    obtain ⟨hi, h1, h2, hos⟩ := hw
    simp only [fuelOpt] at hf
    have hd := rtOpts_of_all os hos f (rtOptsAll hS os hos f (by omega))
    simp only [Opt6.code, encOpt, parseOpt_3]
    exact decIA_enc .iana _ i t1 t2 os hi h1 h2 hd
  | .iata i os, hw, f + 2, hf => by
    simp only [WFOpt] at hw
    obtain ⟨hi, hos⟩ := hw
    simp only [fuelOpt] at hf
    have hd := rtOpts_of_all os hos f (rtOptsAll hS os hos f (by omega))
    simp only [Opt6.code, encOpt, parseOpt_4]
    exact decIATA_enc _ i os hi hd
  | .iaaddr ip p v os, hw, f + 2, hf => by
    simp only [WFOpt] at hw
    obtain ⟨hip, h1, h2, hos⟩ := hw
    simp only [fuelOpt] at hf
    have hd := rtOpts_of_all os hos f (rtOptsAll hS os hos f (by omega))
    simp only [Opt6.code, encOpt, parseOpt_5]
    exact decIAAddr_enc _ ip p v os hip h1 h2 hd
  | .relayMsg m, hw, f + 1, hf => by
    simp only [WFOpt] at hw
    simp only [fuelOpt] at hf
    have hd := rtMsg hS m hw f (by omega)
    simp only [Opt6.code, encOpt, parseOpt_9, hd, Res.map_ok]
  | .iapd i t1 t2 os, hw, f + 2, hf => by
    simp only [WFOpt] at hw
    obtain ⟨hi, h1, h2, hos⟩ := hw
    simp only [fuelOpt] at hf
    have hd := rtOpts_of_all os hos f (rtOptsAll hS os hos f (by omega))
    simp only [Opt6.code, encOpt, parseOpt_25]
    exact decIA_enc .iapd _ i t1 t2 os hi h1 h2 hd
  | .iaprefix p v pfx os, hw, f + 2, hf => by
    simp only [WFOpt] at hw
    obtain ⟨h1, h2, hp, hos⟩ := hw
    simp only [fuelOpt] at hf
    have hd := rtOpts_of_all os hos f (rtOptsAll hS os hos f (by omega))
    simp only [Opt6.code, encOpt, parseOpt_26]
    exact decIAPrefix_enc _ p v pfx os h1 h2 hp hd
  | .fourRD os, hw, f + 2, hf => by
    simp only [WFOpt] at hw
    simp only [fuelOpt] at hf
    have hd := rtOpts_of_all os hw f (rtOptsAll hS os hw f (by omega))
    simp only [Opt6.code, encOpt, parseOpt_97, hd, Res.map_ok]
  | .oro cs, hw, f + 1, _ => by
    rw [parseOpt_simple f _ rfl hw]; exact hS _ rfl hw
  | .elapsed d, hw, f + 1, _ => by
    rw [parseOpt_simple f _ rfl hw]; exact hS _ rfl hw
  | .status c m, hw, f + 1, _ => by
    rw [parseOpt_simple f _ rfl hw]; exact hS _ rfl hw
  | .userClass c, hw, f + 1, _ => by
    rw [parseOpt_simple f _ rfl hw]; exact hS _ rfl hw
  | .vendorClass e d, hw, f + 1, _ => by
    rw [parseOpt_simple f _ rfl hw]; exact hS _ rfl hw
  | .vendorOpts e os, hw, f + 1, _ => by
    rw [parseOpt_simple f _ rfl hw]; exact hS _ rfl hw
  | .interfaceID i, hw, f + 1, _ => by
    rw [parseOpt_simple f _ rfl hw]; exact hS _ rfl hw
  | .dns ips, hw, f + 1, _ => by
    rw [parseOpt_simple f _ rfl hw]; exact hS _ rfl hw
  | .domainSearch l, hw, f + 1, _ => by
    rw [parseOpt_simple f _ rfl hw]; exact hS _ rfl hw
  | .infoRefresh d, hw, f + 1, _ => by
    rw [parseOpt_simple f _ rfl hw]; exact hS _ rfl hw
  | .remoteID e i, hw, f + 1, _ => by
    rw [parseOpt_simple f _ rfl hw]; exact hS _ rfl hw
  | .fqdn fl n, hw, f + 1, _ => by
    rw [parseOpt_simple f _ rfl hw]; exact hS _ rfl hw
  | .ntp s, hw, f + 1, _ => by
    rw [parseOpt_simple f _ rfl hw]; exact hS _ rfl hw
  | .bootfileURL u, hw, f + 1, _ => by
    rw [parseOpt_simple f _ rfl hw]; exact hS _ rfl hw
  | .bootfileParam ps, hw, f + 1, _ => by
    rw [parseOpt_simple f _ rfl hw]; exact hS _ rfl hw
  | .archType a, hw, f + 1, _ => by
    rw [parseOpt_simple f _ rfl hw]; exact hS _ rfl hw
  | .nii a b c, hw, f + 1, _ => by
    rw [parseOpt_simple f _ rfl hw]; exact hS _ rfl hw
  | .clientLLA h a, hw, f + 1, _ => by
    rw [parseOpt_simple f _ rfl hw]; exact hS _ rfl hw
  | .dhcpv4Msg p, hw, f + 1, _ => by
    rw [parseOpt_simple f _ rfl hw]; exact hS _ rfl hw
  | .dhcp4o6Server ips, hw, f + 1, _ => by
    rw [parseOpt_simple f _ rfl hw]; exact hS _ rfl hw
  | .fourRDMapRule a b c d e g, hw, f + 1, _ => by
    rw [parseOpt_simple f _ rfl hw]; exact hS _ rfl hw
  | .fourRDNonMapRule a b c, hw, f + 1, _ => by
    rw [parseOpt_simple f _ rfl hw]; exact hS _ rfl hw
  | .relayPort p, hw, f + 1, _ => by
    rw [parseOpt_simple f _ rfl hw]; exact hS _ rfl hw
  | .generic c d, hw, f + 1, _ => by
    rw [parseOpt_simple f _ rfl hw]; exact hS _ rfl hw
/-- every element of a well-formed option list reads back -/
theorem rtOptsAll (hS : SimpleRT) : (os : List Opt6) → WFOpts os → (f : Nat) → fuelOpts os ≤ f →
    (x : Opt6) → x ∈ os → parseOpt f x.code (encOpt x) = .ok x
  | [], _, _, _, x, hx => by simp at hx
  | o :: os, hw, f, hf, x, hx => by
    simp only [WFOpts] at hw
    simp only [fuelOpts] at hf
    rcases List.mem_cons.mp hx with h | h
    · rw [h]; exact rtOpt hS o hw.1 f (by omega)
    · exact rtOptsAll hS os hw.2.2 f (by omega) x h
/-- every well-formed message or relay chain reads back -/
theorem rtMsg (hS : SimpleRT) : (m : Msg6) → WFMsg m → (f : Nat) → fuelMsg m ≤ f →
    decMsgF f (encMsg m) = .ok m
  | .msg t xid os, hw, f + 2, hf => by
    simp only [WFMsg] at hw
    obtain ⟨ht, hx, hos⟩ := hw
    simp only [fuelMsg] at hf
    have hd := rtOpts_of_all os hos f (rtOptsAll hS os hos f (by omega))
    simp only [decMsgF, encMsg, Lexer.new, Lexer.read8_cons, Lexer.error, Bool.false_eq_true,
      if_false, ht, copyInto_of_length_eq hx]
    rw [Lexer.readBytes_append xid _ false hx.symm]
    simp only [Lexer.error, Bool.false_eq_true, if_false, hd, Res.map, Res.bind]
  | .relay t h link peer os, hw, f + 2, hf => by
    simp only [WFMsg] at hw
    obtain ⟨ht, hl, hp, hos⟩ := hw
    simp only [fuelMsg] at hf
    have hd := rtOpts_of_all os hos f (rtOptsAll hS os hos f (by omega))
    obtain ⟨bl, rfl, hbl, hwl⟩ := write16_ip16 hl
    obtain ⟨bp, rfl, hbp, hwp⟩ := write16_ip16 hp
    simp only [decMsgF, encMsg, Lexer.new, Lexer.read8_cons, Lexer.error, Bool.false_eq_true,
      if_false, ht, if_true, hwl, hwp, List.append_assoc]
    rw [Lexer.copyN_append bl _ false hbl.symm]
    simp only
    rw [Lexer.copyN_append bp _ false hbp.symm]
    simp only [Lexer.error, Bool.false_eq_true, if_false, hd, Res.map, Res.bind]
end

end Dhcp.V6

import DhcpProofs.Lemmas.V4ValSetGet2
import DhcpProofs.Lemmas.LabelApi
/-
  C17 helper lemmas, part 8: DomainSearch / OptDomainSearch through the
  rfc1035label model (C19) and its API lemmas.
-/
namespace Dhcp.V4
open Dhcp List
open Dhcp.Spec Dhcp.Spec.Name Dhcp.Label

theorem labelsFromBytes_sound (b : Bytes) (ns : List Bytes) (h : labelsFromBytes b = .ok ns) :
    DecodesTo b ns := by
  have hr := runs_of_labelsFromBytes b
  rw [h] at hr
  obtain ⟨ns', hns, hnames⟩ := names_sound b (b.length - 0) 0 (Nat.le_refl _) 0 [] ns hr
  simp at hns hnames
  subst hns
  exact hnames

theorem labelsFromBytes_complete (b : Bytes) (ns : List Bytes) (h : DecodesTo b ns) :
    labelsFromBytes b = .ok ns := by
  have := names_complete h 0 0 [] (by simp)
  simpa using labelsFromBytes_eq_of_runs this

theorem labelsFromBytes_err_of_no_reading (b : Bytes) (h : ¬ ∃ ns, DecodesTo b ns) :
    labelsFromBytes b = .err := by
  cases hr : labelsFromBytes b with
  | ok ns => exact absurd ⟨ns, labelsFromBytes_sound b ns hr⟩ h
  | err => rfl
  | panic => exact absurd hr (labelsFromBytes_ne_panic b)

theorem domainSearch_of_fromBytes (o : GOpts) (v : Bytes) (l : Labels)
    (h : o.get Code.domainSearch = some v) (hl : Label.fromBytes v = .ok l) :
    Acc.domainSearch o = .ok (some l) := by
  simp [Acc.domainSearch, h, hl]

theorem labelToBytes_ne_nil (n : Bytes) : labelToBytes n ≠ [] := by
  unfold labelToBytes
  split <;> simp

theorem labelsToBytes_ne_nil {ns : List Bytes} (h : ns ≠ []) : labelsToBytes ns ≠ [] := by
  cases ns with
  | nil => exact absurd rfl h
  | cons n ns =>
    unfold labelsToBytes
    intro hnil
    have := List.flatMap_eq_nil_iff.mp hnil n (by simp)
    exact labelToBytes_ne_nil n this

/-- the Go-level `ToBytes` agrees with the plain one up to nil-ness -/
theorem labelsGoBytes_new (ns : List Bytes) :
    labelsGoBytes { original := none, labels := ns } = .ok (goBuf (labelsToBytes ns)) := by
  simp [labelsGoBytes, goBytes, labelsFromBytes_nil]

theorem labelsGoBytes_unmodified {b : Bytes} {l : Labels} (h : Label.fromBytes b = .ok l) :
    labelsGoBytes l = .ok (some b) := by
  obtain ⟨h1, h2⟩ := fromBytes_eq_ok h
  simp [labelsGoBytes, h2, goBytes, h1]

theorem labelsGoBytes_edited {b : Bytes} {l : Labels} (h : Label.fromBytes b = .ok l) {ns' : List Bytes}
    (hne : ns' ≠ l.labels) :
    labelsGoBytes { l with labels := ns' } = .ok (goBuf (labelsToBytes ns')) := by
  obtain ⟨h1, h2⟩ := fromBytes_eq_ok h
  have : ¬ l.labels = ns' := fun e => hne e.symm
  simp [labelsGoBytes, h2, goBytes, h1, this]

theorem domainSearch_of_encoded (o : GOpts) (ns : List Bytes) (hv : ValidNames ns) (hne : ns ≠ []) :
    Acc.domainSearch (o.update Code.domainSearch (goBuf (labelsToBytes ns))) =
      .ok (some { original := some (labelsToBytes ns), labels := ns }) := by
  rw [goBuf_ne_nil (labelsToBytes_ne_nil hne)]
  exact domainSearch_of_fromBytes _ _ _ (GOpts.get_update_same _ _ _) (fromBytes_labelsToBytes ns hv)

end Dhcp.V4

import DhcpProofs.Lemmas.C03Decoded
import DhcpProofs.Lemmas.V6BuildChain
import DhcpProofs.Lemmas.V6BuildIndex
/-
  C03 over the relay helpers of dhcpv6/dhcpv6.go and dhcpv6/iputils.go
  (model: Dhcp/V6/Build.lean): `DecapsulateRelay`, `DecapsulateRelayIndex`
  (every index), `GetMacAddressFromEUI64`, `ExtractMAC`.
-/
namespace Dhcp.V6
open Dhcp Dhcp.Spec

/-! ### no panic, for every message value -/

theorem decapN_ne_panic : ∀ (n : Nat) (l : Msg6), decapN n l ≠ .panic := by
  intro n
  induction n with
  | zero => intro l; simp [decapN]
  | succ n ih =>
    intro l
    unfold decapN
    cases hd : decapsulateRelay l with
    | ok d => simpa [Res.bind] using ih d
    | err => simp [Res.bind]
    | panic => exact absurd hd (decapsulateRelay_ne_panic l)

theorem lastRelay_ne_panic : ∀ (f : Nat) (l : Msg6), lastRelay f l ≠ .panic := by
  intro f
  induction f with
  | zero => intro l; simp [lastRelay]
  | succ f ih =>
    intro l
    unfold lastRelay
    cases hd : decapsulateRelay l with
    | ok d =>
      by_cases hr : d.isRelay = true
      · simpa [hr] using ih d
      · simp [hr]
    | err => simp
    | panic => exact absurd hd (decapsulateRelay_ne_panic l)

theorem decapsulateRelayIndex_ne_panic (l : Msg6) (index : Int) : decapsulateRelayIndex l index ≠ .panic := by
  unfold decapsulateRelayIndex
  split
  · simp
  · split
    · simp
    · split
      · exact lastRelay_ne_panic _ _
      · exact decapN_ne_panic _ _

/-! ### which level is returned: chains -/

/-- `n` rounds of `DecapsulateRelay` on a chain: the relay message `n` levels
down while there is one, the innermost message from then on -/
theorem decapN_chain {c inner : Msg6} {lvls : List RLevel} (h : Chain c lvls inner) : ∀ n,
    (n < lvls.length → ∃ c', decapN n c = .ok c' ∧ Chain c' (lvls.drop n) inner) ∧
    (lvls.length ≤ n → decapN n c = .ok inner) := by
  induction h with
  | @last t hc l p os inner h1 h2 =>
    intro n
    cases n with
    | zero => exact ⟨fun _ => ⟨_, rfl, .last h1 h2⟩, fun hn => by simp at hn⟩
    | succ n =>
      refine ⟨fun hn => by simp at hn, fun _ => ?_⟩
      simp only [decapN, decapsulateRelay, h1, Res.bind]
      exact decapN_msg h2 n
  | @cons t hc l p os r lvls inner h1 hch ih =>
    intro n
    cases n with
    | zero => exact ⟨fun _ => ⟨_, rfl, .cons h1 hch⟩, fun hn => by simp at hn⟩
    | succ n =>
      simp only [decapN, decapsulateRelay, h1, Res.bind, List.length_cons, List.drop_succ_cons]
      exact ⟨fun hn => (ih n).1 (by omega), fun hn => (ih n).2 (by omega)⟩

/-- the `index == -1` loop on a chain: the innermost RELAY level, as a one-level chain -/
theorem lastRelay_chain {c inner : Msg6} {lvls : List RLevel} (h : Chain c lvls inner) :
    ∀ fuel, msgDepth c ≤ fuel →
      ∃ c' lv, lastRelay fuel c = .ok c' ∧ Chain c' [lv] inner ∧ lvls.getLast? = some lv := by
  induction h with
  | @last t hc l p os inner h1 h2 =>
    intro fuel hf
    rw [msgDepth_relay] at hf
    cases fuel with
    | zero => omega
    | succ f =>
      refine ⟨_, _, ?_, .last h1 h2, rfl⟩
      simp [lastRelay, decapsulateRelay, h1, h2]
  | @cons t hc l p os r lvls inner h1 hch ih =>
    intro fuel hf
    have hd := msgDepth_of_relayMessageOf h1
    rw [msgDepth_relay] at hf
    cases fuel with
    | zero => omega
    | succ f =>
      obtain ⟨c', lv, e1, e2, e3⟩ := ih f (by omega)
      refine ⟨c', lv, ?_, e2, ?_⟩
      · simp only [lastRelay, decapsulateRelay, h1, hch.isRelay, if_true]
        exact e1
      · cases lvls with
        | nil => have := hch.length_pos; simp at this
        | cons b l => rw [List.getLast?_cons_cons]; exact e3

/-- **`DecapsulateRelayIndex` on a chain** with levels `lvls` (outermost first)
ending at `inner`: index `k ≥ 0` returns the relay message `k + 1` levels down
(the chain with the first `k + 1` levels removed) while `k + 1 < |lvls|`, the
innermost message from then on (any larger index); `-1` returns the innermost
relay level, not the message; below `-1` an error. -/
theorem decapsulateRelayIndex_chain {c inner : Msg6} {lvls : List RLevel} (h : Chain c lvls inner) :
    (∀ k : Nat, k + 1 < lvls.length →
      ∃ c', decapsulateRelayIndex c (k : Int) = .ok c' ∧ Chain c' (lvls.drop (k + 1)) inner) ∧
    (∀ k : Nat, lvls.length ≤ k + 1 → decapsulateRelayIndex c (k : Int) = .ok inner) ∧
    (∃ c' lv, decapsulateRelayIndex c (-1) = .ok c' ∧ Chain c' [lv] inner ∧ lvls.getLast? = some lv) ∧
    (∀ i : Int, i < -1 → decapsulateRelayIndex c i = .err) := by
  have hr := h.isRelay
  have idx : ∀ k : Nat, decapsulateRelayIndex c (k : Int) = decapN (k + 1) c := by
    intro k
    have hk : ¬ ((k : Int) < -1) := by omega
    have hk' : ¬ ((k : Int) = -1) := by omega
    simp [decapsulateRelayIndex, hr, hk, hk']
  refine ⟨fun k hk => ?_, fun k hk => ?_, ?_, fun i hi => ?_⟩
  · rw [idx]; exact (decapN_chain h (k + 1)).1 hk
  · rw [idx]; exact (decapN_chain h (k + 1)).2 hk
  · have : decapsulateRelayIndex c (-1) = lastRelay (msgDepth c + 1) c := by
      simp [decapsulateRelayIndex, hr]
    rw [this]
    exact lastRelay_chain h _ (Nat.le_succ _)
  · simp [decapsulateRelayIndex, hr, hi]

/-! ### … and broken chains -/

theorem decapN_broken {c : Msg6} (h : Broken c) : ∀ n, msgDepth c ≤ n → decapN n c = .err := by
  induction h with
  | @here t hc l p os h1 =>
    intro n hn
    rw [msgDepth_relay] at hn
    cases n with
    | zero => omega
    | succ n => simp [decapN, decapsulateRelay, h1, Res.bind]
  | @deeper t hc l p os r h1 hb ih =>
    intro n hn
    have hd := msgDepth_of_relayMessageOf h1
    rw [msgDepth_relay] at hn
    cases n with
    | zero => omega
    | succ n =>
      simp only [decapN, decapsulateRelay, h1, Res.bind]
      exact ih n (by omega)

theorem lastRelay_broken {c : Msg6} (h : Broken c) : ∀ fuel, lastRelay fuel c = .err := by
  induction h with
  | here h1 =>
    intro fuel
    cases fuel with
    | zero => rfl
    | succ f => simp [lastRelay, decapsulateRelay, h1]
  | @deeper t hc l p os r h1 hb ih =>
    intro fuel
    cases fuel with
    | zero => rfl
    | succ f =>
      have hr : r.isRelay = true := by cases hb <;> rfl
      simp only [lastRelay, decapsulateRelay, h1, hr, if_true]
      exact ih f

/-- above the break the levels can still be peeled: what is left is again a broken chain -/
theorem decapN_broken_cases {c : Msg6} (h : Broken c) : ∀ n,
    decapN n c = .err ∨ ∃ c', decapN n c = .ok c' ∧ Broken c' := by
  induction h with
  | @here t hc l p os h1 =>
    intro n
    cases n with
    | zero => exact .inr ⟨_, rfl, .here h1⟩
    | succ n => exact .inl (by simp [decapN, decapsulateRelay, h1, Res.bind])
  | @deeper t hc l p os r h1 hb ih =>
    intro n
    cases n with
    | zero => exact .inr ⟨_, rfl, .deeper h1 hb⟩
    | succ n =>
      simp only [decapN, decapsulateRelay, h1, Res.bind]
      exact ih n

/-- no result is a panic -/
theorem decapN_ok_or_err (c : Msg6) (n : Nat) : decapN n c = .err ∨ ∃ c', decapN n c = .ok c' := by
  cases h : decapN n c with
  | ok c' => exact .inr ⟨c', rfl⟩
  | err => exact .inl rfl
  | panic => exact absurd h (decapN_ne_panic n c)

/-- **`DecapsulateRelayIndex` on a broken chain**: `-1` is an error (the loop
runs into the level without relay-message option), so is every index that
reaches past the break (at the latest `msgDepth c - 1`), so is any index
below `-1`. -/
theorem decapsulateRelayIndex_broken {c : Msg6} (h : Broken c) :
    decapsulateRelayIndex c (-1) = .err ∧
    (∀ k : Nat, msgDepth c ≤ k + 1 → decapsulateRelayIndex c (k : Int) = .err) ∧
    (∀ i : Int, i < -1 → decapsulateRelayIndex c i = .err) ∧
    (∀ k : Nat, decapsulateRelayIndex c (k : Int) = .err ∨
      ∃ c', decapsulateRelayIndex c (k : Int) = .ok c' ∧ Broken c') := by
  have hr : c.isRelay = true := by cases h <;> rfl
  have idx : ∀ k : Nat, decapsulateRelayIndex c (k : Int) = decapN (k + 1) c := by
    intro k
    have hk1 : ¬ ((k : Int) < -1) := by omega
    have hk2 : ¬ ((k : Int) = -1) := by omega
    simp [decapsulateRelayIndex, hr, hk1, hk2]
  refine ⟨?_, fun k hk => ?_, fun i hi => ?_, fun k => by rw [idx]; exact decapN_broken_cases h _⟩
  · have : decapsulateRelayIndex c (-1) = lastRelay (msgDepth c + 1) c := by
      simp [decapsulateRelayIndex, hr]
    rw [this]; exact lastRelay_broken h _
  · have hk1 : ¬ ((k : Int) < -1) := by omega
    have hk2 : ¬ ((k : Int) = -1) := by omega
    have : decapsulateRelayIndex c (k : Int) = decapN (k + 1) c := by
      simp [decapsulateRelayIndex, hr, hk1, hk2]
    rw [this]; exact decapN_broken h _ hk
  · simp [decapsulateRelayIndex, hr, hi]

/-! ### results stay relay messages / stay decoded -/

theorem lastRelay_isRelay : ∀ (f : Nat) (l r : Msg6), l.isRelay = true → lastRelay f l = .ok r → r.isRelay = true := by
  intro f
  induction f with
  | zero => intro l r _ h; simp [lastRelay] at h
  | succ f ih =>
    intro l r hl h
    unfold lastRelay at h
    cases hd : decapsulateRelay l with
    | ok d =>
      rw [hd] at h
      by_cases hr : d.isRelay = true
      · simp only [hr, if_true] at h; exact ih d r hr h
      · simp only [hr] at h; cases h; exact hl
    | err => rw [hd] at h; cases h
    | panic => rw [hd] at h; cases h

theorem decapsulateRelay_dec {l d : Msg6} (hl : DecMsg l) (h : decapsulateRelay l = .ok d) : DecMsg d := by
  cases l with
  | msg t x os => simp only [decapsulateRelay] at h; cases h; exact hl
  | relay t hc lk p os =>
    simp only [decapsulateRelay] at h
    split at h
    · next m hm => cases h; exact (DecMsg.opts hl).relayMessageOf hm
    · cases h

theorem lastRelay_dec : ∀ (f : Nat) (l r : Msg6), DecMsg l → lastRelay f l = .ok r → DecMsg r := by
  intro f
  induction f with
  | zero => intro l r _ h; simp [lastRelay] at h
  | succ f ih =>
    intro l r hl h
    unfold lastRelay at h
    cases hd : decapsulateRelay l with
    | ok d =>
      rw [hd] at h
      by_cases hr : d.isRelay = true
      · simp only [hr, if_true] at h; exact ih d r (decapsulateRelay_dec hl hd) h
      · simp only [hr] at h; cases h; exact hl
    | err => rw [hd] at h; cases h
    | panic => rw [hd] at h; cases h

theorem innerLoop_dec : ∀ (f : Nat) (p m : Msg6), DecMsg p → innerLoop f p = .ok m → DecMsg m ∧ m.isRelay = false := by
  intro f
  induction f with
  | zero => intro p m _ h; simp [innerLoop] at h
  | succ f ih =>
    intro p m hp h
    unfold innerLoop at h
    cases hd : decapsulateRelay p with
    | ok d =>
      rw [hd] at h
      by_cases hr : d.isRelay = true
      · simp only [hr, if_true] at h; exact ih d m (decapsulateRelay_dec hp hd) h
      · simp only [hr] at h; cases h
        exact ⟨decapsulateRelay_dec hp hd, by simpa using hr⟩
    | err => rw [hd] at h; cases h
    | panic => rw [hd] at h; cases h

theorem getInnerMessage_dec {p m : Msg6} (hp : DecMsg p) (h : getInnerMessage p = .ok m) :
    DecMsg m ∧ m.isRelay = false := by
  cases p with
  | msg t x os => simp only [getInnerMessage] at h; cases h; exact ⟨hp, rfl⟩
  | relay t hc l pr os => exact innerLoop_dec _ _ _ hp h

/-- every level `DecapsulateRelayIndex` can return from a decoded message is decoded -/
theorem decapN_dec : ∀ (n : Nat) (l r : Msg6), DecMsg l → decapN n l = .ok r → DecMsg r := by
  intro n
  induction n with
  | zero => intro l r hl h; simp only [decapN] at h; cases h; exact hl
  | succ n ih =>
    intro l r hl h
    unfold decapN at h
    cases hd : decapsulateRelay l with
    | ok d => rw [hd] at h; exact ih d r (decapsulateRelay_dec hl hd) h
    | err => rw [hd] at h; cases h
    | panic => rw [hd] at h; cases h

theorem decapsulateRelayIndex_dec {l r : Msg6} {i : Int} (hl : DecMsg l) (h : decapsulateRelayIndex l i = .ok r) :
    DecMsg r := by
  unfold decapsulateRelayIndex at h
  split at h
  · cases h; exact hl
  · split at h
    · cases h
    · split at h
      · exact lastRelay_dec _ _ _ hl h
      · exact decapN_dec _ _ _ hl h

/-! ### GetMacAddressFromEUI64 -/

/-- **exactly the 4-byte addresses make `GetMacAddressFromEUI64` panic**: they
pass the `ip.To16() == nil` test and then `ip[11]` is out of range; nil, 16-byte
and every other length return a value or an error. -/
theorem getMacAddressFromEUI64_panic_iff (ip : IP) :
    getMacAddressFromEUI64 ip = .panic ↔ ∃ b, ip = some b ∧ b.length = 4 := by
  cases ip with
  | none => simp [getMacAddressFromEUI64]
  | some b =>
    simp only [getMacAddressFromEUI64, Option.some.injEq, exists_eq_left']
    by_cases h4 : b.length = 4
    · have h11 : b[11]? = none := List.getElem?_eq_none_iff.mpr (by omega)
      simp [to16, h4, h11]
    · by_cases h16 : b.length = 16
      · have e11 : b[11]? = some (b[11]'(by omega)) := List.getElem?_eq_getElem (by omega)
        have e12 : b[12]? = some (b[12]'(by omega)) := List.getElem?_eq_getElem (by omega)
        have hlt : ¬ b.length < 16 := by omega
        obtain ⟨m0, rest, hmr⟩ : ∃ m0 rest, (b.drop 8).take 3 ++ (b.drop 13).take 3 = m0 :: rest := by
          cases hq : (b.drop 8).take 3 ++ (b.drop 13).take 3 with
          | nil =>
            have : ((b.drop 8).take 3 ++ (b.drop 13).take 3).length = 6 := by
              simp only [List.length_append, List.length_take, List.length_drop]; omega
            rw [hq] at this; simp at this
          | cons m0 rest => exact ⟨m0, rest, rfl⟩
        simp only [to16, h4, h16, if_false, if_true, Option.isNone_some, Bool.false_eq_true, e11, e12, hlt, hmr]
        constructor
        · intro h
          exfalso
          revert h
          by_cases hx : b[11]'(by omega) = 0xff <;> by_cases hy : b[12]'(by omega) = 0xfe <;> simp [hx, hy]
        · intro h; omega
      · simp [to16, h4, h16]

theorem getMacAddressFromEUI64_ne_panic_of_ip16 {ip : IP} (h : IP16 ip) : getMacAddressFromEUI64 ip ≠ .panic := by
  intro hp
  obtain ⟨b, hb, hl⟩ := (getMacAddressFromEUI64_panic_iff ip).mp hp
  obtain ⟨b', hb', hl'⟩ := h
  rw [hb] at hb'; cases hb'; omega

/-! ### ExtractMAC on decoded messages -/

theorem extractMAC_msg_ne_panic {t : UInt8} {x : Bytes} {os : List Opt6} (h : DecOpts os) :
    extractMAC (.msg t x os) ≠ .panic := by
  simp only [extractMAC]
  have := h.clientIDOf
  cases hc : clientIDOf os with
  | panic => exact absurd hc this
  | err => simp
  | ok d =>
    cases d with
    | none => simp
    | some d => cases d <;> simp

theorem extractMAC_dec {m : Msg6} (hm : DecMsg m) : extractMAC m ≠ .panic := by
  cases m with
  | msg t x os => exact extractMAC_msg_ne_panic hm.2
  | relay t hc l p os =>
    simp only [extractMAC]
    cases hd : decapsulateRelayIndex (.relay t hc l p os) (-1) with
    | err => simp
    | panic => exact absurd hd (decapsulateRelayIndex_ne_panic _ _)
    | ok r =>
      have hrd := decapsulateRelayIndex_dec hm hd
      have hrr : r.isRelay = true := by
        have : decapsulateRelayIndex (.relay t hc l p os) (-1) = lastRelay (msgDepth (.relay t hc l p os) + 1) (.relay t hc l p os) := by
          simp [decapsulateRelayIndex, Msg6.isRelay]
        rw [this] at hd
        exact lastRelay_isRelay _ _ _ rfl hd
      cases r with
      | msg t' x' os' => simp [Msg6.isRelay] at hrr
      | relay t' hc' l' p' os' =>
        simp only []
        cases clientLinkLayerAddressOf os' with
        | some mac => simp
        | none =>
          simp only []
          cases hg : getMacAddressFromEUI64 p' with
          | ok mac => simp
          | panic => exact absurd hg (getMacAddressFromEUI64_ne_panic_of_ip16 hrd.2.2.1)
          | err =>
            simp only []
            cases hi : getInnerMessage (.relay t hc l p os) with
            | err => simp
            | panic => exact absurd hi (getInnerMessage_ne_panic _)
            | ok im =>
              obtain ⟨hid, hir⟩ := getInnerMessage_dec hm hi
              cases im with
              | relay _ _ _ _ _ => simp [Msg6.isRelay] at hir
              | msg t'' x'' os'' =>
                have := extractMAC_msg_ne_panic (t := t'') (x := x'') hid.2
                simp only [extractMAC] at this
                exact this

end Dhcp.V6

import DhcpProofs.Lemmas.LabelSound
import DhcpProofs.Lemmas.LabelEnc
/-
  Facts about the label model in the form other codecs' proofs use them
  (DHCPv6 domain search list, FQDN, NTP server FQDN; DHCPv4 domain search):
  `fromBytes : Bytes → Res Labels`, `Labels.toBytes : Labels → Bytes`,
  `labelsToBytes`.  The C19 property theorems restate the main ones.
-/
namespace Dhcp.Label
open Dhcp Dhcp.Spec.Name List

theorem labelsFromBytes_ne_panic (b : Bytes) : labelsFromBytes b ≠ .panic := by
  intro h
  obtain ⟨f, hf⟩ := runs_of_labelsFromBytes b
  rw [h] at hf
  exact loop_ne_panic b f init hf

theorem labelsFromBytes_nil : labelsFromBytes [] = .ok [] := by decide

/-- decode ∘ encode on valid names -/
theorem labelsFromBytes_labelsToBytes (ns : List Bytes) (h : ValidNames ns) :
    labelsFromBytes (labelsToBytes ns) = .ok ns := by
  have := names_complete (names_encode (labelsToBytes ns) ns h) 0 0 [] (by simp)
  simpa using labelsFromBytes_eq_of_runs this

theorem fromBytes_ne_panic (b : Bytes) : fromBytes b ≠ .panic := by
  unfold fromBytes Labels.fromBytes
  cases h : labelsFromBytes (goBytes (some b)) with
  | ok ns => simp
  | err => simp
  | panic => exact absurd h (labelsFromBytes_ne_panic _)

theorem fromBytes_eq_ok {b : Bytes} {l : Labels} (h : fromBytes b = .ok l) :
    labelsFromBytes b = .ok l.labels ∧ l.original = some b := by
  unfold fromBytes Labels.fromBytes at h
  simp only [goBytes] at h
  cases hd : labelsFromBytes b with
  | ok ns => rw [hd] at h; injection h with h; subst h; exact ⟨rfl, rfl⟩
  | err => rw [hd] at h; cases h
  | panic => rw [hd] at h; cases h

theorem fromBytes_of_labelsFromBytes {b : Bytes} {ns : List Bytes} (h : labelsFromBytes b = .ok ns) :
    fromBytes b = .ok { original := some b, labels := ns } := by
  simp [fromBytes, Labels.fromBytes, goBytes, h]

/-- the panic-aware `ToBytes` never panics and agrees with the plain one -/
theorem toBytesR_eq (l : Labels) : l.toBytesR = .ok l.toBytes := by
  unfold Labels.toBytesR Labels.toBytes
  cases h : labelsFromBytes (goBytes l.original) with
  | ok labs => simp only; split <;> rfl
  | err => rfl
  | panic => exact absurd h (labelsFromBytes_ne_panic _)

/-- A parsed, untouched set re-encodes to the bytes it was parsed from. -/
theorem fromBytes_toBytes {b : Bytes} {l : Labels} (h : fromBytes b = .ok l) : l.toBytes = b := by
  obtain ⟨h1, h2⟩ := fromBytes_eq_ok h
  unfold Labels.toBytes
  simp [h2, goBytes, h1]

/-- … hence decoding is a fixpoint of encode ∘ decode. -/
theorem fromBytes_toBytes_fromBytes {b : Bytes} {l : Labels} (h : fromBytes b = .ok l) :
    fromBytes l.toBytes = .ok l := by
  rw [fromBytes_toBytes h]; exact h

/-- A parsed set whose names were replaced by a different list encodes the new list. -/
theorem toBytes_of_labels_ne {b : Bytes} {l : Labels} (h : fromBytes b = .ok l) {ns' : List Bytes}
    (hne : ns' ≠ l.labels) : ({ l with labels := ns' }).toBytes = labelsToBytes ns' := by
  obtain ⟨h1, h2⟩ := fromBytes_eq_ok h
  unfold Labels.toBytes
  have : ¬ l.labels = ns' := fun e => hne e.symm
  simp [h2, goBytes, h1, this]

/-- A set without original bytes (`NewLabels`) encodes its names. -/
theorem toBytes_new (ns : List Bytes) : ({ Labels.new with labels := ns }).toBytes = labelsToBytes ns := by
  simp [Labels.toBytes, Labels.new, goBytes, labelsFromBytes_nil]

theorem toBytes_original_none (l : Labels) (h : l.original = none) : l.toBytes = labelsToBytes l.labels := by
  simp [Labels.toBytes, h, goBytes, labelsFromBytes_nil]

/-- encode → decode through the `Labels` object, for valid names -/
theorem fromBytes_labelsToBytes (ns : List Bytes) (h : ValidNames ns) :
    fromBytes (labelsToBytes ns) = .ok { original := some (labelsToBytes ns), labels := ns } :=
  fromBytes_of_labelsFromBytes (labelsFromBytes_labelsToBytes ns h)

end Dhcp.Label

import DhcpProofs.Lemmas.V6Tlv
/- Field-level codec lemmas for the DHCPv6 model: durations, DUIDs, addresses. -/
namespace Dhcp.V6
open Dhcp List

theorem goRound_multiple (s : Nat) (m : Int) (hm : 0 < m) : goRound ((s : Int) * m) m = (s : Int) * m := by
  unfold goRound
  have hr : Int.tmod ((s : Int) * m) m = 0 := Int.mul_tmod_left _ _
  have hnn : ¬ ((s : Int) * m < 0) := by
    have : (0 : Int) ≤ (s : Int) * m := Int.mul_nonneg (Int.natCast_nonneg s) (Int.le_of_lt hm)
    omega
  simp only [hr, hnn, if_false]
  have : (0 : Int) + 0 < m := by omega
  rw [if_pos this]; simp

theorem durTo32_seconds (s : Nat) (h : s < 4294967296) : durTo32 ((s : Int) * second) = s := by
  unfold durTo32
  rw [goRound_multiple s second (by decide)]
  have h1 : Int.tdiv ((s : Int) * second) second = s := Int.mul_tdiv_cancel _ (by decide)
  rw [h1]
  have h2 : Int.emod (s : Int) 4294967296 = s := Int.emod_eq_of_lt (Int.natCast_nonneg s) (by omega)
  rw [h2]; simp

theorem durTo16_tenMs (k : Nat) (h : k < 65536) : durTo16 ((k : Int) * tenMs) = k := by
  unfold durTo16
  rw [goRound_multiple k tenMs (by decide)]
  have h1 : Int.tdiv ((k : Int) * tenMs) tenMs = k := Int.mul_tdiv_cancel _ (by decide)
  rw [h1]
  have h2 : Int.emod (k : Int) 65536 = k := Int.emod_eq_of_lt (Int.natCast_nonneg k) (by omega)
  rw [h2]; simp

/-- reading back a 32-bit lifetime -/
theorem decDur_encDur (d : Dur) (h : DurOK d) (rest : Bytes) :
    decDur ⟨encDur d ++ rest, false⟩ = (d, ⟨rest, false⟩) := by
  obtain ⟨s, hs, rfl⟩ := h
  unfold decDur encDur
  rw [durTo32_seconds s hs, Lexer.read32_append s hs]

theorem encDur_length (d : Dur) : (encDur d).length = 4 := by simp [encDur]

theorem fin_ok {α : Type} (a : α) : fin ⟨[], false⟩ a = .ok a := by
  simp [fin, Lexer.finError]

theorem readAll_mk (d : Bytes) (e : Bool) : Lexer.readAll ⟨d, e⟩ = (d, ⟨[], e⟩) := rfl

theorem write16_ip16 {ip : IP} (h : IP16 ip) : ∃ b, ip = some b ∧ b.length = 16 ∧ write16 ip = b := by
  obtain ⟨b, rfl, hb⟩ := h
  exact ⟨b, rfl, hb, by simp [write16, ipTo16, to16, hb]⟩

theorem writeTo16_ip16 {ip : IP} (h : IP16 ip) : ∃ b, ip = some b ∧ b.length = 16 ∧ writeTo16 ip = b := by
  obtain ⟨b, rfl, hb⟩ := h
  exact ⟨b, rfl, hb, by simp [writeTo16, ipTo16, to16, hb]⟩

/-- `DUIDFromBytes` on a buffer starting with a 16-bit type, in closed form -/
theorem decDUID_typed (typ : Nat) (ht : typ < 65536) (body : Bytes) :
    decDUID (be16 typ ++ body) =
      (let l : Lexer := ⟨body, false⟩
       if body.length < 1 ∨ body.length > 128 then .err
       else if typ = 1 then
         let (ht, l) := l.read16
         let (t, l) := l.read32
         let (a, l) := l.readAll
         fin l (.llt ht t a)
       else if typ = 3 then
         let (ht, l) := l.read16
         let (a, l) := l.readAll
         fin l (.ll ht a)
       else if typ = 2 then
         let (n, l) := l.read32
         let (i, l) := l.readAll
         fin l (.en n i)
       else if typ = 4 then
         if body.length ≠ 16 then .err else .ok (.uuid body)
       else .ok (.opaque typ body)) := by
  unfold decDUID
  have hhas : (Lexer.has ⟨be16 typ ++ body, false⟩ 2) = true := by simp [Lexer.has]
  simp only [Lexer.new, hhas, Bool.not_true, Bool.false_eq_true, if_false, Lexer.read16_append typ ht,
    Lexer.len, Bool.or_eq_true, decide_eq_true_eq]

/-- DUIDs read back -/
theorem decDUID_encDUID (d : DUID) (h : DUIDOK d) : decDUID (encDUID d) = .ok d := by
  cases d with
  | llt ht t a =>
    obtain ⟨h1, h2, h3⟩ := h
    simp only [encDUID, List.append_assoc]
    rw [decDUID_typed 1 (by decide)]
    have hl : ¬ ((be16 ht ++ (be32 t ++ a)).length < 1 ∨ (be16 ht ++ (be32 t ++ a)).length > 128) := by
      simp; omega
    simp only [hl, if_false, if_true, Lexer.read16_append ht h1, Lexer.read32_append t h2, readAll_mk, fin_ok]
  | en n i =>
    obtain ⟨h, h3⟩ := h
    simp only [encDUID, List.append_assoc]
    rw [decDUID_typed 2 (by decide)]
    have hl : ¬ ((be32 n ++ i).length < 1 ∨ (be32 n ++ i).length > 128) := by simp; omega
    simp only [hl, show ¬ ((2 : Nat) = 1) by decide, show ¬ ((2 : Nat) = 3) by decide, if_false, if_true,
      Lexer.read32_append n h, readAll_mk, fin_ok]
  | ll ht a =>
    obtain ⟨h, h3⟩ := h
    simp only [encDUID, List.append_assoc]
    rw [decDUID_typed 3 (by decide)]
    have hl : ¬ ((be16 ht ++ a).length < 1 ∨ (be16 ht ++ a).length > 128) := by simp; omega
    simp only [hl, show ¬ ((3 : Nat) = 1) by decide, if_false, if_true, Lexer.read16_append ht h,
      readAll_mk, fin_ok]
  | uuid u =>
    simp only [DUIDOK] at h
    simp only [encDUID]
    rw [decDUID_typed 4 (by decide)]
    have hl : ¬ ((copyInto 16 u).length < 1 ∨ (copyInto 16 u).length > 128) := by
      simp [copyInto_length]
    simp only [hl, show ¬ ((4 : Nat) = 1) by decide, show ¬ ((4 : Nat) = 3) by decide,
      show ¬ ((4 : Nat) = 2) by decide, if_false, if_true, copyInto_of_length_eq h, ne_eq, h,
      not_true_eq_false, show ¬ ((16 : Nat) < 1 ∨ (16 : Nat) > 128) by decide]
  | «opaque» t d =>
    obtain ⟨h0, h1, h2, h3, h4, h5, h6⟩ := h
    simp only [encDUID]
    rw [decDUID_typed t h0]
    have hl : ¬ (d.length < 1 ∨ d.length > 128) := by omega
    simp only [hl, h1, h2, h3, h4, if_false]

end Dhcp.V6

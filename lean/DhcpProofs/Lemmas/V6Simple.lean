import DhcpProofs.Lemmas.V6RoundTrip
import DhcpProofs.Lemmas.V6Labels
import DhcpProofs.Lemmas.V4RoundTrip
/-
  The round trip of every non-recursive ("simple") DHCPv6 option codec:
  `decSimple o.code (encOpt o) = .ok o` for the 24 constructors handled by
  `decSimple`, under the field-level hypotheses of `WFOpt`.  This discharges the
  hypothesis `SimpleRT` of the mutual theorem in V6RoundTrip.lean.
-/
namespace Dhcp.V6
open Dhcp List

/-! ### equation lemmas for the dispatch of `decSimple` -/

theorem decSimple_6 (data : Bytes) : decSimple 6 data =
    (let (cs, l) := u16Loop (data.length + 1) ⟨data, false⟩ []
     fin l (.oro (dedup [] cs))) := by simp [decSimple, Lexer.new]

theorem decSimple_8 (data : Bytes) : decSimple 8 data =
    (let (t, l) := Lexer.read16 ⟨data, false⟩
     fin l (.elapsed ((t : Int) * tenMs))) := by simp [decSimple, Lexer.new]

theorem decSimple_13 (data : Bytes) : decSimple 13 data =
    (let (c, l) := Lexer.read16 ⟨data, false⟩
     let (m, l) := l.readAll
     fin l (.status c m)) := by simp [decSimple, Lexer.new]

theorem decSimple_15 (data : Bytes) : decSimple 15 data =
    (if data.length = 0 then .err
     else
       let (cls, l) := lenPrefLoop (data.length + 1) ⟨data, false⟩ []
       fin l (.userClass cls)) := by simp [decSimple, Lexer.new]

theorem decSimple_16 (data : Bytes) : decSimple 16 data =
    (let (en, l) := Lexer.read32 ⟨data, false⟩
     let (ds, l) := lenPrefLoop (data.length + 1) l []
     if ds.length = 0 then .err else fin l (.vendorClass en ds)) := by simp [decSimple, Lexer.new]

theorem decSimple_17 (data : Bytes) : decSimple 17 data =
    (let (en, l) := Lexer.read32 ⟨data, false⟩
     let (rest, l) := l.readAll
     match optionsFromBytes (fun c d => Res.ok (c, d)) rest with
     | .ok os => fin l (.vendorOpts en os)
     | .err => .err
     | .panic => .panic) := by simp [decSimple, Lexer.new]; rfl

theorem decSimple_18 (data : Bytes) : decSimple 18 data = .ok (.interfaceID data) := by
  simp [decSimple]

theorem decSimple_23 (data : Bytes) : decSimple 23 data =
    (let (ips, l) := ip16Loop (data.length + 1) ⟨data, false⟩ []
     fin l (.dns ips)) := by simp [decSimple, Lexer.new]

theorem decSimple_24 (data : Bytes) : decSimple 24 data =
    (match Label.fromBytes data with
     | .ok lb => .ok (.domainSearch lb)
     | .err => .err
     | .panic => .panic) := by simp [decSimple]; rfl

theorem decSimple_32 (data : Bytes) : decSimple 32 data =
    (let (d, l) := decDur ⟨data, false⟩
     fin l (.infoRefresh d)) := by simp [decSimple, Lexer.new]

theorem decSimple_37 (data : Bytes) : decSimple 37 data =
    (let (en, l) := Lexer.read32 ⟨data, false⟩
     let (id, l) := l.readAll
     fin l (.remoteID en id)) := by simp [decSimple, Lexer.new]

theorem decSimple_39 (data : Bytes) : decSimple 39 data =
    (let (f, l) := Lexer.read8 ⟨data, false⟩
     let (rest, l) := l.readAll
     match Label.fromBytes rest with
     | .ok lb => fin l (.fqdn f lb)
     | .err => .err
     | .panic => .panic) := by simp [decSimple, Lexer.new]; rfl

theorem decSimple_56 (data : Bytes) : decSimple 56 data =
    (match optionsFromBytes parseNTPSub data with
     | .ok subs => .ok (.ntp subs)
     | .err => .err
     | .panic => .panic) := by simp [decSimple]; rfl

theorem decSimple_59 (data : Bytes) : decSimple 59 data = .ok (.bootfileURL data) := by
  simp [decSimple]

theorem decSimple_60 (data : Bytes) : decSimple 60 data =
    (let (ps, l) := lenPrefLoop (data.length + 1) ⟨data, false⟩ []
     fin l (.bootfileParam ps)) := by simp [decSimple, Lexer.new]

theorem decSimple_61 (data : Bytes) : decSimple 61 data =
    (if data.length = 0 then .err
     else
       let (as, l) := u16Loop (data.length + 1) ⟨data, false⟩ []
       fin l (.archType as)) := by simp [decSimple, Lexer.new]

theorem decSimple_62 (data : Bytes) : decSimple 62 data =
    (let (t, l) := Lexer.read8 ⟨data, false⟩
     let (ma, l) := l.read8
     let (mi, l) := l.read8
     fin l (.nii t ma mi)) := by simp [decSimple, Lexer.new]

theorem decSimple_79 (data : Bytes) : decSimple 79 data =
    (let (ht, l) := Lexer.read16 ⟨data, false⟩
     let (a, l) := l.readAll
     fin l (.clientLLA ht a)) := by simp [decSimple, Lexer.new]

theorem decSimple_87 (data : Bytes) : decSimple 87 data =
    (match V4.dec4 data with
     | .ok p => .ok (.dhcpv4Msg p)
     | .err => .err
     | .panic => .panic) := by
  simp [decSimple]; generalize V4.dec4 data = r; cases r <;> rfl

theorem decSimple_88 (data : Bytes) : decSimple 88 data =
    (let (ips, l) := ip16Loop (data.length + 1) ⟨data, false⟩ []
     fin l (.dhcp4o6Server ips)) := by simp [decSimple, Lexer.new]

theorem decSimple_98 (data : Bytes) : decSimple 98 data =
    (let (p4len, l) := Lexer.read8 ⟨data, false⟩
     let (p6len, l) := l.read8
     if p4len.toNat > 32 || p6len.toNat > 128 then .err
     else
       let (ea, l) := l.read8
       let (fl, l) := l.read8
       let (p4, l) := l.copyN 4
       let (p6, l) := l.copyN 16
       fin l (.fourRDMapRule p4len.toNat p4 p6len.toNat p6 ea (fl &&& 128 != 0))) := by
  simp [decSimple, Lexer.new]

theorem decSimple_99 (data : Bytes) : decSimple 99 data =
    (let (fl, l) := Lexer.read8 ⟨data, false⟩
     let (tc, l) := l.read8
     let (pmtu, l) := l.read16
     fin l (.fourRDNonMapRule (fl &&& 128 != 0) (if fl &&& 1 != 0 then some tc else none) pmtu)) := by
  simp [decSimple, Lexer.new]

theorem decSimple_135 (data : Bytes) : decSimple 135 data =
    (let (p, l) := Lexer.read16 ⟨data, false⟩
     fin l (.relayPort p)) := by simp [decSimple, Lexer.new]

theorem decSimple_generic (c : Nat) (data : Bytes) (h : c ∉ knownCodes) :
    decSimple c data = .ok (.generic c data) := by
  simp only [knownCodes, List.mem_cons, List.mem_nil_iff, or_false, not_or] at h
  obtain ⟨_, _, _, _, _, h6, h8, _, h13, h15, h16, h17, h18, h23, h24, _, _, h32, h37, h39, h56, h59,
    h60, h61, h62, h79, h87, h88, _, h98, h99, h135⟩ := h
  simp only [decSimple, h6, h8, h13, h15, h16, h17, h18, h23, h24, h32, h37, h39, h56, h59, h60, h61,
    h62, h79, h87, h88, h98, h99, h135, if_false]

/-! ### Lexer reads that consume the whole buffer -/

theorem read16_all (v : Nat) (h : v < 65536) (e : Bool) :
    Lexer.read16 ⟨be16 v, e⟩ = (v, ⟨[], e⟩) := by
  have := Lexer.read16_append v h [] e
  simpa using this

theorem read32_all (v : Nat) (h : v < 4294967296) (e : Bool) :
    Lexer.read32 ⟨be32 v, e⟩ = (v, ⟨[], e⟩) := by
  have := Lexer.read32_append v h [] e
  simpa using this

theorem copyN_all (xs : Bytes) (e : Bool) {n : Nat} (h : n = xs.length) :
    Lexer.copyN ⟨xs, e⟩ n = (some xs, ⟨[], e⟩) := by
  have := Lexer.copyN_append xs [] e h
  simpa using this

theorem decDur_all (d : Dur) (h : DurOK d) : decDur ⟨encDur d, false⟩ = (d, ⟨[], false⟩) := by
  have := decDur_encDur d h []
  simpa using this

/-! ### the three item loops -/

theorem u16Loop_flatMap : ∀ (cs : List Nat) (fuel : Nat) (acc : List Nat),
    (∀ c ∈ cs, c < 65536) → cs.length < fuel →
    u16Loop fuel ⟨cs.flatMap be16, false⟩ acc = (acc ++ cs, ⟨[], false⟩) := by
  intro cs
  induction cs with
  | nil =>
    intro fuel acc _ hf
    cases fuel with
    | zero => simp at hf
    | succ f => simp [u16Loop, Lexer.has]
  | cons c cs ih =>
    intro fuel acc h hf
    cases fuel with
    | zero => simp at hf
    | succ f =>
      have hc := h c (by simp)
      have hhas : Lexer.has ⟨be16 c ++ cs.flatMap be16, false⟩ 2 = true := by simp [Lexer.has]
      simp only [List.flatMap_cons]
      conv => lhs; unfold u16Loop
      simp only [hhas, if_true, Lexer.read16_append c hc]
      rw [ih f (acc ++ [c]) (fun y hy => h y (by simp [hy])) (by simp at hf; omega)]
      simp

theorem flatMap_be16_length (cs : List Nat) : (cs.flatMap be16).length = 2 * cs.length := by
  induction cs with
  | nil => simp
  | cons c cs ih => simp only [List.flatMap_cons, List.length_append, be16_length, List.length_cons, ih]; omega

theorem lenPrefLoop_lenPref : ∀ (xs : List Bytes) (fuel : Nat) (acc : List Bytes),
    ItemsOK xs → xs.length < fuel →
    lenPrefLoop fuel ⟨lenPref xs, false⟩ acc = (acc ++ xs, ⟨[], false⟩) := by
  intro xs
  induction xs with
  | nil =>
    intro fuel acc _ hf
    cases fuel with
    | zero => simp at hf
    | succ f => simp [lenPrefLoop, lenPref, Lexer.has]
  | cons x xs ih =>
    intro fuel acc h hf
    cases fuel with
    | zero => simp at hf
    | succ f =>
      have hx : x.length < 65536 := h x (by simp)
      have hhas : Lexer.has ⟨be16 x.length ++ (x ++ lenPref xs), false⟩ 2 = true := by
        simp [Lexer.has]
      have hl : lenPref (x :: xs) = be16 x.length ++ (x ++ lenPref xs) := by
        simp [lenPref]
      rw [hl]
      conv => lhs; unfold lenPrefLoop
      simp only [hhas, if_true, Lexer.read16_append x.length hx,
        Lexer.copyN_append x (lenPref xs) false rfl, Option.getD_some]
      rw [ih f (acc ++ [x]) (fun y hy => h y (by simp [hy])) (by simp at hf; omega)]
      simp

theorem lenPref_length (xs : List Bytes) : xs.length ≤ (lenPref xs).length := by
  induction xs with
  | nil => simp [lenPref]
  | cons x xs ih =>
    have hl : lenPref (x :: xs) = be16 x.length ++ (x ++ lenPref xs) := by simp [lenPref]
    rw [hl]
    simp only [List.length_append, be16_length, List.length_cons]; omega

theorem lenPref_ne_nil {xs : List Bytes} (h : xs ≠ []) : (lenPref xs).length ≠ 0 := by
  cases xs with
  | nil => exact absurd rfl h
  | cons x xs =>
    have hl : lenPref (x :: xs) = be16 x.length ++ (x ++ lenPref xs) := by simp [lenPref]
    rw [hl]
    simp only [List.length_append, be16_length]; omega

theorem ip16Loop_flatMap : ∀ (ips : List IP) (fuel : Nat) (acc : List IP),
    (∀ ip ∈ ips, IP16 ip) → ips.length < fuel →
    ip16Loop fuel ⟨ips.flatMap writeTo16, false⟩ acc = (acc ++ ips, ⟨[], false⟩) := by
  intro ips
  induction ips with
  | nil =>
    intro fuel acc _ hf
    cases fuel with
    | zero => simp at hf
    | succ f => simp [ip16Loop, Lexer.has]
  | cons ip ips ih =>
    intro fuel acc h hf
    cases fuel with
    | zero => simp at hf
    | succ f =>
      obtain ⟨b, rfl, hb, hw⟩ := writeTo16_ip16 (h ip (by simp))
      have hhas : Lexer.has ⟨b ++ ips.flatMap writeTo16, false⟩ 16 = true := by
        simp [Lexer.has, hb]
      simp only [List.flatMap_cons, hw]
      conv => lhs; unfold ip16Loop
      simp only [hhas, if_true, Lexer.copyN_append b (ips.flatMap writeTo16) false hb.symm]
      rw [ih f (acc ++ [some b]) (fun y hy => h y (by simp [hy])) (by simp at hf; omega)]
      simp

theorem flatMap_writeTo16_length (ips : List IP) (h : ∀ ip ∈ ips, IP16 ip) :
    ips.length ≤ (ips.flatMap writeTo16).length := by
  induction ips with
  | nil => simp
  | cons ip ips ih =>
    obtain ⟨b, rfl, hb, hw⟩ := writeTo16_ip16 (h ip (by simp))
    have := ih (fun y hy => h y (by simp [hy]))
    simp only [List.flatMap_cons, List.length_append, List.length_cons, hw, hb]; omega

theorem dedup_nodup : ∀ (cs acc : List Nat), (acc ++ cs).Nodup → dedup acc cs = acc ++ cs := by
  intro cs
  induction cs with
  | nil => intro acc _; simp [dedup]
  | cons c cs ih =>
    intro acc h
    have hc : ¬ (c ∈ acc) := by
      intro hm
      have := (List.nodup_append.mp h).2.2 c hm c (by simp)
      exact this rfl
    have hcc : acc.contains c = false := by
      simp [hc]
    have h' : ((acc ++ [c]) ++ cs).Nodup := by simpa using h
    simp only [dedup, hcc, Bool.false_eq_true, if_false]
    rw [ih (acc ++ [c]) h']
    simp

/-! ### one lemma per constructor -/

theorem rt_oro (cs : List Nat) (h : WFOpt (.oro cs)) :
    decSimple (Opt6.oro cs).code (encOpt (.oro cs)) = .ok (.oro cs) := by
  simp only [WFOpt] at h
  obtain ⟨h1, h2⟩ := h
  simp only [Opt6.code, encOpt, decSimple_6]
  rw [u16Loop_flatMap cs _ [] h1 (by rw [flatMap_be16_length]; omega)]
  simp only [List.nil_append, fin_ok, dedup_nodup cs [] (by simpa using h2)]

theorem rt_elapsed (d : Dur) (h : WFOpt (.elapsed d)) :
    decSimple (Opt6.elapsed d).code (encOpt (.elapsed d)) = .ok (.elapsed d) := by
  simp only [WFOpt] at h
  obtain ⟨k, hk, rfl⟩ := h
  simp only [Opt6.code, encOpt, decSimple_8, durTo16_tenMs k hk, read16_all k hk, fin_ok]

theorem rt_status (c : Nat) (m : Bytes) (h : WFOpt (.status c m)) :
    decSimple (Opt6.status c m).code (encOpt (.status c m)) = .ok (.status c m) := by
  simp only [WFOpt] at h
  simp only [Opt6.code, encOpt, decSimple_13, Lexer.read16_append c h, readAll_mk, fin_ok]

theorem rt_userClass (cls : List Bytes) (h : WFOpt (.userClass cls)) :
    decSimple (Opt6.userClass cls).code (encOpt (.userClass cls)) = .ok (.userClass cls) := by
  simp only [WFOpt] at h
  obtain ⟨h1, h2⟩ := h
  simp only [Opt6.code, encOpt, decSimple_15, lenPref_ne_nil h1, if_false]
  rw [lenPrefLoop_lenPref cls _ [] h2 (by have := lenPref_length cls; omega)]
  simp only [List.nil_append, fin_ok]

theorem rt_vendorClass (en : Nat) (ds : List Bytes) (h : WFOpt (.vendorClass en ds)) :
    decSimple (Opt6.vendorClass en ds).code (encOpt (.vendorClass en ds)) = .ok (.vendorClass en ds) := by
  simp only [WFOpt] at h
  obtain ⟨h0, h1, h2⟩ := h
  simp only [Opt6.code, encOpt, decSimple_16, Lexer.read32_append en h0]
  rw [lenPrefLoop_lenPref ds _ [] h2 (by
    have := lenPref_length ds
    simp only [List.length_append, be32_length]; omega)]
  have hne : ¬ (ds.length = 0) := fun h => h1 (List.eq_nil_of_length_eq_zero h)
  simp only [List.nil_append, hne, if_false, fin_ok]

theorem rt_vendorOpts (en : Nat) (os : List (Nat × Bytes)) (h : WFOpt (.vendorOpts en os)) :
    decSimple (Opt6.vendorOpts en os).code (encOpt (.vendorOpts en os)) = .ok (.vendorOpts en os) := by
  simp only [WFOpt] at h
  obtain ⟨h0, h1⟩ := h
  have hd := optionsFromBytes_items (fun c d => Res.ok (c, d)) Prod.fst Prod.snd os
    (fun x hx => ⟨rfl, (h1 x hx).1, (h1 x hx).2⟩)
  simp only [Opt6.code, encOpt, decSimple_17, Lexer.read32_append en h0, readAll_mk, hd, fin_ok]

theorem rt_dns (ips : List IP) (h : WFOpt (.dns ips)) :
    decSimple (Opt6.dns ips).code (encOpt (.dns ips)) = .ok (.dns ips) := by
  simp only [WFOpt] at h
  simp only [Opt6.code, encOpt, decSimple_23]
  rw [ip16Loop_flatMap ips _ [] h (by have := flatMap_writeTo16_length ips h; omega)]
  simp only [List.nil_append, fin_ok]

theorem rt_domainSearch (l : Label.Labels) (h : WFOpt (.domainSearch l)) :
    decSimple (Opt6.domainSearch l).code (encOpt (.domainSearch l)) = .ok (.domainSearch l) := by
  simp only [WFOpt] at h
  simp only [Opt6.code, encOpt, decSimple_24, labels_rt l h]

theorem rt_infoRefresh (d : Dur) (h : WFOpt (.infoRefresh d)) :
    decSimple (Opt6.infoRefresh d).code (encOpt (.infoRefresh d)) = .ok (.infoRefresh d) := by
  simp only [WFOpt] at h
  simp only [Opt6.code, encOpt, decSimple_32, decDur_all d h, fin_ok]

theorem rt_remoteID (en : Nat) (id : Bytes) (h : WFOpt (.remoteID en id)) :
    decSimple (Opt6.remoteID en id).code (encOpt (.remoteID en id)) = .ok (.remoteID en id) := by
  simp only [WFOpt] at h
  simp only [Opt6.code, encOpt, decSimple_37, Lexer.read32_append en h, readAll_mk, fin_ok]

theorem rt_fqdn (f : UInt8) (n : Label.Labels) (h : WFOpt (.fqdn f n)) :
    decSimple (Opt6.fqdn f n).code (encOpt (.fqdn f n)) = .ok (.fqdn f n) := by
  simp only [WFOpt] at h
  simp only [Opt6.code, encOpt, decSimple_39, Lexer.read8_cons, readAll_mk, labels_rt n h, fin_ok]

theorem parseNTPSub_enc (s : NTPSub) (h : NTPSubOK s) : parseNTPSub s.code (encNTPSub s) = .ok s := by
  cases s with
  | srvAddr ip =>
    simp only [NTPSubOK] at h
    obtain ⟨b, rfl, hb, hw⟩ := writeTo16_ip16 h
    simp only [NTPSub.code, encNTPSub, parseNTPSub, if_true, Lexer.new, hw, copyN_all b false hb.symm,
      fin_ok]
  | mcAddr ip =>
    simp only [NTPSubOK] at h
    obtain ⟨b, rfl, hb, hw⟩ := writeTo16_ip16 h
    simp only [NTPSub.code, encNTPSub, parseNTPSub, show ¬ ((2 : Nat) = 1) by decide, if_false, if_true,
      Lexer.new, hw, copyN_all b false hb.symm, fin_ok]
  | srvFQDN l =>
    simp only [NTPSubOK] at h
    simp only [NTPSub.code, encNTPSub, parseNTPSub, show ¬ ((3 : Nat) = 1) by decide,
      show ¬ ((3 : Nat) = 2) by decide, if_false, if_true, labels_rt l h.1, h.2, ne_eq,
      not_true_eq_false]
  | generic c d =>
    obtain ⟨_, h1, h2, h3⟩ := h
    simp only [NTPSub.code, encNTPSub, parseNTPSub, h1, h2, h3, if_false]

theorem rt_ntp (subs : List NTPSub) (h : WFOpt (.ntp subs)) :
    decSimple (Opt6.ntp subs).code (encOpt (.ntp subs)) = .ok (.ntp subs) := by
  simp only [WFOpt] at h
  have hc : ∀ s : NTPSub, NTPSubOK s → s.code < 65536 := by
    intro s hs
    cases s with
    | generic c d => exact hs.1
    | _ => simp only [NTPSub.code]; omega
  have hd := optionsFromBytes_items parseNTPSub NTPSub.code encNTPSub subs
    (fun x hx => ⟨parseNTPSub_enc x (h x hx).1, hc x (h x hx).1, (h x hx).2⟩)
  simp only [Opt6.code, encOpt, decSimple_56, hd]

theorem filter_itemsOK (ps : List Bytes) (h : ItemsOK ps) :
    ps.filter (fun p => decide (p.length < 65536)) = ps := by
  apply List.filter_eq_self.mpr
  intro p hp
  simp [h p hp]

theorem rt_bootfileParam (ps : List Bytes) (h : WFOpt (.bootfileParam ps)) :
    decSimple (Opt6.bootfileParam ps).code (encOpt (.bootfileParam ps)) = .ok (.bootfileParam ps) := by
  simp only [WFOpt] at h
  have he : encOpt (.bootfileParam ps) = lenPref ps := by
    simp only [encOpt, filter_itemsOK ps h, lenPref]
  simp only [Opt6.code, he, decSimple_60]
  rw [lenPrefLoop_lenPref ps _ [] h (by have := lenPref_length ps; omega)]
  simp only [List.nil_append, fin_ok]

theorem rt_archType (as : List Nat) (h : WFOpt (.archType as)) :
    decSimple (Opt6.archType as).code (encOpt (.archType as)) = .ok (.archType as) := by
  simp only [WFOpt] at h
  obtain ⟨h1, h2⟩ := h
  have hne : ¬ ((as.flatMap be16).length = 0) := by
    rw [flatMap_be16_length]
    cases as with
    | nil => exact absurd rfl h1
    | cons a as => simp only [List.length_cons]; omega
  simp only [Opt6.code, encOpt, decSimple_61, hne, if_false]
  rw [u16Loop_flatMap as _ [] h2 (by rw [flatMap_be16_length]; omega)]
  simp only [List.nil_append, fin_ok]

theorem rt_nii (t ma mi : UInt8) :
    decSimple (Opt6.nii t ma mi).code (encOpt (.nii t ma mi)) = .ok (.nii t ma mi) := by
  simp only [Opt6.code, encOpt, decSimple_62, Lexer.read8_cons, fin_ok]

theorem rt_clientLLA (ht : Nat) (a : Bytes) (h : WFOpt (.clientLLA ht a)) :
    decSimple (Opt6.clientLLA ht a).code (encOpt (.clientLLA ht a)) = .ok (.clientLLA ht a) := by
  simp only [WFOpt] at h
  simp only [Opt6.code, encOpt, decSimple_79, Lexer.read16_append ht h, readAll_mk, fin_ok]

theorem rt_dhcpv4Msg (p : V4.Pkt4) (h : WFOpt (.dhcpv4Msg p)) :
    decSimple (Opt6.dhcpv4Msg p).code (encOpt (.dhcpv4Msg p)) = .ok (.dhcpv4Msg p) := by
  simp only [WFOpt] at h
  obtain ⟨he, hn⟩ := h
  obtain ⟨b, hb, hd⟩ := V4.enc4_dec4 p he
  rw [hn] at hd
  simp only [Opt6.code, encOpt, enc4Bytes, hb, decSimple_87, hd]

theorem rt_dhcp4o6Server (ips : List IP) (h : WFOpt (.dhcp4o6Server ips)) :
    decSimple (Opt6.dhcp4o6Server ips).code (encOpt (.dhcp4o6Server ips)) = .ok (.dhcp4o6Server ips) := by
  simp only [WFOpt] at h
  simp only [Opt6.code, encOpt, decSimple_88]
  rw [ip16Loop_flatMap ips _ [] h (by have := flatMap_writeTo16_length ips h; omega)]
  simp only [List.nil_append, fin_ok]

theorem rt_fourRDMapRule (p4len : Nat) (p4 : IP) (p6len : Nat) (p6 : IP) (ea : UInt8) (wkp : Bool)
    (h : WFOpt (.fourRDMapRule p4len p4 p6len p6 ea wkp)) :
    decSimple (Opt6.fourRDMapRule p4len p4 p6len p6 ea wkp).code
      (encOpt (.fourRDMapRule p4len p4 p6len p6 ea wkp)) = .ok (.fourRDMapRule p4len p4 p6len p6 ea wkp) := by
  simp only [WFOpt] at h
  obtain ⟨h4l, ⟨b4, rfl, hb4⟩, h6l, h6⟩ := h
  obtain ⟨b6, rfl, hb6, hw6⟩ := write16_ip16 h6
  have ht4 : V4.to4 b4 = some b4 := by simp [V4.to4, hb4]
  have hn4 : (UInt8.ofNat p4len).toNat = p4len := UInt8.toNat_ofNat_lt (by omega)
  have hn6 : (UInt8.ofNat p6len).toNat = p6len := UInt8.toNat_ofNat_lt (by omega)
  have hc : (decide (p4len > 32) || decide (p6len > 128)) = false := by
    simp only [Bool.or_eq_false_iff, decide_eq_false_iff_not]; omega
  have f1 : ((128 : UInt8) &&& 128 != 0) = true := by decide
  have f0 : ((0 : UInt8) &&& 128 != 0) = false := by decide
  simp only [Opt6.code, encOpt, decSimple_98, Option.bind_some, ht4, Option.getD_some, hw6,
    List.cons_append, List.nil_append, Lexer.read8_cons, hn4, hn6, hc, Bool.false_eq_true, if_false,
    Lexer.copyN_append b4 b6 false hb4.symm, copyN_all b6 false hb6.symm, fin_ok]
  cases wkp
  · simp only [Bool.false_eq_true, if_false, f0]
  · simp only [if_true, f1]

theorem rt_fourRDNonMapRule (hub : Bool) (tc : Option UInt8) (pmtu : Nat)
    (h : WFOpt (.fourRDNonMapRule hub tc pmtu)) :
    decSimple (Opt6.fourRDNonMapRule hub tc pmtu).code (encOpt (.fourRDNonMapRule hub tc pmtu)) =
      .ok (.fourRDNonMapRule hub tc pmtu) := by
  simp only [WFOpt] at h
  simp only [Opt6.code, encOpt, decSimple_99, List.cons_append, List.nil_append, Lexer.read8_cons,
    read16_all pmtu h, fin_ok]
  have a00 : (((0 : UInt8) + 0) &&& 128 != 0) = false := by decide
  have a01 : (((0 : UInt8) + 1) &&& 128 != 0) = false := by decide
  have a10 : (((128 : UInt8) + 0) &&& 128 != 0) = true := by decide
  have a11 : (((128 : UInt8) + 1) &&& 128 != 0) = true := by decide
  have b00 : (((0 : UInt8) + 0) &&& 1 != 0) = false := by decide
  have b01 : (((0 : UInt8) + 1) &&& 1 != 0) = true := by decide
  have b10 : (((128 : UInt8) + 0) &&& 1 != 0) = false := by decide
  have b11 : (((128 : UInt8) + 1) &&& 1 != 0) = true := by decide
  cases hub <;> cases tc <;>
    simp only [Bool.false_eq_true, if_false, if_true, Option.isSome_some, Option.isSome_none,
      Option.getD_some, Option.getD_none, a00, a01, a10, a11, b00, b01, b10, b11]

theorem rt_relayPort (p : Nat) (h : WFOpt (.relayPort p)) :
    decSimple (Opt6.relayPort p).code (encOpt (.relayPort p)) = .ok (.relayPort p) := by
  simp only [WFOpt] at h
  simp only [Opt6.code, encOpt, decSimple_135, read16_all p h, fin_ok]

theorem rt_generic (c : Nat) (d : Bytes) (h : WFOpt (.generic c d)) :
    decSimple (Opt6.generic c d).code (encOpt (.generic c d)) = .ok (.generic c d) := by
  simp only [WFOpt] at h
  simp only [Opt6.code, encOpt, decSimple_generic c d h.2]

/-- the round trip of every simple option codec -/
theorem simpleRT_all : SimpleRT := by
  intro o hs hw
  cases o with
  | clientID _ => simp [isSimple] at hs
  | serverID _ => simp [isSimple] at hs
  | iana _ _ _ _ => simp [isSimple] at hs
  | iata _ _ => simp [isSimple] at hs
  | iaaddr _ _ _ _ => simp [isSimple] at hs
  | relayMsg _ => simp [isSimple] at hs
  | iapd _ _ _ _ => simp [isSimple] at hs
  | iaprefix _ _ _ _ => simp [isSimple] at hs
  | fourRD _ => simp [isSimple] at hs
  | oro cs => exact rt_oro cs hw
  | elapsed d => exact rt_elapsed d hw
  | status c m => exact rt_status c m hw
  | userClass cls => exact rt_userClass cls hw
  | vendorClass en ds => exact rt_vendorClass en ds hw
  | vendorOpts en os => exact rt_vendorOpts en os hw
  | interfaceID id => simp only [Opt6.code, encOpt, decSimple_18]
  | dns ips => exact rt_dns ips hw
  | domainSearch l => exact rt_domainSearch l hw
  | infoRefresh d => exact rt_infoRefresh d hw
  | remoteID en id => exact rt_remoteID en id hw
  | fqdn f n => exact rt_fqdn f n hw
  | ntp subs => exact rt_ntp subs hw
  | bootfileURL u => simp only [Opt6.code, encOpt, decSimple_59]
  | bootfileParam ps => exact rt_bootfileParam ps hw
  | archType as => exact rt_archType as hw
  | nii t ma mi => exact rt_nii t ma mi
  | clientLLA ht a => exact rt_clientLLA ht a hw
  | dhcpv4Msg p => exact rt_dhcpv4Msg p hw
  | dhcp4o6Server ips => exact rt_dhcp4o6Server ips hw
  | fourRDMapRule a b c d e g => exact rt_fourRDMapRule a b c d e g hw
  | fourRDNonMapRule a b c => exact rt_fourRDNonMapRule a b c hw
  | relayPort p => exact rt_relayPort p hw
  | generic c d => exact rt_generic c d hw

/-- C02 for DHCPv6: every well-formed message or relay chain decodes back from its encoding -/
theorem roundtrip_msg (m : Msg6) (h : WFMsg m) (f : Nat) (hf : fuelMsg m ≤ f) :
    decMsgF f (encMsg m) = .ok m := rtMsg simpleRT_all m h f hf

end Dhcp.V6

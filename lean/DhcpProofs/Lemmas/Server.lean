import Dhcp.Server
/- Helper lemmas about the serving-loop model (`Dhcp.Server`). -/
namespace Dhcp.Server
open Dhcp List

/-- `dhcpv4.FromBytes` (model) returns a packet or an error, never `panic`. -/
theorem dec4_ne_panic (b : Bytes) : V4.dec4 b ≠ .panic := by
  unfold V4.dec4
  simp only []
  split
  · simp
  · split
    · simp
    · split <;> simp

/-- `upeer.IP.To4().Equal(net.IPv4zero)` holds for exactly two byte strings:
0.0.0.0 in 4-byte form and in IPv4-mapped 16-byte form. -/
theorem isZero4_iff (ip : Bytes) :
    isZero4 ip = true ↔
      (ip = [0, 0, 0, 0] ∨ ip = [0, 0, 0, 0, 0, 0, 0, 0, 0, 0, 255, 255, 0, 0, 0, 0]) := by
  constructor
  · intro h
    simp only [isZero4, V4.to4, ipv4zero4, beq_iff_eq] at h
    split at h
    · left; simpa using h
    · split at h
      · rename_i h16
        right
        obtain ⟨hl, h10, h2⟩ := h16
        simp only [Option.some.injEq] at h
        have e1 : ip = ip.take 10 ++ ((ip.drop 10).take 2 ++ ip.drop 12) := by
          rw [← List.take_append_drop 10 ip]
          congr 1
          · simp
          · rw [List.take_append_drop 10 ip]
            have : ip.drop 12 = (ip.drop 10).drop 2 := by simp
            rw [this, List.take_append_drop]
        rw [e1, h10, h2, h]
        rfl
      · simp at h
  · intro h
    rcases h with rfl | rfl <;> rfl

section
variable {α : Type} (dec : Bytes → Option α) (rule : Peer → Res Peer)

/-- no iteration panics (server4: no read returns a nil `*net.UDPAddr`) -/
def NoPanic (rs : List ReadResult) : Prop := ∀ r ∈ rs, step dec rule r ≠ .stop .panicked

theorem NoPanic.tail {r : ReadResult} {rs : List ReadResult} (h : NoPanic dec rule (r :: rs)) :
    NoPanic dec rule rs := fun x hx => h x (mem_cons_of_mem _ hx)

theorem NoPanic.append_left {a b : List ReadResult} (h : NoPanic dec rule (a ++ b)) :
    NoPanic dec rule a := fun x hx => h x (mem_append_left _ hx)

theorem handlerCall_eq_step (r : ReadResult) (i : Nat) :
    handlerCall dec rule r i =
      match step dec rule r with
      | .invoke m p => some ⟨i, m, p⟩
      | _ => none := by
  cases r with
  | readError => rfl
  | datagram b p =>
    simp only [handlerCall, step]
    cases dec (b.take readBufLen) <;> simp only []
    cases rule p <;> rfl

theorem serveFrom_invocations (i : Nat) (rs : List ReadResult) (h : NoPanic dec rule rs) :
    (serveFrom dec rule i rs).invocations =
      ((rs.takeWhile ReadResult.isDatagram).zipIdx i).filterMap
        (fun x => handlerCall dec rule x.1 x.2) := by
  induction rs generalizing i with
  | nil => rfl
  | cons r rest ih =>
    have hr := h r (mem_cons_self ..)
    have ih' := ih (i + 1) (h.tail)
    cases r with
    | readError => simp [serveFrom, step, ReadResult.isDatagram]
    | datagram b p =>
      simp only [takeWhile_cons, ReadResult.isDatagram, if_true, zipIdx_cons, filterMap_cons]
      rw [handlerCall_eq_step dec rule (.datagram b p) i]
      simp only [serveFrom]
      cases hs : step dec rule (.datagram b p) with
      | invoke m p' => simp only [ih']
      | skip => simp only [ih']
      | stop e =>
        exfalso
        simp only [step] at hs
        cases hd : dec (b.take readBufLen) with
        | none => simp [hd] at hs
        | some m =>
          cases hp : rule p with
          | ok p' => simp [hd, hp] at hs
          | err => simp [hd, hp] at hs
          | panic => exact hr (by simp [step, hd, hp])

/-- every invocation made from position `i` on carries an index ≥ `i`, points at a
datagram of the sequence, and carries that datagram's decoding and rewritten sender -/
theorem serveFrom_mem (i : Nat) (rs : List ReadResult) (v : Invocation α)
    (hv : v ∈ (serveFrom dec rule i rs).invocations) :
    i ≤ v.idx ∧ ∃ b p, rs[v.idx - i]? = some (.datagram b p) ∧
      dec (b.take readBufLen) = some v.msg ∧ rule p = .ok v.peer := by
  induction rs generalizing i with
  | nil => simp [serveFrom] at hv
  | cons r rest ih =>
    simp only [serveFrom] at hv
    cases hs : step dec rule r with
    | stop e => simp [hs] at hv
    | skip =>
      simp only [hs] at hv
      obtain ⟨h1, b, p, h2, h3⟩ := ih (i + 1) hv
      refine ⟨by omega, b, p, ?_, h3⟩
      have : v.idx - i = (v.idx - (i + 1)) + 1 := by omega
      rw [this, getElem?_cons_succ]; exact h2
    | invoke m p' =>
      simp only [hs, mem_cons] at hv
      rcases hv with rfl | hv
      · refine ⟨Nat.le_refl _, ?_⟩
        cases r with
        | readError => simp [step] at hs
        | datagram b p =>
          refine ⟨b, p, by simp, ?_⟩
          simp only [step] at hs
          cases hd : dec (b.take readBufLen) with
          | none => simp [hd] at hs
          | some m' =>
            cases hp : rule p with
            | ok q => simp [hd, hp] at hs; simp [hs]
            | err => simp [hd, hp] at hs
            | panic => simp [hd, hp] at hs
      · obtain ⟨h1, b, p, h2, h3⟩ := ih (i + 1) hv
        refine ⟨by omega, b, p, ?_, h3⟩
        have : v.idx - i = (v.idx - (i + 1)) + 1 := by omega
        rw [this, getElem?_cons_succ]; exact h2

theorem filter_idx_of_ge {k j : Nat} (l : List (Invocation α)) (h : ∀ v ∈ l, k ≤ v.idx) (hj : j < k) :
    l.filter (fun v => v.idx == j) = [] := by
  apply filter_eq_nil_iff.mpr
  intro v hv
  have := h v hv
  simp; omega

/-- the invocations carrying index `i + j` are exactly the handler call the
`j`-th read result is entitled to (one or none), as long as the loop is still
running at `j` -/
theorem serveFrom_filter_idx (i j : Nat) (rs : List ReadResult) (h : NoPanic dec rule rs)
    (r : ReadResult) (hr : rs[j]? = some r)
    (hj : j < (rs.takeWhile ReadResult.isDatagram).length) :
    (serveFrom dec rule i rs).invocations.filter (fun v => v.idx == i + j) =
      (handlerCall dec rule r (i + j)).toList := by
  induction rs generalizing i j with
  | nil => simp at hr
  | cons x rest ih =>
    have hx := h x (mem_cons_self ..)
    cases x with
    | readError => simp [ReadResult.isDatagram] at hj
    | datagram b p =>
      simp only [takeWhile_cons, ReadResult.isDatagram, if_true, length_cons] at hj
      have htail : ∀ v ∈ (serveFrom dec rule (i + 1) rest).invocations, i + 1 ≤ v.idx :=
        fun v hv => (serveFrom_mem dec rule (i + 1) rest v hv).1
      cases j with
      | zero =>
        simp only [getElem?_cons_zero, Option.some.injEq] at hr
        subst hr
        rw [handlerCall_eq_step]
        simp only [serveFrom, Nat.add_zero]
        cases hs : step dec rule (.datagram b p) with
        | stop e =>
          exfalso
          cases hd : dec (b.take readBufLen) with
          | none => simp [step, hd] at hs
          | some m =>
            cases hp : rule p with
            | ok q => simp [step, hd, hp] at hs
            | err => simp [step, hd, hp] at hs
            | panic => exact hx (by simp [step, hd, hp])
        | skip =>
          simp only [Option.toList]
          exact filter_idx_of_ge _ htail (by omega)
        | invoke m q =>
          simp only [filter_cons, beq_self_eq_true, if_true, Option.toList]
          rw [filter_idx_of_ge _ htail (by omega)]
      | succ j' =>
        simp only [getElem?_cons_succ] at hr
        have ih' := ih (i + 1) j' h.tail hr (by omega)
        have e : i + (j' + 1) = i + 1 + j' := by omega
        rw [e]
        simp only [serveFrom]
        cases hs : step dec rule (.datagram b p) with
        | stop e => 
          exfalso
          cases hd : dec (b.take readBufLen) with
          | none => simp [step, hd] at hs
          | some m =>
            cases hp : rule p with
            | ok q => simp [step, hd, hp] at hs
            | err => simp [step, hd, hp] at hs
            | panic => exact hx (by simp [step, hd, hp])
        | skip => exact ih'
        | invoke m q =>
          simp only [filter_cons]
          have : ((i : Nat) == i + 1 + j') = false := by simp; omega
          simp only [this]
          exact ih'

/-- what the handler sees and how the loop ends do not depend on the start index -/
theorem serveFrom_shift (i j : Nat) (rs : List ReadResult) :
    (serveFrom dec rule i rs).calls = (serveFrom dec rule j rs).calls ∧
      (serveFrom dec rule i rs).exit = (serveFrom dec rule j rs).exit := by
  induction rs generalizing i j with
  | nil => simp [serveFrom, Outcome.calls]
  | cons r rest ih =>
    simp only [serveFrom]
    cases step dec rule r with
    | stop e => simp [Outcome.calls]
    | skip => exact ih (i + 1) (j + 1)
    | invoke m p =>
      have := ih (i + 1) (j + 1)
      simp only [Outcome.calls, map_cons] at this ⊢
      exact ⟨by rw [this.1], this.2⟩

/-- a read result the loop skips (undecodable datagram, or server4's non-UDP
sender) neither ends the loop nor changes what the handler sees of the others -/
theorem serveFrom_skip (i : Nat) (a c : List ReadResult) (r : ReadResult)
    (hr : step dec rule r = .skip) :
    (serveFrom dec rule i (a ++ r :: c)).calls = (serveFrom dec rule i (a ++ c)).calls ∧
      (serveFrom dec rule i (a ++ r :: c)).exit = (serveFrom dec rule i (a ++ c)).exit := by
  induction a generalizing i with
  | nil =>
    simp only [nil_append, serveFrom, hr]
    exact serveFrom_shift dec rule (i + 1) i c
  | cons x a ih =>
    simp only [cons_append, serveFrom]
    cases step dec rule x with
    | stop e => simp
    | skip => exact ih (i + 1)
    | invoke m p =>
      have := ih (i + 1)
      simp only [Outcome.calls, map_cons] at this ⊢
      exact ⟨by rw [this.1], this.2⟩

/-- nothing after the first failed read is looked at -/
theorem serveFrom_readError (i : Nat) (a b b' : List ReadResult) :
    serveFrom dec rule i (a ++ .readError :: b) = serveFrom dec rule i (a ++ .readError :: b') := by
  induction a generalizing i with
  | nil => simp [serveFrom, step]
  | cons x a ih =>
    simp only [cons_append, serveFrom]
    cases step dec rule x with
    | stop e => rfl
    | skip => exact ih (i + 1)
    | invoke m p => rw [ih (i + 1)]

theorem serveFrom_exit (i : Nat) (rs : List ReadResult) (h : NoPanic dec rule rs) :
    ((serveFrom dec rule i rs).exit = .returned ↔ .readError ∈ rs) ∧
      ((serveFrom dec rule i rs).exit = .blocked ↔ .readError ∉ rs) ∧
      (serveFrom dec rule i rs).exit ≠ .panicked := by
  induction rs generalizing i with
  | nil => simp [serveFrom]
  | cons r rest ih =>
    have hr := h r (mem_cons_self ..)
    have ih' := ih (i + 1) h.tail
    cases r with
    | readError => simp [serveFrom, step]
    | datagram b p =>
      simp only [serveFrom]
      cases hs : step dec rule (.datagram b p) with
      | stop e =>
        exfalso
        cases hd : dec (b.take readBufLen) with
        | none => simp [step, hd] at hs
        | some m =>
          cases hp : rule p with
          | ok q => simp [step, hd, hp] at hs
          | err => simp [step, hd, hp] at hs
          | panic => exact hr (by simp [step, hd, hp])
      | skip => simpa using ih'
      | invoke m q => simpa using ih'
end

/-! ### the two peer rules -/

theorem peer6_noPanic {α : Type} (dec : Bytes → Option α) (rs : List ReadResult) :
    NoPanic dec peer6 rs := by
  intro r _
  cases r with
  | readError => simp [step]
  | datagram b p =>
    simp only [step, peer6]
    cases dec (b.take readBufLen) <;> simp

theorem peer4_noPanic {α : Type} (dec : Bytes → Option α) (rs : List ReadResult)
    (h : ∀ b, ReadResult.datagram b .udpNilPtr ∉ rs) : NoPanic dec peer4 rs := by
  intro r hr
  cases r with
  | readError => simp [step]
  | datagram b p =>
    simp only [step]
    cases dec (b.take readBufLen) with
    | none => simp
    | some m =>
      cases p with
      | udp ip port zone =>
        cases ip with
        | none => simp [peer4]
        | some ip => by_cases hz : isZero4 ip = true <;> simp [peer4, hz]
      | udpNilPtr => exact absurd hr (h b)
      | other id => simp [peer4]
      | nilAddr => simp [peer4]

end Dhcp.Server

import DhcpProofs.Lemmas.C03Relay
import DhcpProofs.Lemmas.C03Strings
import DhcpProofs.Lemmas.V6BuildMsg
import Dhcp.V6.Observe
import DhcpProofs.Lemmas.V4Fix
/-
  C03 over the netboot and ztpv6 observers of a decoded DHCPv6 message
  (model: Dhcp/V6/Observe.lean): no guard fires on decoded messages.
-/
namespace Dhcp.V6
open Dhcp Dhcp.Str

/-! ### the Go type of an option found by code, in a decoded list -/

theorem DecOpt.iana_of_code {o : Opt6} (h : DecOpt o) (hc : o.code = ocIANA) :
    ∃ i t1 t2 sub, o = .iana i t1 t2 sub ∧ DecOpts sub := by
  cases o <;> simp only [Opt6.code, ocIANA] at hc <;> try omega
  · next i t1 t2 sub => exact ⟨i, t1, t2, sub, rfl, by simpa only [DecOpt] using h⟩
  · subst hc; exact absurd rfl (h.not_generic (by simp [Opt6.code, knownCodes]) _ _)

theorem DecOpt.iaaddr_of_code {o : Opt6} (h : DecOpt o) (hc : o.code = ocIAAddr) :
    ∃ ip p v sub, o = .iaaddr ip p v sub := by
  cases o <;> simp only [Opt6.code, ocIAAddr] at hc <;> try omega
  · next ip p v sub => exact ⟨ip, p, v, sub, rfl⟩
  · subst hc; exact absurd rfl (h.not_generic (by simp [Opt6.code, knownCodes]) _ _)

theorem DecOpt.vendorOpts_of_code {o : Opt6} (h : DecOpt o) (hc : o.code = ocVendorOpts) :
    ∃ en subs, o = .vendorOpts en subs := by
  cases o <;> simp only [Opt6.code, ocVendorOpts] at hc <;> try omega
  · next en subs => exact ⟨en, subs, rfl⟩
  · subst hc; exact absurd rfl (h.not_generic (by simp [Opt6.code, knownCodes]) _ _)

theorem DecOpt.vendorClass_of_code {o : Opt6} (h : DecOpt o) (hc : o.code = ocVendorClass) :
    ∃ en data, o = .vendorClass en data := by
  cases o <;> simp only [Opt6.code, ocVendorClass] at hc <;> try omega
  · next en data => exact ⟨en, data, rfl⟩
  · subst hc; exact absurd rfl (h.not_generic (by simp [Opt6.code, knownCodes]) _ _)

theorem DecOpts.ianaTyped {os : List Opt6} (h : DecOpts os) : IANATyped os := by
  intro o ho hc
  obtain ⟨i, t1, t2, sub, rfl, _⟩ := (h.mem ho).iana_of_code hc
  rfl

theorem mem_get {c : Nat} {os : List Opt6} {o : Opt6} (h : o ∈ get c os) : o ∈ os ∧ o.code = c := by
  unfold get at h
  have := List.mem_filter.mp h
  exact ⟨this.1, by simpa using this.2⟩

/-! ### netboot -/

theorem ite_err_ok_ne_panic {α} (c : Prop) [Decidable c] (a : α) : (if c then Res.err else Res.ok a) ≠ .panic := by
  split <;> simp

theorem addrConfs_ne_panic : ∀ xs : List Opt6, (∀ o ∈ xs, ∃ ip p v sub, o = .iaaddr ip p v sub) →
    addrConfs xs ≠ .panic := by
  intro xs
  induction xs with
  | nil => intro _; simp [addrConfs]
  | cons x xs ih =>
    intro h
    obtain ⟨ip, p, v, sub, rfl⟩ := h x (List.mem_cons_self ..)
    simp only [addrConfs]
    have := ih (fun o ho => h o (List.mem_cons_of_mem _ ho))
    cases hr : addrConfs xs with
    | ok as => simp [Res.map, Res.bind]
    | err => simp [Res.map, Res.bind]
    | panic => exact absurd hr this

/-- `GetNetConfFromPacketv6` on the options of a decoded message -/
theorem getNetConfFromPacketv6_ne_panic {os : List Opt6} (h : DecOpts os) : getNetConfFromPacketv6 os ≠ .panic := by
  unfold getNetConfFromPacketv6
  rw [oneIANAOf_typed h.ianaTyped]
  cases hg : getOne ocIANA os with
  | none => simp
  | some o =>
    obtain ⟨i, t1, t2, sub, rfl, hsub⟩ := (h.mem (getOne_mem hg)).iana_of_code (getOne_code hg)
    simp only []
    have := addrConfs_ne_panic (get ocIAAddr sub) (fun o ho =>
      (hsub.mem (mem_get ho).1).iaaddr_of_code (mem_get ho).2)
    cases hr : addrConfs (get ocIAAddr sub) with
    | ok as => simp [Res.map, Res.bind]
    | err => simp [Res.map, Res.bind]
    | panic => exact absurd hr this

/-- a relay message never has type ADVERTISE or REPLY once decoded -/
theorem DecMsg.relay_typ {t hc : UInt8} {l p : IP} {os : List Opt6} (h : DecMsg (.relay t hc l p os)) :
    t ≠ mtAdvertise ∧ t ≠ mtReply := by
  have ht := h.1
  simp only [isRelayType, relayForward, relayReply, Bool.or_eq_true] at ht
  rcases ht with ht | ht <;> (have := of_decide_eq_true ht; subst this; exact ⟨by decide, by decide⟩)

/-- the scan over a conversation of decoded messages: the assertions hold and the
two messages kept are decoded -/
theorem scanConversation_dec : ∀ (ms : List Msg6) (adv rep : Option (List Opt6)),
    (∀ m ∈ ms, DecMsg m) → (∀ os, adv = some os → DecOpts os) → (∀ os, rep = some os → DecOpts os) →
    ∃ adv' rep', scanConversation ms adv rep = .ok (adv', rep') ∧
      (∀ os, adv' = some os → DecOpts os) ∧ (∀ os, rep' = some os → DecOpts os) := by
  intro ms
  induction ms with
  | nil => intro adv rep _ ha hr; exact ⟨adv, rep, rfl, ha, hr⟩
  | cons m ms ih =>
    intro adv rep hm ha hr
    have hd := hm m (List.mem_cons_self ..)
    have hrest : ∀ x ∈ ms, DecMsg x := fun x hx => hm x (List.mem_cons_of_mem _ hx)
    cases m with
    | msg t x os =>
      by_cases h1 : t = mtAdvertise
      · simp only [scanConversation, Msg6.typ, h1, if_true]
        exact ih (some os) rep hrest (fun os' h => by cases h; exact hd.2) hr
      · by_cases h2 : t = mtReply
        · simp only [scanConversation, Msg6.typ, h1, h2, if_true, if_false]
          exact ih adv (some os) hrest ha (fun os' h => by cases h; exact hd.2)
        · simp only [scanConversation, Msg6.typ, h1, h2, if_false]
          exact ih adv rep hrest ha hr
    | relay t hc l p os =>
      obtain ⟨h1, h2⟩ := hd.relay_typ
      simp only [scanConversation, Msg6.typ, h1, h2, if_false]
      exact ih adv rep hrest ha hr

/-- `ConversationToNetconf` on any list of decoded messages -/
theorem conversationToNetconf_ne_panic {ms : List Msg6} (h : ∀ m ∈ ms, DecMsg m) :
    conversationToNetconf ms ≠ .panic := by
  unfold conversationToNetconf
  obtain ⟨adv, rep, hs, _, hrep⟩ := scanConversation_dec ms none none h (by intro _ h; cases h) (by intro _ h; cases h)
  rw [hs]
  cases rep with
  | none => simp
  | some ros =>
    simp only []
    have := getNetConfFromPacketv6_ne_panic (hrep ros rfl)
    cases hg : getNetConfFromPacketv6 ros with
    | panic => exact absurd hg this
    | err => simp
    | ok nc =>
      simp only []
      exact ite_err_ok_ne_panic _ _

/-! ### ztpv6.ParseVendorData -/

theorem mellanoxVendorData_ne_panic (subs : List (Nat × Bytes)) : mellanoxVendorData subs ≠ .panic := by
  unfold mellanoxVendorData
  simp only []
  split <;> simp

theorem cienaSerial_ne_panic {m : Msg6} (h : DecMsg m) : cienaSerial m ≠ .panic := by
  unfold cienaSerial
  cases hi : getInnerMessage m with
  | panic => exact absurd hi (getInnerMessage_ne_panic m)
  | err => simp
  | ok inner =>
    simp only []
    have hd := (getInnerMessage_dec h hi).1
    have := (DecMsg.opts hd).clientIDOf
    cases hc : clientIDOf inner.opts with
    | panic => exact absurd hc this
    | err => simp
    | ok d =>
      cases d with
      | none => simp
      | some d => cases d <;> simp

/-- three pieces checked, three indices below that: no index out of range -/
theorem pick3_ne_panic {p : List Bytes} {k a b c : Nat} (mk : Bytes → Bytes → Bytes → VendorData)
    (ha : a < k) (hb : b < k) (hc : c < k) :
    (if p.length < k then (Res.err : Res VendorData)
     else (idx p a).bind fun v => (idx p b).bind fun m => (idx p c).bind fun s => .ok (mk v m s)) ≠ .panic := by
  split
  · simp
  · next hl =>
    rw [idx_ok (show a < p.length by omega), idx_ok (show b < p.length by omega), idx_ok (show c < p.length by omega)]
    simp [Res.bind]

theorem ztp6Case_ne_panic {m : Msg6} (h : DecMsg m) (d : Bytes) : ztp6Case m d ≠ some .panic := by
  unfold ztp6Case
  split
  · intro he
    exact pick3_ne_panic (p := split d sepSemi) (k := 4) (a := 0) (b := 1) (c := 3) (fun v m s => ⟨v, m, s⟩)
      (by omega) (by omega) (by omega) (Option.some.inj he)
  · split
    · intro he
      exact pick3_ne_panic (p := split d sepColon) (k := 3) (a := 0) (b := 1) (c := 2) (fun v m s => ⟨v, m, s⟩)
        (by omega) (by omega) (by omega) (Option.some.inj he)
    · split
      · intro he
        exact pick3_ne_panic (p := split d sepHashes) (k := 3) (a := 0) (b := 1) (c := 2) (fun v m s => ⟨v, m, s⟩)
          (by omega) (by omega) (by omega) (Option.some.inj he)
      · split
        · intro he
          have he := Option.some.inj he
          split at he
          · cases he
          · next hl =>
            rw [idx_ok (show 1 < (split d sepDash).length by omega),
              idx_ok (show 2 < (split d sepDash).length by omega)] at he
            simp only [Res.bind] at he
            have := cienaSerial_ne_panic h
            cases hs : cienaSerial m with
            | panic => exact this hs
            | err => rw [hs] at he; cases he
            | ok s => rw [hs] at he; cases he
        · simp

theorem ztp6Scan_ne_panic {m : Msg6} (h : DecMsg m) : ∀ ds : List Bytes, ztp6Scan m ds ≠ .panic := by
  intro ds
  induction ds with
  | nil => simp [ztp6Scan]
  | cons d ds ih =>
    simp only [ztp6Scan]
    cases hc : ztp6Case m d with
    | none => exact ih
    | some r =>
      simp only []
      intro he
      subst he
      exact ztp6Case_ne_panic h d hc

/-- `ztpv6.ParseVendorData` on a decoded message (relay or not) -/
theorem ztp6ParseVendorData_ne_panic {m : Msg6} (h : DecMsg m) : ztp6ParseVendorData m ≠ .panic := by
  unfold ztp6ParseVendorData
  have hos := DecMsg.opts h
  cases h17 : getOne ocVendorOpts m.opts with
  | some o17 =>
    obtain ⟨en, subs, rfl⟩ := (hos.mem (getOne_mem h17)).vendorOpts_of_code (getOne_code h17)
    cases getOne ocVendorClass m.opts <;> simp only [] <;> split <;>
      first | exact mellanoxVendorData_ne_panic _ | exact ztp6Scan_ne_panic h _
  | none =>
    cases h16 : getOne ocVendorClass m.opts with
    | none => simp
    | some o16 =>
      obtain ⟨en, data, rfl⟩ := (hos.mem (getOne_mem h16)).vendorClass_of_code (getOne_code h16)
      simp only []
      exact ztp6Scan_ne_panic h _

/-! ### re-encoding a decoded message -/

mutual
theorem optEncPanics_dec : (o : Opt6) → DecOpt o → optEncPanics o = false
  | .dhcpv4Msg p, h => by
    simp only [DecOpt] at h
    obtain ⟨v, hv⟩ := h
    obtain ⟨b₁, hb, _, _⟩ := V4.dec4_fixpoint v p hv
    simp [optEncPanics, hb, Res.isPanic]
  | .relayMsg m, h => by simp only [DecOpt] at h; simp only [optEncPanics, msgEncPanics_dec m h]
  | .iana _ _ _ os, h => by simp only [DecOpt] at h; simp only [optEncPanics, optsEncPanics_dec os h]
  | .iata _ os, h => by simp only [DecOpt] at h; simp only [optEncPanics, optsEncPanics_dec os h]
  | .iaaddr _ _ _ os, h => by simp only [DecOpt] at h; simp only [optEncPanics, optsEncPanics_dec os h]
  | .iapd _ _ _ os, h => by simp only [DecOpt] at h; simp only [optEncPanics, optsEncPanics_dec os h]
  | .iaprefix _ _ _ os, h => by simp only [DecOpt] at h; simp only [optEncPanics, optsEncPanics_dec os h]
  | .fourRD os, h => by simp only [DecOpt] at h; simp only [optEncPanics, optsEncPanics_dec os h]
  | .clientID _, _ | .serverID _, _ | .oro _, _ | .elapsed _, _ | .status .., _ | .userClass _, _
  | .vendorClass .., _ | .vendorOpts .., _ | .interfaceID _, _ | .dns _, _ | .domainSearch _, _
  | .infoRefresh _, _ | .remoteID .., _ | .fqdn .., _ | .ntp _, _ | .bootfileURL _, _
  | .bootfileParam _, _ | .archType _, _ | .nii .., _ | .clientLLA .., _ | .dhcp4o6Server _, _
  | .fourRDMapRule .., _ | .fourRDNonMapRule .., _ | .relayPort _, _ | .generic .., _ => by
    simp only [optEncPanics]
theorem optsEncPanics_dec : (os : List Opt6) → DecOpts os → optsEncPanics os = false
  | [], _ => by simp only [optsEncPanics]
  | o :: os, h => by
    simp only [DecOpts] at h
    simp only [optsEncPanics, optEncPanics_dec o h.1, optsEncPanics_dec os h.2, Bool.or_self]
theorem msgEncPanics_dec : (m : Msg6) → DecMsg m → msgEncPanics m = false
  | .msg _ _ os, h => by simp only [DecMsg] at h; simp only [msgEncPanics, optsEncPanics_dec os h.2]
  | .relay _ _ _ _ os, h => by simp only [DecMsg] at h; simp only [msgEncPanics, optsEncPanics_dec os h.2.2.2]
end

/-- `ToBytes` of a decoded message returns its bytes -/
theorem encMsgR_dec {m : Msg6} (h : DecMsg m) : encMsgR m = .ok (encMsg m) := by
  simp [encMsgR, msgEncPanics_dec m h]

/-! ### ztpv6.ParseRemoteID: for every message and every matcher -/

theorem parseRemoteID_ne_panic (mc : Bytes → Option CircuitID) (m : Msg6) : parseRemoteID mc m ≠ .panic := by
  unfold parseRemoteID
  cases hd : decapsulateRelayIndex m (-1) with
  | panic => exact absurd hd (decapsulateRelayIndex_ne_panic _ _)
  | err => simp
  | ok r =>
    cases r with
    | msg t x os => simp
    | relay t hc l p os =>
      simp only []
      have hv : (match interfaceIDOf os with
          | some iid => if iid.isEmpty = true then (Res.err : Res CircuitID)
              else (match mc iid with | some c => .ok c | none => .err)
          | none => .err) ≠ .panic := by
        split
        · split
          · simp
          · split <;> simp
        · simp
      split
      · split
        · simp
        · exact hv
      · exact hv

end Dhcp.V6

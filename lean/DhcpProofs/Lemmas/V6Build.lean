import Dhcp.Spec.Relay6
import DhcpProofs.Lemmas.Basic
/- Helper lemmas for C16: option lookup, relay depth, fuel irrelevance of the
decapsulation loops, chains. -/
namespace Dhcp.V6
open Dhcp Dhcp.Spec

/-! ### option lookup -/

@[simp] theorem getOne_nil (c : Nat) : getOne c [] = none := rfl

theorem getOne_cons (c : Nat) (o : Opt6) (os : List Opt6) :
    getOne c (o :: os) = if o.code = c then some o else getOne c os := by
  unfold getOne
  by_cases h : o.code = c <;> simp [h]

theorem getOne_code {c : Nat} {os : List Opt6} {o : Opt6} (h : getOne c os = some o) : o.code = c := by
  unfold getOne at h
  have := List.find?_some h
  simpa using this

theorem getOne_mem {c : Nat} {os : List Opt6} {o : Opt6} (h : getOne c os = some o) : o ∈ os := by
  unfold getOne at h
  exact List.mem_of_find?_eq_some h

theorem getOne_append (c : Nat) (xs ys : List Opt6) :
    getOne c (xs ++ ys) = (getOne c xs).or (getOne c ys) := by
  unfold getOne; simp [List.find?_append]

theorem getOne_toList_self {c : Nat} {os : List Opt6} : getOne c (getOne c os).toList = getOne c os := by
  cases h : getOne c os with
  | none => rfl
  | some o => simp [getOne_cons, getOne_code h]

theorem getOne_toList_other {c d : Nat} {os : List Opt6} (hcd : c ≠ d) : getOne d (getOne c os).toList = none := by
  cases h : getOne c os with
  | none => rfl
  | some o =>
    have := getOne_code h
    simp [getOne_cons, this, hcd]

@[simp] theorem relayMessageOf_cons_relayMsg (m : Msg6) (os : List Opt6) :
    relayMessageOf (.relayMsg m :: os) = some m := by
  simp [relayMessageOf, getOne_cons, Opt6.code, ocRelayMsg]

theorem relayMessageOf_mem {os : List Opt6} {m : Msg6} (h : relayMessageOf os = some m) :
    Opt6.relayMsg m ∈ os := by
  unfold relayMessageOf at h
  split at h
  · next m' hg => cases h; exact getOne_mem hg
  · cases h

/-! ### depth -/

theorem optDepth_le_of_mem {o : Opt6} {os : List Opt6} (h : o ∈ os) : optDepth o ≤ optsDepth os := by
  induction os with
  | nil => cases h
  | cons x xs ih =>
    rw [optsDepth]
    cases h with
    | head => omega
    | tail _ h' => have := ih h'; omega

theorem msgDepth_of_relayMessageOf {os : List Opt6} {m : Msg6} (h : relayMessageOf os = some m) :
    msgDepth m ≤ optsDepth os := by
  have := optDepth_le_of_mem (relayMessageOf_mem h)
  rwa [optDepth] at this

theorem msgDepth_relay (t h : UInt8) (l p : IP) (os : List Opt6) :
    msgDepth (.relay t h l p os) = optsDepth os + 1 := by rw [msgDepth]

theorem isRelay_iff {m : Msg6} : m.isRelay = true ↔ ∃ t h l p os, m = .relay t h l p os := by
  cases m with
  | msg t x os => simp [Msg6.isRelay]
  | relay t h l p os => simp [Msg6.isRelay]

theorem not_isRelay_iff {m : Msg6} : m.isRelay = false ↔ ∃ t x os, m = .msg t x os := by
  cases m with
  | msg t x os => simp [Msg6.isRelay]
  | relay t h l p os => simp [Msg6.isRelay]

/-- decapsulating a relay message strictly lowers the depth -/
theorem decapsulateRelay_depth {l d : Msg6} (hl : l.isRelay = true) (h : decapsulateRelay l = .ok d) :
    msgDepth d < msgDepth l := by
  obtain ⟨t, hc, lk, p, os, rfl⟩ := isRelay_iff.mp hl
  simp only [decapsulateRelay] at h
  split at h
  · next m hm =>
    cases h
    have := msgDepth_of_relayMessageOf hm
    rw [msgDepth_relay]; omega
  · cases h

theorem decapsulateRelay_ne_panic (l : Msg6) : decapsulateRelay l ≠ .panic := by
  cases l with
  | msg t x os => simp [decapsulateRelay]
  | relay t h lk p os =>
    simp only [decapsulateRelay]
    split <;> simp

/-! ### fuel irrelevance: the out-of-fuel branches are unreachable -/

/-- `GetInnerMessage` loop: any fuel ≥ the depth gives the same result -/
theorem innerLoop_fuel (f1 : Nat) : ∀ (f2 : Nat) (p : Msg6), p.isRelay = true →
    msgDepth p ≤ f1 → msgDepth p ≤ f2 → innerLoop f1 p = innerLoop f2 p := by
  induction f1 with
  | zero =>
    intro f2 p hp h1 _
    obtain ⟨t, hc, lk, pr, os, rfl⟩ := isRelay_iff.mp hp
    rw [msgDepth_relay] at h1; omega
  | succ f1 ih =>
    intro f2 p hp h1 h2
    cases f2 with
    | zero =>
      obtain ⟨t, hc, lk, pr, os, rfl⟩ := isRelay_iff.mp hp
      rw [msgDepth_relay] at h2; omega
    | succ f2 =>
      unfold innerLoop
      cases hd : decapsulateRelay p with
      | ok d =>
        have hlt := decapsulateRelay_depth hp hd
        by_cases hr : d.isRelay = true
        · simp only [hr, if_true]
          exact ih f2 d hr (by omega) (by omega)
        · simp [hr]
      | err => rfl
      | panic => rfl

/-- `DecapsulateRelayIndex(-1)` loop: any fuel ≥ the depth gives the same result -/
theorem lastRelay_fuel (f1 : Nat) : ∀ (f2 : Nat) (p : Msg6), p.isRelay = true →
    msgDepth p ≤ f1 → msgDepth p ≤ f2 → lastRelay f1 p = lastRelay f2 p := by
  induction f1 with
  | zero =>
    intro f2 p hp h1 _
    obtain ⟨t, hc, lk, pr, os, rfl⟩ := isRelay_iff.mp hp
    rw [msgDepth_relay] at h1; omega
  | succ f1 ih =>
    intro f2 p hp h1 h2
    cases f2 with
    | zero =>
      obtain ⟨t, hc, lk, pr, os, rfl⟩ := isRelay_iff.mp hp
      rw [msgDepth_relay] at h2; omega
    | succ f2 =>
      unfold lastRelay
      cases hd : decapsulateRelay p with
      | ok d =>
        have hlt := decapsulateRelay_depth hp hd
        by_cases hr : d.isRelay = true
        · simp only [hr, if_true]
          exact ih f2 d hr (by omega) (by omega)
        · simp [hr]
      | err => rfl
      | panic => rfl

/-- first loop of `NewRelayReplFromRelayForw`: any fuel > the depth of the options gives the same result -/
theorem collectLevels_fuel (f1 : Nat) : ∀ (f2 : Nat) (l p : IP) (os : List Opt6),
    optsDepth os < f1 → optsDepth os < f2 → collectLevels f1 l p os = collectLevels f2 l p os := by
  induction f1 with
  | zero => intro f2 l p os h1 _; omega
  | succ f1 ih =>
    intro f2 l p os h1 h2
    cases f2 with
    | zero => omega
    | succ f2 =>
      unfold collectLevels
      cases hm : relayMessageOf os with
      | none => rfl
      | some m =>
        cases m with
        | msg t x os' => rfl
        | relay t hc l' p' os' =>
          have := msgDepth_of_relayMessageOf hm
          rw [msgDepth_relay] at this
          simp only
          rw [ih f2 l' p' os' (by omega) (by omega)]

/-! ### the loops never panic -/

theorem innerLoop_ne_panic (f : Nat) : ∀ p : Msg6, innerLoop f p ≠ .panic := by
  induction f with
  | zero => intro p; simp [innerLoop]
  | succ f ih =>
    intro p
    unfold innerLoop
    cases hd : decapsulateRelay p with
    | ok d =>
      by_cases hr : d.isRelay = true
      · simp only [hr, if_true]; exact ih d
      · simp [hr]
    | err => simp
    | panic => exact absurd hd (decapsulateRelay_ne_panic p)

theorem getInnerMessage_ne_panic (m : Msg6) : getInnerMessage m ≠ .panic := by
  cases m with
  | msg t x os => simp [getInnerMessage]
  | relay t h l p os => simp only [getInnerMessage]; exact innerLoop_ne_panic _ _

theorem collectLevels_ne_panic (f : Nat) : ∀ (l p : IP) (os : List Opt6), collectLevels f l p os ≠ .panic := by
  induction f with
  | zero => intro l p os; simp [collectLevels]
  | succ f ih =>
    intro l p os
    unfold collectLevels
    cases hm : relayMessageOf os with
    | none => simp
    | some m =>
      cases m with
      | msg t x os' => simp
      | relay t hc l' p' os' =>
        simp only
        have := ih l' p' os'
        cases hc' : collectLevels f l' p' os' with
        | ok v => simp [Res.map, Res.bind]
        | err => simp [Res.map, Res.bind]
        | panic => exact absurd hc' this

theorem encapsulateRelay_ne_panic (d : Msg6) (t : UInt8) (l p : IP) : encapsulateRelay d t l p ≠ .panic := by
  unfold encapsulateRelay
  split <;> simp

theorem rebuild_ne_panic (msg : Msg6) : ∀ lvls : List Level, rebuild msg lvls ≠ .panic := by
  intro lvls
  induction lvls with
  | nil => simp [rebuild]
  | cons lv rest ih =>
    unfold rebuild
    cases hr : rebuild msg rest with
    | ok m =>
      simp only [Res.bind]
      cases he : encapsulateRelay m relayReply lv.link lv.peer with
      | ok r => simp [Res.map, Res.bind]
      | err => simp [Res.map, Res.bind]
      | panic => exact absurd he (encapsulateRelay_ne_panic _ _ _ _)
    | err => simp [Res.bind]
    | panic => exact absurd hr ih

end Dhcp.V6

import Dhcp.V6.Domain
import DhcpProofs.Lemmas.Basic
/- Generic lemmas about the DHCPv6 code/length/value loop (`Options.FromBytesWithParser`). -/
namespace Dhcp.V6
open Dhcp List

theorem tlv_length (code : Nat) (v : Bytes) : (tlv code v).length = v.length + 4 := by
  simp [tlv]; omega

/-- one well-framed option at the head of the buffer -/
theorem tlvLoop_step {α : Type} (parse : Nat → Bytes → Res α) (fuel code : Nat) (v rest : Bytes)
    (acc : List α) (hc : code < 65536) (hv : v.length < 65536) :
    tlvLoop parse (fuel + 1) ⟨tlv code v ++ rest, false⟩ acc =
      match parse code v with
      | .ok o => tlvLoop parse fuel ⟨rest, false⟩ (acc ++ [o])
      | .err => .err
      | .panic => .panic := by
  conv => lhs; unfold tlvLoop
  have hhas : Lexer.has ⟨tlv code v ++ rest, false⟩ 4 = true := by
    simp [Lexer.has, tlv_length]; omega
  simp only [hhas, if_true]
  unfold tlv
  simp only [List.append_assoc]
  rw [Lexer.read16_append code hc]
  simp only
  rw [Lexer.read16_append v.length hv]
  simp only
  rw [Lexer.consume_append v rest false rfl]
  simp only [Option.getD_some]
  cases parse code v <;> rfl

theorem tlvLoop_nil {α : Type} (parse : Nat → Bytes → Res α) (fuel : Nat) (acc : List α) :
    tlvLoop parse (fuel + 1) ⟨[], false⟩ acc = .ok acc := by
  simp [tlvLoop, Lexer.has, Lexer.finError]

/-- a list of framed items all of which the parser accepts -/
theorem tlvLoop_items {α : Type} (parse : Nat → Bytes → Res α) (code : α → Nat) (val : α → Bytes) :
    ∀ (xs : List α) (fuel : Nat) (acc : List α),
      (∀ x ∈ xs, parse (code x) (val x) = .ok x ∧ code x < 65536 ∧ (val x).length < 65536) →
      xs.length < fuel →
      tlvLoop parse fuel ⟨xs.flatMap (fun x => tlv (code x) (val x)), false⟩ acc = .ok (acc ++ xs) := by
  intro xs
  induction xs with
  | nil =>
    intro fuel acc _ hf
    cases fuel with
    | zero => omega
    | succ f => simp [tlvLoop_nil]
  | cons x xs ih =>
    intro fuel acc h hf
    cases fuel with
    | zero => omega
    | succ f =>
      obtain ⟨hp, hc, hv⟩ := h x (by simp)
      simp only [List.flatMap_cons]
      rw [tlvLoop_step parse f (code x) (val x) _ acc hc hv, hp]
      simp only
      rw [ih f (acc ++ [x]) (fun y hy => h y (by simp [hy])) (by simp at hf; omega)]
      simp

theorem flatMap_tlv_length {α : Type} (code : α → Nat) (val : α → Bytes) (xs : List α) :
    xs.length ≤ (xs.flatMap (fun x => tlv (code x) (val x))).length := by
  induction xs with
  | nil => simp
  | cons x xs ih => simp only [List.flatMap_cons, List.length_append, List.length_cons, tlv_length]; omega

/-- `Options.FromBytesWithParser` reads back a framed list -/
theorem optionsFromBytes_items {α : Type} (parse : Nat → Bytes → Res α) (code : α → Nat)
    (val : α → Bytes) (xs : List α)
    (h : ∀ x ∈ xs, parse (code x) (val x) = .ok x ∧ code x < 65536 ∧ (val x).length < 65536) :
    optionsFromBytes parse (xs.flatMap (fun x => tlv (code x) (val x))) = .ok xs := by
  unfold optionsFromBytes
  by_cases h0 : (xs.flatMap (fun x => tlv (code x) (val x))).length = 0
  · simp only [h0, if_true]
    have := flatMap_tlv_length code val xs
    have : xs = [] := List.eq_nil_of_length_eq_zero (by omega)
    simp [this]
  · simp only [h0, if_false, Lexer.new]
    have := tlvLoop_items parse code val xs
      ((xs.flatMap (fun x => tlv (code x) (val x))).length + 1) [] h
      (by have := flatMap_tlv_length code val xs; omega)
    simpa using this

theorem encOpts_eq_flatMap (os : List Opt6) :
    encOpts os = os.flatMap (fun o => tlv o.code (encOpt o)) := by
  induction os with
  | nil => simp [encOpts]
  | cons o os ih => simp [encOpts, ih]

/-- `Options.FromBytes` reads back `Options.ToBytes` when each option parses back -/
theorem decOptsF_encOpts (f : Nat) (os : List Opt6)
    (h : ∀ o ∈ os, parseOpt f o.code (encOpt o) = .ok o ∧ o.code < 65536 ∧ (encOpt o).length < 65536) :
    decOptsF (f + 1) (encOpts os) = .ok os := by
  unfold decOptsF
  rw [encOpts_eq_flatMap]
  exact optionsFromBytes_items (fun c d => parseOpt f c d) Opt6.code encOpt os h

end Dhcp.V6

import Dhcp.Go.Lexer
/- Helper lemmas about byte lists, big-endian integers and the Lexer model. -/
namespace Dhcp
open List

@[simp] theorem zeros_length (n : Nat) : (zeros n).length = n := by simp [zeros]

theorem UInt8.toNat_ofNat_lt {n : Nat} (h : n < 256) : (UInt8.ofNat n).toNat = n := by
  simp [UInt8.toNat_ofNat', Nat.mod_eq_of_lt h]

theorem UInt8.ofNat_toNat' (b : UInt8) : UInt8.ofNat b.toNat = b := by
  simp

@[simp] theorem be16_length (v : Nat) : (be16 v).length = 2 := by simp [be16]
@[simp] theorem be32_length (v : Nat) : (be32 v).length = 4 := by simp [be32]

theorem beNat_be16 {v : Nat} (h : v < 65536) : beNat (be16 v) = v := by
  simp only [be16, beNat, List.foldl_cons, List.foldl_nil, UInt8.toNat_ofNat']
  omega

theorem beNat_be32 {v : Nat} (h : v < 4294967296) : beNat (be32 v) = v := by
  simp only [be32, beNat, List.foldl_cons, List.foldl_nil, UInt8.toNat_ofNat']
  omega

theorem copyInto_length (n : Nat) (s : Bytes) : (copyInto n s).length = n := by
  simp [copyInto, List.length_take]; omega

theorem copyInto_of_length_eq {n : Nat} {s : Bytes} (h : s.length = n) : copyInto n s = s := by
  simp [copyInto, ← h, zeros]

theorem copyInto_of_le {n : Nat} {s : Bytes} (h : s.length ≤ n) :
    copyInto n s = s ++ zeros (n - s.length) := by
  simp [copyInto, List.take_of_length_le h]

theorem Res.bind_eq_ok {α β : Type} {r : Res α} {f : α → Res β} {b : β} (h : r.bind f = .ok b) :
    ∃ a, r = .ok a ∧ f a = .ok b := by
  cases r with
  | ok a => exact ⟨a, rfl, h⟩
  | err => simp [Res.bind] at h
  | panic => simp [Res.bind] at h

namespace Lexer

@[simp] theorem consume_append (xs rest : Bytes) (e : Bool) {n : Nat} (h : n = xs.length) :
    consume ⟨xs ++ rest, e⟩ n = (some xs, ⟨rest, e⟩) := by
  subst h; simp [consume]

theorem consume_zero (l : Lexer) : consume l 0 = (some [], l) := by
  simp [consume]

@[simp] theorem read8_cons (b : UInt8) (rest : Bytes) (e : Bool) :
    read8 ⟨b :: rest, e⟩ = (b, ⟨rest, e⟩) := by
  simp [read8, consume]

theorem read8_nil (e : Bool) : read8 ⟨[], e⟩ = (0, ⟨[], true⟩) := by
  simp [read8, consume]

theorem read16_append (v : Nat) (h : v < 65536) (rest : Bytes) (e : Bool) :
    read16 ⟨be16 v ++ rest, e⟩ = (v, ⟨rest, e⟩) := by
  simp [read16, consume_append (be16 v) rest e (n := 2) (by simp), beNat_be16 h]

theorem read32_append (v : Nat) (h : v < 4294967296) (rest : Bytes) (e : Bool) :
    read32 ⟨be32 v ++ rest, e⟩ = (v, ⟨rest, e⟩) := by
  simp [read32, consume_append (be32 v) rest e (n := 4) (by simp), beNat_be32 h]

theorem readBytes_append (xs rest : Bytes) (e : Bool) {n : Nat} (h : n = xs.length) :
    readBytes ⟨xs ++ rest, e⟩ n = (xs, ⟨rest, e⟩) := by
  simp [readBytes, consume_append xs rest e h]

theorem copyN_append (xs rest : Bytes) (e : Bool) {n : Nat} (h : n = xs.length) :
    copyN ⟨xs ++ rest, e⟩ n = (some xs, ⟨rest, e⟩) := by
  simp [copyN, consume_append xs rest e h]

end Lexer
end Dhcp

import Dhcp.Spec.Wire4
import DhcpProofs.Lemmas.V4Opts
/- The option loop against the declarative options-area grammar. -/
namespace Dhcp.V4
open Dhcp List Dhcp.Spec

/-- One step of the loop on a non-empty buffer, in closed form. -/
theorem optsLoop'_cons (c : UInt8) (rest : Bytes) (o : Opts) :
    optsLoop' ⟨c :: rest, false⟩ o =
      if c = 0 then optsLoop' ⟨rest, false⟩ o
      else if c = 255 then some (o, true)
      else match rest with
        | [] => none
        | len :: r =>
          if len.toNat ≤ r.length then optsLoop' ⟨r.drop len.toNat, false⟩ (o.app c (r.take len.toNat))
          else none := by
  by_cases h0 : c = 0
  · subst h0; simp [optsLoop'_pad]
  by_cases h255 : c = 255
  · subst h255; simp [optsLoop'_end]
  simp only [h0, h255, if_false]
  cases rest with
  | nil =>
    simp [optsLoop', optsLoop, Lexer.len, optPad, optEnd, h0, h255, Lexer.read8_nil, Lexer.consume]
  | cons len r =>
    by_cases hl : len.toNat ≤ r.length
    · simp only [hl, if_true]
      have hsplit : r = r.take len.toNat ++ r.drop len.toNat := (List.take_append_drop _ _).symm
      have hlen : (r.take len.toNat).length = len.toNat := by simp [List.length_take]; omega
      have := optsLoop'_tlv c h0 h255 (r.take len.toNat) (r.drop len.toNat)
        (by rw [hlen]; exact UInt8.toNat_lt len) o
      rw [hlen, UInt8.ofNat_toNat', ← hsplit] at this
      exact this
    · simp only [hl, if_false]
      simp [optsLoop', optsLoop, Lexer.len, optPad, optEnd, h0, h255, Lexer.consume, hl]

/-- fold of `append` over a list of instances -/
def appAll (o : Opts) (is : List (UInt8 × Bytes)) : Opts := is.foldl (fun o i => o.app i.1 i.2) o

/-- completeness of the loop for well-formed runs -/
theorem optsLoop'_of_RunEnd {a : Bytes} {is : List (UInt8 × Bytes)} (h : RunEnd a is) :
    ∀ o, optsLoop' ⟨a, false⟩ o = some (appAll o is, true) := by
  induction h with
  | fin tail => intro o; simp [optsLoop'_cons, appAll]
  | pad _ ih => intro o; simp [optsLoop'_cons, ih]
  | @opt rest is c len v h0 h255 hv _ ih =>
    intro o
    rw [optsLoop'_cons]
    simp only [h0, h255, if_false]
    have hle : len.toNat ≤ (v ++ rest).length := by simp; omega
    simp only [hle, if_true, ← hv, List.take_left', List.drop_left']
    rw [ih]
    simp [appAll]

/-- soundness: whenever the loop reports End, the buffer is a well-formed run -/
theorem RunEnd_of_optsLoop' : ∀ (n : Nat) (a : Bytes) (o o' : Opts), a.length ≤ n →
    optsLoop' ⟨a, false⟩ o = some (o', true) → ∃ is, RunEnd a is ∧ o' = appAll o is := by
  intro n
  induction n with
  | zero =>
    intro a o o' hn h
    have : a = [] := List.eq_nil_of_length_eq_zero (by omega)
    subst this
    simp [optsLoop'_nil] at h
  | succ n ih =>
    intro a o o' hn h
    cases a with
    | nil => simp [optsLoop'_nil] at h
    | cons c rest =>
      rw [optsLoop'_cons] at h
      by_cases h0 : c = 0
      · subst h0
        simp only [if_true] at h
        obtain ⟨is, hr, ho⟩ := ih rest o o' (by simp at hn; omega) h
        exact ⟨is, RunEnd.pad hr, ho⟩
      simp only [h0, if_false] at h
      by_cases h255 : c = 255
      · subst h255
        simp only [if_true, Option.some.injEq, Prod.mk.injEq, and_true] at h
        exact ⟨[], RunEnd.fin rest, by simp [appAll, h]⟩
      simp only [h255, if_false] at h
      cases rest with
      | nil => simp at h
      | cons len r =>
        simp only at h
        by_cases hl : len.toNat ≤ r.length
        · simp only [hl, if_true] at h
          obtain ⟨is, hr, ho⟩ := ih (r.drop len.toNat) _ o' (by simp at hn ⊢; omega) h
          refine ⟨(c, r.take len.toNat) :: is, ?_, ?_⟩
          · have hsplit : r = r.take len.toNat ++ r.drop len.toNat := (List.take_append_drop _ _).symm
            have hlen : (r.take len.toNat).length = len.toNat := by simp [List.length_take]; omega
            have := RunEnd.opt c len (r.take len.toNat) h0 h255 hlen hr
            rw [← hsplit] at this
            exact this
          · simp [appAll] at ho ⊢; exact ho
        · simp [hl] at h

/-- the loop never reports `(_, false)` with a result unless it ran off the end
without seeing End -/
theorem optsFromBytes_checkEnd_iff (a : Bytes) (o' : Opts) :
    optsFromBytes Opts.empty a true = some o' ↔
      ∃ is, Area a is ∧ o' = appAll Opts.empty is := by
  unfold optsFromBytes
  constructor
  · intro h
    by_cases ha : a.length = 0
    · have : a = [] := List.eq_nil_of_length_eq_zero ha
      subst this
      simp at h
      exact ⟨[], Or.inl ⟨rfl, rfl⟩, by simp [appAll, h]⟩
    · simp only [ha, if_false] at h
      have hl : optsLoop (a.length + 1) (Lexer.new a) Opts.empty = optsLoop' ⟨a, false⟩ Opts.empty := rfl
      rw [hl] at h
      cases hr : optsLoop' ⟨a, false⟩ Opts.empty with
      | none => simp [hr] at h
      | some r =>
        obtain ⟨o2, e⟩ := r
        simp only [hr] at h
        cases e with
        | false => simp at h
        | true =>
          simp at h
          subst h
          obtain ⟨is, h1, h2⟩ := RunEnd_of_optsLoop' a.length a _ _ (Nat.le_refl _) hr
          exact ⟨is, Or.inr h1, h2⟩
  · rintro ⟨is, hA, ho⟩
    rcases hA with ⟨h1, h2⟩ | hA
    · subst h1; subst h2; simp [ho, appAll]
    · have hne : ¬ a.length = 0 := by
        cases hA <;> simp
      simp only [hne, if_false]
      have hl : optsLoop (a.length + 1) (Lexer.new a) Opts.empty = optsLoop' ⟨a, false⟩ Opts.empty := rfl
      rw [hl, optsLoop'_of_RunEnd hA]
      simp [ho]

/-- `appAll` from the empty map computes the RFC 3396 concatenation. -/
theorem appAll_f (is : List (UInt8 × Bytes)) : ∀ (o : Opts) (c : UInt8),
    (appAll o is).f c =
      if (is.filter (fun i => i.1 = c)).isEmpty then o.f c
      else some ((o.f c).getD [] ++ (is.filter (fun i => i.1 = c)).flatMap (·.2)) := by
  induction is with
  | nil => intro o c; simp [appAll]
  | cons i is ih =>
    intro o c
    simp only [appAll, List.foldl_cons] at ih ⊢
    rw [ih]
    by_cases hc : i.1 = c
    · subst hc
      rw [List.filter_cons_of_pos (p := fun j : UInt8 × Bytes => decide (j.1 = i.1)) (a := i) (l := is)
        (by simp)]
      simp only [List.isEmpty_cons, Bool.false_eq_true, if_false, Opts.app_f_same, Option.getD_some,
        List.flatMap_cons]
      by_cases he : (is.filter (fun j => decide (j.1 = i.1))).isEmpty = true
      · have : is.filter (fun j => decide (j.1 = i.1)) = [] := List.isEmpty_iff.mp he
        simp [this]
      · simp [he, List.append_assoc]
    · have hc' : ¬ c = i.1 := fun h => hc h.symm
      rw [List.filter_cons_of_neg (p := fun j : UInt8 × Bytes => decide (j.1 = c)) (a := i) (l := is)
        (by simp [hc]), Opts.app_f_ne _ _ hc']

theorem appAll_empty_f (is : List (UInt8 × Bytes)) (c : UInt8) :
    (appAll Opts.empty is).f c = valueOf is c := by
  rw [appAll_f]
  simp [valueOf, Opts.empty]

end Dhcp.V4

import DhcpProofs.Lemmas.V4Area
import DhcpProofs.Lemmas.V4Short
/- dec4 against the declarative packet grammar `Spec.Parses4`. -/
namespace Dhcp.V4
open Dhcp List Dhcp.Spec

theorem drop_eq_slice_append (b : Bytes) (i j : Nat) (h : i ≤ j) :
    b.drop i = slice b i j ++ b.drop j := by
  unfold slice
  have : b.drop j = (b.drop i).drop (j - i) := by
    rw [List.drop_drop]; congr 1; omega
  rw [this, List.take_append_drop]

theorem slice_length (b : Bytes) (i j : Nat) (h : j ≤ b.length) : (slice b i j).length = j - i := by
  unfold slice; simp [List.length_take]; omega

theorem be16_beNat (x y : UInt8) : be16 (beNat [x, y]) = [x, y] := by
  simp only [be16, beNat, List.foldl_cons, List.foldl_nil, Nat.zero_mul, Nat.zero_add]
  have hx := UInt8.toNat_lt x
  have hy := UInt8.toNat_lt y
  have h1 : (x.toNat * 256 + y.toNat) / 256 = x.toNat := by omega
  rw [h1]
  congr 1
  · simp
  · congr 1
    apply UInt8.toNat_inj.mp
    rw [UInt8.toNat_ofNat']; omega

theorem beNat_lt_two (x y : UInt8) : beNat [x, y] < 65536 := by
  simp only [beNat, List.foldl_cons, List.foldl_nil]
  have hx := UInt8.toNat_lt x
  have hy := UInt8.toNat_lt y
  omega

theorem len2 {l : Bytes} (h : l.length = 2) : ∃ x y, l = [x, y] := by
  match l, h with
  | [x, y], _ => exact ⟨x, y, rfl⟩

theorem len1 {l : Bytes} (h : l.length = 1) : ∃ x, l = [x] := by
  match l, h with
  | [x], _ => exact ⟨x, rfl⟩

/-- The canonical decomposition of a buffer holding a complete header. -/
theorem split240 (b : Bytes) (h : 240 ≤ b.length) :
    b = slice b 0 1 ++ (slice b 1 2 ++ (slice b 2 3 ++ (slice b 3 4 ++ (slice b 4 8 ++ (slice b 8 10 ++
      (slice b 10 12 ++ (slice b 12 16 ++ (slice b 16 20 ++ (slice b 20 24 ++ (slice b 24 28 ++
      (slice b 28 44 ++ (slice b 44 108 ++ (slice b 108 236 ++ (slice b 236 240 ++ b.drop 240))))))))))))))
      := by
  have h0 : b = b.drop 0 := rfl
  rw [← drop_eq_slice_append b 236 240 (by omega), ← drop_eq_slice_append b 108 236 (by omega),
    ← drop_eq_slice_append b 44 108 (by omega), ← drop_eq_slice_append b 28 44 (by omega),
    ← drop_eq_slice_append b 24 28 (by omega), ← drop_eq_slice_append b 20 24 (by omega),
    ← drop_eq_slice_append b 16 20 (by omega), ← drop_eq_slice_append b 12 16 (by omega),
    ← drop_eq_slice_append b 10 12 (by omega), ← drop_eq_slice_append b 8 10 (by omega),
    ← drop_eq_slice_append b 4 8 (by omega), ← drop_eq_slice_append b 3 4 (by omega),
    ← drop_eq_slice_append b 2 3 (by omega), ← drop_eq_slice_append b 1 2 (by omega),
    ← drop_eq_slice_append b 0 1 (by omega)]
  exact h0

/-- `dec4` on any buffer with a complete header, in closed form over slices. -/
theorem dec4_of_len (b : Bytes) (h : 240 ≤ b.length) :
    dec4 b =
      if slice b 236 240 ≠ magicCookie then .err
      else match optsFromBytes Opts.empty (b.drop 240) true with
        | none => .err
        | some o =>
          .ok { op := (slice b 0 1).headD 0, htype := beNat (slice b 1 2),
                hw := (slice b 28 44).take (min (beNat (slice b 2 3)) 16),
                hops := (slice b 3 4).headD 0, xid := slice b 4 8, secs := beNat (slice b 8 10),
                flags := beNat (slice b 10 12), ciaddr := some (slice b 12 16),
                yiaddr := some (slice b 16 20), siaddr := some (slice b 20 24),
                giaddr := some (slice b 24 28), sname := cutNul (slice b 44 108),
                file := cutNul (slice b 108 236), opts := o } := by
  obtain ⟨op, hop⟩ := len1 (slice_length b 0 1 (by omega))
  obtain ⟨ht, hht⟩ := len1 (slice_length b 1 2 (by omega))
  obtain ⟨hl, hhl⟩ := len1 (slice_length b 2 3 (by omega))
  obtain ⟨hops, hhops⟩ := len1 (slice_length b 3 4 (by omega))
  obtain ⟨s1, s2, hsecs⟩ := len2 (slice_length b 8 10 (by omega))
  obtain ⟨f1, f2, hflags⟩ := len2 (slice_length b 10 12 (by omega))
  have key := dec4_layout op ht hl hops (slice b 4 8) (slice b 12 16) (slice b 16 20) (slice b 20 24)
    (slice b 24 28) (slice b 28 44) (slice b 44 108) (slice b 108 236) (slice b 236 240) (b.drop 240)
    (beNat [s1, s2]) (beNat [f1, f2]) (slice_length b 4 8 (by omega)) (beNat_lt_two _ _)
    (beNat_lt_two _ _) (slice_length b 12 16 (by omega)) (slice_length b 16 20 (by omega))
    (slice_length b 20 24 (by omega)) (slice_length b 24 28 (by omega))
    (slice_length b 28 44 (by omega)) (slice_length b 44 108 (by omega))
    (slice_length b 108 236 (by omega)) (slice_length b 236 240 (by omega))
  rw [be16_beNat, be16_beNat] at key
  simp only [List.cons_append, List.nil_append] at key
  have hb := split240 b h
  rw [hop, hht, hhl, hhops, hsecs, hflags] at hb
  simp only [List.cons_append, List.nil_append] at hb
  rw [← hb] at key
  rw [key, hop, hht, hhl, hhops, hsecs, hflags]
  have hmin : (if hl.toNat > 16 then 16 else hl.toNat) = min (beNat [hl]) 16 := by
    simp only [beNat, List.foldl_cons, List.foldl_nil, Nat.zero_mul, Nat.zero_add]
    split <;> omega
  by_cases hc : slice b 236 240 ≠ magicCookie
  · rw [if_pos hc, if_pos hc]
  · rw [if_neg hc, if_neg hc]
    cases optsFromBytes Opts.empty (drop 240 b) true with
    | none => rfl
    | some o =>
      simp only [hmin, List.headD_cons, beNat, List.foldl_cons, List.foldl_nil, Nat.zero_mul,
        Nat.zero_add]

end Dhcp.V4

namespace Dhcp.V4
open Dhcp List Dhcp.Spec

theorem dec4_ne_panic (b : Bytes) : dec4 b ≠ .panic := by
  by_cases h : 240 ≤ b.length
  · rw [dec4_of_len b h]
    by_cases hc : slice b 236 240 ≠ magicCookie
    · simp [hc]
    · rw [if_neg hc]; cases optsFromBytes Opts.empty (drop 240 b) true <;> simp
  · rw [dec4_short b (by omega)]; simp

theorem dec4_sound (b : Bytes) (p : Pkt4) (h : dec4 b = .ok p) : Parses4 b p := by
  have hlen : 240 ≤ b.length := by
    by_cases hl : 240 ≤ b.length
    · exact hl
    · rw [dec4_short b (by omega)] at h; simp at h
  rw [dec4_of_len b hlen] at h
  by_cases hc : slice b 236 240 ≠ magicCookie
  · rw [if_pos hc] at h; simp at h
  rw [if_neg hc] at h
  have hcookie : slice b 236 240 = magicCookie := by
    by_cases he : slice b 236 240 = magicCookie
    · exact he
    · exact absurd he hc
  cases ho : optsFromBytes Opts.empty (drop 240 b) true with
  | none => rw [ho] at h; simp at h
  | some o =>
    rw [ho] at h
    simp only [Res.ok.injEq] at h
    obtain ⟨is, hA, hoo⟩ := (optsFromBytes_checkEnd_iff _ _).mp ho
    obtain ⟨op, hop⟩ := len1 (slice_length b 0 1 (by omega))
    obtain ⟨ht, hht⟩ := len1 (slice_length b 1 2 (by omega))
    obtain ⟨hops, hhops⟩ := len1 (slice_length b 3 4 (by omega))
    subst h
    refine { len := hlen, cookie := hcookie, op := ?_, htype := ?_, hw := rfl, hops := ?_, xid := rfl,
             secs := rfl, flags := rfl, ci := rfl, yi := rfl, si := rfl, gi := rfl, sname := rfl,
             file := rfl, opts := ⟨is, hA, ?_⟩ }
    · simp [hop]
    · simp only [hht, beNat, List.foldl_cons, List.foldl_nil, Nat.zero_mul, Nat.zero_add]
      exact ⟨by simp, UInt8.toNat_lt ht⟩
    · simp [hhops]
    · intro c; simp only; rw [hoo]; exact appAll_empty_f is c

theorem dec4_complete (b : Bytes) (p : Pkt4) (h : Parses4 b p) : dec4 b = .ok p := by
  rw [dec4_of_len b h.len]
  have hc : ¬ slice b 236 240 ≠ magicCookie := by
    rw [h.cookie]; decide
  rw [if_neg hc]
  obtain ⟨is, hA, hf⟩ := h.opts
  have ho : optsFromBytes Opts.empty (drop 240 b) true = some (appAll Opts.empty is) :=
    (optsFromBytes_checkEnd_iff _ _).mpr ⟨is, hA, rfl⟩
  rw [ho]
  obtain ⟨ht, hht⟩ := len1 (slice_length b 1 2 (by have := h.len; omega))
  have hopts : appAll Opts.empty is = p.opts := by
    apply Opts.ext'; intro c; rw [appAll_empty_f, hf]
  have hop : (slice b 0 1).headD 0 = p.op := by rw [← h.op]; rfl
  have hhops : (slice b 3 4).headD 0 = p.hops := by rw [← h.hops]; rfl
  have hhtype : beNat (slice b 1 2) = p.htype := by
    rw [← h.htype.1]
    simp only [beNat, List.foldl_cons, List.foldl_nil, Nat.zero_mul, Nat.zero_add]
    exact UInt8.toNat_ofNat_lt h.htype.2
  cases p with
  | mk op htype hw hops xid secs flags ci yi si gi sname file opts =>
    simp only at hopts hop hhops hhtype
    have h1 := h.hw; have h2 := h.xid; have h3 := h.secs; have h4 := h.flags; have h5 := h.ci
    have h6 := h.yi; have h7 := h.si; have h8 := h.gi; have h9 := h.sname; have h10 := h.file
    simp only at h1 h2 h3 h4 h5 h6 h7 h8 h9 h10
    simp only [hopts, hop, hhops, hhtype, ← h1, ← h2, ← h3, ← h4, h5, h6, h7, h8, cutNul, ← h9, ← h10]

end Dhcp.V4

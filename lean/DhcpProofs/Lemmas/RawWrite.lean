import DhcpProofs.Lemmas.RawArith
/-
  `udp4pkt` in closed form: the guarded, write-by-write model of the encoder
  never panics and produces the explicit byte layout `frameOf`.
-/
namespace Dhcp.Raw
open Dhcp Dhcp.Spec.Inet

theorem to4_cases (ip : GoIP) : to4 ip = none ∨ ∃ a b c d, to4 ip = some [a, b, c, d] := by
  cases ip with
  | none => simp [to4]
  | some b =>
    simp only [to4]
    split
    · rename_i h
      match b, h with
      | [a, b, c, d], _ => exact Or.inr ⟨a, b, c, d, rfl⟩
    · split
      · rename_i h
        have : (b.drop 12).length = 4 := by simp [h.1]
        match hb : b.drop 12, this with
        | [a, b, c, d], _ => exact Or.inr ⟨a, b, c, d, rfl⟩
      · exact Or.inl rfl

/-- The four address bytes `encode` leaves in the zeroed header for an address
argument: its `To4` form, or `0.0.0.0` when that is nil. -/
def hdrAddr (ip : GoIP) : Bytes := (to4 ip).getD [0, 0, 0, 0]

theorem hdrAddr_length (ip : GoIP) : (hdrAddr ip).length = 4 := by
  unfold hdrAddr
  rcases to4_cases ip with h | ⟨a, b, c, d, h⟩ <;> simp [h]

theorem wordSum_hdrAddr (ip : GoIP) : wordSum (hdrAddr ip) = wordSum (ipBytes (to4 ip)) := by
  unfold hdrAddr
  rcases to4_cases ip with h | ⟨a, b, c, d, h⟩ <;> simp [h, ipBytes, wordSum, words]

/-- IPv4 header with a zero checksum field. -/
def ipHdr0 (tl : Nat) (s d : Bytes) : Bytes :=
  [0x45, 0] ++ be16 tl ++ [0, 0, 0, 0, 64, 17, 0, 0] ++ s ++ d

/-- UDP header with a zero checksum field. -/
def udpHdr0 (sp dp ul : Nat) : Bytes := be16 sp ++ be16 dp ++ be16 ul ++ [0, 0]

def ipCk (p : Bytes) (dst src : Addr) : Nat :=
  compl16 (checksum (ipHdr0 (u16 (28 + p.length)) (hdrAddr src.ip) (hdrAddr dst.ip)) 0)

def udpCk (p : Bytes) (dst src : Addr) : Nat :=
  compl16 (checksum (udpHdr0 (u16 src.port) (u16 dst.port) (u16 (8 + p.length)))
    (checksum (be16 (u16 (8 + p.length)))
      (checksum p (pseudoHeaderchecksum 17 (to4 src.ip) (to4 dst.ip)))))

/-- The frame `udp4pkt` builds, field by field. -/
def frameOf (p : Bytes) (dst src : Addr) : Bytes :=
  [0x45, 0] ++ be16 (u16 (28 + p.length)) ++ [0, 0, 0, 0, 64, 17] ++ be16 (ipCk p dst src) ++
    hdrAddr src.ip ++ hdrAddr dst.ip ++
    be16 (u16 src.port) ++ be16 (u16 dst.port) ++ be16 (u16 (8 + p.length)) ++ be16 (udpCk p dst src) ++ p

theorem u16_lt (n : Nat) : u16 n < 65536 := by simp only [u16]; omega

theorem beNat_hi_lo {v : Nat} (h : v < 65536) : beNat [UInt8.ofNat (v / 256), UInt8.ofNat v] = v :=
  beNat_be16 h

theorem udp4pkt_eq (p : Bytes) (dst src : Addr) : udp4pkt p dst src = .ok (frameOf p dst src) := by
  have e1 := beNat_hi_lo (u16_lt (8 + p.length))
  have z : u16 (u16 0 ||| u16 0 >>> 3) = 0 := by decide
  rcases to4_cases src.ip with hs | ⟨s0, s1, s2, s3, hs⟩ <;>
  rcases to4_cases dst.ip with hd | ⟨d0, d1, d2, d3, hd⟩ <;>
  simp [udp4pkt, frameOf, ipCk, udpCk, ipHdr0, udpHdr0, hdrAddr, ipv4Encode, udpEncode, put8, put16, copyAt,
    zeros, be16, bind, Res.bind, pure, hs, hd, ipBytes, versIHL, tosOff, totalLenOff, idOff, flagsFOOff, ttlOff,
    protocolOff, checksumOff, srcAddrOff, dstAddrOff, ipv4AddressSize, List.replicate, headerLength, idx,
    slicePrefix, get16, ipv4MinimumSize, udpMinimumSize, udpSrcPortOff, udpDstPortOff, udpLengthOff,
    udpChecksumOff, ttlValue, udpProtocolNumber, u8, e1, z]

end Dhcp.Raw

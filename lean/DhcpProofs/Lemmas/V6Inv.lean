import DhcpProofs.Lemmas.V6Parse
/-
  Inversion lemmas for the Lexer reads and the item loops of the DHCPv6 leaf
  decoders: when the final Lexer carries no error, every read succeeded and the
  input is exactly the concatenation of what was read.  (The converse direction
  of the `*_append` / `*_flatMap` lemmas of Basic.lean / V6Simple.lean.)
-/
namespace Dhcp.V6
open Dhcp List Dhcp.Spec

/-! ### single reads -/

theorem consume_spec {l l' : Lexer} {n : Nat} {v : Option Bytes} (h : l.consume n = (v, l'))
    (he : l'.err = false) :
    ∃ bs, v = some bs ∧ bs.length = n ∧ l.err = false ∧ l.data = bs ++ l'.data := by
  unfold Lexer.consume at h
  by_cases hn : n ≤ l.data.length
  · simp only [hn, if_true, Prod.mk.injEq] at h
    obtain ⟨h1, h2⟩ := h
    subst h2
    refine ⟨l.data.take n, h1.symm, ?_, he, ?_⟩
    · simp [List.length_take]; omega
    · simp
  · simp only [hn, if_false, Prod.mk.injEq] at h
    obtain ⟨_, h2⟩ := h
    subst h2
    simp at he

theorem copyN_spec {l l' : Lexer} {n : Nat} {v : Option Bytes} (h : l.copyN n = (v, l'))
    (he : l'.err = false) :
    ∃ bs, v = some bs ∧ bs.length = n ∧ l.err = false ∧ l.data = bs ++ l'.data :=
  consume_spec h he

theorem read8_spec {l l' : Lexer} {a : UInt8} (h : l.read8 = (a, l')) (he : l'.err = false) :
    l.err = false ∧ l.data = a :: l'.data := by
  unfold Lexer.read8 at h
  rcases hc : l.consume 1 with ⟨v, l1⟩
  rw [hc] at h
  have hl : l1 = l' := by
    cases v with
    | none => simp only [Prod.mk.injEq] at h; exact h.2
    | some bs =>
      cases bs with
      | nil => simp only [Prod.mk.injEq] at h; exact h.2
      | cons b t => simp only [Prod.mk.injEq] at h; exact h.2
  subst hl
  obtain ⟨bs, rfl, hlen, he0, hd⟩ := consume_spec hc he
  obtain ⟨x, rfl⟩ := V4.len1 hlen
  simp only [Prod.mk.injEq] at h
  rw [← h.1]
  exact ⟨he0, by simpa using hd⟩

theorem read16_lt (l : Lexer) : l.read16.1 < 65536 := by
  unfold Lexer.read16
  rcases hc : l.consume 2 with ⟨v, l1⟩
  cases v with
  | none => simp
  | some bs =>
    simp only
    unfold Lexer.consume at hc
    by_cases hn : 2 ≤ l.data.length
    · simp only [hn, if_true, Prod.mk.injEq, Option.some.injEq] at hc
      have : bs.length = 2 := by rw [← hc.1]; simp [List.length_take]; omega
      obtain ⟨x, y, rfl⟩ := V4.len2 this
      exact V4.beNat_lt_two x y
    · simp [hn] at hc

theorem read16_spec {l l' : Lexer} {n : Nat} (h : l.read16 = (n, l')) :
    n < 65536 ∧ (l'.err = false → l.err = false ∧ l.data = be16 n ++ l'.data) := by
  refine ⟨by have := read16_lt l; rw [h] at this; exact this, ?_⟩
  intro he
  unfold Lexer.read16 at h
  rcases hc : l.consume 2 with ⟨v, l1⟩
  rw [hc] at h
  have hl : l1 = l' := by
    cases v with
    | none => simp only [Prod.mk.injEq] at h; exact h.2
    | some bs => simp only [Prod.mk.injEq] at h; exact h.2
  subst hl
  obtain ⟨bs, rfl, hlen, he0, hd⟩ := consume_spec hc he
  obtain ⟨x, y, rfl⟩ := V4.len2 hlen
  simp only [Prod.mk.injEq] at h
  rw [← h.1, V4.be16_beNat]
  exact ⟨he0, hd⟩

theorem read32_lt (l : Lexer) : l.read32.1 < 4294967296 := by
  unfold Lexer.read32
  rcases hc : l.consume 4 with ⟨v, l1⟩
  cases v with
  | none => simp
  | some bs =>
    simp only
    unfold Lexer.consume at hc
    by_cases hn : 4 ≤ l.data.length
    · simp only [hn, if_true, Prod.mk.injEq, Option.some.injEq] at hc
      have : bs.length = 4 := by rw [← hc.1]; simp [List.length_take]; omega
      obtain ⟨a, b, c, d, rfl⟩ := len4 this
      exact beNat_lt_four a b c d
    · simp [hn] at hc

theorem read32_spec {l l' : Lexer} {n : Nat} (h : l.read32 = (n, l')) :
    n < 4294967296 ∧ (l'.err = false → l.err = false ∧ l.data = be32 n ++ l'.data) := by
  refine ⟨by have := read32_lt l; rw [h] at this; exact this, ?_⟩
  intro he
  unfold Lexer.read32 at h
  rcases hc : l.consume 4 with ⟨v, l1⟩
  rw [hc] at h
  have hl : l1 = l' := by
    cases v with
    | none => simp only [Prod.mk.injEq] at h; exact h.2
    | some bs => simp only [Prod.mk.injEq] at h; exact h.2
  subst hl
  obtain ⟨bs, rfl, hlen, he0, hd⟩ := consume_spec hc he
  obtain ⟨a, b, c, d, rfl⟩ := len4 hlen
  simp only [Prod.mk.injEq] at h
  rw [← h.1, be32_beNat]
  exact ⟨he0, hd⟩

theorem decDur_spec {l l' : Lexer} {d : Dur} (h : decDur l = (d, l')) :
    ∃ s : Nat, s < 4294967296 ∧ d = (s : Int) * second ∧
      (l'.err = false → l.err = false ∧ l.data = be32 s ++ l'.data) := by
  unfold decDur at h
  rcases hr : l.read32 with ⟨t, l1⟩
  rw [hr] at h
  simp only [Prod.mk.injEq] at h
  obtain ⟨h1, h2⟩ := h
  subst h2
  obtain ⟨ht, hs⟩ := read32_spec hr
  exact ⟨t, ht, h1.symm, hs⟩

theorem readAll_spec {l l' : Lexer} {bs : Bytes} (h : l.readAll = (bs, l')) :
    l.data = bs ∧ l'.data = [] ∧ l'.err = l.err := by
  unfold Lexer.readAll at h
  simp only [Prod.mk.injEq] at h
  obtain ⟨h1, h2⟩ := h
  subst h2
  exact ⟨h1, rfl, rfl⟩

/-- `FinError() == nil`: no sticky error and nothing unread -/
theorem fin_spec {α : Type} {l : Lexer} {a b : α} (h : fin l a = .ok b) :
    l.err = false ∧ l.data = [] ∧ a = b := by
  unfold fin Lexer.finError at h
  by_cases he : l.err = true
  · simp [he] at h
  · have he' : l.err = false := by simpa using he
    by_cases hd : l.data.length > 0
    · simp [he', hd] at h
    · have : l.data.length = 0 := by omega
      simp only [he', this, Bool.false_or, gt_iff_lt, Nat.lt_irrefl, decide_false,
        Bool.false_eq_true, if_false, Res.ok.injEq] at h
      exact ⟨he', List.eq_nil_of_length_eq_zero this, h⟩

/-! ### the item loops -/

theorem u16Loop_spec : ∀ (fuel : Nat) (d : Bytes) (e : Bool) (acc cs : List Nat) (l' : Lexer),
    u16Loop fuel ⟨d, e⟩ acc = (cs, l') → d.length < fuel →
    ∃ xs, cs = acc ++ xs ∧ (∀ c ∈ xs, c < 65536) ∧ l'.err = e ∧ d = xs.flatMap be16 ++ l'.data := by
  intro fuel
  induction fuel with
  | zero => intro d e acc cs l' _ hf; omega
  | succ f ih =>
    intro d e acc cs l' h hf
    unfold u16Loop at h
    by_cases hh : Lexer.has ⟨d, e⟩ 2 = true
    · simp only [hh, if_true] at h
      have hlen : 2 ≤ d.length := by simpa [Lexer.has] using hh
      obtain ⟨x, r1, rfl⟩ : ∃ x r1, d = x :: r1 := by
        cases d with
        | nil => simp at hlen
        | cons x r1 => exact ⟨x, r1, rfl⟩
      obtain ⟨y, r, rfl⟩ : ∃ y r, r1 = y :: r := by
        cases r1 with
        | nil => simp at hlen
        | cons y r => exact ⟨y, r, rfl⟩
      rw [read16_two] at h
      simp only at h
      obtain ⟨xs, rfl, hlt, he, hd⟩ := ih r e _ cs l' h (by simp at hf; omega)
      refine ⟨beNat [x, y] :: xs, by simp, ?_, he, ?_⟩
      · intro c hc
        rcases List.mem_cons.mp hc with rfl | hc
        · exact V4.beNat_lt_two x y
        · exact hlt c hc
      · simp only [List.flatMap_cons, V4.be16_beNat, List.cons_append, List.nil_append]
        rw [← hd]
    · simp only [hh, Bool.false_eq_true, if_false, Prod.mk.injEq] at h
      obtain ⟨h1, h2⟩ := h
      subst h2
      exact ⟨[], by simp [h1], by simp, rfl, by simp⟩

theorem ip16Loop_spec : ∀ (fuel : Nat) (d : Bytes) (e : Bool) (acc ips : List IP) (l' : Lexer),
    ip16Loop fuel ⟨d, e⟩ acc = (ips, l') → d.length < fuel →
    ∃ xs, ips = acc ++ xs ∧ (∀ ip ∈ xs, IP16 ip) ∧ l'.err = e ∧ d = xs.flatMap writeTo16 ++ l'.data := by
  intro fuel
  induction fuel with
  | zero => intro d e acc cs l' _ hf; omega
  | succ f ih =>
    intro d e acc cs l' h hf
    unfold ip16Loop at h
    by_cases hh : Lexer.has ⟨d, e⟩ 16 = true
    · simp only [hh, if_true] at h
      have hlen : 16 ≤ d.length := by simpa [Lexer.has] using hh
      obtain ⟨a, r, rfl, ha⟩ := split_at d 16 hlen
      rw [Lexer.copyN_append a r e ha.symm] at h
      simp only at h
      obtain ⟨xs, rfl, hok, he, hd⟩ := ih r e _ cs l' h (by simp at hf; omega)
      have hw : writeTo16 (some a) = a := by simp [writeTo16, ipTo16, to16, ha]
      refine ⟨some a :: xs, by simp, ?_, he, ?_⟩
      · intro c hc
        rcases List.mem_cons.mp hc with rfl | hc
        · exact ⟨a, rfl, ha⟩
        · exact hok c hc
      · simp only [List.flatMap_cons, hw, List.append_assoc]
        rw [← hd]
    · simp only [hh, Bool.false_eq_true, if_false, Prod.mk.injEq] at h
      obtain ⟨h1, h2⟩ := h
      subst h2
      exact ⟨[], by simp [h1], by simp, rfl, by simp⟩

theorem lenPrefLoop_err : ∀ (fuel : Nat) (l : Lexer) (acc : List Bytes), l.err = true →
    (lenPrefLoop fuel l acc).2.err = true := by
  intro fuel
  induction fuel with
  | zero => intro l acc h; simpa [lenPrefLoop] using h
  | succ f ih =>
    intro l acc h
    unfold lenPrefLoop
    by_cases hh : l.has 2 = true
    · simp only [hh, if_true]
      have h1 := read16_err l h
      have h2 := consume_err l.read16.2 l.read16.1 h1
      exact ih _ _ h2
    · simp only [hh, Bool.false_eq_true, if_false]; exact h

theorem lenPref_cons (x : Bytes) (xs : List Bytes) :
    lenPref (x :: xs) = be16 x.length ++ (x ++ lenPref xs) := by simp [lenPref]

theorem lenPrefLoop_spec : ∀ (fuel : Nat) (d : Bytes) (e : Bool) (acc r : List Bytes) (l' : Lexer),
    lenPrefLoop fuel ⟨d, e⟩ acc = (r, l') → d.length < fuel → l'.err = false →
    ∃ xs, r = acc ++ xs ∧ ItemsOK xs ∧ e = false ∧ d = lenPref xs ++ l'.data := by
  intro fuel
  induction fuel with
  | zero => intro d e acc cs l' _ hf; omega
  | succ f ih =>
    intro d e acc cs l' h hf he'
    unfold lenPrefLoop at h
    by_cases hh : Lexer.has ⟨d, e⟩ 2 = true
    · simp only [hh, if_true] at h
      have hlen : 2 ≤ d.length := by simpa [Lexer.has] using hh
      obtain ⟨x, r1, rfl⟩ : ∃ x r1, d = x :: r1 := by
        cases d with
        | nil => simp at hlen
        | cons x r1 => exact ⟨x, r1, rfl⟩
      obtain ⟨y, r, rfl⟩ : ∃ y r, r1 = y :: r := by
        cases r1 with
        | nil => simp at hlen
        | cons y r => exact ⟨y, r, rfl⟩
      rw [read16_two] at h
      simp only at h
      by_cases hn : beNat [x, y] ≤ r.length
      · obtain ⟨a, r', rfl, ha⟩ := split_at r _ hn
        rw [Lexer.copyN_append a r' e ha.symm] at h
        simp only [Option.getD_some] at h
        obtain ⟨xs, rfl, hok, he, hd⟩ := ih r' e _ cs l' h (by simp at hf; omega) he'
        refine ⟨a :: xs, by simp, ?_, he, ?_⟩
        · intro c hc
          rcases List.mem_cons.mp hc with rfl | hc
          · rw [ha]; exact V4.beNat_lt_two x y
          · exact hok c hc
        · rw [lenPref_cons, ha, V4.be16_beNat, hd]
          simp
      · exfalso
        have hc : Lexer.copyN ⟨r, e⟩ (beNat [x, y]) = (none, ⟨r, true⟩) := by
          simp [Lexer.copyN, Lexer.consume, hn]
        rw [hc] at h
        have := lenPrefLoop_err f ⟨r, true⟩ (acc ++ [(none : Option Bytes).getD []]) rfl
        simp only at h
        rw [h] at this
        simp only at this
        rw [he'] at this
        cases this
    · simp only [hh, Bool.false_eq_true, if_false, Prod.mk.injEq] at h
      obtain ⟨h1, h2⟩ := h
      subst h2
      exact ⟨[], by simp [h1], by intro x hx; simp at hx, he', by simp [lenPref]⟩

/-! ### `OptionCodes.Add`: duplicates dropped, first occurrence kept -/

theorem dedup_spec : ∀ (cs acc : List Nat), acc.Nodup →
    (dedup acc cs).Nodup ∧ (∀ c ∈ dedup acc cs, c ∈ acc ∨ c ∈ cs) ∧
      (dedup acc cs).length ≤ acc.length + cs.length := by
  intro cs
  induction cs with
  | nil => intro acc h; exact ⟨by simpa [dedup] using h, by simp [dedup], by simp [dedup]⟩
  | cons c cs ih =>
    intro acc h
    by_cases hc : acc.contains c = true
    · simp only [dedup, hc, if_true]
      obtain ⟨h1, h2, h3⟩ := ih acc h
      refine ⟨h1, ?_, by simp only [List.length_cons]; omega⟩
      intro x hx
      rcases h2 x hx with h | h
      · exact Or.inl h
      · exact Or.inr (by simp [h])
    · simp only [dedup, hc, Bool.false_eq_true, if_false]
      have hnm : c ∉ acc := by simpa using hc
      have hnd : (acc ++ [c]).Nodup := by
        rw [List.nodup_append]
        refine ⟨h, by simp, ?_⟩
        intro a ha b hb
        simp only [List.mem_cons, List.mem_nil_iff, or_false] at hb
        subst hb
        intro hab; subst hab; exact hnm ha
      obtain ⟨h1, h2, h3⟩ := ih (acc ++ [c]) hnd
      refine ⟨h1, ?_, by simp only [List.length_append, List.length_cons, List.length_nil] at h3 ⊢; omega⟩
      intro x hx
      rcases h2 x hx with h | h
      · rcases List.mem_append.mp h with h | h
        · exact Or.inl h
        · exact Or.inr (by simp at h; simp [h])
      · exact Or.inr (by simp [h])

/-! ### tiled item lists -/

/-- a tiling whose items determine their code and value is the `flatMap` of the framings -/
theorem Tiles_flatMap {α : Type} {P : Nat → Bytes → α → Prop} (code : α → Nat) (val : α → Bytes)
    (Q : α → Prop)
    (hP : ∀ c v o, c < 65536 → v.length < 65536 → P c v o → code o = c ∧ val o = v ∧ Q o)
    {d : Bytes} {os : List α} (h : Tiles P d os) :
    d = os.flatMap (fun o => tlv (code o) (val o)) ∧
      ∀ o ∈ os, code o < 65536 ∧ (val o).length < 65536 ∧ Q o := by
  induction h with
  | nil => exact ⟨by simp, by simp⟩
  | @cons c v rest o os hc hv hp _ ih =>
    obtain ⟨h1, h2, h3⟩ := hP c v o hc hv hp
    obtain ⟨e, hall⟩ := ih
    refine ⟨by simp only [List.flatMap_cons, h1, h2, ← e], ?_⟩
    intro x hx
    rcases List.mem_cons.mp hx with rfl | hx
    · rw [h1, h2]; exact ⟨hc, hv, h3⟩
    · exact hall x hx

end Dhcp.V6

import DhcpProofs.Lemmas.V4Area
import DhcpProofs.Lemmas.V4Marshal
/- Canonical form of `Options.Marshal` output: explicit instances, sorted codes. -/
namespace Dhcp.V4
open Dhcp List Dhcp.Spec

/-- the instances `chunksAux` writes -/
def chunkInstsAux (c : UInt8) : Nat → Bytes → List (UInt8 × Bytes)
  | 0, _ => []
  | fuel + 1, d =>
    if d.length = 0 then []
    else
      let n := if d.length > chunkMax then chunkMax else d.length
      (c, d.take n) :: chunkInstsAux c fuel (d.drop n)

/-- the instances `Marshal` writes for one option -/
def chunkInsts (c : UInt8) (v : Bytes) : List (UInt8 × Bytes) :=
  if v.length = 0 then [(c, [])] else chunkInstsAux c v.length v

/-- all instances of the options area, in wire order -/
def instsOf (o : Opts) : List (UInt8 × Bytes) :=
  (marshalCodes o).flatMap (fun c => chunkInsts c ((o.f c).getD []))

theorem RunEnd_chunksAux (c : UInt8) (hc0 : c ≠ 0) (hc255 : c ≠ 255) {rest : Bytes}
    {is : List (UInt8 × Bytes)} (hr : RunEnd rest is) :
    ∀ (fuel : Nat) (v : Bytes), RunEnd (chunksAux c fuel v ++ rest) (chunkInstsAux c fuel v ++ is) := by
  intro fuel
  induction fuel with
  | zero => intro v; simpa [chunksAux, chunkInstsAux] using hr
  | succ fuel ih =>
    intro v
    unfold chunksAux chunkInstsAux
    by_cases hz : v.length = 0
    · simpa [hz] using hr
    · simp only [hz, if_false]
      by_cases hbig : v.length > chunkMax
      · simp only [hbig, if_true, List.cons_append, List.append_assoc]
        have hl : (v.take chunkMax).length = (UInt8.ofNat chunkMax).toNat := by
          simp [List.length_take, chunkMax] at *; omega
        exact RunEnd.opt c _ _ hc0 hc255 hl (ih _)
      · simp only [hbig, if_false, List.cons_append, List.append_assoc]
        have hlt : v.length < 256 := by unfold chunkMax at hbig; omega
        have hl : (v.take v.length).length = (UInt8.ofNat v.length).toNat := by
          rw [UInt8.toNat_ofNat_lt hlt]; simp
        exact RunEnd.opt c _ _ hc0 hc255 hl (ih _)

theorem RunEnd_chunks (c : UInt8) (hc0 : c ≠ 0) (hc255 : c ≠ 255) (v : Bytes) {rest : Bytes}
    {is : List (UInt8 × Bytes)} (hr : RunEnd rest is) :
    RunEnd (chunks c v ++ rest) (chunkInsts c v ++ is) := by
  unfold chunks chunkInsts
  by_cases hv : v.length = 0
  · simp only [hv, if_true]
    have := RunEnd.opt c 0 [] hc0 hc255 (by simp) hr
    simpa using this
  · simp only [hv, if_false]
    exact RunEnd_chunksAux c hc0 hc255 hr _ _

theorem RunEnd_flatMap (val : UInt8 → Bytes) {rest : Bytes} {is : List (UInt8 × Bytes)}
    (hr : RunEnd rest is) :
    ∀ cs : List UInt8, (∀ c ∈ cs, c ≠ 0 ∧ c ≠ 255) →
      RunEnd (cs.flatMap (fun c => chunks c (val c)) ++ rest)
        (cs.flatMap (fun c => chunkInsts c (val c)) ++ is) := by
  intro cs
  induction cs with
  | nil => intro _; simpa using hr
  | cons c cs ih =>
    intro h
    simp only [List.flatMap_cons, List.append_assoc]
    exact RunEnd_chunks c (h c (by simp)).1 (h c (by simp)).2 _ (ih (fun c' hc' => h c' (by simp [hc'])))

/-- The options area `Marshal` writes, followed by End and anything, is a
well-formed run whose instances are exactly `instsOf o`. -/
theorem RunEnd_marshal (o : Opts) (tail : Bytes) :
    RunEnd (marshalOpts o ++ 255 :: tail) (instsOf o) := by
  have := RunEnd_flatMap (fun c => (o.f c).getD []) (RunEnd.fin tail) (marshalCodes o)
    (fun c hc => ((mem_marshalCodes o c).mp hc).2)
  simpa [marshalOpts_eq, instsOf] using this

theorem chunkInstsAux_code (c : UInt8) : ∀ (fuel : Nat) (v : Bytes),
    ∀ i ∈ chunkInstsAux c fuel v, i.1 = c ∧ i.2.length ≤ 255 := by
  intro fuel
  induction fuel with
  | zero => intro v i hi; simp [chunkInstsAux] at hi
  | succ fuel ih =>
    intro v i hi
    unfold chunkInstsAux at hi
    by_cases hz : v.length = 0
    · simp [hz] at hi
    · simp only [hz, if_false, List.mem_cons] at hi
      rcases hi with hi | hi
      · subst hi
        refine ⟨rfl, ?_⟩
        simp only [List.length_take]
        split <;> simp [chunkMax] at * <;> omega
      · exact ih _ i hi

/-- every instance written for option `c` has code `c` and at most 255 value bytes -/
theorem chunkInsts_code (c : UInt8) (v : Bytes) : ∀ i ∈ chunkInsts c v, i.1 = c ∧ i.2.length ≤ 255 := by
  intro i hi
  unfold chunkInsts at hi
  by_cases hv : v.length = 0
  · simp [hv] at hi; subst hi; simp
  · simp only [hv, if_false] at hi
    exact chunkInstsAux_code c _ _ i hi

theorem allCodes_sorted : Opts.allCodes.Pairwise (· < ·) := by
  unfold Opts.allCodes
  refine List.pairwise_map.mpr (List.Pairwise.imp_of_mem ?_ (List.pairwise_lt_range (n := 256)))
  intro a b ha hb hlt
  have ha' : a < 256 := List.mem_range.mp ha
  have hb' : b < 256 := List.mem_range.mp hb
  show UInt8.ofNat a < UInt8.ofNat b
  rw [UInt8.lt_iff_toNat_lt, UInt8.toNat_ofNat_lt ha', UInt8.toNat_ofNat_lt hb']
  exact hlt

/-- `Marshal` writes codes in strictly ascending order, except that 82 comes last. -/
theorem marshalCodes_shape (o : Opts) :
    ∃ l : List UInt8, marshalCodes o = l ++ (if o.has 82 then [82] else []) ∧
      l.Pairwise (· < ·) ∧ 82 ∉ l := by
  refine ⟨(o.keys.filter (fun k => k != optAgentInfo && k != optEnd)).filter
      (fun c => c != optEnd && c != optPad), ?_, ?_, ?_⟩
  · unfold marshalCodes sortedKeys
    rw [List.filter_append, List.filter_append]
    have h1 : ((if o.has optAgentInfo = true then [optAgentInfo] else []).filter
        (fun c => c != optEnd && c != optPad)) = (if o.has 82 then [82] else []) := by
      show ((if o.has 82 = true then [(82 : UInt8)] else []).filter
        (fun c => c != (255 : UInt8) && c != (0 : UInt8))) = (if o.has 82 then [82] else [])
      by_cases h : o.has 82 = true <;> simp [h]
    have h2 : ((if o.has optEnd = true then [optEnd] else []).filter
        (fun c => c != optEnd && c != optPad)) = [] := by
      show ((if o.has 255 = true then [(255 : UInt8)] else []).filter
        (fun c => c != (255 : UInt8) && c != (0 : UInt8))) = []
      by_cases h : o.has 255 = true <;> simp [h]
    rw [h1, h2, List.append_nil]
  · exact List.Pairwise.sublist List.filter_sublist
      (List.Pairwise.sublist List.filter_sublist
        (List.Pairwise.sublist List.filter_sublist allCodes_sorted))
  · intro h
    have := (List.mem_filter.mp (List.mem_filter.mp h).1).2
    simp [optAgentInfo] at this

end Dhcp.V4

import DhcpProofs.Lemmas.V6BuildMsg
/- What decoding guarantees about option types (used to show the builders do not
panic on decoded messages): every decoded option carries the code it was parsed
under, so the codes of typed options are only ever carried by their own
constructors. -/
namespace Dhcp.V6
open Dhcp

theorem fin_ok_eq {α : Type} {l : Lexer} {a b : α} (h : fin l a = .ok b) : a = b := by
  unfold fin at h
  split at h
  · cases h
  · cases h; rfl

theorem Res.map_eq_ok_b {α β : Type} {f : α → β} {r : Res α} {b : β} (h : r.map f = .ok b) :
    ∃ a, r = .ok a ∧ f a = b := by
  cases r with
  | ok a => exact ⟨a, rfl, by simpa [Res.map, Res.bind] using h⟩
  | err => simp [Res.map, Res.bind] at h
  | panic => simp [Res.map, Res.bind] at h

/-- closes one branch of `decSimple`: split what is left and read the constructor off -/
local macro "decSimple_finish" h:ident : tactic =>
  `(tactic| (repeat' split at $h:ident) <;> first
    | (have hf := fin_ok_eq $h; subst hf; rfl)
    | (cases $h:ident; rfl)
    | cases $h:ident)

theorem decSimple_code {code : Nat} {data : Bytes} {o : Opt6} (h : decSimple code data = .ok o) :
    o.code = code := by
  unfold decSimple at h
  dsimp only at h
  by_cases h6 : code = 6
  · rw [if_pos h6] at h; subst h6; decSimple_finish h
  rw [if_neg h6] at h
  by_cases h8 : code = 8
  · rw [if_pos h8] at h; subst h8; decSimple_finish h
  rw [if_neg h8] at h
  by_cases h13 : code = 13
  · rw [if_pos h13] at h; subst h13; decSimple_finish h
  rw [if_neg h13] at h
  by_cases h15 : code = 15
  · rw [if_pos h15] at h; subst h15; decSimple_finish h
  rw [if_neg h15] at h
  by_cases h16 : code = 16
  · rw [if_pos h16] at h; subst h16; decSimple_finish h
  rw [if_neg h16] at h
  by_cases h17 : code = 17
  · rw [if_pos h17] at h; subst h17; decSimple_finish h
  rw [if_neg h17] at h
  by_cases h18 : code = 18
  · rw [if_pos h18] at h; subst h18; decSimple_finish h
  rw [if_neg h18] at h
  by_cases h23 : code = 23
  · rw [if_pos h23] at h; subst h23; decSimple_finish h
  rw [if_neg h23] at h
  by_cases h24 : code = 24
  · rw [if_pos h24] at h; subst h24; decSimple_finish h
  rw [if_neg h24] at h
  by_cases h32 : code = 32
  · rw [if_pos h32] at h; subst h32; decSimple_finish h
  rw [if_neg h32] at h
  by_cases h37 : code = 37
  · rw [if_pos h37] at h; subst h37; decSimple_finish h
  rw [if_neg h37] at h
  by_cases h39 : code = 39
  · rw [if_pos h39] at h; subst h39; decSimple_finish h
  rw [if_neg h39] at h
  by_cases h56 : code = 56
  · rw [if_pos h56] at h; subst h56; decSimple_finish h
  rw [if_neg h56] at h
  by_cases h59 : code = 59
  · rw [if_pos h59] at h; subst h59; decSimple_finish h
  rw [if_neg h59] at h
  by_cases h60 : code = 60
  · rw [if_pos h60] at h; subst h60; decSimple_finish h
  rw [if_neg h60] at h
  by_cases h61 : code = 61
  · rw [if_pos h61] at h; subst h61; decSimple_finish h
  rw [if_neg h61] at h
  by_cases h62 : code = 62
  · rw [if_pos h62] at h; subst h62; decSimple_finish h
  rw [if_neg h62] at h
  by_cases h79 : code = 79
  · rw [if_pos h79] at h; subst h79; decSimple_finish h
  rw [if_neg h79] at h
  by_cases h87 : code = 87
  · rw [if_pos h87] at h; subst h87; decSimple_finish h
  rw [if_neg h87] at h
  by_cases h88 : code = 88
  · rw [if_pos h88] at h; subst h88; decSimple_finish h
  rw [if_neg h88] at h
  by_cases h98 : code = 98
  · rw [if_pos h98] at h; subst h98; decSimple_finish h
  rw [if_neg h98] at h
  by_cases h99 : code = 99
  · rw [if_pos h99] at h; subst h99; decSimple_finish h
  rw [if_neg h99] at h
  by_cases h135 : code = 135
  · rw [if_pos h135] at h; subst h135; decSimple_finish h
  rw [if_neg h135] at h
  cases h; rfl

/-- what the decoder guarantees about one option: the IA_NA code is only carried
by `*OptIANA`, the client-id code only by the client-id option -/
def Opt6.Typed (o : Opt6) : Prop :=
  (o.code = ocIANA → o.isIANA = true) ∧ (o.code = ocClientID → ∃ d, o = .clientID d)

theorem decIA_ok {mk : Bytes → Dur → Dur → List Opt6 → Opt6} {f : Bytes → Res (List Opt6)} {data : Bytes}
    {o : Opt6} (h : decIA mk f data = .ok o) : ∃ i t1 t2 os, o = mk i t1 t2 os := by
  unfold decIA at h
  dsimp only at h
  split at h
  · exact ⟨_, _, _, _, (fin_ok_eq h).symm⟩
  · cases h
  · cases h

theorem parseOpt_typed : ∀ (fuel code : Nat) (data : Bytes) (o : Opt6),
    parseOpt fuel code data = .ok o → o.Typed := by
  intro fuel code data o h
  cases fuel with
  | zero => simp [parseOpt] at h
  | succ fuel =>
    unfold parseOpt at h
    by_cases h1 : code = 1
    · rw [if_pos h1] at h
      obtain ⟨d, _, rfl⟩ := Res.map_eq_ok_b h
      exact ⟨fun hc => by simp [Opt6.code, ocIANA] at hc, fun _ => ⟨d, rfl⟩⟩
    rw [if_neg h1] at h
    by_cases h2 : code = 2
    · rw [if_pos h2] at h
      obtain ⟨d, _, rfl⟩ := Res.map_eq_ok_b h
      exact ⟨fun hc => by simp [Opt6.code, ocIANA] at hc, fun hc => by simp [Opt6.code, ocClientID] at hc⟩
    rw [if_neg h2] at h
    by_cases h3 : code = 3
    · rw [if_pos h3] at h
      obtain ⟨i, t1, t2, os, rfl⟩ := decIA_ok h
      exact ⟨fun _ => rfl, fun hc => by simp [Opt6.code, ocClientID] at hc⟩
    rw [if_neg h3] at h
    by_cases h4 : code = 4
    · rw [if_pos h4] at h
      unfold decIATA at h
      dsimp only at h
      split at h
      · have := fin_ok_eq h; subst this
        exact ⟨fun hc => by simp [Opt6.code, ocIANA] at hc, fun hc => by simp [Opt6.code, ocClientID] at hc⟩
      · cases h
      · cases h
    rw [if_neg h4] at h
    by_cases h5 : code = 5
    · rw [if_pos h5] at h
      unfold decIAAddr at h
      dsimp only at h
      split at h
      · have := fin_ok_eq h; subst this
        exact ⟨fun hc => by simp [Opt6.code, ocIANA] at hc, fun hc => by simp [Opt6.code, ocClientID] at hc⟩
      · cases h
      · cases h
    rw [if_neg h5] at h
    by_cases h9 : code = 9
    · rw [if_pos h9] at h
      obtain ⟨d, _, rfl⟩ := Res.map_eq_ok_b h
      exact ⟨fun hc => by simp [Opt6.code, ocIANA] at hc, fun hc => by simp [Opt6.code, ocClientID] at hc⟩
    rw [if_neg h9] at h
    by_cases h25 : code = 25
    · rw [if_pos h25] at h
      obtain ⟨i, t1, t2, os, rfl⟩ := decIA_ok h
      exact ⟨fun hc => by simp [Opt6.code, ocIANA] at hc, fun hc => by simp [Opt6.code, ocClientID] at hc⟩
    rw [if_neg h25] at h
    by_cases h26 : code = 26
    · rw [if_pos h26] at h
      unfold decIAPrefix at h
      dsimp only at h
      split at h
      · cases h
      · split at h
        · have := fin_ok_eq h; subst this
          exact ⟨fun hc => by simp [Opt6.code, ocIANA] at hc, fun hc => by simp [Opt6.code, ocClientID] at hc⟩
        · cases h
        · cases h
    rw [if_neg h26] at h
    by_cases h97 : code = 97
    · rw [if_pos h97] at h
      obtain ⟨d, _, rfl⟩ := Res.map_eq_ok_b h
      exact ⟨fun hc => by simp [Opt6.code, ocIANA] at hc, fun hc => by simp [Opt6.code, ocClientID] at hc⟩
    rw [if_neg h97] at h
    have hc := decSimple_code h
    exact ⟨fun h' => absurd (hc ▸ h') h3, fun h' => absurd (hc ▸ h') h1⟩

/-- the options loop keeps any property every parsed option has -/
theorem tlvLoop_all {α : Type} (parse : Nat → Bytes → Res α) (P : α → Prop)
    (hp : ∀ c d o, parse c d = .ok o → P o) : ∀ (fuel : Nat) (l : Lexer) (acc os : List α),
    (∀ o ∈ acc, P o) → tlvLoop parse fuel l acc = .ok os → ∀ o ∈ os, P o := by
  intro fuel
  induction fuel with
  | zero => intro l acc os _ h; simp [tlvLoop] at h
  | succ fuel ih =>
    intro l acc os hacc h
    unfold tlvLoop at h
    dsimp only at h
    split at h
    · split at h
      · next o' hpo =>
        refine ih _ _ _ ?_ h
        intro x hx
        rcases List.mem_append.mp hx with hx | hx
        · exact hacc x hx
        · simp at hx; subst hx; exact hp _ _ _ hpo
      · cases h
      · cases h
    · split at h
      · cases h
      · cases h; exact hacc

theorem decOptsF_typed (fuel : Nat) (data : Bytes) (os : List Opt6) (h : decOptsF fuel data = .ok os) :
    ∀ o ∈ os, o.Typed := by
  cases fuel with
  | zero => simp [decOptsF] at h
  | succ fuel =>
    unfold decOptsF optionsFromBytes at h
    split at h
    · cases h; intro o ho; cases ho
    · exact tlvLoop_all _ _ (fun c d o => parseOpt_typed fuel c d o) _ _ _ _ (by intro o ho; cases ho) h

/-- the top-level options of every decoded message are well typed -/
theorem dec6_typed {b : Bytes} {m : Msg6} (h : dec6 b = .ok m) : ∀ o ∈ m.opts, o.Typed := by
  unfold dec6 at h
  generalize fuelFor b = fuel at h
  cases fuel with
  | zero => simp [decMsgF] at h
  | succ fuel =>
    unfold decMsgF at h
    dsimp only at h
    split at h
    · cases h
    · split at h
      · split at h
        · cases h
        · obtain ⟨os, hos, rfl⟩ := Res.map_eq_ok_b h
          exact decOptsF_typed _ _ _ hos
      · split at h
        · cases h
        · obtain ⟨os, hos, rfl⟩ := Res.map_eq_ok_b h
          exact decOptsF_typed _ _ _ hos

theorem IANATyped_of_typed {os : List Opt6} (h : ∀ o ∈ os, o.Typed) : IANATyped os :=
  fun o ho hc => (h o ho).1 hc

end Dhcp.V6

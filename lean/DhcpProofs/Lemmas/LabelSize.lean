import Dhcp.Cost
/-
  Size of a decoded rfc1035label set against the length of its wire form
  (property C09): the decoder may expand its input (a 2-octet compression
  pointer re-reads earlier bytes and yields a name of up to 253 bytes), but
  only by a constant factor.
-/
namespace Dhcp.Cost
open Dhcp

/-- no byte of the buffer has both top bits set (no compression pointer can be read) -/
def NoPtr (b : Bytes) : Prop := ∀ x ∈ b, x.toNat &&& 0xc0 ≠ 0xc0

theorem NoPtr.take {b : Bytes} (h : NoPtr b) (n : Nat) : NoPtr (b.take n) :=
  fun x hx => h x (List.mem_of_mem_take hx)

theorem NoPtr.drop {b : Bytes} (h : NoPtr b) (n : Nat) : NoPtr (b.drop n) :=
  fun x hx => h x (List.mem_of_mem_drop hx)

theorem NoPtr.nil : NoPtr [] := fun x hx => by cases hx

theorem szItems_append (xs ys : List Bytes) : szItems (xs ++ ys) = szItems xs + szItems ys := by
  induction xs with
  | nil => simp [szItems]
  | cons x xs ih => simp only [List.cons_append, szItems, ih]; omega

theorem szItems_snoc (xs : List Bytes) (x : Bytes) : szItems (xs ++ [x]) = szItems xs + (32 + x.length) := by
  rw [szItems_append]; simp [szItems, nodeC]

/-- cost still owed for the name under construction -/
def pend (hp : Bool) (label : Bytes) : Nat :=
  if hp then 32 + 253 else if label = [] then 0 else 32 + label.length

theorem loop_size (K : Nat) (hK : 32 ≤ K) (buf : Bytes) (hptr : 143 ≤ K ∨ NoPtr buf) :
    ∀ (fuel pos oldPos : Nat) (label : Bytes) (hp : Bool) (acc labs : List Bytes),
      Label.loop buf fuel pos oldPos label hp acc = .ok labs →
      label.length ≤ 253 →
      (hp = false → pos ≤ buf.length) →
      (hp = true → oldPos ≤ buf.length) →
      szItems labs ≤ szItems acc + pend hp label
        + K * (buf.length - (if hp then oldPos else pos)) := by
  intro fuel
  induction fuel with
  | zero => intro pos oldPos label hp acc labs h; simp [Label.loop] at h
  | succ fuel ih =>
    intro pos oldPos label hp acc labs h hl hpos hold
    unfold Label.loop at h
    simp only [] at h
    by_cases h1 : pos ≥ buf.length
    · simp only [h1, if_true] at h
      cases hp with
      | true => simp at h
      | false =>
        by_cases hlab : label = []
        · simp [hlab] at h
          subst h; simp [pend, hlab]
        · simp [hlab] at h
          subst h; rw [szItems_snoc]; simp [pend, hlab]
    · simp only [h1, if_false] at h
      have hlt : pos < buf.length := by omega
      generalize hlen : (buf.getD pos 0).toNat = length at h
      by_cases h2 : length = 0
      · simp only [h2, if_true] at h
        cases hp with
        | true =>
          simp only [if_true] at h
          have := ih oldPos oldPos [] false _ _ h (by simp) (fun _ => hold rfl) (by simp)
          rw [szItems_snoc] at this
          simp [pend] at this ⊢
          omega
        | false =>
          simp only [Bool.false_eq_true, if_false] at h
          have := ih (pos + 1) oldPos [] false _ _ h (by simp) (fun _ => by omega) (by simp)
          rw [szItems_snoc] at this
          have e : buf.length - pos = (buf.length - (pos + 1)) + 1 := by omega
          simp only [pend, Bool.false_eq_true, if_false, if_true] at this ⊢
          rw [e, Nat.mul_add, Nat.mul_one]
          by_cases hlab : label = []
          · simp [hlab] at this ⊢; omega
          · simp [hlab] at this ⊢; omega
      · simp only [h2, if_false] at h
        by_cases h3 : length &&& 0xc0 = 0xc0
        · simp only [h3, if_true] at h
          cases hp with
          | true => simp at h
          | false =>
            simp only [Bool.false_eq_true, if_false] at h
            by_cases h4 : pos + 1 + 1 > buf.length
            · simp [h4] at h
            · simp only [h4, if_false] at h
              cases hptr with
              | inr hn =>
                exfalso
                have hm : buf.getD pos 0 ∈ buf := by
                  simp [List.getD_eq_getElem?_getD, hlt]
                exact hn _ hm (hlen ▸ h3)
              | inl hK2 =>
                have := ih _ (pos + 1 + 1) label true _ _ h hl (by simp) (fun _ => by omega)
                have e : buf.length - pos = (buf.length - (pos + 1 + 1)) + 2 := by omega
                simp only [pend, Bool.false_eq_true, if_false, if_true] at this ⊢
                rw [e, Nat.mul_add]
                omega
        · simp only [h3, if_false] at h
          by_cases h5 : length &&& 0xc0 ≠ 0
          · simp [h5] at h
          · simp only [h5, if_false] at h
            by_cases h6 : pos + 1 + length > buf.length
            · simp [h6] at h
            · simp only [h6, if_false] at h
              have hl'' : ((if label ≠ [] then label ++ [46] else label)
                  ++ (buf.drop (pos + 1)).take length).length ≤ label.length + 1 + length := by
                by_cases hlab : label = []
                · simp [hlab]; omega
                · simp [hlab]; omega
              generalize ((if label ≠ [] then label ++ [46] else label)
                  ++ (buf.drop (pos + 1)).take length) = label' at h hl''
              by_cases h7 : label'.length > Label.maxNameLength
              · simp [h7] at h
              · simp only [h7, if_false] at h
                have hl' : label'.length ≤ 253 := by
                  simp only [Label.maxNameLength] at h7; omega
                cases hp with
                | true =>
                  have := ih _ oldPos label' true _ _ h hl' (by simp) hold
                  simpa [pend] using this
                | false =>
                  have := ih (pos + 1 + length) oldPos label' false _ _ h hl' (fun _ => by omega) (by simp)
                  have e : buf.length - pos = (buf.length - (pos + 1 + length)) + (1 + length) := by omega
                  have hm : 32 * (1 + length) ≤ K * (1 + length) := Nat.mul_le_mul_right _ hK
                  have hp' : pend false label' ≤ 32 + label'.length := by
                    simp only [pend, Bool.false_eq_true, if_false]
                    split <;> omega
                  simp only [Bool.false_eq_true, if_false] at this ⊢
                  rw [e, Nat.mul_add]
                  by_cases hlab : label = []
                  · subst hlab
                    simp [pend] at hl'' ⊢
                    omega
                  · have : pend false label = 32 + label.length := by simp [pend, hlab]
                    omega

/-- generic form: K ≥ 32 pays for an empty name per zero octet; a pointer (2 octets) yields one
name of at most 253 bytes, paid when 2K ≥ 253 + 32 -/
theorem labels_size_gen (K : Nat) (hK : 32 ≤ K) (buf : Bytes) (hptr : 143 ≤ K ∨ NoPtr buf)
    (labs : List Bytes) (h : Label.labelsFromBytes buf = .ok labs) :
    szItems labs ≤ K * buf.length := by
  unfold Label.labelsFromBytes at h
  have := loop_size K hK buf hptr _ 0 0 [] false [] labs h (by simp) (by simp) (by simp)
  simpa [pend, szItems] using this

theorem fromBytes_ok {buf : Bytes} {l : Label.Labels} (h : Label.fromBytes buf = .ok l) :
    ∃ labs, Label.labelsFromBytes buf = .ok labs ∧ l = { original := some buf, labels := labs } := by
  unfold Label.fromBytes at h
  split at h
  · rename_i labs hl
    injection h with h
    exact ⟨labs, hl, h.symm⟩
  · cases h
  · cases h

theorem sizeLabels_le (buf : Bytes) (l : Label.Labels) (h : Label.fromBytes buf = .ok l) :
    sizeLabels l ≤ 144 * buf.length + 32 := by
  obtain ⟨labs, hl, rfl⟩ := fromBytes_ok h
  have := labels_size_gen 143 (by omega) buf (Or.inl (Nat.le_refl _)) labs hl
  simp only [sizeLabels, nodeC, Option.getD_some]
  omega

theorem sizeLabels_le_noptr (buf : Bytes) (hn : NoPtr buf) (l : Label.Labels)
    (h : Label.fromBytes buf = .ok l) : sizeLabels l ≤ 33 * buf.length + 32 := by
  obtain ⟨labs, hl, rfl⟩ := fromBytes_ok h
  have := labels_size_gen 32 (Nat.le_refl _) buf (Or.inr hn) labs hl
  simp only [sizeLabels, nodeC, Option.getD_some]
  omega

theorem loop_names (buf : Bytes) :
    ∀ (fuel pos oldPos : Nat) (label : Bytes) (hp : Bool) (acc labs : List Bytes),
      Label.loop buf fuel pos oldPos label hp acc = .ok labs →
      label.length ≤ 253 → (∀ n ∈ acc, n.length ≤ 253) → ∀ n ∈ labs, n.length ≤ 253 := by
  intro fuel
  induction fuel with
  | zero => intro pos oldPos label hp acc labs h; simp [Label.loop] at h
  | succ fuel ih =>
    intro pos oldPos label hp acc labs h hl hacc
    have hsnoc : ∀ n ∈ acc ++ [label], n.length ≤ 253 := by
      intro n hn
      rcases List.mem_append.1 hn with hn | hn
      · exact hacc n hn
      · simp at hn; subst hn; exact hl
    unfold Label.loop at h
    simp only [] at h
    by_cases h1 : pos ≥ buf.length
    · simp only [h1, if_true] at h
      cases hp with
      | true => simp at h
      | false =>
        by_cases hlab : label = []
        · simp [hlab] at h
          subst h; exact hacc
        · simp [hlab] at h
          subst h; exact hsnoc
    · simp only [h1, if_false] at h
      generalize (buf.getD pos 0).toNat = length at h
      by_cases h2 : length = 0
      · simp only [h2, if_true] at h
        cases hp with
        | true =>
          simp only [if_true] at h
          exact ih _ _ [] false _ _ h (by simp) hsnoc
        | false =>
          simp only [Bool.false_eq_true, if_false] at h
          exact ih _ _ [] false _ _ h (by simp) hsnoc
      · simp only [h2, if_false] at h
        by_cases h3 : length &&& 0xc0 = 0xc0
        · simp only [h3, if_true] at h
          cases hp with
          | true => simp at h
          | false =>
            simp only [Bool.false_eq_true, if_false] at h
            by_cases h4 : pos + 1 + 1 > buf.length
            · simp [h4] at h
            · simp only [h4, if_false] at h
              exact ih _ _ label true _ _ h hl hacc
        · simp only [h3, if_false] at h
          by_cases h5 : length &&& 0xc0 ≠ 0
          · simp [h5] at h
          · simp only [h5, if_false] at h
            by_cases h6 : pos + 1 + length > buf.length
            · simp [h6] at h
            · simp only [h6, if_false] at h
              generalize ((if label ≠ [] then label ++ [46] else label)
                  ++ (buf.drop (pos + 1)).take length) = label' at h
              by_cases h7 : label'.length > Label.maxNameLength
              · simp [h7] at h
              · simp only [h7, if_false] at h
                have hl' : label'.length ≤ 253 := by
                  simp only [Label.maxNameLength] at h7; omega
                exact ih _ _ label' hp _ _ h hl' hacc

/-- every decoded name respects the cap -/
theorem labels_name_le (buf : Bytes) (labs : List Bytes)
    (h : Label.labelsFromBytes buf = .ok labs) : ∀ n ∈ labs, n.length ≤ 253 := by
  unfold Label.labelsFromBytes at h
  exact loop_names buf _ 0 0 [] false [] labs h (by simp) (by simp)

/-! ### non-vacuity -/

/-- a compression pointer really expands: 5 wire bytes decode to the names "a","a";
the retained size exceeds the buffer length -/
example : Label.fromBytes [1, 97, 0, 0xc0, 0] = .ok { original := some [1, 97, 0, 0xc0, 0], labels := [[97], [97]] }
    ∧ sizeLabels { original := some [1, 97, 0, 0xc0, 0], labels := [[97], [97]] } > ([1, 97, 0, 0xc0, 0] : Bytes).length := by
  decide

/-- a pointer-free buffer: "a.b" and the empty name -/
example : NoPtr [1, 97, 1, 98, 0, 0]
    ∧ Label.fromBytes [1, 97, 1, 98, 0, 0] = .ok { original := some [1, 97, 1, 98, 0, 0], labels := [[97, 46, 98], []] } := by
  refine ⟨?_, by decide⟩
  unfold NoPtr
  decide

end Dhcp.Cost

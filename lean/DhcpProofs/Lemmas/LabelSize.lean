import Dhcp.Cost
import DhcpProofs.Lemmas.Label
import DhcpProofs.Lemmas.LabelApi
/-
  Size of a decoded rfc1035label set against the length of its wire form
  (property C09): the decoder may expand its input (a 2-octet compression
  pointer re-reads earlier bytes and yields a name of up to 253 bytes), but
  only by a constant factor.  Proved over `Label.step'` (the closed form of one
  loop iteration, `step_eq_step'`) by a potential argument.
-/
namespace Dhcp.Cost
open Dhcp Dhcp.Label

/-- no byte of the buffer has both top bits set (no compression pointer can be read) -/
def NoPtr (b : Bytes) : Prop := ∀ x ∈ b, x.toNat &&& 0xc0 ≠ 0xc0

theorem NoPtr.take {b : Bytes} (h : NoPtr b) (n : Nat) : NoPtr (b.take n) :=
  fun x hx => h x (List.mem_of_mem_take hx)

theorem NoPtr.drop {b : Bytes} (h : NoPtr b) (n : Nat) : NoPtr (b.drop n) :=
  fun x hx => h x (List.mem_of_mem_drop hx)

theorem NoPtr.nil : NoPtr [] := fun x hx => by cases hx

theorem szItems_append (xs ys : List Bytes) : szItems (xs ++ ys) = szItems xs + szItems ys := by
  induction xs with
  | nil => simp [szItems]
  | cons x xs ih => simp only [List.cons_append, szItems, ih]; omega

theorem szItems_snoc (xs : List Bytes) (x : Bytes) : szItems (xs ++ [x]) = szItems xs + (32 + x.length) := by
  rw [szItems_append]; simp [szItems, nodeC]

/-- cost still owed for the name under construction: in pointer mode the
finished name is at most 253 bytes whatever is appended; outside pointer mode
the bytes of the label were already consumed from the main stream -/
def pend (hp : Bool) (label : Bytes) : Nat :=
  if hp then 32 + 253 else if label = [] then 0 else 32 + label.length

/-- position in the main stream (where decoding resumes after a pointer) -/
def mainPos (s : St) : Nat := if s.hp then s.oldPos else s.pos

/-- invariant of the loop state -/
def SInv (buf : Bytes) (s : St) : Prop :=
  s.label.length ≤ 253 ∧ mainPos s ≤ buf.length ∧ ∀ n ∈ s.labels, n.length ≤ 253

/-- potential: what is retained so far + what is owed + `K` per unread main byte -/
def phi (K : Nat) (buf : Bytes) (s : St) : Nat :=
  szItems s.labels + pend s.hp s.label + K * (buf.length - mainPos s)

theorem appendLabel_length (label chunk : Bytes) :
    (appendLabel label chunk).length ≤ label.length + 1 + chunk.length ∧
    (label = [] → (appendLabel label chunk).length = chunk.length) ∧
    chunk.length ≤ (appendLabel label chunk).length := by
  unfold appendLabel
  by_cases h : label = []
  · subst h; simp
  · simp [h]; omega

theorem step'_phi (K : Nat) (hK : 32 ≤ K) (buf : Bytes) (hptr : 143 ≤ K ∨ NoPtr buf) (s : St)
    (hi : SInv buf s) :
    (∀ s', step' buf s = .next s' → SInv buf s' ∧ phi K buf s' ≤ phi K buf s) ∧
    (∀ labs, step' buf s = .done (.ok labs) →
      szItems labs ≤ phi K buf s ∧ ∀ n ∈ labs, n.length ≤ 253) := by
  obtain ⟨hl, hm, hn⟩ := hi
  unfold step'
  cases hd : buf.drop s.pos with
  | nil =>
    simp only []
    refine ⟨fun s' h => ?_, fun labs h => ?_⟩
    · split at h
      · cases h
      · split at h <;> cases h
    · cases hhp : s.hp with
      | true => simp [hhp] at h
      | false =>
        simp only [hhp, Bool.false_eq_true, if_false] at h
        by_cases hlab : s.label = []
        · simp only [hlab, ne_eq, not_true_eq_false, if_false] at h
          injection h with h; injection h with h; subst h
          exact ⟨by simp [phi, pend, hhp, hlab], hn⟩
        · simp only [hlab, ne_eq, not_false_eq_true, if_true] at h
          injection h with h; injection h with h; subst h
          refine ⟨by rw [szItems_snoc]; simp [phi, pend, hhp, hlab], ?_⟩
          intro n hmem
          rcases List.mem_append.mp hmem with h1 | h1
          · exact hn n h1
          · simp at h1; subst h1; exact hl
  | cons b t =>
    have hlen := drop_cons_length hd
    have hbmem : b ∈ buf := List.mem_of_mem_drop (by rw [hd]; simp)
    simp only []
    by_cases hz : b.toNat = 0
    · simp only [hz, if_true]
      refine ⟨fun s' h => ?_, fun labs h => by split at h <;> cases h⟩
      cases hhp : s.hp with
      | true =>
        simp only [hhp, if_true] at h
        injection h with h; subst h
        simp only [mainPos, hhp, if_true] at hm
        refine ⟨⟨by simp, by simpa [mainPos] using hm, ?_⟩, ?_⟩
        · intro n hmem
          rcases List.mem_append.mp hmem with h1 | h1
          · exact hn n h1
          · simp at h1; subst h1; exact hl
        · simp only [phi, mainPos, hhp, pend, if_true, Bool.false_eq_true, if_false]
          rw [szItems_snoc]; omega
      | false =>
        simp only [hhp, Bool.false_eq_true, if_false] at h
        injection h with h; subst h
        simp only [mainPos, hhp, Bool.false_eq_true, if_false] at hm
        refine ⟨⟨by simp, by simp [mainPos, hhp]; omega, ?_⟩, ?_⟩
        · intro n hmem
          rcases List.mem_append.mp hmem with h1 | h1
          · exact hn n h1
          · simp at h1; subst h1; exact hl
        · simp only [phi, mainPos, hhp, pend, Bool.false_eq_true, if_false, if_true]
          rw [szItems_snoc]
          have e : buf.length - s.pos = (buf.length - (s.pos + 1)) + 1 := by omega
          rw [e, Nat.mul_add]
          by_cases hlab : s.label = []
          · simp [hlab] <;> omega
          · simp [hlab] <;> omega
    · simp only [hz, if_false]
      by_cases hp : 192 ≤ b.toNat
      · simp only [hp, if_true]
        refine ⟨fun s' h => ?_, fun labs h => ?_⟩
        · cases hhp : s.hp with
          | true => simp [hhp] at h
          | false =>
            simp only [hhp, Bool.false_eq_true, if_false] at h
            cases t with
            | nil => cases h
            | cons b1 t' =>
              simp only [] at h
              injection h with h; subst h
              simp only [mainPos, hhp, Bool.false_eq_true, if_false] at hm
              simp only [List.length_cons] at hlen
              have hK2 : 143 ≤ K := by
                rcases hptr with h | h
                · exact h
                · exact absurd ((and_c0_eq b.toNat b.toNat_lt).mpr hp) (h b hbmem)
              refine ⟨⟨hl, by simp [mainPos]; omega, hn⟩, ?_⟩
              simp only [phi, mainPos, hhp, pend, Bool.false_eq_true, if_false, if_true]
              have e : buf.length - s.pos = (buf.length - (s.pos + 2)) + 2 := by omega
              rw [e, Nat.mul_add]
              by_cases hlab : s.label = []
              · simp [hlab] <;> omega
              · simp [hlab] <;> omega
        · split at h
          · cases h
          · split at h <;> cases h
      · simp only [hp, if_false]
        by_cases hr : 64 ≤ b.toNat
        · simp only [hr, if_true]
          exact ⟨fun s' h => (by cases h), fun labs h => (by cases h)⟩
        · simp only [hr, if_false]
          by_cases ho : t.length < b.toNat
          · simp only [ho, if_true]
            exact ⟨fun s' h => (by cases h), fun labs h => (by cases h)⟩
          · simp only [ho, if_false]
            have ha := appendLabel_length s.label (t.take b.toNat)
            have htk : (t.take b.toNat).length = b.toNat := by simp [List.length_take]; omega
            by_cases hc : (appendLabel s.label (t.take b.toNat)).length > maxNameLength
            · simp only [hc, if_true]
              exact ⟨fun s' h => (by cases h), fun labs h => (by cases h)⟩
            · simp only [hc, if_false]
              refine ⟨fun s' h => ?_, fun labs h => by cases h⟩
              injection h with h; subst h
              have hc' : (appendLabel s.label (t.take b.toNat)).length ≤ 253 := by
                have hmx : maxNameLength = 253 := rfl
                omega
              cases hhp : s.hp with
              | true =>
                simp only [mainPos, hhp, if_true] at hm
                refine ⟨⟨hc', by simpa [mainPos, hhp] using hm, hn⟩, ?_⟩
                simp [phi, mainPos, hhp, pend]
              | false =>
                simp only [mainPos, hhp, Bool.false_eq_true, if_false] at hm
                refine ⟨⟨hc', by simp [mainPos, hhp]; omega, hn⟩, ?_⟩
                simp only [phi, mainPos, hhp, pend, Bool.false_eq_true, if_false]
                have e : buf.length - s.pos = (buf.length - (s.pos + 1 + b.toNat)) + (1 + b.toNat) := by
                  omega
                rw [e, Nat.mul_add]
                have hne : appendLabel s.label (t.take b.toNat) ≠ [] := by
                  intro h0
                  have h1 := ha.2.2
                  rw [h0, htk] at h1
                  simp at h1; omega
                have hKb : 32 * (1 + b.toNat) ≤ K * (1 + b.toNat) := Nat.mul_le_mul_right _ hK
                by_cases hlab : s.label = []
                · have h2 := ha.2.1 hlab
                  rw [hlab] at hne h2
                  simp only [hlab]
                  simp [hne] <;> omega
                · simp [hlab, hne] <;> omega

theorem loop_phi (K : Nat) (hK : 32 ≤ K) (buf : Bytes) (hptr : 143 ≤ K ∨ NoPtr buf) :
    ∀ (f : Nat) (s : St) (labs : List Bytes), SInv buf s → loop buf f s = some (.ok labs) →
      szItems labs ≤ phi K buf s ∧ ∀ n ∈ labs, n.length ≤ 253 := by
  intro f
  induction f with
  | zero => intro s labs _ h; simp [loop] at h
  | succ f ih =>
    intro s labs hi h
    unfold loop at h
    rw [step_eq_step'] at h
    have hs := step'_phi K hK buf hptr s hi
    cases hst : step' buf s with
    | done r =>
      rw [hst] at h
      injection h with h; subst h
      exact hs.2 labs hst
    | next s' =>
      rw [hst] at h
      obtain ⟨hi', hle⟩ := hs.1 s' hst
      obtain ⟨h1, h2⟩ := ih s' labs hi' h
      exact ⟨Nat.le_trans h1 hle, h2⟩

theorem labelsFromBytes_loop {buf : Bytes} {labs : List Bytes} (h : labelsFromBytes buf = .ok labs) :
    loop buf (fuelFor buf) init = some (.ok labs) := by
  unfold labelsFromBytes at h
  cases hl : loop buf (fuelFor buf) init with
  | none => rw [hl] at h; cases h
  | some r => rw [hl] at h; simp only [] at h; rw [h]

theorem sinv_init (buf : Bytes) : SInv buf init := by
  refine ⟨by simp [init], by simp [mainPos, init], by simp [init]⟩

/-- generic form: K ≥ 32 pays for an empty name per zero octet; a pointer (2
octets) yields one name of at most 253 bytes, paid when 2K ≥ 253 + 32 -/
theorem labels_size_gen (K : Nat) (hK : 32 ≤ K) (buf : Bytes) (hptr : 143 ≤ K ∨ NoPtr buf)
    (labs : List Bytes) (h : labelsFromBytes buf = .ok labs) : szItems labs ≤ K * buf.length := by
  have := (loop_phi K hK buf hptr _ init labs (sinv_init buf) (labelsFromBytes_loop h)).1
  simpa [phi, init, pend, mainPos, szItems] using this

/-- every decoded name respects the cap -/
theorem labels_name_le (buf : Bytes) (labs : List Bytes) (h : labelsFromBytes buf = .ok labs) :
    ∀ n ∈ labs, n.length ≤ 253 :=
  (loop_phi 143 (by decide) buf (Or.inl (Nat.le_refl _)) _ init labs (sinv_init buf)
    (labelsFromBytes_loop h)).2

theorem sizeLabels_le (buf : Bytes) (l : Labels) (h : fromBytes buf = .ok l) :
    sizeLabels l ≤ 144 * buf.length + 32 := by
  obtain ⟨h1, h2⟩ := fromBytes_eq_ok h
  have := labels_size_gen 143 (by decide) buf (Or.inl (Nat.le_refl _)) _ h1
  simp only [sizeLabels, h2, Option.getD_some, nodeC]; omega

theorem sizeLabels_le_noptr (buf : Bytes) (hn : NoPtr buf) (l : Labels) (h : fromBytes buf = .ok l) :
    sizeLabels l ≤ 33 * buf.length + 32 := by
  obtain ⟨h1, h2⟩ := fromBytes_eq_ok h
  have := labels_size_gen 32 (Nat.le_refl _) buf (Or.inr hn) _ h1
  simp only [sizeLabels, h2, Option.getD_some, nodeC]; omega

/-! ### non-vacuity: expansion really happens, and is within the bound -/

example : fromBytes [1, 97, 0, 0xc0, 0] = .ok { original := some [1, 97, 0, 0xc0, 0], labels := [[97], [97]] } := by
  decide

example : sizeLabels { original := some [1, 97, 0, 0xc0, 0], labels := [[97], [97]] } > 5 := by decide

example : NoPtr [1, 97, 1, 98, 0, 0] := by unfold NoPtr; decide

end Dhcp.Cost

import DhcpProofs.Lemmas.RawWriteSpec
/-
  Both checksums of the emitted frame verify under the specification
  (RFC 1071 sum, RFC 791 header, RFC 768 pseudo header).
-/
namespace Dhcp.Raw
open Dhcp Dhcp.Spec.Inet

theorem wordSum_be16 {v : Nat} (h : v < 65536) : wordSum (be16 v) = v := by
  simp [wordSum, words, be16]; omega

theorem ipBytes_to4_length (ip : GoIP) : (ipBytes (to4 ip)).length ≤ 65536 := by
  rcases to4_cases ip with h | ⟨a, b, c, d, h⟩ <;> simp [h, ipBytes]

/-- the running sum handed to the final complement of the IPv4 header -/
theorem ipHdr0_rep (tl : Nat) (s d : Bytes) (hs : s.length = 4) (hd : d.length = 4) :
    Rep (checksum (ipHdr0 tl s d) 0) (wordSum (ipHdr0 tl s d)) := by
  have := checksum_rep (ipHdr0 tl s d) Rep.zero (by simp [ipHdr0, hs, hd])
  simpa using this

theorem wordSum_hdr_ck (tl c : Nat) (s0 s1 s2 s3 d0 d1 d2 d3 : UInt8) (hc : c < 65536) :
    (words ([0x45, 0] ++ be16 tl ++ [0, 0, 0, 0, 64, 17] ++ be16 c ++ [s0, s1, s2, s3] ++ [d0, d1, d2, d3])).sum =
      wordSum (ipHdr0 tl [s0, s1, s2, s3] [d0, d1, d2, d3]) + c := by
  have hw := hi_lo_word hc
  simp [wordSum, ipHdr0, be16, words]
  omega

theorem frameOf_ipck (p : Bytes) (dst src : Addr) (hp : 28 + p.length ≤ 65535) :
    IPHeaderVerifies (frameOf p dst src) := by
  obtain ⟨_, _, h20, _⟩ := frameOf_fields p dst src hp
  have rep := ipHdr0_rep (u16 (28 + p.length)) (hdrAddr src.ip) (hdrAddr dst.ip) (hdrAddr_length _) (hdrAddr_length _)
  obtain ⟨r1, r2⟩ := rep_compl rep
  obtain ⟨s0, s1, s2, s3, hs⟩ := hdrAddr_cases src.ip
  obtain ⟨d0, d1, d2, d3, hd⟩ := hdrAddr_cases dst.ip
  unfold IPHeaderVerifies ocSum
  rw [ocSumW_eq_ffff_iff _ (words_lt _), h20]
  have e : (frameOf p dst src).take 20 = [0x45, 0] ++ be16 (u16 (28 + p.length)) ++ [0, 0, 0, 0, 64, 17] ++
      be16 (ipCk p dst src) ++ [s0, s1, s2, s3] ++ [d0, d1, d2, d3] := by
    simp [frameOf, hs, hd, be16]
  rw [e, wordSum_hdr_ck _ _ _ _ _ _ _ _ _ _ (show ipCk p dst src < 65536 from compl16_lt _)]
  rw [hs, hd] at r1 r2
  simp only [ipCk, hs, hd]
  exact ⟨r1, r2⟩

/-- the running sum handed to the final complement of the UDP header -/
theorem udp_rep (p : Bytes) (dst src : Addr) (hp : 28 + p.length ≤ 65535) :
    Rep (checksum (udpHdr0 (u16 src.port) (u16 dst.port) (u16 (8 + p.length)))
        (checksum (be16 (u16 (8 + p.length)))
          (checksum p (pseudoHeaderchecksum 17 (to4 src.ip) (to4 dst.ip)))))
      (wordSum (hdrAddr src.ip) + wordSum (hdrAddr dst.ip) + 17 + wordSum p + (8 + p.length) +
        (u16 src.port + u16 dst.port + (8 + p.length))) := by
  have t : u16 (8 + p.length) = 8 + p.length := by simp only [u16]; omega
  have x1 := checksum_rep (ipBytes (to4 src.ip)) Rep.zero (ipBytes_to4_length _)
  have x2 := checksum_rep (ipBytes (to4 dst.ip)) x1 (ipBytes_to4_length _)
  have x3 := checksum_rep [0, UInt8.ofNat (u8 17)] x2 (by simp)
  have x4 := checksum_rep p x3 (by omega)
  have x5 := checksum_rep (be16 (u16 (8 + p.length))) x4 (by simp)
  have x6 := checksum_rep (udpHdr0 (u16 src.port) (u16 dst.port) (u16 (8 + p.length))) x5 (by simp [udpHdr0])
  have e17 : wordSum [0, UInt8.ofNat (u8 17)] = 17 := by simp [wordSum, words, u8]
  have eU : wordSum (udpHdr0 (u16 src.port) (u16 dst.port) (u16 (8 + p.length))) =
      u16 src.port + u16 dst.port + (8 + p.length) := by
    have a := hi_lo_word (u16_lt src.port)
    have b := hi_lo_word (u16_lt dst.port)
    have c := hi_lo_word (v := 8 + p.length) (by omega)
    simp [udpHdr0, wordSum, words, be16, t]
    rw [a, b, c]; simp [Nat.add_assoc]
  rw [e17, wordSum_be16 (u16_lt _), eU, t, ← wordSum_hdrAddr, ← wordSum_hdrAddr] at x6
  simpa [pseudoHeaderchecksum, t] using x6

/-- integer word sum of pseudo header + UDP segment of the emitted frame -/
theorem frameOf_pseudo_sum (p : Bytes) (dst src : Addr) (hp : 28 + p.length ≤ 65535) :
    (pseudoWords (frameOf p dst src)).sum + wordSum (ipPayload (frameOf p dst src)) =
      (wordSum (hdrAddr src.ip) + wordSum (hdrAddr dst.ip) + 17 + wordSum p + (8 + p.length) +
        (u16 src.port + u16 dst.port + (8 + p.length))) + udpCk p dst src := by
  obtain ⟨_, _, _, _, _, _, _, _, h17, _, hsrc, hdst⟩ := frameOf_fields p dst src hp
  obtain ⟨_, _, hul, _, _⟩ := frameOf_udp p dst src hp
  have hpay := frameOf_ipPayload p dst src hp
  unfold pseudoWords
  rw [h17, hul, hsrc, hdst, hpay]
  have e : be16 (u16 src.port) ++ be16 (u16 dst.port) ++ be16 (8 + p.length) ++ be16 (udpCk p dst src) ++ p =
      (be16 (u16 src.port) ++ be16 (u16 dst.port) ++ be16 (8 + p.length) ++ be16 (udpCk p dst src)) ++ p := by
    simp
  rw [e, wordSum_append_even _ _ (by simp)]
  have a := hi_lo_word (u16_lt src.port)
  have b := hi_lo_word (u16_lt dst.port)
  have c := hi_lo_word (v := 8 + p.length) (by omega)
  have d := hi_lo_word (show udpCk p dst src < 65536 from compl16_lt _)
  simp [wordSum, words, be16]
  omega

theorem pseudoWords_lt (f : Bytes) (h : udpLen f < 65536) : ∀ w ∈ pseudoWords f ++ words (ipPayload f), w < 65536 := by
  intro w hw
  have hp : proto f < 65536 := by
    have := (f.getD 9 0).toNat_lt; simp only [proto, byteAt]; omega
  simp only [pseudoWords, List.mem_append, List.mem_cons, List.mem_nil_iff, or_false] at hw
  rcases hw with ((hw | hw) | (hw | hw)) | hw
  · exact words_lt _ w hw
  · exact words_lt _ w hw
  · omega
  · omega
  · exact words_lt _ w hw

theorem frameOf_udpck (p : Bytes) (dst src : Addr) (hp : 28 + p.length ≤ 65535) :
    UDPSumVerifies (frameOf p dst src) := by
  obtain ⟨_, _, hul, _, _⟩ := frameOf_udp p dst src hp
  obtain ⟨r1, r2⟩ := rep_compl (udp_rep p dst src hp)
  unfold UDPSumVerifies
  rw [ocSumW_eq_ffff_iff _ (pseudoWords_lt _ (by omega)), List.sum_append,
    show (words (ipPayload (frameOf p dst src))).sum = wordSum (ipPayload (frameOf p dst src)) from rfl,
    frameOf_pseudo_sum p dst src hp]
  exact ⟨by unfold udpCk; omega, by unfold udpCk; omega⟩

theorem compl16_of_lt {x : Nat} (h : x < 65536) : compl16 x = 65535 - x := by
  simp only [compl16, u16, Nat.mod_eq_of_lt h]

/-- the transmitted UDP checksum field: never all ones; zero exactly when the
rest sums to a multiple of 65535 -/
theorem udpCk_facts (p : Bytes) (dst src : Addr) (hp : 28 + p.length ≤ 65535) :
    udpCk p dst src ≠ 65535 ∧
    (udpCk p dst src = 0 ↔
      (wordSum (hdrAddr src.ip) + wordSum (hdrAddr dst.ip) + 17 + wordSum p + (8 + p.length) +
        (u16 src.port + u16 dst.port + (8 + p.length))) % 65535 = 0) := by
  obtain ⟨r1, r2, r3⟩ := udp_rep p dst src hp
  have hc : udpCk p dst src = 65535 - checksum (udpHdr0 (u16 src.port) (u16 dst.port) (u16 (8 + p.length)))
      (checksum (be16 (u16 (8 + p.length))) (checksum p (pseudoHeaderchecksum 17 (to4 src.ip) (to4 dst.ip)))) := by
    rw [udpCk, compl16_of_lt r1]
  rw [hc]
  generalize checksum (udpHdr0 (u16 src.port) (u16 dst.port) (u16 (8 + p.length)))
      (checksum (be16 (u16 (8 + p.length))) (checksum p (pseudoHeaderchecksum 17 (to4 src.ip) (to4 dst.ip)))) = x at *
  omega

end Dhcp.Raw

import Dhcp.Spec.Wire6Rfc
import DhcpProofs.Lemmas.V6LeafInv
/-
  Bridges between the vocabulary of the declarative leaf specification
  (Dhcp/Spec/Leaf6.lean: `keepFirst`, `Addrs`, `SubOpts`, `NameField`, bit tests
  by arithmetic) and the vocabulary of the decoder model and its existing
  lemmas (`dedup`, `IP16`/`writeTo16`, `Tiles`/`tlv`, `Label.fromBytes`, `&&&`).
-/
namespace Dhcp.V6
open Dhcp List Dhcp.Spec

/-! ### `OptionCodes.Add` is "keep the first occurrence" -/

theorem dedup_eq (cs : List Nat) : ∀ acc : List Nat,
    dedup acc cs = acc ++ (keepFirst cs).filter (fun x => !acc.contains x) := by
  induction cs with
  | nil => intro acc; simp [dedup, keepFirst]
  | cons c cs ih =>
    intro acc
    by_cases hc : acc.contains c = true
    · simp only [dedup, hc, if_true, keepFirst]
      rw [ih acc, List.filter_cons_of_neg (by simp only [hc]; decide), List.filter_filter]
      congr 1
      apply List.filter_congr
      intro x _
      cases hx : acc.contains x with
      | true => rfl
      | false =>
        have : x ≠ c := by intro e; subst e; rw [hc] at hx; cases hx
        simp [this]
    · simp only [dedup, hc, Bool.false_eq_true, if_false, keepFirst]
      rw [ih (acc ++ [c]), List.filter_cons_of_pos (by simp only [hc]; decide), List.filter_filter]
      simp only [List.append_assoc, List.singleton_append]
      congr 2
      apply List.filter_congr
      intro x _
      have e : (acc ++ [c]).contains x = (acc.contains x || x == c) := by
        simp [List.contains_eq_mem, Bool.decide_or]
        cases decide (x ∈ acc) <;> simp [BEq.beq]
      rw [e]
      cases acc.contains x <;> cases hd : (x == c) <;> simp [bne, hd]

theorem dedup_nil_eq (cs : List Nat) : dedup [] cs = keepFirst cs := by
  rw [dedup_eq cs []]
  simp

/-! ### flag bits -/

set_option maxRecDepth 100000 in
theorem and128 : ∀ n, n < 256 → ((n &&& 128 ≠ 0) ↔ 128 ≤ n) := by decide
set_option maxRecDepth 100000 in
theorem and1 : ∀ n, n < 256 → ((n &&& 1 ≠ 0) ↔ n % 2 = 1) := by decide

theorem u8_ne_zero (x : UInt8) : (x != 0) = decide (x.toNat ≠ 0) := by
  by_cases h : x = 0
  · subst h; rfl
  · have : x.toNat ≠ 0 := fun e => h (UInt8.toNat_inj.mp e)
    simp [h, this]

/-- the top bit of an octet -/
theorem bit7 (fl : UInt8) : (fl &&& 128 != 0) = decide (128 ≤ fl.toNat) := by
  rw [u8_ne_zero, UInt8.toNat_and]
  have := and128 fl.toNat (UInt8.toNat_lt fl)
  exact decide_eq_decide.mpr this

/-- the low bit of an octet -/
theorem bit0 (fl : UInt8) : (fl &&& 1 != 0) = decide (fl.toNat % 2 = 1) := by
  rw [u8_ne_zero, UInt8.toNat_and]
  have := and1 fl.toNat (UInt8.toNat_lt fl)
  exact decide_eq_decide.mpr this

/-! ### name fields -/

theorem labelsFromBytes_iff (b : Bytes) (ns : List Bytes) :
    Label.labelsFromBytes b = .ok ns ↔ Name.DecodesTo b ns := by
  constructor
  · intro h
    have hr := Label.runs_of_labelsFromBytes b
    rw [h] at hr
    obtain ⟨ns', hns, hnames⟩ := Label.names_sound b (b.length - 0) 0 (Nat.le_refl _) 0 [] ns hr
    simp at hns hnames
    subst hns
    exact hnames
  · intro h
    have := Label.names_complete h 0 0 [] (by simp)
    simpa using Label.labelsFromBytes_eq_of_runs this

/-- `rfc1035label.FromBytes` accepts exactly the name fields of the specification -/
theorem fromBytes_iff (b : Bytes) (l : Label.Labels) : Label.fromBytes b = .ok l ↔ NameField b l := by
  constructor
  · intro h
    obtain ⟨h1, h2⟩ := Label.fromBytes_eq_ok h
    exact ⟨h2, (labelsFromBytes_iff b _).mp h1⟩
  · rintro ⟨h1, h2⟩
    rw [Label.fromBytes_of_labelsFromBytes ((labelsFromBytes_iff b _).mpr h2)]
    cases l with
    | mk o ls => simp only at h1; subst h1; rfl

/-! ### address lists -/

theorem addrs_of_ip16 : ∀ (xs : List IP), (∀ ip ∈ xs, IP16 ip) → Addrs (xs.flatMap writeTo16) xs := by
  intro xs
  induction xs with
  | nil => intro _; exact .nil
  | cons ip xs ih =>
    intro h
    obtain ⟨b, rfl, hb, hw⟩ := writeTo16_ip16 (h ip (by simp))
    simp only [List.flatMap_cons, hw]
    exact .cons hb (ih (fun y hy => h y (by simp [hy])))

theorem ip16_of_addrs {v : Bytes} {ips : List IP} (h : Addrs v ips) :
    (∀ ip ∈ ips, IP16 ip) ∧ v = ips.flatMap writeTo16 := by
  induction h with
  | nil => exact ⟨by simp, by simp⟩
  | @cons a rest ips ha _ ih =>
    have hw : writeTo16 (some a) = a := by simp [writeTo16, ipTo16, to16, ha]
    refine ⟨?_, by simp only [List.flatMap_cons, hw, ← ih.2]⟩
    intro ip hip
    rcases List.mem_cons.mp hip with rfl | hip
    · exact ⟨a, rfl, ha⟩
    · exact ih.1 ip hip

/-! ### sub-option tilings -/

theorem tlv_append (c : Nat) (v rest : Bytes) :
    tlv c v ++ rest = be16 c ++ (be16 v.length ++ (v ++ rest)) := by
  simp [tlv]

theorem subOpts_of_tiles {α : Type} {P : Nat → Bytes → α → Prop} {d : Bytes} {xs : List α}
    (h : Tiles P d xs) : SubOpts P d xs := by
  induction h with
  | nil => exact .nil
  | cons hc hv hp _ ih => rw [tlv_append]; exact .cons hc hv hp ih

theorem tiles_of_subOpts {α : Type} {P : Nat → Bytes → α → Prop} {d : Bytes} {xs : List α}
    (h : SubOpts P d xs) : Tiles P d xs := by
  induction h with
  | nil => exact .nil
  | cons hc hv hp _ ih => rw [← tlv_append]; exact .cons hc hv hp ih

theorem subOpts_iff_tiles {α : Type} (P : Nat → Bytes → α → Prop) (d : Bytes) (xs : List α) :
    SubOpts P d xs ↔ Tiles P d xs := ⟨tiles_of_subOpts, subOpts_of_tiles⟩

theorem subOpts_mono {α : Type} {P Q : Nat → Bytes → α → Prop} (hPQ : ∀ c d x, P c d x → Q c d x)
    {d : Bytes} {xs : List α} (h : SubOpts P d xs) : SubOpts Q d xs := by
  induction h with
  | nil => exact .nil
  | cons hc hv hp _ ih => exact .cons hc hv (hPQ _ _ _ hp) ih

/-! ### the code lists -/

theorem layoutCodes_eq : layoutCodes = knownCodes := rfl

end Dhcp.V6

import DhcpProofs.Lemmas.V6LeafSound
/-
  Completeness of the leaf decoders against the declarative layouts of
  Dhcp/Spec/Leaf6.lean: every value with an RFC reading `PLeaf` / `PNTPSub` /
  `PDUID` is accepted by `decSimple` / `parseNTPSub` / `decDUID`, with exactly
  that reading; and the DUID equivalence.
-/
namespace Dhcp.V6
open Dhcp List Dhcp.Spec

/-! ### NTP sub-options -/

theorem parseNTPSub_complete (c : Nat) (v : Bytes) (s : NTPSub) (h : PNTPSub c v s) :
    parseNTPSub c v = .ok s := by
  cases h with
  | srvAddr ha =>
    simp only [parseNTPSub, if_true, Lexer.new, copyN_all v false ha.symm, fin_ok]
  | mcAddr ha =>
    simp only [parseNTPSub, show ¬ ((2 : Nat) = 1) by decide, if_false, if_true, Lexer.new,
      copyN_all v false ha.symm, fin_ok]
  | srvFQDN hn h1 =>
    simp only [parseNTPSub, show ¬ ((3 : Nat) = 1) by decide, show ¬ ((3 : Nat) = 2) by decide,
      if_false, if_true, (fromBytes_iff v _).mpr hn, h1, ne_eq, not_true_eq_false]
  | other h1 h2 h3 =>
    simp only [parseNTPSub, h1, h2, h3, if_false]

theorem parseNTPSub_iff (c : Nat) (v : Bytes) (s : NTPSub) : parseNTPSub c v = .ok s ↔ PNTPSub c v s :=
  ⟨parseNTPSub_sound c v s, parseNTPSub_complete c v s⟩

/-! ### helpers -/

theorem items_lenPref {v : Bytes} {xs : List Bytes} (h : Items v xs) : ItemsOK xs ∧ v = lenPref xs := h

theorem flatMap_be16_ne_nil {as : List Nat} (h : as ≠ []) : ¬ ((as.flatMap be16).length = 0) := by
  rw [flatMap_be16_length]
  cases as with
  | nil => exact absurd rfl h
  | cons a as => simp only [List.length_cons]; omega

theorem addrs_loop {v : Bytes} {ips : List IP} (h : Addrs v ips) :
    ip16Loop (v.length + 1) ⟨v, false⟩ [] = (ips, ⟨[], false⟩) := by
  obtain ⟨hok, rfl⟩ := ip16_of_addrs h
  rw [ip16Loop_flatMap ips _ [] hok (by have := flatMap_writeTo16_length ips hok; omega)]
  simp

/-! ### every constructor of `PLeaf` is accepted -/

/-- **completeness, every leaf code.** -/
theorem decSimple_complete (c : Nat) (v : Bytes) (o : Opt6) (h : PLeaf c v o) :
    decSimple c v = .ok o := by
  cases h with
  | @oro v cs hu =>
    obtain ⟨h1, rfl⟩ := hu
    rw [decSimple_6, u16Loop_flatMap cs _ [] h1 (by rw [flatMap_be16_length]; omega)]
    simp only [List.nil_append, fin_ok, dedup_nil_eq]
  | @elapsed t ht =>
    simp only [decSimple_8, read16_all t ht, fin_ok]
    rfl
  | @status c m hc =>
    simp only [decSimple_13, Lexer.read16_append c hc, readAll_mk, fin_ok]
  | @userClass v cls hi hne =>
    obtain ⟨hok, rfl⟩ := items_lenPref hi
    simp only [decSimple_15, lenPref_ne_nil hne, if_false]
    rw [lenPrefLoop_lenPref cls _ [] hok (by have := lenPref_length cls; omega)]
    simp only [List.nil_append, fin_ok]
  | @vendorClass en v ds hen hi hne =>
    obtain ⟨hok, rfl⟩ := items_lenPref hi
    simp only [decSimple_16, Lexer.read32_append en hen]
    rw [lenPrefLoop_lenPref ds _ [] hok (by
      have := lenPref_length ds
      simp only [List.length_append, be32_length]; omega)]
    have hn : ¬ (ds.length = 0) := fun h => hne (List.eq_nil_of_length_eq_zero h)
    simp only [List.nil_append, hn, if_false, fin_ok]
  | @vendorOpts en v os hen hs =>
    have hd := optionsFromBytes_complete (fun c d => Res.ok (c, d))
      (fun c d (x : Nat × Bytes) => x = (c, d)) (by intro c v x hx; rw [hx]) v os (tiles_of_subOpts hs)
    simp only [decSimple_17, Lexer.read32_append en hen, readAll_mk, hd, fin_ok]
  | interfaceID => exact decSimple_18 _
  | @dns v ips ha =>
    rw [decSimple_23, addrs_loop ha]
    simp only [fin_ok]
  | @domainSearch v l hn =>
    simp only [decSimple_24, (fromBytes_iff v l).mpr hn]
  | @infoRefresh s hs =>
    have : decDur ⟨be32 s, false⟩ = ((s : Int) * second, ⟨[], false⟩) := by
      have := decDur_append s hs [] false
      simpa using this
    simp only [decSimple_32, this, fin_ok]
    rfl
  | @remoteID en id hen =>
    simp only [decSimple_37, Lexer.read32_append en hen, readAll_mk, fin_ok]
  | @fqdn f v l hn =>
    simp only [decSimple_39, Lexer.read8_cons, readAll_mk, (fromBytes_iff v l).mpr hn, fin_ok]
  | @ntp v subs hs =>
    have hd := optionsFromBytes_complete parseNTPSub PNTPSub parseNTPSub_complete v subs
      (tiles_of_subOpts hs)
    simp only [decSimple_56, hd]
  | bootfileURL => exact decSimple_59 _
  | @bootfileParam v ps hi =>
    obtain ⟨hok, rfl⟩ := items_lenPref hi
    rw [decSimple_60, lenPrefLoop_lenPref ps _ [] hok (by have := lenPref_length ps; omega)]
    simp only [List.nil_append, fin_ok]
  | @archType v as hu hne =>
    obtain ⟨h1, rfl⟩ := hu
    simp only [decSimple_61, flatMap_be16_ne_nil hne, if_false]
    rw [u16Loop_flatMap as _ [] h1 (by rw [flatMap_be16_length]; omega)]
    simp only [List.nil_append, fin_ok]
  | nii =>
    simp only [decSimple_62, Lexer.read8_cons, fin_ok]
  | @clientLLA ht a hh =>
    simp only [decSimple_79, Lexer.read16_append ht hh, readAll_mk, fin_ok]
  | @dhcpv4Msg v p hp =>
    simp only [decSimple_87, V4.dec4_complete v p hp]
  | @dhcp4o6Server v ips ha =>
    rw [decSimple_88, addrs_loop ha]
    simp only [fin_ok]
  | @fourRDMapRule p4len p6len ea fl p4 p6 h4 h6 hl4 hl6 =>
    have hc : (decide (p4len.toNat > 32) || decide (p6len.toNat > 128)) = false := by
      simp only [Bool.or_eq_false_iff, decide_eq_false_iff_not]; omega
    simp only [decSimple_98, Lexer.read8_cons, hc, Bool.false_eq_true, if_false,
      Lexer.copyN_append p4 p6 false hl4.symm, copyN_all p6 false hl6.symm, fin_ok, bit7]
  | @fourRDNonMapRule fl tc pmtu hp =>
    simp only [decSimple_99, Lexer.read8_cons, read16_all pmtu hp, fin_ok, bit7, bit0,
      decide_eq_true_eq]
  | @relayPort p hp =>
    simp only [decSimple_135, read16_all p hp, fin_ok]
  | @generic c v hn => exact decSimple_generic c v hn

/-- no leaf layout exists for the codes of the options that contain options -/
theorem PLeaf_not_container {c : Nat} {v : Bytes} {o : Opt6} (h : PLeaf c v o) : c ∉ containerCodes := by
  cases h with
  | generic hn =>
    intro hc
    exact hn (containerCodes_known hc)
  | _ => decide

/-- **The leaf decoders accept exactly the declarative RFC layouts**, with the
RFC reading as the value: for every option code without sub-options and every
byte string. -/
theorem decSimple_iff_PLeaf (c : Nat) (v : Bytes) (o : Opt6) (hc : c ∉ containerCodes) :
    decSimple c v = .ok o ↔ PLeaf c v o :=
  ⟨decSimple_sound c v o hc, decSimple_complete c v o⟩

/-! ### DUIDs -/

theorem PDUID_iff_OK (v : Bytes) (d : DUID) : PDUID v d ↔ DUIDOK d ∧ encDUID d = v := by
  constructor
  · intro h
    cases h with
    | llt h1 h2 h3 => exact ⟨⟨h1, h2, by omega⟩, by simp [encDUID]⟩
    | en h1 h2 => exact ⟨⟨h1, by omega⟩, by simp [encDUID]⟩
    | ll h1 h2 => exact ⟨⟨h1, by omega⟩, by simp [encDUID]⟩
    | uuid h1 => exact ⟨h1, by simp [encDUID, copyInto_of_length_eq h1]⟩
    | «opaque» h0 h1 h2 h3 h4 h5 h6 => exact ⟨⟨h0, h1, h2, h3, h4, h5, h6⟩, by simp [encDUID]⟩
  · rintro ⟨hok, rfl⟩
    cases d with
    | llt ht t a =>
      obtain ⟨h1, h2, h3⟩ := hok
      simp only [encDUID, List.append_assoc]
      exact .llt h1 h2 (by omega)
    | en n i =>
      obtain ⟨h1, h2⟩ := hok
      simp only [encDUID, List.append_assoc]
      exact .en h1 (by omega)
    | ll ht a =>
      obtain ⟨h1, h2⟩ := hok
      simp only [encDUID, List.append_assoc]
      exact .ll h1 (by omega)
    | uuid u =>
      simp only [DUIDOK] at hok
      simp only [encDUID, copyInto_of_length_eq hok]
      exact .uuid hok
    | «opaque» t d =>
      obtain ⟨h0, h1, h2, h3, h4, h5, h6⟩ := hok
      simp only [encDUID]
      exact .opaque h0 h1 h2 h3 h4 h5 h6

/-- **`DUIDFromBytes` accepts exactly the RFC 8415 §11 DUID layouts.** -/
theorem decDUID_iff (v : Bytes) (d : DUID) : decDUID v = .ok d ↔ PDUID v d := by
  rw [PDUID_iff_OK]
  constructor
  · exact decDUID_inv v d
  · rintro ⟨hok, rfl⟩
    exact decDUID_encDUID d hok

end Dhcp.V6

import DhcpProofs.Lemmas.Server
/-
  C14, histories compared: the serving loop over `a ++ b` is the loop over `a`
  followed, if it is still running, by the loop over `b` (`serveFrom_append`).
  From it: monotonicity in the history (`serveFrom_prefix`), and
  non-interference between positions (`serveFrom_before`, `serveFrom_nonint`,
  `serveFrom_congr_step`).  No `NoPanic` hypothesis on the common parts of the
  histories anywhere.
-/
namespace Dhcp.Server
open Dhcp List

section
variable {α : Type} (dec : Bytes → Option α) (rule : Peer → Res Peer)

/-- an iteration ends the loop by returning or by panicking, never as "blocked" -/
theorem step_ne_stop_blocked (r : ReadResult) : step dec rule r ≠ .stop .blocked := by
  cases r with
  | readError => simp [step]
  | datagram b p =>
    simp only [step]
    cases dec (b.take readBufLen) with
    | none => simp
    | some m => cases rule p <;> simp

/-- the loop over `a ++ b`: the loop over `a`, and if that has not ended
(`blocked` = waiting for the next read) the loop over `b` from position
`i + |a|` on -/
theorem serveFrom_append (i : Nat) (a b : List ReadResult) :
    serveFrom dec rule i (a ++ b) =
      if (serveFrom dec rule i a).exit = .blocked then
        ⟨(serveFrom dec rule i a).invocations ++ (serveFrom dec rule (i + a.length) b).invocations,
          (serveFrom dec rule (i + a.length) b).exit⟩
      else serveFrom dec rule i a := by
  induction a generalizing i with
  | nil => simp [serveFrom]
  | cons r a ih =>
    have e : i + (r :: a).length = i + 1 + a.length := by simp; omega
    have hb := step_ne_stop_blocked dec rule r
    simp only [cons_append, serveFrom, e]
    cases hs : step dec rule r with
    | stop x =>
      cases x with
      | blocked => exact absurd hs hb
      | returned => simp
      | panicked => simp
    | skip => exact ih (i + 1)
    | invoke m p =>
      simp only [ih (i + 1)]
      split <;> simp

/-- every invocation made over `rs` from position `i` on carries an index in `[i, i + |rs|)` -/
theorem serveFrom_idx_lt (i : Nat) (rs : List ReadResult) (v : Invocation α)
    (hv : v ∈ (serveFrom dec rule i rs).invocations) : i ≤ v.idx ∧ v.idx < i + rs.length := by
  obtain ⟨h1, b, p, h2, _⟩ := serveFrom_mem dec rule i rs v hv
  refine ⟨h1, ?_⟩
  have : v.idx - i < rs.length := by
    by_cases hlt : v.idx - i < rs.length
    · exact hlt
    · rw [getElem?_eq_none (by omega)] at h2; cases h2
  omega

theorem filter_lt_of_lt {k : Nat} (l : List (Invocation α)) (h : ∀ v ∈ l, v.idx < k) :
    l.filter (fun v => decide (v.idx < k)) = l := by
  apply filter_eq_self.mpr
  intro v hv; simpa using h v hv

theorem filter_lt_of_ge {k : Nat} (l : List (Invocation α)) (h : ∀ v ∈ l, k ≤ v.idx) :
    l.filter (fun v => decide (v.idx < k)) = [] := by
  apply filter_eq_nil_iff.mpr
  intro v hv
  have := h v hv
  simp; omega

theorem filter_ne_of_ne {k : Nat} (l : List (Invocation α)) (h : ∀ v ∈ l, v.idx ≠ k) :
    l.filter (fun v => v.idx != k) = l := by
  apply filter_eq_self.mpr
  intro v hv; simpa using h v hv

/-- **monotonicity**: what has been handed to handlers after the reads `a` is
an initial segment of what has been handed after `a ++ b`; once the loop has
ended nothing is ever added -/
theorem serveFrom_prefix (i : Nat) (a b : List ReadResult) :
    (serveFrom dec rule i a).invocations <+: (serveFrom dec rule i (a ++ b)).invocations ∧
    ((serveFrom dec rule i a).exit ≠ .blocked → serveFrom dec rule i (a ++ b) = serveFrom dec rule i a) := by
  rw [serveFrom_append]
  by_cases h : (serveFrom dec rule i a).exit = .blocked
  · rw [if_pos h]
    exact ⟨prefix_append _ _, fun hne => absurd h hne⟩
  · rw [if_neg h]
    exact ⟨prefix_refl _, fun _ => rfl⟩

/-- **nothing before position `|a|` depends on what is read at or after it**:
the invocations with an index below `i + |a|` are those of the history `a` -/
theorem serveFrom_before (i : Nat) (a rest : List ReadResult) :
    (serveFrom dec rule i (a ++ rest)).invocations.filter (fun v => decide (v.idx < i + a.length)) =
      (serveFrom dec rule i a).invocations := by
  rw [serveFrom_append]
  have ha := filter_lt_of_lt (k := i + a.length) _ (fun v hv => (serveFrom_idx_lt dec rule i a v hv).2)
  by_cases h : (serveFrom dec rule i a).exit = .blocked
  · rw [if_pos h]
    simp only [filter_append, ha]
    rw [filter_lt_of_ge _ (fun v hv => (serveFrom_idx_lt dec rule (i + a.length) rest v hv).1)]
    simp
  · rw [if_neg h]; exact ha

/-- the loop over `r :: c` when `r` does not end it: the invocations other than
`r`'s own, and the exit, are those of the loop over `c` -/
theorem serveFrom_cons_other (k : Nat) (r : ReadResult) (c : List ReadResult)
    (hr : ∀ e, step dec rule r ≠ .stop e) :
    (serveFrom dec rule k (r :: c)).invocations.filter (fun v => v.idx != k) =
      (serveFrom dec rule (k + 1) c).invocations ∧
    (serveFrom dec rule k (r :: c)).exit = (serveFrom dec rule (k + 1) c).exit := by
  have hc := filter_ne_of_ne (k := k) (serveFrom dec rule (k + 1) c).invocations
    (fun v hv => by have := (serveFrom_idx_lt dec rule (k + 1) c v hv).1; omega)
  simp only [serveFrom]
  cases hs : step dec rule r with
  | stop e => exact absurd hs (hr e)
  | skip => exact ⟨hc, rfl⟩
  | invoke m p => simp [hc]

/-- **non-interference**: two histories that differ in the read at position
`|a|` only, neither variant ending the loop there (both are datagrams, and no
nil `*net.UDPAddr` for server4): every invocation other than the one for that
position, and the way the loop ends, are the same -/
theorem serveFrom_nonint (i : Nat) (a c : List ReadResult) (r r' : ReadResult)
    (hr : ∀ e, step dec rule r ≠ .stop e) (hr' : ∀ e, step dec rule r' ≠ .stop e) :
    (serveFrom dec rule i (a ++ r :: c)).invocations.filter (fun v => v.idx != i + a.length) =
      (serveFrom dec rule i (a ++ r' :: c)).invocations.filter (fun v => v.idx != i + a.length) ∧
    (serveFrom dec rule i (a ++ r :: c)).exit = (serveFrom dec rule i (a ++ r' :: c)).exit := by
  rw [serveFrom_append, serveFrom_append (b := r' :: c)]
  by_cases h : (serveFrom dec rule i a).exit = .blocked
  · rw [if_pos h, if_pos h]
    simp only [filter_append]
    obtain ⟨h1, h2⟩ := serveFrom_cons_other dec rule (i + a.length) r c hr
    obtain ⟨h1', h2'⟩ := serveFrom_cons_other dec rule (i + a.length) r' c hr'
    rw [h1, h1', h2, h2']
    exact ⟨rfl, rfl⟩
  · rw [if_neg h, if_neg h]
    exact ⟨rfl, rfl⟩

/-- replacing a read result by one the loop treats the same way changes nothing at all -/
theorem serveFrom_congr_step (i : Nat) (a c : List ReadResult) (r r' : ReadResult)
    (h : step dec rule r = step dec rule r') :
    serveFrom dec rule i (a ++ r :: c) = serveFrom dec rule i (a ++ r' :: c) := by
  rw [serveFrom_append, serveFrom_append (b := r' :: c)]
  simp only [serveFrom, h]

/-- only the first `readBufLen` bytes of a datagram reach the loop -/
theorem step_take (b b' : Bytes) (p : Peer) (h : b.take readBufLen = b'.take readBufLen) :
    step dec rule (.datagram b p) = step dec rule (.datagram b' p) := by
  simp only [step, h]

theorem step_datagram_ne_stop6 (b : Bytes) (p : Peer) (e : Exit) :
    step dec peer6 (.datagram b p) ≠ .stop e := by
  simp only [step, peer6]
  cases dec (b.take readBufLen) <;> simp

theorem step_datagram_ne_stop4 (b : Bytes) (p : Peer) (hp : p ≠ .udpNilPtr) (e : Exit) :
    step dec peer4 (.datagram b p) ≠ .stop e := by
  simp only [step]
  cases dec (b.take readBufLen) with
  | none => simp
  | some m =>
    cases p with
    | udp ip port zone =>
      cases ip with
      | none => simp [peer4]
      | some ip => by_cases hz : isZero4 ip = true <;> simp [peer4, hz]
    | udpNilPtr => exact absurd rfl hp
    | other id => simp [peer4]
    | nilAddr => simp [peer4]

end
end Dhcp.Server

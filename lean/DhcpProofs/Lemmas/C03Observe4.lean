import DhcpProofs.Lemmas.C03Strings
import DhcpProofs.Lemmas.LabelNoPanic
import Dhcp.V4.Observe
/-
  C03 over the ztpv4 and netboot observers of a DHCPv4 packet (model:
  Dhcp/V4/Observe.lean).  They hold for EVERY option map, decoded or not: the
  typed accessors they read through cannot panic, and every index into a
  `strings.Split` result is covered by a length test — or, in the one place
  where the source has none (`p[1]` in the `Juniper-` case), by the prefix
  test that selected the case.
-/
namespace Dhcp.V4.Obs
open Dhcp Dhcp.V4 Dhcp.Str

theorem pick3_ne_panic {p : List Bytes} {a b c : Nat} (mk : Bytes → Bytes → Bytes → VendorData)
    (ha : a < p.length) (hb : b < p.length) (hc : c < p.length) :
    ((idx p a).bind fun v => (idx p b).bind fun m => (idx p c).bind fun s => Res.ok (some (mk v m s))) ≠ .panic := by
  rw [idx_ok ha, idx_ok hb, idx_ok hc]
  simp [Res.bind]

theorem dash_mem_juniper : (45 : UInt8) ∈ pfxJuniperDash := by decide

theorem sepDash_eq : sepDash = [45] := by decide

/-- `parseClassIdentifier`: no index out of range, whatever option 60 holds -/
theorem parseClassIdentifier_ne_panic (o : GOpts) : parseClassIdentifier o ≠ .panic := by
  unfold parseClassIdentifier
  simp only []
  split
  · split
    · simp
    · exact pick3_ne_panic _ (by omega) (by omega) (by omega)
  · split
    · split
      · simp
      · exact pick3_ne_panic _ (by omega) (by omega) (by omega)
    · split
      · next hj =>
        -- the `Juniper-` case: the prefix contains the separator, so there are two pieces
        have h2 : 2 ≤ (split (Acc.classIdentifier o) sepDash).length := by
          rw [sepDash_eq]; exact split_two_of_hasPrefix hj dash_mem_juniper
        generalize split (Acc.classIdentifier o) sepDash = p at h2
        split
        · rw [idx_ok (show 1 < p.length by omega), idx_ok (show 0 < p.length by omega)]
          by_cases he : (Acc.hostName o).isEmpty = true <;> simp [Res.bind, he]
        · rw [idx_ok (show p.length - 1 < p.length by omega), idx_ok (show 0 < p.length by omega)]
          simp [Res.bind]
      · split
        · split
          · next h3 => exact pick3_ne_panic _ (by omega) (by omega) (by omega)
          · simp
        · split
          · split
            · simp
            · next h3 =>
              have h3' : (split (Acc.classIdentifier o) sepDash).length = 3 := by
                simpa using h3
              rw [idx_ok (show 1 < _ by omega), idx_ok (show 2 < _ by omega)]
              simp only [Res.bind]
              split <;> simp
          · split
            · split <;> simp
            · simp

theorem vivcFields_ne_panic : ∀ (fs : List Bytes) (acc : Bytes × Bytes), vivcFields fs acc ≠ .panic := by
  intro fs
  induction fs with
  | nil => intro acc; simp [vivcFields]
  | cons f fs ih =>
    intro acc
    simp only [vivcFields]
    split
    · simp
    · next h2 =>
      have h2' : (split f sepColon).length = 2 := by simpa using h2
      rw [idx_ok (show 0 < _ by omega), idx_ok (show 1 < _ by omega)]
      simp only [Res.bind]
      exact ih _

theorem parseVIVC_ne_panic (o : GOpts) : parseVIVC o ≠ .panic := by
  unfold parseVIVC
  split
  · simp
  · next i _ =>
    have := vivcFields_ne_panic (split i.data sepSemi) ([], [])
    cases h : vivcFields (split i.data sepSemi) ([], []) with
    | panic => exact absurd h this
    | err => simp [Res.map, Res.bind]
    | ok sm => simp [Res.map, Res.bind]

/-- `ztpv4.ParseVendorData` -/
theorem parseVendorData_ne_panic (o : GOpts) : parseVendorData o ≠ .panic := by
  unfold parseVendorData
  have h1 := parseClassIdentifier_ne_panic o
  have h2 := parseVIVC_ne_panic o
  cases hc : parseClassIdentifier o with
  | panic => exact absurd hc h1
  | err => simp
  | ok v =>
    cases v with
    | some vd => simp
    | none =>
      simp only []
      cases hv : parseVIVC o with
      | panic => exact absurd hv h2
      | err => simp
      | ok v => cases v <;> simp

/-- `ztpv4.ParseCircuitID`, for every matcher -/
theorem parseCircuitID_ne_panic {γ : Type} (mc : Bytes → Option γ) (o : GOpts) : parseCircuitID mc o ≠ .panic := by
  unfold parseCircuitID
  split
  · simp
  · simp only []
    split
    · simp
    · split <;> simp

theorem domainSearch_ne_panic (o : GOpts) : Acc.domainSearch o ≠ .panic := by
  unfold Acc.domainSearch
  split
  · simp
  · next v _ =>
    have := Label.fromBytes_ne_panic v
    cases h : Label.fromBytes v with
    | panic => exact absurd h this
    | err => simp
    | ok l => simp

/-- `netboot.GetNetConfFromPacketv4` -/
theorem getNetConfFromPacketv4_ne_panic (yi : IP) (o : GOpts) : getNetConfFromPacketv4 yi o ≠ .panic := by
  unfold getNetConfFromPacketv4
  split
  · simp
  · split
    · simp
    · split
      · simp
      · have := domainSearch_ne_panic o
        cases hd : Acc.domainSearch o with
        | panic => exact absurd hd this
        | err => simp
        | ok ds =>
          simp only []
          split
          · simp
          · split <;> simp

/-- `netboot.ConversationToNetconfv4` -/
theorem conversationToNetconfv4_ne_panic (conv : List Pkt4) : conversationToNetconfv4 conv ≠ .panic := by
  unfold conversationToNetconfv4
  split
  · simp
  · next reply _ =>
    have := getNetConfFromPacketv4_ne_panic reply.yiaddr (Client.Lease.toG reply.opts)
    cases h : getNetConfFromPacketv4 reply.yiaddr (Client.Lease.toG reply.opts) with
    | panic => exact absurd h this
    | err => simp [Res.map, Res.bind]
    | ok nc => simp [Res.map, Res.bind]

end Dhcp.V4.Obs

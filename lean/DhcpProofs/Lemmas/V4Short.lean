import DhcpProofs.Lemmas.V4Dec
/- `dec4` rejects every buffer shorter than the fixed header + cookie. (generated chain walk) -/
namespace Dhcp.V4
open Dhcp List

/-- progress invariant of a Lexer relative to the original buffer `b`: either
the sticky error is set, or exactly `k` bytes have been consumed. -/
def LInv (b : Bytes) (l : Lexer) (k : Nat) : Prop := l.err = true ∨ l.data.length + k = b.length

theorem consume_inv (b : Bytes) (l : Lexer) (k n : Nat) (h : LInv b l k) :
    LInv b (l.consume n).2 (k + n) := by
  unfold Lexer.consume
  by_cases hn : n ≤ l.data.length
  · simp only [hn, if_true]
    rcases h with h | h
    · exact Or.inl h
    · right; simp; omega
  · simp only [hn, if_false]; exact Or.inl rfl

theorem read8_inv (b : Bytes) (l : Lexer) (k : Nat) (h : LInv b l k) : LInv b l.read8.2 (k + 1) := by
  have := consume_inv b l k 1 h
  unfold Lexer.read8
  generalize l.consume 1 = r at this
  obtain ⟨v, l'⟩ := r
  cases v with
  | none => exact this
  | some v => cases v <;> exact this

theorem read16_inv (b : Bytes) (l : Lexer) (k : Nat) (h : LInv b l k) : LInv b l.read16.2 (k + 2) := by
  have := consume_inv b l k 2 h
  unfold Lexer.read16
  generalize l.consume 2 = r at this
  obtain ⟨v, l'⟩ := r
  cases v <;> exact this

theorem readBytes_inv (b : Bytes) (l : Lexer) (k n : Nat) (h : LInv b l k) :
    LInv b (l.readBytes n).2 (k + n) := by
  have := consume_inv b l k n h
  unfold Lexer.readBytes
  generalize l.consume n = r at this
  obtain ⟨v, l'⟩ := r
  cases v <;> exact this

theorem copyN_inv (b : Bytes) (l : Lexer) (k n : Nat) (h : LInv b l k) :
    LInv b (l.copyN n).2 (k + n) := consume_inv b l k n h

theorem dec4_short (b : Bytes) (h : b.length < 240) : dec4 b = .err := by
  unfold dec4
  have i0 : LInv b (Lexer.new b) 0 := Or.inr (by simp [Lexer.new])
  generalize Lexer.new b = l0 at i0 ⊢
  dsimp only
  have i1 := read8_inv b l0 0 i0
  generalize l0.read8 = r1 at i1 ⊢
  obtain ⟨v1, l1⟩ := r1
  simp only at i1 ⊢
  have i2 := read8_inv b l1 1 i1
  generalize l1.read8 = r2 at i2 ⊢
  obtain ⟨v2, l2⟩ := r2
  simp only at i2 ⊢
  have i3 := read8_inv b l2 2 i2
  generalize l2.read8 = r3 at i3 ⊢
  obtain ⟨v3, l3⟩ := r3
  simp only at i3 ⊢
  have i4 := read8_inv b l3 3 i3
  generalize l3.read8 = r4 at i4 ⊢
  obtain ⟨v4, l4⟩ := r4
  simp only at i4 ⊢
  have i5 := readBytes_inv b l4 4 4 i4
  generalize l4.readBytes 4 = r5 at i5 ⊢
  obtain ⟨v5, l5⟩ := r5
  simp only at i5 ⊢
  have i6 := read16_inv b l5 8 i5
  generalize l5.read16 = r6 at i6 ⊢
  obtain ⟨v6, l6⟩ := r6
  simp only at i6 ⊢
  have i7 := read16_inv b l6 10 i6
  generalize l6.read16 = r7 at i7 ⊢
  obtain ⟨v7, l7⟩ := r7
  simp only at i7 ⊢
  have i8 := copyN_inv b l7 12 4 i7
  generalize l7.copyN 4 = r8 at i8 ⊢
  obtain ⟨v8, l8⟩ := r8
  simp only at i8 ⊢
  have i9 := copyN_inv b l8 16 4 i8
  generalize l8.copyN 4 = r9 at i9 ⊢
  obtain ⟨v9, l9⟩ := r9
  simp only at i9 ⊢
  have i10 := copyN_inv b l9 20 4 i9
  generalize l9.copyN 4 = r10 at i10 ⊢
  obtain ⟨v10, l10⟩ := r10
  simp only at i10 ⊢
  have i11 := copyN_inv b l10 24 4 i10
  generalize l10.copyN 4 = r11 at i11 ⊢
  obtain ⟨v11, l11⟩ := r11
  simp only at i11 ⊢
  have i12 := readBytes_inv b l11 28 16 i11
  generalize l11.readBytes 16 = r12 at i12 ⊢
  obtain ⟨v12, l12⟩ := r12
  simp only at i12 ⊢
  have i13 := readBytes_inv b l12 44 64 i12
  generalize l12.readBytes 64 = r13 at i13 ⊢
  obtain ⟨v13, l13⟩ := r13
  simp only at i13 ⊢
  have i14 := readBytes_inv b l13 108 128 i13
  generalize l13.readBytes 128 = r14 at i14 ⊢
  obtain ⟨v14, l14⟩ := r14
  simp only at i14 ⊢
  have i15 := readBytes_inv b l14 236 4 i14
  generalize l14.readBytes 4 = r15 at i15 ⊢
  obtain ⟨v15, l15⟩ := r15
  simp only at i15 ⊢
  have herr : l15.err = true := by
    rcases i15 with h' | h'
    · exact h'
    · omega
  simp [Lexer.error, herr]

end Dhcp.V4

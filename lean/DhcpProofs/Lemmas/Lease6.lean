import Dhcp.Client.Lease
import DhcpProofs.Lemmas.V6BuildMsg
/-
  C13 helper lemmas, DHCPv6 side: the abstract call of nclient6, the SOLICIT
  builder, and what `call6` makes of a built message.
-/
namespace Dhcp.Client.Lease
open Dhcp Dhcp.V6 List

theorem isMessageType6_iff (t : UInt8) (tt : List UInt8) (m : Msg6) :
    isMessageType6 t tt m = true ↔ m.typ = t ∨ m.typ ∈ tt := by
  unfold isMessageType6
  simp [List.any_eq_true]

theorem sendAndRead6_nil_matcher (stream : List Msg6) : sendAndRead6 stream none = stream.head? := rfl

theorem sendAndRead6_some_iff (stream : List Msg6) (f : Msg6 → Bool) (r : Msg6) :
    sendAndRead6 stream (some f) = some r ↔
      f r = true ∧ ∃ pre post, stream = pre ++ r :: post ∧ ∀ q ∈ pre, f q = false := by
  unfold sendAndRead6
  simp only
  rw [List.find?_eq_some_iff_append]
  simp

theorem sendAndRead6_none_iff (stream : List Msg6) (f : Msg6 → Bool) :
    sendAndRead6 stream (some f) = none ↔ ∀ q ∈ stream, f q = false := by
  unfold sendAndRead6
  simp

theorem call6_ok (m : Msg6) (stream : List Msg6) (mt : Matcher6) :
    (call6 (.ok m) stream mt).sent = [m] ∧
    (call6 (.ok m) stream mt).res =
      (match sendAndRead6 stream mt with
       | some r => .msg r
       | none => .errNoResponse) := ⟨rfl, rfl⟩

/-- `Options.Update(o)` leaves `o` as the first option of its code -/
theorem getOne_update_self (o : Opt6) (os : List Opt6) : getOne o.code (update o os) = some o := by
  induction os with
  | nil => simp [update, getOne]
  | cons x xs ih =>
    unfold update
    by_cases h : x.code = o.code
    · simp [h, getOne]
    · have h' : (x.code == o.code) = false := by simpa using h
      simp only [h', Bool.false_eq_true, if_false]
      unfold getOne at ih ⊢
      rw [List.find?_cons, h']
      exact ih

/-- the SOLICIT of `RapidSolicit` carries a rapid-commit option, whatever the
caller's modifiers -/
theorem newSolicit_rapid {xid : Bytes} {time : Nat} {hw : Bytes} {mods : List Mod6} {sol : Msg6}
    (h : newSolicit xid time hw (mods ++ [.rapidCommit]) = .ok sol) :
    getOne ocRapidCommit sol.opts = some (.generic ocRapidCommit []) := by
  unfold newSolicit at h
  split at h
  · cases h
  · rw [← List.cons_append, applyMods_append] at h
    generalize applyMods _ (Mod6.iaid _ :: mods) = r at h
    cases r with
    | err => cases h
    | panic => cases h
    | ok m' =>
      simp only [Res.bind, applyMods, applyMod] at h
      cases h
      cases m' with
      | msg t x os => exact getOne_update_self (.generic ocRapidCommit []) os
      | relay t hc l p os => exact getOne_update_self (.generic ocRapidCommit []) os

/-- the SOLICIT built without caller modifiers -/
theorem newSolicit_nil (xid : Bytes) (time : Nat) (hw : Bytes) (h : 4 ≤ hw.length) :
    newSolicit xid time hw [] =
      .ok (.msg mtSolicit xid
        [.clientID (.llt hwTypeEthernet time hw), .oro [ocDNS, ocDomainSearchList], .elapsed 0,
         .iana (copyInto 4 (hw.drop (hw.length - 4))) 0 0 []]) := by
  unfold newSolicit
  have : ¬ hw.length < 4 := by omega
  rw [if_neg this]
  simp [applyMods, applyMod, oneIANAOf, ianasOf, V6.get, Opt6.code, ocIANA, Res.map, Res.bind,
    Msg6.updateOption, update]

theorem newSolicit_short (xid : Bytes) (time : Nat) (hw : Bytes) (mods : List Mod6) (h : hw.length < 4) :
    newSolicit xid time hw mods = .err := by
  unfold newSolicit
  rw [if_pos h]

end Dhcp.Client.Lease

import DhcpProofs.Lemmas.V6BuildChain
/- Helper lemmas for C16: `DecapsulateRelayIndex` on n-fold encapsulations. -/
namespace Dhcp.Spec
open Dhcp Dhcp.V6

/-- the value `encapAll` computes when every header has a relay type -/
def wrapAll (m : Msg6) : List Hdr → Msg6
  | [] => m
  | h :: rest => .relay h.typ (hopsFor (wrapAll m rest)) h.link h.peer [.relayMsg (wrapAll m rest)]

theorem encapAll_eq_wrapAll (m : Msg6) : ∀ hs : List Hdr, (∀ x ∈ hs, isRelayType x.typ = true) →
    encapAll m hs = .ok (wrapAll m hs) := by
  intro hs
  induction hs with
  | nil => intro _; rfl
  | cons h rest ih =>
    intro ht
    rw [encapAll, ih (fun x hx => ht x (List.mem_cons_of_mem _ hx))]
    simp only [Res.bind]
    rw [encapsulateRelay_ok _ _ (ht h List.mem_cons_self)]
    rfl

theorem decapN_msg {m : Msg6} (hm : m.isRelay = false) : ∀ n, decapN n m = .ok m := by
  intro n
  obtain ⟨t, x, os, rfl⟩ := not_isRelay_iff.mp hm
  induction n with
  | zero => rfl
  | succ n ih => simp [decapN, decapsulateRelay, Res.bind, ih]

theorem decapN_wrapAll (m : Msg6) (hm : m.isRelay = false) : ∀ (k : Nat) (hs : List Hdr),
    decapN k (wrapAll m hs) = .ok (wrapAll m (hs.drop k)) := by
  intro k
  induction k with
  | zero => intro hs; simp [decapN]
  | succ k ih =>
    intro hs
    cases hs with
    | nil => simpa [wrapAll] using decapN_msg hm (k + 1)
    | cons h rest =>
      simp only [decapN, wrapAll, decapsulateRelay, relayMessageOf_cons_relayMsg, Res.bind, List.drop_succ_cons]
      exact ih rest

theorem wrapAll_isRelay (m : Msg6) (h : Hdr) (rest : List Hdr) : (wrapAll m (h :: rest)).isRelay = true := rfl

theorem msgDepth_wrapAll (m : Msg6) (hm : m.isRelay = false) : ∀ hs : List Hdr, msgDepth (wrapAll m hs) = hs.length := by
  intro hs
  induction hs with
  | nil =>
    obtain ⟨t, x, os, rfl⟩ := not_isRelay_iff.mp hm
    simp [wrapAll, msgDepth]
  | cons h rest ih => simp [wrapAll, msgDepth, optsDepth, optDepth, ih]

theorem lastRelay_wrapAll (m : Msg6) (hm : m.isRelay = false) : ∀ (rest : List Hdr) (h : Hdr) (fuel : Nat),
    rest.length < fuel →
    lastRelay fuel (wrapAll m (h :: rest)) = .ok (wrapAll m [(h :: rest).getLast (by simp)]) := by
  intro rest
  induction rest with
  | nil =>
    intro h fuel hf
    cases fuel with
    | zero => omega
    | succ f =>
      simp [lastRelay, wrapAll, decapsulateRelay, hm]
  | cons h' rest ih =>
    intro h fuel hf
    cases fuel with
    | zero => omega
    | succ f =>
      rw [lastRelay]
      simp only [wrapAll, decapsulateRelay, relayMessageOf_cons_relayMsg]
      have : (Msg6.relay h'.typ (hopsFor (wrapAll m rest)) h'.link h'.peer [Opt6.relayMsg (wrapAll m rest)]).isRelay = true := rfl
      simp only [this, if_true]
      have := ih h' f (by simpa using hf)
      simp only [wrapAll] at this
      rw [this]
      simp

end Dhcp.Spec

import Dhcp.Client.Lease
import DhcpProofs.Lemmas.V4Val
import DhcpProofs.Lemmas.V4Build
/-
  C13 helper lemmas, DHCPv4 side: what the two typed accessors the matchers
  use compute in terms of the raw option value, `net.IP.Equal`, the matcher of
  `RequestFromOffer` / `Renew`, and the abstract call.
-/
namespace Dhcp.Client.Lease
open Dhcp Dhcp.V4 List

/-! ### accessors on `Opts` -/

theorem toG_get (o : Opts) (c : UInt8) :
    (toG o).get c = (match o.get c with
      | some v => goBuf v
      | none => none) := by
  unfold toG GOpts.get Opts.get
  simp only []
  cases h : o.f c <;> simp

/-- `p.MessageType()` is the single byte of option 53, or 0 (none) when the
option is absent or is not exactly one byte long. -/
theorem messageType_eq (p : Pkt4) :
    messageType p = (match p.opts.get optMessageType with
      | some [b] => b
      | _ => 0) := by
  unfold messageType Acc.messageType
  rw [toG_get]
  have : Code.messageType = optMessageType := rfl
  rw [this]
  cases h : p.opts.get optMessageType with
  | none => rfl
  | some v =>
    match v with
    | [] => rfl
    | [b] => simp [goBuf, messageTypeFromBytes_eq, Spec.Val4.u8]
    | _ :: _ :: _ => simp [goBuf, messageTypeFromBytes_eq, Spec.Val4.u8]

/-- `p.ServerIdentifier()` is option 54 when that is exactly four bytes, nil
otherwise (absent, empty, or any other length). -/
theorem serverIdentifier_eq (p : Pkt4) :
    serverIdentifier p = (match p.opts.get optServerID with
      | some [a, b, c, d] => some [a, b, c, d]
      | _ => none) := by
  unfold serverIdentifier Acc.serverIdentifier getIP
  rw [toG_get]
  have : Code.serverIdentifier = optServerID := rfl
  rw [this]
  cases h : p.opts.get optServerID with
  | none => rfl
  | some v =>
    match v with
    | [] => rfl
    | [_] | [_, _] | [_, _, _] | [_, _, _, _] | _ :: _ :: _ :: _ :: _ :: _ =>
      simp [goBuf, ipFromBytes_eq, Spec.Val4.ip]

theorem serverIdentifier_of_len4 {p : Pkt4} {v : Bytes} (h : p.opts.get optServerID = some v)
    (hl : v.length = 4) : serverIdentifier p = some v := by
  rw [serverIdentifier_eq, h]
  match v, hl with
  | [_, _, _, _], _ => rfl

theorem serverIdentifier_of_not_len4 {p : Pkt4} {v : Bytes} (h : p.opts.get optServerID = some v)
    (hl : v.length ≠ 4) : serverIdentifier p = none := by
  rw [serverIdentifier_eq, h]
  match v, hl with
  | [], _ | [_], _ | [_, _], _ | [_, _, _], _ | _ :: _ :: _ :: _ :: _ :: _, _ => rfl
  | [_, _, _, _], hl => exact absurd rfl hl

theorem serverIdentifier_of_absent {p : Pkt4} (h : p.opts.get optServerID = none) :
    serverIdentifier p = none := by
  rw [serverIdentifier_eq, h]

/-- the accessor's result is nil or four bytes long -/
theorem serverIdentifier_cases (p : Pkt4) :
    serverIdentifier p = none ∨
      ∃ v, serverIdentifier p = some v ∧ v.length = 4 ∧ p.opts.get optServerID = some v := by
  rw [serverIdentifier_eq]
  cases h : p.opts.get optServerID with
  | none => exact .inl rfl
  | some v =>
    match v with
    | [] | [_] | [_, _] | [_, _, _] | _ :: _ :: _ :: _ :: _ :: _ => exact .inl rfl
    | [a, b, c, d] => exact .inr ⟨[a, b, c, d], rfl, rfl, rfl⟩

/-! ### `net.IP.Equal` -/

theorem ipEqual_nil_nil : ipEqual none none = true := by decide

theorem ipEqual_refl (ip : IP) : ipEqual ip ip = true := by
  unfold ipEqual; simp

/-- equal lengths: bytewise -/
theorem ipEqual_same_len {a b : Bytes} (h : a.length = b.length) :
    ipEqual (some a) (some b) = true ↔ a = b := by
  unfold ipEqual; simp [h]

/-- a non-empty address never equals nil -/
theorem ipEqual_some_none {a : Bytes} (h : a.length = 4) : ipEqual (some a) none = false := by
  unfold ipEqual; simp [h]

theorem ipEqual_none_some {a : Bytes} (h : a.length = 4) : ipEqual none (some a) = false := by
  unfold ipEqual; simp [h]

/-- the 4-byte form equals the 16-byte IPv4-mapped form and nothing else of 16 bytes -/
theorem ipEqual_4_16 {a b : Bytes} (ha : a.length = 4) (hb : b.length = 16) :
    ipEqual (some a) (some b) = true ↔ b = v4InV6Prefix ++ a := by
  unfold ipEqual
  simp only [Option.getD_some, ha, hb]
  simp only [show (4 : Nat) = 16 ↔ False by decide, if_false, and_self, if_true, Bool.and_eq_true, beq_iff_eq]
  constructor
  · rintro ⟨h1, h2⟩
    rw [← List.take_append_drop 12 b, h1, h2]
  · intro h
    subst h
    have : v4InV6Prefix.length = 12 := by decide
    simp [this]

/-! ### the matcher of `RequestFromOffer` / `Renew` -/

/-- the test of the property text: message type ACK or NAK and a server
identifier `Equal` to the offer's -/
def Completes (offer p : Pkt4) : Prop :=
  (messageType p = mtAck ∨ messageType p = mtNak) ∧
    ipEqual (serverIdentifier p) (serverIdentifier offer) = true

instance (offer p : Pkt4) : Decidable (Completes offer p) := by unfold Completes; infer_instance

theorem isMessageType_iff (t : UInt8) (tt : List UInt8) (p : Pkt4) :
    isMessageType t tt p = true ↔ messageType p = t ∨ messageType p ∈ tt := by
  unfold isMessageType
  simp [List.any_eq_true]

theorem ackNakMatcher_iff (offer p : Pkt4) : ackNakMatcher offer p = true ↔ Completes offer p := by
  unfold ackNakMatcher isAll Completes
  simp only [List.all_cons, List.all_nil, Bool.and_true, Bool.and_eq_true, isMessageType_iff,
    isCorrectServer, List.mem_singleton]
  exact And.comm

theorem offerMatcher_iff (p : Pkt4) : offerMatcher p = true ↔ messageType p = mtOffer := by
  unfold offerMatcher
  simp [isMessageType_iff]

/-! ### the abstract call -/

theorem sendAndRead_some_iff (stream : List Pkt4) (m : Matcher) (r : Pkt4) :
    sendAndRead stream m = some r ↔
      m r = true ∧ ∃ pre post, stream = pre ++ r :: post ∧ ∀ q ∈ pre, m q = false := by
  unfold sendAndRead
  rw [List.find?_eq_some_iff_append]
  simp

theorem sendAndRead_none_iff (stream : List Pkt4) (m : Matcher) :
    sendAndRead stream m = none ↔ ∀ q ∈ stream, m q = false := by
  unfold sendAndRead
  simp

theorem sendAndRead_append (pre post : List Pkt4) (m : Matcher) (r : Pkt4) (hr : m r = true)
    (hpre : ∀ q ∈ pre, m q = false) : sendAndRead (pre ++ r :: post) m = some r :=
  (sendAndRead_some_iff _ _ _).2 ⟨hr, pre, post, rfl, hpre⟩

/-! ### `completion` -/

theorem completion_lease_iff (offer : Pkt4) (ans : Option Pkt4) (o a : Pkt4) :
    completion offer ans = .lease o a ↔ o = offer ∧ ans = some a ∧ messageType a ≠ mtNak := by
  unfold completion
  cases ans with
  | none => simp
  | some r =>
    by_cases h : messageType r = mtNak
    · simp [h]
      intro _ h2; subst h2; exact h
    · simp [h]
      constructor
      · rintro ⟨rfl, rfl⟩; exact ⟨rfl, rfl, h⟩
      · rintro ⟨rfl, rfl, _⟩; exact ⟨rfl, rfl⟩

theorem completion_nak_iff (offer : Pkt4) (ans : Option Pkt4) (o n : Pkt4) :
    completion offer ans = .errNak o n ↔ o = offer ∧ ans = some n ∧ messageType n = mtNak := by
  unfold completion
  cases ans with
  | none => simp
  | some r =>
    by_cases h : messageType r = mtNak
    · simp [h]
      constructor
      · rintro ⟨rfl, rfl⟩; exact ⟨rfl, rfl, h⟩
      · rintro ⟨rfl, rfl, _⟩; exact ⟨rfl, rfl⟩
    · simp [h]
      intro _ h2; subst h2; exact h

theorem completion_none_iff (offer : Pkt4) (ans : Option Pkt4) :
    completion offer ans = .errNoResponse ↔ ans = none := by
  unfold completion
  cases ans with
  | none => simp
  | some r => by_cases h : messageType r = mtNak <;> simp [h]

/-! ### the maximum-message-size modifier and `NoWrite` -/

theorem noWrite_mms {user : List Modifier} {f : Field} (h : NoWrite user f)
    (hf : f ≠ .opt optMaxMsgSize) : NoWrite (prependModifiers user [mmsMod]) f := by
  intro m hm
  simp only [prependModifiers, List.singleton_append, List.mem_cons] at hm
  rcases hm with rfl | hm
  · cases f <;> simp [mmsMod, Modifier.writes, OptVal.code] at hf ⊢
    intro h; exact hf (h ▸ rfl)
  · exact h m hm

/-- the client's maximum-message-size option survives every user modifier list
that does not write option 57 (any builder) -/
theorem build_mms (b : Builder) (xid : Bytes) (user : List Modifier)
    (h : NoWrite user (.opt optMaxMsgSize)) :
    (build b xid (prependModifiers user [mmsMod])).opts.get optMaxMsgSize = some [5, 220] := by
  rw [build_eq]
  have hp : prependModifiers user [mmsMod] = [mmsMod] ++ user := rfl
  rw [hp, applyAll_append]
  have := applyAll_frame user (.opt optMaxMsgSize) h (applyAll [mmsMod] (build b xid []))
  simp only [Pkt4.field, FieldVal.optv.injEq] at this
  rw [this]
  simp [applyAll, apply, mmsMod, setOpt, OptVal.code, OptVal.bytes, maxMessageSize]
  decide

end Dhcp.Client.Lease

import DhcpProofs.Lemmas.V6BuildMsg
import DhcpProofs.Lemmas.V6Parse
/- Helper lemmas for C16: what `Options.Update / Add / Del` do to an option list,
typedness of the identity-association codes (what the unchecked assertions of
`MessageOptions.IANA / IATA / IAPD` need), and that decoding guarantees it. -/
namespace Dhcp.V6
open Dhcp Dhcp.Spec

/-! ### `Options.GetOne` / `Options.Get` by position -/

theorem getOne_eq_none_iff {c : Nat} {os : List Opt6} :
    getOne c os = none ↔ ∀ o ∈ os, o.code ≠ c := by
  unfold getOne
  rw [List.find?_eq_none]
  constructor
  · intro h o ho hc; exact h o ho (by simpa using hc)
  · intro h o ho hc; exact h o ho (by simpa using hc)

/-- the first option with code `c` sits behind a prefix without that code -/
theorem getOne_of_split {c : Nat} {pre post : List Opt6} {x : Opt6}
    (hpre : ∀ y ∈ pre, y.code ≠ c) (hx : x.code = c) : getOne c (pre ++ x :: post) = some x := by
  induction pre with
  | nil => simp [getOne_cons, hx]
  | cons y ys ih =>
    have hy : y.code ≠ c := hpre y (List.mem_cons_self ..)
    rw [List.cons_append, getOne_cons, if_neg hy]
    exact ih (fun z hz => hpre z (List.mem_cons_of_mem _ hz))

theorem getOne_split {c : Nat} {os : List Opt6} {x : Opt6} (h : getOne c os = some x) :
    ∃ pre post, os = pre ++ x :: post ∧ (∀ y ∈ pre, y.code ≠ c) ∧ x.code = c := by
  induction os with
  | nil => simp at h
  | cons y ys ih =>
    rw [getOne_cons] at h
    by_cases hy : y.code = c
    · rw [if_pos hy] at h
      cases h
      exact ⟨[], ys, rfl, ⟨(fun z hz => nomatch hz), hy⟩⟩
    · rw [if_neg hy] at h
      obtain ⟨pre, post, rfl, hpre, hx⟩ := ih h
      refine ⟨y :: pre, post, rfl, ?_, hx⟩
      intro z hz
      rcases List.mem_cons.mp hz with rfl | hz
      · exact hy
      · exact hpre z hz

theorem get_cons (c : Nat) (o : Opt6) (os : List Opt6) :
    get c (o :: os) = if o.code = c then o :: get c os else get c os := by
  unfold get
  by_cases h : o.code = c <;> simp [List.filter_cons, h]

theorem get_append (c : Nat) (xs ys : List Opt6) : get c (xs ++ ys) = get c xs ++ get c ys := by
  unfold get; exact List.filter_append ..

theorem get_eq_nil_of {c : Nat} {os : List Opt6} (h : ∀ y ∈ os, y.code ≠ c) : get c os = [] := by
  unfold get
  rw [List.filter_eq_nil_iff]
  intro y hy hc
  exact h y hy (by simpa using hc)

/-! ### `Options.Update(o)`: replace the FIRST option of that code, else append -/

theorem update_split {o x : Opt6} {pre post : List Opt6}
    (hpre : ∀ y ∈ pre, y.code ≠ o.code) (hx : x.code = o.code) :
    update o (pre ++ x :: post) = pre ++ o :: post := by
  induction pre with
  | nil => simp [update, hx]
  | cons y ys ih =>
    have hy : y.code ≠ o.code := hpre y (List.mem_cons_self ..)
    simp only [List.cons_append, update]
    rw [if_neg (by simpa using hy)]
    rw [ih (fun z hz => hpre z (List.mem_cons_of_mem _ hz))]

theorem getOne_update_self (o : Opt6) (os : List Opt6) : getOne o.code (update o os) = some o := by
  cases h : getOne o.code os with
  | none =>
    rw [update_of_getOne_none h, getOne_append, h]
    simp [getOne_cons]
  | some x =>
    obtain ⟨pre, post, rfl, hpre, hx⟩ := getOne_split h
    rw [update_split hpre hx]
    exact getOne_of_split hpre rfl

theorem get_update_other {c : Nat} (o : Opt6) (os : List Opt6) (hc : o.code ≠ c) :
    get c (update o os) = get c os := by
  induction os with
  | nil => simp [update, get_cons, hc, get]
  | cons x xs ih =>
    simp only [update]
    split
    · next hx =>
      have hx' : x.code = o.code := by simpa using hx
      rw [get_cons, get_cons, if_neg hc, if_neg (by rw [hx']; exact hc)]
    · rw [get_cons, get_cons, ih]

theorem getOne_update_other {c : Nat} (o : Opt6) (os : List Opt6) (hc : o.code ≠ c) :
    getOne c (update o os) = getOne c os := by
  rw [← get_head?, ← get_head?, get_update_other o os hc]

/-- the options carrying the updated code afterwards: the new one in first
place, every LATER option of that code kept -/
theorem get_update_self (o : Opt6) (os : List Opt6) :
    get o.code (update o os) = o :: (get o.code os).tail := by
  cases h : getOne o.code os with
  | none =>
    have hn := getOne_eq_none_iff.mp h
    rw [update_of_getOne_none h, get_append, get_eq_nil_of hn]
    simp [get_cons, get]
  | some x =>
    obtain ⟨pre, post, rfl, hpre, hx⟩ := getOne_split h
    rw [update_split hpre hx, get_append, get_append, get_eq_nil_of hpre, get_cons, get_cons,
      if_pos rfl, if_pos hx]
    rfl

theorem update_length (o : Opt6) (os : List Opt6) :
    (update o os).length = if (getOne o.code os).isSome then os.length else os.length + 1 := by
  cases h : getOne o.code os with
  | none => rw [update_of_getOne_none h]; simp
  | some x =>
    obtain ⟨pre, post, rfl, hpre, hx⟩ := getOne_split h
    rw [update_split hpre hx]; simp

/-! ### `Options.Del(code)` -/

theorem mem_del {c : Nat} {os : List Opt6} {o : Opt6} : o ∈ del c os ↔ o ∈ os ∧ o.code ≠ c := by
  unfold del
  rw [List.mem_filter]
  simp

theorem get_del_self (c : Nat) (os : List Opt6) : get c (del c os) = [] :=
  get_eq_nil_of (fun _ hy => (mem_del.mp hy).2)

theorem get_del_other {c d : Nat} (os : List Opt6) (h : d ≠ c) : get d (del c os) = get d os := by
  induction os with
  | nil => rfl
  | cons x xs ih =>
    unfold del at ih ⊢
    by_cases hx : x.code = c
    · have : ¬ x.code = d := by rw [hx]; exact fun e => h e.symm
      simp only [List.filter_cons, hx, bne_self_eq_false, Bool.false_eq_true, if_false]
      rw [ih, get_cons, if_neg this]
    · have : (x.code != c) = true := by simpa using hx
      simp only [List.filter_cons, this, if_true]
      rw [get_cons, get_cons, ih]

theorem del_sublist (c : Nat) (os : List Opt6) : (del c os).Sublist os := List.filter_sublist

theorem del_of_absent {c : Nat} {os : List Opt6} (h : getOne c os = none) : del c os = os := by
  unfold del
  rw [List.filter_eq_self]
  intro o ho
  simpa using getOne_eq_none_iff.mp h o ho

theorem del_append (c : Nat) (xs ys : List Opt6) : del c (xs ++ ys) = del c xs ++ del c ys := by
  unfold del; exact List.filter_append ..

/-! ### message-level wrappers -/

/-- the message with another option list (header kept) -/
def Msg6.withOpts : Msg6 → List Opt6 → Msg6
  | .relay t h l p _, os => .relay t h l p os
  | .msg t x _, os => .msg t x os

theorem updateOption_eq (m : Msg6) (o : Opt6) : m.updateOption o = m.withOpts (update o m.opts) := by
  cases m <;> rfl

theorem addOption_eq (m : Msg6) (o : Opt6) : m.addOption o = m.withOpts (m.opts ++ [o]) := by
  cases m <;> rfl

theorem delOption_eq (m : Msg6) (c : Nat) : m.delOption c = m.withOpts (del c m.opts) := by
  cases m <;> rfl

@[simp] theorem withOpts_opts (m : Msg6) (os : List Opt6) : (m.withOpts os).opts = os := by
  cases m <;> rfl

@[simp] theorem withOpts_typ (m : Msg6) (os : List Opt6) : (m.withOpts os).typ = m.typ := by
  cases m <;> rfl

@[simp] theorem withOpts_isRelay (m : Msg6) (os : List Opt6) : (m.withOpts os).isRelay = m.isRelay := by
  cases m <;> rfl

/-! ### typedness of the identity-association codes -/

/-- every option carrying code `c` has the dynamic type `p` tests for -/
def CodeTyped (c : Nat) (p : Opt6 → Bool) (os : List Opt6) : Prop := ∀ o ∈ os, o.code = c → p o = true

theorem IANATyped_iff (os : List Opt6) : IANATyped os ↔ CodeTyped ocIANA Opt6.isIANA os := Iff.rfl

theorem all_get_iff (c : Nat) (p : Opt6 → Bool) (os : List Opt6) :
    (get c os).all p = true ↔ CodeTyped c p os := by
  rw [List.all_eq_true]
  unfold get CodeTyped
  constructor
  · intro h o ho hc
    exact h o (List.mem_filter.mpr ⟨ho, by simpa using hc⟩)
  · intro h o ho
    rw [List.mem_filter] at ho
    exact h o ho.1 (by simpa using ho.2)

theorem oneIATAOf_typed {os : List Opt6} (h : CodeTyped ocIATA Opt6.isIATA os) :
    oneIATAOf os = .ok (getOne ocIATA os) := by
  have := (all_get_iff ocIATA Opt6.isIATA os).mpr h
  simp [oneIATAOf, iatasOf, this, Res.map, Res.bind, get_head?]

theorem oneIATAOf_untyped {os : List Opt6} (h : ¬ CodeTyped ocIATA Opt6.isIATA os) :
    oneIATAOf os = .panic := by
  have : ¬ (get ocIATA os).all Opt6.isIATA = true := fun e => h ((all_get_iff _ _ _).mp e)
  simp [oneIATAOf, iatasOf, this, Res.map, Res.bind]

theorem oneIAPDOf_typed {os : List Opt6} (h : CodeTyped ocIAPD Opt6.isIAPD os) :
    oneIAPDOf os = .ok (getOne ocIAPD os) := by
  have := (all_get_iff ocIAPD Opt6.isIAPD os).mpr h
  simp [oneIAPDOf, iapdsOf, this, Res.map, Res.bind, get_head?]

theorem oneIAPDOf_untyped {os : List Opt6} (h : ¬ CodeTyped ocIAPD Opt6.isIAPD os) :
    oneIAPDOf os = .panic := by
  have : ¬ (get ocIAPD os).all Opt6.isIAPD = true := fun e => h ((all_get_iff _ _ _).mp e)
  simp [oneIAPDOf, iapdsOf, this, Res.map, Res.bind]

theorem CodeTyped_split {c : Nat} {p : Opt6 → Bool} {pre post : List Opt6} {x : Opt6}
    (h : CodeTyped c p (pre ++ x :: post)) : p x = true ∨ x.code ≠ c := by
  by_cases hx : x.code = c
  · exact .inl (h x (by simp) hx)
  · exact .inr hx

/-- what the grammar of decoded option values says about the three codes: they
are carried by their own option types only -/
theorem POpt_iaTyped {c : Nat} {v : Bytes} {o : Opt6} (h : POpt c v o) :
    (o.code = ocIANA → o.isIANA = true) ∧ (o.code = ocIATA → o.isIATA = true) ∧
    (o.code = ocIAPD → o.isIAPD = true) := by
  have hc := POpt_code h
  cases h with
  | leaf hn _ =>
    refine ⟨?_, ?_, ?_⟩ <;> intro e <;> rw [hc] at e <;> subst e <;>
      exact absurd (by decide) hn
  | iana => exact ⟨fun _ => rfl, by simp [Opt6.code, ocIATA], by simp [Opt6.code, ocIAPD]⟩
  | iata => exact ⟨by simp [Opt6.code, ocIANA], fun _ => rfl, by simp [Opt6.code, ocIAPD]⟩
  | iapd => exact ⟨by simp [Opt6.code, ocIANA], by simp [Opt6.code, ocIATA], fun _ => rfl⟩
  | _ => simp [Opt6.code, ocIANA, ocIATA, ocIAPD]

theorem POpts_iaTyped {d : Bytes} {os : List Opt6} (h : POpts d os) :
    CodeTyped ocIANA Opt6.isIANA os ∧ CodeTyped ocIATA Opt6.isIATA os ∧
    CodeTyped ocIAPD Opt6.isIAPD os := by
  have key : ∀ o ∈ os, ∃ c v, POpt c v o := by
    have := Tiles_of_POpts h
    clear h
    intro o ho
    induction this with
    | nil => cases ho
    | cons _ _ hp _ ih =>
      rcases List.mem_cons.mp ho with rfl | ho
      · exact ⟨_, _, hp⟩
      · exact ih ho
  refine ⟨?_, ?_, ?_⟩ <;> intro o ho hc <;> obtain ⟨c, v, hp⟩ := key o ho
  · exact (POpt_iaTyped hp).1 hc
  · exact (POpt_iaTyped hp).2.1 hc
  · exact (POpt_iaTyped hp).2.2 hc

/-- the top-level options of every decoded message carry the IA_NA / IA_TA /
IA_PD codes in their own option types only -/
theorem dec6_iaTyped {b : Bytes} {m : Msg6} (h : dec6 b = .ok m) :
    CodeTyped ocIANA Opt6.isIANA m.opts ∧ CodeTyped ocIATA Opt6.isIATA m.opts ∧
    CodeTyped ocIAPD Opt6.isIAPD m.opts := by
  have hp := (dec6_iff b m).mp h
  cases hp with
  | msg _ _ ho => exact POpts_iaTyped ho
  | relay _ _ _ ho => exact POpts_iaTyped ho

end Dhcp.V6

import DhcpProofs.Lemmas.RawWrite
/-
  The frame `frameOf` read back through the specification's accessors
  (RFC 791 / RFC 768 fields) and checked with the specification's checksum.
-/
namespace Dhcp.Raw
open Dhcp Dhcp.Spec.Inet

theorem hdrAddr_cases (ip : GoIP) : ∃ a b c d, hdrAddr ip = [a, b, c, d] := by
  unfold hdrAddr
  rcases to4_cases ip with h | ⟨a, b, c, d, h⟩
  · exact ⟨0, 0, 0, 0, by simp [h]⟩
  · exact ⟨a, b, c, d, by simp [h]⟩

theorem hi_lo_word {v : Nat} (h : v < 65536) : v / 256 % 256 * 256 + v % 256 = v := by omega

theorem compl16_lt (x : Nat) : compl16 x < 65536 := by simp only [compl16, u16]; omega

theorem frameOf_length (p : Bytes) (dst src : Addr) : (frameOf p dst src).length = 28 + p.length := by
  simp [frameOf, hdrAddr_length]; omega

/-- header fields of the emitted frame -/
theorem frameOf_fields (p : Bytes) (dst src : Addr) (hp : 28 + p.length ≤ 65535) :
    let f := frameOf p dst src
    version f = 4 ∧ ihl f = 5 ∧ hdrLen f = 20 ∧ totalLen f = 28 + p.length ∧ wordAt f 4 = 0 ∧ flagsFrag f = 0 ∧
    byteAt f 1 = 0 ∧ ttl f = 64 ∧ proto f = 17 ∧ hdrChecksum f = ipCk p dst src ∧
    srcAddr f = hdrAddr src.ip ∧ dstAddr f = hdrAddr dst.ip := by
  obtain ⟨s0, s1, s2, s3, hs⟩ := hdrAddr_cases src.ip
  obtain ⟨d0, d1, d2, d3, hd⟩ := hdrAddr_cases dst.ip
  have t : u16 (28 + p.length) = 28 + p.length := by simp only [u16]; omega
  simp [frameOf, version, ihl, hdrLen, totalLen, flagsFrag, ttl, proto, hdrChecksum, srcAddr, dstAddr, wordAt,
    byteAt, be16, hs, hd, t, ipCk]
  exact ⟨hi_lo_word (by omega), hi_lo_word (compl16_lt _)⟩

/-- the IP payload of the emitted frame is the UDP header followed by the
payload, nothing else -/
theorem frameOf_ipPayload (p : Bytes) (dst src : Addr) (hp : 28 + p.length ≤ 65535) :
    ipPayload (frameOf p dst src) =
      be16 (u16 src.port) ++ be16 (u16 dst.port) ++ be16 (8 + p.length) ++ be16 (udpCk p dst src) ++ p := by
  obtain ⟨_, _, h20, htl, _⟩ := frameOf_fields p dst src hp
  have hl := frameOf_length p dst src
  rw [ipPayload, htl, h20, List.take_of_length_le (by omega)]
  obtain ⟨s0, s1, s2, s3, hs⟩ := hdrAddr_cases src.ip
  obtain ⟨d0, d1, d2, d3, hd⟩ := hdrAddr_cases dst.ip
  have t : u16 (8 + p.length) = 8 + p.length := by simp only [u16]; omega
  simp [frameOf, be16, hs, hd, t]

theorem frameOf_udp (p : Bytes) (dst src : Addr) (hp : 28 + p.length ≤ 65535) :
    let f := frameOf p dst src
    srcPort f = u16 src.port ∧ dstPort f = u16 dst.port ∧ udpLen f = 8 + p.length ∧
    udpChecksum f = udpCk p dst src ∧ udpData f = p := by
  simp [srcPort, dstPort, udpLen, udpChecksum, udpData, frameOf_ipPayload p dst src hp, wordAt, byteAt, be16,
    udpCk]
  exact ⟨hi_lo_word (u16_lt _), hi_lo_word (u16_lt _), hi_lo_word (by omega), hi_lo_word (compl16_lt _)⟩

end Dhcp.Raw

import Dhcp.Label
/-
  Lemmas about the model of `labelsFromBytes` (Dhcp/Label.lean):
  a suffix-based, panic-free reformulation `step'` of one loop iteration,
  absence of panics, termination (fuel sufficiency and irrelevance), and the
  `Runs` / `Reaches` vocabulary used by the soundness/completeness proofs.
-/
namespace Dhcp.Label
open Dhcp List

/-! ### Bit facts about the length octet -/

set_option maxRecDepth 100000 in
theorem and_c0_eq : ∀ n, n < 256 → ((n &&& 0xc0 = 0xc0) ↔ 192 ≤ n) := by decide
set_option maxRecDepth 100000 in
theorem and_c0_ne : ∀ n, n < 256 → ((n &&& 0xc0 ≠ 0) ↔ 64 ≤ n) := by decide
set_option maxRecDepth 100000 in
theorem and_3f : ∀ n, n < 256 → 192 ≤ n → (n &&& 0x3f = n - 192) := by decide

theorem ptr_mask (b : UInt8) (h : 192 ≤ b.toNat) : (b &&& 0x3f).toNat = b.toNat - 192 := by
  rw [UInt8.toNat_and]
  exact and_3f b.toNat b.toNat_lt h

/-! ### Positions and suffixes -/

theorem drop_cons_getElem? {buf : Bytes} {p : Nat} {b : UInt8} {t : Bytes}
    (h : buf.drop p = b :: t) : buf[p]? = some b := by
  have := List.getElem?_drop (xs := buf) (i := p) (j := 0)
  rw [h] at this; simpa using this.symm

theorem drop_cons_succ {buf : Bytes} {p : Nat} {b : UInt8} {t : Bytes}
    (h : buf.drop p = b :: t) : buf.drop (p + 1) = t := by
  have := List.drop_drop (i := 1) (j := p) (l := buf)
  rw [h] at this; simpa using this.symm

theorem drop_cons_length {buf : Bytes} {p : Nat} {b : UInt8} {t : Bytes}
    (h : buf.drop p = b :: t) : buf.length = p + 1 + t.length := by
  have := congrArg List.length h
  simp only [List.length_drop, List.length_cons] at this
  omega

theorem drop_add_of_append {buf : Bytes} {p : Nat} {l t : Bytes}
    (h : buf.drop p = l ++ t) : buf.drop (p + l.length) = t := by
  have := List.drop_drop (i := l.length) (j := p) (l := buf)
  rw [h] at this; simpa using this.symm

/-! ### One iteration, in terms of the unread suffix -/

/-- `label += "."` (unless empty) `; label += chunk` -/
def appendLabel (label chunk : Bytes) : Bytes :=
  if label ≠ [] then label ++ [46] ++ chunk else label ++ chunk

/-- `step` as a function of `buf.drop pos`; no index expression, hence no
panic branch. -/
def step' (buf : Bytes) (s : St) : Step :=
  match buf.drop s.pos with
  | [] =>
    if s.hp then .done .err
    else if s.label ≠ [] then .done (.ok (s.labels ++ [s.label]))
    else .done (.ok s.labels)
  | b :: t =>
    if b.toNat = 0 then
      if s.hp then
        .next { s with pos := s.oldPos, hp := false, label := [], labels := s.labels ++ [s.label] }
      else
        .next { s with pos := s.pos + 1, label := [], labels := s.labels ++ [s.label] }
    else if 192 ≤ b.toNat then
      if s.hp then .done .err
      else
        match t with
        | [] => .done .err
        | b1 :: _ =>
          .next { s with pos := (b.toNat - 192) * 256 + b1.toNat, oldPos := s.pos + 2, hp := true }
    else if 64 ≤ b.toNat then .done .err
    else if t.length < b.toNat then .done .err
    else
      if (appendLabel s.label (t.take b.toNat)).length > maxNameLength then .done .err
      else .next { s with pos := s.pos + 1 + b.toNat, label := appendLabel s.label (t.take b.toNat) }

theorem step_eq_step' (buf : Bytes) (s : St) : step buf s = step' buf s := by
  unfold step step' appendLabel
  cases h : buf.drop s.pos with
  | nil =>
    have hl : s.pos ≥ buf.length := List.drop_eq_nil_iff.mp h
    simp only [hl, if_true]
  | cons b t =>
    have hlen := drop_cons_length h
    have hb := drop_cons_getElem? h
    have ht := drop_cons_succ h
    have hnl : ¬ s.pos ≥ buf.length := by omega
    simp only [hnl, if_false, hb]
    by_cases hz : b.toNat = 0
    · simp only [hz, if_true]
    · simp only [hz, if_false]
      by_cases hp : 192 ≤ b.toNat
      · have h1 : b.toNat &&& 0xc0 = 0xc0 := (and_c0_eq b.toNat b.toNat_lt).mpr hp
        simp only [h1, hp, if_true]
        by_cases hhp : s.hp = true
        · simp only [hhp, if_true]
        · simp only [hhp]
          cases t with
          | nil =>
            have : s.pos + 1 + 1 > buf.length := by simp at hlen; omega
            simp only [this, if_true]
          | cons b1 t' =>
            have hn : ¬ s.pos + 1 + 1 > buf.length := by simp at hlen; omega
            have hb1 : buf[s.pos + 1]? = some b1 := drop_cons_getElem? ht
            simp only [hn, if_false, Nat.add_sub_cancel, hb, hb1, ptr_mask b hp]
      · have h1 : ¬ b.toNat &&& 0xc0 = 0xc0 := fun e => hp ((and_c0_eq b.toNat b.toNat_lt).mp e)
        simp only [h1, hp, if_false]
        by_cases hr : 64 ≤ b.toNat
        · have h2 : b.toNat &&& 0xc0 ≠ 0 := (and_c0_ne b.toNat b.toNat_lt).mpr hr
          simp only [h2, hr, if_true, ne_eq, not_false_eq_true]
        · have h2 : ¬ b.toNat &&& 0xc0 ≠ 0 := fun e => hr ((and_c0_ne b.toNat b.toNat_lt).mp e)
          simp only [h2, hr, if_false]
          by_cases ho : t.length < b.toNat
          · have : s.pos + 1 + b.toNat > buf.length := by omega
            simp only [this, ho, if_true]
          · have hn : ¬ s.pos + 1 + b.toNat > buf.length := by omega
            have hs : slice? buf (s.pos + 1) (s.pos + 1 + b.toNat) = some (t.take b.toNat) := by
              unfold slice?
              have : s.pos + 1 ≤ s.pos + 1 + b.toNat ∧ s.pos + 1 + b.toNat ≤ buf.length := by omega
              simp only [this, and_self, if_true, ht, Nat.add_sub_cancel_left]
            simp only [hn, ho, if_false, hs]

/-- No index or slice expression of `labelsFromBytes` can fail. -/
theorem step_ne_panic (buf : Bytes) (s : St) : step buf s ≠ .done .panic := by
  rw [step_eq_step']
  unfold step'
  repeat' split
  all_goals first | simp | (split <;> simp)

/-! ### The loop -/

theorem loop_succ (buf : Bytes) (f : Nat) (s : St) :
    loop buf (f + 1) s = match step buf s with
      | .done r => some r
      | .next s' => loop buf f s' := rfl

theorem loop_ne_panic (buf : Bytes) : ∀ (f : Nat) (s : St), loop buf f s ≠ some .panic := by
  intro f
  induction f with
  | zero => intro s; simp [loop]
  | succ f ih =>
    intro s
    rw [loop_succ]
    cases h : step buf s with
    | done r =>
      simp only
      intro e
      have : r = .panic := by injection e
      exact step_ne_panic buf s (this ▸ h)
    | next s' => exact ih s'

/-- Fuel monotonicity: a result, once produced, is produced with any more fuel. -/
theorem loop_mono (buf : Bytes) : ∀ (f k : Nat) (s : St) (r : Res (List Bytes)),
    loop buf f s = some r → loop buf (f + k) s = some r := by
  intro f
  induction f with
  | zero => intro k s r h; simp [loop] at h
  | succ f ih =>
    intro k s r h
    rw [Nat.add_right_comm, loop_succ]
    rw [loop_succ] at h
    cases hs : step buf s with
    | done r' => rw [hs] at h; exact h
    | next s' => rw [hs] at h; exact ih k s' r h

/-- Number of iterations that certainly suffice from state `s`. -/
def measure (buf : Bytes) (s : St) : Nat :=
  if s.hp then (buf.length - s.oldPos) * (buf.length + 2) + 1 + (buf.length - s.pos) + 1
  else (buf.length - s.pos) * (buf.length + 2) + 1

theorem step_measure (buf : Bytes) (s s' : St) (h : step buf s = .next s') :
    measure buf s' + 1 ≤ measure buf s := by
  rw [step_eq_step'] at h
  unfold step' at h
  cases hd : buf.drop s.pos with
  | nil => rw [hd] at h; simp only at h; repeat' split at h
           all_goals simp at h
  | cons b t =>
    have hlen := drop_cons_length hd
    rw [hd] at h
    simp only at h
    generalize hK : buf.length + 2 = K
    have hK2 : buf.length + 2 ≤ K := by omega
    split at h
    · split at h
      · rename_i hhp
        injection h with h; subst h
        simp only [measure, hhp, if_true]; simp; try omega
      · rename_i hhp
        injection h with h; subst h
        have hhp' : s.hp = false := by simpa using hhp
        simp only [measure, hhp', hK]; simp
        have : buf.length - s.pos = (buf.length - (s.pos + 1)) + 1 := by omega
        rw [this, Nat.add_mul]; omega
    · split at h
      · split at h
        · simp at h
        · rename_i hhp
          have hhp' : s.hp = false := by simpa using hhp
          cases t with
          | nil => simp at h
          | cons b1 t' =>
            simp only at h
            injection h with h; subst h
            simp only [measure, hhp', hK]; simp
            simp at hlen
            have : buf.length - s.pos = (buf.length - (s.pos + 2)) + 2 := by omega
            rw [this, Nat.add_mul]; omega
      · split at h
        · simp at h
        · split at h
          · simp at h
          · split at h
            · simp at h
            · injection h with h; subst h
              simp only [measure, hK]
              cases hhp : s.hp
              · simp
                have : buf.length - s.pos = (buf.length - (s.pos + 1 + b.toNat)) + (1 + b.toNat) := by omega
                rw [this, Nat.add_mul]
                generalize (buf.length - (s.pos + 1 + b.toNat)) * K = X
                have : 1 * K ≤ (1 + b.toNat) * K := Nat.mul_le_mul_right K (by omega)
                omega
              · simp; omega

/-- Fuel sufficiency: `measure` iterations always produce a result. -/
theorem loop_terminates (buf : Bytes) : ∀ (f : Nat) (s : St), measure buf s ≤ f →
    ∃ r, loop buf f s = some r := by
  intro f
  induction f with
  | zero =>
    intro s h
    exfalso
    unfold measure at h
    split at h <;> omega
  | succ f ih =>
    intro s h
    rw [loop_succ]
    cases hs : step buf s with
    | done r => exact ⟨r, rfl⟩
    | next s' =>
      have := step_measure buf s s' hs
      exact ih s' (by omega)

theorem measure_init_le (buf : Bytes) : measure buf init ≤ fuelFor buf := by
  simp only [measure, init, fuelFor]
  simp
  generalize buf.length = n
  rw [Nat.add_mul]
  omega

/-! ### `Runs`: results independent of fuel -/

/-- the loop started in `s` returns `r` (with some, hence any larger, fuel) -/
def Runs (buf : Bytes) (s : St) (r : Res (List Bytes)) : Prop := ∃ f, loop buf f s = some r

theorem Runs.det {buf : Bytes} {s : St} {r1 r2 : Res (List Bytes)}
    (h1 : Runs buf s r1) (h2 : Runs buf s r2) : r1 = r2 := by
  obtain ⟨f1, h1⟩ := h1
  obtain ⟨f2, h2⟩ := h2
  have a := loop_mono buf f1 f2 s r1 h1
  have b := loop_mono buf f2 f1 s r2 h2
  rw [Nat.add_comm] at b
  rw [a] at b
  injection b

theorem Runs.of_done {buf : Bytes} {s : St} {r : Res (List Bytes)} (h : step buf s = .done r) :
    Runs buf s r := ⟨1, by rw [loop_succ, h]⟩

theorem Runs.of_next {buf : Bytes} {s s' : St} {r : Res (List Bytes)} (h : step buf s = .next s')
    (hr : Runs buf s' r) : Runs buf s r := by
  obtain ⟨f, hf⟩ := hr
  exact ⟨f + 1, by rw [loop_succ, h]; exact hf⟩

theorem Runs.next_inv {buf : Bytes} {s s' : St} {r : Res (List Bytes)} (h : step buf s = .next s')
    (hr : Runs buf s r) : Runs buf s' r := by
  obtain ⟨f, hf⟩ := hr
  cases f with
  | zero => simp [loop] at hf
  | succ f => rw [loop_succ, h] at hf; exact ⟨f, hf⟩

theorem labelsFromBytes_eq_of_runs {buf : Bytes} {r : Res (List Bytes)} (h : Runs buf init r) :
    labelsFromBytes buf = r := by
  obtain ⟨r', hr'⟩ := loop_terminates buf (fuelFor buf) init (measure_init_le buf)
  have : r' = r := Runs.det ⟨_, hr'⟩ h
  unfold labelsFromBytes
  rw [hr', this]

theorem runs_of_labelsFromBytes (buf : Bytes) : Runs buf init (labelsFromBytes buf) := by
  obtain ⟨r', hr'⟩ := loop_terminates buf (fuelFor buf) init (measure_init_le buf)
  refine ⟨fuelFor buf, ?_⟩
  unfold labelsFromBytes
  rw [hr']

end Dhcp.Label

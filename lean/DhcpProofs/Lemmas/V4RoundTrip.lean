import Dhcp.V4.Domain
import DhcpProofs.Lemmas.V4Dec
/- Assembly of the C01 round trip from the header layout and option lemmas. -/
namespace Dhcp.V4
open Dhcp List

theorem to4_length {b v : Bytes} (h : to4 b = some v) : v.length = 4 := by
  unfold to4 at h
  split at h
  · next h4 => simp at h; subst h; exact h4
  · split at h
    · next h16 => simp at h; subst h; simp; omega
    · simp at h

theorem ip4_length (ip : IP) (h : ipOK ip) : (ip4 ip).length = 4 := by
  cases ip with
  | none => simp [ip4]
  | some b =>
    simp only [ipOK] at h
    cases hb : to4 b with
    | none => simp [hb] at h
    | some v => simp [ip4, hb, to4_length hb]

theorem writeIP_ok (ip : IP) (h : ipOK ip) : writeIP ip = .ok (ip4 ip) := by
  cases ip with
  | none => rfl
  | some b =>
    simp only [ipOK] at h
    cases hb : to4 b with
    | none => simp [hb] at h
    | some v =>
      have := to4_length hb
      simp [writeIP, ip4, hb, List.take_of_length_le (Nat.le_of_eq this)]

theorem writeIP_not_err (ip : IP) : writeIP ip ≠ .err := by
  cases ip with
  | none => simp [writeIP]
  | some b => simp only [writeIP]; cases to4 b <;> simp

theorem writeIP_panic_iff (ip : IP) : writeIP ip = .panic ↔ ¬ ipOK ip := by
  cases ip with
  | none => simp [writeIP, ipOK]
  | some b => simp only [writeIP, ipOK]; cases to4 b <;> simp

theorem zeros_succ (n : Nat) : zeros (n + 1) = 0 :: zeros n := by simp [zeros, List.replicate_succ]

theorem zeros_append_zero (n : Nat) : zeros n ++ [0] = 0 :: zeros n := by
  induction n with
  | zero => rfl
  | succ n ih => rw [zeros_succ, List.cons_append, ih]

theorem cutNul_append_zero (s t : Bytes) (h : ∀ b ∈ s, b ≠ 0) : cutNul (s ++ 0 :: t) = s := by
  induction s with
  | nil => simp [cutNul]
  | cons a s ih =>
    have ha : a ≠ 0 := h a (by simp)
    simp only [cutNul, List.cons_append, List.takeWhile_cons, bne_iff_ne, ne_eq, ha,
      not_false_eq_true, if_true, List.cons.injEq, true_and] at ih ⊢
    simpa [cutNul] using ih (fun b hb => h b (by simp [hb]))

theorem cutNul_name (n : Nat) (s : Bytes) (hl : s.length ≤ n) (h : ∀ b ∈ s, b ≠ 0) :
    cutNul (copyInto n s ++ [0]) = s := by
  rw [copyInto_of_le hl, List.append_assoc, zeros_append_zero]
  exact cutNul_append_zero s _ h

theorem take_copyInto (n : Nat) (s : Bytes) (hl : s.length ≤ n) : (copyInto n s).take s.length = s := by
  rw [copyInto_of_le hl]; simp

theorem nameField_length (cap : Nat) (s : Bytes) (h : 0 < cap) : (nameField cap s).length = cap := by
  simp [nameField, copyInto_length]; omega

theorem cutNul_nameField (cap : Nat) (s : Bytes) (hl : s.length ≤ cap - 1) (h : ∀ b ∈ s, b ≠ 0) :
    cutNul (nameField cap s) = s := cutNul_name (cap - 1) s hl h

/-- shape of the encoder's output on the domain, in right-nested form -/
theorem enc4_ok (p : Pkt4) (h : Encodable p) :
    ∃ pad, enc4 p = .ok (p.op :: UInt8.ofNat p.htype :: UInt8.ofNat p.hw.length :: p.hops ::
      (copyInto 4 p.xid ++ (be16 p.secs ++ (be16 p.flags ++ (ip4 p.ciaddr ++ (ip4 p.yiaddr ++
      (ip4 p.siaddr ++ (ip4 p.giaddr ++ (copyInto chaddrLen p.hw ++ (nameField snameCap p.sname ++
      (nameField fileCap p.file ++ (magicCookie ++ (marshalOpts p.opts ++ optEnd :: zeros pad)))))))))))))
      := by
  simp only [enc4, writeIP_ok _ h.ci, writeIP_ok _ h.yi, writeIP_ok _ h.si, writeIP_ok _ h.gi, bind,
    Res.bind, pure]
  generalize (bootpMinLen - _) = pad
  refine ⟨pad, ?_⟩
  simp only [List.append_assoc, List.cons_append, List.nil_append]

theorem enc4_dec4 (p : Pkt4) (h : Encodable p) :
    ∃ b, enc4 p = .ok b ∧ dec4 b = .ok (norm p) := by
  obtain ⟨pad, hpad⟩ := enc4_ok p h
  refine ⟨_, hpad, ?_⟩
  rw [dec4_layout p.op (UInt8.ofNat p.htype) (UInt8.ofNat p.hw.length) p.hops (copyInto 4 p.xid)
    (ip4 p.ciaddr) (ip4 p.yiaddr) (ip4 p.siaddr) (ip4 p.giaddr) (copyInto chaddrLen p.hw)
    (nameField snameCap p.sname) (nameField fileCap p.file) magicCookie
    (marshalOpts p.opts ++ optEnd :: zeros pad) p.secs p.flags
    (copyInto_length 4 p.xid) h.secs h.flags (ip4_length _ h.ci) (ip4_length _ h.yi)
    (ip4_length _ h.si) (ip4_length _ h.gi) (copyInto_length _ _)
    (nameField_length _ _ (by decide)) (nameField_length _ _ (by decide)) (by decide)]
  simp only [ne_eq, not_true_eq_false, if_false]
  rw [optsFromBytes_eq]
  have hne : ¬ (marshalOpts p.opts ++ optEnd :: zeros pad).length = 0 := by simp
  rw [if_neg hne]
  obtain ⟨o', ho', hf⟩ := optsLoop'_marshal p.opts (zeros pad)
  simp only [Lexer.new, optEnd] at ho' ⊢
  rw [ho']
  have hopts : o' = p.opts := by
    apply Opts.ext'; intro k
    rw [hf k]
    by_cases hk : k ≠ 0 ∧ k ≠ 255
    · rw [if_pos hk]
    · rw [if_neg hk]
      by_cases h0 : k = 0
      · subst h0; exact h.no_pad.symm
      · have : k = 255 := by
          by_cases h255 : k = 255
          · exact h255
          · exact absurd ⟨h0, h255⟩ hk
        subst this; exact h.no_end.symm
  subst hopts
  have hhw : (UInt8.ofNat p.hw.length).toNat = p.hw.length :=
    UInt8.toNat_ofNat_lt (by have := h.hw; omega)
  have hht : (UInt8.ofNat p.htype).toNat = p.htype :=
    UInt8.toNat_ofNat_lt (by have := h.htype; omega)
  have hle : ¬ p.hw.length > 16 := by have := h.hw; omega
  simp only [Bool.not_true, Bool.false_and, Bool.false_eq_true, if_false, hhw, hht, hle, norm,
    chaddrLen, take_copyInto 16 p.hw h.hw, copyInto_of_length_eq h.xid,
    cutNul_nameField snameCap p.sname h.sname_len h.sname_nul,
    cutNul_nameField fileCap p.file h.file_len h.file_nul]

theorem enc4_panic_iff (p : Pkt4) :
    enc4 p = .panic ↔ ¬ (ipOK p.ciaddr ∧ ipOK p.yiaddr ∧ ipOK p.siaddr ∧ ipOK p.giaddr) := by
  simp only [enc4, bind, Res.bind, pure]
  have e1 := writeIP_panic_iff p.ciaddr
  have e2 := writeIP_panic_iff p.yiaddr
  have e3 := writeIP_panic_iff p.siaddr
  have e4 := writeIP_panic_iff p.giaddr
  have n1 := writeIP_not_err p.ciaddr
  have n2 := writeIP_not_err p.yiaddr
  have n3 := writeIP_not_err p.siaddr
  have n4 := writeIP_not_err p.giaddr
  cases h1 : writeIP p.ciaddr <;> cases h2 : writeIP p.yiaddr <;> cases h3 : writeIP p.siaddr <;>
    cases h4 : writeIP p.giaddr <;> simp_all

end Dhcp.V4

import Dhcp.Cost
import DhcpProofs.Lemmas.V4Parse
import DhcpProofs.Lemmas.V4Marshal
/-
  C09, DHCPv4 part: the retained size of a decoded packet is linear in the
  input.  RFC 3396 concatenation (`valueOf`) never duplicates a byte: every
  instance `(c, v)` of the options area contributes `|v|` bytes to exactly one
  map entry and creates at most one entry.
-/
namespace Dhcp.Cost
open Dhcp Dhcp.V4 Dhcp.Spec

/-! ### list-sum helpers (core only) -/

theorem sum_map_le_of_forall {α : Type} (L : List α) (f g : α → Nat)
    (h : ∀ k, k ∈ L → f k ≤ g k) : (L.map f).sum ≤ (L.map g).sum := by
  induction L with
  | nil => simp
  | cons x xs ih =>
    have hx := h x (List.mem_cons_self ..)
    have hxs := ih (fun k hk => h k (List.mem_cons_of_mem _ hk))
    simp only [List.map_cons, List.sum_cons]
    omega

theorem sum_map_zero {α : Type} (L : List α) : (L.map (fun _ => 0)).sum = 0 := by
  induction L with
  | nil => rfl
  | cons x xs ih => simp only [List.map_cons, List.sum_cons, ih]

/-- changing a function at one point of a Nodup list changes the sum by at most `d` -/
theorem sum_map_update_le {α : Type} (L : List α) (hL : L.Nodup) (f g : α → Nat) (c : α) (d : Nat)
    (hne : ∀ k, k ≠ c → f k ≤ g k) (hc : f c ≤ g c + d) :
    (L.map f).sum ≤ (L.map g).sum + d := by
  induction L with
  | nil => simp
  | cons x xs ih =>
    rw [List.nodup_cons] at hL
    simp only [List.map_cons, List.sum_cons]
    by_cases hx : x = c
    · subst hx
      have hxs : (xs.map f).sum ≤ (xs.map g).sum :=
        sum_map_le_of_forall xs f g (fun k hk => hne k (fun e => hL.1 (e ▸ hk)))
      omega
    · have h1 := hne x hx
      have h2 := ih hL.2
      omega

theorem mem_le_sum_map {α : Type} (L : List α) (f : α → Nat) (k : α) (hk : k ∈ L) :
    f k ≤ (L.map f).sum := by
  induction L with
  | nil => cases hk
  | cons x xs ih =>
    simp only [List.map_cons, List.sum_cons]
    rcases List.mem_cons.mp hk with e | e
    · subst e; omega
    · have := ih e; omega

/-! ### the options area -/

/-- total wire length of a well-formed run bounds its instances: 2 octets + value each -/
theorem runEnd_len {a : Bytes} {is : List (UInt8 × Bytes)} (h : RunEnd a is) :
    (is.map (fun i => 2 + i.2.length)).sum + 1 ≤ a.length := by
  induction h with
  | fin tail => simp
  | pad _ ih => simp only [List.length_cons]; omega
  | opt c len v _ _ _ _ ih =>
    simp only [List.map_cons, List.sum_cons, List.length_cons, List.length_append]
    omega

theorem area_len {a : Bytes} {is : List (UInt8 × Bytes)} (h : Area a is) :
    (is.map (fun i => 2 + i.2.length)).sum ≤ a.length := by
  rcases h with ⟨_, h2⟩ | h
  · subst h2; simp
  · have := runEnd_len h; omega

theorem valueOf_nil (k : UInt8) : valueOf [] k = none := by
  simp [valueOf]

theorem valueOf_cons (c : UInt8) (v : Bytes) (is : List (UInt8 × Bytes)) (k : UInt8) :
    valueOf ((c, v) :: is) k
      = if c = k then some (v ++ (valueOf is k).getD []) else valueOf is k := by
  unfold valueOf
  by_cases hck : c = k
  · subst hck
    cases hf : is.filter (fun i => decide (i.1 = c)) with
    | nil => simp [hf]
    | cons x xs => simp [hf]
  · have e : ((c, v) :: is).filter (fun i => decide (i.1 = k))
        = is.filter (fun i => decide (i.1 = k)) :=
      List.filter_cons_of_neg (by simpa using hck)
    rw [e, if_neg hck]

theorem szEntry_some (v : Bytes) : szEntry (some v) = nodeC + v.length := rfl

theorem getD_le_szEntry (o : Option Bytes) : (o.getD []).length ≤ szEntry o := by
  cases o <;> simp [szEntry]

/-- every instance creates at most one entry and contributes its value once -/
theorem sum_szEntry_valueOf_le (is : List (UInt8 × Bytes)) :
    ∀ (L : List UInt8), L.Nodup →
      (L.map (fun k => szEntry (valueOf is k))).sum
        ≤ (is.map (fun i => nodeC + i.2.length)).sum := by
  induction is with
  | nil =>
    intro L _
    have : (L.map (fun k => szEntry (valueOf [] k))).sum ≤ (L.map (fun _ => 0)).sum :=
      sum_map_le_of_forall L _ _ (fun k _ => by simp [valueOf_nil, szEntry])
    have h0 := sum_map_zero L
    simp only [List.map_nil, List.sum_nil]; omega
  | cons i is ih =>
    intro L hL
    obtain ⟨c, v⟩ := i
    have h1 := sum_map_update_le L hL
      (fun k => szEntry (valueOf ((c, v) :: is) k)) (fun k => szEntry (valueOf is k)) c
      (nodeC + v.length)
      (by
        intro k hk
        have : ¬ c = k := fun e => hk e.symm
        simp only [valueOf_cons, this, if_false]; exact Nat.le_refl _)
      (by
        have := getD_le_szEntry (valueOf is c)
        simp only [valueOf_cons, if_true, szEntry_some, List.length_append]
        omega)
    have h2 := ih L hL
    simp only [List.map_cons, List.sum_cons]
    omega

theorem sum_len_valueOf_le (is : List (UInt8 × Bytes)) :
    ∀ (L : List UInt8), L.Nodup →
      (L.map (fun k => ((valueOf is k).getD []).length)).sum
        ≤ (is.map (fun i => i.2.length)).sum := by
  induction is with
  | nil =>
    intro L _
    have : (L.map (fun k => ((valueOf [] k).getD []).length)).sum ≤ (L.map (fun _ => 0)).sum :=
      sum_map_le_of_forall L _ _ (fun k _ => by simp [valueOf_nil])
    have h0 := sum_map_zero L
    simp only [List.map_nil, List.sum_nil]; omega
  | cons i is ih =>
    intro L hL
    obtain ⟨c, v⟩ := i
    have h1 := sum_map_update_le L hL
      (fun k => ((valueOf ((c, v) :: is) k).getD []).length)
      (fun k => ((valueOf is k).getD []).length) c v.length
      (by
        intro k hk
        have : ¬ c = k := fun e => hk e.symm
        simp only [valueOf_cons, this, if_false]; exact Nat.le_refl _)
      (by
        simp only [valueOf_cons, if_true, Option.getD_some, List.length_append]
        omega)
    have h2 := ih L hL
    simp only [List.map_cons, List.sum_cons]
    omega

/-- entries cost one node each plus their value -/
theorem sum_szEntry_le_nodes (f : UInt8 → Option Bytes) (L : List UInt8) :
    (L.map (fun k => szEntry (f k))).sum
      ≤ nodeC * L.length + (L.map (fun k => ((f k).getD []).length)).sum := by
  induction L with
  | nil => simp
  | cons x xs ih =>
    have hx : szEntry (f x) ≤ nodeC + ((f x).getD []).length := by
      cases f x <;> simp [szEntry]
    simp only [List.map_cons, List.sum_cons, List.length_cons, Nat.mul_succ]
    omega

theorem sum_add_two (is : List (UInt8 × Bytes)) :
    (is.map (fun i => i.2.length)).sum ≤ (is.map (fun i => 2 + i.2.length)).sum :=
  sum_map_le_of_forall is _ _ (fun _ _ => by omega)

theorem sum_node_le_16 (is : List (UInt8 × Bytes)) :
    (is.map (fun i => nodeC + i.2.length)).sum ≤ 16 * (is.map (fun i => 2 + i.2.length)).sum := by
  induction is with
  | nil => simp
  | cons x xs ih =>
    simp only [List.map_cons, List.sum_cons, nodeC] at ih ⊢
    omega

theorem allCodes_length : Opts.allCodes.length = 256 := by simp [Opts.allCodes]

/-! ### packets -/

theorem slice_length_le (b : Bytes) (i j : Nat) : (slice b i j).length ≤ j - i := by
  unfold slice; exact List.length_take_le _ _

/-- the options part of a parsed packet: witnesses and the area length -/
theorem opts_area (b : Bytes) (p : Pkt4) (h : dec4 b = .ok p) :
    240 ≤ b.length ∧ ∃ is, (∀ c, p.opts.f c = valueOf is c)
      ∧ (is.map (fun i => 2 + i.2.length)).sum + 240 ≤ b.length := by
  have hp := dec4_sound b p h
  obtain ⟨is, ha, hf⟩ := hp.opts
  have hl := area_len ha
  have h240 := hp.len
  rw [List.length_drop] at hl
  exact ⟨h240, is, hf, by omega⟩

/-- RFC 3396 concatenation is linear: the total over all codes -/
theorem v4_values_total (b : Bytes) (p : Pkt4) (h : dec4 b = .ok p) :
    (Opts.allCodes.map (fun k => ((p.opts.f k).getD []).length)).sum + 240 ≤ b.length := by
  obtain ⟨_, is, hf, hl⟩ := opts_area b p h
  have h1 := sum_len_valueOf_le is Opts.allCodes allCodes_nodup
  have h2 := sum_add_two is
  have e : (fun k => ((p.opts.f k).getD []).length) = (fun k => ((valueOf is k).getD []).length) := by
    funext k; rw [hf k]
  rw [e]; omega

/-- RFC 3396 concatenation is linear: the value of any one code is no longer than the options area -/
theorem v4_concat_linear (b : Bytes) (p : Pkt4) (h : dec4 b = .ok p) (c : UInt8) (v : Bytes)
    (hv : p.opts.f c = some v) : v.length + 240 ≤ b.length := by
  have ht := v4_values_total b p h
  have hm := mem_le_sum_map Opts.allCodes (fun k => ((p.opts.f k).getD []).length) c (mem_allCodes c)
  simp only [hv, Option.getD_some] at hm
  omega

/-- the fixed header fields of a parsed packet -/
theorem fixed4_le (b : Bytes) (p : Pkt4) (h : dec4 b = .ok p) :
    nodeC + p.hw.length + p.xid.length + szIP p.ciaddr + szIP p.yiaddr + szIP p.siaddr
      + szIP p.giaddr + p.sname.length + p.file.length ≤ 260 := by
  have hp := dec4_sound b p h
  have hhw : p.hw.length ≤ 16 := by
    rw [hp.hw, List.length_take]; omega
  have hxid : p.xid.length ≤ 4 := by
    rw [hp.xid]; exact slice_length_le b 4 8
  have hci : szIP p.ciaddr ≤ 4 := by
    rw [hp.ci]; exact slice_length_le b 12 16
  have hyi : szIP p.yiaddr ≤ 4 := by
    rw [hp.yi]; exact slice_length_le b 16 20
  have hsi : szIP p.siaddr ≤ 4 := by
    rw [hp.si]; exact slice_length_le b 20 24
  have hgi : szIP p.giaddr ≤ 4 := by
    rw [hp.gi]; exact slice_length_le b 24 28
  have hsn : p.sname.length ≤ 64 := by
    rw [hp.sname]
    exact Nat.le_trans (List.takeWhile_sublist _).length_le (slice_length_le b 44 108)
  have hfl : p.file.length ≤ 128 := by
    rw [hp.file]
    exact Nat.le_trans (List.takeWhile_sublist _).length_le (slice_length_le b 108 236)
  unfold nodeC
  omega

/-- retained size, coarse: every instance costs 2 octets of input and at most one map entry -/
theorem size4_le (b : Bytes) (p : Pkt4) (h : dec4 b = .ok p) : size4 p ≤ 16 * b.length := by
  obtain ⟨_, is, hf, hl⟩ := opts_area b p h
  have hfix := fixed4_le b p h
  have h1 := sum_szEntry_valueOf_le is Opts.allCodes allCodes_nodup
  have h2 := sum_node_le_16 is
  have e : sizeOpts4 p.opts = (Opts.allCodes.map (fun k => szEntry (valueOf is k))).sum := by
    unfold sizeOpts4
    have : (fun k => szEntry (p.opts.f k)) = (fun k => szEntry (valueOf is k)) := by
      funext k; rw [hf k]
    rw [this]
  unfold size4
  rw [e]
  omega

/-- retained size, fine: the input once, at most 256 map entries, the fixed header fields -/
theorem size4_le_tight (b : Bytes) (p : Pkt4) (h : dec4 b = .ok p) :
    size4 p ≤ b.length + 256 * 32 + 64 := by
  have hfix := fixed4_le b p h
  have ht := v4_values_total b p h
  have h1 := sum_szEntry_le_nodes p.opts.f Opts.allCodes
  rw [allCodes_length] at h1
  unfold size4 sizeOpts4
  unfold nodeC at h1
  omega

/-! ### non-vacuity -/

/-- the measure is not constantly zero: one 1-octet option costs a node + 1 -/
example : szEntry ((Opts.empty.app 53 [1]).f 53) = 33 := by decide

/-- the hypotheses of the lemmas above are satisfiable: a one-option run -/
example : RunEnd [53, 1, 1, 255] [(53, [1])] :=
  RunEnd.opt 53 1 [1] (by decide) (by decide) (by decide) (RunEnd.fin [])

example : valueOf [(53, [1]), (53, [2])] 53 = some [1, 2] := by decide

end Dhcp.Cost

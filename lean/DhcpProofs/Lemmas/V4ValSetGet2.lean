import DhcpProofs.Lemmas.V4ValSetGet
/-
  C17 helper lemmas, part 7: constructor → accessor for the generic getters,
  classless static routes and relay agent information.
-/
namespace Dhcp.V4
open Dhcp List
open Dhcp.Spec

theorem getIP_set_get (c : UInt8) (o : GOpts) (b x : Bytes) (hd : to4 b = some x) :
    getIP c (o.update c (ipToBytes (some b))) = some x := by
  simp [getIP, GOpts.get_update_same, ipToBytes, hd, ipFromBytes_eq, ip_len4 (to4_length' hd)]

theorem getIPs_set_get (c : UInt8) (o : GOpts) (bs : List Bytes) (hne : bs ≠ [])
    (hd : ∀ b ∈ bs, (to4 b).isSome) :
    getIPs c (o.update c (ipsToBytes (bs.map some))) = some (bs.map to4) := by
  obtain ⟨w, hw, hs⟩ := ips_enc bs hne hd
  simp only [getIPs, GOpts.get_update_same, hw, ipsFromBytes_eq, hs, Option.map_some,
    List.map_map, Option.some.injEq]
  apply List.map_congr_left
  intro b hb
  obtain ⟨v, hv⟩ := Option.isSome_iff_exists.mp (hd b hb)
  simp [v4, hv]

theorem getString_set_get (c : UInt8) (o : GOpts) (s : Bytes) :
    getString c (o.update c (stringToBytes s)) = s := by
  simp [getString, GOpts.get_update_same, stringToBytes]

theorem getStringTrim_set_get (c : UInt8) (o : GOpts) (s : Bytes) (hd : s.getLast? ≠ some 0) :
    trimRightNul (getString c (o.update c (stringToBytes s))) = s := by
  rw [getString_set_get, trimRightNul_eq, stripNul_id s hd]

theorem getDuration_set_get (c : UInt8) (o : GOpts) (s : Nat) (dflt : Int) (hd : s < 4294967296) :
    getDuration c (o.update c (durationToBytes ((s : Int) * second))) dflt = (s : Int) * second := by
  simp [getDuration, GOpts.get_update_same, durationToBytes_dom hd, durationFromBytes_eq, seconds_enc hd]

/-! ### routes -/

/-- the domain of `OptClasslessStaticRoute` for one route: 4-byte destination
and router, prefix length ≤ 32, no destination octet set beyond the
significant ones. -/
structure RouteOK (r : Route) : Prop where
  dest : r.dest.length = 4
  width : r.width ≤ 32
  router : ∃ g, r.router = some g ∧ g.length = 4
  host : r.dest.drop ((r.width + 7) / 8) = List.replicate (4 - (r.width + 7) / 8) 0

def Route.toArg (r : Route) : RouteArg := ⟨some r.dest, r.width, r.router⟩

/-- wire form of one route of the domain -/
def routeEnc (r : Route) : Bytes :=
  UInt8.ofNat r.width :: (r.dest.take ((r.width + 7) / 8) ++ r.router.getD [])

theorem to4_len4 {d : Bytes} (h : d.length = 4) : to4 d = some d := by simp [to4, h]

theorem routeMarshal_ok (r : Route) (h : RouteOK r) : routeMarshal r.toArg = .ok (routeEnc r) := by
  obtain ⟨g, hg, hgl⟩ := h.router
  simp [routeMarshal, Route.toArg, ipToBytes, to4_len4 h.dest, h.width, hg, to4_len4 hgl, routeEnc]

theorem routesMarshal_ok (rs : List Route) (h : ∀ r ∈ rs, RouteOK r) :
    routesMarshal (rs.map Route.toArg) = .ok (rs.flatMap routeEnc) := by
  induction rs with
  | nil => rfl
  | cons r rs ih =>
    have ih' := ih (fun x hx => h x (by simp [hx]))
    simp only [List.map_cons, routesMarshal, routeMarshal_ok r (h r (by simp)), ih', bind, Res.bind,
      pure, List.flatMap_cons]

theorem routeList_cons (r : Route) (h : RouteOK r) (rest : Bytes) :
    Val4.routeList (routeEnc r ++ rest) =
      (Val4.routeList rest).map (fun t => ⟨r.dest, r.width, r.router.getD []⟩ :: t) := by
  obtain ⟨g, hg, hgl⟩ := h.router
  have hw : (UInt8.ofNat r.width).toNat = r.width := UInt8.toNat_ofNat_lt (by have := h.width; omega)
  have hk : (r.width + 7) / 8 ≤ 4 := by have := h.width; omega
  generalize hkdef : (r.width + 7) / 8 = k at hk
  have hp : (r.dest.take k).length = k := by simp [List.length_take, h.dest]; omega
  have hhost := h.host
  rw [hkdef] at hhost
  have hdest : r.dest.take k ++ List.replicate (4 - k) 0 = r.dest := by
    rw [← hhost, List.take_append_drop]
  simp only [routeEnc, hg, Option.getD_some, hkdef, List.cons_append]
  rw [Val4.routeList]
  simp only [hw, hkdef]
  have hlen : ¬ (r.width > 32 ∨ (r.dest.take k ++ g ++ rest).length < k + 4) := by
    simp only [List.length_append, hp, hgl]; have := h.width; omega
  rw [if_neg hlen]
  have h1 : (r.dest.take k ++ g ++ rest).take k = r.dest.take k := by
    rw [List.append_assoc]; exact List.take_left' hp
  have h2 : ((r.dest.take k ++ g ++ rest).drop k).take 4 = g := by
    rw [List.append_assoc, List.drop_left' hp]; exact List.take_left' hgl
  have h3 : (r.dest.take k ++ g ++ rest).drop (k + 4) = rest := by
    exact List.drop_left' (by simp [hp, hgl])
  rw [h1, h2, h3, hdest]

theorem routeList_enc (rs : List Route) (h : ∀ r ∈ rs, RouteOK r) :
    Val4.routeList (rs.flatMap routeEnc) =
      some (rs.map (fun r => (⟨r.dest, r.width, r.router.getD []⟩ : Val4.Route))) := by
  induction rs with
  | nil => simp [Val4.routeList]
  | cons r rs ih =>
    have ih' := ih (fun x hx => h x (by simp [hx]))
    rw [List.flatMap_cons, routeList_cons r (h r (by simp)), ih']
    simp

theorem routes_set_get (o : GOpts) (rs : List Route) (hne : rs ≠ []) (h : ∀ r ∈ rs, RouteOK r) :
    ∃ raw, routesToBytes (rs.map Route.toArg) = .ok raw ∧
      Acc.classlessStaticRoute (o.update Code.classlessStaticRoute raw) = some rs := by
  have hne' : rs.flatMap routeEnc ≠ [] := by
    cases rs with
    | nil => exact absurd rfl hne
    | cons r rs => simp [routeEnc]
  refine ⟨some (rs.flatMap routeEnc), ?_, ?_⟩
  · simp [routesToBytes, routesMarshal_ok rs h, Res.map, Res.bind, goBuf_ne_nil hne']
  · have hmap : (rs.map (fun r => (⟨r.dest, r.width, r.router.getD []⟩ : Val4.Route))).map ofSpecRoute = rs := by
      rw [List.map_map]
      conv => rhs; rw [← List.map_id rs]
      apply List.map_congr_left
      intro r hr
      obtain ⟨g, hg, _⟩ := (h r hr).router
      cases r with
      | mk d w rt => simp only at hg; subst hg; simp [ofSpecRoute]
    have hgs : goSlice rs = some rs := by
      cases rs with
      | nil => exact absurd rfl hne
      | cons _ _ => rfl
    simp [Acc.classlessStaticRoute, GOpts.get_update_same, routesFromBytes_eq, routeList_enc rs h, hmap, hgs]

/-! ### relay agent information -/

theorem chunks_ne_nil (c : UInt8) (v : Bytes) : chunks c v ≠ [] := by
  unfold chunks
  by_cases h : v.length = 0
  · simp [h]
  · simp only [h, if_false]
    cases hv : v with
    | nil => simp [hv] at h
    | cons a r => simp [chunksAux]

theorem relay_set_get (o : GOpts) (m : Opts) (h0 : m.f 0 = none) (h255 : m.f 255 = none)
    (hne : ∃ k, (m.f k).isSome) :
    Acc.relayAgentInfo (o.update Code.relayAgentInfo (relayToBytes m)) = some m := by
  obtain ⟨k, hk⟩ := hne
  have hk0 : k ≠ 0 := by intro h; subst h; simp [h0] at hk
  have hk255 : k ≠ 255 := by intro h; subst h; simp [h255] at hk
  have hmem : k ∈ marshalCodes m := (mem_marshalCodes m k).mpr ⟨hk, hk0, hk255⟩
  have hne' : marshalOpts m ≠ [] := by
    rw [marshalOpts_eq]
    intro hnil
    have := List.flatMap_eq_nil_iff.mp hnil k hmem
    exact chunks_ne_nil _ _ this
  have hlen : ¬ (marshalOpts m).length = 0 := by
    intro h; exact hne' (List.eq_nil_of_length_eq_zero h)
  have hloop : optsLoop' ⟨marshalOpts m, false⟩ Opts.empty =
      some ((marshalCodes m).foldl (fun o c => o.app c ((m.f c).getD [])) Opts.empty, false) := by
    have := optsLoop'_flatMap (fun c => (m.f c).getD []) [] (marshalCodes m) Opts.empty
      (fun c hc => ((mem_marshalCodes m c).mp hc).2)
    rw [List.append_nil] at this
    rw [marshalOpts_eq, this, optsLoop'_nil]
  simp only [Acc.relayAgentInfo, GOpts.get_update_same, relayToBytes, goBuf_ne_nil hne', relayFromBytes,
    optsFromBytes_eq, hlen, if_false, Lexer.new, hloop]
  simp only [Bool.not_false, Bool.and_false, Bool.false_eq_true, if_false, Option.some.injEq]
  apply Opts.ext'
  intro c
  by_cases hc : c ∈ marshalCodes m
  · rw [foldl_app_f_in _ _ _ _ (marshalCodes_nodup m) hc rfl]
    have := (mem_marshalCodes m c).mp hc
    cases hf : m.f c with
    | none => simp [hf] at this
    | some v => simp
  · rw [foldl_app_f_notin _ _ _ _ hc]
    have hn : ¬ ((m.f c).isSome ∧ c ≠ 0 ∧ c ≠ 255) := fun h => hc ((mem_marshalCodes m c).mpr h)
    cases hf : m.f c with
    | none => rfl
    | some v =>
      exfalso
      apply hn
      refine ⟨by simp [hf], ?_, ?_⟩
      · intro h; subst h; simp [h0] at hf
      · intro h; subst h; simp [h255] at hf

end Dhcp.V4

import Dhcp.Ownership
/-
  Helper lemmas for C08: reading an owned leaf ignores the input buffer;
  writing to a cell no leaf lives in changes no leaf.
-/
namespace Dhcp.Ownership
open Dhcp

theorem read_scribble_owned (m : Mem) (b : Bytes) (l : Prov) (h : l.isOwned = true) :
    read (scribble m b) l = read m l := by
  cases l with
  | owned c => rfl
  | view off len => simp [Prov.isOwned] at h

theorem contents_scribble (m : Mem) (b : Bytes) (o : Obj) (h : AllOwned o) :
    contents (scribble m b) o = contents m o := by
  unfold contents
  apply List.map_congr_left
  intro l hl
  exact read_scribble_owned m b l (h l hl)

theorem read_writeCell (m : Mem) (c : Nat) (b : Bytes) (l : Prov) (h : l ≠ .owned c) :
    read (writeCell m c b) l = read m l := by
  cases l with
  | owned c' =>
    have hne : c' ≠ c := fun e => h (by rw [e])
    simp [read, writeCell, hne]
  | view off len => rfl

theorem contents_writeCell (m : Mem) (c : Nat) (b : Bytes) (o : Obj) (h : Fresh c o) :
    contents (writeCell m c b) o = contents m o := by
  unfold contents
  apply List.map_congr_left
  intro l hl
  exact read_writeCell m c b l (h l hl)

theorem allOwned_of_table (tbl : List (String × Bool)) (ls : List TaggedLeaf)
    (hall : ∀ e ∈ tbl, e.2 = true) (hs : TableSound tbl ls) :
    AllOwned ⟨ls.map (·.prov)⟩ := by
  intro l hl
  simp only [List.mem_map] at hl
  obtain ⟨t, ht, rfl⟩ := hl
  obtain ⟨e, he, _, himp⟩ := hs t ht
  exact himp (hall e he)

end Dhcp.Ownership

import DhcpProofs.Lemmas.V4Opts
/- `marshalOpts` is read back by the option loop as the same map. -/
namespace Dhcp.V4
open Dhcp List

theorem optsLoop'_flatMap (val : UInt8 → Bytes) (rest : Bytes) :
    ∀ (cs : List UInt8) (o : Opts), (∀ c ∈ cs, c ≠ 0 ∧ c ≠ 255) →
      optsLoop' ⟨cs.flatMap (fun c => chunks c (val c)) ++ rest, false⟩ o
        = optsLoop' ⟨rest, false⟩ (cs.foldl (fun o c => o.app c (val c)) o) := by
  intro cs
  induction cs with
  | nil => intro o _; simp
  | cons c cs ih =>
    intro o h
    have hc := h c (by simp)
    simp only [List.flatMap_cons, List.append_assoc, List.foldl_cons]
    rw [optsLoop'_chunks c hc.1 hc.2]
    exact ih _ (fun c' hc' => h c' (by simp [hc']))

theorem foldl_app_f_notin (val : UInt8 → Bytes) :
    ∀ (cs : List UInt8) (o : Opts) (k : UInt8), k ∉ cs →
      (cs.foldl (fun o c => o.app c (val c)) o).f k = o.f k := by
  intro cs
  induction cs with
  | nil => intro o k _; rfl
  | cons c cs ih =>
    intro o k hk
    simp only [List.foldl_cons]
    rw [ih _ k (by intro h; exact hk (by simp [h]))]
    exact Opts.app_f_ne _ _ (by intro h; exact hk (by simp [h]))

theorem foldl_app_f_in (val : UInt8 → Bytes) :
    ∀ (cs : List UInt8) (o : Opts) (k : UInt8), cs.Nodup → k ∈ cs → o.f k = none →
      (cs.foldl (fun o c => o.app c (val c)) o).f k = some (val k) := by
  intro cs
  induction cs with
  | nil => intro o k _ hk; simp at hk
  | cons c cs ih =>
    intro o k hnd hk hnone
    simp only [List.foldl_cons]
    have hnd' := List.nodup_cons.mp hnd
    by_cases hkc : k = c
    · subst hkc
      rw [foldl_app_f_notin val cs _ k hnd'.1]
      simp [hnone]
    · have : k ∈ cs := by
        rcases List.mem_cons.mp hk with h | h
        · exact absurd h hkc
        · exact h
      exact ih _ k hnd'.2 this (by rw [Opts.app_f_ne _ _ hkc]; exact hnone)

theorem allCodes_nodup : Opts.allCodes.Nodup := by
  unfold Opts.allCodes
  refine List.pairwise_map.mpr (List.Pairwise.imp_of_mem ?_ (List.nodup_range (n := 256)))
  intro a b ha hb hne hab
  have ha' : a < 256 := List.mem_range.mp ha
  have hb' : b < 256 := List.mem_range.mp hb
  have := congrArg UInt8.toNat hab
  rw [UInt8.toNat_ofNat_lt ha', UInt8.toNat_ofNat_lt hb'] at this
  exact hne this

theorem mem_allCodes (k : UInt8) : k ∈ Opts.allCodes := by
  unfold Opts.allCodes
  refine List.mem_map.mpr ⟨k.toNat, List.mem_range.mpr (UInt8.toNat_lt k), ?_⟩
  simp

/-- the codes `Marshal` actually writes -/
def marshalCodes (o : Opts) : List UInt8 :=
  (sortedKeys o).filter (fun c => c != optEnd && c != optPad)

theorem marshalOpts_eq (o : Opts) :
    marshalOpts o = (marshalCodes o).flatMap (fun c => chunks c ((o.f c).getD [])) := rfl

theorem mem_marshalCodes (o : Opts) (k : UInt8) :
    k ∈ marshalCodes o ↔ (o.f k).isSome ∧ k ≠ 0 ∧ k ≠ 255 := by
  unfold marshalCodes sortedKeys Opts.keys Opts.has
  simp only [List.mem_filter, List.mem_append, mem_allCodes, true_and, optEnd, optPad, optAgentInfo,
    Bool.and_eq_true, bne_iff_ne, ne_eq]
  constructor
  · rintro ⟨h, h1, h2⟩
    refine ⟨?_, h2, h1⟩
    rcases h with (⟨h, _⟩ | h) | h
    · exact h
    · by_cases hh : (o.f 82).isSome = true
      · simp [hh] at h; subst h; exact hh
      · simp [hh] at h
    · by_cases hh : (o.f 255).isSome = true
      · simp [hh] at h; subst h; exact hh
      · simp [hh] at h
  · rintro ⟨h, h0, h255⟩
    refine ⟨?_, h255, h0⟩
    by_cases h82 : k = 82
    · subst h82; left; right; simp [h]
    · left; left; exact ⟨h, h82, h255⟩

theorem marshalCodes_nodup (o : Opts) : (marshalCodes o).Nodup := by
  unfold marshalCodes sortedKeys
  refine List.Nodup.sublist List.filter_sublist ?_
  have hk : (o.keys.filter (fun k => k != optAgentInfo && k != optEnd)).Nodup :=
    List.Nodup.sublist List.filter_sublist (List.Nodup.sublist List.filter_sublist allCodes_nodup)
  rw [List.append_assoc]
  refine List.nodup_append.mpr ⟨hk, ?_, ?_⟩
  · simp only [optAgentInfo, optEnd]
    by_cases h1 : o.has 82 = true <;> by_cases h2 : o.has 255 = true <;> simp [h1, h2]
  · intro a ha b hb
    simp only [List.mem_filter, Bool.and_eq_true, bne_iff_ne, ne_eq] at ha
    intro hab; subst hab
    simp only [List.mem_append] at hb
    rcases hb with hb | hb
    · by_cases h1 : o.has optAgentInfo = true
      · simp only [h1, if_true, List.mem_singleton] at hb; exact ha.2.1 hb
      · simp [h1] at hb
    · by_cases h2 : o.has optEnd = true
      · simp only [h2, if_true, List.mem_singleton] at hb; exact ha.2.2 hb
      · simp [h2] at hb

/-- Reading back `marshalOpts o ++ [End] ++ tail` yields exactly the entries of
`o` with codes other than Pad/End. -/
theorem optsLoop'_marshal (o : Opts) (tail : Bytes) :
    ∃ o', optsLoop' ⟨marshalOpts o ++ (255 :: tail), false⟩ Opts.empty = some (o', true) ∧
      ∀ k, o'.f k = if k ≠ 0 ∧ k ≠ 255 then o.f k else none := by
  rw [marshalOpts_eq, optsLoop'_flatMap (fun c => (o.f c).getD []) _ (marshalCodes o) Opts.empty
    (fun c hc => ((mem_marshalCodes o c).mp hc).2)]
  rw [optsLoop'_end]
  refine ⟨_, rfl, ?_⟩
  intro k
  by_cases hk : k ∈ marshalCodes o
  · rw [foldl_app_f_in _ _ _ _ (marshalCodes_nodup o) hk rfl]
    have := (mem_marshalCodes o k).mp hk
    simp only [this.2.1, this.2.2, ne_eq, not_false_eq_true, and_self, if_true]
    cases h : o.f k with
    | none => simp [h] at this
    | some v => simp
  · rw [foldl_app_f_notin _ _ _ _ hk]
    have hn : ¬ ((o.f k).isSome ∧ k ≠ 0 ∧ k ≠ 255) := fun h => hk ((mem_marshalCodes o k).mpr h)
    by_cases h : k ≠ 0 ∧ k ≠ 255
    · rw [if_pos h]
      cases hf : o.f k with
      | none => rfl
      | some v => exact absurd ⟨by simp [hf], h⟩ hn
    · rw [if_neg h]; rfl

end Dhcp.V4

import DhcpProofs.Lemmas.ClientLTS
/-
  Invariant 4 of the interleaving model: what each caller has seen so far
  (matcher history), from which "own transaction", "first match" and "arrived
  while the call was waiting" follow.
-/
namespace Dhcp.Client.LTS

/-- the first packet of `routed` the caller's matcher accepts -/
def firstAcc (cc : CallerCfg) (routed : List Pkt) : Option Pkt := routed.find? (fun q => accepted cc q.d)

theorem firstAcc_append_some (cc : CallerCfg) (l l' : List Pkt) (p : Pkt) (h : firstAcc cc l = some p) :
    firstAcc cc (l ++ l') = some p := by
  unfold firstAcc at *; simp [List.find?_append, h]

theorem firstAcc_mid (cc : CallerCfg) (rej buf : List Pkt) (p : Pkt)
    (h2 : ∀ q ∈ rej, accepted cc q.d = false) (h3 : accepted cc p.d = true) :
    firstAcc cc (rej ++ [p] ++ buf) = some p := by
  unfold firstAcc
  rw [List.append_assoc, List.find?_append]
  have : List.find? (fun q => accepted cc q.d) rej = none := by
    rw [List.find?_eq_none]; intro q hq; simp [h2 q hq]
  rw [this]; simp [h3]

/-- the (non-nil) response a caller is carrying out of the wait loop / has returned -/
def CPc.result : CPc → Option Pkt
  | .leaving _ (.resp (some p)) | .leaving2 _ (.resp (some p)) | .cancelLocked _ (.resp (some p))
  | .after (.resp (some p)) | .returned (.ok (some p)) => some p
  | _ => none

structure HInv (cfg : Cfg) (s : State) : Prop where
  hrej : ∀ r q, q ∈ (getR s r).rejected → accepted (cfg.caller (getR s r).owner) q.d = false
  hhand0 : ∀ i r, ((getC s i).pc = .registered r ∨ (getC s i).pc = .waiting r) → (getR s r).hand = none
  hhand1 : ∀ i r p, (getC s i).pc = .matching r (some p) → (getR s r).hand = some p
  split : ∀ r, (getR s r).routed = (getR s r).rejected ++ (getR s r).hand.toList ++ (getR s r).buf
  hlast : ∀ i r, (getC s i).pc.reg = some r → (getC s i).lastReg = r
  hres : ∀ i p, (getC s i).pc.result = some p →
    (getC s i).lastReg < s.nregs ∧ (getR s (getC s i).lastReg).owner = i ∧ (getR s (getC s i).lastReg).xid = (cfg.caller i).xid ∧
    (getC s i).startProc ≤ (getR s (getC s i).lastReg).bornAt ∧
    firstAcc (cfg.caller i) (getR s (getC s i).lastReg).routed = some p
  hstart : ∀ i r, (getC s i).pc.reg = some r → (getC s i).startProc ≤ (getR s r).bornAt
  hproc : ∀ i, (getC s i).startProc ≤ s.processed

set_option maxHeartbeats 1000000 in
theorem step_hrej (cfg : Cfg) (s s' : State) (l : Label) (hw : WF cfg s) (hh : HInv cfg s)
    (h : step cfg s l = some s') :
    ∀ r q, q ∈ (getR s' r).rejected → accepted (cfg.caller (getR s' r).owner) q.d = false := by
  obtain ⟨hrej, hhand0, hhand1, hsplit, hlast, hres, hstart, hproc⟩ := hh
  obtain ⟨hpend, hpcreg, hdopen, hdpend, hpowner, hrxsend, hnf, hnonil⟩ := hw
  lts_cases l h
  all_goals (intro r q hq)
  all_goals (simp_all [getC, getR])
  all_goals (try split)
  all_goals (first | (simp_all; done) | grind)

set_option maxHeartbeats 1000000 in
theorem step_hhand0 (cfg : Cfg) (s s' : State) (l : Label) (hw : WF cfg s) (hh : HInv cfg s)
    (h : step cfg s l = some s') :
    ∀ i r, ((getC s' i).pc = .registered r ∨ (getC s' i).pc = .waiting r) → (getR s' r).hand = none := by
  obtain ⟨hrej, hhand0, hhand1, hsplit, hlast, hres, hstart, hproc⟩ := hh
  obtain ⟨hpend, hpcreg, hdopen, hdpend, hpowner, hrxsend, hnf, hnonil⟩ := hw
  lts_cases l h
  all_goals (intro j r hj)
  all_goals (simp_all [getC, getR])
  all_goals (try split)
  all_goals (first | (simp_all; done) | grind)

set_option maxHeartbeats 1000000 in
theorem step_hhand1 (cfg : Cfg) (s s' : State) (l : Label) (hw : WF cfg s) (hh : HInv cfg s)
    (h : step cfg s l = some s') :
    ∀ i r p, (getC s' i).pc = .matching r (some p) → (getR s' r).hand = some p := by
  obtain ⟨hrej, hhand0, hhand1, hsplit, hlast, hres, hstart, hproc⟩ := hh
  obtain ⟨hpend, hpcreg, hdopen, hdpend, hpowner, hrxsend, hnf, hnonil⟩ := hw
  lts_cases l h
  all_goals (intro j r p hj)
  all_goals (simp_all [getC, getR])
  all_goals (try split)
  all_goals (first | (simp_all; done) | grind)

set_option maxHeartbeats 1000000 in
theorem step_hsplit (cfg : Cfg) (s s' : State) (l : Label) (hw : WF cfg s) (hh : HInv cfg s)
    (h : step cfg s l = some s') :
    ∀ r, (getR s' r).routed = (getR s' r).rejected ++ (getR s' r).hand.toList ++ (getR s' r).buf := by
  obtain ⟨hrej, hhand0, hhand1, hsplit, hlast, hres, hstart, hproc⟩ := hh
  obtain ⟨hpend, hpcreg, hdopen, hdpend, hpowner, hrxsend, hnf, hnonil⟩ := hw
  lts_cases l h
  all_goals (intro r)
  all_goals (simp_all [getC, getR])
  all_goals (try split)
  all_goals (first | (simp_all; done) | grind)

set_option maxHeartbeats 1000000 in
theorem step_hstart (cfg : Cfg) (s s' : State) (l : Label) (hw : WF cfg s) (hh : HInv cfg s)
    (h : step cfg s l = some s') :
    ∀ i r, (getC s' i).pc.reg = some r → (getC s' i).startProc ≤ (getR s' r).bornAt := by
  obtain ⟨hrej, hhand0, hhand1, hsplit, hlast, hres, hstart, hproc⟩ := hh
  obtain ⟨hpend, hpcreg, hdopen, hdpend, hpowner, hrxsend, hnf, hnonil⟩ := hw
  lts_cases l h
  all_goals (intro j r hj)
  all_goals (simp_all [getC, getR])
  all_goals (try split)
  all_goals (first | (simp_all; done) | grind)

set_option maxHeartbeats 1000000 in
theorem step_hproc (cfg : Cfg) (s s' : State) (l : Label) (hh : HInv cfg s)
    (h : step cfg s l = some s') : ∀ i, (getC s' i).startProc ≤ s'.processed := by
  obtain ⟨hrej, hhand0, hhand1, hsplit, hlast, hres, hstart, hproc⟩ := hh
  lts_cases l h
  all_goals (intro j)
  all_goals (simp_all [getC, getR])
  all_goals (try split)
  all_goals (first | (simp_all; done) | grind)

set_option maxHeartbeats 1000000 in
theorem step_hlast (cfg : Cfg) (s s' : State) (l : Label) (hh : HInv cfg s)
    (h : step cfg s l = some s') : ∀ i r, (getC s' i).pc.reg = some r → (getC s' i).lastReg = r := by
  obtain ⟨hrej, hhand0, hhand1, hsplit, hlast, hres, hstart, hproc⟩ := hh
  lts_cases l h
  all_goals (intro j r hj)
  all_goals (simp_all [getC, getR])
  all_goals (try split)
  all_goals (first | (simp_all; done) | grind)

section
variable (r : Nat) (p : Pkt) (w : Why) (res : Ret) (op : Option Pkt)
@[simp, grind =] theorem result_idle : CPc.result .idle = none := rfl
@[simp, grind =] theorem result_start : CPc.result .start = none := rfl
@[simp, grind =] theorem result_regLocked : CPc.result .regLocked = none := rfl
@[simp, grind =] theorem result_registered : CPc.result (.registered r) = none := rfl
@[simp, grind =] theorem result_waiting : CPc.result (.waiting r) = none := rfl
@[simp, grind =] theorem result_matching : CPc.result (.matching r op) = none := rfl
@[simp, grind =] theorem result_leaving_resp : CPc.result (.leaving r (.resp (some p))) = some p := rfl
@[simp, grind =] theorem result_leaving2 : CPc.result (.leaving2 r w) = CPc.result (.leaving r w) := by
  cases w <;> try rfl
  next p => cases p <;> rfl
@[simp, grind =] theorem result_cancelLocked : CPc.result (.cancelLocked r w) = CPc.result (.leaving r w) := by
  cases w <;> try rfl
  next p => cases p <;> rfl
@[simp, grind =] theorem result_after : CPc.result (.after w) = CPc.result (.leaving 0 w) := by
  cases w <;> try rfl
  next p => cases p <;> rfl
@[simp, grind =] theorem result_leaving_r : CPc.result (.leaving r w) = CPc.result (.leaving 0 w) := by
  cases w <;> try rfl
  next p => cases p <;> rfl
@[simp, grind =] theorem result_returned : CPc.result (.returned (retOf w)) = CPc.result (.leaving 0 w) := by
  cases w <;> try rfl
  next p => cases p <;> rfl
@[simp, grind =] theorem result_leaving_deadline : CPc.result (.leaving 0 .deadline) = none := rfl
@[simp, grind =] theorem result_leaving_ctx : CPc.result (.leaving 0 .ctx) = none := rfl
@[simp, grind =] theorem result_leaving_closed : CPc.result (.leaving 0 .closed) = none := rfl
@[simp, grind =] theorem result_leaving_txfail : CPc.result (.leaving 0 .txfail) = none := rfl
@[simp, grind =] theorem result_leaving_txerr : CPc.result (.leaving 0 .txerr) = none := rfl
@[simp, grind =] theorem result_returned_writeErr : CPc.result (.returned .writeErr) = none := rfl
@[simp, grind =] theorem result_leaving_nil : CPc.result (.leaving 0 (.resp none)) = none := rfl
@[simp, grind =] theorem result_returned_noResp : CPc.result (.returned .noResp) = none := rfl
@[simp, grind =] theorem result_returned_inUse : CPc.result (.returned .inUse) = none := rfl
@[simp, grind =] theorem result_returned_crash : CPc.result (.returned .crash) = none := rfl
end

set_option maxHeartbeats 2000000 in
theorem step_hres (cfg : Cfg) (s s' : State) (l : Label) (hw : WF cfg s) (hh : HInv cfg s)
    (h : step cfg s l = some s') :
    ∀ i p, (getC s' i).pc.result = some p →
    (getC s' i).lastReg < s'.nregs ∧ (getR s' (getC s' i).lastReg).owner = i ∧
    (getR s' (getC s' i).lastReg).xid = (cfg.caller i).xid ∧
    (getC s' i).startProc ≤ (getR s' (getC s' i).lastReg).bornAt ∧
    firstAcc (cfg.caller i) (getR s' (getC s' i).lastReg).routed = some p := by
  obtain ⟨hrej, hhand0, hhand1, hsplit, hlast, hres, hstart, hproc⟩ := hh
  obtain ⟨hpend, hpcreg, hdopen, hdpend, hpowner, hrxsend, hnf, hnonil⟩ := hw
  lts_cases l h
  all_goals (intro j p hj)
  all_goals (simp_all [getC, getR])
  all_goals (try split)
  all_goals (first | (simp_all; done) | grind [firstAcc_append_some, firstAcc_mid])

theorem init_hinv (cfg : Cfg) : HInv cfg init := by
  constructor <;> intros <;> simp_all [init, getC, getR, FMap.val, FMap.get, FMap.getL, FMap.empty] <;>
    first | rfl | (exfalso; rename_i h; exact (List.not_mem_nil h)) | skip

theorem step_hinv (cfg : Cfg) (s s' : State) (l : Label) (hw : WF cfg s) (hh : HInv cfg s)
    (h : step cfg s l = some s') : HInv cfg s' :=
  ⟨step_hrej cfg s s' l hw hh h, step_hhand0 cfg s s' l hw hh h, step_hhand1 cfg s s' l hw hh h,
   step_hsplit cfg s s' l hw hh h, step_hlast cfg s s' l hh h, step_hres cfg s s' l hw hh h,
   step_hstart cfg s s' l hw hh h, step_hproc cfg s s' l hh h⟩

/-- program counters that carry a nil packet / its consequences -/
def CPc.nilish : CPc → Bool
  | .matching _ none | .leaving _ (.resp none) | .leaving2 _ (.resp none) | .cancelLocked _ (.resp none)
  | .after (.resp none) | .returned (.ok none) | .returned .crash => true
  | _ => false

section
variable (r : Nat) (w : Why)
@[simp, grind =] theorem nilish_leaving2 : CPc.nilish (.leaving2 r w) = CPc.nilish (.after w) := by
  cases w <;> try rfl
  next p => cases p <;> rfl
@[simp, grind =] theorem nilish_cancelLocked : CPc.nilish (.cancelLocked r w) = CPc.nilish (.after w) := by
  cases w <;> try rfl
  next p => cases p <;> rfl
@[simp, grind =] theorem nilish_leaving : CPc.nilish (.leaving r w) = CPc.nilish (.after w) := by
  cases w <;> try rfl
  next p => cases p <;> rfl
@[simp, grind =] theorem nilish_returned : CPc.nilish (.returned (retOf w)) = CPc.nilish (.after w) := by
  cases w <;> try rfl
  next p => cases p <;> rfl
end

set_option maxHeartbeats 1000000 in
theorem step_nilish (cfg : Cfg) (s s' : State) (l : Label) (hw : WF cfg s)
    (hn : ∀ i, (getC s i).pc.nilish = false) (h : step cfg s l = some s') :
    ∀ i, (getC s' i).pc.nilish = false := by
  obtain ⟨hpend, hpcreg, hdopen, hdpend, hpowner, hrxsend, hnf, hnonil⟩ := hw
  lts_cases l h
  all_goals (intro j)
  all_goals (simp_all [getC, getR])
  all_goals (try split)
  all_goals (first | (simp_all; done) | (have := hn j; simp_all [CPc.nilish, retOf]; done) | grind [CPc.nilish, retOf])

/-- All four invariants hold in every reachable state (current `cancel`). -/
structure AllInv (cfg : Cfg) (s : State) : Prop where
  m : MutexInv s
  w : WF cfg s
  c : CInv cfg s
  h : HInv cfg s
  n : ∀ i, (getC s i).pc.nilish = false

theorem run_all (cfg : Cfg) (hf : cfg.cancelChecksOwner = true) (ls : List Label) :
    ∀ s0 s, AllInv cfg s0 → run cfg s0 ls = some s → AllInv cfg s := by
  induction ls with
  | nil => intro s0 s hi h; simp [run] at h; subst h; exact hi
  | cons l ls ih =>
    intro s0 s hi h
    simp only [run] at h
    split at h
    · next s1 h1 =>
      exact ih s1 s ⟨step_mutex cfg s0 s1 l hi.m h1, step_wf cfg hf s0 s1 l hi.m hi.w h1,
        step_cinv cfg s0 s1 l hi.w hi.c h1, step_hinv cfg s0 s1 l hi.w hi.h h1,
        step_nilish cfg s0 s1 l hi.w hi.n h1⟩ h
    · simp at h

theorem reach_all (cfg : Cfg) (hf : cfg.cancelChecksOwner = true) (s : State) (h : Reachable cfg s) :
    AllInv cfg s := by
  obtain ⟨ls, h⟩ := h
  exact run_all cfg hf ls init s ⟨init_mutex, init_wf cfg, init_cinv cfg, init_hinv cfg, fun _ => rfl⟩ h

end Dhcp.Client.LTS

import Dhcp.V4.Build
/-
  Helper lemmas for C15: option-map lookups, the frame lemma (a modifier that
  does not write a field leaves it alone), "defaults first, user modifiers
  after", and the flag arithmetic of SetBroadcast/SetUnicast.
-/
namespace Dhcp.V4
open Dhcp List

/-! ### option map -/
@[simp] theorem Opts.get_set (o : Opts) (c k : UInt8) (v : Bytes) :
    (o.set c v).get k = if k = c then some v else o.get k := rfl
@[simp] theorem Opts.get_del (o : Opts) (c k : UInt8) :
    (o.del c).get k = if k = c then none else o.get k := rfl
@[simp] theorem Opts.get_empty (k : UInt8) : Opts.empty.get k = none := rfl

theorem Opts.get_set_self (o : Opts) (c : UInt8) (v : Bytes) : (o.set c v).get c = some v := by simp
theorem Opts.get_set_ne (o : Opts) {c k : UInt8} (v : Bytes) (h : k ≠ c) :
    (o.set c v).get k = o.get k := by simp [h]
theorem Opts.get_del_ne (o : Opts) {c k : UInt8} (h : k ≠ c) : (o.del c).get k = o.get k := by simp [h]

@[simp] theorem setOpt_get (p : Pkt4) (c k : UInt8) (v : Bytes) :
    (setOpt p c v).opts.get k = if k = c then some v else p.opts.get k := rfl
@[simp] theorem delOpt_get (p : Pkt4) (c k : UInt8) :
    (delOpt p c).opts.get k = if k = c then none else p.opts.get k := rfl

/-! ### frame lemma -/

private theorem setOpt_field_opt (p : Pkt4) {c k : UInt8} (v : Bytes) (h : (k == c) = false) :
    (setOpt p c v).field (.opt k) = p.field (.opt k) := by
  have : k ≠ c := by simpa using h
  simp [Pkt4.field, this]

private theorem delOpt_field_opt (p : Pkt4) {c k : UInt8} (h : (k == c) = false) :
    (delOpt p c).field (.opt k) = p.field (.opt k) := by
  have : k ≠ c := by simpa using h
  simp [Pkt4.field, this]

/-- A modifier that does not write field `f` leaves it as it was. -/
theorem apply_frame (m : Modifier) (f : Field) (h : m.writes f = false) (p : Pkt4) :
    (apply m p).field f = p.field f := by
  cases m <;> cases f <;>
    first
    | (exfalso; revert h; simp [Modifier.writes]; done)
    | rfl
    | (simp only [Modifier.writes] at h
       simp only [apply, requestOptions]
       first
       | exact setOpt_field_opt p _ h
       | exact delOpt_field_opt p h
       | (split <;> first | rfl | (split <;> first | rfl | exact setOpt_field_opt p _ h))
       | (split <;> rfl))

theorem applyAll_nil (p : Pkt4) : applyAll [] p = p := rfl
theorem applyAll_cons (m : Modifier) (ms : List Modifier) (p : Pkt4) :
    applyAll (m :: ms) p = applyAll ms (apply m p) := rfl
theorem applyAll_append (a b : List Modifier) (p : Pkt4) :
    applyAll (a ++ b) p = applyAll b (applyAll a p) := by
  simp [applyAll, List.foldl_append]

/-- A modifier list none of whose members writes `f` leaves `f` as it was. -/
theorem applyAll_frame (ms : List Modifier) (f : Field) (h : NoWrite ms f) (p : Pkt4) :
    (applyAll ms p).field f = p.field f := by
  induction ms generalizing p with
  | nil => rfl
  | cons m ms ih =>
    rw [applyAll_cons, ih (fun x hx => h x (List.mem_cons_of_mem m hx)), apply_frame m f (h m (List.mem_cons_self ..))]

/-! ### defaults first, user modifiers after -/

theorem build_nil (b : Builder) (xid : Bytes) : build b xid [] = applyAll b.defaults (basePkt xid) := by
  simp [build, newDHCPv4, prependModifiers]

/-- The packet a builder returns is the packet it returns without user
modifiers, with the user modifiers then applied in order. -/
theorem build_eq (b : Builder) (xid : Bytes) (user : List Modifier) :
    build b xid user = applyAll user (build b xid []) := by
  rw [build_nil]; simp [build, newDHCPv4, prependModifiers, applyAll_append]

theorem build_snoc (b : Builder) (xid : Bytes) (user : List Modifier) (m : Modifier) :
    build b xid (user ++ [m]) = apply m (build b xid user) := by
  rw [build_eq b xid (user ++ [m]), build_eq b xid user, applyAll_append]; rfl

theorem build_field (b : Builder) (xid : Bytes) (user : List Modifier) (f : Field) (h : NoWrite user f) :
    (build b xid user).field f = (build b xid []).field f := by
  rw [build_eq]; exact applyAll_frame user f h _

/-! field-wise forms of `build_field` -/
section
variable (b : Builder) (xid : Bytes) (user : List Modifier)
theorem build_op (h : NoWrite user .op) : (build b xid user).op = (build b xid []).op := by
  have := build_field b xid user .op h; simpa [Pkt4.field] using this
theorem build_htype (h : NoWrite user .htype) : (build b xid user).htype = (build b xid []).htype := by
  have := build_field b xid user .htype h; simpa [Pkt4.field] using this
theorem build_hw (h : NoWrite user .hw) : (build b xid user).hw = (build b xid []).hw := by
  have := build_field b xid user .hw h; simpa [Pkt4.field] using this
theorem build_hops (h : NoWrite user .hops) : (build b xid user).hops = (build b xid []).hops := by
  have := build_field b xid user .hops h; simpa [Pkt4.field] using this
theorem build_xid (h : NoWrite user .xid) : (build b xid user).xid = (build b xid []).xid := by
  have := build_field b xid user .xid h; simpa [Pkt4.field] using this
theorem build_flags (h : NoWrite user .flags) : (build b xid user).flags = (build b xid []).flags := by
  have := build_field b xid user .flags h; simpa [Pkt4.field] using this
theorem build_ciaddr (h : NoWrite user .ciaddr) : (build b xid user).ciaddr = (build b xid []).ciaddr := by
  have := build_field b xid user .ciaddr h; simpa [Pkt4.field] using this
theorem build_yiaddr (h : NoWrite user .yiaddr) : (build b xid user).yiaddr = (build b xid []).yiaddr := by
  have := build_field b xid user .yiaddr h; simpa [Pkt4.field] using this
theorem build_siaddr (h : NoWrite user .siaddr) : (build b xid user).siaddr = (build b xid []).siaddr := by
  have := build_field b xid user .siaddr h; simpa [Pkt4.field] using this
theorem build_giaddr (h : NoWrite user .giaddr) : (build b xid user).giaddr = (build b xid []).giaddr := by
  have := build_field b xid user .giaddr h; simpa [Pkt4.field] using this
theorem build_opt (c : UInt8) (h : NoWrite user (.opt c)) :
    (build b xid user).opts.get c = (build b xid []).opts.get c := by
  have := build_field b xid user (.opt c) h; simpa [Pkt4.field] using this
end

/-! ### flag arithmetic (uint16 masks) -/

theorem land_unicast_broadcast (x : Nat) : (x &&& unicastMask) &&& broadcastMask = 0 := by
  rw [Nat.and_assoc]
  have : unicastMask &&& broadcastMask = 0 := by decide
  rw [this]; exact Nat.and_zero x

theorem isBroadcast_setUnicast (p : Pkt4) : isBroadcast (setUnicast p) = false := by
  have h := land_unicast_broadcast p.flags
  simp only [isBroadcast, setUnicast, h]; decide

theorem isBroadcast_setBroadcast (p : Pkt4) : isBroadcast (setBroadcast p) = true := by
  have h : (p.flags ||| broadcastMask) &&& broadcastMask = broadcastMask := by
    apply Nat.eq_of_testBit_eq; intro i
    simp only [Nat.testBit_and, Nat.testBit_or]
    cases Nat.testBit broadcastMask i <;> simp
  simp [isBroadcast, setBroadcast, h]

/-- `Flags &= ^uint16(0x8000)` keeps exactly the low 15 bits. -/
theorem setUnicast_flags (p : Pkt4) : (setUnicast p).flags = p.flags % 32768 := by
  have : unicastMask = 2 ^ 15 - 1 := by decide
  simp only [setUnicast, this, Nat.and_two_pow_sub_one_eq_mod]

/-! ### `OptionCodeList.Add` -/

theorem addCodes_nil_std :
    List.map (fun x => x.code) (addCodes (List.map OptCode.named []) stdRequested) = [1, 3, 15, 6] := by decide

/-! ### what the default modifiers of each builder produce -/

/-- the copy rule of `WithOptionCopied`: the source value when it is non-empty -/
def copiedValue (src : Pkt4) (c : UInt8) : Option Bytes :=
  match src.opts.get c with
  | some v => if v.length > 0 then some v else none
  | none => none

theorem apply_copied_get_self (src p : Pkt4) (c : UInt8) (h : p.opts.get c = none) :
    (apply (.withOptionCopied src c) p).opts.get c = copiedValue src c := by
  simp only [apply, copiedValue]
  cases hs : src.opts.get c with
  | none => simpa using h
  | some v => by_cases hv : v.length > 0 <;> simp [hv, h]

theorem apply_copied_get_ne (src p : Pkt4) {c k : UInt8} (h : k ≠ c) :
    (apply (.withOptionCopied src c) p).opts.get k = p.opts.get k := by
  simp only [apply]
  split
  · split <;> simp [h]
  · rfl

/-- `WithOptionCopied` on an option map -/
def copyOpt (src : Pkt4) (c : UInt8) (o : Opts) : Opts :=
  match copiedValue src c with
  | some v => o.set c v
  | none => o

theorem apply_copied (src p : Pkt4) (c : UInt8) :
    apply (.withOptionCopied src c) p = { p with opts := copyOpt src c p.opts } := by
  simp only [apply, copyOpt, copiedValue]
  cases hs : src.opts.get c with
  | none => rfl
  | some v => by_cases hv : v.length > 0 <;> simp [hv, setOpt]

theorem copyOpt_get_self (src : Pkt4) (c : UInt8) (o : Opts) (h : o.get c = none) :
    (copyOpt src c o).get c = copiedValue src c := by
  unfold copyOpt; cases hv : copiedValue src c <;> simp [h]

theorem copyOpt_get_ne (src : Pkt4) {c k : UInt8} (o : Opts) (h : k ≠ c) :
    (copyOpt src c o).get k = o.get k := by
  unfold copyOpt; cases hv : copiedValue src c <;> simp [h]

/-- the opcode `WithReply` sets -/
def replyOp (op : UInt8) : UInt8 := if op = opBootRequest then opBootReply else opBootRequest

/-! Closed forms of what each builder returns without user modifiers. -/

theorem new_nil (xid : Bytes) : build .new xid [] = basePkt xid := rfl

theorem discovery_nil (xid hw : Bytes) :
    build (.discovery hw) xid [] =
      { basePkt xid with
          hw := hw,
          opts := (Opts.empty.set optParamList [1, 3, 15, 6]).set optMessageType [mtDiscover] } := by
  simp only [build_nil, Builder.defaults, applyAll_cons, applyAll_nil, apply, requestOptions, setOpt,
    paramRequestList, basePkt, Opts.get_empty, Option.getD_none, addCodes_nil_std]

theorem inform_nil (xid hw : Bytes) (ip : IP) :
    build (.inform hw ip) xid [] =
      { basePkt xid with
          hw := hw, ciaddr := ip, opts := Opts.empty.set optMessageType [mtInform] } := by
  simp only [build_nil, Builder.defaults, applyAll_cons, applyAll_nil, apply, setOpt, basePkt]

theorem replyFromRequest_nil (xid : Bytes) (req : Pkt4) :
    build (.replyFromRequest req) xid [] =
      { basePkt xid with
          op := replyOp req.op, htype := req.htype, xid := req.xid, hw := req.hw,
          flags := req.flags, giaddr := req.giaddr,
          opts := copyOpt req optClientID (copyOpt req optAgentInfo Opts.empty) } := by
  simp only [build_nil, Builder.defaults, applyAll_cons, applyAll_nil, apply_copied]
  simp only [apply, basePkt, replyOp]

theorem releaseFromAck_nil (xid : Bytes) (ack : Pkt4) :
    build (.releaseFromAck ack) xid [] =
      { basePkt xid with
          hw := ack.hw, ciaddr := ack.yiaddr, flags := 0 &&& unicastMask,
          opts := copyOpt ack optServerID (Opts.empty.set optMessageType [mtRelease]) } := by
  simp only [build_nil, Builder.defaults, applyAll_cons, applyAll_nil, apply_copied]
  simp only [apply, basePkt, setOpt,
    setUnicast, Bool.false_eq_true, if_false]

theorem renewFromAck_nil (xid : Bytes) (ack : Pkt4) :
    build (.renewFromAck ack) xid [] =
      { basePkt xid with
          op := replyOp ack.op, htype := ack.htype, xid := ack.xid, hw := ack.hw,
          flags := ack.flags &&& unicastMask, ciaddr := ack.yiaddr,
          opts := (Opts.empty.set optMessageType [mtRequest]).set optParamList [1, 3, 15, 6] } := by
  have h55 : (Opts.empty.set optMessageType [mtRequest]).get optParamList = none := by decide
  simp only [build_nil, Builder.defaults, applyAll_cons, applyAll_nil, apply, basePkt, setOpt,
    setUnicast, Bool.false_eq_true, if_false, requestOptions, paramRequestList, h55, Option.getD_none,
    addCodes_nil_std, replyOp]

theorem requestFromOffer_nil (xid : Bytes) (offer : Pkt4) :
    build (.requestFromOffer offer) xid [] =
      { basePkt xid with
          op := replyOp offer.op, htype := offer.htype, xid := offer.xid, hw := offer.hw,
          flags := offer.flags, ciaddr := offer.ciaddr,
          opts := (copyOpt offer optServerID
                    ((Opts.empty.set optMessageType [mtRequest]).set optRequestedIP (ipTo4Bytes offer.yiaddr))).set
                      optParamList [1, 3, 15, 6] } := by
  have h55 : (copyOpt offer optServerID
      ((Opts.empty.set optMessageType [mtRequest]).set optRequestedIP (ipTo4Bytes offer.yiaddr))).get optParamList = none := by
    rw [copyOpt_get_ne _ _ (by decide)]
    have h1 : optParamList ≠ optRequestedIP := by decide
    have h2 : optParamList ≠ optMessageType := by decide
    simp [h1, h2]
  simp only [build_nil, Builder.defaults, applyAll_cons, applyAll_nil, apply_copied]
  simp only [apply, basePkt, setOpt,
    requestOptions, paramRequestList, h55, Option.getD_none, addCodes_nil_std, replyOp, OptVal.code, OptVal.bytes]

end Dhcp.V4

import Dhcp.Spec.V4Client
import DhcpProofs.Lemmas.V4BuildProps
/-
  The builders against RFC 2131 Table 5 (Dhcp/Spec/V4Client.lean): proofs of
  the `C15_rfc_*` theorems of Props/C15.lean.
-/
namespace Dhcp.V4
open Dhcp List Dhcp.Spec.V4Client

/-- the user modifiers write none of the fields Table 5 speaks about -/
def NoWriteTable5 (user : List Modifier) : Prop :=
  NoWrite user .op ∧ NoWrite user .ciaddr ∧ NoWrite user .flags ∧ NoWrite user (.opt optMessageType) ∧
  NoWrite user (.opt optRequestedIP) ∧ NoWrite user (.opt optServerID)

instance (user : List Modifier) : Decidable (NoWriteTable5 user) := by
  unfold NoWriteTable5; infer_instance

theorem mod_lt_div (x : Nat) : x % 32768 / 32768 % 2 = 0 := by
  have : x % 32768 < 32768 := Nat.mod_lt _ (by decide)
  simp [Nat.div_eq_of_lt this]

theorem rfc_discover (xid hw : Bytes) (user : List Modifier) (h : NoWriteTable5 user) :
    Conforms .discover (newDiscovery xid hw user) none [] := by
  obtain ⟨h1, h2, _, h4, _, h6⟩ := h
  unfold newDiscovery
  refine ⟨?_, ?_, ?_, trivial, ?_, trivial⟩
  · rw [build_op _ _ _ h1, discovery_nil]; rfl
  · show (build (.discovery hw) xid user).opts.get optMessageType = _
    rw [build_opt _ _ _ _ h4, discovery_nil]; rfl
  · show IsZeroAddr _
    rw [build_ciaddr _ _ _ h2, discovery_nil]; exact Or.inr (Or.inr rfl)
  · show (build (.discovery hw) xid user).opts.get optServerID = _
    rw [build_opt _ _ _ _ h6, discovery_nil]; rfl

theorem rfc_inform (xid hw : Bytes) (ip : IP) (user : List Modifier) (h : NoWriteTable5 user) :
    Conforms .inform (newInform xid hw ip user) ip [] := by
  obtain ⟨h1, h2, _, h4, h5, h6⟩ := h
  unfold newInform
  refine ⟨?_, ?_, ?_, ?_, ?_, trivial⟩
  · rw [build_op _ _ _ h1, inform_nil]; rfl
  · show (build (.inform hw ip) xid user).opts.get optMessageType = _
    rw [build_opt _ _ _ _ h4, inform_nil]; rfl
  · show _ = ip
    rw [build_ciaddr _ _ _ h2, inform_nil]
  · show (build (.inform hw ip) xid user).opts.get optRequestedIP = _
    rw [build_opt _ _ _ _ h5, inform_nil]; rfl
  · show (build (.inform hw ip) xid user).opts.get optServerID = _
    rw [build_opt _ _ _ _ h6, inform_nil]; rfl

theorem rfc_renew (xid : Bytes) (ack : Pkt4) (user : List Modifier) (h : NoWriteTable5 user)
    (hop : ack.op ≠ opBootRequest) :
    Conforms .requestRenewing (newRenewFromAck xid ack user) ack.yiaddr [] := by
  obtain ⟨h1, h2, h3, h4, h5, h6⟩ := h
  have r := renew xid ack user
  refine ⟨?_, r.2.2.1 h4, r.1 h2, r.2.2.2.1 h5, r.2.2.2.2.1 h6, ?_⟩
  · unfold newRenewFromAck
    rw [build_op _ _ _ h1, renewFromAck_nil]
    show replyOp ack.op = 1
    simp [replyOp, hop]; rfl
  · show _ / 32768 % 2 = 0
    rw [(r.2.1 h3).2]; exact mod_lt_div _

theorem rfc_release (xid : Bytes) (ack : Pkt4) (user : List Modifier) (h : NoWriteTable5 user)
    (sid : Bytes) (hs : ack.opts.get optServerID = some sid) (hne : sid ≠ []) :
    Conforms .release (newReleaseFromAck xid ack user) ack.yiaddr sid := by
  obtain ⟨h1, h2, h3, h4, h5, h6⟩ := h
  have r := release xid ack user
  refine ⟨r.2.2.2.2.1 h1, r.1 h4, r.2.1 h2, ?_, ⟨(r.2.2.2.2.2 h6).1 sid hs hne, hne⟩, ?_⟩
  · show (newReleaseFromAck xid ack user).opts.get optRequestedIP = none
    unfold newReleaseFromAck
    rw [build_opt _ _ _ _ h5, releaseFromAck_nil]
    show (copyOpt ack optServerID _).get optRequestedIP = _
    rw [copyOpt_get_ne _ _ (by decide)]; rfl
  · show _ / 32768 % 2 = 0
    rw [(r.2.2.2.1 h3).2]

theorem rfc_request_selecting (xid : Bytes) (offer : Pkt4) (user : List Modifier) (h : NoWriteTable5 user)
    (hop : offer.op = opBootReply) (hci : IsZeroAddr offer.ciaddr)
    (sid : Bytes) (hs : offer.opts.get optServerID = some sid) (hne : sid ≠ []) :
    Conforms .requestSelecting (newRequestFromOffer xid offer user) none sid := by
  obtain ⟨h1, h2, _, h4, h5, h6⟩ := h
  have r := request_from_offer xid offer user
  refine ⟨r.2.2.2.2.2.2.2.2 h1 hop, r.2.1 h4, ?_, ⟨_, r.2.2.1 h5⟩, ⟨(r.2.2.2.1 h6).1 sid hs hne, hne⟩, trivial⟩
  show IsZeroAddr _
  rw [r.2.2.2.2.2.1 h2]; exact hci

end Dhcp.V4

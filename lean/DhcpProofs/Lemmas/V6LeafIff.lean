import DhcpProofs.Lemmas.V6LeafComplete
/-
  The framing grammar with delegated leaves (`Spec.PMsg`/`POpt`/`POpts`,
  Dhcp/Spec/Wire6.lean, whose `leaf`/`clientID`/`serverID` constructors call
  the model's `decSimple`/`decDUID`) derives exactly what the fully declarative
  grammar (`Spec.PMsg'`/`POpt'`/`POpts'`, Dhcp/Spec/Wire6Rfc.lean, leaves given
  by `PLeaf`/`PDUID`) derives.  With `dec6_iff` this makes the decoder model
  equivalent to a specification that shares no code with it.
-/
namespace Dhcp.V6
open Dhcp List Dhcp.Spec

mutual
theorem POpt_to_rfc : {c : Nat} → {v : Bytes} → {o : Opt6} → POpt c v o → POpt' c v o
  | _, _, _, .leaf hc hd => .leaf ((decSimple_iff_PLeaf _ _ _ hc).mp hd)
  | _, _, _, .clientID hd => .clientID ((decDUID_iff _ _).mp hd)
  | _, _, _, .serverID hd => .serverID ((decDUID_iff _ _).mp hd)
  | _, _, _, .iana hi h1 h2 h => .iana hi h1 h2 (POpts_to_rfc h)
  | _, _, _, .iata hi h => .iata hi (POpts_to_rfc h)
  | _, _, _, .iaaddr hi h1 h2 h => .iaaddr hi h1 h2 (POpts_to_rfc h)
  | _, _, _, .relayMsg h => .relayMsg (PMsg_to_rfc h)
  | _, _, _, .iapd hi h1 h2 h => .iapd hi h1 h2 (POpts_to_rfc h)
  | _, _, _, .iaprefix h1 h2 hl hi h => .iaprefix h1 h2 hl hi (POpts_to_rfc h)
  | _, _, _, .fourRD h => .fourRD (POpts_to_rfc h)
theorem POpts_to_rfc : {d : Bytes} → {os : List Opt6} → POpts d os → POpts' d os
  | _, _, .nil => .nil
  | _, _, .cons hc hv hp hs => (tlv_append _ _ _) ▸ POpts'.cons hc hv (POpt_to_rfc hp) (POpts_to_rfc hs)
theorem PMsg_to_rfc : {b : Bytes} → {m : Msg6} → PMsg b m → PMsg' b m
  | _, _, .msg ht hx h => .msg ht hx (POpts_to_rfc h)
  | _, _, .relay ht hl hp h => .relay ht hl hp (POpts_to_rfc h)
end

mutual
theorem POpt_of_rfc : {c : Nat} → {v : Bytes} → {o : Opt6} → POpt' c v o → POpt c v o
  | _, _, _, .leaf hl => .leaf (PLeaf_not_container hl) (decSimple_complete _ _ _ hl)
  | _, _, _, .clientID hd => .clientID ((decDUID_iff _ _).mpr hd)
  | _, _, _, .serverID hd => .serverID ((decDUID_iff _ _).mpr hd)
  | _, _, _, .iana hi h1 h2 h => .iana hi h1 h2 (POpts_of_rfc h)
  | _, _, _, .iata hi h => .iata hi (POpts_of_rfc h)
  | _, _, _, .iaaddr hi h1 h2 h => .iaaddr hi h1 h2 (POpts_of_rfc h)
  | _, _, _, .relayMsg h => .relayMsg (PMsg_of_rfc h)
  | _, _, _, .iapd hi h1 h2 h => .iapd hi h1 h2 (POpts_of_rfc h)
  | _, _, _, .iaprefix h1 h2 hl hi h => .iaprefix h1 h2 hl hi (POpts_of_rfc h)
  | _, _, _, .fourRD h => .fourRD (POpts_of_rfc h)
theorem POpts_of_rfc : {d : Bytes} → {os : List Opt6} → POpts' d os → POpts d os
  | _, _, .nil => .nil
  | _, _, .cons hc hv hp hs => (tlv_append _ _ _) ▸ POpts.cons hc hv (POpt_of_rfc hp) (POpts_of_rfc hs)
theorem PMsg_of_rfc : {b : Bytes} → {m : Msg6} → PMsg' b m → PMsg b m
  | _, _, .msg ht hx h => .msg ht hx (POpts_of_rfc h)
  | _, _, .relay ht hl hp h => .relay ht hl hp (POpts_of_rfc h)
end

theorem POpt_iff_rfc (c : Nat) (v : Bytes) (o : Opt6) : POpt c v o ↔ POpt' c v o :=
  ⟨POpt_to_rfc, POpt_of_rfc⟩
theorem POpts_iff_rfc (d : Bytes) (os : List Opt6) : POpts d os ↔ POpts' d os :=
  ⟨POpts_to_rfc, POpts_of_rfc⟩
theorem PMsg_iff_rfc (b : Bytes) (m : Msg6) : PMsg b m ↔ PMsg' b m :=
  ⟨PMsg_to_rfc, PMsg_of_rfc⟩

/-- `dhcpv6.FromBytes` (model) accepts exactly the messages of the declarative RFC grammar -/
theorem dec6_iff_rfc (b : Bytes) (m : Msg6) : dec6 b = .ok m ↔ PMsg' b m :=
  (dec6_iff b m).trans (PMsg_iff_rfc b m)
theorem parseOption_iff_rfc (code : Nat) (data : Bytes) (o : Opt6) :
    parseOption code data = .ok o ↔ POpt' code data o :=
  (parseOption_iff code data o).trans (POpt_iff_rfc code data o)
theorem decOpts_iff_rfc (data : Bytes) (os : List Opt6) : decOpts data = .ok os ↔ POpts' data os :=
  (decOpts_iff data os).trans (POpts_iff_rfc data os)

/-- `ParseOption` on a leaf code is the leaf layout -/
theorem parseOption_leaf_iff (c : Nat) (v : Bytes) (o : Opt6) (hc : c ∉ containerCodes) :
    parseOption c v = .ok o ↔ PLeaf c v o := by
  unfold parseOption fuelFor
  rw [parseOpt_leaf (v.length + 1) c v hc]
  exact decSimple_iff_PLeaf c v o hc

/-- the readings of the leaf specification are unique -/
theorem PLeaf_functional {c : Nat} {v : Bytes} {o o' : Opt6} (h : PLeaf c v o) (h' : PLeaf c v o') :
    o = o' := by
  have e := decSimple_complete c v o h
  rw [decSimple_complete c v o' h'] at e
  simpa using e.symm

theorem PDUID_functional {v : Bytes} {d d' : DUID} (h : PDUID v d) (h' : PDUID v d') : d = d' := by
  have e := (decDUID_iff v d).mpr h
  rw [(decDUID_iff v d').mpr h'] at e
  simpa using e.symm

end Dhcp.V6

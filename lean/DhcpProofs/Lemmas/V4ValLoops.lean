import DhcpProofs.Lemmas.V4Val
/-
  C17 helper lemmas, part 2: the list-valued types, each parsed by a
  `for buf.Has(k)` loop.  For every loop: with enough fuel, on a clean lexer
  over `d`, the loop returns exactly the spec's tiling of `d` and an exhausted
  clean lexer when the spec accepts `d`, and otherwise ends in a state whose
  `FinError` is set (or returns early with an error).
-/
namespace Dhcp.V4
open Dhcp List
open Dhcp.Spec

/-! ### IPs -/

theorem ipsLoop_step (f : Nat) (a b c e : UInt8) (r : Bytes) :
    ipsLoop (f + 1) ⟨a :: b :: c :: e :: r, false⟩ =
      (some [a, b, c, e] :: (ipsLoop f ⟨r, false⟩).1, (ipsLoop f ⟨r, false⟩).2) := by
  simp [ipsLoop, Lexer.has, Lexer.copyN, Lexer.consume]

theorem ipsLoop_spec (fuel : Nat) : ∀ (d : Bytes), d.length < fuel →
    (∀ xs, Val4.addrs d = some xs → ipsLoop fuel ⟨d, false⟩ = (xs.map some, ⟨[], false⟩)) ∧
    (Val4.addrs d = none → (ipsLoop fuel ⟨d, false⟩).2.finError = true) := by
  induction fuel with
  | zero => intro d h; omega
  | succ f ih =>
    intro d hd
    match d with
    | [] => simp [ipsLoop, Lexer.has, Val4.addrs]
    | [_] | [_, _] | [_, _, _] => simp [ipsLoop, Lexer.has, Val4.addrs, Lexer.finError]
    | a :: b :: c :: e :: r =>
      have hr : r.length < f := by simp at hd; omega
      obtain ⟨ih1, ih2⟩ := ih r hr
      rw [ipsLoop_step, Val4.addrs]
      cases hs : Val4.addrs r with
      | none => simp [ih2 hs]
      | some ys => simp [ih1 ys hs]

theorem ipsFromBytes_eq (v : Bytes) : ipsFromBytes v = (Val4.ips v).map (fun xs => xs.map some) := by
  unfold ipsFromBytes Val4.ips
  match v with
  | [] => simp [Lexer.new, Lexer.len]
  | a :: r =>
    obtain ⟨h1, h2⟩ := ipsLoop_spec ((a :: r).length + 1) (a :: r) (Nat.lt_succ_self _)
    simp only [Lexer.new, Lexer.len, List.length_cons, Nat.add_one_ne_zero, if_false]
    cases hs : Val4.addrs (a :: r) with
    | none =>
      have := h2 hs
      simp only [List.length_cons] at this
      simp [this]
    | some xs =>
      have := h1 xs hs
      simp only [List.length_cons] at this
      simp [this, Lexer.finError]

/-! ### Archs -/

theorem archsLoop_step (f : Nat) (a b : UInt8) (r : Bytes) :
    archsLoop (f + 1) ⟨a :: b :: r, false⟩ =
      ((a.toNat * 256 + b.toNat) :: (archsLoop f ⟨r, false⟩).1, (archsLoop f ⟨r, false⟩).2) := by
  simp [archsLoop, Lexer.has, Lexer.read16, Lexer.consume, beNat]

theorem archsLoop_spec (fuel : Nat) : ∀ (d : Bytes), d.length < fuel →
    (∀ xs, Val4.pairs d = some xs → archsLoop fuel ⟨d, false⟩ = (xs, ⟨[], false⟩)) ∧
    (Val4.pairs d = none → (archsLoop fuel ⟨d, false⟩).2.finError = true) := by
  induction fuel with
  | zero => intro d h; omega
  | succ f ih =>
    intro d hd
    match d with
    | [] => simp [archsLoop, Lexer.has, Val4.pairs]
    | [_] => simp [archsLoop, Lexer.has, Val4.pairs, Lexer.finError]
    | a :: b :: r =>
      have hr : r.length < f := by simp at hd; omega
      obtain ⟨ih1, ih2⟩ := ih r hr
      rw [archsLoop_step, Val4.pairs]
      cases hs : Val4.pairs r with
      | none => simp [ih2 hs]
      | some ys => simp [ih1 ys hs]

theorem archsFromBytes_eq (v : Bytes) : archsFromBytes v = Val4.archs v := by
  unfold archsFromBytes Val4.archs
  match v with
  | [] => simp [Lexer.new, Lexer.len]
  | a :: r =>
    obtain ⟨h1, h2⟩ := archsLoop_spec ((a :: r).length + 1) (a :: r) (Nat.lt_succ_self _)
    simp only [Lexer.new, Lexer.len, List.length_cons, Nat.add_one_ne_zero, if_false]
    cases hs : Val4.pairs (a :: r) with
    | none =>
      have := h2 hs
      simp only [List.length_cons] at this
      simp [this]
    | some xs =>
      have := h1 xs hs
      simp only [List.length_cons] at this
      simp [this, Lexer.finError]

/-! ### OptionCodeList -/

theorem codesLoop_spec (fuel : Nat) : ∀ (d : Bytes), d.length < fuel →
    codesLoop fuel ⟨d, false⟩ = (d, ⟨[], false⟩) := by
  induction fuel with
  | zero => intro d h; omega
  | succ f ih =>
    intro d hd
    match d with
    | [] => simp [codesLoop, Lexer.has]
    | a :: r =>
      have hr : r.length < f := by simp at hd; omega
      simp [codesLoop, Lexer.has, ih r hr]

theorem codesFromBytes_eq (v : Bytes) : codesFromBytes v = Val4.codes v := by
  unfold codesFromBytes Val4.codes
  simp [Lexer.new, codesLoop_spec (v.length + 1) v (Nat.lt_succ_self _), Lexer.finError]

/-! ### sticky error -/

theorem consume_err (l : Lexer) (n : Nat) (h : l.err = true) : (l.consume n).2.err = true := by
  unfold Lexer.consume; split <;> simp [h]

theorem read8_err (l : Lexer) (h : l.err = true) : (l.read8).2.err = true := by
  have := consume_err l 1 h
  unfold Lexer.read8
  split <;> simp_all

theorem read32_err (l : Lexer) (h : l.err = true) : (l.read32).2.err = true := by
  have := consume_err l 4 h
  unfold Lexer.read32
  split <;> simp_all

theorem copyN_err (l : Lexer) (n : Nat) (h : l.err = true) : (l.copyN n).2.err = true :=
  consume_err l n h

/-! ### Strings (RFC 3004) -/

theorem stringsLoop_err (fuel : Nat) : ∀ (l : Lexer), l.err = true →
    ∀ xs l', stringsLoop fuel l = some (xs, l') → l'.err = true := by
  induction fuel with
  | zero => intro l h xs l' heq; simp [stringsLoop] at heq; rw [← heq.2]; exact h
  | succ f ih =>
    intro l h xs l' heq
    unfold stringsLoop at heq
    by_cases hh : l.has 1 = true
    · simp only [hh, if_true] at heq
      by_cases hn : l.read8.1 = 0
      · simp [hn] at heq
      · simp only [hn, if_false] at heq
        have h2 := copyN_err l.read8.2 l.read8.1.toNat (read8_err l h)
        cases hr : stringsLoop f (l.read8.2.copyN l.read8.1.toNat).2 with
        | none => simp [hr] at heq
        | some p =>
          obtain ⟨ys, l2⟩ := p
          simp only [hr, Option.some.injEq, Prod.mk.injEq] at heq
          rw [← heq.2]
          exact ih _ h2 ys l2 hr
    · simp only [hh] at heq
      simp at heq
      rw [← heq.2]; exact h

theorem stringsLoop_step (f : Nat) (n : UInt8) (r : Bytes) (hn : n ≠ 0) (hl : n.toNat ≤ r.length) :
    stringsLoop (f + 1) ⟨n :: r, false⟩ =
      (match stringsLoop f ⟨r.drop n.toNat, false⟩ with
       | none => none
       | some (rest, l) => some (r.take n.toNat :: rest, l)) := by
  simp [stringsLoop, Lexer.has, Lexer.copyN, Lexer.consume, hn, hl]
  cases stringsLoop f ⟨r.drop n.toNat, false⟩ <;> rfl

theorem stringsLoop_short (f : Nat) (n : UInt8) (r : Bytes) (hn : n ≠ 0) (hl : r.length < n.toNat) :
    stringsLoop (f + 1) ⟨n :: r, false⟩ =
      (match stringsLoop f ⟨r, true⟩ with
       | none => none
       | some (rest, l) => some ([] :: rest, l)) := by
  have : ¬ n.toNat ≤ r.length := by omega
  simp [stringsLoop, Lexer.has, Lexer.copyN, Lexer.consume, hn, this]
  cases stringsLoop f ⟨r, true⟩ <;> rfl

theorem stringsLoop_spec (fuel : Nat) : ∀ (d : Bytes), d.length < fuel →
    (∀ xs, Val4.classes d = some xs → stringsLoop fuel ⟨d, false⟩ = some (xs, ⟨[], false⟩)) ∧
    (Val4.classes d = none →
      ∀ xs l, stringsLoop fuel ⟨d, false⟩ = some (xs, l) → l.finError = true) := by
  induction fuel with
  | zero => intro d h; omega
  | succ f ih =>
    intro d hd
    match d with
    | [] => simp [stringsLoop, Lexer.has, Val4.classes]
    | n :: r =>
      rw [Val4.classes]
      by_cases hn : n = 0
      · subst hn
        simp [stringsLoop, Lexer.has]
      · by_cases hl : r.length < n.toNat
        · have hc : (n = 0 ∨ r.length < n.toNat) := Or.inr hl
          simp only [hc, if_true]
          refine ⟨by simp, ?_⟩
          intro _ xs l heq
          rw [stringsLoop_short f n r hn hl] at heq
          cases hr : stringsLoop f ⟨r, true⟩ with
          | none => simp [hr] at heq
          | some p =>
            obtain ⟨ys, l2⟩ := p
            simp only [hr, Option.some.injEq, Prod.mk.injEq] at heq
            have := stringsLoop_err f ⟨r, true⟩ rfl ys l2 hr
            rw [← heq.2]; simp [Lexer.finError, this]
        · have hc : ¬ (n = 0 ∨ r.length < n.toNat) := by simp [hn, hl]
          have hle : n.toNat ≤ r.length := by omega
          simp only [hc, if_false]
          have hr : (r.drop n.toNat).length < f := by simp at hd ⊢; omega
          obtain ⟨ih1, ih2⟩ := ih (r.drop n.toNat) hr
          rw [stringsLoop_step f n r hn hle]
          cases hs : Val4.classes (r.drop n.toNat) with
          | none =>
            refine ⟨by simp, ?_⟩
            intro _ xs l heq
            cases hq : stringsLoop f ⟨r.drop n.toNat, false⟩ with
            | none => simp [hq] at heq
            | some p =>
              obtain ⟨ys, l2⟩ := p
              simp only [hq, Option.some.injEq, Prod.mk.injEq] at heq
              rw [← heq.2]; exact ih2 hs ys l2 hq
          | some ys =>
            refine ⟨?_, by simp⟩
            intro xs hxs
            simp only [Option.map_some, Option.some.injEq] at hxs
            simp [ih1 ys hs, hxs]

theorem stringsFromBytes_eq (v : Bytes) : stringsFromBytes v = Val4.userClasses v := by
  unfold stringsFromBytes Val4.userClasses
  match v with
  | [] => simp [Lexer.new, Lexer.len]
  | a :: r =>
    obtain ⟨h1, h2⟩ := stringsLoop_spec ((a :: r).length + 1) (a :: r) (Nat.lt_succ_self _)
    simp only [Lexer.new, Lexer.len, List.length_cons, Nat.add_one_ne_zero, if_false]
    simp only [List.length_cons] at h1 h2
    cases hs : Val4.classes (a :: r) with
    | none =>
      cases hq : stringsLoop (r.length + 1 + 1) ⟨a :: r, false⟩ with
      | none => rfl
      | some p =>
        obtain ⟨ys, l2⟩ := p
        simp [h2 hs ys l2 hq]
    | some xs =>
      simp [h1 xs hs, Lexer.finError]

end Dhcp.V4

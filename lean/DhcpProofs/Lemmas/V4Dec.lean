import DhcpProofs.Lemmas.V4Marshal
/- `dec4` on an input laid out as the fixed BOOTP header + cookie + options. -/
namespace Dhcp.V4
open Dhcp List

theorem optsFromBytes_eq (o : Opts) (data : Bytes) (checkEnd : Bool) :
    optsFromBytes o data checkEnd =
      if data.length = 0 then some o
      else match optsLoop' (Lexer.new data) o with
        | none => none
        | some (o', endSeen) => if !endSeen && checkEnd then none else some o' := rfl

/-- The header reads of `FromBytes` on a buffer holding a complete header. -/
theorem dec4_layout (op ht hl hops : UInt8) (xid ci yi si gi chaddr sname file cookie rest : Bytes)
    (secs flags : Nat) (hx : xid.length = 4) (hs : secs < 65536) (hf : flags < 65536)
    (hci : ci.length = 4) (hyi : yi.length = 4) (hsi : si.length = 4) (hgi : gi.length = 4)
    (hch : chaddr.length = 16) (hsn : sname.length = 64) (hfl : file.length = 128)
    (hck : cookie.length = 4) :
    dec4 (op :: ht :: hl :: hops :: (xid ++ (be16 secs ++ (be16 flags ++ (ci ++ (yi ++ (si ++ (gi ++
      (chaddr ++ (sname ++ (file ++ (cookie ++ rest)))))))))))) =
    if cookie ≠ magicCookie then .err
    else match optsFromBytes Opts.empty rest true with
      | none => .err
      | some o =>
        .ok { op := op, htype := ht.toNat, hw := chaddr.take (if hl.toNat > 16 then 16 else hl.toNat),
              hops := hops, xid := xid, secs := secs, flags := flags, ciaddr := some ci,
              yiaddr := some yi, siaddr := some si, giaddr := some gi, sname := cutNul sname,
              file := cutNul file, opts := o } := by
  unfold dec4
  simp only [Lexer.new, Lexer.read8_cons]
  rw [Lexer.readBytes_append xid _ false hx.symm]
  simp only
  rw [Lexer.read16_append secs hs]
  simp only
  rw [Lexer.read16_append flags hf]
  simp only
  rw [Lexer.copyN_append ci _ false hci.symm]
  simp only
  rw [Lexer.copyN_append yi _ false hyi.symm]
  simp only
  rw [Lexer.copyN_append si _ false hsi.symm]
  simp only
  rw [Lexer.copyN_append gi _ false hgi.symm]
  simp only
  rw [Lexer.readBytes_append chaddr _ false hch.symm]
  simp only
  rw [Lexer.readBytes_append sname _ false hsn.symm]
  simp only
  rw [Lexer.readBytes_append file _ false hfl.symm]
  simp only
  rw [Lexer.readBytes_append cookie _ false hck.symm]
  simp only [Lexer.error, Bool.false_eq_true, if_false]
  by_cases h : cookie ≠ magicCookie
  · rw [if_pos h, if_pos h]
  · rw [if_neg h, if_neg h]
    cases optsFromBytes Opts.empty rest true <;> rfl

end Dhcp.V4

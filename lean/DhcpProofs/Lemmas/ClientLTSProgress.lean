import DhcpProofs.Lemmas.ClientLTSHist
/-
  Progress after Close (C11, part 2): in every reachable state in which the
  client is closed, either everything has finished or some step of the client
  itself (not of the environment) is enabled.
-/
namespace Dhcp.Client.LTS

/-- everything has wound down: the receive loop has exited, Close has
returned, every call has returned (or was never made) -/
def AllDone (s : State) : Prop :=
  s.rx = .exited ∧ s.closeReturned = true ∧ ∀ i, (getC s i).pc = .idle ∨ ∃ res, (getC s i).pc = .returned res

/-- some step of the receive loop, of Close or of a caller is enabled -/
def CanStep (cfg : Cfg) (s : State) : Prop := ∃ l, isEnv l = false ∧ (step cfg s l).isSome = true

/-- A caller that is neither idle nor returned can move, or whoever holds the
mutex it needs can. -/
theorem caller_can_step (cfg : Cfg) (s : State) (hm : MutexInv s) (hc : s.closed = true) (hrx : s.rx.inCS = false)
    (i : Nat) (h1 : (getC s i).pc ≠ .idle) (h2 : ∀ res, (getC s i).pc ≠ .returned res) : CanStep cfg s := by
  have hnorx : s.mutex ≠ some .rx := fun h => by have := hm.rx.1 h; rw [hrx] at this; exact Bool.noConfusion this
  -- a caller inside a lock region can always leave it
  have inCS_moves : ∀ j, (getC s j).pc.inCS = true → CanStep cfg s := by
    intro j hj
    have hmj : s.mutex = some (.caller j) := (hm.c j).2 hj
    cases hpc : (getC s j).pc <;> rw [hpc] at hj <;> simp at hj
    · -- regLocked
      cases hp : s.pending.get (cfg.caller j).xid with
      | none => exact ⟨.register j, rfl, by simp [step, hpc, hmj, hp]⟩
      | some r => exact ⟨.refuse j, rfl, by simp [step, hpc, hmj, hp]⟩
    · -- cancelLocked
      next r w =>
      refine ⟨.cancel2 j, rfl, ?_⟩
      simp only [step, hpc, hmj]
      cases hp : s.pending.get (cfg.caller j).xid with
      | none => simp
      | some r' =>
        simp only [ne_eq, not_true_eq_false, if_false]
        split <;> (try split) <;> simp
  -- somebody who wants the mutex
  have wants : ∀ j, ((getC s j).pc = .start ∨ ∃ r w, (getC s j).pc = .leaving2 r w) → CanStep cfg s := by
    intro j hj
    cases hmu : s.mutex with
    | none =>
      refine ⟨.lock j, rfl, ?_⟩
      rcases hj with hj | ⟨r, w, hj⟩ <;> simp [step, hj, hmu]
    | some o =>
      cases o with
      | rx => exact absurd hmu hnorx
      | caller k => exact inCS_moves k ((hm.c k).1 hmu)
  cases hpc : (getC s i).pc with
  | idle => exact absurd hpc h1
  | returned res => exact absurd hpc (h2 res)
  | start => exact wants i (Or.inl hpc)
  | leaving2 r w => exact wants i (Or.inr ⟨r, w, hpc⟩)
  | regLocked => exact inCS_moves i (by rw [hpc]; rfl)
  | cancelLocked r w => exact inCS_moves i (by rw [hpc]; rfl)
  | registered r => exact ⟨.transmitFail i, rfl, by simp [step, hpc, hc]⟩
  | waiting r => exact ⟨.giveUpClosed i, rfl, by simp [step, hpc, hc]⟩
  | matching r p =>
    cases p with
    | none =>
      refine ⟨.accept i, rfl, ?_⟩
      simp only [step, hpc]; split <;> simp
    | some p =>
      by_cases ha : accepted (cfg.caller i) p.d = true
      · exact ⟨.accept i, rfl, by simp [step, hpc, ha]⟩
      · exact ⟨.reject i, rfl, by simp [step, hpc, ha]⟩
  | leaving r w =>
    refine ⟨.cancel1 i, rfl, ?_⟩
    simp only [step, hpc]; split <;> simp
  | after w =>
    by_cases hd : w = .deadline ∧ decTries (getC s i).triesLeft ≠ some 0
    · obtain ⟨rfl, hd⟩ := hd
      exact ⟨.nextTry i, rfl, by simp [step, hpc, hd]⟩
    · exact ⟨.ret i, rfl, by simp [step, hpc, hd]⟩

/-- Deadlock freedom after Close. -/
theorem closed_progress (cfg : Cfg) (hf : cfg.cancelChecksOwner = true) (s : State) (hr : Reachable cfg s)
    (hc : s.closed = true) : AllDone s ∨ CanStep cfg s := by
  have hi := reach_all cfg hf s hr
  have hm := hi.m
  cases hrx : s.rx with
  | idle => exact Or.inr ⟨.rxExit, rfl, by simp [step, hrx, hc]⟩
  | got p =>
    by_cases hok : p.d.ok = true
    · exact Or.inr ⟨.rxPass, rfl, by simp [step, hrx, hok]⟩
    · exact Or.inr ⟨.rxDrop, rfl, by simp [step, hrx, hok]⟩
  | unlocking =>
    have hmu : s.mutex = some .rx := hm.rx.2 (by rw [hrx]; rfl)
    exact Or.inr ⟨.rxUnlock, rfl, by simp [step, hrx, hmu]⟩
  | passed p =>
    cases hmu : s.mutex with
    | none => exact Or.inr ⟨.rxLock, rfl, by simp [step, hrx, hmu]⟩
    | some o =>
      cases o with
      | rx => have := hm.rx.1 hmu; rw [hrx] at this; simp at this
      | caller k =>
        have hk := (hm.c k).1 hmu
        refine Or.inr (caller_can_step cfg s hm hc (by rw [hrx]; rfl) k ?_ ?_)
        · intro h; rw [h] at hk; simp at hk
        · intro res h; rw [h] at hk; simp at hk
  | sending p r =>
    have hmu : s.mutex = some .rx := hm.rx.2 (by rw [hrx]; rfl)
    have hpend := hi.w.rxsend p r hrx
    have hown := hi.w.powner _ r hpend
    have hcl := (hi.w.pend _ r hpend).2.2
    by_cases hdc : (getR s r).doneClosed = true
    · exact Or.inr ⟨.rxDoneDrop, rfl, by simp [step, hrx, hmu, hdc, hcl]⟩
    · -- `done` still open: its owner is registered / waiting / matching / about to close it, and can move
      have hopen := (hi.w.dopen _ r hown).1 (by simpa using hdc)
      by_cases hroom : (getR s r).buf.length < (getR s r).cap ∨
          ((getR s r).buf = [] ∧ (getC s (getR s r).owner).pc = .waiting r)
      · exact Or.inr ⟨.rxDeliver, rfl, by simp [step, hrx, hmu, hroom, hcl]⟩
      · -- the loop is parked on a full channel holding the mutex: the owner is not in a lock region
        have hne : (getC s (getR s r).owner).pc ≠ .idle := by
          intro h; rw [h] at hopen; simp at hopen
        have hnr : ∀ res, (getC s (getR s r).owner).pc ≠ .returned res := by
          intro res h; rw [h] at hopen; simp at hopen
        -- reuse the caller lemma on a state description where rx is "in CS": do the cases directly
        cases hpc : (getC s (getR s r).owner).pc with
        | registered r' => exact Or.inr ⟨.transmitFail (getR s r).owner, rfl, by simp [step, hpc, hc]⟩
        | waiting r' => exact Or.inr ⟨.giveUpClosed (getR s r).owner, rfl, by simp [step, hpc, hc]⟩
        | matching r' q =>
          cases q with
          | none => exact absurd hpc (hi.w.nonil _ r')
          | some q =>
            by_cases ha : accepted (cfg.caller (getR s r).owner) q.d = true
            · exact Or.inr ⟨.accept (getR s r).owner, rfl, by simp [step, hpc, ha]⟩
            · exact Or.inr ⟨.reject (getR s r).owner, rfl, by simp [step, hpc, ha]⟩
        | leaving r' w =>
          refine Or.inr ⟨.cancel1 (getR s r).owner, rfl, ?_⟩
          simp only [step, hpc]; split <;> simp
        | idle => exact absurd hpc hne
        | returned res => exact absurd hpc (hnr res)
        | start => rw [hpc] at hopen; simp at hopen
        | regLocked => rw [hpc] at hopen; simp at hopen
        | leaving2 r' w => rw [hpc] at hopen; simp at hopen
        | cancelLocked r' w => rw [hpc] at hopen; simp at hopen
        | after w => rw [hpc] at hopen; simp at hopen
  | exited =>
    by_cases hcr : s.closeReturned = true
    · by_cases hall : ∀ i, (getC s i).pc = .idle ∨ ∃ res, (getC s i).pc = .returned res
      · exact Or.inl ⟨hrx, hcr, hall⟩
      · have ⟨i, hi'⟩ := Classical.not_forall.1 hall
        have h1 : (getC s i).pc ≠ .idle := fun h => hi' (Or.inl h)
        have h2 : ∀ res, (getC s i).pc ≠ .returned res := fun res h => hi' (Or.inr ⟨res, h⟩)
        exact Or.inr (caller_can_step cfg s hm hc (by rw [hrx]; rfl) i h1 h2)
    · exact Or.inr ⟨.closeReturn, rfl, by simp [step, hrx, hc, hcr]⟩

/-! ### Variants: every process has only finitely many steps left after Close -/

def rxRank : RPc → Nat
  | .exited => 0 | .idle => 1 | .unlocking => 2 | .sending _ _ => 8 | .passed _ => 9 | .got _ => 10

/-- work the receive loop and Close can still do -/
def rxPot (s : State) : Nat := rxRank s.rx + 12 * s.inq.length + (if s.closeReturned then 0 else 1)

def whyRank : Why → Nat
  | .deadline => 14
  | _ => 1

def crank : CPc → Nat
  | .idle => 0
  | .returned _ => 0
  | .after w => whyRank w
  | .cancelLocked _ w => whyRank w + 1
  | .leaving2 _ w => whyRank w + 2
  | .leaving _ w => whyRank w + 3
  | .registered _ => 5
  | .regLocked => 6
  | .start => 7
  | .waiting _ => 18
  | .matching _ _ => 19

def bufOf (s : State) (pc : CPc) : Nat :=
  match pc.reg with
  | some r => (getR s r).buf.length
  | none => 0

/-- variant of caller `i` after Close -/
def mu (i : Nat) (s : State) : Nat := crank (getC s i).pc + 2 * bufOf s (getC s i).pc + rxPot s

section
variable (r : Nat) (p : Pkt) (op : Option Pkt) (w : Why) (res : Ret)
@[simp, grind =] theorem rxRank_exited : rxRank .exited = 0 := rfl
@[simp, grind =] theorem rxRank_idle : rxRank .idle = 1 := rfl
@[simp, grind =] theorem rxRank_unlocking : rxRank .unlocking = 2 := rfl
@[simp, grind =] theorem rxRank_sending : rxRank (.sending p r) = 8 := rfl
@[simp, grind =] theorem rxRank_passed : rxRank (.passed p) = 9 := rfl
@[simp, grind =] theorem rxRank_got : rxRank (.got p) = 10 := rfl
@[simp, grind =] theorem crank_idle : crank .idle = 0 := rfl
@[simp, grind =] theorem crank_returned : crank (.returned res) = 0 := rfl
@[simp, grind =] theorem crank_after : crank (.after w) = whyRank w := rfl
@[simp, grind =] theorem crank_cancelLocked : crank (.cancelLocked r w) = whyRank w + 1 := rfl
@[simp, grind =] theorem crank_leaving2 : crank (.leaving2 r w) = whyRank w + 2 := rfl
@[simp, grind =] theorem crank_leaving : crank (.leaving r w) = whyRank w + 3 := rfl
@[simp, grind =] theorem crank_registered : crank (.registered r) = 5 := rfl
@[simp, grind =] theorem crank_regLocked : crank .regLocked = 6 := rfl
@[simp, grind =] theorem crank_start : crank .start = 7 := rfl
@[simp, grind =] theorem crank_waiting : crank (.waiting r) = 18 := rfl
@[simp, grind =] theorem crank_matching : crank (.matching r op) = 19 := rfl
@[simp, grind =] theorem whyRank_deadline : whyRank .deadline = 14 := rfl
@[simp, grind =] theorem whyRank_ctx : whyRank .ctx = 1 := rfl
@[simp, grind =] theorem whyRank_closed : whyRank .closed = 1 := rfl
@[simp, grind =] theorem whyRank_txfail : whyRank .txfail = 1 := rfl
@[simp, grind =] theorem whyRank_txerr : whyRank .txerr = 1 := rfl
@[simp, grind =] theorem whyRank_resp : whyRank (.resp op) = 1 := rfl
end
theorem whyRank_le (w : Why) : 1 ≤ whyRank w ∧ whyRank w ≤ 14 := by cases w <;> simp [whyRank]
@[simp] theorem whyRank_pos (w : Why) : 0 < whyRank w := (whyRank_le w).1

set_option maxHeartbeats 2000000 in
theorem mu_mono (cfg : Cfg) (s s' : State) (l : Label) (i : Nat) (hc : s.closed = true) (hw : WF cfg s)
    (hl : isEnv l = false) (h : step cfg s l = some s') : mu i s' ≤ mu i s := by
  obtain ⟨hpend, hpcreg, hdopen, hdpend, hpowner, hrxsend, hnf, hnonil⟩ := hw
  lts_cases l h
  all_goals (first | (simp [isEnv] at hl; done) | skip)
  all_goals (simp_all [mu, rxPot, bufOf, getC, getR])
  all_goals (try split)
  all_goals (first | (simp_all; done) | omega | grind | skip)

/-- labels of caller `i`, of the receive loop and of Close's wait -/
def movesFor (i : Nat) : Label → Bool
  | .rxRead | .rxExit | .rxDrop | .rxPass | .rxLock | .rxDeliver | .rxDoneDrop | .rxUnlock | .closeReturn => true
  | .lock j | .register j | .refuse j | .transmit j | .transmitFail j | .transmitErr j | .take j | .accept j | .reject j
  | .giveUp j | .giveUpCtx j | .giveUpClosed j | .cancel1 j | .cancel2 j | .nextTry j | .ret j => j == i
  | _ => false

set_option maxHeartbeats 2000000 in
theorem mu_strict (cfg : Cfg) (s s' : State) (l : Label) (i : Nat) (hc : s.closed = true) (hw : WF cfg s)
    (hl : movesFor i l = true) (h : step cfg s l = some s') : mu i s' < mu i s := by
  obtain ⟨hpend, hpcreg, hdopen, hdpend, hpowner, hrxsend, hnf, hnonil⟩ := hw
  lts_cases l h
  all_goals (first | (simp [movesFor] at hl; done) | skip)
  all_goals (simp_all [mu, rxPot, bufOf, getC, getR, movesFor])
  all_goals (try split)
  all_goals (first | (simp_all; done) | omega | grind | skip)


end Dhcp.Client.LTS

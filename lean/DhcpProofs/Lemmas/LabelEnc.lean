import DhcpProofs.Lemmas.LabelSpec
/-
  The encoder `labelToBytes` / `labelsToBytes` on valid names: the model's
  `strings.Split` agrees with the spec's `nameLabels`, and the encoding of a
  list of valid names has exactly that list as its RFC reading.
-/
namespace Dhcp.Label
open Dhcp Dhcp.Spec.Name List

theorem nameLabels_ne_nil (s : Bytes) : nameLabels s ≠ [] := by
  induction s with
  | nil => simp [nameLabels]
  | cons b t ih =>
    unfold nameLabels
    by_cases hb : b = 46
    · simp [hb]
    · simp only [hb, if_false]
      cases h : nameLabels t with
      | nil => simp
      | cons p ps => simp

/-- prepend `cur` to the first part -/
def headApp (cur : Bytes) : List Bytes → List Bytes
  | [] => [cur]
  | p :: ps => (cur ++ p) :: ps

theorem splitAux_eq (s : Bytes) : ∀ cur, splitAux cur s = headApp cur (nameLabels s) := by
  induction s with
  | nil => intro cur; simp [splitAux, nameLabels, headApp]
  | cons b t ih =>
    intro cur
    unfold splitAux nameLabels
    by_cases hb : b = 46
    · simp only [hb, if_true, headApp, List.append_nil]
      rw [ih []]
      cases h : nameLabels t with
      | nil => exact absurd h (nameLabels_ne_nil t)
      | cons p ps => simp [headApp]
    · simp only [hb, if_false]
      rw [ih (cur ++ [b])]
      cases h : nameLabels t with
      | nil => exact absurd h (nameLabels_ne_nil t)
      | cons p ps => simp [headApp]

/-- the model's `strings.Split(s, ".")` is the spec's `nameLabels` -/
theorem splitDot_eq (s : Bytes) : splitDot s = nameLabels s := by
  unfold splitDot
  rw [splitAux_eq]
  cases h : nameLabels s with
  | nil => exact absurd h (nameLabels_ne_nil s)
  | cons p ps => simp [headApp]

theorem dotted_nameLabels (s : Bytes) : dotted (nameLabels s) = s := by
  induction s with
  | nil => simp [nameLabels, dotted]
  | cons b t ih =>
    unfold nameLabels
    cases h : nameLabels t with
    | nil => exact absurd h (nameLabels_ne_nil t)
    | cons p ps =>
      rw [h] at ih
      by_cases hb : b = 46
      · simp only [hb, if_true, dotted, List.nil_append, ih]
      · simp only [hb, if_false]
        cases ps with
        | nil => simp only [dotted] at ih ⊢; rw [ih]
        | cons p' ps' =>
          simp only [dotted] at ih ⊢
          rw [← ih]; simp

/-- wire form of a run of labels (`byte(len(part))`, then the part) -/
def encLabels (ls : List Bytes) : Bytes := ls.flatMap (fun p => UInt8.ofNat p.length :: p)

theorem labelSeq_encLabels (ls : List Bytes) (rest : Bytes)
    (h : ∀ l ∈ ls, 1 ≤ l.length ∧ l.length ≤ 63) : LabelSeq (encLabels ls ++ rest) ls rest := by
  induction ls with
  | nil => simp [encLabels]; exact LabelSeq.nil rest
  | cons l ls ih =>
    have hl := h l (by simp)
    have := LabelSeq.cons l ls (encLabels ls ++ rest) rest hl.1 hl.2
      (ih (fun x hx => h x (by simp [hx])))
    simpa [encLabels, List.append_assoc] using this

theorem labelToBytes_of_ne_nil {n : Bytes} (h : n ≠ []) :
    labelToBytes n = encLabels (nameLabels n) ++ [0] := by
  unfold labelToBytes encLabels
  have : ¬ n.length = 0 := by
    intro e; exact h (List.eq_nil_of_length_eq_zero e)
  simp only [this, if_false, splitDot_eq]

theorem labelsToBytes_cons (n : Bytes) (ns : List Bytes) :
    labelsToBytes (n :: ns) = labelToBytes n ++ labelsToBytes ns := by
  simp [labelsToBytes]

/-- The encoding of valid names reads back, per the RFC, as those names. -/
theorem names_encode (msg : Bytes) (ns : List Bytes) (h : ValidNames ns) :
    Names msg (labelsToBytes ns) ns := by
  induction ns with
  | nil => simp [labelsToBytes]; exact Names.done
  | cons n ns ih =>
    have hn : ValidName n := h n (by simp)
    have ih' := ih (fun x hx => h x (by simp [hx]))
    rw [labelsToBytes_cons]
    by_cases hnil : n = []
    · subst hnil
      have : labelToBytes [] = [0] := by simp [labelToBytes]
      rw [this]
      have := Names.plain (msg := msg) ([0] ++ labelsToBytes ns) [] (labelsToBytes ns) ns
        (LabelSeq.nil _) (by simp [dotted]) ih'
      simpa [dotted] using this
    · rw [labelToBytes_of_ne_nil hnil]
      have hall : ∀ l ∈ nameLabels n, 1 ≤ l.length ∧ l.length ≤ 63 := by
        rcases hn.2 with e | e
        · exact absurd e hnil
        · exact e
      have hseq := labelSeq_encLabels (nameLabels n) (0 :: labelsToBytes ns) hall
      have hlen : (dotted (nameLabels n)).length ≤ maxDotted := by
        rw [dotted_nameLabels]; exact hn.1
      have := Names.plain (msg := msg) _ (nameLabels n) (labelsToBytes ns) ns hseq hlen ih'
      rw [dotted_nameLabels] at this
      simpa [List.append_assoc] using this

end Dhcp.Label

import Dhcp.Raw
import Dhcp.Spec.Inet
import DhcpProofs.Lemmas.Basic
/-
  Arithmetic of the Internet checksum: the model's uint32 accumulator never
  wraps on buffers shorter than 2^16 bytes, `checksumCombine` folds to the
  representative mod 65535, and the specification's end-around-carry sum has
  the same mod-65535 semantics.
-/
namespace Dhcp.Raw
open Dhcp Dhcp.Spec.Inet

/-! ### the specification's sum, mod 65535 -/

theorem words_lt : ∀ (bs : Bytes), ∀ w ∈ words bs, w < 65536
  | [], w, h => by simp [words] at h
  | [a], w, h => by
    simp [words] at h; subst h
    have := a.toNat_lt; omega
  | a :: b :: rest, w, h => by
    simp only [words, List.mem_cons] at h
    rcases h with h | h
    · subst h; have := a.toNat_lt; have := b.toNat_lt; omega
    · exact words_lt rest w h

theorem words_append_even : ∀ (a b : Bytes), a.length % 2 = 0 → words (a ++ b) = words a ++ words b
  | [], b, _ => by simp [words]
  | [x], b, h => by simp at h
  | x :: y :: rest, b, h => by
    have h' : rest.length % 2 = 0 := by simp at h; omega
    simp [words, words_append_even rest b h']

theorem wordSum_append_even (a b : Bytes) (h : a.length % 2 = 0) :
    wordSum (a ++ b) = wordSum a + wordSum b := by
  simp [wordSum, words_append_even a b h]

theorem wordSum_le : ∀ (bs : Bytes), wordSum bs ≤ 65535 * ((bs.length + 1) / 2)
  | [] => by simp [wordSum, words]
  | [a] => by
    simp [wordSum, words]; have := a.toNat_lt; omega
  | a :: b :: rest => by
    have ih := wordSum_le rest
    simp only [wordSum, words, List.sum_cons, List.length_cons] at ih ⊢
    have := a.toNat_lt; have := b.toNat_lt; omega

/-- Representation invariant of a running one's-complement sum `x` of data
whose integer word sum is `T`: a 16-bit value congruent to `T` mod 65535 that
is zero only when `T` is. -/
def Rep (x T : Nat) : Prop := x < 65536 ∧ x % 65535 = T % 65535 ∧ (x = 0 ↔ T = 0)

theorem Rep.zero : Rep 0 0 := by simp [Rep]

theorem ocAdd_rep {x T w : Nat} (h : Rep x T) (hw : w < 65536) : Rep (ocAdd x w) (T + w) := by
  obtain ⟨h1, h2, h3⟩ := h
  unfold ocAdd Rep
  split <;> omega

theorem foldl_ocAdd_rep : ∀ (ws : List Nat) (x T : Nat), Rep x T → (∀ w ∈ ws, w < 65536) →
    Rep (ws.foldl ocAdd x) (T + ws.sum)
  | [], x, T, h, _ => by simpa using h
  | w :: ws, x, T, h, hw => by
    have := foldl_ocAdd_rep ws (ocAdd x w) (T + w) (ocAdd_rep h (hw w (by simp)))
      (fun v hv => hw v (by simp [hv]))
    simpa [Nat.add_assoc] using this

theorem ocSumW_rep (ws : List Nat) (hw : ∀ w ∈ ws, w < 65536) : Rep (ocSumW ws) ws.sum := by
  simpa [ocSumW] using foldl_ocAdd_rep ws 0 0 Rep.zero hw

/-- mod-65535 semantics of the RFC 1071 sum: all ones exactly when the integer
sum of the words is a positive multiple of 65535. -/
theorem ocSumW_eq_ffff_iff (ws : List Nat) (hw : ∀ w ∈ ws, w < 65536) :
    ocSumW ws = 0xFFFF ↔ 0 < ws.sum ∧ ws.sum % 65535 = 0 := by
  obtain ⟨h1, h2, h3⟩ := ocSumW_rep ws hw
  omega

theorem ocSumW_eq (ws : List Nat) (hw : ∀ w ∈ ws, w < 65536) :
    ocSumW ws = if ws.sum = 0 then 0 else (ws.sum - 1) % 65535 + 1 := by
  obtain ⟨h1, h2, h3⟩ := ocSumW_rep ws hw
  split <;> omega

/-! ### the model's checksum -/

theorem combine_eq (a b : Nat) (ha : a < 65536) (hb : b < 65536) :
    checksumCombine a b = if 65536 ≤ a + b then a + b - 65535 else a + b := by
  simp only [checksumCombine, u16, u32]
  split <;> omega

/-- the final `checksumCombine(uint16(v), uint16(v>>16))` of `calculateChecksum` -/
def fold32 (v : Nat) : Nat := checksumCombine (u16 v) (u16 (v / 65536))

theorem fold32_rep (v : Nat) (h : v < 4294967296) : Rep (fold32 v) v := by
  have hb : v / 65536 < 65536 := by omega
  have e : fold32 v = if 65536 ≤ v % 65536 + v / 65536 then v % 65536 + v / 65536 - 65535
      else v % 65536 + v / 65536 := by
    simp only [fold32, u16, Nat.mod_eq_of_lt hb]
    exact combine_eq _ _ (by omega) hb
  rw [e]; unfold Rep
  split <;> omega

/-- The pair loop adds the integer word sum as long as the `uint32` does not wrap. -/
theorem sumPairs_eq : ∀ (bs : Bytes) (v : Nat), bs.length % 2 = 0 → v + wordSum bs < 4294967296 →
    sumPairs bs v = v + wordSum bs
  | [], v, _, _ => by simp [sumPairs, wordSum, words]
  | [x], v, h, _ => by simp at h
  | a :: b :: rest, v, h, hv => by
    have h' : rest.length % 2 = 0 := by simp at h; omega
    simp only [wordSum, words, List.sum_cons] at hv
    have ha := a.toNat_lt; have hb := b.toNat_lt
    have e : u32 (v + u32 (u32 (a.toNat * 256) + b.toNat)) = v + (a.toNat * 256 + b.toNat) := by
      simp only [u32]; omega
    rw [sumPairs, e, sumPairs_eq rest _ h' (by simp only [wordSum]; omega)]
    simp only [wordSum, words, List.sum_cons]; omega

theorem words_take_odd : ∀ (bs : Bytes) (h : bs.length % 2 = 1),
    wordSum bs = wordSum (bs.take (bs.length - 1)) + (bs[bs.length - 1]'(by omega)).toNat * 256
  | [], h => by simp at h
  | [a], _ => by simp [wordSum, words]
  | a :: b :: rest, h => by
    have h' : rest.length % 2 = 1 := by simp at h; omega
    have ih := words_take_odd rest h'
    have hl : 0 < rest.length := by omega
    have e1 : (a :: b :: rest).length - 1 = (rest.length - 1) + 2 := by simp; omega
    have e2 : (a :: b :: rest)[(a :: b :: rest).length - 1]'(by simp) = rest[rest.length - 1]'(by omega) := by
      simp only [e1]; rfl
    rw [e2]
    simp only [e1, List.take_succ_cons, wordSum, words, List.sum_cons] at ih ⊢
    omega

/-- `calculateChecksum` = fold of (initial + integer word sum), provided the
accumulator stays below 2^32. -/
theorem calculateChecksum_eq (buf : Bytes) (initial : Nat)
    (h : initial + wordSum buf < 4294967296) :
    calculateChecksum buf initial = fold32 (initial + wordSum buf) := by
  unfold calculateChecksum
  split
  · rename_i hodd
    have hw := words_take_odd buf hodd
    have hb := (buf[buf.length - 1]'(by omega)).toNat_lt
    have e : u32 (initial + u32 ((buf[buf.length - 1]'(by omega)).toNat * 256)) =
        initial + (buf[buf.length - 1]'(by omega)).toNat * 256 := by
      simp only [u32]; omega
    have hlen : (buf.take (buf.length - 1)).length % 2 = 0 := by
      simp [List.length_take]; omega
    simp only [e]
    rw [sumPairs_eq _ _ hlen (by omega)]
    simp only [fold32]
    have : initial + (buf[buf.length - 1]'(by omega)).toNat * 256 + wordSum (List.take (buf.length - 1) buf)
        = initial + wordSum buf := by omega
    rw [this]
  · rename_i heven
    rw [sumPairs_eq _ _ (by omega) h]
    rfl

/-- **No wrap.** For a buffer of at most 65536 bytes and a 16-bit initial value
the `uint32` accumulator of `calculateChecksum` stays below 2^32. -/
theorem no_wrap (buf : Bytes) (x : Nat) (hx : x < 65536) (hl : buf.length ≤ 65536) :
    x + wordSum buf < 4294967296 := by
  have := wordSum_le buf
  have : (buf.length + 1) / 2 ≤ 32768 := by omega
  have : 65535 * ((buf.length + 1) / 2) ≤ 65535 * 32768 := Nat.mul_le_mul_left _ this
  omega

/-- One `checksum(buf, x)` step keeps the representation invariant. -/
theorem checksum_rep {x T : Nat} (buf : Bytes) (h : Rep x T) (hl : buf.length ≤ 65536) :
    Rep (checksum buf x) (T + wordSum buf) := by
  obtain ⟨h1, h2, h3⟩ := h
  have nw := no_wrap buf x h1 hl
  have e : u32 x = x := by simp only [u32]; omega
  rw [checksum, e, calculateChecksum_eq buf x nw]
  obtain ⟨f1, f2, f3⟩ := fold32_rep _ nw
  unfold Rep
  omega

theorem checksum_lt (buf : Bytes) (x : Nat) (hx : x < 65536) (hl : buf.length ≤ 65536) :
    checksum buf x < 65536 := by
  have nw := no_wrap buf x hx hl
  have e : u32 x = x := by simp only [u32]; omega
  rw [checksum, e, calculateChecksum_eq buf x nw]
  exact (fold32_rep _ nw).1

/-- The receiver's equation: data summing to `T`, plus the complement of a
running sum representing `T`, is a positive multiple of 65535. -/
theorem rep_compl {x T : Nat} (h : Rep x T) :
    0 < T + compl16 x ∧ (T + compl16 x) % 65535 = 0 := by
  obtain ⟨h1, h2, h3⟩ := h
  simp only [compl16, u16]
  omega

end Dhcp.Raw

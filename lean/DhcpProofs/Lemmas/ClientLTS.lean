import Dhcp.Client.LTS
/-
  Helper lemmas and invariants for the interleaving model of the clients
  (C10, C11 part 2).
-/
namespace Dhcp.Client.LTS

/-! ### Finite maps -/
namespace FMap
variable {β : Type}

theorem getL_insL (k k' : Nat) (v : β) (l : List (Nat × β)) :
    getL k' (insL k v l) = if k' = k then some v else getL k' l := by
  induction l with
  | nil => simp [insL, getL]
  | cons hd t ih =>
    obtain ⟨k'', v''⟩ := hd
    unfold insL
    by_cases h1 : k < k''
    · simp [h1, getL]
    · by_cases h2 : k = k''
      · subst h2
        simp [getL]
        by_cases h3 : k' = k <;> simp [h3]
      · simp only [h1, h2, if_false, getL, ih]
        by_cases h3 : k' = k''
        · subst h3
          have : ¬ k' = k := fun h => h2 h.symm
          simp [this]
        · simp [h3]

theorem getL_delL (k k' : Nat) (l : List (Nat × β)) :
    getL k' (delL k l) = if k' = k then none else getL k' l := by
  induction l with
  | nil => simp [delL, getL]
  | cons hd t ih =>
    obtain ⟨k'', v''⟩ := hd
    unfold delL
    by_cases h2 : k = k''
    · subst h2
      simp only [if_true, ih, getL]
      by_cases h3 : k' = k <;> simp [h3]
    · simp only [h2, if_false, getL, ih]
      by_cases h3 : k' = k''
      · subst h3
        have : ¬ k' = k := fun h => h2 h.symm
        simp [this]
      · simp [h3]

@[simp] theorem get_set (m : FMap β) (k k' : Nat) (v : β) :
    (m.set k v).get k' = if k' = k then some v else m.get k' := getL_insL k k' v m.l

@[simp] theorem get_erase (m : FMap β) (k k' : Nat) :
    (m.erase k).get k' = if k' = k then none else m.get k' := getL_delL k k' m.l

@[simp] theorem get_empty (k : Nat) : (empty : FMap β).get k = none := rfl

@[simp] theorem val_set [Inhabited β] (m : FMap β) (k k' : Nat) (v : β) :
    (m.set k v).val k' = if k' = k then v else m.val k' := by
  unfold FMap.val; rw [get_set]; split <;> rfl

end FMap

/-! ### Case analysis of one step -/

/-- Split `h : step cfg s l = some s'` into one goal per enabled branch of
every label, with `s'` replaced by the explicit successor state. -/
syntax "lts_cases " ident ident : tactic
macro_rules
  | `(tactic| lts_cases $l $h) => `(tactic|
      (cases $l:ident <;> simp only [step] at $h:ident
       all_goals (repeat' split at $h:ident)
       all_goals (first | (simp at $h:ident; done) | skip)
       all_goals (try (injection $h:ident with $h:ident; subst $h:ident))))

/-! ### Program-counter classes -/

def CPc.inCS : CPc → Bool
  | .regLocked | .cancelLocked _ _ => true
  | _ => false

def RPc.inCS : RPc → Bool
  | .sending _ _ | .unlocking => true
  | _ => false

/-- the registration a caller's program counter refers to -/
def CPc.reg : CPc → Option Nat
  | .registered r | .waiting r | .matching r _ | .leaving r _ | .leaving2 r _ | .cancelLocked r _ => some r
  | _ => none

/-- `done` of the current registration has not been closed by this caller yet -/
def CPc.doneOpen : CPc → Bool
  | .registered _ | .waiting _ | .matching _ _ | .leaving _ _ => true
  | _ => false

section pcsimp
variable (r : Nat) (p : Option Pkt) (w : Why) (res : Ret) (q : Pkt)
@[simp, grind =] theorem inCS_idle : CPc.inCS .idle = false := rfl
@[simp, grind =] theorem inCS_start : CPc.inCS .start = false := rfl
@[simp, grind =] theorem inCS_regLocked : CPc.inCS .regLocked = true := rfl
@[simp, grind =] theorem inCS_registered : CPc.inCS (.registered r) = false := rfl
@[simp, grind =] theorem inCS_waiting : CPc.inCS (.waiting r) = false := rfl
@[simp, grind =] theorem inCS_matching : CPc.inCS (.matching r p) = false := rfl
@[simp, grind =] theorem inCS_leaving : CPc.inCS (.leaving r w) = false := rfl
@[simp, grind =] theorem inCS_leaving2 : CPc.inCS (.leaving2 r w) = false := rfl
@[simp, grind =] theorem inCS_cancelLocked : CPc.inCS (.cancelLocked r w) = true := rfl
@[simp, grind =] theorem inCS_after : CPc.inCS (.after w) = false := rfl
@[simp, grind =] theorem inCS_returned : CPc.inCS (.returned res) = false := rfl
@[simp, grind =] theorem rinCS_idle : RPc.inCS .idle = false := rfl
@[simp, grind =] theorem rinCS_got : RPc.inCS (.got q) = false := rfl
@[simp, grind =] theorem rinCS_passed : RPc.inCS (.passed q) = false := rfl
@[simp, grind =] theorem rinCS_sending : RPc.inCS (.sending q r) = true := rfl
@[simp, grind =] theorem rinCS_unlocking : RPc.inCS .unlocking = true := rfl
@[simp, grind =] theorem rinCS_exited : RPc.inCS .exited = false := rfl
@[simp, grind =] theorem reg_idle : CPc.reg .idle = none := rfl
@[simp, grind =] theorem reg_start : CPc.reg .start = none := rfl
@[simp, grind =] theorem reg_regLocked : CPc.reg .regLocked = none := rfl
@[simp, grind =] theorem reg_registered : CPc.reg (.registered r) = some r := rfl
@[simp, grind =] theorem reg_waiting : CPc.reg (.waiting r) = some r := rfl
@[simp, grind =] theorem reg_matching : CPc.reg (.matching r p) = some r := rfl
@[simp, grind =] theorem reg_leaving : CPc.reg (.leaving r w) = some r := rfl
@[simp, grind =] theorem reg_leaving2 : CPc.reg (.leaving2 r w) = some r := rfl
@[simp, grind =] theorem reg_cancelLocked : CPc.reg (.cancelLocked r w) = some r := rfl
@[simp, grind =] theorem reg_after : CPc.reg (.after w) = none := rfl
@[simp, grind =] theorem reg_returned : CPc.reg (.returned res) = none := rfl
@[simp, grind =] theorem dopen_idle : CPc.doneOpen .idle = false := rfl
@[simp, grind =] theorem dopen_start : CPc.doneOpen .start = false := rfl
@[simp, grind =] theorem dopen_regLocked : CPc.doneOpen .regLocked = false := rfl
@[simp, grind =] theorem dopen_registered : CPc.doneOpen (.registered r) = true := rfl
@[simp, grind =] theorem dopen_waiting : CPc.doneOpen (.waiting r) = true := rfl
@[simp, grind =] theorem dopen_matching : CPc.doneOpen (.matching r p) = true := rfl
@[simp, grind =] theorem dopen_leaving : CPc.doneOpen (.leaving r w) = true := rfl
@[simp, grind =] theorem dopen_leaving2 : CPc.doneOpen (.leaving2 r w) = false := rfl
@[simp, grind =] theorem dopen_cancelLocked : CPc.doneOpen (.cancelLocked r w) = false := rfl
@[simp, grind =] theorem dopen_after : CPc.doneOpen (.after w) = false := rfl
@[simp, grind =] theorem dopen_returned : CPc.doneOpen (.returned res) = false := rfl
end pcsimp

/-! ### Invariant 1: the mutex owner is the process inside a critical section -/

structure MutexInv (s : State) : Prop where
  rx : s.mutex = some .rx ↔ s.rx.inCS = true
  c : ∀ i, s.mutex = some (.caller i) ↔ (getC s i).pc.inCS = true

theorem init_mutex : MutexInv init := by
  constructor
  · simp [init]
  · intro i; simp [init, getC, FMap.val, FMap.get, FMap.getL, FMap.empty]; rfl

theorem step_mutex (cfg : Cfg) (s s' : State) (l : Label) (hi : MutexInv s) (h : step cfg s l = some s') :
    MutexInv s' := by
  obtain ⟨hrx, hc⟩ := hi
  lts_cases l h
  all_goals (constructor)
  all_goals (try (intro j))
  all_goals (simp_all [getC])
  all_goals (try split)
  all_goals (first | (simp_all; done) | grind)

/-! ### Invariant 2: registrations, the pending map and the `done` channels

`pend`: a pending entry exists, is filed under its own xid, and its channel is
open. `pcreg`: the registration a caller's program counter names is its own.
`dopen`: its `done` is open exactly until `cancel1`. `dpend` (needs the owner
check in `cancel`): while `done` is open the entry is pending — nobody else
removes it. `powner`: a pending entry's owner still refers to it. `rxsend`:
the entry the loop is delivering to is the pending one. `nofault`: no
close-of-closed / send-on-closed channel. `nonil`: no caller ever receives
from a closed channel. -/

structure WF (cfg : Cfg) (s : State) : Prop where
  pend : ∀ x r, s.pending.get x = some r → r < s.nregs ∧ (getR s r).xid = x ∧ (getR s r).chClosed = false
  pcreg : ∀ i r, (getC s i).pc.reg = some r → r < s.nregs ∧ (getR s r).owner = i ∧ (getR s r).xid = (cfg.caller i).xid
  dopen : ∀ i r, (getC s i).pc.reg = some r → ((getR s r).doneClosed = false ↔ (getC s i).pc.doneOpen = true)
  dpend : ∀ i r, (getC s i).pc.reg = some r → (getR s r).doneClosed = false → s.pending.get (cfg.caller i).xid = some r
  powner : ∀ x r, s.pending.get x = some r → (getC s (getR s r).owner).pc.reg = some r
  rxsend : ∀ p r, s.rx = .sending p r → s.pending.get p.d.xid = some r
  nofault : s.fault = none
  nonil : ∀ i r, (getC s i).pc ≠ .matching r none

set_option maxHeartbeats 1000000 in
theorem step_pend (cfg : Cfg) (s s' : State) (l : Label) (_hm : MutexInv s) (hw : WF cfg s)
    (h : step cfg s l = some s') :
    ∀ x r, s'.pending.get x = some r → r < s'.nregs ∧ (getR s' r).xid = x ∧ (getR s' r).chClosed = false := by
  obtain ⟨hpend, hpcreg, hdopen, hdpend, hpowner, hrxsend, hnf, hnonil⟩ := hw
  lts_cases l h
  all_goals (intro x q hq)
  all_goals (simp_all [getC, getR])
  all_goals (try split)
  all_goals (first | (simp_all; done) | grind)


set_option maxHeartbeats 1000000 in
theorem step_pcreg (cfg : Cfg) (s s' : State) (l : Label) (_hm : MutexInv s) (hw : WF cfg s)
    (h : step cfg s l = some s') :
    ∀ i r, (getC s' i).pc.reg = some r → r < s'.nregs ∧ (getR s' r).owner = i ∧ (getR s' r).xid = (cfg.caller i).xid := by
  obtain ⟨hpend, hpcreg, hdopen, hdpend, hpowner, hrxsend, hnf, hnonil⟩ := hw
  lts_cases l h
  all_goals (intro j q hq)
  all_goals (simp_all [getC, getR])
  all_goals (try split)
  all_goals (first | (simp_all; done) | grind)

set_option maxHeartbeats 1000000 in
theorem step_dopen (cfg : Cfg) (s s' : State) (l : Label) (_hm : MutexInv s) (hw : WF cfg s)
    (h : step cfg s l = some s') :
    ∀ i r, (getC s' i).pc.reg = some r → ((getR s' r).doneClosed = false ↔ (getC s' i).pc.doneOpen = true) := by
  obtain ⟨hpend, hpcreg, hdopen, hdpend, hpowner, hrxsend, hnf, hnonil⟩ := hw
  lts_cases l h
  all_goals (intro j q hq)
  all_goals (simp_all [getC, getR])
  all_goals (try split)
  all_goals (first | (simp_all; done) | grind)

set_option maxHeartbeats 1000000 in
theorem step_dpend (cfg : Cfg) (s s' : State) (l : Label) (_hf : cfg.cancelChecksOwner = true) (_hm : MutexInv s) (hw : WF cfg s)
    (h : step cfg s l = some s') :
    ∀ i r, (getC s' i).pc.reg = some r → (getR s' r).doneClosed = false → s'.pending.get (cfg.caller i).xid = some r := by
  obtain ⟨hpend, hpcreg, hdopen, hdpend, hpowner, hrxsend, hnf, hnonil⟩ := hw
  lts_cases l h
  all_goals (intro j q hq hd)
  all_goals (simp_all [getC, getR])
  all_goals (try split)
  all_goals (first | (simp_all; done) | grind)

set_option maxHeartbeats 1000000 in
theorem step_powner (cfg : Cfg) (s s' : State) (l : Label) (_hf : cfg.cancelChecksOwner = true) (_hm : MutexInv s) (hw : WF cfg s)
    (h : step cfg s l = some s') :
    ∀ x r, s'.pending.get x = some r → (getC s' (getR s' r).owner).pc.reg = some r := by
  obtain ⟨hpend, hpcreg, hdopen, hdpend, hpowner, hrxsend, hnf, hnonil⟩ := hw
  lts_cases l h
  all_goals (intro x q hq)
  all_goals (simp_all [getC, getR])
  all_goals (try split)
  all_goals (first | (simp_all; done) | grind)

set_option maxHeartbeats 1000000 in
theorem step_rxsend (cfg : Cfg) (s s' : State) (l : Label) (hm : MutexInv s) (hw : WF cfg s)
    (h : step cfg s l = some s') :
    ∀ p r, s'.rx = .sending p r → s'.pending.get p.d.xid = some r := by
  obtain ⟨hpend, hpcreg, hdopen, hdpend, hpowner, hrxsend, hnf, hnonil⟩ := hw
  obtain ⟨hmrx, hmc⟩ := hm
  lts_cases l h
  all_goals (intro p q hq)
  all_goals (simp_all [getC, getR])
  all_goals (try split)
  all_goals (first | (simp_all; done) | grind)

set_option maxHeartbeats 1000000 in
theorem step_nofault (cfg : Cfg) (s s' : State) (l : Label) (_hm : MutexInv s) (hw : WF cfg s)
    (h : step cfg s l = some s') : s'.fault = none := by
  obtain ⟨hpend, hpcreg, hdopen, hdpend, hpowner, hrxsend, hnf, hnonil⟩ := hw
  lts_cases l h
  all_goals (simp_all [getC, getR])
  all_goals (try split)
  all_goals (first | (simp_all; done) | grind)


set_option maxHeartbeats 1000000 in
theorem step_nonil (cfg : Cfg) (s s' : State) (l : Label) (_hf : cfg.cancelChecksOwner = true) (_hm : MutexInv s) (hw : WF cfg s)
    (h : step cfg s l = some s') : ∀ i r, (getC s' i).pc ≠ .matching r none := by
  obtain ⟨hpend, hpcreg, hdopen, hdpend, hpowner, hrxsend, hnf, hnonil⟩ := hw
  lts_cases l h
  all_goals (intro j q)
  all_goals (simp_all [getC, getR])
  all_goals (try split)
  all_goals (first | (simp_all; done) | grind)


@[simp] theorem default_caller_pc : (default : Caller).pc = .idle := rfl

theorem init_wf (cfg : Cfg) : WF cfg init := by
  constructor <;> intros <;> simp_all [init, getC, getR, FMap.val, FMap.get, FMap.getL, FMap.empty]

theorem step_wf (cfg : Cfg) (hf : cfg.cancelChecksOwner = true) (s s' : State) (l : Label)
    (hm : MutexInv s) (hw : WF cfg s) (h : step cfg s l = some s') : WF cfg s' :=
  ⟨step_pend cfg s s' l hm hw h, step_pcreg cfg s s' l hm hw h, step_dopen cfg s s' l hm hw h,
   step_dpend cfg s s' l hf hm hw h, step_powner cfg s s' l hf hm hw h, step_rxsend cfg s s' l hm hw h,
   step_nofault cfg s s' l hm hw h, step_nonil cfg s s' l hf hm hw h⟩

theorem run_inv (cfg : Cfg) (hf : cfg.cancelChecksOwner = true) (ls : List Label) :
    ∀ s0 s, MutexInv s0 → WF cfg s0 → run cfg s0 ls = some s → MutexInv s ∧ WF cfg s := by
  induction ls with
  | nil => intro s0 s hm hw h; simp [run] at h; subst h; exact ⟨hm, hw⟩
  | cons l ls ih =>
    intro s0 s hm hw h
    simp only [run] at h
    split at h
    · next s1 h1 => exact ih s1 s (step_mutex cfg s0 s1 l hm h1) (step_wf cfg hf s0 s1 l hm hw h1) h
    · simp at h

theorem reach_inv (cfg : Cfg) (hf : cfg.cancelChecksOwner = true) (s : State) (h : Reachable cfg s) :
    MutexInv s ∧ WF cfg s := by
  obtain ⟨ls, h⟩ := h
  exact run_inv cfg hf ls init s init_mutex (init_wf cfg) h

/-! ### Invariant 3: what the channels and the receive loop hold -/

def RPc.busy : RPc → Bool
  | .got _ | .passed _ | .sending _ _ | .unlocking => true
  | _ => false

def RPc.pkt : RPc → Option Pkt
  | .got p | .passed p | .sending p _ => some p
  | _ => none

def RPc.okPkt : RPc → Option Pkt
  | .passed p | .sending p _ => some p
  | _ => none

section
variable (q : Pkt) (r : Nat)
@[simp, grind =] theorem busy_idle : RPc.busy .idle = false := rfl
@[simp, grind =] theorem busy_got : RPc.busy (.got q) = true := rfl
@[simp, grind =] theorem busy_passed : RPc.busy (.passed q) = true := rfl
@[simp, grind =] theorem busy_sending : RPc.busy (.sending q r) = true := rfl
@[simp, grind =] theorem busy_unlocking : RPc.busy .unlocking = true := rfl
@[simp, grind =] theorem busy_exited : RPc.busy .exited = false := rfl
@[simp, grind =] theorem pkt_idle : RPc.pkt .idle = none := rfl
@[simp, grind =] theorem pkt_got : RPc.pkt (.got q) = some q := rfl
@[simp, grind =] theorem pkt_passed : RPc.pkt (.passed q) = some q := rfl
@[simp, grind =] theorem pkt_sending : RPc.pkt (.sending q r) = some q := rfl
@[simp, grind =] theorem pkt_unlocking : RPc.pkt .unlocking = none := rfl
@[simp, grind =] theorem pkt_exited : RPc.pkt .exited = none := rfl
@[simp, grind =] theorem okPkt_idle : RPc.okPkt .idle = none := rfl
@[simp, grind =] theorem okPkt_got : RPc.okPkt (.got q) = none := rfl
@[simp, grind =] theorem okPkt_passed : RPc.okPkt (.passed q) = some q := rfl
@[simp, grind =] theorem okPkt_sending : RPc.okPkt (.sending q r) = some q := rfl
@[simp, grind =] theorem okPkt_unlocking : RPc.okPkt .unlocking = none := rfl
@[simp, grind =] theorem okPkt_exited : RPc.okPkt .exited = none := rfl
end

/-- contents of channels and of the loop's hands -/
structure CInv (cfg : Cfg) (s : State) : Prop where
  hlen : s.hist.length = s.processed + (if s.rx.busy then 1 else 0)
  rxpkt : ∀ p, s.rx.pkt = some p → p.seq = s.processed ∧ s.hist[p.seq]? = some p.d
  rxok : ∀ p, s.rx.okPkt = some p → p.d.ok = true
  routed : ∀ r p, p ∈ (getR s r).routed →
    p.d.ok = true ∧ p.d.xid = (getR s r).xid ∧ s.hist[p.seq]? = some p.d ∧ (getR s r).bornAt ≤ p.seq
  born : ∀ r, (getR s r).bornAt ≤ s.processed

set_option maxHeartbeats 1000000 in
theorem step_hlen (cfg : Cfg) (s s' : State) (l : Label) (hw : WF cfg s) (hc : CInv cfg s)
    (h : step cfg s l = some s') : s'.hist.length = s'.processed + (if s'.rx.busy then 1 else 0) := by
  obtain ⟨hlen, hrxpkt, hrxok, hrouted, hborn⟩ := hc
  lts_cases l h
  all_goals (simp_all [getC, getR])
  all_goals (try split)
  all_goals (first | (simp_all; done) | grind)

set_option maxHeartbeats 1000000 in
theorem step_rxpkt (cfg : Cfg) (s s' : State) (l : Label) (hw : WF cfg s) (hc : CInv cfg s)
    (h : step cfg s l = some s') : ∀ p, s'.rx.pkt = some p → p.seq = s'.processed ∧ s'.hist[p.seq]? = some p.d := by
  obtain ⟨hlen, hrxpkt, hrxok, hrouted, hborn⟩ := hc
  lts_cases l h
  all_goals (intro p hp)
  all_goals (simp_all [getC, getR])
  all_goals (try split)
  all_goals (first | (simp_all; done) | grind)

set_option maxHeartbeats 1000000 in
theorem step_rxok (cfg : Cfg) (s s' : State) (l : Label) (hw : WF cfg s) (hc : CInv cfg s)
    (h : step cfg s l = some s') : ∀ p, s'.rx.okPkt = some p → p.d.ok = true := by
  obtain ⟨hlen, hrxpkt, hrxok, hrouted, hborn⟩ := hc
  lts_cases l h
  all_goals (intro p hp)
  all_goals (simp_all [getC, getR])
  all_goals (try split)
  all_goals (first | (simp_all; done) | grind)

set_option maxHeartbeats 1000000 in
theorem step_routed (cfg : Cfg) (s s' : State) (l : Label) (hw : WF cfg s) (hc : CInv cfg s)
    (h : step cfg s l = some s') : ∀ r p, p ∈ (getR s' r).routed →
    p.d.ok = true ∧ p.d.xid = (getR s' r).xid ∧ s'.hist[p.seq]? = some p.d ∧ (getR s' r).bornAt ≤ p.seq := by
  obtain ⟨hlen, hrxpkt, hrxok, hrouted, hborn⟩ := hc
  obtain ⟨hpend, hpcreg, hdopen, hdpend, hpowner, hrxsend, hnf, hnonil⟩ := hw
  lts_cases l h
  all_goals (intro r p hp)
  all_goals (simp_all [getC, getR])
  all_goals (try split)
  all_goals (first | (simp_all; done) | grind)

set_option maxHeartbeats 1000000 in
theorem step_born (cfg : Cfg) (s s' : State) (l : Label) (hw : WF cfg s) (hc : CInv cfg s)
    (h : step cfg s l = some s') : ∀ r, (getR s' r).bornAt ≤ s'.processed := by
  obtain ⟨hlen, hrxpkt, hrxok, hrouted, hborn⟩ := hc
  lts_cases l h
  all_goals (intro r)
  all_goals (simp_all [getC, getR])
  all_goals (try split)
  all_goals (first | (simp_all; done) | grind)


theorem init_cinv (cfg : Cfg) : CInv cfg init := by
  constructor <;> intros <;> simp_all [init, getC, getR, FMap.val, FMap.get, FMap.getL, FMap.empty] <;>
    first | rfl | (exfalso; rename_i h; exact (List.not_mem_nil h))

theorem step_cinv (cfg : Cfg) (s s' : State) (l : Label) (hw : WF cfg s) (hc : CInv cfg s)
    (h : step cfg s l = some s') : CInv cfg s' :=
  ⟨step_hlen cfg s s' l hw hc h, step_rxpkt cfg s s' l hw hc h, step_rxok cfg s s' l hw hc h,
   step_routed cfg s s' l hw hc h, step_born cfg s s' l hw hc h⟩

end Dhcp.Client.LTS

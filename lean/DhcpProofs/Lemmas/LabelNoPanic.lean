import DhcpProofs.Lemmas.LabelApi
/-
  Panic-freedom of the rfc1035label decoder model, as used by C03 (the DHCPv6
  decoders call `Label.fromBytes` for options 24, 39 and the NTP FQDN
  sub-option).  The temporary label model this file was first written against
  has been replaced by the C19 model, whose lemma file already proves

      Dhcp.Label.labelsFromBytes_ne_panic : labelsFromBytes b ≠ .panic
      Dhcp.Label.fromBytes_ne_panic       : fromBytes b ≠ .panic

  (DhcpProofs/Lemmas/LabelApi.lean; in that model running out of loop fuel is
  mapped to `panic` too, so the statement also covers termination of the label
  loop).  This file only names the dependency: C03 needs nothing else from the
  label development.
-/
namespace Dhcp.Label

/-- the one fact C03 uses about labels -/
theorem c03_label_dependency (b : Bytes) : fromBytes b ≠ .panic := fromBytes_ne_panic b

end Dhcp.Label

import Dhcp.Label
/-
  Panic-freedom of the rfc1035label decoder model, used by C03 (the DHCPv6
  decoders call it for options 24, 39 and the NTP FQDN sub-option).
  Kept in its own file: `Dhcp/Label.lean` is a temporary model that the C19
  work replaces; only the three statements below are used elsewhere.
-/
namespace Dhcp.Label
open Dhcp

theorem loop_ne_panic (buf : Bytes) : ∀ (fuel pos oldPos : Nat) (label : Bytes) (hp : Bool) (acc : List Bytes),
    loop buf fuel pos oldPos label hp acc ≠ .panic := by
  intro fuel
  induction fuel with
  | zero => intro pos oldPos label hp acc; simp [loop]
  | succ fuel ih =>
    intro pos oldPos label hp acc
    unfold loop
    simp only []
    repeat' split
    all_goals first | exact ih _ _ _ _ _ | simp

theorem labelsFromBytes_ne_panic (buf : Bytes) : labelsFromBytes buf ≠ .panic :=
  loop_ne_panic buf _ _ _ _ _ _

theorem fromBytes_ne_panic (data : Bytes) : fromBytes data ≠ .panic := by
  unfold fromBytes
  have h := labelsFromBytes_ne_panic data
  split <;> simp_all

end Dhcp.Label

import DhcpProofs.Lemmas.V4ValRelay
/-
  C17 helper lemmas, part 5: the generic getters (`GetIP`, `GetIPs`,
  `GetString`, `GetUint16`, the duration pattern) against the spec, for any
  option code.  The per-accessor theorems of Props/C17.lean instantiate them.
-/
namespace Dhcp.V4
open Dhcp List
open Dhcp.Spec

section
variable (c : UInt8) (o : GOpts) (v : Bytes)

theorem getIP_wf {x : Bytes} (h : o.get c = some v) (hs : Val4.ip v = some x) :
    getIP c o = some x := by
  simp [getIP, h, ipFromBytes_eq, hs]

theorem getIP_bad (h : o.get c = some v) (hs : Val4.ip v = none) : getIP c o = none := by
  simp [getIP, h, ipFromBytes_eq, hs]

theorem getIP_absent (h : o.get c = none) : getIP c o = none := by
  simp [getIP, h]

theorem getIPs_wf {xs : List Bytes} (h : o.get c = some v) (hs : Val4.ips v = some xs) :
    getIPs c o = some (xs.map some) := by
  simp [getIPs, h, ipsFromBytes_eq, hs]

theorem getIPs_bad (h : o.get c = some v) (hs : Val4.ips v = none) : getIPs c o = none := by
  simp [getIPs, h, ipsFromBytes_eq, hs]

theorem getIPs_absent (h : o.get c = none) : getIPs c o = none := by
  simp [getIPs, h]

theorem getString_wf {x : Bytes} (h : o.get c = some v) (hs : Val4.str v = some x) :
    getString c o = x := by
  simp only [Val4.str, Option.some.injEq] at hs
  simp [getString, h, hs]

theorem getString_absent (h : o.get c = none) : getString c o = [] := by
  simp [getString, h]

theorem getStringTrim_wf {x : Bytes} (h : o.get c = some v) (hs : Val4.strTrim v = some x) :
    trimRightNul (getString c o) = x := by
  simp only [Val4.strTrim, Option.some.injEq] at hs
  simp [getString, h, trimRightNul_eq, hs]

theorem getStringTrim_absent (h : o.get c = none) : trimRightNul (getString c o) = [] := by
  simp [getString, h, trimRightNul]

theorem getDuration_wf (dflt : Int) {x : Int} (h : o.get c = some v) (hs : Val4.seconds v = some x) :
    getDuration c o dflt = x := by
  simp [getDuration, h, durationFromBytes_eq, hs]

theorem getDuration_bad (dflt : Int) (h : o.get c = some v) (hs : Val4.seconds v = none) :
    getDuration c o dflt = dflt := by
  simp [getDuration, h, durationFromBytes_eq, hs]

theorem getDuration_absent (dflt : Int) (h : o.get c = none) : getDuration c o dflt = dflt := by
  simp [getDuration, h]

theorem getUint16_wf {x : Nat} (h : o.get c = some v) (hs : Val4.u16 v = some x) :
    getUint16 c o = .ok x := by
  simp [getUint16, h, uint16FromBytes_eq, hs]

theorem getUint16_bad (h : o.get c = some v) (hs : Val4.u16 v = none) : getUint16 c o = .err := by
  simp [getUint16, h, uint16FromBytes_eq, hs]

theorem getUint16_absent (h : o.get c = none) : getUint16 c o = .err := by
  simp [getUint16, h]

end

end Dhcp.V4

import Dhcp.V6.Domain
/-
  The only place where the DHCPv6 round-trip proofs look inside the
  rfc1035label model: a label set in decoded form (`LabelsOK`) serialises to its
  original bytes, which parse back to the same set.
-/
namespace Dhcp.V6
open Dhcp

theorem labels_rt (l : Label.Labels) (h : LabelsOK l) : Label.fromBytes l.toBytes = .ok l := by
  obtain ⟨b, ho, hp⟩ := h
  cases l with
  | mk orig labs =>
    simp only at ho hp
    subst ho
    have hb : (labs == labs) = true := by simp
    have ht : Label.Labels.toBytes ⟨some b, labs⟩ = b := by
      simp only [Label.Labels.toBytes, Option.getD_some, hp, Option.isSome_some, Bool.true_and, hb,
        if_true]
    rw [ht]
    simp only [Label.fromBytes, hp]

end Dhcp.V6

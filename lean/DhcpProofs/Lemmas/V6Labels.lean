import Dhcp.V6.Domain
import DhcpProofs.Lemmas.LabelApi
/-
  The only place where the DHCPv6 round-trip proofs touch the rfc1035label
  model: a label set in decoded form (`LabelsOK`) serialises to its original
  bytes, which parse back to the same set.
-/
namespace Dhcp.V6
open Dhcp

theorem labels_rt (l : Label.Labels) (h : LabelsOK l) : Label.fromBytes l.toBytes = .ok l := by
  obtain ⟨b, ho, hp⟩ := h
  have hf : Label.fromBytes b = .ok l := by
    rw [Label.fromBytes_of_labelsFromBytes hp]
    cases l with
    | mk orig labs => simp only at ho; subst ho; rfl
  exact Label.fromBytes_toBytes_fromBytes hf

end Dhcp.V6

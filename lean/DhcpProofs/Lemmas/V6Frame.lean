import Dhcp.Spec.Wire6
import DhcpProofs.Lemmas.V6Tlv
import DhcpProofs.Lemmas.V4Parse
/- The DHCPv6 option loop against the declarative tiling relation (soundness side). -/
namespace Dhcp.V6
open Dhcp List Dhcp.Spec

theorem consume_err (l : Lexer) (n : Nat) (h : l.err = true) : (l.consume n).2.err = true := by
  unfold Lexer.consume; split <;> simp [h]

theorem read16_err (l : Lexer) (h : l.err = true) : l.read16.2.err = true := by
  have := consume_err l 2 h
  unfold Lexer.read16
  generalize l.consume 2 = r at this
  obtain ⟨v, l'⟩ := r
  cases v <;> exact this

/-- once the sticky error is set the loop can only fail (or panic in the parser) -/
theorem tlvLoop_err_sticky {α : Type} (parse : Nat → Bytes → Res α) :
    ∀ (fuel : Nat) (l : Lexer) (acc : List α), l.err = true → ∀ r, tlvLoop parse fuel l acc ≠ .ok r := by
  intro fuel
  induction fuel with
  | zero => intro l acc _ r; simp [tlvLoop]
  | succ fuel ih =>
    intro l acc h r
    unfold tlvLoop
    by_cases hh : l.has 4 = true
    · simp only [hh, if_true]
      have h1 := read16_err l h
      have h2 := read16_err l.read16.2 h1
      have h3 := consume_err l.read16.2.read16.2 l.read16.2.read16.1 h2
      cases hp : parse l.read16.1 ((l.read16.2.read16.2.consume l.read16.2.read16.1).1.getD []) with
      | ok o => simp only; exact ih _ _ h3 r
      | err => simp
      | panic => simp
    · simp only [hh, if_false, Lexer.finError, h, Bool.true_or, if_true]
      simp

theorem four_split (d : Bytes) (h : 4 ≤ d.length) :
    ∃ a b c e rest, d = a :: b :: c :: e :: rest := by
  match d, h with
  | a :: b :: c :: e :: rest, _ => exact ⟨a, b, c, e, rest, rfl⟩

theorem read16_two (x y : UInt8) (rest : Bytes) (e : Bool) :
    Lexer.read16 ⟨x :: y :: rest, e⟩ = (beNat [x, y], ⟨rest, e⟩) := by
  simp [Lexer.read16, Lexer.consume]

/-- inversion of one iteration of the loop -/
theorem tlvLoop_inv {α : Type} (parse : Nat → Bytes → Res α) (fuel : Nat) (d : Bytes) (acc r : List α)
    (h : tlvLoop parse (fuel + 1) ⟨d, false⟩ acc = .ok r) :
    (d = [] ∧ r = acc) ∨
    ∃ code v rest o, d = tlv code v ++ rest ∧ code < 65536 ∧ v.length < 65536 ∧ parse code v = .ok o ∧
      tlvLoop parse fuel ⟨rest, false⟩ (acc ++ [o]) = .ok r := by
  unfold tlvLoop at h
  by_cases hh : Lexer.has ⟨d, false⟩ 4 = true
  · right
    simp only [hh, if_true] at h
    have hlen : 4 ≤ d.length := by simpa [Lexer.has] using hh
    obtain ⟨a, b, c, e, rest, rfl⟩ := four_split d hlen
    simp only [read16_two] at h
    by_cases hl : beNat [c, e] ≤ rest.length
    · have hcons : Lexer.consume ⟨rest, false⟩ (beNat [c, e]) =
          (some (rest.take (beNat [c, e])), ⟨rest.drop (beNat [c, e]), false⟩) := by
        simp [Lexer.consume, hl]
      simp only [hcons, Option.getD_some] at h
      cases hp : parse (beNat [a, b]) (rest.take (beNat [c, e])) with
      | ok o =>
        simp only [hp] at h
        refine ⟨beNat [a, b], rest.take (beNat [c, e]), rest.drop (beNat [c, e]), o, ?_,
          beNat_lt_two a b, ?_, hp, h⟩
        · have hl' : (rest.take (beNat [c, e])).length = beNat [c, e] := by
            simp [List.length_take]; omega
          unfold tlv
          rw [hl', V4.be16_beNat, V4.be16_beNat]
          simp
        · have := beNat_lt_two c e
          simp [List.length_take]; omega
      | err => simp [hp] at h
      | panic => simp [hp] at h
    · exfalso
      have hcons : Lexer.consume ⟨rest, false⟩ (beNat [c, e]) = (none, ⟨rest, true⟩) := by
        simp [Lexer.consume, hl]
      simp only [hcons, Option.getD_none] at h
      cases hp : parse (beNat [a, b]) [] with
      | ok o =>
        simp only [hp] at h
        exact tlvLoop_err_sticky parse fuel ⟨rest, true⟩ _ rfl r h
      | err => simp [hp] at h
      | panic => simp [hp] at h
  · left
    have hh' : Lexer.has ⟨d, false⟩ 4 = false := by simpa using hh
    simp only [hh', Bool.false_eq_true, if_false] at h
    by_cases hf : Lexer.finError ⟨d, false⟩ = true
    · simp [hf] at h
    · have hf' : Lexer.finError ⟨d, false⟩ = false := by simpa using hf
      simp only [hf', Bool.false_eq_true, if_false, Res.ok.injEq] at h
      have : d.length = 0 := by
        simp only [Lexer.finError, Bool.false_or, decide_eq_false_iff_not, Nat.not_lt,
          Nat.le_zero_eq] at hf'
        exact hf'
      exact ⟨List.eq_nil_of_length_eq_zero this, h.symm⟩
where
  beNat_lt_two (x y : UInt8) : beNat [x, y] < 65536 := V4.beNat_lt_two x y

/-- soundness of the loop: an accepted buffer is tiled, in wire order -/
theorem tlvLoop_sound {α : Type} (parse : Nat → Bytes → Res α) (P : Nat → Bytes → α → Prop)
    (hP : ∀ c v o, parse c v = .ok o → P c v o) :
    ∀ (fuel : Nat) (d : Bytes) (acc r : List α), tlvLoop parse fuel ⟨d, false⟩ acc = .ok r →
      ∃ os, r = acc ++ os ∧ Tiles P d os := by
  intro fuel
  induction fuel with
  | zero => intro d acc r h; simp [tlvLoop] at h
  | succ fuel ih =>
    intro d acc r h
    rcases tlvLoop_inv parse fuel d acc r h with ⟨rfl, rfl⟩ | ⟨code, v, rest, o, rfl, hc, hv, hp, hrec⟩
    · exact ⟨[], by simp, Tiles.nil⟩
    · obtain ⟨os, rfl, ht⟩ := ih rest (acc ++ [o]) r hrec
      exact ⟨o :: os, by simp, Tiles.cons hc hv (hP _ _ _ hp) ht⟩

theorem optionsFromBytes_sound {α : Type} (parse : Nat → Bytes → Res α) (P : Nat → Bytes → α → Prop)
    (hP : ∀ c v o, parse c v = .ok o → P c v o) (d : Bytes) (os : List α)
    (h : optionsFromBytes parse d = .ok os) : Tiles P d os := by
  unfold optionsFromBytes at h
  by_cases h0 : d.length = 0
  · simp only [h0, if_true, Res.ok.injEq] at h
    rw [List.eq_nil_of_length_eq_zero h0, ← h]; exact Tiles.nil
  · simp only [h0, if_false, Lexer.new] at h
    obtain ⟨os', rfl, ht⟩ := tlvLoop_sound parse P hP _ d [] os h
    simpa using ht

/-- completeness of the loop for tiled buffers -/
theorem optionsFromBytes_complete {α : Type} (parse : Nat → Bytes → Res α) (P : Nat → Bytes → α → Prop)
    (hP : ∀ c v o, P c v o → parse c v = .ok o) (d : Bytes) (os : List α) (h : Tiles P d os) :
    optionsFromBytes parse d = .ok os := by
  have key : ∀ (d : Bytes) (os : List α), Tiles P d os → ∀ fuel acc, os.length < fuel →
      tlvLoop parse fuel ⟨d, false⟩ acc = .ok (acc ++ os) := by
    intro d os ht
    induction ht with
    | nil =>
      intro fuel acc hf
      cases fuel with
      | zero => omega
      | succ f => simp [tlvLoop_nil]
    | @cons code v rest o os hc hv hp _ ih =>
      intro fuel acc hf
      cases fuel with
      | zero => omega
      | succ f =>
        rw [tlvLoop_step parse f code v rest acc hc hv, hP _ _ _ hp]
        simp only
        rw [ih f (acc ++ [o]) (by simp at hf; omega)]
        simp
  have hlen : ∀ (d : Bytes) (os : List α), Tiles P d os → os.length ≤ d.length := by
    intro d os ht
    induction ht with
    | nil => simp
    | cons _ _ _ _ ih => simp [tlv_length] at ih ⊢; omega
  unfold optionsFromBytes
  by_cases h0 : d.length = 0
  · have := hlen d os h
    have : os = [] := List.eq_nil_of_length_eq_zero (by omega)
    simp [h0, this]
  · simp only [h0, if_false, Lexer.new]
    have := key d os h (d.length + 1) [] (by have := hlen d os h; omega)
    simpa using this

end Dhcp.V6

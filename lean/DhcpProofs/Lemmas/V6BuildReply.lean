import DhcpProofs.Lemmas.V6BuildChain
/- Helper lemmas for C16: `NewRelayReplFromRelayForw` on chains and broken chains. -/
namespace Dhcp.Spec
open Dhcp Dhcp.V6

/-- what the first loop of `NewRelayReplFromRelayForw` records for a level -/
def toLevel (lv : RLevel) : Level :=
  ⟨lv.link, lv.peer, getOne ocInterfaceID lv.opts, getOne ocRemoteID lv.opts⟩

/-- the first loop started on a message -/
def collectOf (fuel : Nat) : Msg6 → Res (List Level)
  | .relay _ _ l p os => collectLevels fuel l p os
  | .msg .. => .err

theorem collectOf_chain {c inner : Msg6} {fl : List RLevel} (h : Chain c fl inner) :
    ∀ fuel, msgDepth c ≤ fuel → collectOf fuel c = .ok (fl.map toLevel) := by
  induction h with
  | @last t hc l p os inner h1 h2 =>
    intro fuel hf
    rw [msgDepth_relay] at hf
    obtain ⟨t', x, os', rfl⟩ := not_isRelay_iff.mp h2
    cases fuel with
    | zero => omega
    | succ f => simp [collectOf, collectLevels, h1, toLevel]
  | @cons t hc l p os r lvls inner h1 hch ih =>
    intro fuel hf
    have hd := msgDepth_of_relayMessageOf h1
    rw [msgDepth_relay] at hf
    obtain ⟨t', hc', l', p', os', rfl⟩ := isRelay_iff.mp hch.isRelay
    cases fuel with
    | zero => omega
    | succ f =>
      have := ih f (by omega)
      simp only [collectOf] at this
      simp [collectOf, collectLevels, h1, this, Res.map, Res.bind, toLevel]

theorem collectOf_broken {c : Msg6} (h : Broken c) : ∀ fuel, collectOf fuel c = .err := by
  induction h with
  | here h1 =>
    intro fuel
    cases fuel with
    | zero => rfl
    | succ f => simp [collectOf, collectLevels, h1]
  | @deeper t hc l p os r h1 hb ih =>
    intro fuel
    cases fuel with
    | zero => rfl
    | succ f =>
      have hr : r.isRelay = true := by cases hb <;> rfl
      obtain ⟨t', hc', l', p', os', rfl⟩ := isRelay_iff.mp hr
      have := ih f
      simp only [collectOf] at this
      simp [collectOf, collectLevels, h1, this, Res.map, Res.bind]

theorem addOpt?_relay (t h : UInt8) (l p : IP) (os : List Opt6) (a b : Option Opt6) :
    addOpt? (addOpt? (.relay t h l p os) a) b = .relay t h l p (os ++ a.toList ++ b.toList) := by
  cases a <;> cases b <;> simp [addOpt?, Msg6.addOption]

theorem hopsFor_replyOf (msg : Msg6) (hm : msg.isRelay = false) (fl : List RLevel) :
    hopsFor (replyOf msg fl) = UInt8.ofNat fl.length := by
  cases fl with
  | nil =>
    obtain ⟨t, x, os, rfl⟩ := not_isRelay_iff.mp hm
    rfl
  | cons lv rest => simp only [replyOf, hopsFor, List.length_cons]; rw [UInt8.ofNat_succ]

/-- the second loop rebuilds exactly the specified reply -/
theorem rebuild_levels (msg : Msg6) (hm : msg.isRelay = false) : ∀ fl : List RLevel,
    rebuild msg (fl.map toLevel) = .ok (replyOf msg fl) := by
  intro fl
  induction fl with
  | nil => rfl
  | cons lv rest ih =>
    simp only [List.map_cons, rebuild, ih, Res.bind]
    rw [encapsulateRelay_ok _ _ (by decide)]
    simp only [Res.map, Res.bind, addOpt?_relay, hopsFor_replyOf msg hm, replyOf, toLevel]

theorem replyLevels_length (msg : Msg6) (fl : List RLevel) : (replyLevels msg fl).length = fl.length := by
  induction fl with
  | nil => rfl
  | cons lv rest ih => simp [replyLevels, ih]

theorem replyOf_chain (msg : Msg6) (hm : msg.isRelay = false) : ∀ (rest : List RLevel) (lv : RLevel),
    Chain (replyOf msg (lv :: rest)) (replyLevels msg (lv :: rest)) msg := by
  intro rest
  induction rest with
  | nil =>
    intro lv
    exact Chain.last (by simp [replyOf]) hm
  | cons lv' rest ih =>
    intro lv
    rw [replyOf, replyLevels]
    exact Chain.cons (by simp) (ih lv')

/-- level `i` of the reply -/
theorem replyLevels_get (msg : Msg6) : ∀ (fl : List RLevel) (i : Nat) (h1 : i < fl.length)
    (h2 : i < (replyLevels msg fl).length),
    (replyLevels msg fl)[i] =
      ⟨relayReply, UInt8.ofNat (fl.length - 1 - i), fl[i].link, fl[i].peer,
        [Opt6.relayMsg (replyOf msg (fl.drop (i + 1)))] ++ (getOne ocInterfaceID fl[i].opts).toList ++
          (getOne ocRemoteID fl[i].opts).toList⟩ := by
  intro fl
  induction fl with
  | nil => intro i h1; simp at h1
  | cons lv rest ih =>
    intro i h1 h2
    cases i with
    | zero => simp [replyLevels]
    | succ i =>
      simp only [replyLevels, List.getElem_cons_succ, List.length_cons, List.drop_succ_cons]
      rw [ih i (by simpa using h1)]
      congr 2
      omega

theorem getOne_echo_iid (x : Opt6) (hx : x.code = ocRelayMsg) (os : List Opt6) :
    getOne ocInterfaceID ([x] ++ (getOne ocInterfaceID os).toList ++ (getOne ocRemoteID os).toList) =
      getOne ocInterfaceID os := by
  rw [getOne_append, getOne_append, getOne_toList_self, getOne_toList_other (by decide)]
  simp [getOne_cons, hx, ocRelayMsg, ocInterfaceID]

theorem getOne_echo_rid (x : Opt6) (hx : x.code = ocRelayMsg) (os : List Opt6) :
    getOne ocRemoteID ([x] ++ (getOne ocInterfaceID os).toList ++ (getOne ocRemoteID os).toList) =
      getOne ocRemoteID os := by
  rw [getOne_append, getOne_append, getOne_toList_self, getOne_toList_other (by decide)]
  simp [getOne_cons, hx, ocRelayMsg, ocRemoteID]

theorem newRelayRepl_eq_collectOf (relay msg : Msg6) (ht : relay.typ = relayForward) :
    newRelayReplFromRelayForw relay msg = (collectOf (msgDepth relay) relay).bind (rebuild msg) := by
  cases relay with
  | msg t x os => rfl
  | relay t h l p os =>
    simp only [Msg6.typ] at ht
    simp [newRelayReplFromRelayForw, ht, collectOf, msgDepth_relay]

end Dhcp.Spec

import DhcpProofs.Lemmas.V4ValAcc
import DhcpProofs.Lemmas.V4Marshal
/-
  C17 helper lemmas, part 6: constructor → accessor.  Each `…_enc` lemma
  says that the spec reads the bytes a `ToBytes` model writes as the value
  that was written (on the constructor's domain); the accessor theorems then
  follow from the `…_eq` lemmas.
-/
namespace Dhcp.V4
open Dhcp List
open Dhcp.Spec

theorem to4_length' {b v : Bytes} (h : to4 b = some v) : v.length = 4 := by
  unfold to4 at h
  split at h
  · simp at h; rw [← h]; assumption
  · split at h
    · rename_i _ h16
      simp at h; rw [← h]; simp; omega
    · simp at h

theorem len4 {v : Bytes} (h : v.length = 4) : ∃ a b c d, v = [a, b, c, d] := by
  match v with
  | [a, b, c, d] => exact ⟨a, b, c, d, rfl⟩
  | [] | [_] | [_, _] | [_, _, _] | _ :: _ :: _ :: _ :: _ :: _ => simp at h

theorem ip_len4 {v : Bytes} (h : v.length = 4) : Val4.ip v = some v := by
  obtain ⟨a, b, c, d, rfl⟩ := len4 h; rfl

theorem mask_len4 {v : Bytes} (h : v.length = 4) : Val4.mask v = some v := by
  obtain ⟨a, b, c, d, rfl⟩ := len4 h; rfl

theorem goBuf_ne_nil {b : Bytes} (h : b ≠ []) : goBuf b = some b := by
  cases b with
  | nil => exact absurd rfl h
  | cons _ _ => rfl

/-! addresses -/

/-- the 4-byte form `To4` gives for an address of the domain -/
def v4 (b : Bytes) : Bytes := (to4 b).getD []

theorem addrs_enc (bs : List Bytes) (h : ∀ b ∈ bs, (to4 b).isSome) :
    Val4.addrs (bs.flatMap v4) = some (bs.map v4) := by
  induction bs with
  | nil => rfl
  | cons b bs ih =>
    have hb : (to4 b).isSome := h b (by simp)
    obtain ⟨v, hv⟩ := Option.isSome_iff_exists.mp hb
    obtain ⟨x, y, z, w, rfl⟩ := len4 (to4_length' hv)
    have ih' := ih (fun b' hb' => h b' (by simp [hb']))
    simp only [List.flatMap_cons, List.map_cons, v4, hv, Option.getD_some]
    simp [Val4.addrs, ih']

theorem ips_enc (bs : List Bytes) (hne : bs ≠ []) (h : ∀ b ∈ bs, (to4 b).isSome) :
    ∃ w, ipsToBytes (bs.map some) = some w ∧ Val4.ips w = some (bs.map v4) := by
  have hflat : (bs.map some).flatMap (fun ip => (ipToBytes ip).getD []) = bs.flatMap v4 := by
    simp only [List.flatMap_map, ipToBytes]; rfl
  have hne' : bs.flatMap v4 ≠ [] := by
    cases bs with
    | nil => exact absurd rfl hne
    | cons b bs =>
      obtain ⟨v, hv⟩ := Option.isSome_iff_exists.mp (h b (by simp))
      obtain ⟨x, y, z, w, rfl⟩ := len4 (to4_length' hv)
      simp [v4, hv]
  refine ⟨bs.flatMap v4, ?_, ?_⟩
  · simp only [ipsToBytes, hflat]; exact goBuf_ne_nil hne'
  · have := addrs_enc bs h
    unfold Val4.ips
    split
    · rename_i heq; exact absurd heq hne'
    · exact this

/-! big-endian numbers -/

theorem u32_be32 {s : Nat} (h : s < 4294967296) : Val4.u32 (be32 s) = some s := by
  simp only [be32, Val4.u32, UInt8.toNat_ofNat', Option.some.injEq]
  omega

theorem u16_be16 {n : Nat} (h : n < 65536) : Val4.u16 (be16 n) = some n := by
  simp only [be16, Val4.u16, UInt8.toNat_ofNat', Option.some.injEq]
  omega

theorem durationToBytes_dom {s : Nat} (h : s < 4294967296) :
    durationToBytes ((s : Int) * second) = some (be32 s) := by
  unfold durationToBytes second
  have h1 : Int.tdiv ((s : Int) * 1000000000) 1000000000 = (s : Int) :=
    Int.mul_tdiv_cancel _ (by decide)
  rw [h1]
  have h2 : ((s : Int) % 4294967296).toNat = s := by omega
  rw [h2]

theorem seconds_enc {s : Nat} (h : s < 4294967296) :
    Val4.seconds (be32 s) = some ((s : Int) * second) := by
  simp [Val4.seconds, u32_be32 h, second]

/-! strings -/

theorem stripNul_id (s : Bytes) (h : s.getLast? ≠ some 0) : Val4.stripNul s = s := by
  induction s with
  | nil => rfl
  | cons b r ih =>
    cases r with
    | nil =>
      have hb : b ≠ 0 := by simpa using h
      simp [Val4.stripNul, hb]
    | cons x xs =>
      have h' : (x :: xs).getLast? ≠ some 0 := by simpa [List.getLast?_cons_cons] using h
      have := ih h'
      rw [Val4.stripNul, this]

theorem classes_enc (xs : List Bytes) (h : ∀ x ∈ xs, 0 < x.length ∧ x.length < 256) :
    Val4.classes (xs.flatMap (fun s => UInt8.ofNat s.length :: s)) = some xs := by
  induction xs with
  | nil => simp [Val4.classes]
  | cons x xs ih =>
    obtain ⟨h0, h256⟩ := h x (by simp)
    have ih' := ih (fun y hy => h y (by simp [hy]))
    have hn : (UInt8.ofNat x.length).toNat = x.length := UInt8.toNat_ofNat_lt h256
    have hne : UInt8.ofNat x.length ≠ 0 := by
      intro hz
      have : (UInt8.ofNat x.length).toNat = 0 := by rw [hz]; rfl
      omega
    simp only [List.flatMap_cons, List.cons_append]
    rw [Val4.classes]
    simp [hn, hne, ih']

/-! code lists, architectures -/

theorem pairs_enc (as : List Nat) (h : ∀ a ∈ as, a < 65536) :
    Val4.pairs (as.flatMap be16) = some as := by
  induction as with
  | nil => rfl
  | cons a as ih =>
    have ha := h a (by simp)
    have ih' := ih (fun y hy => h y (by simp [hy]))
    simp only [List.flatMap_cons, be16, List.cons_append, List.nil_append, Val4.pairs, ih',
      Option.map_some, UInt8.toNat_ofNat', Option.some.injEq, List.cons.injEq, and_true]
    omega

/-! vendor classes -/

theorem vendorClasses_cons (e : Nat) (d rest : Bytes) (he : e < 4294967296) (hd : d.length < 256) :
    Val4.vendorClasses (be32 e ++ UInt8.ofNat d.length :: d ++ rest) =
      (Val4.vendorClasses rest).map (fun t => (e, d) :: t) := by
  have hn : (UInt8.ofNat d.length).toNat = d.length := UInt8.toNat_ofNat_lt hd
  have hu : (((e / 16777216 % 256 * 256 + e / 65536 % 256) * 256 + e / 256 % 256) * 256 + e % 256) = e := by
    omega
  have hlt : ¬ (d.length + rest.length < d.length) := by omega
  simp only [be32, List.cons_append, List.nil_append]
  rw [Val4.vendorClasses]
  simp [hn, hu, hlt]

theorem vendorClasses_enc (ids : List VIVCId)
    (h : ∀ i ∈ ids, i.entID < 4294967296 ∧ i.data.length < 256) :
    Val4.vendorClasses (ids.flatMap (fun i => be32 i.entID ++ UInt8.ofNat i.data.length :: i.data)) =
      some (ids.map (fun i => (i.entID, i.data))) := by
  induction ids with
  | nil => simp [Val4.vendorClasses]
  | cons i ids ih =>
    obtain ⟨he, hd⟩ := h i (by simp)
    have ih' := ih (fun y hy => h y (by simp [hy]))
    rw [List.flatMap_cons, List.append_assoc, List.cons_append, ← List.cons_append,
      ← List.append_assoc] 
    rw [vendorClasses_cons i.entID i.data _ he hd, ih']
    simp

end Dhcp.V4

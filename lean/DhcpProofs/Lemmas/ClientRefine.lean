import Dhcp.Client.Refine
import DhcpProofs.Lemmas.ClientTimed
/-
  Refinement between the timed machine of one `SendAndRead` call
  (Dhcp.Client.Timed) and the abstract call `stream.find? match` of the lease
  model (Dhcp.Client.Lease).  Definitions: Dhcp/Client/Refine.lean.
  Headline statements: DhcpProofs/Props/C13.lean (`C13_call_*`, `C13_*_timed`).
-/
namespace Dhcp.Client.Timed

/-! ### every instant lies in exactly one try -/

theorem off_ge {T : Int} (hT : 0 < T) (k : Nat) : (k : Int) ≤ off T k := by
  induction k with
  | zero => simp [off_zero]
  | succ k ih =>
    rw [off_succ]
    have := timeout_pos hT k
    omega

theorem exists_try_below {T : Int} (τ : Int) (h0 : 0 ≤ τ) :
    ∀ N : Nat, τ < off T N → ∃ m, m < N ∧ off T m ≤ τ ∧ τ < off T (m + 1) := by
  intro N
  induction N with
  | zero => intro h; rw [off_zero] at h; omega
  | succ N ih =>
    intro h
    by_cases hN : τ < off T N
    · obtain ⟨m, hm, h1, h2⟩ := ih hN
      exact ⟨m, by omega, h1, h2⟩
    · exact ⟨N, by omega, by omega, h⟩

/-- An instant `τ ≥ 0` lies in exactly one try: `T·(2^m − 1) ≤ τ < T·(2^(m+1) − 1)`. -/
theorem exists_try {T : Int} (hT : 0 < T) (τ : Int) (h0 : 0 ≤ τ) : ∃ m, off T m ≤ τ ∧ τ < off T (m + 1) := by
  have h := off_ge hT (τ.toNat + 1)
  obtain ⟨m, _, h1, h2⟩ := exists_try_below τ h0 (τ.toNat + 1) (by omega)
  exact ⟨m, h1, h2⟩

/-- a try that starts before the budget is one the retry count allows -/
theorem try_allowed {T n : Int} (hT : 0 < T) {τ : Int} {m : Nat} (hm : off T m ≤ τ)
    (hb : n < 0 ∨ τ < off T n.toNat) : n < 0 ∨ (m : Int) < n := by
  rcases hb with h | h
  · exact Or.inl h
  · have : m < n.toNat := lt_of_off_lt hT (by omega)
    right; omega

/-! ### quiet traffic strictly inside the budget leaves the call running -/

/-- Only rejected / unseen datagrams up to an instant `τ` strictly before the
budget (any instant when `n < 0`): at `τ` the call has not returned. -/
theorem quiet_running {T n : Int} (hT : 0 < T) (pre : List Obs) (τ : Int) (hq : Quiet pre)
    (hpre : ∀ p ∈ pre, p.t ≤ τ) (h0 : 0 ≤ τ) (hb : n < 0 ∨ τ < off T n.toNat) :
    (runObs T n pre τ).ret = none := by
  have hqi := runFrom_quiet hT pre hq _ (begin_quiet (T := T) n)
  unfold runObs
  cases hst : runFrom n (begin T n) pre with
  | done txs t out =>
    rw [hst] at hqi
    obtain ⟨_, hn0, _, ht'⟩ := hqi
    exfalso
    have hle : t ≤ τ := runFrom_ret_le hT τ pre hpre _ (begin_inv (T := T) n) (begin_clk T n τ h0)
      (begin_ret_le T n τ h0) txs t out hst
    omega
  | waiting w =>
    rw [hst] at hqi
    rcases finish_spec hT τ w hqi.1 with ⟨k', hf, _⟩ | ⟨_, hn0, hle⟩
    · rw [hf]
    · exfalso; omega

/-- **The lemma everything rests on.** Quiet traffic (rejected same-transaction
datagrams, datagrams the caller never sees), then a terminal observation
(acceptable response / context end / Close) at an instant strictly before the
budget: the call returns at that instant with that observation's outcome —
whatever the quiescence flags (racing with a per-try deadline or not), whatever
follows. -/
theorem quiet_then_terminal_ret {T n : Int} (hT : 0 < T) (pre post : List Obs) (o : Obs) (H : Int)
    (hq : Quiet pre) (ht : Terminal o) (h0 : 0 ≤ o.t) (hpre : ∀ p ∈ pre, p.t ≤ o.t)
    (hb : n < 0 ∨ o.t < off T n.toNat) :
    (runObs T n (pre ++ o :: post) H).ret = some (o.t, terminalOutcome o) :=
  terminal_prompt T n pre post o H ht h0 hpre (quiet_running hT pre o.t hq hpre h0 hb)

/-- … and when the terminal observation is applied at quiescence the
transmissions are exactly those of the tries begun by then (`C12_stop` with the
try found instead of given). -/
theorem quiet_then_terminal_full {T n : Int} (hT : 0 < T) (pre post : List Obs) (o : Obs) (H : Int)
    (hq : Quiet pre) (ht : Terminal o) (hat : o.afterTimer = true) (h0 : 0 ≤ o.t) (hpre : ∀ p ∈ pre, p.t ≤ o.t)
    (hb : n < 0 ∨ o.t < off T n.toNat) :
    ∃ k, off T k ≤ o.t ∧ o.t < off T (k + 1) ∧ (n < 0 ∨ (k : Int) < n) ∧
      runObs T n (pre ++ o :: post) H = ⟨sched T (k + 1), some (o.t, terminalOutcome o)⟩ := by
  obtain ⟨k, hk1, hk2⟩ := exists_try hT o.t h0
  have hk := try_allowed hT hk1 hb
  exact ⟨k, hk1, hk2, hk, quiet_then_terminal hT pre post o H k hq ht hat hpre hk1 hk2 hk⟩

/-- quiet traffic only: the return, if any, is the no-response error -/
theorem quiet_ret {T n : Int} (hT : 0 < T) (obs : List Obs) (H : Int) (hq : Quiet obs) :
    (runObs T n obs H).ret = none ∨ ∃ t, (runObs T n obs H).ret = some (t, .noResp) := by
  have hqi := runFrom_quiet hT obs hq _ (begin_quiet (T := T) n)
  unfold runObs
  cases hst : runFrom n (begin T n) obs with
  | done txs t out =>
    rw [hst] at hqi
    rw [finish_done, hqi.1]
    exact Or.inr ⟨t, rfl⟩
  | waiting w =>
    rw [hst] at hqi
    rcases finish_spec hT H w hqi.1 with ⟨k', hf, _⟩ | ⟨hf, _⟩
    · rw [hf]; exact Or.inl rfl
    · rw [hf]; exact Or.inr ⟨_, rfl⟩

/-- quiet traffic, `n < 0`, any horizon not before the last observation: still running -/
theorem negative_running_ret {T n : Int} (hT : 0 < T) (hn : n < 0) (obs : List Obs) (H : Int) (hq : Quiet obs)
    (hobs : ∀ o ∈ obs, o.t ≤ H) (h0 : 0 ≤ H) : (runObs T n obs H).ret = none :=
  quiet_running hT obs H hq hobs h0 (Or.inl hn)

/-! ### the first terminal observation decides -/

/-- `acc`, `ctx` or `closed` -/
def isTerminal (o : Obs) : Bool := o.kind == .acc || o.kind == .ctx || o.kind == .closed

theorem isTerminal_iff (o : Obs) : isTerminal o = true ↔ Terminal o := by
  unfold isTerminal Terminal
  cases o.kind <;> simp

theorem isTerminal_false_iff (o : Obs) : isTerminal o = false ↔ (o.kind = .irr ∨ o.kind = .rej) := by
  unfold isTerminal
  cases o.kind <;> simp

/-- instants counted from the start of the call, never going back -/
def OrderedObs (obs : List Obs) : Prop := (∀ o ∈ obs, 0 ≤ o.t) ∧ obs.Pairwise (fun a b => a.t ≤ b.t)

/-- **First terminal observation.** For EVERY observation sequence in time
order (any kinds, any quiescence flags, any number of unseen datagrams
interleaved): if the first observation that is an acceptable response, a
context end or a Close lies strictly before the budget, the call returns at its
instant with its outcome; if there is none the call never returns anything but
the no-response error. -/
theorem first_terminal {T n : Int} (hT : 0 < T) (obs : List Obs) (H : Int) (ho : OrderedObs obs) :
    (∀ o, obs.find? isTerminal = some o → (n < 0 ∨ o.t < off T n.toNat) →
      (runObs T n obs H).ret = some (o.t, terminalOutcome o)) ∧
    (obs.find? isTerminal = none → Quiet obs) := by
  constructor
  · intro o hf hb
    obtain ⟨hto, pre, post, heq, hpre⟩ := List.find?_eq_some_iff_append.1 hf
    subst heq
    have hq : Quiet pre := fun p hp => (isTerminal_false_iff p).1 (by simpa using hpre p hp)
    have hle : ∀ p ∈ pre, p.t ≤ o.t := by
      intro p hp
      have := List.pairwise_append.1 ho.2
      exact this.2.2 p hp o (List.mem_cons_self ..)
    exact quiet_then_terminal_ret hT pre post o H hq ((isTerminal_iff o).1 hto)
      (ho.1 o (by simp)) hle hb
  · intro hf p hp
    have := List.find?_eq_none.1 hf p hp
    exact (isTerminal_false_iff p).1 (by simpa using this)

end Dhcp.Client.Timed

import Dhcp.Client.Refine
import DhcpProofs.Lemmas.ClientTimed
/-
  Refinement between the timed machine of one `SendAndRead` call
  (Dhcp.Client.Timed) and the abstract call `stream.find? match` of the lease
  model (Dhcp.Client.Lease).  Definitions: Dhcp/Client/Refine.lean.
  Headline statements: DhcpProofs/Props/C13.lean (`C13_call_*`, `C13_*_timed`).
-/
namespace Dhcp.Client.Timed

/-! ### every instant lies in exactly one try -/

theorem off_ge {T : Int} (hT : 0 < T) (k : Nat) : (k : Int) ≤ off T k := by
  induction k with
  | zero => simp [off_zero]
  | succ k ih =>
    rw [off_succ]
    have := timeout_pos hT k
    omega

theorem exists_try_below {T : Int} (τ : Int) (h0 : 0 ≤ τ) :
    ∀ N : Nat, τ < off T N → ∃ m, m < N ∧ off T m ≤ τ ∧ τ < off T (m + 1) := by
  intro N
  induction N with
  | zero => intro h; rw [off_zero] at h; omega
  | succ N ih =>
    intro h
    by_cases hN : τ < off T N
    · obtain ⟨m, hm, h1, h2⟩ := ih hN
      exact ⟨m, by omega, h1, h2⟩
    · exact ⟨N, by omega, by omega, h⟩

/-- An instant `τ ≥ 0` lies in exactly one try: `T·(2^m − 1) ≤ τ < T·(2^(m+1) − 1)`. -/
theorem exists_try {T : Int} (hT : 0 < T) (τ : Int) (h0 : 0 ≤ τ) : ∃ m, off T m ≤ τ ∧ τ < off T (m + 1) := by
  have h := off_ge hT (τ.toNat + 1)
  obtain ⟨m, _, h1, h2⟩ := exists_try_below (T := T) τ h0 (τ.toNat + 1) (by omega)
  exact ⟨m, h1, h2⟩

/-- a try that starts before the budget is one the retry count allows -/
theorem try_allowed {T n : Int} (hT : 0 < T) {τ : Int} {m : Nat} (hm : off T m ≤ τ)
    (hb : n < 0 ∨ τ < off T n.toNat) : n < 0 ∨ (m : Int) < n := by
  rcases hb with h | h
  · exact Or.inl h
  · have : m < n.toNat := lt_of_off_lt hT (by omega)
    right; omega

/-! ### quiet traffic strictly inside the budget leaves the call running -/

/-- Only rejected / unseen datagrams up to an instant `τ` strictly before the
budget (any instant when `n < 0`): at `τ` the call has not returned. -/
theorem quiet_running {T n : Int} (hT : 0 < T) (pre : List Obs) (τ : Int) (hq : Quiet pre)
    (hpre : ∀ p ∈ pre, p.t ≤ τ) (h0 : 0 ≤ τ) (hb : n < 0 ∨ τ < off T n.toNat) :
    (runObs T n pre τ).ret = none := by
  have hqi := runFrom_quiet hT pre hq _ (begin_quiet (T := T) n)
  unfold runObs
  cases hst : runFrom n (begin T n) pre with
  | done txs t out =>
    rw [hst] at hqi
    obtain ⟨_, hn0, _, ht'⟩ := hqi
    exfalso
    have hle : t ≤ τ := runFrom_ret_le hT τ pre hpre _ (begin_inv (T := T) n) (begin_clk T n τ h0)
      (begin_ret_le T n τ h0) txs t out hst
    omega
  | waiting w =>
    rw [hst] at hqi
    rcases finish_spec hT τ w hqi.1 with ⟨k', hf, _⟩ | ⟨_, hn0, hle⟩
    · rw [hf]
    · exfalso; omega

/-- **The lemma everything rests on.** Quiet traffic (rejected same-transaction
datagrams, datagrams the caller never sees), then a terminal observation
(acceptable response / context end / Close) at an instant strictly before the
budget: the call returns at that instant with that observation's outcome —
whatever the quiescence flags (racing with a per-try deadline or not), whatever
follows. -/
theorem quiet_then_terminal_ret {T n : Int} (hT : 0 < T) (pre post : List Obs) (o : Obs) (H : Int)
    (hq : Quiet pre) (ht : Terminal o) (h0 : 0 ≤ o.t) (hpre : ∀ p ∈ pre, p.t ≤ o.t)
    (hb : n < 0 ∨ o.t < off T n.toNat) :
    (runObs T n (pre ++ o :: post) H).ret = some (o.t, terminalOutcome o) :=
  terminal_prompt T n pre post o H ht h0 hpre (quiet_running hT pre o.t hq hpre h0 hb)

/-- … and when the terminal observation is applied at quiescence the
transmissions are exactly those of the tries begun by then (`C12_stop` with the
try found instead of given). -/
theorem quiet_then_terminal_full {T n : Int} (hT : 0 < T) (pre post : List Obs) (o : Obs) (H : Int)
    (hq : Quiet pre) (ht : Terminal o) (hat : o.afterTimer = true) (h0 : 0 ≤ o.t) (hpre : ∀ p ∈ pre, p.t ≤ o.t)
    (hb : n < 0 ∨ o.t < off T n.toNat) :
    ∃ k, off T k ≤ o.t ∧ o.t < off T (k + 1) ∧ (n < 0 ∨ (k : Int) < n) ∧
      runObs T n (pre ++ o :: post) H = ⟨sched T (k + 1), some (o.t, terminalOutcome o)⟩ := by
  obtain ⟨k, hk1, hk2⟩ := exists_try hT o.t h0
  have hk := try_allowed hT hk1 hb
  exact ⟨k, hk1, hk2, hk, quiet_then_terminal hT pre post o H k hq ht hat hpre hk1 hk2 hk⟩

/-- quiet traffic only: the return, if any, is the no-response error -/
theorem quiet_ret {T n : Int} (hT : 0 < T) (obs : List Obs) (H : Int) (hq : Quiet obs) :
    (runObs T n obs H).ret = none ∨ ∃ t, (runObs T n obs H).ret = some (t, .noResp) := by
  have hqi := runFrom_quiet hT obs hq _ (begin_quiet (T := T) n)
  unfold runObs
  cases hst : runFrom n (begin T n) obs with
  | done txs t out =>
    rw [hst] at hqi
    rw [finish_done, hqi.1]
    exact Or.inr ⟨t, rfl⟩
  | waiting w =>
    rw [hst] at hqi
    rcases finish_spec hT H w hqi.1 with ⟨k', hf, _⟩ | ⟨hf, _⟩
    · rw [hf]; exact Or.inl rfl
    · rw [hf]; exact Or.inr ⟨_, rfl⟩

/-- quiet traffic, `n < 0`, any horizon not before the last observation: still running -/
theorem negative_running_ret {T n : Int} (hT : 0 < T) (hn : n < 0) (obs : List Obs) (H : Int) (hq : Quiet obs)
    (hobs : ∀ o ∈ obs, o.t ≤ H) (h0 : 0 ≤ H) : (runObs T n obs H).ret = none :=
  quiet_running hT obs H hq hobs h0 (Or.inl hn)

/-! ### the first terminal observation decides -/

/-- `acc`, `ctx` or `closed` -/
def isTerminal (o : Obs) : Bool := o.kind == .acc || o.kind == .ctx || o.kind == .closed

theorem isTerminal_iff (o : Obs) : isTerminal o = true ↔ Terminal o := by
  unfold isTerminal Terminal
  cases o.kind <;> simp

theorem isTerminal_false_iff (o : Obs) : isTerminal o = false ↔ (o.kind = .irr ∨ o.kind = .rej) := by
  unfold isTerminal
  cases o.kind <;> simp

/-- instants counted from the start of the call, never going back -/
def OrderedObs (obs : List Obs) : Prop := (∀ o ∈ obs, 0 ≤ o.t) ∧ obs.Pairwise (fun a b => a.t ≤ b.t)

/-- **First terminal observation.** For EVERY observation sequence in time
order (any kinds, any quiescence flags, any number of unseen datagrams
interleaved): if the first observation that is an acceptable response, a
context end or a Close lies strictly before the budget, the call returns at its
instant with its outcome; if there is none the call never returns anything but
the no-response error. -/
theorem first_terminal {T n : Int} (hT : 0 < T) (obs : List Obs) (H : Int) (ho : OrderedObs obs) :
    (∀ o, obs.find? isTerminal = some o → (n < 0 ∨ o.t < off T n.toNat) →
      (runObs T n obs H).ret = some (o.t, terminalOutcome o)) ∧
    (obs.find? isTerminal = none → Quiet obs) := by
  constructor
  · intro o hf hb
    obtain ⟨hto, pre, post, heq, hpre⟩ := List.find?_eq_some_iff_append.1 hf
    subst heq
    have hq : Quiet pre := fun p hp => (isTerminal_false_iff p).1 (by simpa using hpre p hp)
    have hle : ∀ p ∈ pre, p.t ≤ o.t := by
      intro p hp
      have := List.pairwise_append.1 ho.2
      exact this.2.2 p hp o (List.mem_cons_self ..)
    exact quiet_then_terminal_ret hT pre post o H hq ((isTerminal_iff o).1 hto)
      (ho.1 o (by simp)) hle hb
  · intro hf p hp
    have := List.find?_eq_none.1 hf p hp
    exact (isTerminal_false_iff p).1 (by simpa using this)

end Dhcp.Client.Timed

namespace Dhcp.Client.Refine
open Dhcp.Client.Timed

variable {α : Type}

theorem callBudget_eq_off (T n : Int) : callBudget T n = off T n.toNat := rfl

/-! ### the observation sequence of a routed stream -/

theorem obsFrom_append (m : α → Bool) (fl : Nat → Bool) (i : Nat) (a b : List (Int × α)) :
    obsFrom m fl i (a ++ b) = obsFrom m fl i a ++ obsFrom m fl (i + a.length) b := by
  induction a generalizing i with
  | nil => simp [obsFrom]
  | cons x a ih =>
    simp only [List.cons_append, obsFrom, ih, List.length_cons]
    have : i + 1 + a.length = i + (a.length + 1) := by omega
    rw [this]

theorem mem_obsFrom (m : α → Bool) (fl : Nat → Bool) (i : Nat) (arr : List (Int × α)) (o : Obs)
    (h : o ∈ obsFrom m fl i arr) : ∃ a ∈ arr, o.t = a.1 ∧ o.kind = kindOf m a.2 := by
  induction arr generalizing i with
  | nil => simp [obsFrom] at h
  | cons x arr ih =>
    simp only [obsFrom, List.mem_cons] at h
    rcases h with h | h
    · subst h; exact ⟨x, by simp, rfl, rfl⟩
    · obtain ⟨a, ha, h1, h2⟩ := ih (i + 1) h
      exact ⟨a, List.mem_cons_of_mem _ ha, h1, h2⟩

theorem kindOf_rej {m : α → Bool} {p : α} (h : m p = false) : kindOf m p = .rej := by simp [kindOf, h]
theorem kindOf_acc {m : α → Bool} {p : α} (h : m p = true) : kindOf m p = .acc := by simp [kindOf, h]

/-- packets the matcher rejects are quiet observations -/
theorem obsFrom_quiet (m : α → Bool) (fl : Nat → Bool) (i : Nat) (arr : List (Int × α))
    (h : ∀ a ∈ arr, m a.2 = false) : Quiet (obsFrom m fl i arr) := by
  intro o ho
  obtain ⟨a, ha, _, hk⟩ := mem_obsFrom m fl i arr o ho
  right; rw [hk]; exact kindOf_rej (h a ha)

theorem obsFrom_ordered (m : α → Bool) (fl : Nat → Bool) (i : Nat) (arr : List (Int × α)) (h : Ordered arr) :
    OrderedObs (obsFrom m fl i arr) := by
  constructor
  · intro o ho
    obtain ⟨a, ha, ht, _⟩ := mem_obsFrom m fl i arr o ho
    rw [ht]; exact h.1 a ha
  · have hp := h.2
    clear h
    induction arr generalizing i with
    | nil => simp [obsFrom]
    | cons x arr ih =>
      simp only [obsFrom]
      rw [List.pairwise_cons] at hp ⊢
      refine ⟨fun o ho => ?_, ih (i + 1) hp.2⟩
      obtain ⟨a, ha, ht, _⟩ := mem_obsFrom m fl (i + 1) arr o ho
      rw [ht]; exact hp.1 a ha

/-! ### `find?` on the stream, as a split of the arrival list -/

theorem find_split (m : α → Bool) (arr : List (Int × α)) (p : α) (h : (streamOf arr).find? m = some p) :
    ∃ pre t post, arr = pre ++ (t, p) :: post ∧ (∀ a ∈ pre, m a.2 = false) ∧ m p = true := by
  induction arr with
  | nil => simp [streamOf] at h
  | cons a rest ih =>
    simp only [streamOf, List.map_cons, List.find?_cons] at h
    cases hm : m a.2 with
    | true =>
      rw [hm] at h
      simp only [Option.some.injEq] at h
      subst h
      exact ⟨[], a.1, rest, rfl, by simp, hm⟩
    | false =>
      rw [hm] at h
      obtain ⟨pre, t, post, heq, hpre, hp⟩ := ih h
      refine ⟨a :: pre, t, post, by rw [heq]; rfl, ?_, hp⟩
      intro b hb
      rcases List.mem_cons.1 hb with rfl | hb
      · exact hm
      · exact hpre b hb

theorem find_none (m : α → Bool) (arr : List (Int × α)) (h : (streamOf arr).find? m = none) :
    ∀ a ∈ arr, m a.2 = false := by
  intro a ha
  have := List.find?_eq_none.1 h a.2 (by simp only [streamOf]; exact List.mem_map_of_mem ha)
  simpa using this

theorem find_of_split (m : α → Bool) (pre post : List (Int × α)) (t : Int) (p : α)
    (hpre : ∀ a ∈ pre, m a.2 = false) (hp : m p = true) :
    (streamOf (pre ++ (t, p) :: post)).find? m = some p := by
  simp only [streamOf, List.map_append, List.map_cons, List.find?_append]
  have : (pre.map (·.2)).find? m = none := by
    rw [List.find?_eq_none]
    intro x hx
    obtain ⟨a, ha, rfl⟩ := List.mem_map.1 hx
    simp [hpre a ha]
  rw [this]
  simp [hp]

/-! ### the refinement -/

/-- **The call returns the first packet of its routed stream that its matcher
accepts, at that packet's arrival instant.**  `arr` in time order, the accepted
packet strictly before the budget (`n ≥ 0`) or anywhere (`n < 0`); any
quiescence flags `fl`; ANY observations `rest` after the routed stream (later
traffic, a cancelled context, Close) and any horizon.  `i` is the packet's
position in the stream; everything before it is rejected. -/
theorem refines_some {T n : Int} (hT : 0 < T) (m : α → Bool) (fl : Nat → Bool) (arr : List (Int × α))
    (ho : Ordered arr) (p : α) (hf : (streamOf arr).find? m = some p) :
    ∃ i t, arr[i]? = some (t, p) ∧ m p = true ∧ (∀ j q, j < i → arr[j]? = some q → m q.2 = false) ∧
      ∀ (rest : List Obs) (H : Int), (n < 0 ∨ t < callBudget T n) →
        (runObs T n (obsOf m fl arr ++ rest) H).ret = some (t, .resp i) := by
  obtain ⟨pre, t, post, heq, hpre, hp⟩ := find_split m arr p hf
  subst heq
  refine ⟨pre.length, t, by simp, hp, ?_, ?_⟩
  · intro j q hj hq
    rw [List.getElem?_append_left hj] at hq
    exact hpre q (List.mem_of_getElem? hq)
  · intro rest H hb
    have h0 : 0 ≤ t := ho.1 (t, p) (by simp)
    have hle : ∀ o ∈ obsFrom m fl 0 pre, o.t ≤ t := by
      intro o hoo
      obtain ⟨a, ha, hta, _⟩ := mem_obsFrom m fl 0 pre o hoo
      rw [hta]
      exact (List.pairwise_append.1 ho.2).2.2 a ha (t, p) (List.mem_cons_self ..)
    have := quiet_then_terminal_ret (n := n) hT (obsFrom m fl 0 pre)
      (obsFrom m fl (0 + pre.length + 1) post ++ rest) ⟨t, kindOf m p, 0 + pre.length, fl (0 + pre.length)⟩ H
      (obsFrom_quiet m fl 0 pre hpre) (Or.inl (kindOf_acc hp)) h0 hle hb
    simp only [obsOf, obsFrom_append, obsFrom, List.append_assoc, List.cons_append]
    rw [this]
    simp [terminalOutcome, kindOf_acc hp]

/-- … applied at quiescence, with the transmissions (`C12_stop` composed in):
the call made exactly the tries begun by the arrival instant. -/
theorem refines_some_full {T n : Int} (hT : 0 < T) (m : α → Bool) (fl : Nat → Bool) (pre post : List (Int × α))
    (t : Int) (p : α) (ho : Ordered (pre ++ (t, p) :: post)) (hpre : ∀ a ∈ pre, m a.2 = false) (hp : m p = true)
    (hfl : fl pre.length = true) (rest : List Obs) (H : Int) (hb : n < 0 ∨ t < callBudget T n) :
    ∃ k : Nat, T * (2 ^ k - 1) ≤ t ∧ t < T * (2 ^ (k + 1) - 1) ∧ (n < 0 ∨ (k : Int) < n) ∧
      runObs T n (obsOf m fl (pre ++ (t, p) :: post) ++ rest) H =
        ⟨(List.range (k + 1)).map (fun j => T * (2 ^ j - 1)), some (t, .resp pre.length)⟩ := by
  have h0 : 0 ≤ t := ho.1 (t, p) (by simp)
  have hle : ∀ o ∈ obsFrom m fl 0 pre, o.t ≤ t := by
    intro o hoo
    obtain ⟨a, ha, hta, _⟩ := mem_obsFrom m fl 0 pre o hoo
    rw [hta]
    exact (List.pairwise_append.1 ho.2).2.2 a ha (t, p) (List.mem_cons_self ..)
  obtain ⟨k, hk1, hk2, hk, hrun⟩ := quiet_then_terminal_full (n := n) hT (obsFrom m fl 0 pre)
    (obsFrom m fl (0 + pre.length + 1) post ++ rest) ⟨t, kindOf m p, 0 + pre.length, fl (0 + pre.length)⟩ H
    (obsFrom_quiet m fl 0 pre hpre) (Or.inl (kindOf_acc hp)) (by simpa using hfl) h0 hle hb
  refine ⟨k, hk1, hk2, hk, ?_⟩
  simp only [obsOf, obsFrom_append, obsFrom, List.append_assoc, List.cons_append]
  rw [hrun]
  simp [terminalOutcome, kindOf_acc hp, sched_eq, off]

/-- **Nothing in the routed stream is accepted.** `n ≥ 0`, horizon at or past
the budget: the call fails with the no-response error at the budget
`T·(2^n − 1)`, after exactly `n` transmissions (`C12_times` composed in);
`n < 0`: it is still running at every horizon.  No condition on the instants. -/
theorem refines_none {T n : Int} (hT : 0 < T) (m : α → Bool) (fl : Nat → Bool) (arr : List (Int × α))
    (hf : (streamOf arr).find? m = none) (H : Int) :
    (0 ≤ n → callBudget T n ≤ H →
      runObs T n (obsOf m fl arr) H = ⟨sched T n.toNat, some (callBudget T n, .noResp)⟩) ∧
    (n < 0 → (∀ a ∈ arr, a.1 ≤ H) → 0 ≤ H → (runObs T n (obsOf m fl arr) H).ret = none) ∧
    ((runObs T n (obsOf m fl arr) H).ret = none ∨ ∃ t, (runObs T n (obsOf m fl arr) H).ret = some (t, .noResp)) := by
  have hq : Quiet (obsOf m fl arr) := obsFrom_quiet m fl 0 arr (find_none m arr hf)
  refine ⟨fun hn hH => times_of_quiet hT hn _ H hq hH, fun hn hle h0 => ?_, quiet_ret hT _ H hq⟩
  refine negative_running_ret hT hn _ H hq ?_ h0
  intro o hoo
  obtain ⟨a, ha, hta, _⟩ := mem_obsFrom m fl 0 arr o hoo
  rw [hta]; exact hle a ha

/-- **sendAndRead_refines.** The timed machine run on a routed stream (in time
order, every arrival strictly before the budget; any quiescence flags) returns
exactly what the abstract call `find?` returns on that stream: the packet, at
its arrival instant; or the no-response error at the budget when there is
none (`n < 0`: never returns). -/
theorem sendAndRead_refines {T n : Int} (hT : 0 < T) (m : α → Bool) (fl : Nat → Bool) (arr : List (Int × α))
    (H : Int) (ho : Ordered arr) (hb : InBudget T n arr) :
    match (streamOf arr).find? m with
    | some p => ∃ i t, arr[i]? = some (t, p) ∧ (runObs T n (obsOf m fl arr) H).ret = some (t, .resp i)
    | none => (0 ≤ n → callBudget T n ≤ H → (runObs T n (obsOf m fl arr) H).ret = some (callBudget T n, .noResp)) ∧
              (n < 0 → (∀ a ∈ arr, a.1 ≤ H) → 0 ≤ H → (runObs T n (obsOf m fl arr) H).ret = none) := by
  cases hf : (streamOf arr).find? m with
  | some p =>
    obtain ⟨i, t, hi, _, _, hrun⟩ := refines_some (n := n) hT m fl arr ho p hf
    refine ⟨i, t, hi, ?_⟩
    have := hrun [] H (by
      by_cases hn : n < 0
      · exact Or.inl hn
      · exact Or.inr (hb (by omega) (t, p) (List.mem_of_getElem? hi)))
    simpa using this
  | none =>
    obtain ⟨h1, h2, _⟩ := refines_none (n := n) hT m fl arr hf H
    exact ⟨fun hn hH => by rw [h1 hn hH], h2⟩

/-! ### the context ends / the client is closed during the call -/

/-- the outcome of a context end / Close observed by a waiting call -/
def stopOutcome (k : Kind) : Outcome := if k = .ctx then .ctxErr else .noResp

/-- **Cancelled context / Close.** The routed stream up to the instant `c` at
which the caller observes its context's end (`k = ctx`) or the client's Close
(`k = closed`), `c` strictly before the budget: the call returns the first
accepted packet of THAT PART of the stream at its arrival instant, and when
there is none returns at `c` with the context's error / the no-response error.
Whatever is observed afterwards (`rest`: e.g. the remainder of the stream)
changes nothing. -/
theorem refines_stop {T n : Int} (hT : 0 < T) (m : α → Bool) (fl : Nat → Bool) (pre : List (Int × α))
    (c : Int) (k : Kind) (hk : k = .ctx ∨ k = .closed) (tag : Nat) (after : Bool) (rest : List Obs) (H : Int)
    (ho : Ordered pre) (hc : ∀ a ∈ pre, a.1 ≤ c) (h0 : 0 ≤ c) (hb : n < 0 ∨ c < callBudget T n) :
    match (streamOf pre).find? m with
    | some p => ∃ i t, pre[i]? = some (t, p) ∧
        (runObs T n (obsOf m fl pre ++ ⟨c, k, tag, after⟩ :: rest) H).ret = some (t, .resp i)
    | none => (runObs T n (obsOf m fl pre ++ ⟨c, k, tag, after⟩ :: rest) H).ret = some (c, stopOutcome k) := by
  cases hf : (streamOf pre).find? m with
  | some p =>
    obtain ⟨i, t, hi, _, _, hrun⟩ := refines_some (n := n) hT m fl pre ho p hf
    refine ⟨i, t, hi, hrun _ H ?_⟩
    have := hc (t, p) (List.mem_of_getElem? hi)
    rcases hb with h | h
    · exact Or.inl h
    · exact Or.inr (by simp only at this; omega)
  | none =>
    have hq : Quiet (obsOf m fl pre) := obsFrom_quiet m fl 0 pre (find_none m pre hf)
    have hle : ∀ o ∈ obsOf m fl pre, o.t ≤ c := by
      intro o hoo
      obtain ⟨a, ha, hta, _⟩ := mem_obsFrom m fl 0 pre o hoo
      rw [hta]; exact hc a ha
    have := quiet_then_terminal_ret (n := n) hT (obsOf m fl pre) rest ⟨c, k, tag, after⟩ H hq
      (by rcases hk with h | h <;> simp [Terminal, h]) h0 hle hb
    show _ = some (c, stopOutcome k)
    rw [this]
    rcases hk with h | h <;> simp [terminalOutcome, stopOutcome, h]

/-- the packet handed to the caller of a cancelled / closed call is `find?` on
the part of the stream that arrived before -/
theorem answer_refines_stop {T n : Int} (hT : 0 < T) (m : α → Bool) (fl : Nat → Bool) (pre post : List (Int × α))
    (c : Int) (k : Kind) (hk : k = .ctx ∨ k = .closed) (tag : Nat) (after : Bool) (H : Int)
    (ho : Ordered pre) (hc : ∀ a ∈ pre, a.1 ≤ c) (h0 : 0 ≤ c) (hb : n < 0 ∨ c < callBudget T n) :
    answer (pre ++ post)
      (runObs T n (obsOf m fl pre ++ ⟨c, k, tag, after⟩ :: obsFrom m fl pre.length post) H).ret =
      (streamOf pre).find? m := by
  have h := refines_stop hT m fl pre c k hk tag after (obsFrom m fl pre.length post) H ho hc h0 hb
  cases hf : (streamOf pre).find? m with
  | some p =>
    rw [hf] at h
    obtain ⟨i, t, hi, hr⟩ := h
    rw [hr]
    have hlt : i < pre.length := (List.getElem?_eq_some_iff.1 hi).1
    simp [answer, List.getElem?_append_left hlt, hi]
  | none =>
    rw [hf] at h
    rw [h]
    rcases hk with h | h <;> simp [answer, stopOutcome, h]

/-! ### arrivals at or after the budget are not part of the call -/

/-- an observation the schedule has run out for: after the budget, or on it
with the last deadline having fired first -/
def LateObs (T n : Int) (o : Obs) : Prop := off T n.toNat < o.t ∨ (o.t = off T n.toNat ∧ o.afterTimer = true)

theorem stepObs_late {T n : Int} (hT : 0 < T) (hn : 0 ≤ n) (st : CState) (o : Obs) (hl : LateObs T n o)
    (h : QuietInv T n st) : QuietInv T n (stepObs n st o) := by
  cases st with
  | done txs t out => exact h
  | waiting w =>
    obtain ⟨g, hclk⟩ := h
    rw [stepObs_waiting]
    rcases advance_spec hT (max o.t w.clk) o.afterTimer _ w g (advanceFuel_ok _ _) with
      ⟨w', hw', g', hclk', hnot, hk'⟩ | ⟨hd, hn0, hle, hk⟩
    · exfalso
      have hk : w'.k + 1 ≤ n.toNat := by
        rcases g'.htries with h | h <;> omega
      have hmono := off_mono hT hk
      apply hnot
      rcases hl with hl | ⟨hl1, hl2⟩
      · left; omega
      · by_cases hlt : off T (w'.k + 1) < max o.t w.clk
        · exact Or.inl hlt
        · right; exact ⟨hl2, by omega⟩
    · rw [hd]; exact ⟨rfl, hn0, rfl, rfl⟩

theorem runFrom_late {T n : Int} (hT : 0 < T) (hn : 0 ≤ n) (obs : List Obs) (hl : ∀ o ∈ obs, LateObs T n o) :
    ∀ st, QuietInv T n st → QuietInv T n (runFrom n st obs) := by
  induction obs with
  | nil => intro st h; exact h
  | cons o obs ih =>
    intro st h; rw [runFrom_cons]
    exact ih (fun o' ho' => hl o' (List.mem_cons_of_mem _ ho')) _
      (stepObs_late hT hn st o (hl o (List.mem_cons_self ..)) h)

/-- Quiet traffic, then ANY observations (acceptable responses included) that
come after the budget: the full schedule and the no-response error at the
budget, as if they were not there. -/
theorem late_ignored {T n : Int} (hT : 0 < T) (hn : 0 ≤ n) (q late : List Obs) (H : Int) (hq : Quiet q)
    (hl : ∀ o ∈ late, LateObs T n o) (hH : off T n.toNat ≤ H) :
    runObs T n (q ++ late) H = ⟨sched T n.toNat, some (off T n.toNat, .noResp)⟩ := by
  have hqi := runFrom_late hT hn late hl _ (runFrom_quiet hT q hq _ (begin_quiet (T := T) n))
  unfold runObs
  rw [runFrom_append]
  cases hst : runFrom n (runFrom n (begin T n) q) late with
  | done txs t out =>
    rw [hst] at hqi
    obtain ⟨h1, _, h3, h4⟩ := hqi
    rw [finish_done, h1, h3, h4]
  | waiting w =>
    rw [hst] at hqi
    rcases finish_spec hT H w hqi.1 with ⟨k', _, hlt, hk, _⟩ | ⟨hf, _, _⟩
    · exfalso
      have : n.toNat < k' + 1 := lt_of_off_lt hT (by omega)
      omega
    · exact hf

theorem mem_obsFrom_idx (m : α → Bool) (fl : Nat → Bool) (i : Nat) (arr : List (Int × α)) (o : Obs)
    (h : o ∈ obsFrom m fl i arr) :
    ∃ j a, arr[j]? = some a ∧ o = ⟨a.1, kindOf m a.2, i + j, fl (i + j)⟩ := by
  induction arr generalizing i with
  | nil => simp [obsFrom] at h
  | cons x arr ih =>
    simp only [obsFrom, List.mem_cons] at h
    rcases h with h | h
    · exact ⟨0, x, rfl, by simpa using h⟩
    · obtain ⟨j, a, ha, ho⟩ := ih (i + 1) h
      refine ⟨j + 1, a, by simpa using ha, ?_⟩
      rw [ho]
      have : i + 1 + j = i + (j + 1) := by omega
      rw [this]

/-- **sendAndRead_refines, arrivals of any instant** (`n ≥ 0`). The routed
traffic splits into `live` (strictly before the budget) and `late` (on or after
it; those exactly on it applied after the last deadline fired): the call's
result is `find?` on `live` alone — late packets, accepted by the matcher or
not, never reach the caller. -/
theorem sendAndRead_refines_cut {T n : Int} (hT : 0 < T) (hn : 0 ≤ n) (m : α → Bool) (fl : Nat → Bool)
    (live late : List (Int × α)) (H : Int) (ho : Ordered live) (hb : ∀ a ∈ live, a.1 < callBudget T n)
    (hlate : ∀ a ∈ late, callBudget T n ≤ a.1) (hfl : ∀ i, live.length ≤ i → fl i = true) :
    match (streamOf live).find? m with
    | some p => ∃ i t, live[i]? = some (t, p) ∧
        (runObs T n (obsOf m fl (live ++ late)) H).ret = some (t, .resp i)
    | none => callBudget T n ≤ H →
        runObs T n (obsOf m fl (live ++ late)) H = ⟨sched T n.toNat, some (callBudget T n, .noResp)⟩ := by
  have hsplit : obsOf m fl (live ++ late) = obsOf m fl live ++ obsFrom m fl live.length late := by
    simp [obsOf, obsFrom_append]
  rw [hsplit]
  cases hf : (streamOf live).find? m with
  | some p =>
    obtain ⟨i, t, hi, _, _, hrun⟩ := refines_some (n := n) hT m fl live ho p hf
    exact ⟨i, t, hi, hrun _ H (Or.inr (hb (t, p) (List.mem_of_getElem? hi)))⟩
  | none =>
    intro hH
    refine late_ignored hT hn _ _ H (obsFrom_quiet m fl 0 live (find_none m live hf)) ?_ hH
    intro o hoo
    obtain ⟨j, a, ha, rfl⟩ := mem_obsFrom_idx m fl live.length late o hoo
    have h1 := hlate a (List.mem_of_getElem? ha)
    have h2 := hfl (live.length + j) (by omega)
    unfold LateObs
    rw [callBudget_eq_off] at h1
    simp only
    by_cases h : off T n.toNat < a.1
    · exact Or.inl h
    · exact Or.inr ⟨by omega, h2⟩

/-! ### datagrams the caller never sees, interleaved -/

theorem find_terminal_none (m : α → Bool) (fl : Nat → Bool) (arr : List (Int × α))
    (hf : (streamOf arr).find? m = none) : (obsOf m fl arr).find? isTerminal = none := by
  rw [List.find?_eq_none]
  intro o ho
  have := obsFrom_quiet m fl 0 arr (find_none m arr hf) o ho
  simp [(isTerminal_false_iff o).2 this]

/-- **With unseen traffic interleaved.** `obs` is ANY observation sequence in
time order whose observations other than `irr` (datagrams for other
transactions, undecodable ones, ones lost between two tries — any number, at
any instants, any flags) are exactly the observations of the routed stream
`arr`: the result is that of the routed stream alone. -/
theorem refines_with_irrelevant {T n : Int} (hT : 0 < T) (m : α → Bool) (fl : Nat → Bool) (arr : List (Int × α))
    (obs : List Obs) (H : Int) (ho : OrderedObs obs)
    (hobs : obs.filter (fun o => o.kind != .irr) = obsOf m fl arr) (hb : InBudget T n arr) :
    match (streamOf arr).find? m with
    | some p => ∃ i t, arr[i]? = some (t, p) ∧ (runObs T n obs H).ret = some (t, .resp i)
    | none => Quiet obs := by
  have hfind : obs.find? isTerminal = (obsOf m fl arr).find? isTerminal := by
    rw [← hobs, List.find?_filter]
    congr 1
    funext o
    unfold isTerminal
    cases o.kind <;> rfl
  cases hf : (streamOf arr).find? m with
  | some p =>
    obtain ⟨pre, t, post, heq, hpre, hp⟩ := find_split m arr p hf
    subst heq
    refine ⟨pre.length, t, by simp, ?_⟩
    have hfo : (obsOf m fl (pre ++ (t, p) :: post)).find? isTerminal =
        some ⟨t, kindOf m p, pre.length, fl pre.length⟩ := by
      simp only [obsOf, obsFrom_append, obsFrom, List.find?_append]
      have : (obsFrom m fl 0 pre).find? isTerminal = none := by
        rw [List.find?_eq_none]
        intro o hoo
        have := obsFrom_quiet m fl 0 pre hpre o hoo
        simp [(isTerminal_false_iff o).2 this]
      rw [this]
      simp [isTerminal, kindOf_acc hp]
    have hbt : n < 0 ∨ t < off T n.toNat := by
      by_cases hn : n < 0
      · exact Or.inl hn
      · exact Or.inr (hb (by omega) (t, p) (by simp))
    have := (first_terminal (n := n) hT obs H ho).1 _ (hfind.trans hfo) hbt
    rw [this]
    simp [terminalOutcome, kindOf_acc hp]
  | none =>
    refine (first_terminal (n := n) hT obs H ho).2 ?_
    rw [hfind, find_terminal_none m fl arr hf]

/-- **The corollary C13 uses.** Reading the machine's return back as a packet
gives the abstract call's answer — for every horizon. -/
theorem answer_refines {T n : Int} (hT : 0 < T) (m : α → Bool) (fl : Nat → Bool) (arr : List (Int × α))
    (H : Int) (ho : Ordered arr) (hb : InBudget T n arr) :
    answer arr (runObs T n (obsOf m fl arr) H).ret = (streamOf arr).find? m := by
  have h := sendAndRead_refines hT m fl arr H ho hb
  cases hf : (streamOf arr).find? m with
  | some p =>
    rw [hf] at h
    obtain ⟨i, t, hi, hr⟩ := h
    rw [hr]; simp [answer, hi]
  | none =>
    rcases (refines_none (n := n) hT m fl arr hf H).2.2 with hr | ⟨t, hr⟩ <;> rw [hr] <;> rfl

theorem timedCall_eq_find {T n : Int} (hT : 0 < T) (m : α → Bool) (arr : List (Int × α)) (H : Int)
    (ho : Ordered arr) (hb : InBudget T n arr) : timedCall T n m arr H = (streamOf arr).find? m :=
  answer_refines hT m quiescent arr H ho hb

end Dhcp.Client.Refine

/-
  Layer 2 of the timed model (`runCall`: the SET of results a script of
  external events allows, the function whose output the client4/client6
  correspondence streams compare with the real clients) for scripts that only
  inject datagrams.
-/
namespace Dhcp.Client.Refine
open Dhcp.Client.Timed

/-! ### the groups of a script, flattened, are `scriptObs` -/

theorem groupsAux_flatten : ∀ (es : List Event) (clk : Int) (i : Nat) (cur : Option (Int × Bool × Group)),
    (∀ c, cur = some c → c.1 = clk) →
    (groupsAux clk i es cur).flatMap viewOf =
      (match cur with | some c => viewOf c | none => []) ++ scriptObsFrom clk i es := by
  intro es
  induction es with
  | nil => intro clk i cur _; cases cur <;> simp [groupsAux, scriptObsFrom]
  | cons e es ih =>
    intro clk i cur hc
    unfold groupsAux
    cases cur with
    | none =>
      simp only
      rw [ih _ _ _ (by intro c h; injection h with h; subst h; rfl)]
      simp [viewOf, toObs, scriptObsFrom]
    | some c =>
      obtain ⟨tg, r, gg⟩ := c
      have htg : tg = clk := hc _ rfl
      by_cases hf : (e.sync || decide (e.t > clk)) = true
      · simp only [hf]
        rw [List.flatMap_cons, ih _ _ _ (by intro c h; injection h with h; subst h; rfl)]
        simp [viewOf, toObs, scriptObsFrom]
      · have hf' : (e.sync || decide (e.t > clk)) = false := by simpa using hf
        simp only [hf']
        have hle : max e.t clk = clk := by
          simp at hf'; omega
        rw [ih _ _ _ (by intro c h; injection h with h; subst h; simp [hle, htg])]
        simp [viewOf, toObs, scriptObsFrom, hle, htg]

theorem groups_flatten (evs : List Event) : (groups evs).flatMap viewOf = scriptObs evs := by
  unfold groups scriptObs
  rw [groupsAux_flatten evs 0 0 none (by intro c h; cases h)]
  rfl

theorem scriptObsFrom_lb (clk : Int) (i : Nat) (es : List Event) : ∀ o ∈ scriptObsFrom clk i es, clk ≤ o.t := by
  induction es generalizing clk i with
  | nil => intro o h; simp [scriptObsFrom] at h
  | cons e es ih =>
    intro o h
    simp only [scriptObsFrom, List.mem_cons] at h
    rcases h with rfl | h
    · exact Int.le_max_right _ _
    · have := ih _ _ o h
      have := Int.le_max_right e.t clk
      omega

theorem scriptObsFrom_pairwise (clk : Int) (i : Nat) (es : List Event) :
    (scriptObsFrom clk i es).Pairwise (fun a b => a.t ≤ b.t) := by
  induction es generalizing clk i with
  | nil => simp [scriptObsFrom]
  | cons e es ih =>
    simp only [scriptObsFrom]
    rw [List.pairwise_cons]
    exact ⟨fun o ho => scriptObsFrom_lb _ _ es o ho, ih _ _⟩

theorem scriptObs_ordered (evs : List Event) : OrderedObs (scriptObs evs) :=
  ⟨fun o ho => scriptObsFrom_lb 0 0 evs o ho, scriptObsFrom_pairwise 0 0 evs⟩

/-- the script of a routed stream in time order is observed as the stream's
observation sequence (all at quiescence), whatever the script's sync flags -/
theorem scriptObsFrom_scriptFrom {α : Type} (m : α → Bool) (sy : Nat → Bool) (arr : List (Int × α)) (clk : Int)
    (i : Nat) (hlb : ∀ a ∈ arr, clk ≤ a.1) (hs : arr.Pairwise (fun a b => a.1 ≤ b.1)) :
    scriptObsFrom clk i (scriptFrom m sy i arr) = obsFrom m quiescent i arr := by
  induction arr generalizing clk i with
  | nil => rfl
  | cons a arr ih =>
    have h1 : max a.1 clk = a.1 := Int.max_eq_left (hlb a (List.mem_cons_self ..))
    rw [List.pairwise_cons] at hs
    simp only [scriptFrom, scriptObsFrom, obsFrom, h1]
    rw [ih a.1 (i + 1) hs.1 hs.2]
    congr 1
    cases hm : m a.2 <;> simp [kindOf, obsKind, hm, quiescent]

theorem scriptObs_scriptFrom {α : Type} (m : α → Bool) (sy : Nat → Bool) (arr : List (Int × α)) (ho : Ordered arr) :
    scriptObs (scriptFrom m sy 0 arr) = obsOf m quiescent arr :=
  scriptObsFrom_scriptFrom m sy arr 0 0 ho.1 ho.2

theorem scriptObs_scriptOf {α : Type} (m : α → Bool) (arr : List (Int × α)) (ho : Ordered arr) :
    scriptObs (scriptOf m arr) = obsOf m quiescent arr :=
  scriptObs_scriptFrom m quiescent arr ho

theorem scriptFrom_arrivals {α : Type} (m : α → Bool) (sy : Nat → Bool) (i : Nat) (arr : List (Int × α)) :
    ArrivalsOnly (scriptFrom m sy i arr) := by
  induction arr generalizing i with
  | nil => intro e he; simp [scriptFrom] at he
  | cons a arr ih =>
    intro e he
    simp only [scriptFrom, List.mem_cons] at he
    rcases he with rfl | he
    · cases m a.2 <;> rfl
    · exact ih (i + 1) e he

theorem scriptFrom_sync {α : Type} (m : α → Bool) (sy : Nat → Bool) (i : Nat) (arr : List (Int × α))
    (h : ∀ j, sy j = true) : ∀ e ∈ scriptFrom m sy i arr, e.sync = true := by
  induction arr generalizing i with
  | nil => intro e he; simp [scriptFrom] at he
  | cons a arr ih =>
    intro e he
    simp only [scriptFrom, List.mem_cons] at he
    rcases he with rfl | he
    · exact h i
    · exact ih (i + 1) e he

/-! ### groups of an arrivals-only script -/

theorem groupsAux_forall (P : EvKind → Prop) : ∀ (es : List Event) (clk : Int) (i : Nat)
    (cur : Option (Int × Bool × Group)),
    (∀ e ∈ es, P e.kind) → (∀ c, cur = some c → ∀ x ∈ c.2.2, P x.2) →
    ∀ g ∈ groupsAux clk i es cur, ∀ x ∈ g.2.2, P x.2 := by
  intro es
  induction es with
  | nil =>
    intro clk i cur _ hc g hg
    cases cur with
    | none => simp [groupsAux] at hg
    | some c0 => simp [groupsAux] at hg; subst hg; exact hc _ rfl
  | cons e es ih =>
    intro clk i cur hq hc g hg
    have hqe := hq e (List.mem_cons_self ..)
    have hqes : ∀ e' ∈ es, P e'.kind := fun e' he' => hq e' (List.mem_cons_of_mem _ he')
    have single : ∀ x ∈ [(i, e.kind)], P x.2 := by
      intro x hx; simp at hx; subst hx; exact hqe
    unfold groupsAux at hg
    cases cur with
    | none =>
      simp only at hg
      exact ih _ _ _ hqes (by intro c hc'; injection hc' with hc'; subst hc'; exact single) g hg
    | some c =>
      obtain ⟨tg, r, gg⟩ := c
      by_cases hf : (e.sync || decide (e.t > clk)) = true
      · simp only [hf] at hg
        simp only [List.mem_cons] at hg
        rcases hg with rfl | hg
        · exact hc _ rfl
        · exact ih _ _ _ hqes (by intro c hc'; injection hc' with hc'; subst hc'; exact single) g hg
      · have hf' : (e.sync || decide (e.t > clk)) = false := by simpa using hf
        simp only [hf'] at hg
        refine ih _ _ _ hqes ?_ g hg
        intro c hc'; injection hc' with hc'; subst hc'
        intro x hx
        rcases List.mem_append.1 hx with h | h
        · exact hc _ rfl x h
        · exact single x h

/-- every group of an arrivals-only script consists of arrivals -/
theorem groups_arrivals (evs : List Event) (h : ArrivalsOnly evs) :
    ∀ g ∈ groups evs, ∀ x ∈ g.2.2, isArrival x.2 = true :=
  groupsAux_forall (fun k => isArrival k = true) evs 0 0 none h (by intro c hc; cases hc)

/-- a script whose events are all applied at quiescence has no racing group -/
theorem groupsAux_sync : ∀ (es : List Event) (clk : Int) (i : Nat) (cur : Option (Int × Bool × Group)),
    (∀ e ∈ es, e.sync = true) → (∀ c, cur = some c → c.2.1 = false) →
    ∀ g ∈ groupsAux clk i es cur, g.2.1 = false := by
  intro es
  induction es with
  | nil =>
    intro clk i cur _ hc g hg
    cases cur with
    | none => simp [groupsAux] at hg
    | some c0 => simp [groupsAux] at hg; subst hg; exact hc _ rfl
  | cons e es ih =>
    intro clk i cur hq hc g hg
    have hqe := hq e (List.mem_cons_self ..)
    have hqes : ∀ e' ∈ es, e'.sync = true := fun e' he' => hq e' (List.mem_cons_of_mem _ he')
    unfold groupsAux at hg
    cases cur with
    | none =>
      simp only at hg
      exact ih _ _ _ hqes (by intro c hc'; injection hc' with hc'; subst hc'; simp [hqe]) g hg
    | some c =>
      obtain ⟨tg, r, gg⟩ := c
      simp only [hqe, Bool.true_or] at hg
      simp only [List.mem_cons] at hg
      rcases hg with rfl | hg
      · exact hc _ rfl
      · exact ih _ _ _ hqes (by intro c hc'; injection hc' with hc'; subst hc'; simp) g hg

theorem groups_sync (evs : List Event) (h : ∀ e ∈ evs, e.sync = true) : ∀ g ∈ groups evs, g.2.1 = false :=
  groupsAux_sync evs 0 0 none h (by intro c hc; cases hc)

/-- a group of arrivals has one merge order: itself -/
theorem mergeOrders_arrivals (g : Group) (h : ∀ x ∈ g, isArrival x.2 = true) : mergeOrders g = [g] := by
  have hc : ∀ k, (k = EvKind.cancel ∨ k = EvKind.close) → g.find? (fun e => e.2 = k) = none := by
    intro k hk
    rw [List.find?_eq_none]
    intro e he
    have := h e he
    rcases hk with rfl | rfl <;> (intro hk'; simp at hk'; rw [hk'] at this; simp [isArrival] at this)
  unfold mergeOrders
  rw [hc _ (Or.inl rfl), hc _ (Or.inr rfl)]
  simp only
  rw [List.filter_eq_self.2 (fun x hx => h x hx)]

/-! ### what a racing group can make the caller observe -/

/-- How a view of a group may differ from the quiescent one, element by
element: same instant, same datagram; the kind unchanged or `irr` (the datagram
was lost in the hand-over between two tries); the flag is free. -/
inductive WeakV : List Obs → List Obs → Prop
  | nil : WeakV [] []
  | cons {o o0 : Obs} {v v0 : List Obs} : o.t = o0.t → o.tag = o0.tag → (o.kind = o0.kind ∨ o.kind = .irr) →
      WeakV v v0 → WeakV (o :: v) (o0 :: v0)

theorem WeakV.append {a a0 b b0 : List Obs} (h1 : WeakV a a0) (h2 : WeakV b b0) : WeakV (a ++ b) (a0 ++ b0) := by
  induction h1 with
  | nil => exact h2
  | cons ht hg hk _ ih => exact WeakV.cons ht hg hk ih

theorem weakV_toObs_same (t : Int) (a : Bool) (l : Group) : WeakV (toObs t a l) (toObs t true l) := by
  induction l with
  | nil => exact WeakV.nil
  | cons e l ih => exact WeakV.cons rfl rfl (Or.inl rfl) ih

theorem weakV_lose (t : Int) (a : Bool) : ∀ (l : Group) (j : Nat), WeakV (toObs t a (lose j l)) (toObs t true l) := by
  intro l
  induction l with
  | nil => intro j; cases j <;> exact WeakV.nil
  | cons e l ih =>
    intro j
    cases j with
    | zero => exact weakV_toObs_same t a (e :: l)
    | succ j =>
      obtain ⟨i, k⟩ := e
      simp only [lose]
      split
      · exact WeakV.cons rfl rfl (Or.inr rfl) (ih j)
      · exact WeakV.cons rfl rfl (Or.inl rfl) (ih (j + 1))

/-- The views of a group of arrivals: the quiescent one; when the group races
with a deadline, also any weakening of it. -/
theorem groupViews_arrivals (t : Int) (b : Bool) (g : Group) (h : ∀ x ∈ g, isArrival x.2 = true) :
    ∀ w ∈ groupViews t b g, w = toObs t true g ∨ (b = true ∧ WeakV w (toObs t true g)) := by
  intro w hw
  unfold groupViews at hw
  rw [mergeOrders_arrivals g h] at hw
  cases b with
  | false =>
    simp at hw
    exact Or.inl hw
  | true =>
    simp only [if_true, List.flatMap_cons, List.flatMap_nil, List.append_nil, List.mem_flatMap, List.mem_map] at hw
    obtain ⟨p, _, j, _, rfl⟩ := hw
    right
    refine ⟨rfl, ?_⟩
    have : toObs t true g = toObs t true (g.take p) ++ toObs t true (g.drop p) := by
      simp only [toObs, ← List.map_append, List.take_append_drop]
    rw [this]
    exact WeakV.append (weakV_toObs_same t false _) (weakV_lose t true _ j)

/-- a deadline falls on `t` only if `t` is `T·(2^(k+1) − 1)` for some `k` -/
theorem deadlineAt_off {T n : Int} (hT : 0 < T) (st : CState) (hi : Inv T n st) (t : Int)
    (h : deadlineAt n st t = true) : ∃ k : Nat, t = off T (k + 1) := by
  unfold deadlineAt at h
  cases st with
  | done txs t' o => simp at h
  | waiting w =>
    simp only at h
    rcases advance_spec hT t false _ w hi.1 (advanceFuel_ok _ _) with ⟨w', hw', g', _, _, _⟩ | ⟨hd, _, _, _⟩
    · rw [hw'] at h
      simp only [decide_eq_true_eq] at h
      exact ⟨w'.k, by rw [← h, g'.deadline]⟩
    · rw [hd] at h; simp at h

/-- what one group may contribute to the caller's observation sequence -/
def ViewOfGroup (T : Int) (g : Int × Bool × Group) (w : List Obs) : Prop :=
  w = viewOf g ∨ (g.2.1 = true ∧ (∃ k : Nat, g.1 = off T (k + 1)) ∧ WeakV w (viewOf g))

/-- an observation sequence the groups `gs` allow -/
inductive Views (T : Int) : List (Int × Bool × Group) → List Obs → Prop
  | nil : Views T [] []
  | cons {g : Int × Bool × Group} {gs : List (Int × Bool × Group)} {w v : List Obs} :
      ViewOfGroup T g w → Views T gs v → Views T (g :: gs) (w ++ v)

theorem Views.snoc {T : Int} {gs : List (Int × Bool × Group)} {v : List Obs} (h : Views T gs v)
    {g : Int × Bool × Group} {w : List Obs} (hg : ViewOfGroup T g w) : Views T (gs ++ [g]) (v ++ w) := by
  induction h with
  | nil => simpa using Views.cons hg Views.nil
  | cons hg' _ ih =>
    rw [List.cons_append, List.append_assoc]
    exact Views.cons hg' ih

theorem foldGroups_views {T n : Int} (hT : 0 < T) (todo : List (Int × Bool × Group)) :
    (∀ g ∈ todo, ∀ x ∈ g.2.2, isArrival x.2 = true) →
    ∀ (dn : List (Int × Bool × Group)) (sts : List CState),
      (∀ s ∈ sts, ∃ v, s = runFrom n (begin T n) v ∧ Views T dn v) →
      ∀ s ∈ todo.foldl (fun sts (g : Int × Bool × Group) => stepGroup n g.1 g.2.1 g.2.2 sts) sts,
        ∃ v, s = runFrom n (begin T n) v ∧ Views T (dn ++ todo) v := by
  induction todo with
  | nil => intro _ dn sts h s hs; simpa using h s hs
  | cons g gs ih =>
    intro harr dn sts h s hs
    have key : ∀ s ∈ stepGroup n g.1 g.2.1 g.2.2 sts, ∃ v, s = runFrom n (begin T n) v ∧ Views T (dn ++ [g]) v := by
      intro s hs
      unfold stepGroup at hs
      rw [mem_dedup, List.mem_flatMap] at hs
      obtain ⟨st, hst, hs⟩ := hs
      rw [List.mem_map] at hs
      obtain ⟨w, hw, rfl⟩ := hs
      obtain ⟨v, rfl, hv⟩ := h st hst
      refine ⟨v ++ w, (runFrom_append n _ v w).symm, hv.snoc ?_⟩
      rcases groupViews_arrivals g.1 _ g.2.2 (harr g (List.mem_cons_self ..)) w hw with hw | ⟨hb, hw⟩
      · exact Or.inl hw
      · right
        simp only [Bool.and_eq_true] at hb
        exact ⟨hb.1, deadlineAt_off hT _ (runFrom_inv hT v _ (begin_inv (T := T) n)) g.1 hb.2, hw⟩
    have := ih (fun g' hg' => harr g' (List.mem_cons_of_mem _ hg')) (dn ++ [g]) _ key s hs
    simpa using this

/-- **Every result the script-level model allows for a script of datagram
injections is the caller-level machine run on an observation sequence the
script's groups allow** (`Views`): per group either the quiescent view or,
only for a group that races with a per-try deadline falling on its instant,
a weakening of it. -/
theorem runCall_views {T n : Int} (hT : 0 < T) (evs : List Event) (H : Int) (harr : ArrivalsOnly evs) (r : Result)
    (h : r ∈ runCall T n evs H) : ∃ v, r = runObs T n v H ∧ Views T (groups evs) v := by
  unfold runCall at h
  rw [mem_dedup, List.mem_map] at h
  obtain ⟨st, hst, rfl⟩ := h
  obtain ⟨v, rfl, hv⟩ := foldGroups_views (n := n) hT (groups evs) (groups_arrivals evs harr) [] [begin T n]
    (fun s hs => ⟨[], by simp at hs; subst hs; rfl, Views.nil⟩) st hst
  exact ⟨v, rfl, by simpa using hv⟩

/-- no group both races and sits on a deadline: the only view is the quiescent one -/
theorem Views.eq_of_noRace {T : Int} {gs : List (Int × Bool × Group)} {v : List Obs} (h : Views T gs v)
    (hn : ∀ g ∈ gs, g.2.1 = false ∨ ∀ k : Nat, g.1 ≠ off T (k + 1)) : v = gs.flatMap viewOf := by
  induction h with
  | nil => rfl
  | @cons g gs w v hg _ ih =>
    rw [List.flatMap_cons, ← ih (fun g' hg' => hn g' (List.mem_cons_of_mem _ hg'))]
    rcases hg with hg | ⟨hr, ⟨k, hk⟩, _⟩
    · rw [hg]
    · rcases hn g (List.mem_cons_self ..) with h' | h'
      · rw [h'] at hr; cases hr
      · exact absurd hk (h' k)

/-- Element by element, with the reason: an observation differs from the
quiescent one only when its instant is a retransmission deadline. -/
inductive WeakD (T : Int) : List Obs → List Obs → Prop
  | nil : WeakD T [] []
  | cons {o o0 : Obs} {v v0 : List Obs} : o.t = o0.t → o.tag = o0.tag →
      (o = o0 ∨ ((o.kind = o0.kind ∨ o.kind = .irr) ∧ ∃ k : Nat, o0.t = off T (k + 1))) →
      WeakD T v v0 → WeakD T (o :: v) (o0 :: v0)

theorem WeakD.refl (T : Int) (v : List Obs) : WeakD T v v := by
  induction v with
  | nil => exact WeakD.nil
  | cons o v ih => exact WeakD.cons rfl rfl (Or.inl rfl) ih

theorem WeakD.append {T : Int} {a a0 b b0 : List Obs} (h1 : WeakD T a a0) (h2 : WeakD T b b0) :
    WeakD T (a ++ b) (a0 ++ b0) := by
  induction h1 with
  | nil => exact h2
  | cons ht hg hk _ ih => exact WeakD.cons ht hg hk ih

theorem WeakV.toD {T : Int} {w w0 : List Obs} (h : WeakV w w0) (hd : ∀ o0 ∈ w0, ∃ k : Nat, o0.t = off T (k + 1)) :
    WeakD T w w0 := by
  induction h with
  | nil => exact WeakD.nil
  | @cons o o0 v v0 ht hg hk _ ih =>
    exact WeakD.cons ht hg (Or.inr ⟨hk, hd o0 (List.mem_cons_self ..)⟩)
      (ih (fun o' ho' => hd o' (List.mem_cons_of_mem _ ho')))

theorem Views.weakD {T : Int} {gs : List (Int × Bool × Group)} {v : List Obs} (h : Views T gs v) :
    WeakD T v (gs.flatMap viewOf) := by
  induction h with
  | nil => exact WeakD.nil
  | @cons g gs w v hg _ ih =>
    rw [List.flatMap_cons]
    refine WeakD.append ?_ ih
    rcases hg with hg | ⟨_, ⟨k, hk⟩, hw⟩
    · rw [hg]; exact WeakD.refl T _
    · refine hw.toD ?_
      intro o0 ho0
      simp only [viewOf, toObs, List.mem_map] at ho0
      obtain ⟨e, _, rfl⟩ := ho0
      exact ⟨k, hk⟩

theorem WeakD.mem_t {T : Int} {v v0 : List Obs} (h : WeakD T v v0) : ∀ o ∈ v, ∃ o0 ∈ v0, o.t = o0.t := by
  induction h with
  | nil => intro o ho; cases ho
  | @cons o o0 v v0 ht _ _ _ ih =>
    intro x hx
    rcases List.mem_cons.1 hx with rfl | hx
    · exact ⟨o0, List.mem_cons_self .., ht⟩
    · obtain ⟨y, hy, hxy⟩ := ih x hx
      exact ⟨y, List.mem_cons_of_mem _ hy, hxy⟩

theorem WeakD.ordered {T : Int} {v v0 : List Obs} (h : WeakD T v v0) (ho : OrderedObs v0) : OrderedObs v := by
  constructor
  · intro o hoo
    obtain ⟨o0, ho0, ht⟩ := h.mem_t o hoo
    rw [ht]; exact ho.1 o0 ho0
  · have hp := ho.2
    clear ho
    induction h with
    | nil => exact List.Pairwise.nil
    | @cons o o0 v v0 ht _ _ hv ih =>
      rw [List.pairwise_cons] at hp ⊢
      refine ⟨fun x hx => ?_, ih hp.2⟩
      obtain ⟨y, hy, hxy⟩ := hv.mem_t x hx
      rw [ht, hxy]; exact hp.1 y hy

theorem WeakD.split {T : Int} : ∀ (pre : List Obs) {v v0 : List Obs} (o : Obs) (post : List Obs),
    WeakD T v v0 → v = pre ++ o :: post →
    ∃ pre0 o0 post0, v0 = pre0 ++ o0 :: post0 ∧ WeakD T pre pre0 ∧ o.t = o0.t ∧ o.tag = o0.tag ∧
      (o = o0 ∨ ((o.kind = o0.kind ∨ o.kind = .irr) ∧ ∃ k : Nat, o0.t = off T (k + 1))) := by
  intro pre
  induction pre with
  | nil =>
    intro v v0 o post h heq
    subst heq
    cases h with
    | cons ht hg hk hv => exact ⟨[], _, _, rfl, WeakD.nil, ht, hg, hk⟩
  | cons x pre ih =>
    intro v v0 o post h heq
    subst heq
    cases h with
    | @cons _ x0 _ v0' ht hg hk hv =>
      obtain ⟨pre0, o0, post0, h1, h2, h3⟩ := ih o post hv rfl
      exact ⟨x0 :: pre0, o0, post0, by rw [h1]; rfl, WeakD.cons ht hg hk h2, h3⟩

/-- quiet observations stand for quiet ones, or for ones on a deadline -/
theorem WeakD.quiet_pre {T : Int} {pre pre0 : List Obs} (h : WeakD T pre pre0) (hq : Quiet pre) :
    ∀ q0 ∈ pre0, q0.kind = .acc → ∃ k : Nat, q0.t = off T (k + 1) := by
  induction h with
  | nil => intro q0 h; cases h
  | @cons o o0 v v0 _ _ hk _ ih =>
    intro q0 hq0 hacc
    rcases List.mem_cons.1 hq0 with rfl | hq0
    · rcases hk with rfl | ⟨_, hd⟩
      · rcases hq _ (List.mem_cons_self ..) with h | h <;> rw [h] at hacc <;> cases hacc
      · exact hd
    · exact ih (fun x hx => hq x (List.mem_cons_of_mem _ hx)) q0 hq0 hacc

/-! ### a returned response is the first acceptable observation -/

/-- For EVERY observation sequence in time order (any flags): a call that
returns a response returns the first terminal observation, which is an
acceptable response, at its instant; everything before it is quiet. -/
theorem resp_first_acc {T n : Int} (hT : 0 < T) (v : List Obs) (H t : Int) (i : Nat) (ho : OrderedObs v)
    (h : (runObs T n v H).ret = some (t, .resp i)) :
    ∃ pre o post, v = pre ++ o :: post ∧ Quiet pre ∧ o.kind = .acc ∧ o.tag = i ∧ o.t = t := by
  cases hf : v.find? isTerminal with
  | none =>
    exfalso
    have hq := (first_terminal (n := n) hT v H ho).2 hf
    rcases quiet_ret (n := n) hT v H hq with hr | ⟨t', hr⟩ <;> rw [hr] at h <;> simp at h
  | some o =>
    obtain ⟨hto, pre, post, heq, hpre⟩ := List.find?_eq_some_iff_append.1 hf
    subst heq
    have hq : Quiet pre := fun p hp => (isTerminal_false_iff p).1 (by simpa using hpre p hp)
    have hle : ∀ p ∈ pre, p.t ≤ o.t := fun p hp =>
      (List.pairwise_append.1 ho.2).2.2 p hp o (List.mem_cons_self ..)
    have h0 : 0 ≤ o.t := ho.1 o (by simp)
    refine ⟨pre, o, post, rfl, hq, ?_⟩
    have hqi := runFrom_quiet hT pre hq _ (begin_quiet (T := T) n)
    unfold runObs at h
    rw [runFrom_append, runFrom_cons] at h
    cases hst : runFrom n (begin T n) pre with
    | done txs t' out =>
      exfalso
      rw [hst] at hqi h
      rw [stepObs_done, runFrom_done, finish_done, hqi.1] at h
      simp at h
    | waiting w =>
      rw [hst] at hqi h
      obtain ⟨g, _⟩ := hqi
      have hclk : w.clk ≤ o.t := runFrom_clk n o.t pre hle _ (begin_clk T n o.t h0) w hst
      have hmax : max o.t w.clk = o.t := Int.max_eq_left hclk
      rw [stepObs_waiting] at h
      rcases advance_spec hT (max o.t w.clk) o.afterTimer _ w g (advanceFuel_ok _ _) with
        ⟨w', hw', _, _, _, _⟩ | ⟨hd, _, _, _⟩
      · rw [hw'] at h
        rcases (isTerminal_iff o).1 hto with hk | hk | hk <;> rw [hk] at h <;> simp only at h <;>
          rw [runFrom_done, finish_done] at h <;> simp at h
        exact ⟨hk, h.2, by omega⟩
      · exfalso
        rw [hd] at h
        simp only at h
        rw [runFrom_done, finish_done] at h
        simp at h

/-- **Racing scripts: what can be returned.** For ANY script of datagram
injections (any instants, any sync flags, bursts), every result the
script-level model allows that is a response is an acceptable datagram of the
script, returned at its effective instant, and every acceptable datagram
injected before it fell exactly on a retransmission deadline
`T·(2^(k+1) − 1)` (where the model lets it be lost to the try being torn
down). -/
theorem runCall_resp_first {T n : Int} (hT : 0 < T) (evs : List Event) (H : Int) (harr : ArrivalsOnly evs)
    (r : Result) (hr : r ∈ runCall T n evs H) (t : Int) (i : Nat) (hret : r.ret = some (t, .resp i)) :
    ∃ pre o post, scriptObs evs = pre ++ o :: post ∧ o.kind = .acc ∧ o.tag = i ∧ o.t = t ∧
      ∀ q ∈ pre, q.kind = .acc → ∃ k : Nat, q.t = off T (k + 1) := by
  obtain ⟨v, rfl, hv⟩ := runCall_views hT evs H harr r hr
  have hw := hv.weakD
  rw [groups_flatten] at hw
  have hov := hw.ordered (scriptObs_ordered evs)
  obtain ⟨pre, o, post, heq, hq, hk, htag, ht⟩ := resp_first_acc hT v H t i hov hret
  obtain ⟨pre0, o0, post0, h0, hpre, ht0, htag0, hrel⟩ := WeakD.split pre o post hw heq
  refine ⟨pre0, o0, post0, h0, ?_, by rw [← htag0, htag], by rw [← ht0, ht], hpre.quiet_pre hq⟩
  rcases hrel with rfl | ⟨h1 | h1, _⟩
  · exact hk
  · rw [← h1]; exact hk
  · rw [hk] at h1; cases h1

/-! ### scripts on which nothing races: exactly one result -/

theorem runCall_det {T n : Int} (hT : 0 < T) (evs : List Event) (H : Int) (harr : ArrivalsOnly evs)
    (hn : ∀ g ∈ groups evs, g.2.1 = false ∨ ∀ k : Nat, g.1 ≠ off T (k + 1)) (r : Result)
    (hr : r ∈ runCall T n evs H) : r = runObs T n (scriptObs evs) H := by
  obtain ⟨v, rfl, hv⟩ := runCall_views hT evs H harr r hr
  rw [hv.eq_of_noRace hn, groups_flatten]

theorem WeakD.eq_of_no_deadline {T : Int} {v v0 : List Obs} (h : WeakD T v v0)
    (hn : ∀ o0 ∈ v0, ∀ k : Nat, o0.t ≠ off T (k + 1)) : v = v0 := by
  induction h with
  | nil => rfl
  | @cons o o0 v v0 _ _ hk _ ih =>
    rw [ih (fun x hx => hn x (List.mem_cons_of_mem _ hx))]
    rcases hk with rfl | ⟨_, k, hk⟩
    · rfl
    · exact absurd hk (hn o0 (List.mem_cons_self ..) k)

theorem runCall_no_coincidence {T n : Int} (hT : 0 < T) (evs : List Event) (H : Int) (harr : ArrivalsOnly evs)
    (hn : ∀ o ∈ scriptObs evs, ∀ k : Nat, o.t ≠ off T (k + 1)) (r : Result)
    (hr : r ∈ runCall T n evs H) : r = runObs T n (scriptObs evs) H := by
  obtain ⟨v, rfl, hv⟩ := runCall_views hT evs H harr r hr
  have hw := hv.weakD
  rw [groups_flatten] at hw
  rw [hw.eq_of_no_deadline hn]

theorem groupViews_ne (t : Int) (b : Bool) (g : Group) (h : ∀ x ∈ g, isArrival x.2 = true) :
    ∃ w, w ∈ groupViews t b g := by
  unfold groupViews
  rw [mergeOrders_arrivals g h]
  cases b with
  | false => exact ⟨toObs t true g, by simp⟩
  | true =>
    refine ⟨toObs t false (g.take 0) ++ toObs t true (lose 0 (g.drop 0)), ?_⟩
    simp only [if_true, List.flatMap_cons, List.flatMap_nil, List.append_nil, List.mem_flatMap, List.mem_map,
      List.mem_range]
    exact ⟨0, by omega, 0, by omega, rfl⟩

theorem foldGroups_ne (n : Int) (gs : List (Int × Bool × Group))
    (harr : ∀ g ∈ gs, ∀ x ∈ g.2.2, isArrival x.2 = true) :
    ∀ sts : List CState, sts ≠ [] →
      gs.foldl (fun sts (g : Int × Bool × Group) => stepGroup n g.1 g.2.1 g.2.2 sts) sts ≠ [] := by
  induction gs with
  | nil => intro sts h; exact h
  | cons g gs ih =>
    intro sts h
    refine ih (fun g' hg' => harr g' (List.mem_cons_of_mem _ hg')) _ ?_
    obtain ⟨st, hst⟩ := List.exists_mem_of_ne_nil sts h
    obtain ⟨w, hw⟩ := groupViews_ne g.1 (g.2.1 && deadlineAt n st g.1) g.2.2 (harr g (List.mem_cons_self ..))
    have : runFrom n st w ∈ stepGroup n g.1 g.2.1 g.2.2 sts := by
      unfold stepGroup
      rw [mem_dedup, List.mem_flatMap]
      exact ⟨st, hst, List.mem_map.2 ⟨w, hw, rfl⟩⟩
    exact List.ne_nil_of_mem this

theorem dedup_all_eq {β : Type} [DecidableEq β] (a : β) : ∀ l : List β, (∀ x ∈ l, x = a) → l ≠ [] → dedup l = [a] := by
  intro l
  induction l with
  | nil => intro _ h; exact absurd rfl h
  | cons b l ih =>
    intro h _
    have hb : b = a := h b (List.mem_cons_self ..)
    subst hb
    have : dedup (b :: l) = addNew b (dedup l) := rfl
    rw [this]
    cases l with
    | nil => simp [dedup, addNew]
    | cons c l =>
      rw [ih (fun x hx => h x (List.mem_cons_of_mem _ hx)) (by simp)]
      simp [addNew]

/-- a script on which nothing races allows exactly one result -/
theorem runCall_singleton {T n : Int} (evs : List Event) (H : Int) (harr : ArrivalsOnly evs) (r0 : Result)
    (hall : ∀ r ∈ runCall T n evs H, r = r0) : runCall T n evs H = [r0] := by
  have hne := foldGroups_ne n (groups evs) (groups_arrivals evs harr) [begin T n] (by simp)
  unfold runCall at hall ⊢
  simp only at hall ⊢
  refine dedup_all_eq r0 _ (fun x hx => hall x ((mem_dedup x _).2 hx)) ?_
  intro h
  exact hne (List.map_eq_nil_iff.1 h)

/-! ### racing scripts: when no response is returned -/

theorem scriptObsFrom_kinds (clk : Int) (i : Nat) (es : List Event) (h : ArrivalsOnly es) :
    ∀ o ∈ scriptObsFrom clk i es, o.kind = .irr ∨ o.kind = .rej ∨ o.kind = .acc := by
  induction es generalizing clk i with
  | nil => intro o ho; simp [scriptObsFrom] at ho
  | cons e es ih =>
    intro o ho
    simp only [scriptObsFrom, List.mem_cons] at ho
    rcases ho with rfl | ho
    · have := h e (List.mem_cons_self ..)
      cases hk : e.kind <;> simp [hk, isArrival] at this <;> simp [obsKind]
    · exact ih _ _ (fun e' he' => h e' (List.mem_cons_of_mem _ he')) o ho

theorem WeakD.mem_kind {T : Int} {v v0 : List Obs} (h : WeakD T v v0) :
    ∀ o ∈ v, ∃ o0 ∈ v0, o.kind = o0.kind ∨ o.kind = .irr := by
  induction h with
  | nil => intro o ho; cases ho
  | @cons o o0 v v0 _ _ hk _ ih =>
    intro x hx
    rcases List.mem_cons.1 hx with rfl | hx
    · refine ⟨o0, List.mem_cons_self .., ?_⟩
      rcases hk with rfl | ⟨hk, _⟩
      · exact Or.inl rfl
      · exact hk
    · obtain ⟨y, hy, hxy⟩ := ih x hx
      exact ⟨y, List.mem_cons_of_mem _ hy, hxy⟩

theorem WeakD.mem_of_no_deadline {T : Int} {v v0 : List Obs} (h : WeakD T v v0) :
    ∀ o0 ∈ v0, (¬ ∃ k : Nat, o0.t = off T (k + 1)) → o0 ∈ v := by
  induction h with
  | nil => intro o ho; cases ho
  | @cons o o0 v v0 _ _ hk _ ih =>
    intro x hx hnd
    rcases List.mem_cons.1 hx with rfl | hx
    · rcases hk with rfl | ⟨_, hd⟩
      · exact List.mem_cons_self ..
      · exact absurd hd hnd
    · exact List.mem_cons_of_mem _ (ih x hx hnd)

/-- **Racing scripts: when the result is not a response** (no-response error, or
still running), every acceptable datagram of the script either fell exactly on a
retransmission deadline or came at or after the budget. -/
theorem runCall_noresp {T n : Int} (hT : 0 < T) (evs : List Event) (H : Int) (harr : ArrivalsOnly evs)
    (r : Result) (hr : r ∈ runCall T n evs H) (hno : ∀ t i, r.ret ≠ some (t, .resp i)) :
    ∀ o0 ∈ scriptObs evs, o0.kind = .acc →
      (∃ k : Nat, o0.t = off T (k + 1)) ∨ (0 ≤ n ∧ off T n.toNat ≤ o0.t) := by
  obtain ⟨v, rfl, hv⟩ := runCall_views hT evs H harr r hr
  have hw := hv.weakD
  rw [groups_flatten] at hw
  have hov := hw.ordered (scriptObs_ordered evs)
  intro o0 ho0 hacc
  by_cases hd : ∃ k : Nat, o0.t = off T (k + 1)
  · exact Or.inl hd
  · right
    refine Classical.byContradiction fun hb => ?_
    have hb' : n < 0 ∨ o0.t < off T n.toNat := by omega
    have hmem := hw.mem_of_no_deadline o0 ho0 hd
    have hterm : isTerminal o0 = true := by simp [isTerminal, hacc]
    cases hf : v.find? isTerminal with
    | none =>
      have := List.find?_eq_none.1 hf o0 hmem
      rw [hterm] at this; exact this rfl
    | some o' =>
      obtain ⟨hto, pre, post, heq, hpre⟩ := List.find?_eq_some_iff_append.1 hf
      have hle : o'.t ≤ o0.t := by
        rw [heq] at hmem hov
        rcases List.mem_append.1 hmem with h | h
        · have := hpre o0 h; rw [hterm] at this; simp at this
        · rcases List.mem_cons.1 h with rfl | h
          · exact Int.le_refl _
          · exact (List.pairwise_cons.1 (List.pairwise_append.1 hov.2).2.1).1 o0 h
      have hret := (first_terminal (n := n) hT v H hov).1 o' hf (by omega)
      obtain ⟨y, hy, hk⟩ := hw.mem_kind o' (by rw [heq]; simp)
      have hyk := scriptObsFrom_kinds 0 0 evs harr y hy
      have hacc' : o'.kind = .acc := by
        have ht := (isTerminal_iff o').1 hto
        unfold Terminal at ht
        rcases hk with hk | hk
        · rcases hyk with h | h | h
          · rw [hk, h] at ht; simp at ht
          · rw [hk, h] at ht; simp at ht
          · rw [hk, h]
        · rw [hk] at ht; simp at ht
      refine hno o'.t o'.tag ?_
      rw [hret]; simp [terminalOutcome, hacc']

/-! ### the routed stream as a script -/

theorem obsFrom_getElem? {α : Type} (m : α → Bool) (fl : Nat → Bool) (i : Nat) (arr : List (Int × α)) (j : Nat) :
    (obsFrom m fl i arr)[j]? = (arr[j]?).map (fun a => (⟨a.1, kindOf m a.2, i + j, fl (i + j)⟩ : Obs)) := by
  induction arr generalizing i j with
  | nil => simp [obsFrom]
  | cons a arr ih =>
    cases j with
    | zero => simp [obsFrom]
    | succ j =>
      simp only [obsFrom, List.getElem?_cons_succ, ih]
      have : i + 1 + j = i + (j + 1) := by omega
      rw [this]

theorem kindOf_eq_acc {α : Type} {m : α → Bool} {p : α} : kindOf m p = .acc ↔ m p = true := by
  unfold kindOf; cases m p <;> simp

/-- The script that injects a routed stream (in time order) with ANY sync flags:
what every result the script-level model allows can be.  (1) A response is a
packet of the stream the matcher accepts, at its arrival instant, and every
accepted packet before it arrived exactly on a retransmission deadline.  (2) A
result that is not a response: every accepted packet arrived exactly on a
retransmission deadline, or at/after the budget. -/
theorem runCall_stream {α : Type} {T n : Int} (hT : 0 < T) (m : α → Bool) (sy : Nat → Bool) (arr : List (Int × α))
    (H : Int) (ho : Ordered arr) (r : Result) (hr : r ∈ runCall T n (scriptFrom m sy 0 arr) H) :
    (∀ t i, r.ret = some (t, .resp i) → ∃ p, arr[i]? = some (t, p) ∧ m p = true ∧
      ∀ j q, j < i → arr[j]? = some q → m q.2 = true → ∃ k : Nat, q.1 = T * (2 ^ (k + 1) - 1)) ∧
    ((∀ t i, r.ret ≠ some (t, .resp i)) → ∀ a ∈ arr, m a.2 = true →
      (∃ k : Nat, a.1 = T * (2 ^ (k + 1) - 1)) ∨ (0 ≤ n ∧ callBudget T n ≤ a.1)) := by
  have harr := scriptFrom_arrivals m sy 0 arr
  have hso := scriptObs_scriptFrom m sy arr ho
  constructor
  · intro t i hret
    obtain ⟨pre, o, post, heq, hk, htag, ht, hpre⟩ := runCall_resp_first hT _ H harr r hr t i hret
    rw [hso] at heq
    have hget : ∀ j, (obsOf m quiescent arr)[j]? =
        (arr[j]?).map (fun a => (⟨a.1, kindOf m a.2, 0 + j, quiescent (0 + j)⟩ : Obs)) :=
      fun j => obsFrom_getElem? m quiescent 0 arr j
    have ho' : (obsOf m quiescent arr)[pre.length]? = some o := by rw [heq]; simp
    rw [hget] at ho'
    cases ha : arr[pre.length]? with
    | none => rw [ha] at ho'; cases ho'
    | some a =>
      rw [ha] at ho'
      simp only [Option.map_some, Option.some.injEq] at ho'
      subst ho'
      simp only [Nat.zero_add] at htag
      subst htag
      obtain ⟨a1, a2⟩ := a
      simp only at ht hk
      subst ht
      refine ⟨a2, ha, kindOf_eq_acc.1 hk, ?_⟩
      intro j q hj hq hm
      have hq' : (obsOf m quiescent arr)[j]? = some ⟨q.1, kindOf m q.2, 0 + j, quiescent (0 + j)⟩ := by
        rw [hget, hq]; rfl
      rw [heq, List.getElem?_append_left hj] at hq'
      exact hpre _ (List.mem_of_getElem? hq') (kindOf_eq_acc.2 hm)
  · intro hno a ha hm
    obtain ⟨j, hj⟩ := List.getElem?_of_mem ha
    have hmem : (⟨a.1, kindOf m a.2, 0 + j, quiescent (0 + j)⟩ : Obs) ∈ scriptObs (scriptFrom m sy 0 arr) := by
      rw [hso]
      apply List.mem_of_getElem? (i := j)
      show (obsFrom m quiescent 0 arr)[j]? = _
      rw [obsFrom_getElem?, hj]; rfl
    exact runCall_noresp hT _ H harr r hr hno _ hmem (kindOf_eq_acc.2 hm)

/-- every datagram applied at quiescence: exactly one result, the refined one -/
theorem runCall_scriptOf {α : Type} {T n : Int} (hT : 0 < T) (m : α → Bool) (arr : List (Int × α)) (H : Int)
    (ho : Ordered arr) : runCall T n (scriptOf m arr) H = [runObs T n (obsOf m quiescent arr) H] := by
  have harr := scriptFrom_arrivals m quiescent 0 arr
  refine runCall_singleton (scriptOf m arr) H harr _ (fun r hr => ?_)
  rw [runCall_det hT _ H harr (fun g hg =>
    Or.inl (groups_sync _ (scriptFrom_sync m quiescent 0 arr (fun _ => rfl)) g hg)) r hr,
    scriptObs_scriptFrom m quiescent arr ho]

/-- no arrival on a retransmission deadline: exactly one result whatever the sync flags -/
theorem runCall_scriptFrom_no_coincidence {α : Type} {T n : Int} (hT : 0 < T) (m : α → Bool) (sy : Nat → Bool)
    (arr : List (Int × α)) (H : Int) (ho : Ordered arr)
    (hnd : ∀ a ∈ arr, ∀ k : Nat, a.1 ≠ T * (2 ^ (k + 1) - 1)) :
    runCall T n (scriptFrom m sy 0 arr) H = [runObs T n (obsOf m quiescent arr) H] := by
  have harr := scriptFrom_arrivals m sy 0 arr
  have hso := scriptObs_scriptFrom m sy arr ho
  refine runCall_singleton _ H harr _ (fun r hr => ?_)
  rw [runCall_no_coincidence hT _ H harr ?_ r hr, hso]
  intro o hoo k
  rw [hso] at hoo
  obtain ⟨a, ha, hta, _⟩ := mem_obsFrom m quiescent 0 arr o hoo
  rw [hta]; exact hnd a ha k

end Dhcp.Client.Refine

import Dhcp.V6.Codec
/-
  Fuel sufficiency of the DHCPv6 decoder model (C03, termination): the
  out-of-fuel branches of `parseOpt` / `decOptsF` / `decMsgF` (which the Go code
  does not have) are unreachable with the fuel the entry points pass.  Stated as
  fuel irrelevance: any fuel `f'` above a fuel `f` with `2·f ≥ |data| + 4` gives
  the same result, and `fuelFor data = |data| + 2` is above that bound.

  The argument: one level of option nesting costs two units of fuel
  (`parseOpt → decOptsF`, or three through a relay message) and at least the four
  bytes of a code/length header, which `tlvLoop` strips before handing the value
  to the parser.
-/
namespace Dhcp.V6
open Dhcp

namespace LexLen
/-! lengths after the Lexer primitives -/

theorem consume_le (l : Lexer) (n : Nat) : (l.consume n).2.data.length ≤ l.data.length := by
  unfold Lexer.consume; split <;> simp

theorem consume_some (l : Lexer) (n : Nat) (od : Bytes) (h : (l.consume n).1 = some od) :
    od.length + (l.consume n).2.data.length = l.data.length := by
  unfold Lexer.consume at h ⊢
  split
  · rename_i hle
    simp only [hle, if_true, Option.some.injEq] at h
    subst h
    simp [List.length_take, List.length_drop]; omega
  · rename_i hle
    simp [hle] at h

theorem read8_le (l : Lexer) : (l.read8).2.data.length ≤ l.data.length := by
  unfold Lexer.read8
  have := consume_le l 1
  split <;> simp_all

theorem read16_le (l : Lexer) : (l.read16).2.data.length ≤ l.data.length := by
  unfold Lexer.read16
  have := consume_le l 2
  split <;> simp_all

theorem read32_le (l : Lexer) : (l.read32).2.data.length ≤ l.data.length := by
  unfold Lexer.read32
  have := consume_le l 4
  split <;> simp_all

theorem copyN_le (l : Lexer) (n : Nat) : (l.copyN n).2.data.length ≤ l.data.length := consume_le l n

theorem readBytes_le (l : Lexer) (n : Nat) : (l.readBytes n).2.data.length ≤ l.data.length := by
  unfold Lexer.readBytes
  have := consume_le l n
  split <;> simp_all

theorem decDur_le (l : Lexer) : (decDur l).2.data.length ≤ l.data.length := by
  unfold decDur
  exact read32_le l

theorem readAll_fst (l : Lexer) : (l.readAll).1 = l.data := rfl

/-- a read that leaves the sticky error clear consumed exactly what it asked for -/
theorem consume_noerr (l : Lexer) (n : Nat) (h : ¬ (l.consume n).2.error = true) :
    (l.consume n).2.data.length + n = l.data.length := by
  unfold Lexer.consume at h ⊢
  split
  · simp [List.length_drop]; omega
  · rename_i hn
    simp [Lexer.error, hn] at h

theorem copyN_noerr (l : Lexer) (n : Nat) (h : ¬ (l.copyN n).2.error = true) :
    (l.copyN n).2.data.length + n = l.data.length := consume_noerr l n h

theorem read8_noerr (l : Lexer) (h : ¬ (l.read8).2.error = true) : (l.read8).2.data.length + 1 = l.data.length := by
  have := consume_noerr l 1
  unfold Lexer.read8 at h ⊢
  split <;> simp_all

theorem readBytes_noerr (l : Lexer) (n : Nat) (h : ¬ (l.readBytes n).2.error = true) :
    (l.readBytes n).2.data.length + n = l.data.length := by
  have := consume_noerr l n
  unfold Lexer.readBytes at h ⊢
  split <;> simp_all

/-- with four bytes available, the two 16-bit reads of a TLV header take four bytes -/
theorem header_len (l : Lexer) (h : l.has 4 = true) :
    ((l.read16).2.read16).2.data.length + 4 = l.data.length := by
  cases l with | mk d e =>
  simp only [Lexer.has, decide_eq_true_eq] at h
  match d, h with
  | a :: b :: c :: e' :: rest, _ => simp [Lexer.read16, Lexer.consume]

end LexLen

/-- `tlvLoop` only applies the parser to values at least four bytes shorter than
what is left in the buffer. -/
theorem tlvLoop_congr {α : Type} (p1 p2 : Nat → Bytes → Res α) :
    ∀ (fuel : Nat) (l : Lexer) (acc : List α),
      (∀ c d, d.length + 4 ≤ l.data.length → p1 c d = p2 c d) →
      tlvLoop p1 fuel l acc = tlvLoop p2 fuel l acc := by
  intro fuel
  induction fuel with
  | zero => intro l acc _; simp [tlvLoop]
  | succ fuel ih =>
    intro l acc hp
    unfold tlvLoop
    by_cases hh : l.has 4 = true
    · simp only [hh, if_true]
      have hlen := LexLen.header_len l hh
      -- the value handed to the parser
      have hod : ((((l.read16).2.read16).2.consume ((l.read16).2.read16).1).1.getD []).length + 4 ≤ l.data.length := by
        cases hc : (((l.read16).2.read16).2.consume ((l.read16).2.read16).1).1 with
        | none => simp; omega
        | some od =>
          have := LexLen.consume_some _ _ od hc
          simp; omega
      have hrest : ((((l.read16).2.read16).2.consume ((l.read16).2.read16).1).2).data.length ≤ l.data.length := by
        have := LexLen.consume_le ((l.read16).2.read16).2 ((l.read16).2.read16).1
        omega
      rw [hp _ _ hod]
      split
      · exact ih _ _ (fun c d hd => hp c d (by omega))
      · rfl
      · rfl
    · simp [hh]

theorem optionsFromBytes_congr {α : Type} (p1 p2 : Nat → Bytes → Res α) (data : Bytes)
    (hp : ∀ c d, d.length + 4 ≤ data.length → p1 c d = p2 c d) :
    optionsFromBytes p1 data = optionsFromBytes p2 data := by
  unfold optionsFromBytes
  split
  · rfl
  · exact tlvLoop_congr p1 p2 _ _ _ (by simpa [Lexer.new] using hp)

/-! the container decoders only use their option decoder on a suffix of their input -/

theorem decIA_congr (mk : Bytes → Dur → Dur → List Opt6 → Opt6) (g1 g2 : Bytes → Res (List Opt6)) (data : Bytes)
    (h : ∀ d, d.length ≤ data.length → g1 d = g2 d) : decIA mk g1 data = decIA mk g2 data := by
  unfold decIA
  simp only []
  rw [h]
  have h1 := LexLen.readBytes_le (Lexer.new data) 4
  have h2 := LexLen.decDur_le ((Lexer.new data).readBytes 4).2
  have h3 := LexLen.decDur_le (decDur ((Lexer.new data).readBytes 4).2).2
  simp only [LexLen.readAll_fst, Lexer.new] at *
  omega

theorem decIATA_congr (g1 g2 : Bytes → Res (List Opt6)) (data : Bytes)
    (h : ∀ d, d.length ≤ data.length → g1 d = g2 d) : decIATA g1 data = decIATA g2 data := by
  unfold decIATA
  simp only []
  rw [h]
  have h1 := LexLen.readBytes_le (Lexer.new data) 4
  simp only [LexLen.readAll_fst, Lexer.new] at *
  omega

theorem decIAAddr_congr (g1 g2 : Bytes → Res (List Opt6)) (data : Bytes)
    (h : ∀ d, d.length ≤ data.length → g1 d = g2 d) : decIAAddr g1 data = decIAAddr g2 data := by
  unfold decIAAddr
  simp only []
  rw [h]
  have h1 := LexLen.copyN_le (Lexer.new data) 16
  have h2 := LexLen.decDur_le ((Lexer.new data).copyN 16).2
  have h3 := LexLen.decDur_le (decDur ((Lexer.new data).copyN 16).2).2
  simp only [LexLen.readAll_fst, Lexer.new] at *
  omega

theorem decIAPrefix_congr (g1 g2 : Bytes → Res (List Opt6)) (data : Bytes)
    (h : ∀ d, d.length ≤ data.length → g1 d = g2 d) : decIAPrefix g1 data = decIAPrefix g2 data := by
  unfold decIAPrefix
  simp only []
  split
  · rfl
  · rw [h]
    have h1 := LexLen.decDur_le (Lexer.new data)
    have h2 := LexLen.decDur_le (decDur (Lexer.new data)).2
    have h3 := LexLen.read8_le (decDur (decDur (Lexer.new data)).2).2
    have h4 := LexLen.copyN_le ((decDur (decDur (Lexer.new data)).2).2.read8).2 16
    simp only [LexLen.readAll_fst, Lexer.new] at *
    omega

/-! ### the flat loops: every iteration takes bytes off the buffer -/

theorem tlvLoop_fuel {α : Type} (p : Nat → Bytes → Res α) : ∀ (f1 f2 : Nat) (l : Lexer) (acc : List α),
    l.data.length < f1 → l.data.length < f2 → tlvLoop p f1 l acc = tlvLoop p f2 l acc := by
  intro f1
  induction f1 with
  | zero => intro f2 l acc h; omega
  | succ f1 ih =>
    intro f2 l acc h1 h2
    obtain ⟨g, rfl⟩ : ∃ g, f2 = g + 1 := ⟨f2 - 1, by omega⟩
    unfold tlvLoop
    by_cases hh : l.has 4 = true
    · simp only [hh, if_true]
      have hlen := LexLen.header_len l hh
      have hrest := LexLen.consume_le ((l.read16).2.read16).2 ((l.read16).2.read16).1
      split
      · exact ih g _ _ (by omega) (by omega)
      · rfl
      · rfl
    · simp [hh]

theorem u16Loop_fuel : ∀ (f1 f2 : Nat) (l : Lexer) (acc : List Nat),
    l.data.length < f1 → l.data.length < f2 → u16Loop f1 l acc = u16Loop f2 l acc := by
  intro f1
  induction f1 with
  | zero => intro f2 l acc h; omega
  | succ f1 ih =>
    intro f2 l acc h1 h2
    obtain ⟨g, rfl⟩ : ∃ g, f2 = g + 1 := ⟨f2 - 1, by omega⟩
    unfold u16Loop
    by_cases hh : l.has 2 = true
    · simp only [hh, if_true]
      have hlen : (l.read16).2.data.length + 2 = l.data.length := by
        cases l with | mk d e =>
        simp only [Lexer.has, decide_eq_true_eq] at hh
        match d, hh with
        | a :: b :: rest, _ => simp [Lexer.read16, Lexer.consume]
      exact ih g _ _ (by omega) (by omega)
    · simp [hh]

theorem lenPrefLoop_fuel : ∀ (f1 f2 : Nat) (l : Lexer) (acc : List Bytes),
    l.data.length < f1 → l.data.length < f2 → lenPrefLoop f1 l acc = lenPrefLoop f2 l acc := by
  intro f1
  induction f1 with
  | zero => intro f2 l acc h; omega
  | succ f1 ih =>
    intro f2 l acc h1 h2
    obtain ⟨g, rfl⟩ : ∃ g, f2 = g + 1 := ⟨f2 - 1, by omega⟩
    unfold lenPrefLoop
    by_cases hh : l.has 2 = true
    · simp only [hh, if_true]
      have hlen : (l.read16).2.data.length + 2 = l.data.length := by
        cases l with | mk d e =>
        simp only [Lexer.has, decide_eq_true_eq] at hh
        match d, hh with
        | a :: b :: rest, _ => simp [Lexer.read16, Lexer.consume]
      have hrest := LexLen.copyN_le (l.read16).2 (l.read16).1
      exact ih g _ _ (by omega) (by omega)
    · simp [hh]

theorem ip16Loop_fuel : ∀ (f1 f2 : Nat) (l : Lexer) (acc : List IP),
    l.data.length < f1 → l.data.length < f2 → ip16Loop f1 l acc = ip16Loop f2 l acc := by
  intro f1
  induction f1 with
  | zero => intro f2 l acc h; omega
  | succ f1 ih =>
    intro f2 l acc h1 h2
    obtain ⟨g, rfl⟩ : ∃ g, f2 = g + 1 := ⟨f2 - 1, by omega⟩
    unfold ip16Loop
    by_cases hh : l.has 16 = true
    · simp only [hh, if_true]
      have hlen : (l.copyN 16).2.data.length + 16 = l.data.length := by
        simp only [Lexer.has, decide_eq_true_eq] at hh
        simp [Lexer.copyN, Lexer.consume, hh, List.length_drop]
      exact ih g _ _ (by omega) (by omega)
    · simp [hh]

/-- **Fuel irrelevance.**  `2·f ≥ |data| + 4` (options: `+ 2`) is enough fuel: any
larger fuel gives the same result, so the out-of-fuel branch is not what produced it. -/
theorem fuel_irrelevant : ∀ (f : Nat),
    (∀ (f' c : Nat) (d : Bytes), d.length + 4 ≤ 2 * f → f ≤ f' → parseOpt f' c d = parseOpt f c d) ∧
    (∀ (f' : Nat) (d : Bytes), d.length + 2 ≤ 2 * f → f ≤ f' → decOptsF f' d = decOptsF f d) ∧
    (∀ (f' : Nat) (d : Bytes), d.length + 2 ≤ 2 * f → f ≤ f' → decMsgF f' d = decMsgF f d) := by
  intro f
  induction f with
  | zero =>
    refine ⟨?_, ?_, ?_⟩ <;> intros <;> omega
  | succ f ih =>
    obtain ⟨ihP, ihO, ihM⟩ := ih
    refine ⟨?_, ?_, ?_⟩
    · intro f' c d hd hf
      obtain ⟨g, rfl⟩ : ∃ g, f' = g + 1 := ⟨f' - 1, by omega⟩
      have hg : f ≤ g := by omega
      have hO : ∀ x : Bytes, x.length ≤ d.length → decOptsF g x = decOptsF f x :=
        fun x hx => ihO g x (by omega) hg
      unfold parseOpt
      rw [decIA_congr _ (fun x => decOptsF g x) (fun x => decOptsF f x) d hO,
        decIA_congr _ (fun x => decOptsF g x) (fun x => decOptsF f x) d hO,
        decIATA_congr (fun x => decOptsF g x) (fun x => decOptsF f x) d hO,
        decIAAddr_congr (fun x => decOptsF g x) (fun x => decOptsF f x) d hO,
        decIAPrefix_congr (fun x => decOptsF g x) (fun x => decOptsF f x) d hO,
        hO d (Nat.le_refl _), ihM g d (by omega) hg]
    · intro f' d hd hf
      obtain ⟨g, rfl⟩ : ∃ g, f' = g + 1 := ⟨f' - 1, by omega⟩
      have hg : f ≤ g := by omega
      unfold decOptsF
      exact optionsFromBytes_congr _ _ d (fun c x hx => ihP g c x (by omega) hg)
    · intro f' d hd hf
      obtain ⟨g, rfl⟩ : ∃ g, f' = g + 1 := ⟨f' - 1, by omega⟩
      have hg : f ≤ g := by omega
      unfold decMsgF
      simp only []
      split
      · rfl
      · rename_i he1
        have h1 := LexLen.read8_noerr (Lexer.new d) he1
        split
        · split
          · rfl
          · rename_i he2
            have h2 := LexLen.read8_le (Lexer.new d).read8.2
            have h3 := LexLen.copyN_le ((Lexer.new d).read8.2.read8).2 16
            have h4 := LexLen.copyN_noerr (((Lexer.new d).read8.2.read8).2.copyN 16).2 16 he2
            simp only [Lexer.new] at h1 h2 h3 h4
            rw [ihO g _ (by simp only [Lexer.new]; omega) hg]
        · split
          · rfl
          · rename_i he2
            have h2 := LexLen.readBytes_noerr (Lexer.new d).read8.2 3 he2
            simp only [Lexer.new] at h1 h2
            rw [ihO g _ (by simp only [Lexer.new]; omega) hg]

/-- `fuelFor` is enough: the entry points' results do not depend on having more fuel. -/
theorem dec6_fuel (b : Bytes) (k : Nat) : decMsgF (fuelFor b + k) b = dec6 b :=
  (fuel_irrelevant (fuelFor b)).2.2 _ b (by unfold fuelFor; omega) (by omega)

theorem parseOption_fuel (code : Nat) (b : Bytes) (k : Nat) : parseOpt (fuelFor b + k) code b = parseOption code b :=
  (fuel_irrelevant (fuelFor b)).1 _ code b (by unfold fuelFor; omega) (by omega)

theorem decOpts_fuel (b : Bytes) (k : Nat) : decOptsF (fuelFor b + k) b = decOpts b :=
  (fuel_irrelevant (fuelFor b)).2.1 _ b (by unfold fuelFor; omega) (by omega)

end Dhcp.V6

import DhcpProofs.Lemmas.LabelApi
/-
  C19 — domain-name label encoding round-trips and decoding follows RFC 1035.
  Property theorems only; helper lemmas live in DhcpProofs/Lemmas/Label*.lean.
  Model: Dhcp/Label.lean (rfc1035label/label.go).  Spec: Dhcp/Spec/Name.lean.

  The empty name "" is a valid name: it is the root name, encodes to the
  single octet 00 and decodes back to "" (so it round-trips like any other).
-/
namespace Dhcp.Label
open Dhcp Dhcp.Spec.Name List

/-- **C19 (termination).** The `for` loop of `labelsFromBytes` returns within
`fuelFor b` iterations on every buffer: the out-of-fuel branch of the model is
unreachable, and more fuel never changes the result. -/
theorem C19_terminates (b : Bytes) :
    ∃ r, loop b (fuelFor b) init = some r ∧ labelsFromBytes b = r ∧
      ∀ k, loop b (fuelFor b + k) init = some r := by
  obtain ⟨r, hr⟩ := loop_terminates b (fuelFor b) init (measure_init_le b)
  exact ⟨r, hr, labelsFromBytes_eq_of_runs ⟨_, hr⟩, fun k => loop_mono b _ k init r hr⟩

/-- **C19 (no panic).** No index or slice expression of `labelsFromBytes` is
ever out of range, on any byte string. -/
theorem C19_no_panic (b : Bytes) : labelsFromBytes b ≠ .panic := by
  intro h
  obtain ⟨f, hf⟩ := runs_of_labelsFromBytes b
  rw [h] at hf
  exact loop_ne_panic b f init hf

/-- **C19 (soundness).** Whatever `labelsFromBytes` returns without error is
the list of names RFC 1035 §3.1/§4.1.4 (one pointer level) and RFC 4704 §4.2
assign to the buffer. For ALL byte strings. -/
theorem C19_sound (b : Bytes) (ns : List Bytes) (h : labelsFromBytes b = .ok ns) : DecodesTo b ns := by
  have hr := runs_of_labelsFromBytes b
  rw [h] at hr
  obtain ⟨ns', hns, hnames⟩ := names_sound b (b.length - 0) 0 (Nat.le_refl _) 0 [] ns hr
  simp at hns hnames
  subst hns
  exact hnames

/-- **C19 (completeness).** Every buffer that has an RFC reading is decoded,
to exactly that reading. For ALL byte strings. -/
theorem C19_complete (b : Bytes) (ns : List Bytes) (h : DecodesTo b ns) : labelsFromBytes b = .ok ns := by
  have := names_complete h 0 0 [] (by simp)
  simpa using labelsFromBytes_eq_of_runs this

/-- Decoding succeeds exactly on the buffers with an RFC reading … -/
theorem C19_decodes_iff (b : Bytes) (ns : List Bytes) : labelsFromBytes b = .ok ns ↔ DecodesTo b ns :=
  ⟨C19_sound b ns, C19_complete b ns⟩

/-- … and fails (with an error, never a panic) exactly on the others. -/
theorem C19_fails_iff (b : Bytes) : labelsFromBytes b = .err ↔ ¬ ∃ ns, DecodesTo b ns := by
  constructor
  · intro h ⟨ns, hns⟩
    rw [C19_complete b ns hns] at h
    cases h
  · intro h
    cases hr : labelsFromBytes b with
    | ok ns => exact absurd ⟨ns, C19_sound b ns hr⟩ h
    | err => rfl
    | panic => exact absurd hr (C19_no_panic b)

/-- The RFC reading of a buffer is unique. -/
theorem C19_spec_functional (b : Bytes) (ns ns' : List Bytes) (h : DecodesTo b ns) (h' : DecodesTo b ns') :
    ns = ns' := by
  have a := C19_complete b ns h
  have c := C19_complete b ns' h'
  rw [a] at c
  injection c

/-- **C19 (encoder output is the RFC wire form).** The encoding of any list of
valid names has that list as its RFC reading. -/
theorem C19_encode_spec (ns : List Bytes) (h : ValidNames ns) : DecodesTo (labelsToBytes ns) ns :=
  names_encode _ ns h

/-- **C19 (round trip).** For every list of valid names — any number of names,
any number of labels, the root name "" included — decoding the encoding
returns the list. -/
theorem C19_roundtrip (ns : List Bytes) (h : ValidNames ns) : labelsFromBytes (labelsToBytes ns) = .ok ns :=
  C19_complete _ ns (C19_encode_spec ns h)

/-- Round trip through the `Labels` object: a fresh set with valid names,
encoded and parsed again, carries the same names. -/
theorem C19_roundtrip_labels (ns : List Bytes) (h : ValidNames ns) :
    ∃ b, ({ Labels.new with labels := ns }).toBytesR = .ok b ∧
      Labels.fromBytes (some b) = .ok { original := some b, labels := ns } := by
  refine ⟨labelsToBytes ns, ?_, ?_⟩
  · have : labelsFromBytes [] = .ok [] := by decide
    simp [Labels.toBytesR, Labels.new, goBytes, this]
  · simp [Labels.fromBytes, goBytes, C19_roundtrip ns h]

/-- **C19 (unmodified set re-emits its bytes).** A label set parsed from a
buffer (nil or not) encodes to exactly that buffer — compression pointers,
partial name and all. -/
theorem C19_unmodified (d : Option Bytes) (l : Labels) (h : Labels.fromBytes d = .ok l) :
    l.toBytesR = .ok (goBytes d) := by
  unfold Labels.fromBytes at h
  cases hd : labelsFromBytes (goBytes d) with
  | ok labs =>
    rw [hd] at h
    injection h with h
    subst h
    cases d with
    | none =>
      have e : labelsFromBytes [] = .ok [] := by decide
      have : labs = [] := by
        simp only [goBytes] at hd
        rw [e] at hd
        injection hd with hd
        exact hd.symm
      subst this
      simp [Labels.toBytesR, goBytes, e, labelsToBytes]
    | some b => simp [Labels.toBytesR, hd]
  | err => rw [hd] at h; cases h
  | panic => rw [hd] at h; cases h

/-- **C19 (modified set encodes its new names).** Once the names of a parsed
set are replaced by a different list, `ToBytes` is the fresh encoding of the
new list (and nothing of the original bytes). -/
theorem C19_modified (d : Option Bytes) (l : Labels) (ns' : List Bytes)
    (h : Labels.fromBytes d = .ok l) (hne : ns' ≠ l.labels) :
    ({ l with labels := ns' }).toBytesR = .ok (labelsToBytes ns') := by
  unfold Labels.fromBytes at h
  cases hd : labelsFromBytes (goBytes d) with
  | ok labs =>
    rw [hd] at h
    injection h with h
    subst h
    have : ¬ labs = ns' := fun e => hne e.symm
    simp [Labels.toBytesR, hd, this]
  | err => rw [hd] at h; cases h
  | panic => rw [hd] at h; cases h

/-- A set built with `NewLabels` (no original bytes) always encodes its names. -/
theorem C19_modified_new (ns : List Bytes) :
    ({ Labels.new with labels := ns }).toBytesR = .ok (labelsToBytes ns) := by
  have : labelsFromBytes [] = .ok [] := by decide
  simp [Labels.toBytesR, Labels.new, goBytes, this]

/-- The same two facts for the plain-function API the other codec models use
(`fromBytes : Bytes → Res Labels`, `Labels.toBytes : Labels → Bytes`). -/
theorem C19_unmodified_bytes (b : Bytes) (l : Labels) (h : fromBytes b = .ok l) : l.toBytes = b :=
  fromBytes_toBytes h

theorem C19_modified_bytes (b : Bytes) (l : Labels) (ns' : List Bytes) (h : fromBytes b = .ok l)
    (hne : ns' ≠ l.labels) : ({ l with labels := ns' }).toBytes = labelsToBytes ns' :=
  toBytes_of_labels_ne h hne

/-- `ToBytes` is total: the panic-aware model returns `ok` of the plain one. -/
theorem C19_toBytes_total (l : Labels) : l.toBytesR = .ok l.toBytes := toBytesR_eq l

/-- `ToBytes` never panics, whatever the fields hold. -/
theorem C19_toBytes_no_panic (l : Labels) : l.toBytesR ≠ .panic := by
  unfold Labels.toBytesR
  cases h : labelsFromBytes (goBytes l.original) with
  | ok labs => simp only; split <;> simp
  | err => simp
  | panic => exact absurd h (C19_no_panic _)

/-! ### Non-vacuity -/

/-- "www.example.com", the root name and "a" are valid names … -/
example : ValidNames
    [[119, 119, 119, 46, 101, 120, 97, 109, 112, 108, 101, 46, 99, 111, 109], [], [97]] := by decide

/-- … while an empty label ("a..b") or a 64-byte label is not. -/
example : ¬ ValidName [97, 46, 46, 98] := by decide
example : ¬ ValidName (List.replicate 64 97) := by decide

/-- A compressed buffer with an RFC reading: "www" 00, then "a" + pointer to
offset 0, then a partial name "b": names www, a.www, b. -/
example : DecodesTo [3, 119, 119, 119, 0, 1, 97, 192, 0, 1, 98]
    [[119, 119, 119], [97, 46, 119, 119, 119], [98]] :=
  C19_sound _ _ (by decide)

/-- Buffers without a reading (pointer past the end; reserved octet 0x40;
nested pointer) are rejected, not mis-read. -/
example : labelsFromBytes [1, 97, 192, 80, 1, 98, 0] = .err := by decide
example : labelsFromBytes [64, 97] = .err := by decide
example : labelsFromBytes [192, 2, 192, 0] = .err := by decide

/-- `C19_unmodified` / `C19_modified` have satisfiable hypotheses: a
compressed buffer parses, re-emits itself, and after an edit encodes afresh. -/
example : ∃ l, Labels.fromBytes (some [1, 97, 0, 1, 98, 192, 0]) = .ok l ∧
    l.labels = [[97], [98, 46, 97]] ∧
    l.toBytesR = .ok [1, 97, 0, 1, 98, 192, 0] ∧
    ({ l with labels := [[98, 46, 97]] }).toBytesR = .ok [1, 98, 1, 97, 0] :=
  ⟨⟨some [1, 97, 0, 1, 98, 192, 0], [[97], [98, 46, 97]]⟩, by decide, rfl, by decide, by decide⟩

end Dhcp.Label

import Dhcp.V4.Build
import Dhcp.V4.Domain
import DhcpProofs.Lemmas.V4Build
import DhcpProofs.Lemmas.V4BuildProps
import DhcpProofs.Lemmas.V4BuildRfc
/-
  C15 — DHCPv4 reply and request builders correlate with the packet they
  answer.  Property theorems only; helper lemmas live in
  DhcpProofs/Lemmas/V4Build*.lean.

  Every theorem is for EVERY input packet (any opcode, flags, addresses, any
  option set), EVERY transaction id drawn by `New`, and EVERY list of user
  modifiers of any length.  A clause about a field is stated under the
  hypothesis `NoWrite user f` — no user modifier writes that field
  (`Modifier.writes`, a syntactic table proved sound in `apply_frame`) — and
  `C15_modifiers_last` / `C15_last_writer` say what happens otherwise: the
  user's modifier runs after the defaults and prevails.  `user = []`
  satisfies every `NoWrite` hypothesis.
-/
namespace Dhcp.V4
open Dhcp List Dhcp.Spec.V4Client

/-- **C15 (reply: opposite opcode).** A reply built from a request has the
other opcode: BOOTREPLY for a BOOTREQUEST, BOOTREQUEST for anything else
(a BOOTREPLY in particular), never the request's own. -/
theorem C15_reply_opcode (xid : Bytes) (req : Pkt4) (user : List Modifier) (h : NoWrite user .op) :
    (newReplyFromRequest xid req user).op ≠ req.op ∧
    (req.op = opBootRequest → (newReplyFromRequest xid req user).op = opBootReply) ∧
    (req.op ≠ opBootRequest → (newReplyFromRequest xid req user).op = opBootRequest) :=
  reply_opcode xid req user h

/-- **C15 (reply: same transaction id, hardware type and address, flags,
relay address).** -/
theorem C15_reply_fields (xid : Bytes) (req : Pkt4) (user : List Modifier) :
    (NoWrite user .xid → (newReplyFromRequest xid req user).xid = req.xid) ∧
    (NoWrite user .htype → (newReplyFromRequest xid req user).htype = req.htype) ∧
    (NoWrite user .hw → (newReplyFromRequest xid req user).hw = req.hw) ∧
    (NoWrite user .flags → (newReplyFromRequest xid req user).flags = req.flags) ∧
    (NoWrite user .giaddr → (newReplyFromRequest xid req user).giaddr = req.giaddr) :=
  reply_fields xid req user

/-- **C15 (reply: echo of relay-agent-information 82 and client-identifier
61).** The option is present in the reply exactly when the request carries it
with a non-empty value, and then it is the request's value byte for byte. -/
theorem C15_reply_echo (xid : Bytes) (req : Pkt4) (user : List Modifier) (c : UInt8)
    (hc : c = optAgentInfo ∨ c = optClientID) (h : NoWrite user (.opt c)) :
    ((newReplyFromRequest xid req user).opts.get c ≠ none ↔ ∃ v, req.opts.get c = some v ∧ v ≠ []) ∧
    (∀ v, req.opts.get c = some v → v ≠ [] → (newReplyFromRequest xid req user).opts.get c = some v) :=
  reply_echo xid req user c hc h

/-- **C15 (reply: nothing else is copied).** Without user modifiers a reply
carries no option other than the two echoed ones. -/
theorem C15_reply_no_other_option (xid : Bytes) (req : Pkt4) (k : UInt8)
    (h1 : k ≠ optAgentInfo) (h2 : k ≠ optClientID) :
    (newReplyFromRequest xid req []).opts.get k = none :=
  reply_no_other xid req k h1 h2

/-- **C15 (request from offer).** The request carries the offer's transaction
id, hardware type/address, flags and client address, the other opcode, message
type REQUEST, the standard parameter request list, option 54 = the offer's
option 54 verbatim when that is non-empty (absent otherwise) and option 50 =
`[]byte(offer.YourIPAddr.To4())`. -/
theorem C15_request_from_offer (xid : Bytes) (offer : Pkt4) (user : List Modifier) :
    (NoWrite user .xid → (newRequestFromOffer xid offer user).xid = offer.xid) ∧
    (NoWrite user (.opt optMessageType) →
      (newRequestFromOffer xid offer user).opts.get optMessageType = some [mtRequest]) ∧
    (NoWrite user (.opt optRequestedIP) →
      (newRequestFromOffer xid offer user).opts.get optRequestedIP = some (ipTo4Bytes offer.yiaddr)) ∧
    (NoWrite user (.opt optServerID) →
      (∀ v, offer.opts.get optServerID = some v → v ≠ [] →
        (newRequestFromOffer xid offer user).opts.get optServerID = some v) ∧
      ((newRequestFromOffer xid offer user).opts.get optServerID ≠ none ↔
        ∃ v, offer.opts.get optServerID = some v ∧ v ≠ [])) ∧
    (NoWrite user (.opt optParamList) →
      (newRequestFromOffer xid offer user).opts.get optParamList = some [1, 3, 15, 6]) ∧
    (NoWrite user .ciaddr → (newRequestFromOffer xid offer user).ciaddr = offer.ciaddr) ∧
    (NoWrite user .hw → (newRequestFromOffer xid offer user).hw = offer.hw) ∧
    (NoWrite user .flags → (newRequestFromOffer xid offer user).flags = offer.flags) ∧
    (NoWrite user .op → (offer.op = opBootReply → (newRequestFromOffer xid offer user).op = opBootRequest)) :=
  request_from_offer xid offer user

/-- The clause "asks for exactly the offered address" read as: option 50 is
the four bytes the encoder writes for the offer's `yiaddr` (`ip4`, nil being
0.0.0.0), for EVERY offer.  False of the model and of the code: see the
counterexample. -/
def C15_request_from_offer_full : Prop :=
  ∀ (xid : Bytes) (offer : Pkt4),
    (newRequestFromOffer xid offer []).opts.get optRequestedIP = some (ip4 offer.yiaddr)

/-- **C15 (request from offer, option 50), proved part.** Whenever the offer's
`YourIPAddr` is not the nil slice — every decoded offer — option 50 is the four
bytes the encoder writes for that address; for a 4-byte address, the address
itself. -/
theorem C15_request_from_offer_partial (xid : Bytes) (offer : Pkt4) (user : List Modifier)
    (h : NoWrite user (.opt optRequestedIP)) :
    (offer.yiaddr ≠ none →
      (newRequestFromOffer xid offer user).opts.get optRequestedIP = some (ip4 offer.yiaddr)) ∧
    (∀ b, offer.yiaddr = some b → b.length = 4 →
      (newRequestFromOffer xid offer user).opts.get optRequestedIP = some b) :=
  request_from_offer_ip xid offer user h

/-- A hand-built offer whose `YourIPAddr` is the nil slice (0.0.0.0 on the
wire) yields a zero-length option 50, not 00 00 00 00. -/
theorem C15_request_from_offer_counterexample : ¬ C15_request_from_offer_full :=
  request_from_offer_nil_yiaddr

/-- **C15 (renew).** Client address = the acknowledged address, broadcast bit
clear (the other flag bits are the ACK's), message type REQUEST, no requested
address and no server identifier, standard parameter request list, the ACK's
transaction id and hardware address. -/
theorem C15_renew (xid : Bytes) (ack : Pkt4) (user : List Modifier) :
    (NoWrite user .ciaddr → (newRenewFromAck xid ack user).ciaddr = ack.yiaddr) ∧
    (NoWrite user .flags → isBroadcast (newRenewFromAck xid ack user) = false ∧
      (newRenewFromAck xid ack user).flags = ack.flags % 32768) ∧
    (NoWrite user (.opt optMessageType) →
      (newRenewFromAck xid ack user).opts.get optMessageType = some [mtRequest]) ∧
    (NoWrite user (.opt optRequestedIP) → (newRenewFromAck xid ack user).opts.get optRequestedIP = none) ∧
    (NoWrite user (.opt optServerID) → (newRenewFromAck xid ack user).opts.get optServerID = none) ∧
    (NoWrite user (.opt optParamList) →
      (newRenewFromAck xid ack user).opts.get optParamList = some [1, 3, 15, 6]) ∧
    (NoWrite user .xid → (newRenewFromAck xid ack user).xid = ack.xid) ∧
    (NoWrite user .hw → (newRenewFromAck xid ack user).hw = ack.hw) :=
  renew xid ack user

/-- **C15 (release).** Message type RELEASE, client address = the acknowledged
address, the ACK's hardware address, unicast (no flag set), BOOTREQUEST, and
the ACK's server identifier copied when non-empty (absent otherwise). -/
theorem C15_release (xid : Bytes) (ack : Pkt4) (user : List Modifier) :
    (NoWrite user (.opt optMessageType) →
      (newReleaseFromAck xid ack user).opts.get optMessageType = some [mtRelease]) ∧
    (NoWrite user .ciaddr → (newReleaseFromAck xid ack user).ciaddr = ack.yiaddr) ∧
    (NoWrite user .hw → (newReleaseFromAck xid ack user).hw = ack.hw) ∧
    (NoWrite user .flags → isBroadcast (newReleaseFromAck xid ack user) = false ∧
      (newReleaseFromAck xid ack user).flags = 0) ∧
    (NoWrite user .op → (newReleaseFromAck xid ack user).op = opBootRequest) ∧
    (NoWrite user (.opt optServerID) →
      (∀ v, ack.opts.get optServerID = some v → v ≠ [] →
        (newReleaseFromAck xid ack user).opts.get optServerID = some v) ∧
      ((newReleaseFromAck xid ack user).opts.get optServerID ≠ none ↔
        ∃ v, ack.opts.get optServerID = some v ∧ v ≠ [])) :=
  release xid ack user

/-- **C15 (inform).** Message type INFORM, the given hardware address, client
address = the given local address, BOOTREQUEST, no flag set. -/
theorem C15_inform (xid hw : Bytes) (localIP : IP) (user : List Modifier) :
    (NoWrite user (.opt optMessageType) →
      (newInform xid hw localIP user).opts.get optMessageType = some [mtInform]) ∧
    (NoWrite user .hw → (newInform xid hw localIP user).hw = hw) ∧
    (NoWrite user .ciaddr → (newInform xid hw localIP user).ciaddr = localIP) ∧
    (NoWrite user .op → (newInform xid hw localIP user).op = opBootRequest) ∧
    (NoWrite user .flags → (newInform xid hw localIP user).flags = 0) ∧
    (NoWrite user .xid → (newInform xid hw localIP user).xid = xid) :=
  inform xid hw localIP user

/-- **C15 (discover).** Message type DISCOVER, the given hardware address,
parameter request list 1, 3, 15, 6 in that order, BOOTREQUEST, client address
0.0.0.0, the drawn transaction id. -/
theorem C15_discover (xid hw : Bytes) (user : List Modifier) :
    (NoWrite user (.opt optMessageType) →
      (newDiscovery xid hw user).opts.get optMessageType = some [mtDiscover]) ∧
    (NoWrite user .hw → (newDiscovery xid hw user).hw = hw) ∧
    (NoWrite user (.opt optParamList) →
      (newDiscovery xid hw user).opts.get optParamList = some [1, 3, 15, 6]) ∧
    (NoWrite user .op → (newDiscovery xid hw user).op = opBootRequest) ∧
    (NoWrite user .ciaddr → (newDiscovery xid hw user).ciaddr = some ipv4zero) ∧
    (NoWrite user .xid → (newDiscovery xid hw user).xid = xid) :=
  discover xid hw user

/-- **C15 (user modifiers run after the defaults).** For every builder, the
packet built with user modifiers is the packet built without them, with the
user modifiers then applied in order. -/
theorem C15_modifiers_last (b : Builder) (xid : Bytes) (user : List Modifier) :
    build b xid user = user.foldl (fun p m => apply m p) (build b xid []) :=
  build_eq b xid user

/-- the same for each exported builder by name -/
theorem C15_modifiers_last_each (xid hw : Bytes) (ip : IP) (p : Pkt4) (user : List Modifier) :
    newDiscovery xid hw user = user.foldl (fun p m => apply m p) (newDiscovery xid hw []) ∧
    newInform xid hw ip user = user.foldl (fun p m => apply m p) (newInform xid hw ip []) ∧
    newRequestFromOffer xid p user = user.foldl (fun p m => apply m p) (newRequestFromOffer xid p []) ∧
    newRenewFromAck xid p user = user.foldl (fun p m => apply m p) (newRenewFromAck xid p []) ∧
    newReplyFromRequest xid p user = user.foldl (fun p m => apply m p) (newReplyFromRequest xid p []) ∧
    newReleaseFromAck xid p user = user.foldl (fun p m => apply m p) (newReleaseFromAck xid p []) ∧
    newDHCPv4 xid user = user.foldl (fun p m => apply m p) (newDHCPv4 xid []) :=
  ⟨build_eq _ _ _, build_eq _ _ _, build_eq _ _ _, build_eq _ _ _, build_eq _ _ _, build_eq _ _ _, rfl⟩

/-- **C15 (the last writer of a field prevails).** If a user modifier `m` is
followed only by modifiers that do not write field `f`, the packet's `f` is
what `m` made of it — whatever the builder's defaults and the earlier user
modifiers did. -/
theorem C15_last_writer (b : Builder) (xid : Bytes) (pre post : List Modifier) (m : Modifier) (f : Field)
    (h : NoWrite post f) :
    (build b xid (pre ++ m :: post)).field f = (apply m (build b xid pre)).field f :=
  last_writer b xid pre post m f h

/-- **C15 (a user modifier colliding with a default prevails).** Instances:
a user message type, client address, transaction id, hardware address,
gateway address, broadcast flag, option removal or generic option given last
is what the packet carries, for every builder and every earlier modifiers. -/
theorem C15_user_prevails (b : Builder) (xid : Bytes) (user : List Modifier) :
    (∀ t, (build b xid (user ++ [.withMessageType t])).opts.get optMessageType = some [t]) ∧
    (∀ ip, (build b xid (user ++ [.withClientIP ip])).ciaddr = ip) ∧
    (∀ x, (build b xid (user ++ [.withTransactionID x])).xid = x) ∧
    (∀ hw, (build b xid (user ++ [.withHwAddr hw])).hw = hw) ∧
    (∀ ip, (build b xid (user ++ [.withGatewayIP ip])).giaddr = ip) ∧
    (isBroadcast (build b xid (user ++ [.withBroadcast true])) = true) ∧
    (isBroadcast (build b xid (user ++ [.withBroadcast false])) = false) ∧
    (∀ c, (build b xid (user ++ [.withoutOption c])).opts.get c = none) ∧
    (∀ c v, (build b xid (user ++ [.withGeneric c v])).opts.get c = some v) ∧
    (∀ cs, (build b xid (user ++ [.withRequestedOptions cs])).opts.get optParamList =
        some ((addCodes (paramRequestList (build b xid user)) cs).map (·.code))) :=
  user_prevails b xid user

/-- **C15 (the last `WithRequestedOptions` prevails, membership form).** Whatever the
builder and the earlier modifiers did, after a final `WithRequestedOptions(cs...)` the
packet carries a parameter request list, every code of `cs` is in it, and so is every
code that was requested before. -/
theorem C15_requested_options_prevail (b : Builder) (xid : Bytes) (user : List Modifier)
    (cs : List OptCode) :
    ∃ l, (build b xid (user ++ [.withRequestedOptions cs])).opts.get optParamList = some l ∧
      (∀ c ∈ cs, c.code ∈ l) ∧
      (∀ d ∈ paramRequestList (build b xid user), d.code ∈ l) := by
  refine ⟨_, (user_prevails b xid user).2.2.2.2.2.2.2.2.2 cs, ?_, ?_⟩
  · intro c hc
    exact List.mem_map.mpr ⟨c, addCodes_mem _ cs c hc, rfl⟩
  · intro d hd
    exact List.mem_map.mpr ⟨d, mem_addCodes_of_mem _ cs d hd, rfl⟩

example : ∃ l, (build (.discovery [2,0,0,0,0,1]) [1,2,3,4] [.withRequestedOptions [⟨false, 33⟩]]).opts.get optParamList = some l ∧ (33 : UInt8) ∈ l ∧ (1 : UInt8) ∈ l := by
  decide

/-! ### The builders against RFC 2131 Table 5 (Dhcp/Spec/V4Client.lean)

`NoWriteTable5 user`: no user modifier writes opcode, client address, flags or
options 53, 50, 54 (any other modifier — lease time, routers, user class, … —
is allowed, in any number). -/

/-- **C15 (RFC 2131: DISCOVER).** BOOTREQUEST, ciaddr 0, message type 1, no
server identifier. -/
theorem C15_rfc_discover (xid hw : Bytes) (user : List Modifier) (h : NoWriteTable5 user) :
    Conforms .discover (newDiscovery xid hw user) none [] :=
  rfc_discover xid hw user h

/-- **C15 (RFC 2131: INFORM).** BOOTREQUEST, ciaddr = the client's address,
message type 8, neither requested address nor server identifier. -/
theorem C15_rfc_inform (xid hw : Bytes) (ip : IP) (user : List Modifier) (h : NoWriteTable5 user) :
    Conforms .inform (newInform xid hw ip user) ip [] :=
  rfc_inform xid hw ip user h

/-- **C15 (RFC 2131: REQUEST while renewing).** From any ACK that is not itself
a BOOTREQUEST: BOOTREQUEST, ciaddr = the leased address, message type 3,
neither requested address nor server identifier, broadcast bit clear. -/
theorem C15_rfc_renew (xid : Bytes) (ack : Pkt4) (user : List Modifier) (h : NoWriteTable5 user)
    (hop : ack.op ≠ opBootRequest) :
    Conforms .requestRenewing (newRenewFromAck xid ack user) ack.yiaddr [] :=
  rfc_renew xid ack user h hop

/-- **C15 (RFC 2131: RELEASE).** From any ACK naming its server: BOOTREQUEST,
ciaddr = the leased address, message type 7, that server identifier, no
requested address, broadcast bit clear. -/
theorem C15_rfc_release (xid : Bytes) (ack : Pkt4) (user : List Modifier) (h : NoWriteTable5 user)
    (sid : Bytes) (hs : ack.opts.get optServerID = some sid) (hne : sid ≠ []) :
    Conforms .release (newReleaseFromAck xid ack user) ack.yiaddr sid :=
  rfc_release xid ack user h sid hs hne

/-- **C15 (RFC 2131: REQUEST after SELECTING).** From any BOOTREPLY offer with
ciaddr 0 that names its server: BOOTREQUEST, ciaddr 0, message type 3, a
requested-address option and that server identifier. -/
theorem C15_rfc_request_selecting (xid : Bytes) (offer : Pkt4) (user : List Modifier)
    (h : NoWriteTable5 user) (hop : offer.op = opBootReply) (hci : IsZeroAddr offer.ciaddr)
    (sid : Bytes) (hs : offer.opts.get optServerID = some sid) (hne : sid ≠ []) :
    Conforms .requestSelecting (newRequestFromOffer xid offer user) none sid :=
  rfc_request_selecting xid offer user h hop hci sid hs hne

/-! ### Non-vacuity: the hypotheses are met by non-trivial values -/

/-- a relayed broadcast request with options 82 and 61, an empty option 54 -/
private def exReq : Pkt4 :=
  { op := 1, htype := 6, hw := [2, 0, 0, 0, 0, 1], hops := 1, xid := [0xde, 0xad, 0xbe, 0xef], secs := 3,
    flags := 0x8000, ciaddr := none, yiaddr := some [0, 0, 0, 0], siaddr := none,
    giaddr := some [10, 1, 0, 1], sname := [], file := [],
    opts := (((Opts.empty.set 53 [3]).set 82 [1, 2, 65, 66]).set 61 [1, 2, 0, 0, 0, 0, 1]).set 54 [] }

/-- an offer (BOOTREPLY) with a server identifier -/
private def exOffer : Pkt4 :=
  { op := 2, htype := 1, hw := [2, 0, 0, 0, 0, 1], hops := 0, xid := [1, 2, 3, 4], secs := 0,
    flags := 0x8000, ciaddr := some [0, 0, 0, 0], yiaddr := some [192, 168, 1, 77], siaddr := some [192, 168, 1, 1],
    giaddr := none, sname := [], file := [],
    opts := ((Opts.empty.set 53 [2]).set 54 [192, 168, 1, 1]).set 51 [0, 0, 14, 16] }

private def exUser : List Modifier :=
  [.withLeaseTime 3600, .withRouter [some [10, 0, 0, 1], none], .withUserClass [105, 80, 88, 69] true,
   .withNetmask [255, 255, 255, 0], .withYourIP (some [10, 0, 0, 9])]

example : NoWrite exUser .op ∧ NoWrite exUser .xid ∧ NoWrite exUser .htype ∧ NoWrite exUser .hw ∧
    NoWrite exUser .flags ∧ NoWrite exUser .giaddr ∧ NoWrite exUser .ciaddr ∧
    NoWrite exUser (.opt optAgentInfo) ∧ NoWrite exUser (.opt optClientID) ∧
    NoWrite exUser (.opt optMessageType) ∧ NoWrite exUser (.opt optRequestedIP) ∧
    NoWrite exUser (.opt optServerID) ∧ NoWrite exUser (.opt optParamList) := by decide

/-- the hypotheses of the `C15_rfc_*` theorems hold of `exOffer` and `exUser` -/
example : NoWriteTable5 exUser ∧ exOffer.op = opBootReply ∧ exOffer.op ≠ opBootRequest ∧
    IsZeroAddr exOffer.ciaddr ∧ exOffer.opts.get optServerID = some [192, 168, 1, 1] :=
  ⟨by decide, by decide, by decide, Or.inr (Or.inl rfl), by decide⟩

/-- the reply to `exReq` with five user modifiers: BOOTREPLY, same xid, 82
and 61 echoed, the empty 54 not copied -/
example : (newReplyFromRequest [0, 0, 0, 0] exReq exUser).op = 2 ∧
    (newReplyFromRequest [0, 0, 0, 0] exReq exUser).xid = [0xde, 0xad, 0xbe, 0xef] ∧
    (newReplyFromRequest [0, 0, 0, 0] exReq exUser).opts.get 82 = some [1, 2, 65, 66] ∧
    (newReplyFromRequest [0, 0, 0, 0] exReq exUser).opts.get 61 = some [1, 2, 0, 0, 0, 0, 1] ∧
    (newReplyFromRequest [0, 0, 0, 0] exReq exUser).opts.get 54 = none ∧
    (newReplyFromRequest [0, 0, 0, 0] exReq exUser).opts.get 51 = some [0, 0, 14, 16] := by decide

/-- a reply-typed input flips to BOOTREQUEST -/
example : (newReplyFromRequest [0, 0, 0, 0] exOffer []).op = 1 := by decide

example : ∃ v, exReq.opts.get optAgentInfo = some v ∧ v ≠ [] := ⟨[1, 2, 65, 66], by decide⟩
example : ¬ ∃ v, exReq.opts.get optServerID = some v ∧ v ≠ [] := by
  intro ⟨v, h1, h2⟩
  have : exReq.opts.get optServerID = some [] := by decide
  rw [this] at h1; cases h1; exact h2 rfl

/-- the request from `exOffer`: option 50 = 192.168.1.77, 54 = 192.168.1.1 -/
example : exOffer.yiaddr ≠ none ∧ exOffer.op = opBootReply ∧
    (newRequestFromOffer [9, 9, 9, 9] exOffer exUser).opts.get 50 = some [192, 168, 1, 77] ∧
    (newRequestFromOffer [9, 9, 9, 9] exOffer exUser).opts.get 54 = some [192, 168, 1, 1] ∧
    (newRequestFromOffer [9, 9, 9, 9] exOffer exUser).opts.get 55 = some [1, 3, 15, 6] ∧
    (newRequestFromOffer [9, 9, 9, 9] exOffer exUser).xid = [1, 2, 3, 4] := by decide

/-- renew from a broadcast ACK: bit 15 cleared -/
example : isBroadcast exOffer = true ∧ isBroadcast (newRenewFromAck [9, 9, 9, 9] exOffer exUser) = false ∧
    (newRenewFromAck [9, 9, 9, 9] exOffer exUser).ciaddr = some [192, 168, 1, 77] := by decide

/-- release, inform, discover on concrete values -/
example : (newReleaseFromAck [9, 9, 9, 9] exOffer exUser).opts.get 53 = some [7] ∧
    (newReleaseFromAck [9, 9, 9, 9] exOffer exUser).opts.get 54 = some [192, 168, 1, 1] ∧
    (newInform [9, 9, 9, 9] [2, 0, 0, 0, 0, 1] (some [10, 0, 0, 5]) exUser).ciaddr = some [10, 0, 0, 5] ∧
    (newDiscovery [9, 9, 9, 9] [2, 0, 0, 0, 0, 1] exUser).opts.get 55 = some [1, 3, 15, 6] := by decide

/-- a user modifier that collides with a default prevails: message type,
merged parameter request list (3 and the second 42 are dropped as duplicates;
`GenericOptionCode(1)` is not `==` to `OptionSubnetMask` and is added), removed
server identifier -/
example : (newRequestFromOffer [9, 9, 9, 9] exOffer
      [.withMessageType 4, .withRequestedOptions [.named 3, .named 42, .named 42, ⟨true, 1⟩], .withoutOption 54]).opts.get 53 = some [4] ∧
    (newRequestFromOffer [9, 9, 9, 9] exOffer
      [.withMessageType 4, .withRequestedOptions [.named 3, .named 42, .named 42, ⟨true, 1⟩], .withoutOption 54]).opts.get 55 = some [1, 3, 15, 6, 42, 1] ∧
    (newRequestFromOffer [9, 9, 9, 9] exOffer
      [.withMessageType 4, .withRequestedOptions [.named 3, .named 42, .named 42, ⟨true, 1⟩], .withoutOption 54]).opts.get 54 = none := by decide

end Dhcp.V4

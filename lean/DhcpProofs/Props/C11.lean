import DhcpProofs.Lemmas.ClientTimed
/-
  C11 — client calls always complete: timeout, cancellation, Close, cleanup.
  Property theorems only.

  Part 1 (this section): timing, over the timed model of one call
  (Dhcp.Client.Timed; see Props/C12.lean for the vocabulary).
  Part 2 (below, namespace Dhcp.Client.LTS): xid reuse, Close safety and
  progress, over the interleaving model.
-/
namespace Dhcp.Client.Timed

/-- **C11 (budget).** `n ≥ 0`: whatever is observed — ANY observation sequence:
rejected same-xid datagrams at any rate, bursts, foreign traffic, coincidences
with deadlines resolved either way — the call has returned by
`T·(2^n − 1)`. -/
theorem C11_budget (T n : Int) (obs : List Obs) (H : Int) (hT : 0 < T) (hn : 0 ≤ n)
    (_hov : NoOverflow T n.toNat) (hH : T * (2 ^ n.toNat - 1) ≤ H) :
    ∃ t o, (runObs T n obs H).ret = some (t, o) ∧ t ≤ T * (2 ^ n.toNat - 1) :=
  budget hT hn obs H hH

/-- **C11 (budget), any horizon.** A call that has returned returned within budget. -/
theorem C11_budget_ret (T n : Int) (obs : List Obs) (H t : Int) (o : Outcome) (hT : 0 < T) (hn : 0 ≤ n)
    (h : (runObs T n obs H).ret = some (t, o)) : t ≤ T * (2 ^ n.toNat - 1) := by
  obtain ⟨_, _, _, h3⟩ := result_shape (n := n) hT obs H
  exact (h3 t o h).2 hn

/-- **C11 (budget) for the script-level model**: every result the driver can
print for a script (whatever it injects, cancels or closes, racing or not)
returns within budget. -/
theorem C11_budget_script (T n : Int) (evs : List Event) (H : Int) (hT : 0 < T) (hn : 0 ≤ n)
    (hH : T * (2 ^ n.toNat - 1) ≤ H) (r : Result) (hr : r ∈ runCall T n evs H) :
    ∃ t o, r.ret = some (t, o) ∧ t ≤ T * (2 ^ n.toNat - 1) := by
  obtain ⟨obs, rfl⟩ := runCall_sound T n evs H r hr
  exact budget hT hn obs H hH

/-- **C11 (context).** The context ends at instant `τ` while the call has not
returned (nothing observed before is later than `τ`; with the horizon at `τ`
the call is still running): the call returns at `τ` with the context's error,
whatever follows. No hypothesis on `T`, `n` or the earlier traffic. -/
theorem C11_ctx (T n : Int) (pre post : List Obs) (τ : Int) (tag : Nat) (after : Bool) (H : Int)
    (h0 : 0 ≤ τ) (hpre : ∀ p ∈ pre, p.t ≤ τ) (hw : (runObs T n pre τ).ret = none) :
    (runObs T n (pre ++ ⟨τ, .ctx, tag, after⟩ :: post) H).ret = some (τ, .ctxErr) :=
  terminal_prompt T n pre post ⟨τ, .ctx, tag, after⟩ H (Or.inr (Or.inl rfl)) h0 hpre hw

/-- **C11 (accept).** An acceptable response observed at `τ` while the call has
not returned: the call returns that response at `τ`. -/
theorem C11_accept (T n : Int) (pre post : List Obs) (τ : Int) (tag : Nat) (after : Bool) (H : Int)
    (h0 : 0 ≤ τ) (hpre : ∀ p ∈ pre, p.t ≤ τ) (hw : (runObs T n pre τ).ret = none) :
    (runObs T n (pre ++ ⟨τ, .acc, tag, after⟩ :: post) H).ret = some (τ, .resp tag) :=
  terminal_prompt T n pre post ⟨τ, .acc, tag, after⟩ H (Or.inl rfl) h0 hpre hw

/-- **C11 (closed).** The client is closed at `τ` while the call has not
returned: the call returns the no-response error at `τ`. -/
theorem C11_closed (T n : Int) (pre post : List Obs) (τ : Int) (tag : Nat) (after : Bool) (H : Int)
    (h0 : 0 ≤ τ) (hpre : ∀ p ∈ pre, p.t ≤ τ) (hw : (runObs T n pre τ).ret = none) :
    (runObs T n (pre ++ ⟨τ, .closed, tag, after⟩ :: post) H).ret = some (τ, .noResp) :=
  terminal_prompt T n pre post ⟨τ, .closed, tag, after⟩ H (Or.inr (Or.inr rfl)) h0 hpre hw

/-! Non-vacuity. -/

/-- the hypotheses of `C11_ctx` hold of a concrete run: rejected stream, cancel at 2999
(1 ns before the second deadline) of a 1000 ns / 4-try call. -/
example : (runObs 1000 4 [⟨500, .rej, 0, true⟩, ⟨1000, .rej, 1, false⟩] 2999).ret = none ∧
    (runObs 1000 4 ([⟨500, .rej, 0, true⟩, ⟨1000, .rej, 1, false⟩] ++ ⟨2999, .ctx, 2, true⟩ :: [⟨3000, .acc, 3, true⟩]) 9000)
      = ⟨[0, 1000], some (2999, .ctxErr)⟩ := by decide

/-- a rejected datagram every 20 ns against a 150 ns budget (T = 50, 2 tries): returns at 150
(the pre-fix code, which re-armed the timer on every datagram, never did). -/
example : runObs 50 2 ((List.range 100).map (fun (i : Nat) => ⟨20 * (i : Int), .rej, i, true⟩)) 2000 =
    ⟨[0, 50], some (150, .noResp)⟩ := by decide

end Dhcp.Client.Timed

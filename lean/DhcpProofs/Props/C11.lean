import DhcpProofs.Lemmas.ClientTimed
import DhcpProofs.Lemmas.ClientLTSProgress
import DhcpProofs.Lemmas.ClientLTSRank
/-
  C11 — client calls always complete: timeout, cancellation, Close, cleanup.
  Property theorems only.

  Part 1 (this section): timing, over the timed model of one call
  (Dhcp.Client.Timed; see Props/C12.lean for the vocabulary).
  Part 2 (below, namespace Dhcp.Client.LTS): xid reuse, Close safety and
  progress, over the interleaving model.
-/
namespace Dhcp.Client.Timed

/-- **C11 (budget).** `n ≥ 0`: whatever is observed — ANY observation sequence:
rejected same-xid datagrams at any rate, bursts, foreign traffic, coincidences
with deadlines resolved either way — the call has returned by
`T·(2^n − 1)`. -/
theorem C11_budget (T n : Int) (obs : List Obs) (H : Int) (hT : 0 < T) (hn : 0 ≤ n)
    (_hov : NoOverflow T n.toNat) (hH : T * (2 ^ n.toNat - 1) ≤ H) :
    ∃ t o, (runObs T n obs H).ret = some (t, o) ∧ t ≤ T * (2 ^ n.toNat - 1) :=
  budget hT hn obs H hH

/-- **C11 (budget), any horizon.** A call that has returned returned within budget. -/
theorem C11_budget_ret (T n : Int) (obs : List Obs) (H t : Int) (o : Outcome) (hT : 0 < T) (hn : 0 ≤ n)
    (h : (runObs T n obs H).ret = some (t, o)) : t ≤ T * (2 ^ n.toNat - 1) := by
  obtain ⟨_, _, _, h3⟩ := result_shape (n := n) hT obs H
  exact (h3 t o h).2 hn

/-- **C11 (budget) for the script-level model**: every result the driver can
print for a script (whatever it injects, cancels or closes, racing or not)
returns within budget. -/
theorem C11_budget_script (T n : Int) (evs : List Event) (H : Int) (hT : 0 < T) (hn : 0 ≤ n)
    (hH : T * (2 ^ n.toNat - 1) ≤ H) (r : Result) (hr : r ∈ runCall T n evs H) :
    ∃ t o, r.ret = some (t, o) ∧ t ≤ T * (2 ^ n.toNat - 1) := by
  obtain ⟨obs, rfl⟩ := runCall_sound T n evs H r hr
  exact budget hT hn obs H hH

/-- **C11 (context).** The context ends at instant `τ` while the call has not
returned (nothing observed before is later than `τ`; with the horizon at `τ`
the call is still running): the call returns at `τ` with the context's error,
whatever follows. No hypothesis on `T`, `n` or the earlier traffic. -/
theorem C11_ctx (T n : Int) (pre post : List Obs) (τ : Int) (tag : Nat) (after : Bool) (H : Int)
    (h0 : 0 ≤ τ) (hpre : ∀ p ∈ pre, p.t ≤ τ) (hw : (runObs T n pre τ).ret = none) :
    (runObs T n (pre ++ ⟨τ, .ctx, tag, after⟩ :: post) H).ret = some (τ, .ctxErr) :=
  terminal_prompt T n pre post ⟨τ, .ctx, tag, after⟩ H (Or.inr (Or.inl rfl)) h0 hpre hw

/-- **C11 (accept).** An acceptable response observed at `τ` while the call has
not returned: the call returns that response at `τ`. -/
theorem C11_accept (T n : Int) (pre post : List Obs) (τ : Int) (tag : Nat) (after : Bool) (H : Int)
    (h0 : 0 ≤ τ) (hpre : ∀ p ∈ pre, p.t ≤ τ) (hw : (runObs T n pre τ).ret = none) :
    (runObs T n (pre ++ ⟨τ, .acc, tag, after⟩ :: post) H).ret = some (τ, .resp tag) :=
  terminal_prompt T n pre post ⟨τ, .acc, tag, after⟩ H (Or.inl rfl) h0 hpre hw

/-- **C11 (closed).** The client is closed at `τ` while the call has not
returned: the call returns the no-response error at `τ`. -/
theorem C11_closed (T n : Int) (pre post : List Obs) (τ : Int) (tag : Nat) (after : Bool) (H : Int)
    (h0 : 0 ≤ τ) (hpre : ∀ p ∈ pre, p.t ≤ τ) (hw : (runObs T n pre τ).ret = none) :
    (runObs T n (pre ++ ⟨τ, .closed, tag, after⟩ :: post) H).ret = some (τ, .noResp) :=
  terminal_prompt T n pre post ⟨τ, .closed, tag, after⟩ H (Or.inr (Or.inr rfl)) h0 hpre hw

/-- **C11 (write error).** When the `k`-th `WriteTo` of a call fails on an open
client and the fault-free run reaches that transmission, the call returns the
write error at that very instant, `T·(2^k − 1)`, with exactly the `k` earlier
transmissions; a run that ends before is unaffected. -/
theorem C11_write_error (T : Int) (k : Nat) (r : Result) :
    (k < r.txs.length → applyWriteFault T k r = ⟨r.txs.take k, some (T * (2 ^ k - 1), .writeErr)⟩) ∧
    (r.txs.length ≤ k → applyWriteFault T k r = r) := by
  unfold applyWriteFault
  constructor
  · intro h; simp [h]
  · intro h; simp [Nat.not_lt.2 h]

/-! Non-vacuity. -/

/-- the hypotheses of `C11_ctx` hold of a concrete run: rejected stream, cancel at 2999
(1 ns before the second deadline) of a 1000 ns / 4-try call. -/
example : (runObs 1000 4 [⟨500, .rej, 0, true⟩, ⟨1000, .rej, 1, false⟩] 2999).ret = none ∧
    (runObs 1000 4 ([⟨500, .rej, 0, true⟩, ⟨1000, .rej, 1, false⟩] ++ ⟨2999, .ctx, 2, true⟩ :: [⟨3000, .acc, 3, true⟩]) 9000)
      = ⟨[0, 1000], some (2999, .ctxErr)⟩ := by decide

/-- a rejected datagram every 20 ns against a 150 ns budget (T = 50, 2 tries): returns at 150
(the pre-fix code, which re-armed the timer on every datagram, never did). -/
example : runObs 50 2 ((List.range 100).map (fun (i : Nat) => ⟨20 * (i : Int), .rej, i, true⟩)) 2000 =
    ⟨[0, 50], some (150, .noResp)⟩ := by decide

end Dhcp.Client.Timed

/-
  Part 2: xid reuse, Close safety and progress, over the interleaving model
  Dhcp.Client.LTS (vocabulary: Props/C10.lean). `Reachable cfg s`: some label
  list (any interleaving of any number of callers, the receive loop, Close,
  datagrams, timers, context ends) leads from the initial state to `s`.
-/
namespace Dhcp.Client.LTS

/-- **C11_reuse.** Once a call has returned — and already when it is back in
`retryFn` between two tries — no entry of the pending map is there on its
account: its transaction id is immediately reusable (by itself or by anyone:
`register` on that id is enabled unless ANOTHER call holds it). -/
theorem C11_reuse (cfg : Cfg) (hf : cfg.cancelChecksOwner = true) (s : State) (hr : Reachable cfg s) (i : Nat)
    (hpc : (∃ res, (getC s i).pc = .returned res) ∨ (∃ w, (getC s i).pc = .after w) ∨ (getC s i).pc = .start)
    (x r : Nat) (hp : s.pending.get x = some r) : (getR s r).owner ≠ i := by
  have hi := reach_all cfg hf s hr
  intro ho
  have := hi.w.powner x r hp
  rw [ho] at this
  rcases hpc with ⟨res, h⟩ | ⟨w, h⟩ | h <;> rw [h] at this <;> simp at this

/-- **C11_close_safe.** No reachable state has hit one of the two Go panics
this protocol could hit: closing a closed channel (`close(p.ch)` in the loop
or in `cancel`, `close(done)`), sending on a closed channel (`p.ch <- msg`). -/
theorem C11_close_safe (cfg : Cfg) (hf : cfg.cancelChecksOwner = true) (s : State) (hr : Reachable cfg s) :
    s.fault = none := (reach_all cfg hf s hr).w.nofault

/-- **C11 (a try that starts after Close reports ErrNoResponse).** The write
fails, `cancel()` runs, and the call returns the no-response error (the
defect fixed in 98bd242: it used to return the transport's write error). -/
theorem C11_close_between_tries (cfg : Cfg) (s s' : State) (i : Nat) (hpc : (getC s i).pc = .after .txfail)
    (h : step cfg s (.ret i) = some s') : (getC s' i).pc = .returned .noResp := by
  simp only [step, hpc] at h
  split at h
  · simp at h
  · injection h with h; subst h; simp [getC, retOf]

/-- **C11 (a write error on an open client unregisters).** The failing `WriteTo`
(label `transmitErr`) leads through `cancel()` to the write error being
returned; by `C11_reuse` the transaction id is then free. -/
theorem C11_write_error_returns (cfg : Cfg) (s s' : State) (i : Nat) (hpc : (getC s i).pc = .after .txerr)
    (h : step cfg s (.ret i) = some s') : (getC s' i).pc = .returned .writeErr := by
  simp only [step, hpc] at h
  split at h
  · simp at h
  · injection h with h; subst h; simp [getC, retOf]

/-- **C11_close_progress (deadlock freedom).** In every reachable state in
which the client has been closed, either everything has finished — the receive
loop has exited, Close has returned, every call has returned — or some step
of the client itself (receive loop, Close, a caller; not the environment) is
enabled. Includes the state where the loop is parked on a full channel
holding the mutex: then the owner of that channel can move. -/
theorem C11_close_progress (cfg : Cfg) (hf : cfg.cancelChecksOwner = true) (s : State) (hr : Reachable cfg s)
    (hc : s.closed = true) :
    (s.rx = .exited ∧ s.closeReturned = true ∧ ∀ i, (getC s i).pc = .idle ∨ ∃ res, (getC s i).pc = .returned res) ∨
    ∃ l, isEnv l = false ∧ (step cfg s l).isSome = true :=
  closed_progress cfg hf s hr hc

/-- **C11_close_variant (termination measure, per process).** After Close,
for every caller `i` the measure `mu i` (its distance to `returned` in program
counter steps, twice the packets waiting in its channel, and the work the
receive loop and Close can still do: program counter, 12 per datagram in the
socket queue, 1 for `wg.Wait`) never increases on a step of the client and
strictly decreases on every step of caller `i` itself, of the receive loop,
and of Close's wait. So after Close every process takes finitely many steps;
with `C11_close_progress` (something can always move until all is done):
under any fair schedule the receive loop exits, Close returns and every call
returns. -/
theorem C11_close_variant (cfg : Cfg) (hf : cfg.cancelChecksOwner = true) (s s' : State) (hr : Reachable cfg s)
    (hc : s.closed = true) (l : Label) (hl : isEnv l = false) (h : step cfg s l = some s') (i : Nat) :
    mu i s' ≤ mu i s ∧ (movesFor i l = true → mu i s' < mu i s) :=
  let hw := (reach_all cfg hf s hr).w
  ⟨mu_mono cfg s s' l i hc hw hl h, fun hm => mu_strict cfg s s' l i hc hw hm h⟩

/-- The single-rank form asked for by the design: ONE function of the state
that strictly decreases on every non-environment step in a closed state. -/
def C11_close_rank_full (cfg : Cfg) : Prop :=
  ∃ rank : State → Nat, ∀ s s' l, Reachable cfg s → s.closed = true → isEnv l = false →
    step cfg s l = some s' → rank s' < rank s

/-- **C11 (Close: one rank for the whole client).** `rank` = the receive loop's
potential once, plus the program-counter and buffer part of every caller that
was ever started (finitely many: `cbound`).  Every step of the client itself -
receive loop, Close's wait, any caller - in a closed reachable state lowers it:
a step changes the part of at most one caller (`cpart_frame`: its own, or for
`rxDeliver` that of the owner of the registration delivered into) and that
caller's part together with the loop's potential goes down (`mu_strict`).  So
after Close the client makes at most `rank s` further steps of its own, whatever
the environment does in between only by adding datagrams or callers. -/
theorem C11_close_rank (cfg : Cfg) (hf : cfg.cancelChecksOwner = true) : C11_close_rank_full cfg :=
  ⟨rank, fun s s' l hr hc hl h => rank_decreases cfg s s' l hc (reach_all cfg hf s hr).w hl h⟩


/-! Non-vacuity: a reachable closed state with the loop parked on a full
channel while holding the mutex (cap 0, matcher not yet evaluated). -/
def cfgPark : Cfg :=
  { caller := fun _ => { xid := 5, matchNil := false, accepts := fun d => d.tag == 1, retry := 1 }, cap := 0 }

def parkTrace : List Label :=
  [.call 0, .lock 0, .register 0, .transmit 0, .arrive ⟨5, true, 0⟩, .arrive ⟨5, true, 0⟩,
   .rxRead, .rxPass, .rxLock, .rxDeliver, .rxUnlock, .take 0, .rxRead, .rxPass, .rxLock, .close]

/-- the rank in numbers on that parked state (loop in `sending`: 8, Close not yet
returned: 1, caller 0 in `matching`: 19), and one step of the loop later -/
example : (run cfgPark init parkTrace).map rank = some 28 := by decide
example : (run cfgPark init (parkTrace ++ [.rxDoneDrop])).map rank = none ∨
    ((run cfgPark init (parkTrace ++ [.rxDoneDrop])).map rank).getD 0 < 28 := by decide

example : ∃ s, Reachable cfgPark s ∧ s.closed = true ∧ s.mutex = some .rx ∧
    (∃ p r, s.rx = .sending p r) ∧ step cfgPark s .rxDeliver = none ∧ step cfgPark s .rxDoneDrop = none :=
  ⟨_, ⟨parkTrace, rfl⟩, by decide, by decide, ⟨_, _, rfl⟩, by decide, by decide⟩

/-- a reachable state in which a call has returned the write error of its second try:
nothing is pending (so `C11_reuse`'s hypothesis is met and its conclusion visible) -/
example : ∃ s, Reachable cfgPark s ∧ (getC s 0).pc = .returned .writeErr ∧ s.pending.get 5 = none :=
  ⟨_, ⟨[.call 0, .lock 0, .register 0, .transmitErr 0, .cancel1 0, .lock 0, .cancel2 0, .ret 0], rfl⟩,
    by decide, by decide⟩

end Dhcp.Client.LTS

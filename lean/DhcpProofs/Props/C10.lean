import DhcpProofs.Lemmas.ClientLTSHist
/-
  C10 — a client call only ever returns a response to its own transaction.
  Property theorems only (helpers: DhcpProofs/Lemmas/ClientLTS.lean, ClientLTSHist.lean).

  Model: Dhcp.Client.LTS — the labelled transition system of N callers (N
  arbitrary: `Cfg.caller : Nat → CallerCfg`), the receive loop, Close and the
  environment. `Reachable cfg s` = some label list leads from `init` to `s`:
  every theorem below that assumes `Reachable` holds for EVERY interleaving of
  every number of callers with every stream of datagrams, timer firings,
  context ends and Close.  `hf : cfg.cancelChecksOwner = true` selects the
  current `cancel()` (fact-checked against the source: Facts/Client.lean).

  Vocabulary: `hist` = datagrams in the order `ReadFrom` returned them (a
  packet's `seq` is its index there: "arrival order" as the client sees it);
  a registration `r` (one `pendingCh` entry, one per try) has `routed` = every
  packet the loop ever sent on its channel, in order; `lastReg` of a caller =
  the registration of its latest try; `startProc` = how many datagrams the
  loop had finished with when the call began.
-/
namespace Dhcp.Client.LTS

/-- **inv_chan_contents.** Every packet buffered for (indeed: ever routed to) a
registration of transaction id `x` passed the receive loop's filters (decodes;
DHCPv4: BOOTREPLY for the client's hardware address), has transaction id `x`
and is in the arrival history. -/
theorem C10_inv_chan_contents (cfg : Cfg) (hf : cfg.cancelChecksOwner = true) (s : State)
    (hr : Reachable cfg s) (r : Nat) (p : Pkt) (hp : p ∈ (getR s r).buf ∨ p ∈ (getR s r).routed) :
    p.d.ok = true ∧ p.d.xid = (getR s r).xid ∧ s.hist[p.seq]? = some p.d := by
  have hi := reach_all cfg hf s hr
  have hp' : p ∈ (getR s r).routed := by
    rcases hp with hp | hp
    · rw [hi.h.split r]; exact List.mem_append_right _ hp
    · exact hp
  obtain ⟨a, b, c, _⟩ := hi.c.routed r p hp'
  exact ⟨a, b, c⟩

/-- **inv_pending_functional.** `pending` maps a transaction id to at most one
entry (a Go map: by type), each entry is filed under its own transaction id
only, and its channel is open. -/
theorem C10_inv_pending_functional (cfg : Cfg) (hf : cfg.cancelChecksOwner = true) (s : State)
    (hr : Reachable cfg s) (x x' r : Nat) (h : s.pending.get x = some r) (h' : s.pending.get x' = some r) :
    x = x' ∧ (getR s r).chClosed = false := by
  have hi := reach_all cfg hf s hr
  obtain ⟨_, a, c⟩ := hi.w.pend x r h
  obtain ⟨_, b, _⟩ := hi.w.pend x' r h'
  exact ⟨a.symm.trans b, c⟩

/-- **C10_refuse.** A `send` that finds its transaction id pending cannot
register; it is refused: the caller returns the in-use error and nothing of
the pending transaction (map, entries, channels) is touched. And the refusal
is always available (the guard on the mutex never blocks it). -/
theorem C10_refuse (cfg : Cfg) (s : State) (i : Nat) (hp : (s.pending.get (cfg.caller i).xid).isSome) :
    step cfg s (.register i) = none ∧
    (∀ s', step cfg s (.refuse i) = some s' →
        s'.pending = s.pending ∧ s'.regs = s.regs ∧ (getC s' i).pc = .returned .inUse) := by
  constructor
  · simp only [step]
    split
    · next h => rw [h.2.2] at hp; simp at hp
    · rfl
  · intro s' h
    simp only [step] at h
    split at h
    · injection h with h; subst h; simp [getC]
    · simp at h

theorem C10_refuse_enabled (cfg : Cfg) (hf : cfg.cancelChecksOwner = true) (s : State) (hr : Reachable cfg s)
    (i : Nat) (hpc : (getC s i).pc = .regLocked) (hp : (s.pending.get (cfg.caller i).xid).isSome) :
    (step cfg s (.refuse i)).isSome := by
  have hi := reach_all cfg hf s hr
  have hm : s.mutex = some (.caller i) := (hi.m.c i).2 (by rw [hpc]; rfl)
  simp [step, hpc, hm, hp]

/-- **C10_own.** A returned response was delivered to a registration owned by
that very call, carries the call's transaction id, passed the filters, is
accepted by the call's matcher, is a datagram of the arrival history, and the
receive loop had not yet disposed of it when the call began ("arrived while
the call was waiting"). -/
theorem C10_own (cfg : Cfg) (hf : cfg.cancelChecksOwner = true) (s : State) (hr : Reachable cfg s)
    (i : Nat) (p : Pkt) (hret : (getC s i).pc = .returned (.ok (some p))) :
    p ∈ (getR s (getC s i).lastReg).routed ∧ (getR s (getC s i).lastReg).owner = i ∧
    p.d.xid = (cfg.caller i).xid ∧ p.d.ok = true ∧ accepted (cfg.caller i) p.d = true ∧
    s.hist[p.seq]? = some p.d ∧ (getC s i).startProc ≤ p.seq := by
  have hi := reach_all cfg hf s hr
  obtain ⟨_, ho, hx, hb, hfa⟩ := hi.h.hres i p (by rw [hret]; rfl)
  have hmem : p ∈ (getR s (getC s i).lastReg).routed := List.mem_of_find?_eq_some hfa
  have hacc : accepted (cfg.caller i) p.d = true := by
    have := List.find?_some hfa; simpa using this
  obtain ⟨a, b, c, d⟩ := hi.c.routed _ p hmem
  exact ⟨hmem, ho, b.trans hx, a, hacc, c, Nat.le_trans hb d⟩

/-- The literal reading of "arrived while that call was waiting" — the datagram
reached the socket after the call was made. -/
def C10_arrived_after_call_full (cfg : Cfg) : Prop :=
  ∀ (pre mid post : List Label) (d : Dgram) (i : Nat) (s : State) (p : Pkt),
    run cfg init (pre ++ [.arrive d] ++ mid ++ [.call i] ++ post) = some s →
    (getC s i).pc = .returned (.ok (some p)) → p.seq ≠ (pre.filter (fun l => match l with | .arrive _ => true | _ => false)).length

/-- Two callers with different transaction ids; caller 0's buffer (capacity 0)
is full while its matcher is still running, so the loop is parked holding the
mutex; a datagram for id 2 reaches the socket; only then caller 1 (id 2) calls. -/
def cfgStale : Cfg :=
  { caller := fun i => { xid := i + 1, matchNil := false, accepts := fun d => d.tag == 1, retry := 1 }, cap := 0 }

/-- **C10_arrived_before_call_counterexample.** The literal reading is false of
the model (and of the code: known finding `stale-datagram`, reproduced under
synctest): a datagram that was already in the socket queue when the call was
made is delivered to it. What holds is `C10_own`'s clause: the receive loop
had not yet disposed of it. -/
theorem C10_arrived_before_call_counterexample : ¬ C10_arrived_after_call_full cfgStale := by
  intro h
  have hrun : ∃ s, run cfgStale init
      ([.call 0, .lock 0, .register 0, .transmit 0, .arrive ⟨1, true, 0⟩, .arrive ⟨1, true, 0⟩,
        .rxRead, .rxPass, .rxLock, .rxDeliver, .rxUnlock, .take 0, .rxRead, .rxPass, .rxLock] ++
       [.arrive ⟨2, true, 1⟩] ++ [] ++ [.call 1] ++
       [.reject 0, .rxDeliver, .rxUnlock, .lock 1, .register 1, .transmit 1, .rxRead, .rxPass, .rxLock, .rxDeliver,
        .rxUnlock, .take 1, .accept 1, .cancel1 1, .lock 1, .cancel2 1, .ret 1]) = some s ∧
      (getC s 1).pc = .returned (.ok (some ⟨2, ⟨2, true, 1⟩⟩)) := ⟨_, rfl, by decide⟩
  obtain ⟨s, h1, h2⟩ := hrun
  exact h _ _ _ _ 1 s _ h1 h2 (by decide)

/-- **C10_first.** … and it is the FIRST packet, in the order the loop routed
them to that registration, that the call's matcher accepts. -/
theorem C10_first (cfg : Cfg) (hf : cfg.cancelChecksOwner = true) (s : State) (hr : Reachable cfg s)
    (i : Nat) (p : Pkt) (hret : (getC s i).pc = .returned (.ok (some p))) :
    ∃ pre post, (getR s (getC s i).lastReg).routed = pre ++ p :: post ∧
      accepted (cfg.caller i) p.d = true ∧ ∀ q ∈ pre, accepted (cfg.caller i) q.d = false := by
  have hi := reach_all cfg hf s hr
  obtain ⟨_, _, _, _, hfa⟩ := hi.h.hres i p (by rw [hret]; rfl)
  unfold firstAcc at hfa
  obtain ⟨hacc, pre, post, heq, hpre⟩ := List.find?_eq_some_iff_append.1 hfa
  refine ⟨pre, post, heq, by simpa using hacc, ?_⟩
  intro q hq
  have := hpre q hq
  simpa using this

/-- **C10 (never nil).** No call ever receives from a closed channel, returns
`(nil, nil)`, or hands a nil packet to its matcher. -/
theorem C10_never_nil (cfg : Cfg) (hf : cfg.cancelChecksOwner = true) (s : State) (hr : Reachable cfg s) (i : Nat) :
    (∀ r, (getC s i).pc ≠ .matching r none) ∧ (getC s i).pc ≠ .returned (.ok none) ∧
    (getC s i).pc ≠ .returned .crash := by
  have hn := (reach_all cfg hf s hr).n i
  refine ⟨fun r h => ?_, fun h => ?_, fun h => ?_⟩ <;> rw [h] at hn <;> simp [CPc.nilish] at hn

/-- **C10_drop_harmless.** Dropping a malformed / foreign datagram (`rxDrop`),
and looking up a well-formed one nobody is waiting for (`rxLock` finding no
entry, then `rxUnlock`), leave every caller, every registration and the
pending map exactly as they were. -/
theorem C10_drop_harmless (cfg : Cfg) (s s' : State) (h : step cfg s .rxDrop = some s') :
    s'.callers = s.callers ∧ s'.regs = s.regs ∧ s'.pending = s.pending ∧ s'.mutex = s.mutex ∧ s'.fault = s.fault := by
  simp only [step] at h
  split at h
  · split at h
    · simp at h
    · injection h with h; subst h; simp
  · simp at h

theorem C10_unsolicited_harmless (cfg : Cfg) (s s' : State) (l : Label) (hl : l = .rxLock ∨ l = .rxUnlock ∨ l = .rxPass ∨ l = .rxRead)
    (h : step cfg s l = some s') : s'.callers = s.callers ∧ s'.regs = s.regs ∧ s'.pending = s.pending := by
  rcases hl with rfl | rfl | rfl | rfl <;> simp only [step] at h <;> (repeat' split at h) <;>
    first | (simp at h; done) | (injection h with h; subst h; simp)

/-- the process a label belongs to -/
def procOf : Label → Option Proc
  | .rxRead | .rxExit | .rxDrop | .rxPass | .rxLock | .rxDeliver | .rxDoneDrop | .rxUnlock => some .rx
  | .lock i | .register i | .refuse i | .transmit i | .transmitFail i | .transmitErr i | .take i | .accept i | .reject i
  | .giveUp i | .giveUpCtx i | .giveUpClosed i | .cancel1 i | .cancel2 i | .nextTry i | .ret i => some (.caller i)
  | _ => none

/-- **inv_lock (the model-level data-race statement).** Any step that changes
`pending` is taken by the process that owns the mutex; and the owner is
exactly the process whose program counter is inside a lock region, so the
owner guards never disable a step. (`pending` is *read* by `rxLock`, which
acquires the mutex in the same step, and by `register`/`refuse`/`cancel2`,
which carry the same owner guard.) -/
theorem C10_inv_lock (cfg : Cfg) (s s' : State) (l : Label) (h : step cfg s l = some s')
    (hp : s'.pending ≠ s.pending) : procOf l ≠ none ∧ s.mutex = procOf l := by
  lts_cases l h
  all_goals (first | (exfalso; apply hp; rfl) | skip)
  all_goals (simp_all [procOf])

theorem C10_inv_lock_owner (cfg : Cfg) (hf : cfg.cancelChecksOwner = true) (s : State) (hr : Reachable cfg s) :
    (s.mutex = some .rx ↔ s.rx.inCS = true) ∧ ∀ i, s.mutex = some (.caller i) ↔ (getC s i).pc.inCS = true :=
  let hi := reach_all cfg hf s hr
  ⟨hi.m.rx, hi.m.c⟩

/-- **C10_cancel_own.** `cancel()` (label `cancel2`) never removes another
call's entry: whatever entry disappears from `pending` belongs to the
cancelling caller. (This is the defect fixed in a066cd7.) -/
theorem C10_cancel_own (cfg : Cfg) (hf : cfg.cancelChecksOwner = true) (s s' : State) (hr : Reachable cfg s)
    (i : Nat) (h : step cfg s (.cancel2 i) = some s') (x r : Nat) (hp : s.pending.get x = some r)
    (hgone : s'.pending.get x ≠ some r) : (getR s r).owner = i := by
  have hi := reach_all cfg hf s hr
  simp only [step] at h
  split at h
  · next r0 w hpc =>
    have hown := (hi.w.pcreg i r0 (by rw [hpc]; rfl)).2.1
    split at h
    · simp at h
    · split at h
      · next r' hr' =>
        split at h
        · next hc =>
          have hrr : r' = r0 := by simpa [hf] using hc
          subst hrr
          split at h
          · injection h with h; subst h; exact absurd hp (by intro hp; exact hgone hp)
          · injection h with h; subst h
            simp only [FMap.get_erase] at hgone
            by_cases hx : x = (cfg.caller i).xid
            · subst hx; rw [hr'] at hp; injection hp with hp; subst hp; exact hown
            · simp [hx] at hgone; exact absurd hp hgone
        · injection h with h; subst h; exact absurd hp hgone
      · injection h with h; subst h; exact absurd hp hgone
  · simp at h

/-- The configuration of the counterexample: two callers using transaction id 7,
nil matchers, one try each, buffer capacity 1, and the `cancel()` of before
the fix. -/
def cfgOldCancel : Cfg :=
  { caller := fun _ => { xid := 7, matchNil := true, accepts := fun _ => true, retry := 1 },
    cap := 1, cancelChecksOwner := false }

/-- Caller 0 times out and closes its `done`; a datagram makes the loop find
`done` closed and remove the entry; caller 1 registers the same id; caller 0's
`cancel` then closes and removes caller 1's entry; caller 1 receives nil from
the closed channel and returns `(nil, nil)`. -/
def oldCancelTrace : List Label :=
  [.call 0, .lock 0, .register 0, .transmit 0, .timerFire 0, .giveUp 0, .cancel1 0,
   .arrive ⟨7, true, 0⟩, .rxRead, .rxPass, .rxLock, .rxDoneDrop, .rxUnlock,
   .call 1, .lock 1, .register 1, .transmit 1, .lock 0, .cancel2 0,
   .take 1, .accept 1, .cancel1 1, .lock 1, .cancel2 1, .ret 1]

/-- **C10_old_cancel_counterexample.** With the owner check off, `C10_never_nil`
(hence `C10_own`) fails: the trace above is enabled step by step and ends with
caller 1 having taken from a closed channel and returned a nil response. The
same label list is NOT enabled with the check on. -/
theorem C10_old_cancel_counterexample :
    (∃ s, run cfgOldCancel init oldCancelTrace = some s ∧ (getC s 1).pc = .returned (.ok none)) ∧
    run { cfgOldCancel with cancelChecksOwner := true } init oldCancelTrace = none := by
  constructor
  · exact ⟨_, rfl, by decide⟩
  · decide

/-! Non-vacuity: a reachable state in which a call has returned a response
(so the hypotheses of `C10_own` / `C10_first` are satisfiable): one caller, a
rejected then an accepted datagram. -/
def cfgTag : Cfg :=
  { caller := fun _ => { xid := 3, matchNil := false, accepts := fun d => d.tag == 1, retry := 2 }, cap := 2 }

def ownTrace : List Label :=
  [.call 0, .lock 0, .register 0, .transmit 0, .arrive ⟨3, true, 0⟩, .arrive ⟨4, true, 1⟩, .arrive ⟨3, false, 1⟩,
   .arrive ⟨3, true, 1⟩, .rxRead, .rxPass, .rxLock, .rxDeliver, .rxUnlock, .take 0, .reject 0,
   .rxRead, .rxPass, .rxLock, .rxUnlock, .rxRead, .rxDrop, .rxRead, .rxPass, .rxLock, .rxDeliver, .rxUnlock,
   .take 0, .accept 0, .cancel1 0, .lock 0, .cancel2 0, .ret 0]

example : ∃ s, Reachable cfgTag s ∧ (getC s 0).pc = .returned (.ok (some ⟨3, ⟨3, true, 1⟩⟩)) :=
  ⟨_, ⟨ownTrace, rfl⟩, by decide⟩

end Dhcp.Client.LTS

import DhcpProofs.Lemmas.V6Fuel
import DhcpProofs.Lemmas.LabelApi
import DhcpProofs.Lemmas.V6Parse
/-
  C02 — DHCPv6 encode→decode preserves messages, relay chains and every option
  type.  `encMsg`/`dec6` model `ToBytes`/`dhcpv6.FromBytes`; `WFMsg` is the
  representable domain of the property (Dhcp/V6/Domain.lean); the option table
  is re-checked against the `ParseOption` switch on every run
  (DhcpProofs/Facts/V6Table.lean).
-/
namespace Dhcp.Props
open Dhcp Dhcp.V6

/-- **C02 (round trip).** For every well-formed message or relay chain — any
nesting depth, any number of options, every option type of the parser table
and unknown codes — decoding the encoder's bytes returns the value itself:
same header, same options in the same order with equal fields, recursively. -/
theorem C02_roundtrip (m : Msg6) (h : WFMsg m) : dec6 (encMsg m) = .ok m :=
  dec6_encMsg m h

/-- **C02 (single options).** The same for `ParseOption` on one option's value. -/
theorem C02_roundtrip_option (o : Opt6) (h : WFOpt o) : parseOption o.code (encOpt o) = .ok o :=
  parseOption_encOpt o h

/-- **C02 (wire layout).** The emitted bytes are derivable in the declarative RFC
8415 framing grammar (`Spec.PMsg`, no Lexer, no fuel) with `m` as their reading:
header, then options tiling the remainder exactly, recursively through every
container option. (The leaf value layouts are additionally compared with an
independently written Go RFC decoder by oracle c02.) -/
theorem C02_wire (m : Msg6) (h : WFMsg m) : Spec.PMsg (encMsg m) m :=
  (dec6_iff _ _).mp (dec6_encMsg m h)

/-- **C02 (any fuel).** The statement does not depend on the fuel the model's
decoder is run with, once it covers the nesting depth. -/
theorem C02_roundtrip_fuel (m : Msg6) (h : WFMsg m) (f : Nat) (hf : fuelMsg m ≤ f) :
    decMsgF f (encMsg m) = .ok m :=
  roundtrip_msg m h f hf

/-- **C02 (freshly built label sets).** A label set built by the caller has no
`original` bytes; `WFOpt` asks for the decoded form. For a fresh set of valid
names the round trip returns the same names, now carrying the bytes they were
parsed from (C19 round trip). Shown for the domain search list; FQDN and NTP
FQDN use the same codec. -/
theorem C02_domainSearch_fresh (ns : List Bytes) (h : Spec.Name.ValidNames ns) :
    parseOption 24 (encOpt (.domainSearch { original := none, labels := ns })) =
      .ok (.domainSearch { original := some (Label.labelsToBytes ns), labels := ns }) := by
  have h1 : encOpt (.domainSearch { original := none, labels := ns }) = Label.labelsToBytes ns := by
    simp only [encOpt]
    exact Label.toBytes_original_none _ rfl
  rw [h1]
  have h2 := Label.fromBytes_labelsToBytes ns h
  simp [parseOption, fuelFor, parseOpt, decSimple, h2]

theorem durOK_ofNat (s : Nat) (h : s < 4294967296) : DurOK ((s : Int) * second) := ⟨s, h, rfl⟩
theorem ip16_zeros : IP16 (some (zeros 16)) := ⟨zeros 16, rfl, by simp⟩

set_option maxRecDepth 20000 in
/-- Non-vacuity: a relay chain of depth 2 carrying an interface-id and, innermost,
a SOLICIT with elapsed time, IA_NA{IAAddr{Status}}, IA_PD{IAPrefix /56} and an
unknown option is in the domain (so `C02_roundtrip` applies to it). -/
example : WFMsg
    (.relay 12 1 (some (zeros 16)) (some (zeros 16))
      [.interfaceID [1, 2],
       .relayMsg (.relay 13 0 (some (zeros 16)) (some (zeros 16))
        [.relayMsg (.msg 1 [7, 8, 9]
          [.elapsed ((5 : Nat) * tenMs),
           .iana [0, 0, 0, 1] ((3600 : Nat) * second) ((7200 : Nat) * second)
             [.iaaddr (some (zeros 16)) ((60 : Nat) * second) ((120 : Nat) * second) [.status 0 [111, 107]]],
           .iapd [0, 0, 0, 2] ((0 : Nat) * second) ((0 : Nat) * second)
             [.iaprefix ((60 : Nat) * second) ((120 : Nat) * second) (some (56, some (zeros 16))) []],
           .generic 4242 [1, 2, 3]])])]) := by
  have d (s : Nat) (h : s < 4294967296 := by decide) : DurOK ((s : Int) * second) := durOK_ofNat s h
  refine ⟨by decide, ip16_zeros, ip16_zeros, trivial, by decide, ?_, by decide, trivial⟩
  refine ⟨by decide, ip16_zeros, ip16_zeros, ?_, by decide, trivial⟩
  refine ⟨by decide, by decide, ⟨5, by decide, rfl⟩, by decide, ?_, by decide, ?_, by decide, ?_, by decide, trivial⟩
  · exact ⟨by decide, d 3600, d 7200, ⟨ip16_zeros, d 60, d 120, by simp [WFOpt], by decide, trivial⟩, by decide, trivial⟩
  · exact ⟨by decide, d 0, d 0, ⟨d 60, d 120, ⟨by decide, by decide, ip16_zeros⟩, trivial⟩, by decide, trivial⟩
  · exact ⟨by decide, by decide⟩

end Dhcp.Props

import DhcpProofs.Props.C05
import DhcpProofs.Lemmas.V6Fuel
import DhcpProofs.Lemmas.LabelApi
import DhcpProofs.Lemmas.V6Parse
import DhcpProofs.Lemmas.V6Fresh
/-
  C02 — DHCPv6 encode→decode preserves messages, relay chains and every option
  type.  `encMsg`/`dec6` model `ToBytes`/`dhcpv6.FromBytes`; `WFMsg` is the
  representable domain of the property (Dhcp/V6/Domain.lean); the option table
  is re-checked against the `ParseOption` switch on every run
  (DhcpProofs/Facts/V6Table.lean).
-/
namespace Dhcp.Props
open Dhcp Dhcp.V6

/-- **C02 (round trip).** For every well-formed message or relay chain — any
nesting depth, any number of options, every option type of the parser table
and unknown codes — decoding the encoder's bytes returns the value itself:
same header, same options in the same order with equal fields, recursively. -/
theorem C02_roundtrip (m : Msg6) (h : WFMsg m) : dec6 (encMsg m) = .ok m :=
  dec6_encMsg m h

/-- **C02 (single options).** The same for `ParseOption` on one option's value. -/
theorem C02_roundtrip_option (o : Opt6) (h : WFOpt o) : parseOption o.code (encOpt o) = .ok o :=
  parseOption_encOpt o h

/-- **C02 (wire layout).** The emitted bytes are derivable in the declarative RFC
8415 framing grammar (`Spec.PMsg`, no Lexer, no fuel) with `m` as their reading:
header, then options tiling the remainder exactly, recursively through every
container option. (The leaf value layouts are additionally compared with an
independently written Go RFC decoder by oracle c02.) -/
theorem C02_wire (m : Msg6) (h : WFMsg m) : Spec.PMsg (encMsg m) m :=
  (dec6_iff _ _).mp (dec6_encMsg m h)

/-- **C02 (any fuel).** The statement does not depend on the fuel the model's
decoder is run with, once it covers the nesting depth. -/
theorem C02_roundtrip_fuel (m : Msg6) (h : WFMsg m) (f : Nat) (hf : fuelMsg m ≤ f) :
    decMsgF f (encMsg m) = .ok m :=
  roundtrip_msg m h f hf

/-- **C02 (freshly built label sets).** A label set built by the caller has no
`original` bytes; `WFOpt` asks for the decoded form. For a fresh set of valid
names the round trip returns the same names, now carrying the bytes they were
parsed from (C19 round trip). Shown for the domain search list; FQDN and NTP
FQDN use the same codec. -/
theorem C02_domainSearch_fresh (ns : List Bytes) (h : Spec.Name.ValidNames ns) :
    parseOption 24 (encOpt (.domainSearch { original := none, labels := ns })) =
      .ok (.domainSearch { original := some (Label.labelsToBytes ns), labels := ns }) := by
  have h1 : encOpt (.domainSearch { original := none, labels := ns }) = Label.labelsToBytes ns := by
    simp only [encOpt]
    exact Label.toBytes_original_none _ rfl
  rw [h1]
  have h2 := Label.fromBytes_labelsToBytes ns h
  simp [parseOption, fuelFor, parseOpt, decSimple, h2]

/-! ### freshly built label sets, at message level

`WFMsg` asks every label set (domain search list 24, client FQDN 39, NTP server
FQDN suboption 56/3) to be in DECODED form (`original` = the bytes it was parsed
from).  A caller who builds a message (`WithFQDN`, `WithDomainSearchList`,
`&rfc1035label.Labels{Labels: …}`) has `original = nil`.  `WFMsg'`
(Dhcp/V6/Domain.lean) is `WFMsg` with such fresh sets of valid names allowed
anywhere, at any depth; `normMsg` replaces each fresh set by its decoded form
(`original` = the bytes `labelsToBytes` emits for the names, names unchanged) and
touches nothing else. -/

/-- what the normalisation does to one label set -/
theorem C02_normLabels (orig : Option Bytes) (ns : List Bytes) :
    normLabels ⟨none, ns⟩ = ⟨some (Label.labelsToBytes ns), ns⟩ ∧
    (∀ b, Label.labelsFromBytes b = .ok ns → normLabels ⟨some b, ns⟩ = ⟨some b, ns⟩) ∧
    (∀ b ns0, Label.labelsFromBytes b = .ok ns0 → ns0 ≠ ns →
      normLabels ⟨some b, ns⟩ = ⟨some (Label.labelsToBytes ns), ns⟩) ∧
    (normLabels ⟨orig, ns⟩).labels = ns ∧
    (normLabels ⟨orig, ns⟩).toBytes = (Label.Labels.mk orig ns).toBytes := by
  refine ⟨?_, ?_, ?_, normLabels_labels _, normLabels_toBytes _⟩
  · simp only [normLabels, Label.toBytes_original_none ⟨none, ns⟩ rfl]
  · intro b hb; exact normLabels_of_LabelsOK ⟨b, rfl, hb⟩
  · intro b ns0 hb hne
    simp [normLabels, Label.Labels.toBytes, Label.goBytes, hb, hne]

/-- **C02 (round trip with fresh label sets).** For every message or relay
chain of the extended domain — any depth, any number of options, label sets
fresh or decoded wherever they occur — decoding the encoder's bytes returns the
message with every fresh label set in its decoded form and everything else
equal: `dec6 (encMsg m) = ok (normMsg m)`. -/
theorem C02_roundtrip_fresh (m : Msg6) (h : WFMsg' m) : dec6 (encMsg m) = .ok (normMsg m) :=
  dec6_encMsg_fresh m h

/-- the same for `ParseOption` on one option's value (subsumes `C02_domainSearch_fresh`) -/
theorem C02_roundtrip_option_fresh (o : Opt6) (h : WFOpt' o) :
    parseOption o.code (encOpt o) = .ok (normOpt o) :=
  parseOption_encOpt_fresh o h

/-- `C02_roundtrip` is the special case without fresh sets: `WFMsg ⊆ WFMsg'`
and `normMsg` is the identity on `WFMsg` -/
theorem C02_fresh_extends (m : Msg6) (h : WFMsg m) : WFMsg' m ∧ normMsg m = m :=
  ⟨WFMsg'_of_WF m h, normMsg_of_WF m h⟩

/-- the normal form is on the wire what the message is (for EVERY message, in
the domain or not); it lies in the round-trip domain, so decoding its encoding
returns it unchanged: a second trip changes nothing more -/
theorem C02_norm_fixpoint (m : Msg6) :
    encMsg (normMsg m) = encMsg m ∧
    (WFMsg' m → WFMsg (normMsg m) ∧ normMsg (normMsg m) = normMsg m ∧
      dec6 (encMsg (normMsg m)) = .ok (normMsg m)) :=
  ⟨encMsg_norm m, fun h => ⟨WFMsg_norm m h, normMsg_idem m h, dec6_encMsg _ (WFMsg_norm m h)⟩⟩

/-- the emitted bytes of a message with fresh label sets are derivable in the
framing grammar with the normal form as their reading -/
theorem C02_wire_fresh (m : Msg6) (h : WFMsg' m) : Spec.PMsg (encMsg m) (normMsg m) :=
  (dec6_iff _ _).mp (dec6_encMsg_fresh m h)

theorem durOK_ofNat (s : Nat) (h : s < 4294967296) : DurOK ((s : Int) * second) := ⟨s, h, rfl⟩
theorem ip16_zeros : IP16 (some (zeros 16)) := ⟨zeros 16, rfl, by simp⟩

set_option maxRecDepth 20000 in
/-- Non-vacuity: a relay chain of depth 2 carrying an interface-id and, innermost,
a SOLICIT with elapsed time, IA_NA{IAAddr{Status}}, IA_PD{IAPrefix /56} and an
unknown option is in the domain (so `C02_roundtrip` applies to it). -/
example : WFMsg
    (.relay 12 1 (some (zeros 16)) (some (zeros 16))
      [.interfaceID [1, 2],
       .relayMsg (.relay 13 0 (some (zeros 16)) (some (zeros 16))
        [.relayMsg (.msg 1 [7, 8, 9]
          [.elapsed ((5 : Nat) * tenMs),
           .iana [0, 0, 0, 1] ((3600 : Nat) * second) ((7200 : Nat) * second)
             [.iaaddr (some (zeros 16)) ((60 : Nat) * second) ((120 : Nat) * second) [.status 0 [111, 107]]],
           .iapd [0, 0, 0, 2] ((0 : Nat) * second) ((0 : Nat) * second)
             [.iaprefix ((60 : Nat) * second) ((120 : Nat) * second) (some (56, some (zeros 16))) []],
           .generic 4242 [1, 2, 3]])])]) := by
  have d (s : Nat) (h : s < 4294967296 := by decide) : DurOK ((s : Int) * second) := durOK_ofNat s h
  refine ⟨by decide, ip16_zeros, ip16_zeros, trivial, by decide, ?_, by decide, trivial⟩
  refine ⟨by decide, ip16_zeros, ip16_zeros, ?_, by decide, trivial⟩
  refine ⟨by decide, by decide, ⟨5, by decide, rfl⟩, by decide, ?_, by decide, ?_, by decide, ?_, by decide, trivial⟩
  · exact ⟨by decide, d 3600, d 7200, ⟨ip16_zeros, d 60, d 120, by simp [WFOpt], by decide, trivial⟩, by decide, trivial⟩
  · exact ⟨by decide, d 0, d 0, ⟨d 60, d 120, ⟨by decide, by decide, ip16_zeros⟩, trivial⟩, by decide, trivial⟩
  · exact ⟨by decide, by decide⟩

/-- a relay-forward carrying a SOLICIT built the way a client builds it: domain
search list "a.b", "c"; client FQDN "h.c"; NTP server FQDN "n.t" — all three
label sets FRESH — next to an IA_NA -/
def exFresh : Msg6 :=
  .relay 12 0 (some (zeros 16)) (some (zeros 16))
    [.relayMsg (.msg 1 [7, 8, 9]
      [.domainSearch ⟨none, [[97, 46, 98], [99]]⟩,
       .fqdn 1 ⟨none, [[104, 46, 99]]⟩,
       .ntp [.srvFQDN ⟨none, [[110, 46, 116]]⟩],
       .iana [0, 0, 0, 1] ((3600 : Nat) * second) ((7200 : Nat) * second) []])]

set_option maxRecDepth 20000 in
/-- Non-vacuity of `C02_roundtrip_fresh`: `exFresh` is in the extended domain
(and NOT in `WFMsg`: its label sets have no `original`) … -/
example : WFMsg' exFresh ∧ ¬ WFMsg exFresh := by
  have d (s : Nat) (h : s < 4294967296 := by decide) : DurOK ((s : Int) * second) := durOK_ofNat s h
  constructor
  · refine ⟨by decide, ip16_zeros, ip16_zeros, ?_, by decide, trivial⟩
    refine ⟨by decide, by decide, ?_, by decide, ?_, by decide, ?_, by decide, ?_, by decide, trivial⟩
    · exact .inr ⟨by decide, .inl rfl⟩
    · exact .inr ⟨by decide, .inl rfl⟩
    · intro s hs
      simp only [List.mem_singleton] at hs
      subst hs
      exact ⟨⟨.inr ⟨by decide, .inl rfl⟩, rfl⟩, by decide⟩
    · exact ⟨by decide, d 3600, d 7200, trivial⟩
  · intro h
    simp only [exFresh, WFMsg, WFOpts, WFOpt] at h
    obtain ⟨b, hb, _⟩ := h.2.2.2.1.2.2.1
    cases hb

/-- … and what comes back is the same message with the three label sets carrying
the bytes they were parsed from -/
example : dec6 (encMsg exFresh) = .ok
    (.relay 12 0 (some (zeros 16)) (some (zeros 16))
      [.relayMsg (.msg 1 [7, 8, 9]
        [.domainSearch ⟨some [1, 97, 1, 98, 0, 1, 99, 0], [[97, 46, 98], [99]]⟩,
         .fqdn 1 ⟨some [1, 104, 1, 99, 0], [[104, 46, 99]]⟩,
         .ntp [.srvFQDN ⟨some [1, 110, 1, 116, 0], [[110, 46, 116]]⟩],
         .iana [0, 0, 0, 1] ((3600 : Nat) * second) ((7200 : Nat) * second) []])]) := by
  have hd : WFMsg' exFresh := by
    have d (s : Nat) (h : s < 4294967296 := by decide) : DurOK ((s : Int) * second) := durOK_ofNat s h
    refine ⟨by decide, ip16_zeros, ip16_zeros, ?_, by decide, trivial⟩
    refine ⟨by decide, by decide, ?_, by decide, ?_, by decide, ?_, by decide, ?_, by decide, trivial⟩
    · exact .inr ⟨by decide, .inl rfl⟩
    · exact .inr ⟨by decide, .inl rfl⟩
    · intro s hs
      simp only [List.mem_singleton] at hs
      subst hs
      exact ⟨⟨.inr ⟨by decide, .inl rfl⟩, rfl⟩, by decide⟩
    · exact ⟨by decide, d 3600, d 7200, trivial⟩
  rw [C02_roundtrip_fresh exFresh hd]
  have e1 : (Label.Labels.mk none [[97, 46, 98], [99]]).toBytes = [1, 97, 1, 98, 0, 1, 99, 0] := by
    rw [Label.toBytes_original_none _ rfl]; decide
  have e2 : (Label.Labels.mk none [[104, 46, 99]]).toBytes = [1, 104, 1, 99, 0] := by
    rw [Label.toBytes_original_none _ rfl]; decide
  have e3 : (Label.Labels.mk none [[110, 46, 116]]).toBytes = [1, 110, 1, 116, 0] := by
    rw [Label.toBytes_original_none _ rfl]; decide
  simp only [exFresh, normMsg, normOpts, normOpt, normNTP, normLabels, List.map, e1, e2, e3]

/-! ### label sets that were decoded and then edited

`WFMsg'` also admits a label set that was decoded from SOME bytes and whose names
were changed afterwards (`d.Labels[i] = …`, names dropped or appended), as long
as the names now in it are valid: `ToBytes` then re-encodes the names (or keeps
the original when the edit was undone), and the trip returns the edited names
with the emitted bytes as their `original`. -/

/-- a domain search list decoded from the wire form of "a.b", then edited to
"c", "a.b" by the caller -/
def exEdited : Msg6 :=
  .msg 1 [7, 8, 9] [.domainSearch ⟨some [1, 97, 1, 98, 0], [[99], [97, 46, 98]]⟩]

/-- Non-vacuity for edited sets: `exEdited` is in the extended domain, not in
`WFMsg`, and the trip returns the edited names carrying their own wire form -/
example : WFMsg' exEdited ∧ ¬ WFMsg exEdited ∧
    dec6 (encMsg exEdited) = .ok
      (.msg 1 [7, 8, 9] [.domainSearch ⟨some [1, 99, 0, 1, 97, 1, 98, 0], [[99], [97, 46, 98]]⟩]) := by
  have hp : Label.labelsFromBytes [1, 97, 1, 98, 0] = .ok [[97, 46, 98]] := by decide
  have hd : WFMsg' exEdited :=
    ⟨by decide, by decide, .inr ⟨by decide, .inr ⟨_, _, rfl, hp⟩⟩, by decide, trivial⟩
  refine ⟨hd, ?_, ?_⟩
  · intro h
    simp only [exEdited, WFMsg, WFOpts, WFOpt] at h
    obtain ⟨b, hb, hb'⟩ := h.2.2.1
    simp only [Option.some.injEq] at hb
    subst hb
    rw [hp] at hb'
    exact absurd hb' (by decide)
  · rw [C02_roundtrip_fresh exEdited hd]
    have e : (Label.Labels.mk (some [1, 97, 1, 98, 0]) [[99], [97, 46, 98]]).toBytes =
        [1, 99, 0, 1, 97, 1, 98, 0] := by
      have : (Label.Labels.mk (some [1, 97, 1, 98, 0]) [[99], [97, 46, 98]]).toBytes =
          Label.labelsToBytes [[99], [97, 46, 98]] := by
        simp [Label.Labels.toBytes, Label.goBytes, hp]
      rw [this]; decide
    simp only [exEdited, normMsg, normOpts, normOpt, normLabels, e]

/-! ### the RFC wire layout, against the fully declarative grammar

`Spec.PMsg'` (Dhcp/Spec/Wire6Rfc.lean, Leaf6.lean) describes RFC 8415 messages,
relay headers, option framing AND the value layout of every option without any
decoder code.  The encoder's output is derivable in it, with the message itself
(its normal form, when it carries fresh or edited label sets) as the reading —
"the emitted bytes are the RFC wire layout" as a theorem about the model. -/

theorem C02_wire_rfc (m : Msg6) (h : WFMsg m) : Spec.PMsg' (encMsg m) m :=
  (C05_exact_rfc _ _).mp (dec6_encMsg m h)

theorem C02_wire_rfc_fresh (m : Msg6) (h : WFMsg' m) : Spec.PMsg' (encMsg m) (normMsg m) :=
  (C05_exact_rfc _ _).mp (dec6_encMsg_fresh m h)

/-- … and nothing else is: whatever the grammar reads out of the emitted bytes
is that message (the grammar is functional, `C05_functional_rfc`) -/
theorem C02_wire_rfc_unique (m m' : Msg6) (h : WFMsg' m) (h' : Spec.PMsg' (encMsg m) m') :
    m' = normMsg m :=
  C05_functional_rfc _ _ _ h' (C02_wire_rfc_fresh m h)

end Dhcp.Props

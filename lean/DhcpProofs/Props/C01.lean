import Dhcp.V4.Domain
import DhcpProofs.Lemmas.V4RoundTrip
/-
  C01 — DHCPv4 encode→decode preserves every header field and option value.
  Property theorems only; helper lemmas live in DhcpProofs/Lemmas.
-/
namespace Dhcp.V4
open Dhcp List

/-- **C01 (round trip).** For every packet of the encodable domain — any
number of options, values of any length (empty, > 255, > 510, …) — encoding
succeeds and decoding the bytes returns the packet itself, up to the 4-byte
form of its addresses. -/
theorem C01_roundtrip (p : Pkt4) (h : Encodable p) :
    ∃ b, enc4 p = .ok b ∧ dec4 b = .ok (norm p) :=
  enc4_dec4 p h

/-- **C01 (options byte for byte).** The decoded option set is the encoded
one: same codes, each value byte for byte. -/
theorem C01_options (p : Pkt4) (h : Encodable p) :
    ∃ b q, enc4 p = .ok b ∧ dec4 b = .ok q ∧ ∀ c, q.opts.f c = p.opts.f c := by
  obtain ⟨b, h1, h2⟩ := enc4_dec4 p h
  exact ⟨b, norm p, h1, h2, fun _ => rfl⟩

/-- **C01 (header fields).** Every header field survives; addresses come back
as the 4 bytes that were written. -/
theorem C01_header (p : Pkt4) (h : Encodable p) :
    ∃ b q, enc4 p = .ok b ∧ dec4 b = .ok q ∧ q.op = p.op ∧ q.htype = p.htype ∧ q.hw = p.hw ∧
      q.hops = p.hops ∧ q.xid = p.xid ∧ q.secs = p.secs ∧ q.flags = p.flags ∧
      q.sname = p.sname ∧ q.file = p.file ∧
      q.ciaddr = some (ip4 p.ciaddr) ∧ q.yiaddr = some (ip4 p.yiaddr) ∧
      q.siaddr = some (ip4 p.siaddr) ∧ q.giaddr = some (ip4 p.giaddr) := by
  obtain ⟨b, h1, h2⟩ := enc4_dec4 p h
  exact ⟨b, norm p, h1, h2, rfl, rfl, rfl, rfl, rfl, rfl, rfl, rfl, rfl, rfl, rfl, rfl, rfl⟩

/-- **C01 (totality of the encoder, guard stated not hidden).** `ToBytes`
panics exactly when some address is non-nil and neither 4-byte nor
IPv4-mapped — the inputs the domain excludes. -/
theorem C01_enc_panic_iff (p : Pkt4) :
    enc4 p = .panic ↔ ¬ (ipOK p.ciaddr ∧ ipOK p.yiaddr ∧ ipOK p.siaddr ∧ ipOK p.giaddr) :=
  enc4_panic_iff p

/-- Non-vacuity: a packet with a 600-byte option (three instances on the wire),
an empty option and option 82 meets the hypotheses. -/
example : Encodable
    { op := 1, htype := 1, hw := [1, 2, 3, 4, 5, 6], hops := 0, xid := [9, 9, 9, 9], secs := 0,
      flags := 32768, ciaddr := none, yiaddr := some [10, 0, 0, 1], siaddr := none, giaddr := none,
      sname := [97], file := [], opts := (((Opts.empty.set 53 [1]).set 43 (zeros 600)).set 80 []).set 82 [1, 1, 65] } :=
  { htype := by decide, hw := by decide, xid := by decide, secs := by decide, flags := by decide,
    ci := by simp [ipOK], yi := by simp [ipOK, to4], si := by simp [ipOK], gi := by simp [ipOK],
    sname_len := by decide, sname_nul := by decide, file_len := by decide, file_nul := by decide,
    no_pad := by simp [Opts.set, Opts.empty], no_end := by simp [Opts.set, Opts.empty] }

end Dhcp.V4

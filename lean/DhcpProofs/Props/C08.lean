import DhcpProofs.Lemmas.Ownership
/-
  C08 — after decoding, overwriting or reusing the input buffer changes nothing
  observable about the message; bytes returned by an encoder may be modified
  without affecting the message or any later encoding.

  The theorems are about the abstract memory model of `Dhcp/Ownership.lean`;
  the premise "every leaf is owned" / "the top-level encoder returns a fresh
  buffer" is what the regenerated tables `Gen.decodeLeafProvenance` and
  `Gen.topLevelEncodersFresh` (go/ssa provenance analysis of /repo's working
  tree) assert for the code, re-checked in `Facts/Ownership.lean`; the
  `c08` oracle checks the same on the running code with an exact pointer scan.
-/
namespace Dhcp.Props
open Dhcp Dhcp.Ownership

/-- **C08 (decode side).** If every byte-valued leaf of the decoded object is
owned, then for EVERY overwrite of the input buffer, every observer of the
object — a field, the printed form, the re-encoding, any accessor: an arbitrary
function of the leaves' contents — returns the same result as before. -/
theorem C08_scribble {α : Type} (o : Obj) (h : AllOwned o) (m : Mem) (b' : Bytes) (f : Observer α) :
    observe f (scribble m b') o = observe f m o := by
  unfold observe
  rw [contents_scribble m b' o h]

/-- the same, for any sequence of overwrites (server-style buffer reuse) -/
theorem C08_scribble_many {α : Type} (o : Obj) (h : AllOwned o) (m : Mem) (bs : List Bytes) (f : Observer α) :
    observe f (bs.foldl scribble m) o = observe f m o := by
  induction bs generalizing m with
  | nil => rfl
  | cons b bs ih => simp only [List.foldl_cons]; rw [ih, C08_scribble o h]

/-- **Non-vacuity / necessity.** With a single view leaf there is an overwrite
and an observer (the leaf itself, i.e. a field read) that differ: ownership of
every leaf is exactly what the property needs. -/
theorem C08_view_counterexample :
    ∃ (o : Obj) (m : Mem) (b' : Bytes) (f : Observer (List Bytes)),
      ¬ AllOwned o ∧ observe f (scribble m b') o ≠ observe f m o :=
  ⟨⟨[.view 0 1]⟩, ⟨[1], fun _ => []⟩, [2], id, by decide, by decide⟩

/-- Any object with a view leaf of non-zero length inside the buffer can be
disturbed: for the leaf-reading observer some overwrite is visible. -/
theorem C08_view_observable (pre post : List Prov) (off len : Nat) (m : Mem)
    (hlen : 0 < len) (hin : off < m.input.length) :
    ∃ b' : Bytes, observe (α := List Bytes) id (scribble m b') ⟨pre ++ .view off len :: post⟩ ≠
      observe id m ⟨pre ++ .view off len :: post⟩ := by
  -- flip the first byte of the window
  let x : UInt8 := m.input[off]'hin
  refine ⟨m.input.set off (x + 1), ?_⟩
  intro heq
  simp only [observe, id, contents, List.map_append, List.map_cons] at heq
  have hhead := (List.cons.inj (List.append_inj heq (by simp)).2).1
  have h0 : ((m.input.set off (x + 1)).drop off).take len = (m.input.drop off).take len := hhead
  have e1 : (((m.input.set off (x + 1)).drop off).take len)[0]? = some (x + 1) := by
    rw [List.getElem?_take_of_lt hlen, List.getElem?_drop]
    simp [hin]
  have e2 : ((m.input.drop off).take len)[0]? = some x := by
    rw [List.getElem?_take_of_lt hlen, List.getElem?_drop]
    simp [x, hin]
  rw [h0, e2] at e1
  have hx : x = x + 1 := Option.some.inj e1
  have h2 : x.toNat = (x + 1).toNat := congrArg UInt8.toNat hx
  rw [UInt8.toNat_add] at h2
  have := x.toNat_lt
  simp at h2
  omega

/-- **C08 (encode side).** If the encoder returned a fresh buffer (no leaf of
the object lives in it), the caller may write anything into it: no leaf changes
(so no field, printed form, accessor changes), and any later encoding by any
encoder returns the same bytes as it would have. -/
theorem C08_encode_fresh {α : Type} (o : Obj) (e : Encoder) (h : Fresh e.out o) (m : Mem) (b' : Bytes) :
    let m₁ := (encode e m o).1
    (∀ f : Observer α, observe f (writeCell m₁ e.out b') o = observe f m o) ∧
    (∀ e₂ : Encoder, (encode e₂ (writeCell m₁ e.out b') o).2 = (encode e₂ m o).2) := by
  have hc : contents (writeCell (encode e m o).1 e.out b') o = contents m o := by
    rw [contents_writeCell _ _ _ _ h]
    exact contents_writeCell m e.out _ o h
  refine ⟨fun f => by simp only [observe, hc], fun e₂ => ?_⟩
  show e₂.compute (contents (writeCell (encode e m o).1 e.out b') o) = e₂.compute (contents m o)
  rw [hc]

/-- encoding itself does not disturb the object either (the output buffer is fresh) -/
theorem C08_encode_pure {α : Type} (o : Obj) (e : Encoder) (h : Fresh e.out o) (m : Mem) (f : Observer α) :
    observe f (encode e m o).1 o = observe f m o := by
  simp only [observe, encode, contents_writeCell m e.out _ o h]

/-- Non-vacuity for the encode side: an encoder that returns a leaf's own
storage (what `OptionGeneric.ToBytes` does by design — harmless only because the
message-level encoders copy it with `WriteBytes`) lets the caller change the
object and its next encoding. -/
theorem C08_encode_shared_counterexample :
    ∃ (o : Obj) (e : Encoder) (m : Mem) (b' : Bytes),
      ¬ Fresh e.out o ∧ (encode e (writeCell (encode e m o).1 e.out b') o).2 ≠ (encode e m o).2 :=
  ⟨⟨[.owned 0]⟩, ⟨0, fun ls => ls.headD []⟩, ⟨[], fun _ => [7]⟩, [9], by decide, by decide⟩

/-- **Tie to the extracted table.** If the store-site table is sound for an
object (each leaf created at a listed site; OWNED sites create owned leaves)
and every row says OWNED, the object is immune to every overwrite of the input. -/
theorem C08_scribble_of_table {α : Type} (tbl : List (String × Bool)) (ls : List TaggedLeaf)
    (hall : ∀ e ∈ tbl, e.2 = true) (hs : TableSound tbl ls) (m : Mem) (b' : Bytes) (f : Observer α) :
    observe f (scribble m b') ⟨ls.map (·.prov)⟩ = observe f m ⟨ls.map (·.prov)⟩ :=
  C08_scribble _ (allOwned_of_table tbl ls hall hs) m b' f

/-- The hypotheses are satisfiable by a non-trivial object: two owned leaves,
input buffer overwritten, an observer that concatenates everything ("re-encoding"). -/
example : observe (fun ls => ls.flatten) (scribble ⟨[1, 2, 3], fun c => [UInt8.ofNat c]⟩ [9, 9, 9]) ⟨[.owned 4, .owned 5]⟩
    = [4, 5] := by decide

end Dhcp.Props

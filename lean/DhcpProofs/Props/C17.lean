import DhcpProofs.Lemmas.V4ValSetGet
import DhcpProofs.Lemmas.V4ValSetGet2
import DhcpProofs.Lemmas.V4ValLabel
import DhcpProofs.Lemmas.V4ValDecoded
/-
  C17 — DHCPv4 typed accessors agree with the raw option bytes.
  Property theorems only; helper lemmas live in DhcpProofs/Lemmas/V4Val*.lean.

  `o : GOpts` is the packet's `Options` map (the accessors read nothing else
  of the packet); `o.get c` is `Options.Get(c)`: `none` when the key is
  missing or holds a nil slice ("absent"), `some v` when it holds the raw
  value `v` (of ANY length: no bound anywhere below).  `Val4.*` are the RFC
  interpretations of Dhcp/Spec/Val4.lean.  For each accessor `A`:
    C17_A_wf      spec accepts v with x        → A returns x
    C17_A_bad     spec rejects v               → A returns its documented default
    C17_A_absent  no value                     → A returns its documented default
    C17_set_get_A constructor then A returns the value, on the stated domain
  DomainSearch is stated against C19's relational spec (`Val4.searchList`).
  (`_bad` is omitted where the spec is total: strings and code lists.  For
  RelayAgentInfo `_wf`/`_bad` are `def …_full` + `_partial` + `_counterexample`:
  known finding acc-RelayAgentInfo-pad-end.)
-/
namespace Dhcp.V4
open Dhcp Dhcp.Spec


/-! ## single addresses (RFC 2132 §5.3, §9.1, §9.7): exactly 4 octets, else nil -/

theorem C17_BroadcastAddress_wf (o : GOpts) (v x : Bytes) (h : o.get Code.broadcastAddress = some v)
    (hs : Val4.ip v = some x) : Acc.broadcastAddress o = some x := getIP_wf _ o v h hs
theorem C17_BroadcastAddress_bad (o : GOpts) (v : Bytes) (h : o.get Code.broadcastAddress = some v)
    (hs : Val4.ip v = none) : Acc.broadcastAddress o = none := getIP_bad _ o v h hs
theorem C17_BroadcastAddress_absent (o : GOpts) (h : o.get Code.broadcastAddress = none) :
    Acc.broadcastAddress o = none := getIP_absent _ o h
/-- `OptBroadcastAddress(ip)` for an address with a 4-byte form (`To4() != nil`) reads back as that form. -/
theorem C17_set_get_BroadcastAddress (o : GOpts) (b x : Bytes) (hd : to4 b = some x) :
    Acc.broadcastAddress (o.update Code.broadcastAddress (ipToBytes (some b))) = some x :=
  getIP_set_get _ o b x hd

theorem C17_RequestedIPAddress_wf (o : GOpts) (v x : Bytes) (h : o.get Code.requestedIPAddress = some v)
    (hs : Val4.ip v = some x) : Acc.requestedIPAddress o = some x := getIP_wf _ o v h hs
theorem C17_RequestedIPAddress_bad (o : GOpts) (v : Bytes) (h : o.get Code.requestedIPAddress = some v)
    (hs : Val4.ip v = none) : Acc.requestedIPAddress o = none := getIP_bad _ o v h hs
theorem C17_RequestedIPAddress_absent (o : GOpts) (h : o.get Code.requestedIPAddress = none) :
    Acc.requestedIPAddress o = none := getIP_absent _ o h
/-- `OptRequestedIPAddress(ip)` for an address with a 4-byte form (`To4() != nil`) reads back as that form. -/
theorem C17_set_get_RequestedIPAddress (o : GOpts) (b x : Bytes) (hd : to4 b = some x) :
    Acc.requestedIPAddress (o.update Code.requestedIPAddress (ipToBytes (some b))) = some x :=
  getIP_set_get _ o b x hd

theorem C17_ServerIdentifier_wf (o : GOpts) (v x : Bytes) (h : o.get Code.serverIdentifier = some v)
    (hs : Val4.ip v = some x) : Acc.serverIdentifier o = some x := getIP_wf _ o v h hs
theorem C17_ServerIdentifier_bad (o : GOpts) (v : Bytes) (h : o.get Code.serverIdentifier = some v)
    (hs : Val4.ip v = none) : Acc.serverIdentifier o = none := getIP_bad _ o v h hs
theorem C17_ServerIdentifier_absent (o : GOpts) (h : o.get Code.serverIdentifier = none) :
    Acc.serverIdentifier o = none := getIP_absent _ o h
/-- `OptServerIdentifier(ip)` for an address with a 4-byte form (`To4() != nil`) reads back as that form. -/
theorem C17_set_get_ServerIdentifier (o : GOpts) (b x : Bytes) (hd : to4 b = some x) :
    Acc.serverIdentifier (o.update Code.serverIdentifier (ipToBytes (some b))) = some x :=
  getIP_set_get _ o b x hd

example : Val4.ip [192, 168, 0, 1] = some [192, 168, 0, 1] ∧ Val4.ip [192, 168, 0, 1, 5] = none ∧
    Val4.ip [192, 168, 0] = none := by decide
example : Acc.requestedIPAddress (GOpts.empty.update 50 (some [10, 0, 0, 1, 5])) = none := by decide


/-! ## address lists (RFC 2132 §3.5, §3.8, §8.3, §8.5): a positive multiple of 4 octets, else nil -/

theorem C17_Router_wf (o : GOpts) (v : Bytes) (xs : List Bytes) (h : o.get Code.router = some v)
    (hs : Val4.ips v = some xs) : Acc.router o = some (xs.map some) := getIPs_wf _ o v h hs
theorem C17_Router_bad (o : GOpts) (v : Bytes) (h : o.get Code.router = some v)
    (hs : Val4.ips v = none) : Acc.router o = none := getIPs_bad _ o v h hs
theorem C17_Router_absent (o : GOpts) (h : o.get Code.router = none) :
    Acc.router o = none := getIPs_absent _ o h
/-- `OptRouter(ips...)` for a non-empty list of addresses that all have a 4-byte form. -/
theorem C17_set_get_Router (o : GOpts) (bs : List Bytes) (hne : bs ≠ [])
    (hd : ∀ b ∈ bs, (to4 b).isSome) :
    Acc.router (o.update Code.router (ipsToBytes (bs.map some))) = some (bs.map to4) :=
  getIPs_set_get _ o bs hne hd

theorem C17_NTPServers_wf (o : GOpts) (v : Bytes) (xs : List Bytes) (h : o.get Code.ntpServers = some v)
    (hs : Val4.ips v = some xs) : Acc.ntpServers o = some (xs.map some) := getIPs_wf _ o v h hs
theorem C17_NTPServers_bad (o : GOpts) (v : Bytes) (h : o.get Code.ntpServers = some v)
    (hs : Val4.ips v = none) : Acc.ntpServers o = none := getIPs_bad _ o v h hs
theorem C17_NTPServers_absent (o : GOpts) (h : o.get Code.ntpServers = none) :
    Acc.ntpServers o = none := getIPs_absent _ o h
/-- `OptNTPServers(ips...)` for a non-empty list of addresses that all have a 4-byte form. -/
theorem C17_set_get_NTPServers (o : GOpts) (bs : List Bytes) (hne : bs ≠ [])
    (hd : ∀ b ∈ bs, (to4 b).isSome) :
    Acc.ntpServers (o.update Code.ntpServers (ipsToBytes (bs.map some))) = some (bs.map to4) :=
  getIPs_set_get _ o bs hne hd

theorem C17_NetBIOSNameServers_wf (o : GOpts) (v : Bytes) (xs : List Bytes) (h : o.get Code.netBIOSNameServers = some v)
    (hs : Val4.ips v = some xs) : Acc.netBIOSNameServers o = some (xs.map some) := getIPs_wf _ o v h hs
theorem C17_NetBIOSNameServers_bad (o : GOpts) (v : Bytes) (h : o.get Code.netBIOSNameServers = some v)
    (hs : Val4.ips v = none) : Acc.netBIOSNameServers o = none := getIPs_bad _ o v h hs
theorem C17_NetBIOSNameServers_absent (o : GOpts) (h : o.get Code.netBIOSNameServers = none) :
    Acc.netBIOSNameServers o = none := getIPs_absent _ o h
/-- `OptNetBIOSNameServers(ips...)` for a non-empty list of addresses that all have a 4-byte form. -/
theorem C17_set_get_NetBIOSNameServers (o : GOpts) (bs : List Bytes) (hne : bs ≠ [])
    (hd : ∀ b ∈ bs, (to4 b).isSome) :
    Acc.netBIOSNameServers (o.update Code.netBIOSNameServers (ipsToBytes (bs.map some))) = some (bs.map to4) :=
  getIPs_set_get _ o bs hne hd

theorem C17_DNS_wf (o : GOpts) (v : Bytes) (xs : List Bytes) (h : o.get Code.dns = some v)
    (hs : Val4.ips v = some xs) : Acc.dns o = some (xs.map some) := getIPs_wf _ o v h hs
theorem C17_DNS_bad (o : GOpts) (v : Bytes) (h : o.get Code.dns = some v)
    (hs : Val4.ips v = none) : Acc.dns o = none := getIPs_bad _ o v h hs
theorem C17_DNS_absent (o : GOpts) (h : o.get Code.dns = none) :
    Acc.dns o = none := getIPs_absent _ o h
/-- `OptDNS(ips...)` for a non-empty list of addresses that all have a 4-byte form. -/
theorem C17_set_get_DNS (o : GOpts) (bs : List Bytes) (hne : bs ≠ [])
    (hd : ∀ b ∈ bs, (to4 b).isSome) :
    Acc.dns (o.update Code.dns (ipsToBytes (bs.map some))) = some (bs.map to4) :=
  getIPs_set_get _ o bs hne hd

example : Val4.ips [10, 0, 0, 1, 10, 0, 0, 2] = some [[10, 0, 0, 1], [10, 0, 0, 2]] ∧
    Val4.ips [10, 0, 0, 1, 10, 0, 0] = none ∧ Val4.ips [] = none := by decide
example : Acc.dns (GOpts.empty.update 6 (some [8, 8, 8, 8, 8, 8, 4])) = none := by decide


/-! ## vendor class identifier (RFC 2132 §9.13): opaque octets, returned exactly
as sent (trailing NULs included: option 60 is not NVT ASCII); absent reads as "" -/

theorem C17_ClassIdentifier_wf (o : GOpts) (v x : Bytes) (h : o.get Code.classIdentifier = some v)
    (hs : Val4.str v = some x) : Acc.classIdentifier o = x := getString_wf _ o v h hs
theorem C17_ClassIdentifier_absent (o : GOpts) (h : o.get Code.classIdentifier = none) :
    Acc.classIdentifier o = [] := getString_absent _ o h
theorem C17_set_get_ClassIdentifier (o : GOpts) (s : Bytes) :
    Acc.classIdentifier (o.update Code.classIdentifier (stringToBytes s)) = s := getString_set_get _ o s
/-- precisely: `ClassIdentifier()` is the raw value, whatever its octets -/
theorem C17_ClassIdentifier_raw (o : GOpts) (v : Bytes) (h : o.get Code.classIdentifier = some v) :
    Acc.classIdentifier o = v := getString_wf _ o v h rfl

example : Val4.str [80, 88, 69, 0, 0] = some [80, 88, 69, 0, 0] := rfl
example : Acc.classIdentifier (GOpts.empty.update 60 (some [80, 88, 69, 0])) = [80, 88, 69, 0] := by decide

/-! ## NVT-ASCII strings (RFC 2132 §2: trailing NULs are deleted by the receiver):
host name 12, domain name 15, root path 17, message 56, TFTP server name 66,
boot file name 67; absent reads as "" -/

theorem C17_DomainName_wf (o : GOpts) (v x : Bytes) (h : o.get Code.domainName = some v)
    (hs : Val4.strTrim v = some x) : Acc.domainName o = x := getStringTrim_wf _ o v h hs
theorem C17_DomainName_absent (o : GOpts) (h : o.get Code.domainName = none) :
    Acc.domainName o = [] := getStringTrim_absent _ o h
/-- `OptDomainName(s)` for a string that does not end in NUL. -/
theorem C17_set_get_DomainName (o : GOpts) (s : Bytes) (hd : s.getLast? ≠ some 0) :
    Acc.domainName (o.update Code.domainName (stringToBytes s)) = s := getStringTrim_set_get _ o s hd

theorem C17_RootPath_wf (o : GOpts) (v x : Bytes) (h : o.get Code.rootPath = some v)
    (hs : Val4.strTrim v = some x) : Acc.rootPath o = x := getStringTrim_wf _ o v h hs
theorem C17_RootPath_absent (o : GOpts) (h : o.get Code.rootPath = none) :
    Acc.rootPath o = [] := getStringTrim_absent _ o h
/-- `OptRootPath(s)` for a string that does not end in NUL. -/
theorem C17_set_get_RootPath (o : GOpts) (s : Bytes) (hd : s.getLast? ≠ some 0) :
    Acc.rootPath (o.update Code.rootPath (stringToBytes s)) = s := getStringTrim_set_get _ o s hd

theorem C17_Message_wf (o : GOpts) (v x : Bytes) (h : o.get Code.message = some v)
    (hs : Val4.strTrim v = some x) : Acc.message o = x := getStringTrim_wf _ o v h hs
theorem C17_Message_absent (o : GOpts) (h : o.get Code.message = none) :
    Acc.message o = [] := getStringTrim_absent _ o h
/-- `OptMessage(s)` for a string that does not end in NUL. -/
theorem C17_set_get_Message (o : GOpts) (s : Bytes) (hd : s.getLast? ≠ some 0) :
    Acc.message (o.update Code.message (stringToBytes s)) = s := getStringTrim_set_get _ o s hd

theorem C17_HostName_wf (o : GOpts) (v x : Bytes) (h : o.get Code.hostName = some v)
    (hs : Val4.strTrim v = some x) : Acc.hostName o = x := getStringTrim_wf _ o v h hs
theorem C17_HostName_absent (o : GOpts) (h : o.get Code.hostName = none) :
    Acc.hostName o = [] := getStringTrim_absent _ o h
/-- `OptHostName(s)` for a string that does not end in NUL. -/
theorem C17_set_get_HostName (o : GOpts) (s : Bytes) (hd : s.getLast? ≠ some 0) :
    Acc.hostName (o.update Code.hostName (stringToBytes s)) = s := getStringTrim_set_get _ o s hd

theorem C17_BootFileNameOption_wf (o : GOpts) (v x : Bytes) (h : o.get Code.bootfileName = some v)
    (hs : Val4.strTrim v = some x) : Acc.bootFileNameOption o = x := getStringTrim_wf _ o v h hs
theorem C17_BootFileNameOption_absent (o : GOpts) (h : o.get Code.bootfileName = none) :
    Acc.bootFileNameOption o = [] := getStringTrim_absent _ o h
/-- `OptBootFileName(s)` for a string that does not end in NUL. -/
theorem C17_set_get_BootFileNameOption (o : GOpts) (s : Bytes) (hd : s.getLast? ≠ some 0) :
    Acc.bootFileNameOption (o.update Code.bootfileName (stringToBytes s)) = s := getStringTrim_set_get _ o s hd

theorem C17_TFTPServerName_wf (o : GOpts) (v x : Bytes) (h : o.get Code.tftpServerName = some v)
    (hs : Val4.strTrim v = some x) : Acc.tftpServerName o = x := getStringTrim_wf _ o v h hs
theorem C17_TFTPServerName_absent (o : GOpts) (h : o.get Code.tftpServerName = none) :
    Acc.tftpServerName o = [] := getStringTrim_absent _ o h
/-- `OptTFTPServerName(s)` for a string that does not end in NUL. -/
theorem C17_set_get_TFTPServerName (o : GOpts) (s : Bytes) (hd : s.getLast? ≠ some 0) :
    Acc.tftpServerName (o.update Code.tftpServerName (stringToBytes s)) = s := getStringTrim_set_get _ o s hd

example : Val4.strTrim [104, 0, 105, 0, 0] = some [104, 0, 105] ∧ Val4.strTrim [0, 0] = some [] := by decide
example : Acc.hostName (GOpts.empty.update 12 (some [104, 105, 0, 0])) = [104, 105] := by decide
/-- the input of the fixed finding (option 15 = 'a' 00) now reads "a" -/
example : Acc.domainName (GOpts.empty.update 15 (some [97, 0])) = [97] := by decide

/-! ## durations (RFC 2132 §9.2, §9.11, §9.12): exactly 4 octets of seconds, else the caller's default -/

theorem C17_IPAddressLeaseTime_wf (o : GOpts) (v : Bytes) (x dflt : Int) (h : o.get Code.ipAddressLeaseTime = some v)
    (hs : Val4.seconds v = some x) : Acc.ipAddressLeaseTime o dflt = x := getDuration_wf _ o v dflt h hs
theorem C17_IPAddressLeaseTime_bad (o : GOpts) (v : Bytes) (dflt : Int) (h : o.get Code.ipAddressLeaseTime = some v)
    (hs : Val4.seconds v = none) : Acc.ipAddressLeaseTime o dflt = dflt := getDuration_bad _ o v dflt h hs
theorem C17_IPAddressLeaseTime_absent (o : GOpts) (dflt : Int) (h : o.get Code.ipAddressLeaseTime = none) :
    Acc.ipAddressLeaseTime o dflt = dflt := getDuration_absent _ o dflt h
/-- `OptIPAddressLeaseTime(d)` for a whole number of seconds below 2^32. -/
theorem C17_set_get_IPAddressLeaseTime (o : GOpts) (s : Nat) (dflt : Int) (hd : s < 4294967296) :
    Acc.ipAddressLeaseTime (o.update Code.ipAddressLeaseTime (durationToBytes ((s : Int) * second))) dflt = (s : Int) * second :=
  getDuration_set_get _ o s dflt hd

theorem C17_IPAddressRenewalTime_wf (o : GOpts) (v : Bytes) (x dflt : Int) (h : o.get Code.renewalTime = some v)
    (hs : Val4.seconds v = some x) : Acc.ipAddressRenewalTime o dflt = x := getDuration_wf _ o v dflt h hs
theorem C17_IPAddressRenewalTime_bad (o : GOpts) (v : Bytes) (dflt : Int) (h : o.get Code.renewalTime = some v)
    (hs : Val4.seconds v = none) : Acc.ipAddressRenewalTime o dflt = dflt := getDuration_bad _ o v dflt h hs
theorem C17_IPAddressRenewalTime_absent (o : GOpts) (dflt : Int) (h : o.get Code.renewalTime = none) :
    Acc.ipAddressRenewalTime o dflt = dflt := getDuration_absent _ o dflt h
/-- `OptRenewTimeValue(d)` for a whole number of seconds below 2^32. -/
theorem C17_set_get_IPAddressRenewalTime (o : GOpts) (s : Nat) (dflt : Int) (hd : s < 4294967296) :
    Acc.ipAddressRenewalTime (o.update Code.renewalTime (durationToBytes ((s : Int) * second))) dflt = (s : Int) * second :=
  getDuration_set_get _ o s dflt hd

theorem C17_IPAddressRebindingTime_wf (o : GOpts) (v : Bytes) (x dflt : Int) (h : o.get Code.rebindingTime = some v)
    (hs : Val4.seconds v = some x) : Acc.ipAddressRebindingTime o dflt = x := getDuration_wf _ o v dflt h hs
theorem C17_IPAddressRebindingTime_bad (o : GOpts) (v : Bytes) (dflt : Int) (h : o.get Code.rebindingTime = some v)
    (hs : Val4.seconds v = none) : Acc.ipAddressRebindingTime o dflt = dflt := getDuration_bad _ o v dflt h hs
theorem C17_IPAddressRebindingTime_absent (o : GOpts) (dflt : Int) (h : o.get Code.rebindingTime = none) :
    Acc.ipAddressRebindingTime o dflt = dflt := getDuration_absent _ o dflt h
/-- `OptRebindingTimeValue(d)` for a whole number of seconds below 2^32. -/
theorem C17_set_get_IPAddressRebindingTime (o : GOpts) (s : Nat) (dflt : Int) (hd : s < 4294967296) :
    Acc.ipAddressRebindingTime (o.update Code.rebindingTime (durationToBytes ((s : Int) * second))) dflt = (s : Int) * second :=
  getDuration_set_get _ o s dflt hd

example : Val4.seconds [0, 0, 14, 16] = some 3600000000000 ∧ Val4.seconds [0, 14, 16] = none ∧
    Val4.seconds [0, 0, 0, 14, 16] = none := by decide
example : Acc.ipAddressLeaseTime (GOpts.empty.update 51 (some [0, 14, 16])) 77 = 77 := by decide

/-! ## IPv6-only preferred (RFC 8925 §3.1): exactly 4 octets of seconds; `(0, false)` otherwise -/

theorem C17_IPv6OnlyPreferred_wf (o : GOpts) (v : Bytes) (x : Int)
    (h : o.get Code.ipv6OnlyPreferred = some v) (hs : Val4.seconds v = some x) :
    Acc.ipv6OnlyPreferred o = (x, true) := by
  simp [Acc.ipv6OnlyPreferred, h, durationFromBytes_eq, hs]
theorem C17_IPv6OnlyPreferred_bad (o : GOpts) (v : Bytes)
    (h : o.get Code.ipv6OnlyPreferred = some v) (hs : Val4.seconds v = none) :
    Acc.ipv6OnlyPreferred o = (0, false) := by
  simp [Acc.ipv6OnlyPreferred, h, durationFromBytes_eq, hs]
theorem C17_IPv6OnlyPreferred_absent (o : GOpts) (h : o.get Code.ipv6OnlyPreferred = none) :
    Acc.ipv6OnlyPreferred o = (0, false) := by
  simp [Acc.ipv6OnlyPreferred, h]
/-- `OptIPv6OnlyPreferred(d)` for a whole number of seconds below 2^32. -/
theorem C17_set_get_IPv6OnlyPreferred (o : GOpts) (s : Nat) (hd : s < 4294967296) :
    Acc.ipv6OnlyPreferred (o.update Code.ipv6OnlyPreferred (durationToBytes ((s : Int) * second))) =
      ((s : Int) * second, true) := by
  simp [Acc.ipv6OnlyPreferred, GOpts.get_update_same, durationToBytes_dom hd, durationFromBytes_eq,
    seconds_enc hd]

/-! ## maximum message size (RFC 2132 §9.10): exactly 2 octets; `(0, error)` otherwise -/

theorem C17_MaxMessageSize_wf (o : GOpts) (v : Bytes) (x : Nat)
    (h : o.get Code.maxMessageSize = some v) (hs : Val4.u16 v = some x) :
    Acc.maxMessageSize o = .ok x := getUint16_wf _ o v h hs
theorem C17_MaxMessageSize_bad (o : GOpts) (v : Bytes)
    (h : o.get Code.maxMessageSize = some v) (hs : Val4.u16 v = none) :
    Acc.maxMessageSize o = .err := getUint16_bad _ o v h hs
theorem C17_MaxMessageSize_absent (o : GOpts) (h : o.get Code.maxMessageSize = none) :
    Acc.maxMessageSize o = .err := getUint16_absent _ o h
theorem C17_set_get_MaxMessageSize (o : GOpts) (n : Nat) (hd : n < 65536) :
    Acc.maxMessageSize (o.update Code.maxMessageSize (uint16ToBytes n)) = .ok n := by
  simp [Acc.maxMessageSize, getUint16, GOpts.get_update_same, uint16ToBytes, uint16FromBytes_eq, u16_be16 hd]

example : Val4.u16 [5, 220] = some 1500 ∧ Val4.u16 [5] = none ∧ Val4.u16 [5, 220, 0] = none := by decide

/-! ## single octets: auto-configure (RFC 2563 §2) and message type (RFC 2132 §9.6) -/

theorem C17_AutoConfigure_wf (o : GOpts) (v : Bytes) (x : UInt8)
    (h : o.get Code.autoConfigure = some v) (hs : Val4.u8 v = some x) :
    Acc.autoConfigure o = (x, true) := by
  simp [Acc.autoConfigure, getByte_eq, h, hs]
theorem C17_AutoConfigure_bad (o : GOpts) (v : Bytes)
    (h : o.get Code.autoConfigure = some v) (hs : Val4.u8 v = none) :
    Acc.autoConfigure o = (0, false) := by
  simp [Acc.autoConfigure, getByte_eq, h, hs]
theorem C17_AutoConfigure_absent (o : GOpts) (h : o.get Code.autoConfigure = none) :
    Acc.autoConfigure o = (0, false) := by
  simp [Acc.autoConfigure, getByte_eq, h]
theorem C17_set_get_AutoConfigure (o : GOpts) (b : UInt8) :
    Acc.autoConfigure (o.update Code.autoConfigure (some [b])) = (b, true) := by
  simp [Acc.autoConfigure, getByte, GOpts.get_update_same]

theorem C17_MessageType_wf (o : GOpts) (v : Bytes) (x : UInt8)
    (h : o.get Code.messageType = some v) (hs : Val4.u8 v = some x) :
    Acc.messageType o = x := by
  simp [Acc.messageType, h, messageTypeFromBytes_eq, hs]
/-- malformed → `MessageTypeNone` (= 0) -/
theorem C17_MessageType_bad (o : GOpts) (v : Bytes)
    (h : o.get Code.messageType = some v) (hs : Val4.u8 v = none) :
    Acc.messageType o = 0 := by
  simp [Acc.messageType, h, messageTypeFromBytes_eq, hs]
theorem C17_MessageType_absent (o : GOpts) (h : o.get Code.messageType = none) :
    Acc.messageType o = 0 := by
  simp [Acc.messageType, h]
theorem C17_set_get_MessageType (o : GOpts) (b : UInt8) :
    Acc.messageType (o.update Code.messageType (some [b])) = b := by
  simp [Acc.messageType, GOpts.get_update_same, messageTypeFromBytes_eq, Val4.u8]

example : Val4.u8 [5] = some 5 ∧ Val4.u8 [] = none ∧ Val4.u8 [5, 1] = none := by decide

/-! ## subnet mask (RFC 2132 §3.3): exactly 4 octets, else nil -/

theorem C17_SubnetMask_wf (o : GOpts) (v x : Bytes)
    (h : o.get Code.subnetMask = some v) (hs : Val4.mask v = some x) :
    Acc.subnetMask o = some x := by
  simp [Acc.subnetMask, h, maskFromBytes_eq, hs]
theorem C17_SubnetMask_bad (o : GOpts) (v : Bytes)
    (h : o.get Code.subnetMask = some v) (hs : Val4.mask v = none) :
    Acc.subnetMask o = none := by
  simp [Acc.subnetMask, h, maskFromBytes_eq, hs]
theorem C17_SubnetMask_absent (o : GOpts) (h : o.get Code.subnetMask = none) :
    Acc.subnetMask o = none := by
  simp [Acc.subnetMask, h]
/-- `OptSubnetMask(m)` for a 4-byte mask. -/
theorem C17_set_get_SubnetMask (o : GOpts) (m : Bytes) (hd : m.length = 4) :
    Acc.subnetMask (o.update Code.subnetMask (maskToBytes (some m))) = some m := by
  simp [Acc.subnetMask, GOpts.get_update_same, maskToBytes, hd, maskFromBytes_eq, mask_len4 hd]

example : Val4.mask [255, 255, 255, 0] = some [255, 255, 255, 0] ∧ Val4.mask [255, 255, 255] = none := by decide

/-! ## classless static routes (RFC 3442): descriptors tiling the value, width ≤ 32, else nil -/

theorem C17_ClasslessStaticRoute_wf (o : GOpts) (v : Bytes) (xs : List Val4.Route)
    (h : o.get Code.classlessStaticRoute = some v) (hs : Val4.routes v = some xs) :
    Acc.classlessStaticRoute o = some (xs.map ofSpecRoute) := by
  match v with
  | [] => simp [Val4.routes] at hs
  | w :: r =>
    have hs' : Val4.routeList (w :: r) = some xs := hs
    have hne : xs.map ofSpecRoute ≠ [] := by simpa using routeList_cons_ne_nil hs'
    have hg : goSlice (xs.map ofSpecRoute) = some (xs.map ofSpecRoute) := by
      cases hm : xs.map ofSpecRoute with
      | nil => exact absurd hm hne
      | cons _ _ => rfl
    simp [Acc.classlessStaticRoute, h, routesFromBytes_eq, hs', hg]
theorem C17_ClasslessStaticRoute_bad (o : GOpts) (v : Bytes)
    (h : o.get Code.classlessStaticRoute = some v) (hs : Val4.routes v = none) :
    Acc.classlessStaticRoute o = none := by
  match v with
  | [] => simp [Acc.classlessStaticRoute, h, routesFromBytes_eq, Val4.routeList, goSlice]
  | w :: r =>
    have hs' : Val4.routeList (w :: r) = none := hs
    simp [Acc.classlessStaticRoute, h, routesFromBytes_eq, hs']
theorem C17_ClasslessStaticRoute_absent (o : GOpts) (h : o.get Code.classlessStaticRoute = none) :
    Acc.classlessStaticRoute o = none := by
  simp [Acc.classlessStaticRoute, h]
/-- `OptClasslessStaticRoute(routes...)` for a non-empty list of routes of the
domain `RouteOK` (4-byte destination and router, `CIDRMask(width ≤ 32, 32)`,
no destination octet set beyond the significant ones): marshalling does not
panic and the routes read back. -/
theorem C17_set_get_ClasslessStaticRoute (o : GOpts) (rs : List Route) (hne : rs ≠ [])
    (hd : ∀ r ∈ rs, RouteOK r) :
    ∃ raw, routesToBytes (rs.map Route.toArg) = .ok raw ∧
      Acc.classlessStaticRoute (o.update Code.classlessStaticRoute raw) = some rs :=
  routes_set_get o rs hne hd

example : Val4.routes [24, 10, 0, 1, 192, 168, 0, 1, 0, 10, 0, 0, 254] =
    some [⟨[10, 0, 1, 0], 24, [192, 168, 0, 1]⟩, ⟨[0, 0, 0, 0], 0, [10, 0, 0, 254]⟩] := by
  simp [Val4.routes, Val4.routeList]
example : Val4.routes [33, 10, 0, 1, 0, 1, 192, 168, 0, 1] = none ∧
    Val4.routes [24, 10, 0, 1, 192, 168, 0] = none := by
  simp [Val4.routes, Val4.routeList]
example : RouteOK ⟨[10, 0, 1, 0], 24, some [192, 168, 0, 1]⟩ :=
  ⟨rfl, by decide, ⟨_, rfl, rfl⟩, by decide⟩

/-! ## parameter request list (RFC 2132 §9.8): one code per octet -/

theorem C17_ParameterRequestList_wf (o : GOpts) (v : Bytes) (xs : List UInt8)
    (h : o.get Code.parameterRequestList = some v) (hs : Val4.codes v = some xs) :
    Acc.parameterRequestList o = some xs := by
  simp [Acc.parameterRequestList, h, codesFromBytes_eq, hs]
theorem C17_ParameterRequestList_absent (o : GOpts) (h : o.get Code.parameterRequestList = none) :
    Acc.parameterRequestList o = none := by
  simp [Acc.parameterRequestList, h]
/-- `OptParameterRequestList(codes...)` for a non-empty list. -/
theorem C17_set_get_ParameterRequestList (o : GOpts) (cs : List UInt8) (hd : cs ≠ []) :
    Acc.parameterRequestList (o.update Code.parameterRequestList (codesToBytes cs)) = some cs := by
  simp [Acc.parameterRequestList, GOpts.get_update_same, codesToBytes, goBuf_ne_nil hd,
    codesFromBytes_eq, Val4.codes]

example : Val4.codes [1, 3, 6, 15] = some [1, 3, 6, 15] := rfl

/-! ## relay agent information (RFC 3046)

`Val4.relay` is RFC 3046 read as written: SubOpt/Len/Value tuples tiling the
value exactly, no pad and no end code.  The library parses option 82 with the
options-field grammar (octet 0 in code position = pad, 255 = end), so the
statements against the RFC are FALSE of model and code: known finding
`acc-RelayAgentInfo-pad-end` (not fixed in /repo: relay agents may pad).  The
full statements are kept as `def`s, with the proved restriction to values that
have no 0/255 octet in code position, the counterexamples (replayed on the
real code, `corpus/v4acc.txt`), and the exact characterisation of what the
accessor computes (`C17_RelayAgentInfo_padend_*`).  No other typed accessor of
`*DHCPv4` parses sub-options with `Options.FromBytes` (vendor-specific
information, option 43, has no typed accessor). -/

/-- RFC 3046: a well-formed field is returned as its code ↦ value map -/
def C17_RelayAgentInfo_wf_full : Prop :=
  ∀ (o : GOpts) (v : Bytes) (m : UInt8 → Option Bytes),
    o.get Code.relayAgentInfo = some v → Val4.relay v = some m → Acc.relayAgentInfo o = some ⟨m⟩

/-- RFC 3046: a field that is not a sequence of complete tuples gives nil -/
def C17_RelayAgentInfo_bad_full : Prop :=
  ∀ (o : GOpts) (v : Bytes),
    o.get Code.relayAgentInfo = some v → Val4.relay v = none → Acc.relayAgentInfo o = none

theorem C17_RelayAgentInfo_wf_partial (o : GOpts) (v : Bytes) (m : UInt8 → Option Bytes)
    (hc : Val4.noPadEndCodes v = true)
    (h : o.get Code.relayAgentInfo = some v) (hs : Val4.relay v = some m) :
    Acc.relayAgentInfo o = some ⟨m⟩ := by
  rw [← relayPadEnd_eq_strict v hc] at hs
  simp [Acc.relayAgentInfo, h, relayFromBytes_eq, hs]

theorem C17_RelayAgentInfo_bad_partial (o : GOpts) (v : Bytes)
    (hc : Val4.noPadEndCodes v = true)
    (h : o.get Code.relayAgentInfo = some v) (hs : Val4.relay v = none) :
    Acc.relayAgentInfo o = none := by
  rw [← relayPadEnd_eq_strict v hc] at hs
  simp [Acc.relayAgentInfo, h, relayFromBytes_eq, hs]

/-- `00 01 07`: RFC 3046 reads sub-option 0 = [7]; the accessor skips the 0 as
padding, then finds code 1 announcing 7 octets and returns nil. -/
theorem C17_RelayAgentInfo_wf_counterexample : ¬ C17_RelayAgentInfo_wf_full := by
  intro hfull
  have hs : Val4.relay [0, 1, 7] = some (Val4.subOptionValue [(0, [7])]) := by
    simp [Val4.relay, Val4.subOptions]
  have h := hfull (GOpts.empty.update Code.relayAgentInfo (some [0, 1, 7])) [0, 1, 7] _
    (GOpts.get_update_same _ _ _) hs
  simp [Acc.relayAgentInfo, GOpts.get_update_same, relayFromBytes_eq, Val4.relayPadEnd,
    Val4.subOptionsPadEnd] at h

/-- `01 02 'a' 'b' ff 09 09`: the tuple that starts with code 255 announces 9
octets and has 1; the accessor returns the partial map {1:"ab"} instead of nil
(everything after a 255 octet in code position is ignored). -/
theorem C17_RelayAgentInfo_bad_counterexample : ¬ C17_RelayAgentInfo_bad_full := by
  intro hfull
  have h := hfull (GOpts.empty.update Code.relayAgentInfo (some [1, 2, 97, 98, 255, 9, 9]))
    [1, 2, 97, 98, 255, 9, 9] (GOpts.get_update_same _ _ _)
    (by simp [Val4.relay, Val4.subOptions])
  simp [Acc.relayAgentInfo, GOpts.get_update_same, relayFromBytes_eq, Val4.relayPadEnd,
    Val4.subOptionsPadEnd] at h

/-- what the accessor computes, exactly: the options-field grammar's map … -/
theorem C17_RelayAgentInfo_padend_wf (o : GOpts) (v : Bytes) (m : UInt8 → Option Bytes)
    (h : o.get Code.relayAgentInfo = some v) (hs : Val4.relayPadEnd v = some m) :
    Acc.relayAgentInfo o = some ⟨m⟩ := by
  simp [Acc.relayAgentInfo, h, relayFromBytes_eq, hs]
/-- … and nil on every value that grammar rejects (a code without its length
octet — F9, fixed —, a value running past the end) -/
theorem C17_RelayAgentInfo_padend_bad (o : GOpts) (v : Bytes)
    (h : o.get Code.relayAgentInfo = some v) (hs : Val4.relayPadEnd v = none) :
    Acc.relayAgentInfo o = none := by
  simp [Acc.relayAgentInfo, h, relayFromBytes_eq, hs]
theorem C17_RelayAgentInfo_absent (o : GOpts) (h : o.get Code.relayAgentInfo = none) :
    Acc.relayAgentInfo o = none := by
  simp [Acc.relayAgentInfo, h]
/-- `OptRelayAgentInfo(subopts...)` for a non-empty set of sub-options with
codes other than 0 and 255, values of any length (> 255 octets are split and
re-joined). -/
theorem C17_set_get_RelayAgentInfo (o : GOpts) (m : Opts) (h0 : m.f 0 = none) (h255 : m.f 255 = none)
    (hne : ∃ k, (m.f k).isSome) :
    Acc.relayAgentInfo (o.update Code.relayAgentInfo (relayToBytes m)) = some m :=
  relay_set_get o m h0 h255 hne

/-- the value of §7 F9 (`[1 2 'a' 'b' 2]`, a code without its length octet) is
malformed and inside the partial theorems' domain … -/
example : Val4.relay [1, 2, 97, 98, 2] = none ∧ Val4.noPadEndCodes [1, 2, 97, 98, 2] = true := by
  simp [Val4.relay, Val4.subOptions, Val4.noPadEndCodes]
/-- … and so is a complete list, read as a map -/
example : Val4.subOptions [1, 2, 97, 98, 2, 1, 99] = some [(1, [97, 98]), (2, [99])] ∧
    Val4.noPadEndCodes [1, 2, 97, 98, 2, 1, 99] = true := by
  simp [Val4.subOptions, Val4.noPadEndCodes]

/-! ## user class (RFC 3004): length-prefixed classes tiling the value; a value
that is not RFC 3004 is returned whole as a single class (documented
fallback for clients that send the bare class) -/

theorem C17_UserClass_wf (o : GOpts) (v : Bytes) (xs : List Bytes)
    (h : o.get Code.userClass = some v) (hs : Val4.userClasses v = some xs) :
    Acc.userClass o = some xs := by
  simp [Acc.userClass, h, stringsFromBytes_eq, hs]
theorem C17_UserClass_bad (o : GOpts) (v : Bytes)
    (h : o.get Code.userClass = some v) (hs : Val4.userClasses v = none) :
    Acc.userClass o = some [v] := by
  simp [Acc.userClass, h, stringsFromBytes_eq, hs, getString]
theorem C17_UserClass_absent (o : GOpts) (h : o.get Code.userClass = none) :
    Acc.userClass o = none := by
  simp [Acc.userClass, h]
/-- `OptRFC3004UserClass(classes)` for a non-empty list of classes of 1..255 octets. -/
theorem C17_set_get_UserClass (o : GOpts) (xs : List Bytes) (hne : xs ≠ [])
    (hd : ∀ x ∈ xs, 0 < x.length ∧ x.length < 256) :
    Acc.userClass (o.update Code.userClass (stringsToBytes xs)) = some xs := by
  have henc := classes_enc xs hd
  have hne' : xs.flatMap (fun s => UInt8.ofNat s.length :: s) ≠ [] := by
    cases xs with
    | nil => exact absurd rfl hne
    | cons x xs => simp
  have hs : Val4.userClasses (xs.flatMap (fun s => UInt8.ofNat s.length :: s)) = some xs := by
    unfold Val4.userClasses
    split
    · rename_i heq; exact absurd heq hne'
    · exact henc
  simp [Acc.userClass, GOpts.get_update_same, stringsToBytes, goBuf_ne_nil hne', stringsFromBytes_eq, hs]
/-- `OptUserClass(s)` (the bare class) for a string that is not itself a valid
RFC 3004 list. -/
theorem C17_set_get_UserClass_bare (o : GOpts) (s : Bytes) (hd : Val4.userClasses s = none) :
    Acc.userClass (o.update Code.userClass (stringToBytes s)) = some [s] := by
  simp [Acc.userClass, GOpts.get_update_same, stringToBytes, stringsFromBytes_eq, hd, getString]

example : Val4.userClasses [1, 97, 2, 98, 99] = some [[97], [98, 99]] ∧
    Val4.userClasses [1, 97, 0, 98] = none ∧ Val4.userClasses [3, 97, 98] = none ∧
    Val4.userClasses [] = none := by
  simp [Val4.userClasses, Val4.classes]

/-! ## vendor-identifying vendor class (RFC 3925), else nil -/

theorem C17_VIVC_wf (o : GOpts) (v : Bytes) (xs : List (Nat × Bytes))
    (h : o.get Code.vivc = some v) (hs : Val4.vivc v = some xs) :
    Acc.vivc o = some (xs.map ofSpecVIVC) := by
  match v with
  | [] => simp [Val4.vivc] at hs
  | a :: r =>
    have hs' : Val4.vendorClasses (a :: r) = some xs := hs
    have hne : xs.map ofSpecVIVC ≠ [] := by simpa using vendorClasses_cons_ne_nil hs'
    have hg : goSlice (xs.map ofSpecVIVC) = some (xs.map ofSpecVIVC) := by
      cases hm : xs.map ofSpecVIVC with
      | nil => exact absurd hm hne
      | cons _ _ => rfl
    simp [Acc.vivc, h, vivcFromBytes_eq, hs', hg]
theorem C17_VIVC_bad (o : GOpts) (v : Bytes)
    (h : o.get Code.vivc = some v) (hs : Val4.vivc v = none) :
    Acc.vivc o = none := by
  match v with
  | [] => simp [Acc.vivc, h, vivcFromBytes_eq, Val4.vendorClasses, goSlice]
  | a :: r =>
    have hs' : Val4.vendorClasses (a :: r) = none := hs
    simp [Acc.vivc, h, vivcFromBytes_eq, hs']
theorem C17_VIVC_absent (o : GOpts) (h : o.get Code.vivc = none) : Acc.vivc o = none := by
  simp [Acc.vivc, h]
/-- `OptVIVC(ids...)` for a non-empty list with 32-bit enterprise numbers and
data of at most 255 octets. -/
theorem C17_set_get_VIVC (o : GOpts) (ids : List VIVCId) (hne : ids ≠ [])
    (hd : ∀ i ∈ ids, i.entID < 4294967296 ∧ i.data.length < 256) :
    Acc.vivc (o.update Code.vivc (vivcToBytes ids)) = some ids := by
  have henc := vendorClasses_enc ids hd
  have hne' : ids.flatMap (fun i => be32 i.entID ++ UInt8.ofNat i.data.length :: i.data) ≠ [] := by
    cases ids with
    | nil => exact absurd rfl hne
    | cons x xs => simp [be32]
  have hmap : (ids.map (fun i => (i.entID, i.data))).map ofSpecVIVC = ids := by
    rw [List.map_map]
    conv => rhs; rw [← List.map_id ids]
    apply List.map_congr_left
    intro i _; rfl
  have hg : goSlice ids = some ids := by
    cases ids with
    | nil => exact absurd rfl hne
    | cons _ _ => rfl
  simp [Acc.vivc, GOpts.get_update_same, vivcToBytes, goBuf_ne_nil hne', vivcFromBytes_eq, henc, hmap, hg]

example : Val4.vivc [0, 0, 0, 9, 2, 97, 98, 0, 0, 1, 55, 0] = some [(9, [97, 98]), (311, [])] ∧
    Val4.vivc [0, 0, 0, 9, 3, 97, 98] = none ∧ Val4.vivc [0, 0, 0, 9] = none := by
  simp [Val4.vivc, Val4.vendorClasses]

/-! ## client system architecture (RFC 4578 §2.1): one or more 16-bit types, else nil -/

theorem C17_ClientArch_wf (o : GOpts) (v : Bytes) (xs : List Nat)
    (h : o.get Code.clientArch = some v) (hs : Val4.archs v = some xs) :
    Acc.clientArch o = some xs := by
  simp [Acc.clientArch, h, archsFromBytes_eq, hs]
theorem C17_ClientArch_bad (o : GOpts) (v : Bytes)
    (h : o.get Code.clientArch = some v) (hs : Val4.archs v = none) :
    Acc.clientArch o = none := by
  simp [Acc.clientArch, h, archsFromBytes_eq, hs]
theorem C17_ClientArch_absent (o : GOpts) (h : o.get Code.clientArch = none) :
    Acc.clientArch o = none := by
  simp [Acc.clientArch, h]
/-- `OptClientArch(archs...)` for a non-empty list of 16-bit values. -/
theorem C17_set_get_ClientArch (o : GOpts) (as : List Nat) (hne : as ≠ [])
    (hd : ∀ a ∈ as, a < 65536) :
    Acc.clientArch (o.update Code.clientArch (archsToBytes as)) = some as := by
  have henc := pairs_enc as hd
  have hne' : as.flatMap be16 ≠ [] := by
    cases as with
    | nil => exact absurd rfl hne
    | cons x xs => simp [be16]
  have hs : Val4.archs (as.flatMap be16) = some as := by
    unfold Val4.archs
    split
    · rename_i heq; exact absurd heq hne'
    · exact henc
  simp [Acc.clientArch, GOpts.get_update_same, archsToBytes, goBuf_ne_nil hne', archsFromBytes_eq, hs]

example : Val4.archs [0, 7, 0, 9] = some [7, 9] ∧ Val4.archs [0, 7, 0] = none ∧ Val4.archs [] = none := by
  decide

/-! ## domain search list (RFC 3397: RFC 1035 names with compression), else nil

`Val4.searchList v ns` is the declarative RFC reading of C19's spec
(`Spec.Name.DecodesTo`); the accessor returns a `*Labels` holding the names and
a private copy of the raw value, or nil. -/

theorem C17_DomainSearch_wf (o : GOpts) (v : Bytes) (ns : List Bytes)
    (h : o.get Code.domainSearch = some v) (hs : Val4.searchList v ns) :
    Acc.domainSearch o = .ok (some { original := some v, labels := ns }) :=
  domainSearch_of_fromBytes o v _ h
    (Label.fromBytes_of_labelsFromBytes (labelsFromBytes_complete v ns hs))
theorem C17_DomainSearch_bad (o : GOpts) (v : Bytes)
    (h : o.get Code.domainSearch = some v) (hs : ¬ ∃ ns, Val4.searchList v ns) :
    Acc.domainSearch o = .ok none := by
  have := labelsFromBytes_err_of_no_reading v hs
  simp [Acc.domainSearch, h, Label.fromBytes, Label.Labels.fromBytes, Label.goBytes, this]
theorem C17_DomainSearch_absent (o : GOpts) (h : o.get Code.domainSearch = none) :
    Acc.domainSearch o = .ok none := by
  simp [Acc.domainSearch, h]
/-- `OptDomainSearch(labels)` for a hand-built set (`NewLabels`, `Labels = ns`)
of one or more valid names (RFC 1035 labels of 1..63 octets, name ≤ 253): the
names read back. -/
theorem C17_set_get_DomainSearch (o : GOpts) (ns : List Bytes) (hv : Spec.Name.ValidNames ns)
    (hne : ns ≠ []) :
    ∃ raw l, labelsGoBytes { original := none, labels := ns } = .ok raw ∧
      Acc.domainSearch (o.update Code.domainSearch raw) = .ok (some l) ∧ l.labels = ns :=
  ⟨_, _, labelsGoBytes_new ns, domainSearch_of_encoded o ns hv hne, rfl⟩
/-- get → edit → set → get: a set obtained by parsing (e.g. from
`DomainSearch()`), whose names the caller then changes to a different
non-empty list of valid names, reads back as the NEW names after
`OptDomainSearch` — whatever the original bytes were (compressed or not). -/
theorem C17_set_get_DomainSearch_edited (o : GOpts) (b : Bytes) (l : Label.Labels) (ns' : List Bytes)
    (hp : Label.fromBytes b = .ok l) (hch : ns' ≠ l.labels)
    (hv : Spec.Name.ValidNames ns') (hne : ns' ≠ []) :
    ∃ raw l', labelsGoBytes { l with labels := ns' } = .ok raw ∧
      Acc.domainSearch (o.update Code.domainSearch raw) = .ok (some l') ∧ l'.labels = ns' :=
  ⟨_, _, labelsGoBytes_edited hp hch, domainSearch_of_encoded o ns' hv hne, rfl⟩
/-- get → set → get without an edit: the very bytes that were parsed are
stored again, and the same set is read back. -/
theorem C17_set_get_DomainSearch_unmodified (o : GOpts) (b : Bytes) (l : Label.Labels)
    (hp : Label.fromBytes b = .ok l) :
    labelsGoBytes l = .ok (some b) ∧
      Acc.domainSearch (o.update Code.domainSearch (some b)) = .ok (some l) :=
  ⟨labelsGoBytes_unmodified hp, domainSearch_of_fromBytes _ _ _ (GOpts.get_update_same _ _ _) hp⟩

/-- `example.com`, `foo.<pointer to offset 0>` is a search list of two names … -/
example : Acc.domainSearch (GOpts.empty.update 119
    (some [7, 101, 120, 97, 109, 112, 108, 101, 3, 99, 111, 109, 0, 3, 102, 111, 111, 192, 0])) =
    .ok (some ⟨some [7, 101, 120, 97, 109, 112, 108, 101, 3, 99, 111, 109, 0, 3, 102, 111, 111, 192, 0],
      [[101, 120, 97, 109, 112, 108, 101, 46, 99, 111, 109],
       [102, 111, 111, 46, 101, 120, 97, 109, 112, 108, 101, 46, 99, 111, 109]]⟩) := by decide
/-- … and a label running past the end is not -/
example : Acc.domainSearch (GOpts.empty.update 119 (some [3, 97, 98])) = .ok none := by decide
example : Spec.Name.ValidNames [[97, 46, 98], [99]] := by decide

/-! ## decoded packets

The theorems above are about the `Options` map with the nil-ness of its values
(`GOpts`).  A packet that came out of `dhcpv4.FromBytes` (`dec4 q = .ok p`) has
such a map, `g` with `decOptsG q = some g` (the option loop re-run with Go's
`append` on possibly nil slices).  `C17_decoded_options` says what it is in
terms of the model packet `p`, whose `Opts` identify nil and empty values:
`g = p.opts.toG` — a key all of whose instances were zero-length (`[code, 0]`
on the wire) holds a NIL slice, so the accessors see it as ABSENT; every other
key holds its non-empty (RFC 3396-concatenated) value; an empty non-nil value
never comes out of the decoder.  The theorems after it lift the accessor
statements to `p`, one theorem per accessor (all 29): for the types that reject
the empty value the zero-length option gives the malformed default, which equals
the absent default, and for strings it reads as "" like the absent option, so
nothing changes; for the parameter request list, the relay agent information,
the user class and the domain search list the RFC reading of the empty value
(empty list / empty map / the fallback's single empty class / empty search list)
is NOT what the accessor returns on a decoded packet (nil): stated as explicit
`some [] → nil` clauses, with the non-empty hypothesis on the clause it affects. -/

/-- **C17 (link to decoded packets).** -/
theorem C17_decoded_options (q : Bytes) (p : Pkt4) (h : dec4 q = .ok p) :
    decOptsG q = some p.opts.toG ∧
    (∀ c, p.opts.f c = none ∨ p.opts.f c = some [] → p.opts.toG.get c = none) ∧
    (∀ c v, p.opts.f c = some v → v ≠ [] → p.opts.toG.get c = some v) ∧
    (∀ c, p.opts.toG.f c ≠ some (some [])) :=
  ⟨decOptsG_of_dec4 h, fun _ hc => Opts.toG_get_none hc, fun _ _ hv hne => Opts.toG_get_some hv hne,
    fun c => Opts.toG_no_empty _ c⟩

/-- single address (server identifier) on a decoded packet -/
theorem C17_decoded_ServerIdentifier (q : Bytes) (p : Pkt4) (g : GOpts) (h : dec4 q = .ok p)
    (hg : decOptsG q = some g) :
    (∀ v x, p.opts.f Code.serverIdentifier = some v → Val4.ip v = some x → Acc.serverIdentifier g = some x) ∧
    (∀ v, p.opts.f Code.serverIdentifier = some v → Val4.ip v = none → Acc.serverIdentifier g = none) ∧
    (p.opts.f Code.serverIdentifier = none → Acc.serverIdentifier g = none) := by
  rw [decOptsG_of_dec4 h] at hg; cases hg
  refine ⟨fun v x hv hs => ?_, fun v hv hs => ?_, fun hn => ?_⟩
  · have hne : v ≠ [] := by intro e; subst e; simp [Val4.ip] at hs
    exact C17_ServerIdentifier_wf _ v x (Opts.toG_get_some hv hne) hs
  · by_cases hne : v = []
    · subst hne; exact C17_ServerIdentifier_absent _ (Opts.toG_get_none (.inr hv))
    · exact C17_ServerIdentifier_bad _ v (Opts.toG_get_some hv hne) hs
  · exact C17_ServerIdentifier_absent _ (Opts.toG_get_none (.inl hn))

/-- address list (routers) on a decoded packet -/
theorem C17_decoded_Router (q : Bytes) (p : Pkt4) (g : GOpts) (h : dec4 q = .ok p)
    (hg : decOptsG q = some g) :
    (∀ v xs, p.opts.f Code.router = some v → Val4.ips v = some xs → Acc.router g = some (xs.map some)) ∧
    (∀ v, p.opts.f Code.router = some v → Val4.ips v = none → Acc.router g = none) ∧
    (p.opts.f Code.router = none → Acc.router g = none) := by
  rw [decOptsG_of_dec4 h] at hg; cases hg
  refine ⟨fun v xs hv hs => ?_, fun v hv hs => ?_, fun hn => ?_⟩
  · have hne : v ≠ [] := by intro e; subst e; simp [Val4.ips] at hs
    exact C17_Router_wf _ v xs (Opts.toG_get_some hv hne) hs
  · by_cases hne : v = []
    · subst hne; exact C17_Router_absent _ (Opts.toG_get_none (.inr hv))
    · exact C17_Router_bad _ v (Opts.toG_get_some hv hne) hs
  · exact C17_Router_absent _ (Opts.toG_get_none (.inl hn))

/-- string (domain name, trailing NULs deleted) on a decoded packet: the
zero-length option reads as "" like the absent one -/
theorem C17_decoded_DomainName (q : Bytes) (p : Pkt4) (g : GOpts) (h : dec4 q = .ok p)
    (hg : decOptsG q = some g) :
    (∀ v x, p.opts.f Code.domainName = some v → Val4.strTrim v = some x → Acc.domainName g = x) ∧
    (p.opts.f Code.domainName = none → Acc.domainName g = []) := by
  rw [decOptsG_of_dec4 h] at hg; cases hg
  refine ⟨fun v x hv hs => ?_, fun hn => ?_⟩
  · by_cases hne : v = []
    · subst hne
      have hx : x = [] := by
        have : Val4.strTrim [] = some [] := by decide
        rw [this] at hs; cases hs; rfl
      rw [hx]; exact C17_DomainName_absent _ (Opts.toG_get_none (.inr hv))
    · exact C17_DomainName_wf _ v x (Opts.toG_get_some hv hne) hs
  · exact C17_DomainName_absent _ (Opts.toG_get_none (.inl hn))

/-- duration (lease time) on a decoded packet -/
theorem C17_decoded_IPAddressLeaseTime (q : Bytes) (p : Pkt4) (g : GOpts) (dflt : Int)
    (h : dec4 q = .ok p) (hg : decOptsG q = some g) :
    (∀ v x, p.opts.f Code.ipAddressLeaseTime = some v → Val4.seconds v = some x →
      Acc.ipAddressLeaseTime g dflt = x) ∧
    (∀ v, p.opts.f Code.ipAddressLeaseTime = some v → Val4.seconds v = none →
      Acc.ipAddressLeaseTime g dflt = dflt) ∧
    (p.opts.f Code.ipAddressLeaseTime = none → Acc.ipAddressLeaseTime g dflt = dflt) := by
  rw [decOptsG_of_dec4 h] at hg; cases hg
  refine ⟨fun v x hv hs => ?_, fun v hv hs => ?_, fun hn => ?_⟩
  · have hne : v ≠ [] := by intro e; subst e; simp [Val4.seconds, Val4.u32] at hs
    exact C17_IPAddressLeaseTime_wf _ v x dflt (Opts.toG_get_some hv hne) hs
  · by_cases hne : v = []
    · subst hne; exact C17_IPAddressLeaseTime_absent _ dflt (Opts.toG_get_none (.inr hv))
    · exact C17_IPAddressLeaseTime_bad _ v dflt (Opts.toG_get_some hv hne) hs
  · exact C17_IPAddressLeaseTime_absent _ dflt (Opts.toG_get_none (.inl hn))

/-- message type on a decoded packet -/
theorem C17_decoded_MessageType (q : Bytes) (p : Pkt4) (g : GOpts) (h : dec4 q = .ok p)
    (hg : decOptsG q = some g) :
    (∀ v x, p.opts.f Code.messageType = some v → Val4.u8 v = some x → Acc.messageType g = x) ∧
    (∀ v, p.opts.f Code.messageType = some v → Val4.u8 v = none → Acc.messageType g = 0) ∧
    (p.opts.f Code.messageType = none → Acc.messageType g = 0) := by
  rw [decOptsG_of_dec4 h] at hg; cases hg
  refine ⟨fun v x hv hs => ?_, fun v hv hs => ?_, fun hn => ?_⟩
  · have hne : v ≠ [] := by intro e; subst e; simp [Val4.u8] at hs
    exact C17_MessageType_wf _ v x (Opts.toG_get_some hv hne) hs
  · by_cases hne : v = []
    · subst hne; exact C17_MessageType_absent _ (Opts.toG_get_none (.inr hv))
    · exact C17_MessageType_bad _ v (Opts.toG_get_some hv hne) hs
  · exact C17_MessageType_absent _ (Opts.toG_get_none (.inl hn))

/-- classless static routes on a decoded packet -/
theorem C17_decoded_ClasslessStaticRoute (q : Bytes) (p : Pkt4) (g : GOpts) (h : dec4 q = .ok p)
    (hg : decOptsG q = some g) :
    (∀ v xs, p.opts.f Code.classlessStaticRoute = some v → Val4.routes v = some xs →
      Acc.classlessStaticRoute g = some (xs.map ofSpecRoute)) ∧
    (∀ v, p.opts.f Code.classlessStaticRoute = some v → Val4.routes v = none →
      Acc.classlessStaticRoute g = none) ∧
    (p.opts.f Code.classlessStaticRoute = none → Acc.classlessStaticRoute g = none) := by
  rw [decOptsG_of_dec4 h] at hg; cases hg
  refine ⟨fun v xs hv hs => ?_, fun v hv hs => ?_, fun hn => ?_⟩
  · have hne : v ≠ [] := by intro e; subst e; simp [Val4.routes] at hs
    exact C17_ClasslessStaticRoute_wf _ v xs (Opts.toG_get_some hv hne) hs
  · by_cases hne : v = []
    · subst hne; exact C17_ClasslessStaticRoute_absent _ (Opts.toG_get_none (.inr hv))
    · exact C17_ClasslessStaticRoute_bad _ v (Opts.toG_get_some hv hne) hs
  · exact C17_ClasslessStaticRoute_absent _ (Opts.toG_get_none (.inl hn))

/-- relay agent information on a decoded packet (against the options-field
grammar the accessor implements, `C17_RelayAgentInfo_padend_*`): a NON-EMPTY
value reads as its sub-option map or nil; the zero-length option 82 reads as
nil, NOT as the empty map the grammar gives the empty value -/
theorem C17_decoded_RelayAgentInfo (q : Bytes) (p : Pkt4) (g : GOpts) (h : dec4 q = .ok p)
    (hg : decOptsG q = some g) :
    (∀ v m, p.opts.f Code.relayAgentInfo = some v → v ≠ [] → Val4.relayPadEnd v = some m →
      Acc.relayAgentInfo g = some ⟨m⟩) ∧
    (∀ v, p.opts.f Code.relayAgentInfo = some v → Val4.relayPadEnd v = none →
      Acc.relayAgentInfo g = none) ∧
    (p.opts.f Code.relayAgentInfo = some [] → Acc.relayAgentInfo g = none) ∧
    (p.opts.f Code.relayAgentInfo = none → Acc.relayAgentInfo g = none) := by
  rw [decOptsG_of_dec4 h] at hg; cases hg
  refine ⟨fun v m hv hne hs => ?_, fun v hv hs => ?_, fun he => ?_, fun hn => ?_⟩
  · exact C17_RelayAgentInfo_padend_wf _ v m (Opts.toG_get_some hv hne) hs
  · by_cases hne : v = []
    · subst hne; exact C17_RelayAgentInfo_absent _ (Opts.toG_get_none (.inr hv))
    · exact C17_RelayAgentInfo_padend_bad _ v (Opts.toG_get_some hv hne) hs
  · exact C17_RelayAgentInfo_absent _ (Opts.toG_get_none (.inr he))
  · exact C17_RelayAgentInfo_absent _ (Opts.toG_get_none (.inl hn))

/-- parameter request list on a decoded packet: a non-empty value reads as its
codes; the zero-length option 55 reads as nil, NOT as the empty list -/
theorem C17_decoded_ParameterRequestList (q : Bytes) (p : Pkt4) (g : GOpts) (h : dec4 q = .ok p)
    (hg : decOptsG q = some g) :
    (∀ v xs, p.opts.f Code.parameterRequestList = some v → v ≠ [] → Val4.codes v = some xs →
      Acc.parameterRequestList g = some xs) ∧
    (p.opts.f Code.parameterRequestList = some [] → Acc.parameterRequestList g = none) ∧
    (p.opts.f Code.parameterRequestList = none → Acc.parameterRequestList g = none) := by
  rw [decOptsG_of_dec4 h] at hg; cases hg
  refine ⟨fun v xs hv hne hs => ?_, fun he => ?_, fun hn => ?_⟩
  · exact C17_ParameterRequestList_wf _ v xs (Opts.toG_get_some hv hne) hs
  · exact C17_ParameterRequestList_absent _ (Opts.toG_get_none (.inr he))
  · exact C17_ParameterRequestList_absent _ (Opts.toG_get_none (.inl hn))

/-- the distinction is real: the same empty value under key 55 / 82 reads as the
empty list / map when it is an empty NON-nil slice (only a caller can put one
there), and as nil when it came through the decoder -/
example : Acc.parameterRequestList (GOpts.empty.update 55 (some [])) = some [] ∧
    Acc.parameterRequestList (Opts.toG ⟨fun c => if c = 55 then some [] else none⟩) = none := by
  constructor <;> decide

/-! ### the other typed accessors on decoded packets

Every remaining accessor, one theorem each, through the generic steps of
Lemmas/V4ValDecoded.lean (`decoded_lift` for the types that reject the empty
value, `decoded_lift_str` for strings, `decoded_get` where the empty value has
an RFC reading of its own).  `p.opts.f c` is the RFC 3396 reassembly of the
instances of option `c` in the options field (C04); `g` is the Go `Options`
map of the decoded packet.  With the eight theorems above this covers all 29
typed accessors of `*DHCPv4`. -/

/-- single address on a decoded packet -/
theorem C17_decoded_BroadcastAddress (q : Bytes) (p : Pkt4) (g : GOpts) (h : dec4 q = .ok p)
    (hg : decOptsG q = some g) :
    (∀ v x, p.opts.f Code.broadcastAddress = some v → Val4.ip v = some x → Acc.broadcastAddress g = some x) ∧
    (∀ v, p.opts.f Code.broadcastAddress = some v → Val4.ip v = none → Acc.broadcastAddress g = none) ∧
    (p.opts.f Code.broadcastAddress = none → Acc.broadcastAddress g = none) :=
  decoded_lift _ Val4.ip Acc.broadcastAddress some none rfl C17_BroadcastAddress_wf C17_BroadcastAddress_bad C17_BroadcastAddress_absent h hg

/-- single address on a decoded packet -/
theorem C17_decoded_RequestedIPAddress (q : Bytes) (p : Pkt4) (g : GOpts) (h : dec4 q = .ok p)
    (hg : decOptsG q = some g) :
    (∀ v x, p.opts.f Code.requestedIPAddress = some v → Val4.ip v = some x → Acc.requestedIPAddress g = some x) ∧
    (∀ v, p.opts.f Code.requestedIPAddress = some v → Val4.ip v = none → Acc.requestedIPAddress g = none) ∧
    (p.opts.f Code.requestedIPAddress = none → Acc.requestedIPAddress g = none) :=
  decoded_lift _ Val4.ip Acc.requestedIPAddress some none rfl C17_RequestedIPAddress_wf C17_RequestedIPAddress_bad C17_RequestedIPAddress_absent h hg

/-- address list on a decoded packet -/
theorem C17_decoded_NTPServers (q : Bytes) (p : Pkt4) (g : GOpts) (h : dec4 q = .ok p)
    (hg : decOptsG q = some g) :
    (∀ v xs, p.opts.f Code.ntpServers = some v → Val4.ips v = some xs → Acc.ntpServers g = some (xs.map some)) ∧
    (∀ v, p.opts.f Code.ntpServers = some v → Val4.ips v = none → Acc.ntpServers g = none) ∧
    (p.opts.f Code.ntpServers = none → Acc.ntpServers g = none) :=
  decoded_lift _ Val4.ips Acc.ntpServers (fun xs => some (xs.map some)) none rfl
    C17_NTPServers_wf C17_NTPServers_bad C17_NTPServers_absent h hg

/-- address list on a decoded packet -/
theorem C17_decoded_NetBIOSNameServers (q : Bytes) (p : Pkt4) (g : GOpts) (h : dec4 q = .ok p)
    (hg : decOptsG q = some g) :
    (∀ v xs, p.opts.f Code.netBIOSNameServers = some v → Val4.ips v = some xs → Acc.netBIOSNameServers g = some (xs.map some)) ∧
    (∀ v, p.opts.f Code.netBIOSNameServers = some v → Val4.ips v = none → Acc.netBIOSNameServers g = none) ∧
    (p.opts.f Code.netBIOSNameServers = none → Acc.netBIOSNameServers g = none) :=
  decoded_lift _ Val4.ips Acc.netBIOSNameServers (fun xs => some (xs.map some)) none rfl
    C17_NetBIOSNameServers_wf C17_NetBIOSNameServers_bad C17_NetBIOSNameServers_absent h hg

/-- address list on a decoded packet -/
theorem C17_decoded_DNS (q : Bytes) (p : Pkt4) (g : GOpts) (h : dec4 q = .ok p)
    (hg : decOptsG q = some g) :
    (∀ v xs, p.opts.f Code.dns = some v → Val4.ips v = some xs → Acc.dns g = some (xs.map some)) ∧
    (∀ v, p.opts.f Code.dns = some v → Val4.ips v = none → Acc.dns g = none) ∧
    (p.opts.f Code.dns = none → Acc.dns g = none) :=
  decoded_lift _ Val4.ips Acc.dns (fun xs => some (xs.map some)) none rfl
    C17_DNS_wf C17_DNS_bad C17_DNS_absent h hg

/-- vendor class identifier (opaque octets, nothing deleted) on a decoded packet: the zero-length option reads as "" like the absent one -/
theorem C17_decoded_ClassIdentifier (q : Bytes) (p : Pkt4) (g : GOpts) (h : dec4 q = .ok p)
    (hg : decOptsG q = some g) :
    (∀ v x, p.opts.f Code.classIdentifier = some v → Val4.str v = some x → Acc.classIdentifier g = x) ∧
    (p.opts.f Code.classIdentifier = none → Acc.classIdentifier g = []) :=
  decoded_lift_str _ Val4.str Acc.classIdentifier rfl C17_ClassIdentifier_wf C17_ClassIdentifier_absent h hg

/-- string (trailing NULs deleted) on a decoded packet: the zero-length option reads as "" like the absent one -/
theorem C17_decoded_RootPath (q : Bytes) (p : Pkt4) (g : GOpts) (h : dec4 q = .ok p)
    (hg : decOptsG q = some g) :
    (∀ v x, p.opts.f Code.rootPath = some v → Val4.strTrim v = some x → Acc.rootPath g = x) ∧
    (p.opts.f Code.rootPath = none → Acc.rootPath g = []) :=
  decoded_lift_str _ Val4.strTrim Acc.rootPath rfl C17_RootPath_wf C17_RootPath_absent h hg

/-- string (trailing NULs deleted) on a decoded packet: the zero-length option reads as "" like the absent one -/
theorem C17_decoded_Message (q : Bytes) (p : Pkt4) (g : GOpts) (h : dec4 q = .ok p)
    (hg : decOptsG q = some g) :
    (∀ v x, p.opts.f Code.message = some v → Val4.strTrim v = some x → Acc.message g = x) ∧
    (p.opts.f Code.message = none → Acc.message g = []) :=
  decoded_lift_str _ Val4.strTrim Acc.message rfl C17_Message_wf C17_Message_absent h hg

/-- string (trailing NULs deleted) on a decoded packet: the zero-length option reads as "" like the absent one -/
theorem C17_decoded_HostName (q : Bytes) (p : Pkt4) (g : GOpts) (h : dec4 q = .ok p)
    (hg : decOptsG q = some g) :
    (∀ v x, p.opts.f Code.hostName = some v → Val4.strTrim v = some x → Acc.hostName g = x) ∧
    (p.opts.f Code.hostName = none → Acc.hostName g = []) :=
  decoded_lift_str _ Val4.strTrim Acc.hostName rfl C17_HostName_wf C17_HostName_absent h hg

/-- string (trailing NULs deleted) on a decoded packet: the zero-length option reads as "" like the absent one -/
theorem C17_decoded_BootFileNameOption (q : Bytes) (p : Pkt4) (g : GOpts) (h : dec4 q = .ok p)
    (hg : decOptsG q = some g) :
    (∀ v x, p.opts.f Code.bootfileName = some v → Val4.strTrim v = some x → Acc.bootFileNameOption g = x) ∧
    (p.opts.f Code.bootfileName = none → Acc.bootFileNameOption g = []) :=
  decoded_lift_str _ Val4.strTrim Acc.bootFileNameOption rfl C17_BootFileNameOption_wf C17_BootFileNameOption_absent h hg

/-- string (trailing NULs deleted) on a decoded packet: the zero-length option reads as "" like the absent one -/
theorem C17_decoded_TFTPServerName (q : Bytes) (p : Pkt4) (g : GOpts) (h : dec4 q = .ok p)
    (hg : decOptsG q = some g) :
    (∀ v x, p.opts.f Code.tftpServerName = some v → Val4.strTrim v = some x → Acc.tftpServerName g = x) ∧
    (p.opts.f Code.tftpServerName = none → Acc.tftpServerName g = []) :=
  decoded_lift_str _ Val4.strTrim Acc.tftpServerName rfl C17_TFTPServerName_wf C17_TFTPServerName_absent h hg

/-- duration on a decoded packet -/
theorem C17_decoded_IPAddressRenewalTime (q : Bytes) (p : Pkt4) (g : GOpts) (dflt : Int)
    (h : dec4 q = .ok p) (hg : decOptsG q = some g) :
    (∀ v x, p.opts.f Code.renewalTime = some v → Val4.seconds v = some x → Acc.ipAddressRenewalTime g dflt = x) ∧
    (∀ v, p.opts.f Code.renewalTime = some v → Val4.seconds v = none → Acc.ipAddressRenewalTime g dflt = dflt) ∧
    (p.opts.f Code.renewalTime = none → Acc.ipAddressRenewalTime g dflt = dflt) :=
  decoded_lift _ Val4.seconds (Acc.ipAddressRenewalTime · dflt) id dflt rfl (fun o v x => C17_IPAddressRenewalTime_wf o v x dflt)
    (fun o v => C17_IPAddressRenewalTime_bad o v dflt) (fun o => C17_IPAddressRenewalTime_absent o dflt) h hg

/-- duration on a decoded packet -/
theorem C17_decoded_IPAddressRebindingTime (q : Bytes) (p : Pkt4) (g : GOpts) (dflt : Int)
    (h : dec4 q = .ok p) (hg : decOptsG q = some g) :
    (∀ v x, p.opts.f Code.rebindingTime = some v → Val4.seconds v = some x → Acc.ipAddressRebindingTime g dflt = x) ∧
    (∀ v, p.opts.f Code.rebindingTime = some v → Val4.seconds v = none → Acc.ipAddressRebindingTime g dflt = dflt) ∧
    (p.opts.f Code.rebindingTime = none → Acc.ipAddressRebindingTime g dflt = dflt) :=
  decoded_lift _ Val4.seconds (Acc.ipAddressRebindingTime · dflt) id dflt rfl (fun o v x => C17_IPAddressRebindingTime_wf o v x dflt)
    (fun o v => C17_IPAddressRebindingTime_bad o v dflt) (fun o => C17_IPAddressRebindingTime_absent o dflt) h hg

/-- IPv6-only preferred on a decoded packet -/
theorem C17_decoded_IPv6OnlyPreferred (q : Bytes) (p : Pkt4) (g : GOpts) (h : dec4 q = .ok p)
    (hg : decOptsG q = some g) :
    (∀ v x, p.opts.f Code.ipv6OnlyPreferred = some v → Val4.seconds v = some x → Acc.ipv6OnlyPreferred g = (x, true)) ∧
    (∀ v, p.opts.f Code.ipv6OnlyPreferred = some v → Val4.seconds v = none → Acc.ipv6OnlyPreferred g = (0, false)) ∧
    (p.opts.f Code.ipv6OnlyPreferred = none → Acc.ipv6OnlyPreferred g = (0, false)) :=
  decoded_lift _ Val4.seconds Acc.ipv6OnlyPreferred (·, true) (0, false) rfl
    C17_IPv6OnlyPreferred_wf C17_IPv6OnlyPreferred_bad C17_IPv6OnlyPreferred_absent h hg

/-- maximum message size on a decoded packet (absent, zero-length and malformed all give the error) -/
theorem C17_decoded_MaxMessageSize (q : Bytes) (p : Pkt4) (g : GOpts) (h : dec4 q = .ok p)
    (hg : decOptsG q = some g) :
    (∀ v x, p.opts.f Code.maxMessageSize = some v → Val4.u16 v = some x → Acc.maxMessageSize g = .ok x) ∧
    (∀ v, p.opts.f Code.maxMessageSize = some v → Val4.u16 v = none → Acc.maxMessageSize g = .err) ∧
    (p.opts.f Code.maxMessageSize = none → Acc.maxMessageSize g = .err) :=
  decoded_lift _ Val4.u16 Acc.maxMessageSize .ok .err rfl
    C17_MaxMessageSize_wf C17_MaxMessageSize_bad C17_MaxMessageSize_absent h hg

/-- auto-configure on a decoded packet -/
theorem C17_decoded_AutoConfigure (q : Bytes) (p : Pkt4) (g : GOpts) (h : dec4 q = .ok p)
    (hg : decOptsG q = some g) :
    (∀ v x, p.opts.f Code.autoConfigure = some v → Val4.u8 v = some x → Acc.autoConfigure g = (x, true)) ∧
    (∀ v, p.opts.f Code.autoConfigure = some v → Val4.u8 v = none → Acc.autoConfigure g = (0, false)) ∧
    (p.opts.f Code.autoConfigure = none → Acc.autoConfigure g = (0, false)) :=
  decoded_lift _ Val4.u8 Acc.autoConfigure (·, true) (0, false) rfl
    C17_AutoConfigure_wf C17_AutoConfigure_bad C17_AutoConfigure_absent h hg

/-- subnet mask on a decoded packet -/
theorem C17_decoded_SubnetMask (q : Bytes) (p : Pkt4) (g : GOpts) (h : dec4 q = .ok p)
    (hg : decOptsG q = some g) :
    (∀ v x, p.opts.f Code.subnetMask = some v → Val4.mask v = some x → Acc.subnetMask g = some x) ∧
    (∀ v, p.opts.f Code.subnetMask = some v → Val4.mask v = none → Acc.subnetMask g = none) ∧
    (p.opts.f Code.subnetMask = none → Acc.subnetMask g = none) :=
  decoded_lift _ Val4.mask Acc.subnetMask some none rfl
    C17_SubnetMask_wf C17_SubnetMask_bad C17_SubnetMask_absent h hg

/-- vendor-identifying vendor class on a decoded packet -/
theorem C17_decoded_VIVC (q : Bytes) (p : Pkt4) (g : GOpts) (h : dec4 q = .ok p)
    (hg : decOptsG q = some g) :
    (∀ v xs, p.opts.f Code.vivc = some v → Val4.vivc v = some xs → Acc.vivc g = some (xs.map ofSpecVIVC)) ∧
    (∀ v, p.opts.f Code.vivc = some v → Val4.vivc v = none → Acc.vivc g = none) ∧
    (p.opts.f Code.vivc = none → Acc.vivc g = none) :=
  decoded_lift _ Val4.vivc Acc.vivc (fun xs => some (xs.map ofSpecVIVC)) none rfl
    C17_VIVC_wf C17_VIVC_bad C17_VIVC_absent h hg

/-- client system architecture on a decoded packet -/
theorem C17_decoded_ClientArch (q : Bytes) (p : Pkt4) (g : GOpts) (h : dec4 q = .ok p)
    (hg : decOptsG q = some g) :
    (∀ v xs, p.opts.f Code.clientArch = some v → Val4.archs v = some xs → Acc.clientArch g = some xs) ∧
    (∀ v, p.opts.f Code.clientArch = some v → Val4.archs v = none → Acc.clientArch g = none) ∧
    (p.opts.f Code.clientArch = none → Acc.clientArch g = none) :=
  decoded_lift _ Val4.archs Acc.clientArch some none rfl
    C17_ClientArch_wf C17_ClientArch_bad C17_ClientArch_absent h hg

/-- user class on a decoded packet: an RFC 3004 value reads as its classes, any
other NON-EMPTY value as one class holding the whole value; the zero-length
option 77 reads as nil, NOT as the single empty class the fallback gives an
empty non-nil value -/
theorem C17_decoded_UserClass (q : Bytes) (p : Pkt4) (g : GOpts) (h : dec4 q = .ok p)
    (hg : decOptsG q = some g) :
    (∀ v xs, p.opts.f Code.userClass = some v → Val4.userClasses v = some xs → Acc.userClass g = some xs) ∧
    (∀ v, p.opts.f Code.userClass = some v → v ≠ [] → Val4.userClasses v = none →
      Acc.userClass g = some [v]) ∧
    (p.opts.f Code.userClass = some [] → Acc.userClass g = none) ∧
    (p.opts.f Code.userClass = none → Acc.userClass g = none) := by
  obtain ⟨hsome, hnone⟩ := decoded_get h hg Code.userClass
  refine ⟨fun v xs hv hs => C17_UserClass_wf _ v xs (hsome v hv ?_) hs,
    fun v hv hne hs => C17_UserClass_bad _ v (hsome v hv hne) hs,
    fun he => C17_UserClass_absent _ (hnone (.inr he)), fun hn => C17_UserClass_absent _ (hnone (.inl hn))⟩
  intro e; subst e; simp [Val4.userClasses] at hs

/-- domain search list on a decoded packet: a NON-EMPTY value with an RFC 1035
reading gives its names (and keeps a copy of the reassembled value), a value
without one gives nil; the zero-length option 119 reads as nil, NOT as the
empty search list that is the RFC reading of the empty value
(`Val4.searchList [] []`) -/
theorem C17_decoded_DomainSearch (q : Bytes) (p : Pkt4) (g : GOpts) (h : dec4 q = .ok p)
    (hg : decOptsG q = some g) :
    (∀ v ns, p.opts.f Code.domainSearch = some v → v ≠ [] → Val4.searchList v ns →
      Acc.domainSearch g = .ok (some { original := some v, labels := ns })) ∧
    (∀ v, p.opts.f Code.domainSearch = some v → (¬ ∃ ns, Val4.searchList v ns) →
      Acc.domainSearch g = .ok none) ∧
    (p.opts.f Code.domainSearch = some [] → Acc.domainSearch g = .ok none) ∧
    (p.opts.f Code.domainSearch = none → Acc.domainSearch g = .ok none) := by
  obtain ⟨hsome, hnone⟩ := decoded_get h hg Code.domainSearch
  refine ⟨fun v ns hv hne hs => C17_DomainSearch_wf _ v ns (hsome v hv hne) hs, fun v hv hs => ?_,
    fun he => C17_DomainSearch_absent _ (hnone (.inr he)),
    fun hn => C17_DomainSearch_absent _ (hnone (.inl hn))⟩
  by_cases hne : v = []
  · subst hne; exact C17_DomainSearch_absent _ (hnone (.inr hv))
  · exact C17_DomainSearch_bad _ v (hsome v hv hne) hs

/-- the distinction is real for these two as well: an empty NON-nil value (only
a caller can store one) reads as one empty class / the empty search list, the
decoder's zero-length option as nil -/
example : Acc.userClass (GOpts.empty.update 77 (some [])) = some [[]] ∧
    Acc.userClass (Opts.toG ⟨fun c => if c = 77 then some [] else none⟩) = none ∧
    Acc.domainSearch (GOpts.empty.update 119 (some [])) = .ok (some ⟨some [], []⟩) ∧
    Acc.domainSearch (Opts.toG ⟨fun c => if c = 119 then some [] else none⟩) = .ok none ∧
    Val4.searchList [] [] := by
  refine ⟨by decide, by decide, by decide, by decide, Spec.Name.Names.done⟩

/-- the hypotheses are satisfiable by a real datagram: header + cookie, host
name in two RFC 3396 fragments (`0c 01 68` … `0c 01 69`) around a zero-length
user class (`4d 00`), End.  It decodes; option 12 reassembles to "hi", option
77 to the empty value; on the decoded packet's map HostName() is "hi" and
UserClass() is nil. -/
def C17_example_datagram : Bytes :=
  List.replicate 236 0 ++ [99, 130, 83, 99, 12, 1, 104, 77, 0, 12, 1, 105, 255]

set_option maxRecDepth 100000 in
example :
    (match dec4 C17_example_datagram with
      | .ok p => some (p.opts.f 12, p.opts.f 77) | _ => none) = some (some [104, 105], some []) ∧
    (decOptsG C17_example_datagram).map (fun g => (Acc.hostName g, Acc.userClass g)) =
      some ([104, 105], none) := by
  decide

/-! ## set/get with addresses in their 16-byte IPv4-mapped form

`net.IPv4(a,b,c,d)`, `net.ParseIP("a.b.c.d")` and `ip.To16()` give the 16-byte
form `00×10 ff ff a b c d`.  Every constructor writes `To4()` of what it is
given (`IP.ToBytes`, `IPs.ToBytes`, `Route.Marshal`), so reading back returns
the 4-byte form.  The address-list theorems above (`C17_set_get_Router` …)
already quantify over every address with a 4-byte form; `_ipv4` spells the
mapped case out.  For routes `C17_set_get_ClasslessStaticRoute_mapped` extends
the domain from 4-byte destinations/routers to every form `To4` accepts. -/

theorem C17_to4_ipv4 (a b c d : UInt8) :
    to4 (ipv4 a b c d) = some [a, b, c, d] ∧ to4 [a, b, c, d] = some [a, b, c, d] ∧
    (ipv4 a b c d).length = 16 :=
  ⟨to4_ipv4 a b c d, by simp [to4], by simp [ipv4, zeros]⟩

/-- `OptServerIdentifier(net.IPv4(a,b,c,d))` reads back as the 4-byte address -/
theorem C17_set_get_ServerIdentifier_ipv4 (o : GOpts) (a b c d : UInt8) :
    Acc.serverIdentifier (o.update Code.serverIdentifier (ipToBytes (some (ipv4 a b c d)))) =
      some [a, b, c, d] :=
  C17_set_get_ServerIdentifier o _ _ (to4_ipv4 a b c d)

/-- `OptRouter(net.IPv4(…), …)` (any non-empty list of mapped addresses) reads
back as the list of 4-byte addresses, in order -/
theorem C17_set_get_Router_ipv4 (o : GOpts) (qs : List (UInt8 × UInt8 × UInt8 × UInt8)) (hne : qs ≠ []) :
    Acc.router (o.update Code.router
        (ipsToBytes (qs.map (fun q => some (ipv4 q.1 q.2.1 q.2.2.1 q.2.2.2))))) =
      some (qs.map (fun q => some [q.1, q.2.1, q.2.2.1, q.2.2.2])) := by
  have hne' : qs.map (fun q => ipv4 q.1 q.2.1 q.2.2.1 q.2.2.2) ≠ [] := by simpa using hne
  have := C17_set_get_Router o (qs.map (fun q => ipv4 q.1 q.2.1 q.2.2.1 q.2.2.2)) hne' (by
    intro b hb
    obtain ⟨q, _, rfl⟩ := List.mem_map.mp hb
    simp [to4_ipv4])
  simp only [List.map_map] at this
  rw [show (qs.map (fun q => some (ipv4 q.1 q.2.1 q.2.2.1 q.2.2.2))) =
      qs.map (some ∘ fun q => ipv4 q.1 q.2.1 q.2.2.1 q.2.2.2) from rfl, this]
  simp [to4_ipv4]

/-- `OptDNS` likewise (the other two address-list constructors share `getIPs_set_get`) -/
theorem C17_set_get_DNS_ipv4 (o : GOpts) (qs : List (UInt8 × UInt8 × UInt8 × UInt8)) (hne : qs ≠ []) :
    Acc.dns (o.update Code.dns
        (ipsToBytes (qs.map (fun q => some (ipv4 q.1 q.2.1 q.2.2.1 q.2.2.2))))) =
      some (qs.map (fun q => some [q.1, q.2.1, q.2.2.1, q.2.2.2])) := by
  have hne' : qs.map (fun q => ipv4 q.1 q.2.1 q.2.2.1 q.2.2.2) ≠ [] := by simpa using hne
  have := C17_set_get_DNS o (qs.map (fun q => ipv4 q.1 q.2.1 q.2.2.1 q.2.2.2)) hne' (by
    intro b hb
    obtain ⟨q, _, rfl⟩ := List.mem_map.mp hb
    simp [to4_ipv4])
  simp only [List.map_map] at this
  rw [show (qs.map (fun q => some (ipv4 q.1 q.2.1 q.2.2.1 q.2.2.2))) =
      qs.map (some ∘ fun q => ipv4 q.1 q.2.1 q.2.2.1 q.2.2.2) from rfl, this]
  simp [to4_ipv4]

/-- `OptClasslessStaticRoute(routes...)` for a non-empty list of routes whose
destination and router are given in ANY form with a 4-byte form (4-byte, or
16-byte IPv4-mapped), `CIDRMask(width ≤ 32, 32)`, no destination octet of the
4-byte form set beyond the significant ones: marshalling does not panic and
each route reads back with destination and router in their 4-byte form
(`RouteArg.read`), in order. -/
theorem C17_set_get_ClasslessStaticRoute_mapped (o : GOpts) (as : List RouteArg) (hne : as ≠ [])
    (hd : ∀ a ∈ as, RouteArgOK a) :
    ∃ raw, routesToBytes as = .ok raw ∧
      Acc.classlessStaticRoute (o.update Code.classlessStaticRoute raw) = some (as.map RouteArg.read) :=
  routes_set_get_mapped o as hne hd

/-- the case of seed C17-6: 10.1.2.0/24 via 192.168.0.1, both as `net.IPv4(…)` -/
example : RouteArgOK ⟨some (ipv4 10 1 2 0), 24, some (ipv4 192 168 0 1)⟩ ∧
    RouteArg.read ⟨some (ipv4 10 1 2 0), 24, some (ipv4 192 168 0 1)⟩ =
      ⟨[10, 1, 2, 0], 24, some [192, 168, 0, 1]⟩ := by
  refine ⟨⟨⟨_, _, rfl, to4_ipv4 ..⟩, by decide, ⟨_, _, rfl, to4_ipv4 ..⟩, by decide⟩, by decide⟩

/-- a 16-byte address that is NOT IPv4-mapped has no 4-byte form: with a
non-zero prefix length `Route.Marshal` panics (`To4()` is nil and is sliced) -/
example : routeMarshal ⟨some (List.replicate 16 1), 24, some [192, 168, 0, 1]⟩ = .panic := by decide

/-! ## "never a partial or misaligned value", in one statement per family:
whatever the raw value, the result is either the spec's value or the default -/

theorem C17_Router_total (o : GOpts) :
    Acc.router o = none ∨ ∃ v xs, o.get Code.router = some v ∧ Val4.ips v = some xs ∧
      Acc.router o = some (xs.map some) := by
  cases h : o.get Code.router with
  | none => exact .inl (getIPs_absent _ o h)
  | some v =>
    cases hs : Val4.ips v with
    | none => exact .inl (getIPs_bad _ o v h hs)
    | some xs => exact .inr ⟨v, xs, rfl, hs, getIPs_wf _ o v h hs⟩

theorem C17_ClasslessStaticRoute_total (o : GOpts) :
    Acc.classlessStaticRoute o = none ∨ ∃ v xs, o.get Code.classlessStaticRoute = some v ∧
      Val4.routes v = some xs ∧ Acc.classlessStaticRoute o = some (xs.map ofSpecRoute) := by
  cases h : o.get Code.classlessStaticRoute with
  | none => exact .inl (C17_ClasslessStaticRoute_absent o h)
  | some v =>
    cases hs : Val4.routes v with
    | none => exact .inl (C17_ClasslessStaticRoute_bad o v h hs)
    | some xs => exact .inr ⟨v, xs, rfl, hs, C17_ClasslessStaticRoute_wf o v xs h hs⟩

theorem C17_RelayAgentInfo_total (o : GOpts) :
    Acc.relayAgentInfo o = none ∨ ∃ v m, o.get Code.relayAgentInfo = some v ∧
      Val4.relayPadEnd v = some m ∧ Acc.relayAgentInfo o = some ⟨m⟩ := by
  cases h : o.get Code.relayAgentInfo with
  | none => exact .inl (C17_RelayAgentInfo_absent o h)
  | some v =>
    cases hs : Val4.relayPadEnd v with
    | none => exact .inl (C17_RelayAgentInfo_padend_bad o v h hs)
    | some m => exact .inr ⟨v, m, rfl, hs, C17_RelayAgentInfo_padend_wf o v m h hs⟩

/-- an accessor only depends on its own option: other options in the packet
do not change its result (stated for the generic update). -/
theorem C17_other_options_irrelevant (o : GOpts) (k : UInt8) (w : GoBytes) (hk : k ≠ Code.router) :
    Acc.router (o.update k w) = Acc.router o := by
  have : (o.update k w).get Code.router = o.get Code.router := GOpts.get_update_ne o w (Ne.symm hk)
  simp [Acc.router, getIPs, this]

end Dhcp.V4

import DhcpProofs.Lemmas.RawChecksum
import DhcpProofs.Lemmas.RawRead
import DhcpProofs.Lemmas.RawOptions
/-
  C18 — the raw broadcast connection of nclient4 emits well-formed IPv4+UDP
  frames whose checksums verify, and reads exactly the frames addressed to it.
  Property theorems only; helper lemmas live in DhcpProofs/Lemmas/Raw*.lean.
  Model: Dhcp/Raw.lean (what the Go code does).  Specification:
  Dhcp/Spec/Inet.lean (RFC 791 / 768 / 1071, written independently).
-/
namespace Dhcp.Raw
open Dhcp Dhcp.Spec.Inet

/-! ## writing -/

/-- **C18 (layout).** For every payload that fits an IPv4 datagram
(`28 + |p| ≤ 65535`) and every pair of addresses, `udp4pkt` does not panic and
the frame, read field by field as RFC 791 / RFC 768 lay them out, has: version
4, IHL 5 (a 20-byte header), total length `28+|p|` = the frame length, no
fragmentation bits, TTL 64, protocol 17, the `To4` form of the given addresses
(`0.0.0.0` for a nil or non-IPv4 one), the given ports (mod 2^16, as Go's
`uint16(port)`), UDP length `8+|p|`, and the payload verbatim as the UDP data
and as the last `|p|` bytes of the frame. -/
theorem C18_layout (p : Bytes) (dst src : Addr) (hp : 28 + p.length ≤ 65535) :
    ∃ f, udp4pkt p dst src = .ok f ∧ f.length = 28 + p.length ∧
      version f = 4 ∧ ihl f = 5 ∧ hdrLen f = 20 ∧ totalLen f = 28 + p.length ∧ flagsFrag f = 0 ∧
      ttl f = 64 ∧ proto f = 17 ∧
      srcAddr f = (to4 src.ip).getD [0, 0, 0, 0] ∧ dstAddr f = (to4 dst.ip).getD [0, 0, 0, 0] ∧
      srcPort f = src.port % 65536 ∧ dstPort f = dst.port % 65536 ∧
      udpLen f = 8 + p.length ∧ udpData f = p ∧ f.drop 28 = p := by
  obtain ⟨a1, a2, a3, a4, _, a6, _, a8, a9, _, a11, a12⟩ := frameOf_fields p dst src hp
  obtain ⟨b1, b2, b3, _, b5⟩ := frameOf_udp p dst src hp
  refine ⟨frameOf p dst src, udp4pkt_eq p dst src, frameOf_length p dst src, a1, a2, a3, a4, a6, a8, a9, a11, a12,
    b1, b2, b3, b5, ?_⟩
  have h : (frameOf p dst src).drop 28 = (ipPayload (frameOf p dst src)).drop 8 := by
    rw [ipPayload, a4, a3, List.take_of_length_le (by rw [frameOf_length]; omega), List.drop_drop]
  rw [h]; exact b5

/-- **C18 (layout, the given addresses and ports).** With 4-byte IPv4 addresses
and 16-bit ports the frame carries exactly them. -/
theorem C18_layout_given (p a b : Bytes) (sp dp : Nat) (hp : 28 + p.length ≤ 65535)
    (ha : a.length = 4) (hb : b.length = 4) (hsp : sp < 65536) (hdp : dp < 65536) :
    ∃ f, udp4pkt p ⟨some b, dp⟩ ⟨some a, sp⟩ = .ok f ∧
      srcAddr f = a ∧ dstAddr f = b ∧ srcPort f = sp ∧ dstPort f = dp := by
  obtain ⟨f, h, _, _, _, _, _, _, _, _, h1, h2, h3, h4, _⟩ := C18_layout p ⟨some b, dp⟩ ⟨some a, sp⟩ hp
  refine ⟨f, h, ?_, ?_, ?_, ?_⟩
  · simpa [to4, ha] using h1
  · simpa [to4, hb] using h2
  · simpa [Nat.mod_eq_of_lt hsp] using h3
  · simpa [Nat.mod_eq_of_lt hdp] using h4

/-- **C18 (IPv4 header checksum).** The header of the emitted frame verifies
under RFC 791 / RFC 1071: the one's-complement sum of its ten words, checksum
field included, is `0xFFFF`. -/
theorem C18_ipck (p : Bytes) (dst src : Addr) (hp : 28 + p.length ≤ 65535) :
    ∃ f, udp4pkt p dst src = .ok f ∧ IPHeaderVerifies f :=
  ⟨frameOf p dst src, udp4pkt_eq p dst src, frameOf_ipck p dst src hp⟩

/-- **C18 (UDP checksum).** For payloads of odd and even length alike, the
one's-complement sum over the RFC 768 pseudo header (addresses, protocol, UDP
length as found in the frame), the UDP header with the transmitted checksum
field, and the data (padded with a zero octet when odd) is `0xFFFF`: the
datagram passes a receiver's check whether or not the receiver treats a zero
field as "no checksum". -/
theorem C18_udpck (p : Bytes) (dst src : Addr) (hp : 28 + p.length ≤ 65535) :
    ∃ f, udp4pkt p dst src = .ok f ∧ UDPSumVerifies f ∧ UDPVerifies f :=
  ⟨frameOf p dst src, udp4pkt_eq p dst src, frameOf_udpck p dst src hp, Or.inr (frameOf_udpck p dst src hp)⟩

/-- **C18 (no wrap-around, proved not assumed).** With a 16-bit initial value
and a buffer shorter than 2^16 bytes the exact integer value of the `uint32`
accumulator of `calculateChecksum` — initial value plus the integer sum of the
buffer's 16-bit words — is below 2^32, so the modelled `uint32` additions never
wrap, and the 16-bit result is congruent to that exact sum mod 65535 and is
zero only if the sum is. -/
theorem C18_accumulator_no_wrap (buf : Bytes) (x : Nat) (hx : x < 65536) (hl : buf.length < 65536) :
    x + wordSum buf < 4294967296 ∧ checksum buf x < 65536 ∧
      checksum buf x % 65535 = (x + wordSum buf) % 65535 ∧ (checksum buf x = 0 ↔ x + wordSum buf = 0) := by
  have r : Rep x x := ⟨hx, rfl, Iff.rfl⟩
  obtain ⟨h1, h2, h3⟩ := checksum_rep buf r (by omega)
  exact ⟨no_wrap buf x hx (by omega), h1, h2, h3⟩

/-- RFC 768's sender rule ("if the computed checksum is zero, it is transmitted
as all ones") as a statement about every emitted frame.  It is FALSE of the
model and of the code, see the counterexample. -/
def C18_udpck_senderrule_full : Prop :=
  ∀ (p : Bytes) (dst src : Addr), 28 + p.length ≤ 65535 → ∀ f, udp4pkt p dst src = .ok f → UDPSenderRule f

/-- What holds instead: the transmitted field is never `0xFFFF`, and it is
`0x0000` exactly when the sum of everything but the field is ≡ 0 mod 65535 —
the case where RFC 768 asks for `0xFFFF`. -/
theorem C18_udpck_senderrule_partial (p : Bytes) (dst src : Addr) (hp : 28 + p.length ≤ 65535) :
    ∃ f, udp4pkt p dst src = .ok f ∧ udpChecksum f ≠ 0xFFFF ∧
      (udpChecksum f = 0 ↔
        ((pseudoWords f).sum + wordSum (ipPayload f) - udpChecksum f) % 65535 = 0) := by
  refine ⟨frameOf p dst src, udp4pkt_eq p dst src, ?_⟩
  obtain ⟨_, _, _, hck, _⟩ := frameOf_udp p dst src hp
  obtain ⟨h1, h2⟩ := udpCk_facts p dst src hp
  rw [hck, frameOf_pseudo_sum p dst src hp, Nat.add_sub_cancel]
  exact ⟨h1, h2⟩

/-- A DHCP-shaped witness: a client broadcasting from `0.0.0.0:68` to
`255.255.255.255:67` the two bytes `ff 53` sends a UDP checksum field of
`0x0000`.  (Replayed on the real code: frame
`4500001e0000000040117ad000000000ffffffff00440043000a0000ff53`.) -/
theorem C18_udpck_senderrule_counterexample : ¬ C18_udpck_senderrule_full := by
  intro h
  exact h [0xff, 0x53] ⟨some [255, 255, 255, 255], 67⟩ ⟨none, 68⟩ (by decide) _ (udp4pkt_eq _ _ _) (by decide)

/-- **C18 (write needs a bound address).** `WriteTo` takes the source from the
bound address; with a nil bound address (which `udpMatch` explicitly supports
on the read side) the code dereferences nil. Outside the property's domain;
recorded because the model says so and the stream confirms it. -/
theorem C18_write_unbound_panics (p : Bytes) (dst : Addr) : writeTo none p dst = .panic := rfl

theorem C18_write_no_panic (p : Bytes) (dst src : Addr) : writeTo (some src) p dst ≠ .panic := by
  simp [writeTo, udp4pkt_eq]

/-- **C18 (writes are independent).** For any list of datagrams written
through one bound connection no write panics, there is exactly one frame per
datagram, and the frame of datagram `i` is `udp4pkt` of datagram `i` alone — a
pure function of (payload, destination, bound address): frames of distinct
writes share nothing, so every clause above (layout, checksums, payload
verbatim) holds for each frame whatever the other writers do.  This is a
statement about the model; that the Go code keeps no mutable state shared by
concurrent `WriteTo` calls is checked by the harness (parked-writer scenarios,
race detector) and by the facts `fact_writeTo_stateless`, not proved. -/
theorem C18_write_independent (src : Addr) (ds : List (Bytes × Addr)) :
    ∃ fs, writeAll (some src) ds = .ok fs ∧
      ds.map (fun d => udp4pkt d.1 d.2 src) = fs.map Res.ok := by
  induction ds with
  | nil => exact ⟨[], rfl, rfl⟩
  | cons d rest ih =>
    obtain ⟨fs, h, hall⟩ := ih
    obtain ⟨p, a⟩ := d
    refine ⟨frameOf p a src :: fs, ?_, ?_⟩
    · simp [writeAll, writeTo, udp4pkt_eq, h, bind, Res.bind, pure]
    · rw [List.map_cons, List.map_cons, hall, udp4pkt_eq]

/-! ## reading -/

/-- what `ReadFrom` owes the caller for a frame: its UDP data cut to the
caller's buffer (Go's `copy`) and the sender -/
def delivered (buflen : Nat) (f : Bytes) : Step :=
  .deliver ((payloadAndSrc f).1.take buflen) (payloadAndSrc f).2.1 (payloadAndSrc f).2.2

/-- **C18 (read, full statement).** For any frame sequence the successive
`ReadFrom` results are, in arrival order, exactly the payload and source of
the well-formed frames addressed to the bound address; every other frame is
skipped silently.  FALSE of the model and of the code for two kinds of frame,
see the counterexamples. -/
def C18_read_exact_full : Prop :=
  ∀ (bound : Option Addr) (buflen : Nat) (fs : List Bytes),
    readFrames bound buflen fs =
      .ok ((fs.filter (fun f => decide (WellFormedForMe f (toSpec bound)))).map (delivered buflen))

/-- **C18 (read, what holds).** The full statement holds for every sequence of
frames none of which is empty or longer than the reader's receive buffer
(`60 + 8 + len(b)` bytes): any IHL 5..15, any trailing padding (ignored), any
total length (it bounds the payload; shorter than header+8 or longer than the
frame → skipped), non-IPv4, non-UDP, truncated, other ports and addresses. -/
theorem C18_read_exact_partial (bound : Option Addr) (buflen : Nat) (fs : List Bytes)
    (h : ∀ f ∈ fs, f ≠ [] ∧ f.length ≤ 60 + 8 + buflen) :
    readFrames bound buflen fs =
      .ok ((fs.filter (fun f => decide (WellFormedForMe f (toSpec bound)))).map (delivered buflen)) :=
  readFrames_clean bound buflen fs h

/-- **C18 (read, exact characterisation for ALL frame sequences).** What the
reader does with a frame depends only on the first `60 + 8 + len(b)` bytes it
receives of it: nothing received → that `ReadFrom` call returns `io.EOF`; a
well-formed prefix addressed to the bound address → delivered; anything else →
skipped. -/
theorem C18_read_characterisation (bound : Option Addr) (buflen : Nat) (fs : List Bytes) :
    readFrames bound buflen fs =
      .ok (fs.filterMap (fun f =>
        let g := f.take (60 + 8 + buflen)
        if g = [] then some Step.eof
        else if WellFormedForMe g (toSpec bound) then some (delivered buflen g)
        else none)) := by
  rw [readFrames_eq]
  apply congrArg
  apply filterMap_congr'
  intro f _
  simp only [specStep, delivered, payloadAndSrc]
  split
  · rfl
  · split <;> rfl

/-- First counterexample: a zero-length frame is not skipped — that `ReadFrom`
call returns `io.EOF` (and `nclient4`'s receive loop then exits). -/
theorem C18_read_exact_counterexample : ¬ C18_read_exact_full := by
  intro h
  have := h none 0 [[]]
  revert this
  decide

/-- Second counterexample: a well-formed frame longer than the receive buffer
is cut by the underlying read, fails `isValid` (total length > bytes read) and
is dropped, where the statement asks for its payload cut to the caller's
buffer.  Witness: 69-byte frame, `len(b) = 0`. -/
theorem C18_read_exact_counterexample_oversize :
    ∃ (bound : Option Addr) (buflen : Nat) (f : Bytes), f ≠ [] ∧
      readFrames bound buflen [f] ≠
        .ok (([f].filter (fun f => decide (WellFormedForMe f (toSpec bound)))).map (delivered buflen)) :=
  ⟨some ⟨none, 68⟩, 0,
    [0x45, 0, 0, 69, 0, 0, 0, 0, 64, 17, 0, 0, 10, 0, 0, 1, 10, 0, 0, 2, 0, 67, 0, 68, 0, 49, 0, 0] ++ zeros 41,
    by decide, by decide⟩

/-- **C18 (the reader never panics).** No frame, and no sequence of frames,
makes `ReadFrom` panic: every index, slice and `Consume` in the loop body is
within bounds (the `Consume` length is never negative). -/
theorem C18_read_no_panic (bound : Option Addr) (buflen : Nat) :
    (∀ f : Bytes, readFrame bound buflen f ≠ .panic) ∧
    (∀ fs : List Bytes, readFrames bound buflen fs ≠ .panic) ∧
    (∀ fs : List Bytes, readFrom bound buflen fs ≠ .panic) := by
  refine ⟨fun f => by simp [readFrame_eq], fun fs => by simp [readFrames_eq], fun fs => ?_⟩
  induction fs with
  | nil => simp [readFrom]
  | cons f rest ih =>
    simp only [readFrom, readFrame_eq]
    cases specStep (toSpec bound) buflen (f.take (60 + 8 + buflen)) <;> simp [ih]

/-- **C18 (write then read).** A frame emitted for a 4-byte destination
address and 16-bit ports is delivered, whole and with its sender, by a reader
bound to that port (with or without the address) whose buffer holds it. -/
theorem C18_write_read (p a b : Bytes) (sp dp buflen : Nat) (hp : 28 + p.length ≤ 65535)
    (ha : a.length = 4) (hb : b.length = 4) (hsp : sp < 65536) (hdp : dp < 65536) (hbuf : p.length ≤ buflen)
    (bip : GoIP) (hbip : bip = none ∨ bip = some b) :
    ∃ f, udp4pkt p ⟨some b, dp⟩ ⟨some a, sp⟩ = .ok f ∧
      readFrames (some ⟨bip, dp⟩) buflen [f] = .ok [Step.deliver p a sp] := by
  obtain ⟨f, hf, l1, l2, l3, l4, l5, _, _, l9, _, _, _, _, _, l15, _⟩ :=
    C18_layout p ⟨some b, dp⟩ ⟨some a, sp⟩ hp
  obtain ⟨f', hf', g1, g2, g3, g4⟩ := C18_layout_given p a b sp dp hp ha hb hsp hdp
  have : f' = f := by rw [hf] at hf'; exact (Res.ok.inj hf').symm
  subst this
  refine ⟨f', hf, ?_⟩
  have hwf : WellFormedForMe f' (toSpec (some ⟨bip, dp⟩)) := by
    refine ⟨⟨by omega, l2, by omega, by omega, by omega, l9⟩, ?_⟩
    rcases hbip with h | h <;> subst h
    · simpa [toSpec, ForMe] using g4
    · simp only [toSpec, ForMe, Option.map_some]
      exact ⟨g4, Or.inl g2.symm⟩
  rw [readFrames_clean _ _ _ (by
    intro x hx; simp only [List.mem_singleton] at hx; subst hx
    exact ⟨by intro e; rw [e] at l1; simp at l1; omega, by omega⟩)]
  have hd : decide (WellFormedForMe f' (toSpec (some ⟨bip, dp⟩))) = true := decide_eq_true hwf
  simp only [List.filter_cons, List.filter_nil, hd, if_true, List.map_cons, List.map_nil,
    l15, g1, g3, List.take_of_length_le hbuf]

/-! ## non-vacuity -/

/-- the hypotheses of the write theorems hold for a 300-byte payload of `0xff`
(every word carries) and for an odd-length one -/
example : 28 + (List.replicate 300 (0xff : UInt8)).length ≤ 65535 ∧ 28 + ([1, 2, 3] : Bytes).length ≤ 65535 :=
  ⟨by rw [List.length_replicate]; omega, by decide⟩

/-- the hypothesis of `C18_read_exact_partial` holds for a sequence mixing a
frame with IP options and trailing padding that is delivered, a frame for
another port, and garbage; and the first one is well-formed for the reader -/
example :
    let f1 : Bytes := [0x46, 0, 0, 34, 0, 0, 0, 0, 64, 17, 0, 0, 10, 0, 0, 1, 10, 0, 0, 2, 1, 1, 1, 0,
      0, 67, 0, 68, 0, 10, 0, 0, 0xab, 0xcd, 0, 0, 0]
    let f2 : Bytes := [0x45, 0, 0, 28, 0, 0, 0, 0, 64, 17, 0, 0, 10, 0, 0, 1, 10, 0, 0, 2, 0, 67, 0, 69, 0, 8, 0, 0]
    (∀ f ∈ [f1, f2, [1, 2, 3]], f ≠ [] ∧ f.length ≤ 60 + 8 + 576) ∧
      WellFormedForMe f1 (toSpec (some ⟨some [10, 0, 0, 2], 68⟩)) ∧
      readFrames (some ⟨some [10, 0, 0, 2], 68⟩) 576 [f1, f2, [1, 2, 3]] =
        .ok [Step.deliver [0xab, 0xcd] [10, 0, 0, 1] 67] := by
  decide

/-- **C18 (read: IPv4 options are no criterion).** Two frames that differ only in the
octets of their IPv4 options - same fixed header `h` (20 octets, IHL = 5 + options/4),
options of the same length, same rest - get the same treatment: both skipped, or both
delivered with the same payload, source address and source port.  A reader that looks
INTO the options (to drop source-routed datagrams, say) is not this reader. -/
theorem C18_read_options_irrelevant (bound : Option Addr) (buflen : Nat) (h o o' rest : Bytes)
    (hh : h.length = 20) (ho : o'.length = o.length) (hl : 4 * (byteAt h 0 % 16) = 20 + o.length)
    (hfit : 20 + o.length + rest.length ≤ 60 + 8 + buflen) :
    readFrames bound buflen [h ++ (o ++ rest)] = readFrames bound buflen [h ++ (o' ++ rest)] := by
  have hne : ∀ x : Bytes, h ++ (x ++ rest) ≠ [] := by
    intro x hx
    have := congrArg List.length hx
    simp [hh] at this
  rw [C18_read_exact_partial bound buflen [h ++ (o ++ rest)] (by
        intro f hf; rw [List.mem_singleton] at hf; subst hf
        exact ⟨hne o, by simp [hh]; omega⟩),
      C18_read_exact_partial bound buflen [h ++ (o' ++ rest)] (by
        intro f hf; rw [List.mem_singleton] at hf; subst hf
        exact ⟨hne o', by simp [hh, ho]; omega⟩)]
  have key := options_irrelevant h o o' rest hh ho hl (toSpec bound)
  have hd : delivered buflen (h ++ (o ++ rest)) = delivered buflen (h ++ (o' ++ rest)) := by
    unfold delivered; rw [key.2]
  simp only [List.filter_cons, List.filter_nil]
  by_cases hw : WellFormedForMe (h ++ (o ++ rest)) (toSpec bound)
  · simp [hw, key.1.mp hw, hd]
  · have hw' : ¬ WellFormedForMe (h ++ (o' ++ rest)) (toSpec bound) := fun x => hw (key.1.mpr x)
    simp [hw, hw']

/-- non-vacuity: a frame with IHL 7 and a loose source route in its options, and the
same frame with no-operation octets instead. -/
example : 4 * (byteAt ([0x47, 0, 0, 44, 0, 0, 0, 0, 64, 17, 0, 0, 10, 0, 0, 1, 10, 0, 0, 2] : Bytes) 0 % 16) = 20 + ([131, 7, 4, 192, 0, 2, 254, 0] : Bytes).length := by
  decide
end Dhcp.Raw

import DhcpProofs.Lemmas.ClientTimed
/-
  C12 — retransmission follows the configured schedule exactly.
  Property theorems only (helper lemmas: DhcpProofs/Lemmas/ClientTimed.lean).

  Model: Dhcp.Client.Timed.  `runObs T n obs H` is the result (instants of all
  transmissions up to the horizon `H`, and the return if any) of one
  SendAndRead call with timeout `T` ns and retry count `n`, for the sequence
  `obs` of stimuli as the calling goroutine observes them; `runCall` is the
  set of results a script of external events allows (what the driver prints
  and the client4/client6 streams compare with the real clients).

  "Identical datagram, requested destination" (`C12_bytes`) is carried by the
  harness: every WriteTo of the real client is compared byte for byte with the
  request's encoding and with the destination (streams client4/client6 and
  oracle c12); the model has no bytes.
-/
namespace Dhcp.Client.Timed

/-- **C12 (schedule).** `n ≥ 0` tries, timeout `T > 0`, ANY traffic that
contains no acceptable response (datagrams the matcher rejects, datagrams the
receive loop drops — any number, any instants, any coincidence with the
deadlines), no cancellation, no Close: the call transmits exactly `n` times,
at `T·(2^k − 1)` for `k < n`, and fails with the no-response error at
`T·(2^n − 1)`.  (`NoOverflow`: `timeout *= 2` stays inside `int64`; it is what
ties the unbounded `Int` of the model to `time.Duration`.) -/
theorem C12_times (T n : Int) (obs : List Obs) (H : Int) (hT : 0 < T) (hn : 0 ≤ n)
    (_hov : NoOverflow T n.toNat)
    (hq : ∀ o ∈ obs, o.kind = .irr ∨ o.kind = .rej) (hH : T * (2 ^ n.toNat - 1) ≤ H) :
    runObs T n obs H =
      ⟨(List.range n.toNat).map (fun k => T * (2 ^ k - 1)), some (T * (2 ^ n.toNat - 1), .noResp)⟩ :=
  times_of_quiet hT hn obs H hq hH

/-- **C12 (count).** Exactly `n` transmissions in that case. -/
theorem C12_count (T n : Int) (obs : List Obs) (H : Int) (hT : 0 < T) (hn : 0 ≤ n)
    (hq : ∀ o ∈ obs, o.kind = .irr ∨ o.kind = .rej) (hH : T * (2 ^ n.toNat - 1) ≤ H) :
    (runObs T n obs H).txs.length = n.toNat := by
  rw [times_of_quiet hT hn obs H hq hH]; exact sched_length T _

/-- **C12 (negative try count retries until cancelled), running form.** `n < 0`,
no acceptable response: at any horizon `H` lying in try `m`
(`T·(2^m − 1) ≤ H < T·(2^(m+1) − 1)`) the call is still running and has
transmitted at `T·(2^k − 1)` for every `k ≤ m`. Holds for every `m`: the call
never gives up. -/
theorem C12_negative (T n : Int) (obs : List Obs) (H : Int) (m : Nat) (hT : 0 < T) (hn : n < 0)
    (hq : ∀ o ∈ obs, o.kind = .irr ∨ o.kind = .rej) (hobs : ∀ o ∈ obs, o.t ≤ H)
    (hm1 : T * (2 ^ m - 1) ≤ H) (hm2 : H < T * (2 ^ (m + 1) - 1)) :
    runObs T n obs H = ⟨(List.range (m + 1)).map (fun k => T * (2 ^ k - 1)), none⟩ :=
  negative_running hT hn obs H m hq hobs hm1 hm2

/-- **C12 (negative try count), cancelled form.** … and when the context ends
at an instant `τ` inside try `m` the call returns the context's error at `τ`
having transmitted exactly `m + 1` times; nothing after (`post`, `H` arbitrary). -/
theorem C12_negative_cancel (T n : Int) (pre post : List Obs) (τ : Int) (tag : Nat) (H : Int) (m : Nat)
    (hT : 0 < T) (hn : n < 0) (hq : ∀ o ∈ pre, o.kind = .irr ∨ o.kind = .rej) (hpre : ∀ o ∈ pre, o.t ≤ τ)
    (hm1 : T * (2 ^ m - 1) ≤ τ) (hm2 : τ < T * (2 ^ (m + 1) - 1)) :
    runObs T n (pre ++ ⟨τ, .ctx, tag, true⟩ :: post) H =
      ⟨(List.range (m + 1)).map (fun k => T * (2 ^ k - 1)), some (τ, .ctxErr)⟩ :=
  quiet_then_terminal hT pre post ⟨τ, .ctx, tag, true⟩ H m hq (Or.inr (Or.inl rfl)) rfl hpre hm1 hm2 (Or.inl hn)

/-- **C12 (a response accepted during try `k` ends the call), forward form.**
Rejected/foreign traffic, then an acceptable response observed at an instant
`τ` inside try `k` (a try the retry count allows): the call returns that
response at `τ` after exactly `k + 1` transmissions, whatever arrives later
and however far the horizon is: no further transmission follows. -/
theorem C12_stop (T n : Int) (pre post : List Obs) (τ : Int) (tag : Nat) (H : Int) (k : Nat)
    (hT : 0 < T) (hk : n < 0 ∨ (k : Int) < n)
    (hq : ∀ o ∈ pre, o.kind = .irr ∨ o.kind = .rej) (hpre : ∀ o ∈ pre, o.t ≤ τ)
    (hk1 : T * (2 ^ k - 1) ≤ τ) (hk2 : τ < T * (2 ^ (k + 1) - 1)) :
    runObs T n (pre ++ ⟨τ, .acc, tag, true⟩ :: post) H =
      ⟨(List.range (k + 1)).map (fun j => T * (2 ^ j - 1)), some (τ, .resp tag)⟩ :=
  quiet_then_terminal hT pre post ⟨τ, .acc, tag, true⟩ H k hq (Or.inl rfl) rfl hpre hk1 hk2 hk

/-- **C12 (stop), inverse form, every observation sequence** (racing
coincidences included): whenever a call returns a response, it does so at an
instant `τ` of some try `k`, and the transmissions are exactly those of tries
`0..k`. -/
theorem C12_stop_any (T n : Int) (obs : List Obs) (H τ : Int) (i : Nat) (hT : 0 < T)
    (h : (runObs T n obs H).ret = some (τ, .resp i)) :
    ∃ k : Nat, (runObs T n obs H).txs = (List.range (k + 1)).map (fun j => T * (2 ^ j - 1)) ∧
      (n < 0 ∨ (k : Int) < n) ∧ T * (2 ^ k - 1) ≤ τ ∧ τ ≤ T * (2 ^ (k + 1) - 1) :=
  resp_shape hT obs H τ i h

/-- **C12 (transmissions are always a prefix of the schedule).** For EVERY
observation sequence (accepted, rejected, cancelled, closed, racing with
deadlines or not): the transmissions are `T·(2^k − 1)`, `k < m`, for some `m`
(`m ≤ n` when `n ≥ 0`), and none is later than the return. -/
theorem C12_prefix (T n : Int) (obs : List Obs) (H : Int) (hT : 0 < T) :
    ∃ m, (runObs T n obs H).txs = (List.range m).map (fun k => T * (2 ^ k - 1)) ∧ (0 ≤ n → (m : Int) ≤ n) ∧
      ∀ t o, (runObs T n obs H).ret = some (t, o) → ∀ x ∈ (runObs T n obs H).txs, x ≤ t := by
  obtain ⟨m, h1, h2, h3⟩ := result_shape (n := n) hT obs H
  exact ⟨m, h1, h2, fun t o h x hx => (h3 t o h).1 x (h1 ▸ hx)⟩

/-- **C12 for the script-level model** (the function whose output the
correspondence streams compare with the real clients): every result allowed
for any script obeys the prefix law. -/
theorem C12_prefix_script (T n : Int) (evs : List Event) (H : Int) (hT : 0 < T) (r : Result)
    (hr : r ∈ runCall T n evs H) :
    ∃ m, r.txs = (List.range m).map (fun k => T * (2 ^ k - 1)) ∧ (0 ≤ n → (m : Int) ≤ n) := by
  obtain ⟨obs, rfl⟩ := runCall_sound T n evs H r hr
  obtain ⟨m, h1, h2, _⟩ := C12_prefix T n obs H hT
  exact ⟨m, h1, h2⟩

/-- **C12 (schedule) for the script-level model**: for a script that injects
only rejected / dropped datagrams (at any instants, applied at quiescence or
racing, in bursts or not) EVERY result the driver can print is the full
schedule followed by the no-response error. -/
theorem C12_times_script (T n : Int) (evs : List Event) (H : Int) (hT : 0 < T) (hn : 0 ≤ n)
    (hq : ∀ e ∈ evs, e.kind = .irr ∨ e.kind = .rej) (hH : T * (2 ^ n.toNat - 1) ≤ H) (r : Result)
    (hr : r ∈ runCall T n evs H) :
    r = ⟨(List.range n.toNat).map (fun k => T * (2 ^ k - 1)), some (T * (2 ^ n.toNat - 1), .noResp)⟩ := by
  obtain ⟨obs, hobs, rfl⟩ := runCall_quiet_sound T n evs H hq r hr
  exact times_of_quiet hT hn obs H hobs hH

/-! Non-vacuity: concrete runs (evaluated by the kernel). -/

/-- T = 1000, 3 tries, a rejected datagram every 300 ns (also exactly on the
deadlines 1000 and 3000, racing): transmissions at 0, 1000, 3000, gives up at 7000. -/
example : runObs 1000 3 ((List.range 30).map (fun i => ⟨300 * i + 100, .rej, i, i % 2 == 0⟩)
      ++ [⟨1000, .rej, 40, false⟩, ⟨3000, .irr, 41, false⟩]) 10000 =
    ⟨[0, 1000, 3000], some (7000, .noResp)⟩ := by decide

/-- accepted in try 1 (at 2500 of a 1000/3-try call): two transmissions, none after. -/
example : runObs 1000 3 [⟨400, .rej, 0, true⟩, ⟨2500, .acc, 7, true⟩, ⟨2600, .acc, 8, true⟩] 10000 =
    ⟨[0, 1000], some (2500, .resp 7)⟩ := by decide

/-- negative count: still running at 40000, six transmissions so far. -/
example : runObs 1000 (-1) [⟨400, .rej, 0, true⟩] 40000 =
    ⟨[0, 1000, 3000, 7000, 15000, 31000], none⟩ := by decide

/-- the hypotheses of `C12_times` are satisfiable with defaults of the clients (5 s, 3 tries). -/
example : NoOverflow 5000000000 3 ∧ (0 : Int) < 5000000000 := by unfold NoOverflow; decide

end Dhcp.Client.Timed

import DhcpProofs.Lemmas.ClientTimed
import DhcpProofs.Lemmas.ClientBytes
/-
  C12 — retransmission follows the configured schedule exactly.
  Property theorems only (helper lemmas: DhcpProofs/Lemmas/ClientTimed.lean).

  Model: Dhcp.Client.Timed.  `runObs T n obs H` is the result (instants of all
  transmissions up to the horizon `H`, and the return if any) of one
  SendAndRead call with timeout `T` ns and retry count `n`, for the sequence
  `obs` of stimuli as the calling goroutine observes them; `runCall` is the
  set of results a script of external events allows (what the driver prints
  and the client4/client6 streams compare with the real clients).

  "Identical datagram, requested destination" (`C12_bytes*`, last section):
  `runObsB c T n obs H` is the same machine with every transmission recorded
  in full (instant, bytes, destination).  `c : Call Req Dest` describes the
  call: `c.enc` is `ToBytes` (abstract), `c.dest` the destination argument,
  `c.reqAt k` the value of the request when try `k` runs `send` (the code
  calls `msg.ToBytes()` on every try).  Forgetting bytes and destinations
  gives `runObs` (`C12_bytes_projection`), so all theorems above hold of it.
  The streams client4/client6 and oracle c12 compare every WriteTo of the real
  clients byte for byte with the request's encoding and with the destination;
  the driver prints the flags the model computes (`wire`) next to each instant.
-/
namespace Dhcp.Client.Timed

/-- **C12 (schedule).** `n ≥ 0` tries, timeout `T > 0`, ANY traffic that
contains no acceptable response (datagrams the matcher rejects, datagrams the
receive loop drops — any number, any instants, any coincidence with the
deadlines), no cancellation, no Close: the call transmits exactly `n` times,
at `T·(2^k − 1)` for `k < n`, and fails with the no-response error at
`T·(2^n − 1)`.  (`NoOverflow`: `timeout *= 2` stays inside `int64`; it is what
ties the unbounded `Int` of the model to `time.Duration`.) -/
theorem C12_times (T n : Int) (obs : List Obs) (H : Int) (hT : 0 < T) (hn : 0 ≤ n)
    (_hov : NoOverflow T n.toNat)
    (hq : ∀ o ∈ obs, o.kind = .irr ∨ o.kind = .rej) (hH : T * (2 ^ n.toNat - 1) ≤ H) :
    runObs T n obs H =
      ⟨(List.range n.toNat).map (fun k => T * (2 ^ k - 1)), some (T * (2 ^ n.toNat - 1), .noResp)⟩ :=
  times_of_quiet hT hn obs H hq hH

/-- **C12 (count).** Exactly `n` transmissions in that case. -/
theorem C12_count (T n : Int) (obs : List Obs) (H : Int) (hT : 0 < T) (hn : 0 ≤ n)
    (hq : ∀ o ∈ obs, o.kind = .irr ∨ o.kind = .rej) (hH : T * (2 ^ n.toNat - 1) ≤ H) :
    (runObs T n obs H).txs.length = n.toNat := by
  rw [times_of_quiet hT hn obs H hq hH]; exact sched_length T _

/-- **C12 (negative try count retries until cancelled), running form.** `n < 0`,
no acceptable response: at any horizon `H` lying in try `m`
(`T·(2^m − 1) ≤ H < T·(2^(m+1) − 1)`) the call is still running and has
transmitted at `T·(2^k − 1)` for every `k ≤ m`. Holds for every `m`: the call
never gives up. -/
theorem C12_negative (T n : Int) (obs : List Obs) (H : Int) (m : Nat) (hT : 0 < T) (hn : n < 0)
    (hq : ∀ o ∈ obs, o.kind = .irr ∨ o.kind = .rej) (hobs : ∀ o ∈ obs, o.t ≤ H)
    (hm1 : T * (2 ^ m - 1) ≤ H) (hm2 : H < T * (2 ^ (m + 1) - 1)) :
    runObs T n obs H = ⟨(List.range (m + 1)).map (fun k => T * (2 ^ k - 1)), none⟩ :=
  negative_running hT hn obs H m hq hobs hm1 hm2

/-- **C12 (negative try count), cancelled form.** … and when the context ends
at an instant `τ` inside try `m` the call returns the context's error at `τ`
having transmitted exactly `m + 1` times; nothing after (`post`, `H` arbitrary). -/
theorem C12_negative_cancel (T n : Int) (pre post : List Obs) (τ : Int) (tag : Nat) (H : Int) (m : Nat)
    (hT : 0 < T) (hn : n < 0) (hq : ∀ o ∈ pre, o.kind = .irr ∨ o.kind = .rej) (hpre : ∀ o ∈ pre, o.t ≤ τ)
    (hm1 : T * (2 ^ m - 1) ≤ τ) (hm2 : τ < T * (2 ^ (m + 1) - 1)) :
    runObs T n (pre ++ ⟨τ, .ctx, tag, true⟩ :: post) H =
      ⟨(List.range (m + 1)).map (fun k => T * (2 ^ k - 1)), some (τ, .ctxErr)⟩ :=
  quiet_then_terminal hT pre post ⟨τ, .ctx, tag, true⟩ H m hq (Or.inr (Or.inl rfl)) rfl hpre hm1 hm2 (Or.inl hn)

/-- **C12 (a response accepted during try `k` ends the call), forward form.**
Rejected/foreign traffic, then an acceptable response observed at an instant
`τ` inside try `k` (a try the retry count allows): the call returns that
response at `τ` after exactly `k + 1` transmissions, whatever arrives later
and however far the horizon is: no further transmission follows. -/
theorem C12_stop (T n : Int) (pre post : List Obs) (τ : Int) (tag : Nat) (H : Int) (k : Nat)
    (hT : 0 < T) (hk : n < 0 ∨ (k : Int) < n)
    (hq : ∀ o ∈ pre, o.kind = .irr ∨ o.kind = .rej) (hpre : ∀ o ∈ pre, o.t ≤ τ)
    (hk1 : T * (2 ^ k - 1) ≤ τ) (hk2 : τ < T * (2 ^ (k + 1) - 1)) :
    runObs T n (pre ++ ⟨τ, .acc, tag, true⟩ :: post) H =
      ⟨(List.range (k + 1)).map (fun j => T * (2 ^ j - 1)), some (τ, .resp tag)⟩ :=
  quiet_then_terminal hT pre post ⟨τ, .acc, tag, true⟩ H k hq (Or.inl rfl) rfl hpre hk1 hk2 hk

/-- **C12 (stop), inverse form, every observation sequence** (racing
coincidences included): whenever a call returns a response, it does so at an
instant `τ` of some try `k`, and the transmissions are exactly those of tries
`0..k`. -/
theorem C12_stop_any (T n : Int) (obs : List Obs) (H τ : Int) (i : Nat) (hT : 0 < T)
    (h : (runObs T n obs H).ret = some (τ, .resp i)) :
    ∃ k : Nat, (runObs T n obs H).txs = (List.range (k + 1)).map (fun j => T * (2 ^ j - 1)) ∧
      (n < 0 ∨ (k : Int) < n) ∧ T * (2 ^ k - 1) ≤ τ ∧ τ ≤ T * (2 ^ (k + 1) - 1) :=
  resp_shape hT obs H τ i h

/-- **C12 (transmissions are always a prefix of the schedule).** For EVERY
observation sequence (accepted, rejected, cancelled, closed, racing with
deadlines or not): the transmissions are `T·(2^k − 1)`, `k < m`, for some `m`
(`m ≤ n` when `n ≥ 0`), and none is later than the return. -/
theorem C12_prefix (T n : Int) (obs : List Obs) (H : Int) (hT : 0 < T) :
    ∃ m, (runObs T n obs H).txs = (List.range m).map (fun k => T * (2 ^ k - 1)) ∧ (0 ≤ n → (m : Int) ≤ n) ∧
      ∀ t o, (runObs T n obs H).ret = some (t, o) → ∀ x ∈ (runObs T n obs H).txs, x ≤ t := by
  obtain ⟨m, h1, h2, h3⟩ := result_shape (n := n) hT obs H
  exact ⟨m, h1, h2, fun t o h x hx => (h3 t o h).1 x (h1 ▸ hx)⟩

/-- **C12 for the script-level model** (the function whose output the
correspondence streams compare with the real clients): every result allowed
for any script obeys the prefix law. -/
theorem C12_prefix_script (T n : Int) (evs : List Event) (H : Int) (hT : 0 < T) (r : Result)
    (hr : r ∈ runCall T n evs H) :
    ∃ m, r.txs = (List.range m).map (fun k => T * (2 ^ k - 1)) ∧ (0 ≤ n → (m : Int) ≤ n) := by
  obtain ⟨obs, rfl⟩ := runCall_sound T n evs H r hr
  obtain ⟨m, h1, h2, _⟩ := C12_prefix T n obs H hT
  exact ⟨m, h1, h2⟩

/-- **C12 (schedule) for the script-level model**: for a script that injects
only rejected / dropped datagrams (at any instants, applied at quiescence or
racing, in bursts or not) EVERY result the driver can print is the full
schedule followed by the no-response error. -/
theorem C12_times_script (T n : Int) (evs : List Event) (H : Int) (hT : 0 < T) (hn : 0 ≤ n)
    (hq : ∀ e ∈ evs, e.kind = .irr ∨ e.kind = .rej) (hH : T * (2 ^ n.toNat - 1) ≤ H) (r : Result)
    (hr : r ∈ runCall T n evs H) :
    r = ⟨(List.range n.toNat).map (fun k => T * (2 ^ k - 1)), some (T * (2 ^ n.toNat - 1), .noResp)⟩ := by
  obtain ⟨obs, hobs, rfl⟩ := runCall_quiet_sound T n evs H hq r hr
  exact times_of_quiet hT hn obs H hobs hH

/-! Non-vacuity: concrete runs (evaluated by the kernel). -/

/-- T = 1000, 3 tries, a rejected datagram every 300 ns (also exactly on the
deadlines 1000 and 3000, racing): transmissions at 0, 1000, 3000, gives up at 7000. -/
example : runObs 1000 3 ((List.range 30).map (fun i => ⟨300 * i + 100, .rej, i, i % 2 == 0⟩)
      ++ [⟨1000, .rej, 40, false⟩, ⟨3000, .irr, 41, false⟩]) 10000 =
    ⟨[0, 1000, 3000], some (7000, .noResp)⟩ := by decide

/-- accepted in try 1 (at 2500 of a 1000/3-try call): two transmissions, none after. -/
example : runObs 1000 3 [⟨400, .rej, 0, true⟩, ⟨2500, .acc, 7, true⟩, ⟨2600, .acc, 8, true⟩] 10000 =
    ⟨[0, 1000], some (2500, .resp 7)⟩ := by decide

/-- negative count: still running at 40000, six transmissions so far. -/
example : runObs 1000 (-1) [⟨400, .rej, 0, true⟩] 40000 =
    ⟨[0, 1000, 3000, 7000, 15000, 31000], none⟩ := by decide

/-- the hypotheses of `C12_times` are satisfiable with defaults of the clients (5 s, 3 tries). -/
example : NoOverflow 5000000000 3 ∧ (0 : Int) < 5000000000 := by unfold NoOverflow; decide

/-! ## bytes and destination

The machine with transmission records.  No hypothesis on `T`, `n`, the
observations or the horizon in `C12_bytes`, `C12_bytes_at`, `C12_bytes_mutated`:
they hold of every try of every call, whatever the caller observes. -/

/-- **C12 (projection).** The machine with bytes is the machine of instants
with more in its records: same instants, same return.  Every theorem above is
a theorem about `runObsB` through these two equations. -/
theorem C12_bytes_projection {Req Dest : Type} (c : Call Req Dest) (T n : Int) (obs : List Obs) (H : Int) :
    (runObsB c T n obs H).sent.map (·.t) = (runObs T n obs H).txs ∧
    (runObsB c T n obs H).ret = (runObs T n obs H).ret := by
  have h := runObsB_erase c T n obs H
  rw [← h]; exact ⟨rfl, rfl⟩

/-- **C12 (identical datagram, requested destination).** A request that is not
modified during the call (`reqAt k = r` for every try `k`): EVERY transmission
of the call — all tries, any `T`, any retry count, any observation sequence,
any horizon — carries exactly `enc r` and goes to the requested destination. -/
theorem C12_bytes {Req Dest : Type} (c : Call Req Dest) (r : Req) (T n : Int) (obs : List Obs) (H : Int)
    (hreq : ∀ k, c.reqAt k = r) :
    ∀ tx ∈ (runObsB c T n obs H).sent, tx.bytes = c.enc r ∧ tx.dest = c.dest := by
  intro tx htx
  rw [(runObsB_sent c T n obs H).1] at htx
  obtain ⟨i, hi⟩ := List.getElem?_of_mem htx
  rw [wire_getElem?] at hi
  cases hl : (runObs T n obs H).txs[i]? with
  | none => rw [hl] at hi; cases hi
  | some t => rw [hl] at hi; cases hi; exact ⟨by simp [Call.tx, hreq], rfl⟩

/-- **C12 (which request each transmission carries), general form.** Whatever
the caller does to the request during the call: the `j`-th transmission is made
by try `j`, at the `j`-th instant of the timed model, carries the encoding of
the request AS IT IS WHEN TRY `j` RUNS `send`, and goes to the requested
destination. -/
theorem C12_bytes_at {Req Dest : Type} (c : Call Req Dest) (T n : Int) (obs : List Obs) (H : Int) :
    (runObsB c T n obs H).sent = wire c (runObs T n obs H).txs ∧
    ∀ j tx, (runObsB c T n obs H).sent[j]? = some tx →
      (runObs T n obs H).txs[j]? = some tx.t ∧ tx.bytes = c.enc (c.reqAt j) ∧ tx.dest = c.dest := by
  refine ⟨(runObsB_sent c T n obs H).1, fun j tx h => ?_⟩
  rw [(runObsB_sent c T n obs H).1, wire_getElem?] at h
  cases hl : (runObs T n obs H).txs[j]? with
  | none => rw [hl] at h; cases h
  | some t => rw [hl] at h; cases h; exact ⟨rfl, rfl, rfl⟩

/-- **C12 (the caller changes the request between tries).** The request is `r`
up to and including the `send` of try `k` and `r'` from then on (changed while
try `k` waits): transmissions `0..k` carry `enc r`, every later one carries
`enc r'` — the NEW encoding is sent, as the code does (`msg.ToBytes()` on every
try); instants and destination are unaffected. -/
theorem C12_bytes_mutated {Req Dest : Type} (enc : Req → List UInt8) (r r' : Req) (k : Nat) (dest : Dest)
    (T n : Int) (obs : List Obs) (H : Int) :
    (runObsB (Call.mutatedAfter enc r r' k dest) T n obs H).sent.map (·.t) = (runObs T n obs H).txs ∧
    ∀ j tx, (runObsB (Call.mutatedAfter enc r r' k dest) T n obs H).sent[j]? = some tx →
      tx.dest = dest ∧ (j ≤ k → tx.bytes = enc r) ∧ (k < j → tx.bytes = enc r') := by
  refine ⟨(C12_bytes_projection _ T n obs H).1, fun j tx h => ?_⟩
  obtain ⟨_, hb, hd⟩ := (C12_bytes_at (Call.mutatedAfter enc r r' k dest) T n obs H).2 j tx h
  refine ⟨hd, fun hj => ?_, fun hj => ?_⟩
  · rw [hb]; simp [Call.mutatedAfter, hj]
  · rw [hb]; simp [Call.mutatedAfter, Nat.not_le.mpr hj]

/-- **C12, first sentence of the property in one statement.** No acceptable
response, timeout `T > 0`, `n ≥ 0` tries, request not modified: the call
transmits the identical datagram `enc r` exactly `n` times, at `T·(2^k − 1)`,
`k < n`, to the requested destination, and then fails with the no-response
error at `T·(2^n − 1)`. -/
theorem C12_identical_datagram {Req Dest : Type} (enc : Req → List UInt8) (r : Req) (dest : Dest)
    (T n : Int) (obs : List Obs) (H : Int) (hT : 0 < T) (hn : 0 ≤ n) (_hov : NoOverflow T n.toNat)
    (hq : ∀ o ∈ obs, o.kind = .irr ∨ o.kind = .rej) (hH : T * (2 ^ n.toNat - 1) ≤ H) :
    runObsB (Call.const enc r dest) T n obs H =
      ⟨(List.range n.toNat).map (fun k => ⟨T * (2 ^ k - 1), enc r, dest⟩),
       some (T * (2 ^ n.toNat - 1), .noResp)⟩ := by
  rw [runObsB_eq, C12_times T n obs H hT hn _hov hq hH]
  simp only [wire_map_range]
  rfl

/-- **C12 (a response accepted during try `k`), with bytes**: exactly `k + 1`
transmissions of the identical datagram to the requested destination, none
after. -/
theorem C12_stop_bytes {Req Dest : Type} (enc : Req → List UInt8) (r : Req) (dest : Dest)
    (T n : Int) (pre post : List Obs) (τ : Int) (tag : Nat) (H : Int) (k : Nat)
    (hT : 0 < T) (hk : n < 0 ∨ (k : Int) < n)
    (hq : ∀ o ∈ pre, o.kind = .irr ∨ o.kind = .rej) (hpre : ∀ o ∈ pre, o.t ≤ τ)
    (hk1 : T * (2 ^ k - 1) ≤ τ) (hk2 : τ < T * (2 ^ (k + 1) - 1)) :
    runObsB (Call.const enc r dest) T n (pre ++ ⟨τ, .acc, tag, true⟩ :: post) H =
      ⟨(List.range (k + 1)).map (fun j => ⟨T * (2 ^ j - 1), enc r, dest⟩), some (τ, .resp tag)⟩ := by
  rw [runObsB_eq, C12_stop T n pre post τ tag H k hT hk hq hpre hk1 hk2]
  simp only [wire_map_range]
  rfl

/-- **C12 (bytes) for the script-level model**: for every result `r` the
script-level model allows, the records the driver prints with it (`wire c r.txs`)
are what the machine with bytes transmits on some observation sequence of that
script; with an unmodified request each of them is `enc req` to `dest`. -/
theorem C12_bytes_script {Req Dest : Type} (c : Call Req Dest) (T n : Int) (evs : List Event) (H : Int)
    (r : Result) (hr : r ∈ runCall T n evs H) :
    (∃ obs, runObsB c T n obs H = ⟨wire c r.txs, r.ret⟩) ∧
    ∀ q, (∀ k, c.reqAt k = q) → ∀ tx ∈ wire c r.txs, tx.bytes = c.enc q ∧ tx.dest = c.dest := by
  obtain ⟨obs, rfl⟩ := runCall_sound T n evs H r hr
  refine ⟨⟨obs, runObsB_eq c T n obs H⟩, fun q hq tx htx => ?_⟩
  rw [← (runObsB_sent c T n obs H).1] at htx
  exact C12_bytes c q T n obs H hq tx htx

/-! Non-vacuity with bytes: requests are numbers, `enc v = [v, 99]`, destination 67. -/

/-- unmodified request 7: three transmissions of `[7, 99]` to 67 -/
example : (runObsB (Call.const (fun v : UInt8 => [v, 99]) 7 (67 : Nat)) 1000 3 [⟨400, .rej, 0, true⟩] 10000).sent =
    [⟨0, [7, 99], 67⟩, ⟨1000, [7, 99], 67⟩, ⟨3000, [7, 99], 67⟩] := by decide

/-- the caller replaces 7 by 8 while try 0 waits: the first datagram is
`[7, 99]`, the retransmissions are `[8, 99]` — same instants, same destination -/
example : (runObsB (Call.mutatedAfter (fun v : UInt8 => [v, 99]) 7 8 0 (67 : Nat)) 1000 3 [] 10000).sent =
    [⟨0, [7, 99], 67⟩, ⟨1000, [8, 99], 67⟩, ⟨3000, [8, 99], 67⟩] := by decide

end Dhcp.Client.Timed

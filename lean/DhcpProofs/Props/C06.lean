import DhcpProofs.Lemmas.V4Fix
import DhcpProofs.Lemmas.V6FixEx
/-
  C06 — decode → encode → decode is a fixpoint.  DHCPv4 first, DHCPv6 below
  (`C06_v6_*`; lemmas in DhcpProofs/Lemmas/V6{Inv,LeafInv,Fix,FixEx}.lean).
-/
namespace Dhcp.Props
open Dhcp Dhcp.V4 Dhcp.Spec

/-- **C06 (DHCPv4).** For every byte string the decoder accepts, encoding the
decoded packet gives bytes that decode to an equal packet (up to the one value
normalisation the property lists: a name filling its whole field without NUL is
cut to capacity − 1), and encoding that packet again reproduces the same bytes. -/
theorem C06_v4_fixpoint (b : Bytes) (p : Pkt4) (h : dec4 b = .ok p) :
    ∃ b₁, enc4 p = .ok b₁ ∧ dec4 b₁ = .ok (cutNames p) ∧ enc4 (cutNames p) = .ok b₁ :=
  dec4_fixpoint b p h

/-- The normalisation is the identity unless a name fills its field completely:
whenever both name fields contain a NUL on the wire (any RFC-conformant sender)
the decoded packet is reproduced exactly. -/
theorem C06_v4_exact (b : Bytes) (p : Pkt4) (h : dec4 b = .ok p)
    (h1 : p.sname.length ≤ 63) (h2 : p.file.length ≤ 127) :
    ∃ b₁, enc4 p = .ok b₁ ∧ dec4 b₁ = .ok p := by
  obtain ⟨b₁, e1, e2, _⟩ := dec4_fixpoint b p h
  rw [cutNames_id_of_short p h1 h2] at e2
  exact ⟨b₁, e1, e2⟩

/-- **C06 (meaning unchanged).** The re-encoded bytes are a well-formed packet
whose RFC reading is the decoded packet: the differences between `b` and `b₁`
(option order, padding, instance splitting, name capacity) have no semantic
content under `Spec.Parses4`. -/
theorem C06_v4_meaning (b : Bytes) (p : Pkt4) (h : dec4 b = .ok p) :
    Parses4 b p ∧ ∃ b₁, enc4 p = .ok b₁ ∧ Parses4 b₁ (cutNames p) := by
  obtain ⟨b₁, e1, e2, _⟩ := dec4_fixpoint b p h
  exact ⟨dec4_sound b p h, b₁, e1, dec4_sound b₁ _ e2⟩

/-- re-encoding never panics on a decoded packet -/
theorem C06_v4_reencode_total (b : Bytes) (p : Pkt4) (h : dec4 b = .ok p) : ∃ b₁, enc4 p = .ok b₁ := by
  obtain ⟨b₁, e1, _, _⟩ := dec4_fixpoint b p h
  exact ⟨b₁, e1⟩

/-- Non-vacuity: there are accepted inputs (every encoder output is one). -/
example (p : Pkt4) (h : Encodable p) : ∃ b q, dec4 b = .ok q := by
  obtain ⟨b, _, h2⟩ := enc4_dec4 p h
  exact ⟨b, _, h2⟩

/-! ## DHCPv6

`dec6`/`encMsg` model `dhcpv6.FromBytes`/`ToBytes` (Dhcp/V6/Codec.lean);
`Spec.PMsg` is the declarative RFC 8415 framing grammar (Dhcp/Spec/Wire6.lean,
`dec6 b = .ok m ↔ PMsg b m` is C05).  Decoding normalises some values without
semantic content — duplicate ORO codes dropped, reserved 4rd flag bits dropped,
the address of a zero-length IA prefix dropped, embedded DHCPv4 messages
(option 87) re-padded to 300 bytes with option order / padding / instance
splitting normalised — so the re-encoded bytes may differ from the input; the
theorems say that they decode to the SAME message.

Two things decoding does NOT guarantee remain as hypotheses, both concerning
embedded DHCPv4 messages only (Lemmas/V6Fix.lean):
* `V6.FitsLenM m`: every option of `m` that CONTAINS an option 87 (at any
  depth) still fits its 16-bit length field when re-encoded (the inner message
  may grow to 300 bytes).  Options without an embedded DHCPv4 message are proved
  never to grow, so nothing is assumed about them.
* `V6.NamesOKM m`: no embedded DHCPv4 message has a name filling its whole
  field (sname ≤ 63, file ≤ 127 bytes); otherwise the name is cut (the DHCPv4
  normalisation `cutNames`), which `C06_v6_normalised` accounts for instead.
`V6.FitsM m = FitsLenM m ∧ NamesOKM m`.  Both are necessary:
`C06_v6_counterexample`, `C06_v6_length_needed`. -/

open Dhcp.V6 in
/-- **C06 (DHCPv6), unconditional statement** — kept visible; FALSE of the model
(and of the code), see `C06_v6_counterexample`. -/
def C06_v6_full : Prop := ∀ b m, dec6 b = .ok m → dec6 (encMsg m) = .ok m

open Dhcp.V6 in
/-- **C06 (DHCPv6, fixpoint).** For every byte string the decoder accepts —
any nesting depth, every option type, unknown codes — encoding the decoded
message gives bytes that decode to an equal message (hence encoding that
message again reproduces the same bytes), PROVIDED `FitsM m`: re-encoded
options containing an embedded DHCPv4 message still fit their 16-bit length,
and no embedded DHCPv4 message has an sname of 64 / file of 128 NUL-free bytes. -/
theorem C06_v6_fixpoint (b : Bytes) (m : Msg6) (h : dec6 b = .ok m) (hf : FitsM m) :
    dec6 (encMsg m) = .ok m := v6_fixpoint b m h hf

open Dhcp.V6 in
/-- … and the second encoding reproduces the bytes of the first. -/
theorem C06_v6_fixpoint_bytes (b : Bytes) (m m' : Msg6) (h : dec6 b = .ok m) (hf : FitsM m)
    (h' : dec6 (encMsg m) = .ok m') : encMsg m' = encMsg m := by
  rw [v6_fixpoint b m h hf] at h'
  injection h' with h'
  rw [h']

open Dhcp.V6 in
/-- **C06 (DHCPv6, meaning unchanged).** Under the same hypothesis the original
and the re-encoded bytes have the SAME reading under the declarative framing
grammar: whatever differs between them (ORO duplicates, reserved bits, a
zero-length prefix's address, DHCPv4 padding) has no semantic content. -/
theorem C06_v6_meaning (b : Bytes) (m : Msg6) (h : dec6 b = .ok m) (hf : FitsM m) :
    PMsg b m ∧ PMsg (encMsg m) m := v6_meaning b m h hf

open Dhcp.V6 in
/-- **C06 (DHCPv6, full strength with the listed normalisation).** Without any
hypothesis on names: the re-encoded bytes decode to the message with the names
of its embedded DHCPv4 messages cut to their NUL-terminated capacity
(`cutNames6` = `V4.cutNames` on every option 87, identity elsewhere), and
encoding that message reproduces the same bytes. Only the length condition
remains. -/
theorem C06_v6_normalised (b : Bytes) (m : Msg6) (h : dec6 b = .ok m) (hf : FitsLenM m) :
    dec6 (encMsg m) = .ok (cutNames6 m) ∧ encMsg (cutNames6 m) = encMsg m :=
  v6_fixpoint_norm b m h hf

open Dhcp.V6 in
theorem C06_v6_normalised_meaning (b : Bytes) (m : Msg6) (h : dec6 b = .ok m) (hf : FitsLenM m) :
    PMsg b m ∧ PMsg (encMsg m) (cutNames6 m) := v6_meaning_norm b m h hf

open Dhcp.V6 in
/-- the normalisation is the identity when no embedded name fills its field -/
theorem C06_v6_cut_id (m : Msg6) (h : NamesOKM m) : cutNames6 m = m := cutNames6_id m h

open Dhcp.V6 in
/-- **C06 (DHCPv6, unconditional part).** For messages without option 87
anywhere (`hasV4M m = false`: every message that does not tunnel DHCPv4) the
fixpoint holds with NO side condition, and re-encoding never lengthens the
message. -/
theorem C06_v6_no_dhcpv4 (b : Bytes) (m : Msg6) (h : dec6 b = .ok m) (hv : hasV4M m = false) :
    dec6 (encMsg m) = .ok m ∧ (encMsg m).length ≤ b.length := v6_fixpoint_noV4 b m h hv

open Dhcp.V6 in
/-- **The key lemma**: every decoded option / option list / message lies in the
round-trip domain of C02 (`WFOpt`/`WFOpts`/`WFMsg`). -/
theorem C06_v6_decoded_wf {c : Nat} {v d b : Bytes} {o : Opt6} {os : List Opt6} {m : Msg6} :
    (POpt c v o → c < 65536 → Fits o → WFOpt o) ∧ (POpts d os → FitsL os → WFOpts os) ∧
    (PMsg b m → FitsM m → WFMsg m) := decoded_wf

open Dhcp.V6 in
/-- **The unconditional statement is false.** Witness `b6w snFull`: message type
1 with one option 87 carrying a 241-byte DHCPv4 BOOTREQUEST whose 64-byte sname
field is 64 × 'a' (no NUL). It is accepted; its re-encoding decodes to the
message with the 63-byte name. -/
theorem C06_v6_counterexample : ¬ C06_v6_full := v6_full_false

open Dhcp.V6 in
/-- **The length hypothesis is needed too.** Witness `b6big`: an IA_TA holding
a 241-byte DHCPv4 message (short names) and 65250 bytes of an unknown option —
value length 65503. Re-encoding pads the DHCPv4 message to 300 bytes, the IA_TA
value becomes 65562 bytes behind a 16-bit length field, and the result is not
read back as the message. -/
theorem C06_v6_length_needed :
    ¬ ∀ b m, dec6 b = .ok m → NamesOKM m → dec6 (encMsg m) = .ok m := v6_names_only_false

open Dhcp.V6 in
/-- Non-vacuity: an accepted message WITH an embedded DHCPv4 message satisfies
the hypothesis of `C06_v6_fixpoint` … -/
example : dec6 (b6w snShort) = .ok (m6w snShort) ∧ FitsM (m6w snShort) ∧ hasV4M (m6w snShort) = true :=
  ⟨dec6_b6w snShort rfl, ⟨fitsLen_m6w snShort, namesOK_m6w_short⟩, rfl⟩

open Dhcp.V6 in
/-- … the counterexample input satisfies the hypothesis of `C06_v6_normalised`
but not `NamesOKM` … -/
example : dec6 (b6w snFull) = .ok (m6w snFull) ∧ FitsLenM (m6w snFull) ∧ ¬ NamesOKM (m6w snFull) :=
  ⟨dec6_b6w snFull rfl, fitsLen_m6w snFull, not_namesOK_m6w_full⟩

open Dhcp.V6 in
/-- … and every encoder output of a well-formed message (any depth, every
option type) is an accepted input, so the theorems are not about an empty set. -/
example (m : Msg6) (h : WFMsg m) : ∃ b, dec6 b = .ok m := ⟨encMsg m, dec6_encMsg m h⟩

end Dhcp.Props

import DhcpProofs.Lemmas.V4Fix
/-
  C06 — decode → encode → decode is a fixpoint (DHCPv4 part; the DHCPv6 part
  is in C06v6.lean once the DHCPv6 model covers the option in question).
-/
namespace Dhcp.Props
open Dhcp Dhcp.V4 Dhcp.Spec

/-- **C06 (DHCPv4).** For every byte string the decoder accepts, encoding the
decoded packet gives bytes that decode to an equal packet (up to the one value
normalisation the property lists: a name filling its whole field without NUL is
cut to capacity − 1), and encoding that packet again reproduces the same bytes. -/
theorem C06_v4_fixpoint (b : Bytes) (p : Pkt4) (h : dec4 b = .ok p) :
    ∃ b₁, enc4 p = .ok b₁ ∧ dec4 b₁ = .ok (cutNames p) ∧ enc4 (cutNames p) = .ok b₁ :=
  dec4_fixpoint b p h

/-- The normalisation is the identity unless a name fills its field completely:
whenever both name fields contain a NUL on the wire (any RFC-conformant sender)
the decoded packet is reproduced exactly. -/
theorem C06_v4_exact (b : Bytes) (p : Pkt4) (h : dec4 b = .ok p)
    (h1 : p.sname.length ≤ 63) (h2 : p.file.length ≤ 127) :
    ∃ b₁, enc4 p = .ok b₁ ∧ dec4 b₁ = .ok p := by
  obtain ⟨b₁, e1, e2, _⟩ := dec4_fixpoint b p h
  rw [cutNames_id_of_short p h1 h2] at e2
  exact ⟨b₁, e1, e2⟩

/-- **C06 (meaning unchanged).** The re-encoded bytes are a well-formed packet
whose RFC reading is the decoded packet: the differences between `b` and `b₁`
(option order, padding, instance splitting, name capacity) have no semantic
content under `Spec.Parses4`. -/
theorem C06_v4_meaning (b : Bytes) (p : Pkt4) (h : dec4 b = .ok p) :
    Parses4 b p ∧ ∃ b₁, enc4 p = .ok b₁ ∧ Parses4 b₁ (cutNames p) := by
  obtain ⟨b₁, e1, e2, _⟩ := dec4_fixpoint b p h
  exact ⟨dec4_sound b p h, b₁, e1, dec4_sound b₁ _ e2⟩

/-- re-encoding never panics on a decoded packet -/
theorem C06_v4_reencode_total (b : Bytes) (p : Pkt4) (h : dec4 b = .ok p) : ∃ b₁, enc4 p = .ok b₁ := by
  obtain ⟨b₁, e1, _, _⟩ := dec4_fixpoint b p h
  exact ⟨b₁, e1⟩

/-- Non-vacuity: there are accepted inputs (every encoder output is one). -/
example (p : Pkt4) (h : Encodable p) : ∃ b q, dec4 b = .ok q := by
  obtain ⟨b, _, h2⟩ := enc4_dec4 p h
  exact ⟨b, _, h2⟩

end Dhcp.Props

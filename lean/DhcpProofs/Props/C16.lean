import DhcpProofs.Lemmas.V6BuildReply
import DhcpProofs.Lemmas.V6BuildMsg
import DhcpProofs.Lemmas.V6BuildDecoded
import DhcpProofs.Lemmas.V6BuildIndex
import DhcpProofs.Lemmas.V6BuildMods
import DhcpProofs.Lemmas.V6Fuel
/-
  C16 — DHCPv6 builders and relay encapsulation preserve identity and nesting.
  Model: Dhcp/V6/Build.lean (EncapsulateRelay, DecapsulateRelay,
  GetInnerMessage, NewRelayReplFromRelayForw, NewAdvertiseFromSolicit,
  NewRequestFromAdvertise, NewReplyFromMessage); vocabulary of the statements:
  Dhcp/Spec/Relay6.lean (`encapAll`, `Chain`, `Broken`, `replyOf`).
  All theorems hold for every message / chain: no bound on depth, number of
  options or option contents.
-/
namespace Dhcp.Props
open Dhcp Dhcp.V6 Dhcp.Spec

/-! ### encapsulate / decapsulate -/

/-- **C16 (decapsulate ∘ encapsulate).** For the two relay types the relay
message is built and decapsulating it returns the original — any message
(relay or not), any addresses (nil included). -/
theorem C16_decap_encap (m : Msg6) (t : UInt8) (l p : IP) (ht : isRelayType t = true) :
    ∃ c, encapsulateRelay m t l p = .ok c ∧ decapsulateRelay c = .ok m :=
  ⟨_, encapsulateRelay_ok l p ht, by simp [decapsulateRelay]⟩

/-- any other message type is refused -/
theorem C16_encap_rejects (m : Msg6) (t : UInt8) (l p : IP) (ht : isRelayType t = false) :
    encapsulateRelay m t l p = .err :=
  encapsulateRelay_err l p ht

/-- the relay message built carries the given type and addresses and nothing
but the relay-message option -/
theorem C16_encap_shape (m : Msg6) (t : UInt8) (l p : IP) (ht : isRelayType t = true) :
    ∃ h, encapsulateRelay m t l p = .ok (.relay t h l p [.relayMsg m]) :=
  ⟨_, encapsulateRelay_ok l p ht⟩

/-- **C16 (hop count grows by one per level).** Encapsulating a relay message
with hop count `h` gives hop count `h + 1` (uint8 arithmetic: 255 + 1 = 0);
encapsulating a non-relay message gives 0. -/
theorem C16_hop_step (t h : UInt8) (l p : IP) (os : List Opt6) (t' : UInt8) (l' p' : IP)
    (ht : isRelayType t' = true) :
    encapsulateRelay (.relay t h l p os) t' l' p' =
      .ok (.relay t' (h + 1) l' p' [.relayMsg (.relay t h l p os)]) :=
  encapsulateRelay_ok l' p' ht

theorem C16_hop_zero (t : UInt8) (x : Bytes) (os : List Opt6) (t' : UInt8) (l' p' : IP)
    (ht : isRelayType t' = true) :
    encapsulateRelay (.msg t x os) t' l' p' = .ok (.relay t' 0 l' p' [.relayMsg (.msg t x os)]) :=
  encapsulateRelay_ok l' p' ht

/-- **C16 (hop count of an n-fold encapsulation).** Wrapping a non-relay
message `n = |hs| ≥ 1` times gives a relay message with the outermost header's
type and addresses and hop count `n - 1` as a uint8; when `n ≤ 256` that is the
number `n - 1` itself (for larger `n` the Go field wraps around). -/
theorem C16_hop (m : Msg6) (hm : m.isRelay = false) (h : Hdr) (rest : List Hdr)
    (ht : ∀ x ∈ h :: rest, isRelayType x.typ = true) :
    ∃ hops os, encapAll m (h :: rest) = .ok (.relay h.typ hops h.link h.peer os) ∧
      hops = UInt8.ofNat ((h :: rest).length - 1) ∧
      ((h :: rest).length ≤ 256 → hops.toNat = (h :: rest).length - 1) := by
  obtain ⟨c, lv, os, h1, _, _, h4⟩ := encapAll_chain m hm rest h ht
  subst h4
  refine ⟨_, os, h1, by simp, ?_⟩
  intro hn
  simp only [List.length_cons] at hn
  simp only [List.length_cons, Nat.add_sub_cancel]
  exact UInt8.toNat_ofNat_lt (by omega)

/-- **C16 (DecapsulateRelayIndex).** On the n-fold encapsulation `c` of a
non-relay message: index `k ≥ 0` returns what is left after removing the `k+1`
outermost levels (the message itself once `k+1 ≥ n`), index `-1` returns the
innermost RELAY message (one level around the message, not the message), and
any index below `-1` is an error. -/
theorem C16_decap_index (m : Msg6) (hm : m.isRelay = false) (h : Hdr) (rest : List Hdr)
    (ht : ∀ x ∈ h :: rest, isRelayType x.typ = true) :
    ∃ c, encapAll m (h :: rest) = .ok c ∧
      (∀ k : Nat, decapsulateRelayIndex c (k : Int) = encapAll m ((h :: rest).drop (k + 1))) ∧
      decapsulateRelayIndex c (-1) = encapAll m [(h :: rest).getLast (by simp)] ∧
      (∀ i : Int, i < -1 → decapsulateRelayIndex c i = .err) := by
  refine ⟨wrapAll m (h :: rest), encapAll_eq_wrapAll m _ ht, ?_, ?_, ?_⟩
  · intro k
    have hk : ¬ ((k : Int) < -1) := by omega
    have hk' : ¬ ((k : Int) = -1) := by omega
    rw [encapAll_eq_wrapAll m _ (fun x hx => ht x (List.mem_of_mem_drop hx))]
    simp only [decapsulateRelayIndex, wrapAll_isRelay, hk, hk', Bool.not_true, Bool.false_eq_true,
      if_false, Int.toNat_natCast]
    exact decapN_wrapAll m hm (k + 1) (h :: rest)
  · rw [encapAll_eq_wrapAll m _ (by
      intro x hx
      simp only [List.mem_singleton] at hx
      subst hx
      exact ht _ (List.getLast_mem _))]
    simp only [decapsulateRelayIndex, wrapAll_isRelay, Bool.not_true, Bool.false_eq_true, if_false]
    rw [if_pos True.intro]
    exact lastRelay_wrapAll m hm rest h _ (by rw [msgDepth_wrapAll m hm]; simp only [List.length_cons]; omega)
  · intro i hi
    simp [decapsulateRelayIndex, wrapAll_isRelay, hi]

/-! ### innermost message -/

/-- **C16 (innermost message of an n-fold encapsulation).** For every `n ≥ 1`
and every choice of relay types and addresses, `GetInnerMessage` of the n-fold
encapsulation of a non-relay message returns that message. -/
theorem C16_inner (m : Msg6) (hm : m.isRelay = false) (h : Hdr) (rest : List Hdr)
    (ht : ∀ x ∈ h :: rest, isRelayType x.typ = true) :
    ∃ c, encapAll m (h :: rest) = .ok c ∧ getInnerMessage c = .ok m := by
  obtain ⟨c, lv, os, h1, h2, _, _⟩ := encapAll_chain m hm rest h ht
  exact ⟨c, h1, getInnerMessage_chain h2⟩

/-- **C16 (…also after a trip over the wire).** Under the C02 round-trip
hypothesis for the chain (`dec6 (encMsg c) = ok c`, proved separately for the
round-trip domain), decoding the encoded chain and asking for the innermost
message returns the original message. -/
theorem C16_inner_wire (m : Msg6) (hm : m.isRelay = false) (h : Hdr) (rest : List Hdr)
    (ht : ∀ x ∈ h :: rest, isRelayType x.typ = true) (c : Msg6)
    (hc : encapAll m (h :: rest) = .ok c) (hwire : dec6 (encMsg c) = .ok c) :
    (dec6 (encMsg c)).bind getInnerMessage = .ok m := by
  obtain ⟨c', h1, h2⟩ := C16_inner m hm h rest ht
  rw [hc] at h1
  cases h1
  rw [hwire]
  exact h2

/-- **C16 (… after a trip over the wire, composed with the round trip).** For a
chain in the round-trip domain of C02 (`WFMsg c`: 16-byte link and peer
addresses, relay types, well-formed options whose encodings fit their 16-bit
lengths, at every level) the hypothesis of `C16_inner_wire` is discharged by
`dec6_encMsg` (= `C02_roundtrip`): encoding the n-fold encapsulation, decoding
it and asking for the innermost message returns the message that was wrapped. -/
theorem C16_inner_wire_wf (m : Msg6) (hm : m.isRelay = false) (h : Hdr) (rest : List Hdr)
    (ht : ∀ x ∈ h :: rest, isRelayType x.typ = true) (c : Msg6)
    (hc : encapAll m (h :: rest) = .ok c) (hwf : WFMsg c) :
    (dec6 (encMsg c)).bind getInnerMessage = .ok m :=
  C16_inner_wire m hm h rest ht c hc (dec6_encMsg c hwf)

/-- non-vacuity: a SOLICIT wrapped twice (RELAY-FORW in RELAY-FORW) is in the
round-trip domain, so the theorem above applies to it -/
example :
    let m : Msg6 := .msg 1 [7, 8, 9] [.generic 4242 [1, 2, 3]]
    let hs : List Hdr := [⟨12, some (zeros 16), some (zeros 16)⟩, ⟨12, some (zeros 16), some (zeros 16)⟩]
    ∃ c, encapAll m hs = .ok c ∧ WFMsg c ∧ (dec6 (encMsg c)).bind getInnerMessage = .ok m := by
  intro m hs
  have hz : IP16 (some (zeros 16)) := ⟨zeros 16, rfl, by simp⟩
  refine ⟨.relay 12 1 (some (zeros 16)) (some (zeros 16))
      [.relayMsg (.relay 12 0 (some (zeros 16)) (some (zeros 16)) [.relayMsg m])], by rfl, ?_, ?_⟩
  · refine ⟨by decide, hz, hz, ?_, by decide, trivial⟩
    refine ⟨by decide, hz, hz, ?_, by decide, trivial⟩
    exact ⟨by decide, by decide, ⟨by decide, by decide⟩, by decide, trivial⟩
  · exact C16_inner_wire_wf m rfl ⟨12, some (zeros 16), some (zeros 16)⟩ [⟨12, some (zeros 16), some (zeros 16)⟩]
      (by
        intro x hx
        simp only [List.mem_cons, List.not_mem_nil, or_false] at hx
        rcases hx with rfl | rfl <;> rfl) _ (by rfl)
      (by
        refine ⟨by decide, hz, hz, ?_, by decide, trivial⟩
        refine ⟨by decide, hz, hz, ?_, by decide, trivial⟩
        exact ⟨by decide, by decide, ⟨by decide, by decide⟩, by decide, trivial⟩)

/-- **C16 (innermost message of ANY relay chain).** Whatever other options the
levels carry and wherever the relay-message option sits among them: if following
the relay-message options leads to a non-relay message, `GetInnerMessage`
returns it, at every depth. -/
theorem C16_inner_chain (c inner : Msg6) (lv : List RLevel) (h : Chain c lv inner) :
    getInnerMessage c = .ok inner :=
  getInnerMessage_chain h

/-- a level without relay-message option makes `GetInnerMessage` fail -/
theorem C16_inner_broken (c : Msg6) (h : Broken c) : getInnerMessage c = .err := by
  have hr : c.isRelay = true := by cases h <;> rfl
  obtain ⟨t, hc, l, p, os, rfl⟩ := isRelay_iff.mp hr
  exact innerLoop_broken h _

/-- `GetInnerMessage` never panics, and every relay message is a chain or broken
(so the two theorems above cover every relay message) -/
theorem C16_inner_total (c : Msg6) :
    getInnerMessage c ≠ .panic ∧
    (c.isRelay = true → (∃ lv inner, Chain c lv inner) ∨ Broken c) :=
  ⟨getInnerMessage_ne_panic c, chain_or_broken _ c (Nat.le_refl _)⟩

/-- the loop's fuel is irrelevant: the out-of-fuel branch of the model is never
taken (every fuel ≥ the nesting depth gives the same answer) -/
theorem C16_inner_fuel (c : Msg6) (hc : c.isRelay = true) (fuel : Nat) (hf : msgDepth c ≤ fuel) :
    innerLoop fuel c = getInnerMessage c := by
  obtain ⟨t, h, l, p, os, rfl⟩ := isRelay_iff.mp hc
  exact innerLoop_fuel fuel _ _ hc hf (Nat.le_succ _)

/-! ### relay-reply from relay-forward -/

/-- **C16 (relay-reply, exact form).** For a relay-forward chain with levels
`fl` (any depth) around any non-relay innermost message, and a reply `msg`,
the builder returns exactly `replyOf msg fl`. -/
theorem C16_relay_reply_exact (relay msg inner : Msg6) (fl : List RLevel)
    (hc : Chain relay fl inner) (ht : relay.typ = relayForward) (hm : msg.isRelay = false) :
    newRelayReplFromRelayForw relay msg = .ok (replyOf msg fl) := by
  rw [newRelayRepl_eq_collectOf relay msg ht, collectOf_chain hc _ (Nat.le_refl _)]
  exact rebuild_levels msg hm fl

/-- **C16 (relay-reply, clause by clause).** The result is a chain of the same
depth whose innermost message is `msg`; at every level `i` (0 = outermost) the
type is RELAY-REPL, link and peer address are those of level `i` of the input,
the hop count is what `EncapsulateRelay` assigns (`depth - 1 - i` as uint8), and
the first interface-id / remote-id option is present iff the input level has one
and then equal to the input's first one. -/
theorem C16_relay_reply (relay msg inner : Msg6) (fl : List RLevel)
    (hc : Chain relay fl inner) (ht : relay.typ = relayForward) (hm : msg.isRelay = false) :
    ∃ out rl, newRelayReplFromRelayForw relay msg = .ok out ∧ Chain out rl msg ∧
      rl.length = fl.length ∧
      (∀ i (h1 : i < fl.length) (h2 : i < rl.length),
        rl[i].typ = relayReply ∧ rl[i].link = fl[i].link ∧ rl[i].peer = fl[i].peer ∧
        rl[i].hops = UInt8.ofNat (fl.length - 1 - i) ∧
        getOne ocInterfaceID rl[i].opts = getOne ocInterfaceID fl[i].opts ∧
        getOne ocRemoteID rl[i].opts = getOne ocRemoteID fl[i].opts) ∧
      getInnerMessage out = .ok msg := by
  have hex := C16_relay_reply_exact relay msg inner fl hc ht hm
  obtain ⟨lv, rest, rfl⟩ : ∃ lv rest, fl = lv :: rest := by
    cases fl with
    | nil => exact absurd hc.length_pos (by simp)
    | cons lv rest => exact ⟨lv, rest, rfl⟩
  have hch := replyOf_chain msg hm rest lv
  refine ⟨_, _, hex, hch, replyLevels_length msg _, ?_, getInnerMessage_chain hch⟩
  intro i h1 h2
  rw [replyLevels_get msg _ i h1 h2]
  exact ⟨rfl, rfl, rfl, rfl, getOne_echo_iid _ rfl _, getOne_echo_rid _ rfl _⟩

/-- **C16 (relay-reply rejects).** An outermost type other than RELAY-FORW, or a
level without relay-message option anywhere in the chain, gives an error; the
builder never panics — on any value, decoded or constructed. -/
theorem C16_relay_reply_rejects (relay msg : Msg6) :
    (relay.typ ≠ relayForward → newRelayReplFromRelayForw relay msg = .err) ∧
    (Broken relay → newRelayReplFromRelayForw relay msg = .err) ∧
    newRelayReplFromRelayForw relay msg ≠ .panic := by
  refine ⟨?_, ?_, ?_⟩
  · intro ht
    cases relay with
    | msg t x os => rfl
    | relay t h l p os =>
      simp only [Msg6.typ] at ht
      simp [newRelayReplFromRelayForw, ht]
  · intro hb
    cases relay with
    | msg t x os => rfl
    | relay t h l p os =>
      by_cases ht : t = relayForward
      · rw [newRelayRepl_eq_collectOf (.relay t h l p os) msg ht, collectOf_broken hb]; rfl
      · simp [newRelayReplFromRelayForw, ht]
  · cases relay with
    | msg t x os => simp [newRelayReplFromRelayForw]
    | relay t h l p os =>
      simp only [newRelayReplFromRelayForw]
      split
      · simp
      · cases hcl : collectLevels (optsDepth os + 1) l p os with
        | ok lv => simp only [Res.bind]; exact rebuild_ne_panic msg lv
        | err => simp [Res.bind]
        | panic => exact absurd hcl (collectLevels_ne_panic _ _ _ _)

/-! ### advertise / request / reply (what the code does: see the notes) -/

/-- **C16 (advertise).** From a SOLICIT carrying a client identifier the
ADVERTISE keeps the transaction id and carries exactly the (first) client-id
option — the code echoes NO identity association here; another message type or
a missing client id is an error; no panic. -/
theorem C16_advertise (t : UInt8) (xid : Bytes) (os : List Opt6) :
    (∀ cid, t = mtSolicit → getOne ocClientID os = some cid →
      newAdvertiseFromSolicit (.msg t xid os) [] = .ok (.msg mtAdvertise xid [cid])) ∧
    (t ≠ mtSolicit → newAdvertiseFromSolicit (.msg t xid os) [] = .err) ∧
    (getOne ocClientID os = none → newAdvertiseFromSolicit (.msg t xid os) [] = .err) ∧
    newAdvertiseFromSolicit (.msg t xid os) [] ≠ .panic := by
  by_cases ht : t = mtSolicit <;> cases hc : getOne ocClientID os <;>
    simp [newAdvertiseFromSolicit, ht, hc]

/-- **C16 (request).** From an ADVERTISE with client id, server id and a
(well-typed) IA_NA, the REQUEST has the fresh transaction id `xid` (not the
ADVERTISE's), and its options are exactly: first client id, first server id,
elapsed-time 0, the FIRST IA_NA, the first IA_PD if any, an option request for
DNS servers and domain search list, the first vendor class if any. -/
theorem C16_request (xid axid : Bytes) (os : List Opt6) (cid sid ia : Opt6)
    (hc : getOne ocClientID os = some cid) (hs : getOne ocServerID os = some sid)
    (hi : getOne ocIANA os = some ia) (hty : IANATyped os) :
    newRequestFromAdvertise xid (.msg mtAdvertise axid os) [] =
      .ok (.msg mtRequest xid
        ([cid, sid, .elapsed 0, ia] ++ (getOne ocIAPD os).toList ++
          [.oro [ocDNS, ocDomainSearchList]] ++ (getOne ocVendorClass os).toList)) := by
  simp only [newRequestFromAdvertise, hc, hs, oneIANAOf_typed hty, hi, applyMods_nil]
  simp

/-- **C16 (request rejects).** Wrong message type, or no client id, or no
server id, or (options well typed and) no IA_NA: error; no panic on well-typed
options. -/
theorem C16_request_rejects (xid axid : Bytes) (t : UInt8) (os : List Opt6) :
    (t ≠ mtAdvertise → newRequestFromAdvertise xid (.msg t axid os) [] = .err) ∧
    (getOne ocClientID os = none → newRequestFromAdvertise xid (.msg t axid os) [] = .err) ∧
    (getOne ocServerID os = none → newRequestFromAdvertise xid (.msg t axid os) [] = .err) ∧
    (IANATyped os → getOne ocIANA os = none → newRequestFromAdvertise xid (.msg t axid os) [] = .err) ∧
    (IANATyped os → newRequestFromAdvertise xid (.msg t axid os) [] ≠ .panic) := by
  by_cases ht : t = mtAdvertise <;> cases hc : getOne ocClientID os <;>
    cases hs : getOne ocServerID os <;> cases hi : getOne ocIANA os <;>
    (refine ⟨?_, ?_, ?_, ?_, ?_⟩ <;> intros <;>
      simp_all [newRequestFromAdvertise, oneIANAOf_typed])

/-- what the code does outside the decoder's range: with client and server id
present, an option that carries the IA_NA code but is not an `*OptIANA` (only
constructible by hand, e.g. `OptionGeneric{OptionCode: 3}`) makes the builder
panic (unchecked `o.(*OptIANA)` in `MessageOptions.IANA`). -/
theorem C16_request_panics (xid axid : Bytes) (os : List Opt6) (cid sid : Opt6)
    (hc : getOne ocClientID os = some cid) (hs : getOne ocServerID os = some sid)
    (hty : ¬ IANATyped os) :
    newRequestFromAdvertise xid (.msg mtAdvertise axid os) [] = .panic := by
  simp only [newRequestFromAdvertise, hc, hs, oneIANAOf_untyped hty]
  simp

/-- on DECODED messages the request builder never panics: the decoder parses the
IA_NA code into `*OptIANA` only (`dec6_typed`), so the unchecked assertion holds
(all byte strings, any user-modifier-free call) -/
theorem C16_request_decoded (b : Bytes) (adv : Msg6) (xid : Bytes) (h : dec6 b = .ok adv) :
    newRequestFromAdvertise xid adv [] ≠ .panic := by
  cases adv with
  | relay t hc l p os => simp [newRequestFromAdvertise]
  | msg t x os =>
    exact (C16_request_rejects xid x t os).2.2.2.2 (IANATyped_of_typed (dec6_typed h))

/-- **C16 (reply).** From REQUEST, CONFIRM, RENEW, REBIND, RELEASE or
INFORMATION-REQUEST carrying a client id the REPLY keeps the transaction id and
carries exactly the (first) client-id option; from a SOLICIT with a rapid-commit
option it carries the client id and a rapid-commit option.  The code echoes
neither a server id nor identity associations. -/
theorem C16_reply (t : UInt8) (xid : Bytes) (os : List Opt6) (cid : Opt6)
    (hc : getOne ocClientID os = some cid) :
    (replyableTypes.contains t = true →
      newReplyFromMessage (.msg t xid os) [] = .ok (.msg mtReply xid [cid])) ∧
    (t = mtSolicit → (getOne ocRapidCommit os).isSome = true →
      newReplyFromMessage (.msg t xid os) [] = .ok (.msg mtReply xid [cid, .generic ocRapidCommit []])) := by
  have hcc := getOne_code hc
  refine ⟨?_, ?_⟩
  · intro ht
    have hns : t ≠ mtSolicit := by
      intro h; subst h; revert ht; decide
    have hm : replyMods t os [] = some [] := by
      unfold replyMods; rw [if_neg hns, if_pos ht]
    simp only [newReplyFromMessage, hm, hc, applyMods_nil]
  · intro ht hr
    have hr' : ¬ (getOne ocRapidCommit os).isNone = true := by
      cases h : getOne ocRapidCommit os <;> simp [h] at hr ⊢
    have hm : replyMods t os [] = some [Mod6.rapidCommit] := by
      unfold replyMods; rw [if_pos ht, if_neg hr']
    have hu : update (Opt6.generic ocRapidCommit []) [cid] = [cid, .generic ocRapidCommit []] := by
      have : ¬ (cid.code = (Opt6.generic ocRapidCommit []).code) := by
        rw [hcc]; decide
      simp [update, this]
    simp only [newReplyFromMessage, hm, hc, applyMods, applyMod, Res.bind, Msg6.updateOption, hu]

/-- **C16 (reply rejects).** Any other message type (ADVERTISE, REPLY, DECLINE,
RECONFIGURE, relay types, unknown), a SOLICIT without rapid-commit, or a missing
client id: error; no panic. -/
theorem C16_reply_rejects (t : UInt8) (xid : Bytes) (os : List Opt6) :
    (t ≠ mtSolicit → replyableTypes.contains t = false →
      newReplyFromMessage (.msg t xid os) [] = .err) ∧
    (t = mtSolicit → getOne ocRapidCommit os = none → newReplyFromMessage (.msg t xid os) [] = .err) ∧
    (getOne ocClientID os = none → newReplyFromMessage (.msg t xid os) [] = .err) ∧
    newReplyFromMessage (.msg t xid os) [] ≠ .panic := by
  refine ⟨?_, ?_, ?_, ?_⟩
  · intro h1 h2
    have hm : replyMods t os [] = none := by
      unfold replyMods; rw [if_neg h1, h2]; rfl
    simp only [newReplyFromMessage, hm]
  · intro h1 h2
    have hm : replyMods t os [] = none := by
      unfold replyMods; rw [if_pos h1, h2]; rfl
    simp only [newReplyFromMessage, hm]
  · intro hc
    simp only [newReplyFromMessage, hc]
    split <;> rfl
  · simp only [newReplyFromMessage]
    cases hm : replyMods t os [] with
    | none => simp
    | some mods' =>
      cases hc : getOne ocClientID os with
      | none => simp
      | some cid =>
        simp only
        have : mods' = [] ∨ mods' = [Mod6.rapidCommit] := by
          unfold replyMods at hm
          split at hm
          · split at hm
            · cases hm
            · cases hm; exact .inr rfl
          · split at hm
            · cases hm; exact .inl rfl
            · cases hm
        rcases this with rfl | rfl <;> simp [applyMods, applyMod, Res.bind]

/-- user modifiers are applied, in order, to the message the theorems above
describe (all three builders; for a SOLICIT `WithRapidCommit` is already part of\nthe message described) -/
theorem C16_modifiers (m : Msg6) (xid : Bytes) (mods : List Mod6) :
    newAdvertiseFromSolicit m mods = (newAdvertiseFromSolicit m []).bind (fun a => applyMods a mods) ∧
    newRequestFromAdvertise xid m mods =
      (newRequestFromAdvertise xid m []).bind (fun a => applyMods a mods) ∧
    newReplyFromMessage m mods = (newReplyFromMessage m []).bind (fun a => applyMods a mods) := by
  cases m with
  | relay t h l p os => exact ⟨rfl, rfl, rfl⟩
  | msg t x os =>
    refine ⟨?_, ?_, ?_⟩
    · by_cases ht : t = mtSolicit <;> cases hc : getOne ocClientID os <;>
        simp [newAdvertiseFromSolicit, ht, hc, Res.bind]
    · by_cases ht : t = mtAdvertise <;> cases hc : getOne ocClientID os <;>
        cases hs : getOne ocServerID os <;> cases hi : oneIANAOf os <;>
        simp [newRequestFromAdvertise, ht, hc, hs, hi, Res.bind]
      next o => cases o <;> simp
    · simp only [newReplyFromMessage]
      rw [replyMods_append t os mods]
      cases replyMods t os [] with
      | none => rfl
      | some pre =>
        cases hc : getOne ocClientID os with
        | none => rfl
        | some cid => exact applyMods_append _ pre mods

/-! ### the option-list operations and the modifiers built on them -/

/-- **C16 (`UpdateOption`, both `*Message` and `*RelayMessage`; `Options.Update`).**
The header is kept.  When no option carries the new option's code it is
APPENDED; otherwise exactly the FIRST option of that code is replaced in place
and everything else — later options of the same code included — stays where it
was.  Consequently the first option of that code afterwards is the new one,
the options of every other code are untouched, and the length grows by one
exactly when the code was absent. -/
theorem C16_update (m : Msg6) (o : Opt6) :
    (m.updateOption o).typ = m.typ ∧ (m.updateOption o).isRelay = m.isRelay ∧
    (m.updateOption o).opts = update o m.opts ∧
    (getOne o.code m.opts = none → update o m.opts = m.opts ++ [o]) ∧
    (∀ pre x post, m.opts = pre ++ x :: post → (∀ y ∈ pre, y.code ≠ o.code) → x.code = o.code →
      update o m.opts = pre ++ o :: post) ∧
    getOne o.code (update o m.opts) = some o ∧
    get o.code (update o m.opts) = o :: (get o.code m.opts).tail ∧
    (∀ c, o.code ≠ c → get c (update o m.opts) = get c m.opts) ∧
    (update o m.opts).length = if (getOne o.code m.opts).isSome then m.opts.length else m.opts.length + 1 := by
  rw [updateOption_eq]
  refine ⟨by simp, by simp, by simp, update_of_getOne_none, ?_, getOne_update_self _ _,
    get_update_self _ _, fun c hc => get_update_other _ _ hc, update_length _ _⟩
  intro pre x post he hpre hx
  rw [he]; exact update_split hpre hx

/-- the header fields other than type survive too (stated on the constructors) -/
theorem C16_update_header (o : Opt6) :
    (∀ t x os, (Msg6.msg t x os).updateOption o = .msg t x (update o os)) ∧
    (∀ t h l p os, (Msg6.relay t h l p os).updateOption o = .relay t h l p (update o os)) :=
  ⟨fun _ _ _ => rfl, fun _ _ _ _ _ => rfl⟩

/-- **C16 (`AddOption`).** The option is appended, whatever is already there. -/
theorem C16_add (o : Opt6) :
    (∀ t x os, (Msg6.msg t x os).addOption o = .msg t x (os ++ [o])) ∧
    (∀ t h l p os, (Msg6.relay t h l p os).addOption o = .relay t h l p (os ++ [o])) :=
  ⟨fun _ _ _ => rfl, fun _ _ _ _ _ => rfl⟩

/-- **C16 (`Options.Del`).** EVERY option of the code is removed (not only the
first); the others keep their relative order (the result is a sub-list, and
the options of every other code are exactly those before); deleting an absent
code changes nothing; the header is kept. -/
theorem C16_del (m : Msg6) (c : Nat) :
    (m.delOption c).typ = m.typ ∧ (m.delOption c).isRelay = m.isRelay ∧
    (m.delOption c).opts = del c m.opts ∧
    (∀ o, o ∈ del c m.opts ↔ o ∈ m.opts ∧ o.code ≠ c) ∧
    getOne c (del c m.opts) = none ∧
    (∀ d, d ≠ c → get d (del c m.opts) = get d m.opts) ∧
    (del c m.opts).Sublist m.opts ∧
    (getOne c m.opts = none → del c m.opts = m.opts) := by
  rw [delOption_eq]
  refine ⟨by simp, by simp, by simp, fun o => mem_del, ?_, fun d hd => get_del_other _ hd,
    del_sublist _ _, del_of_absent⟩
  rw [← get_head?, get_del_self]; rfl

/-- `Update` after `Del` of the same code appends; `Del` after `Update` removes
the new option together with every other one of its code -/
theorem C16_del_update (o : Opt6) (os : List Opt6) :
    update o (del o.code os) = del o.code os ++ [o] ∧ del o.code (update o os) = del o.code os := by
  constructor
  · apply update_of_getOne_none
    rw [← get_head?, get_del_self]; rfl
  · cases h : getOne o.code os with
    | none =>
      rw [update_of_getOne_none h, del_append]
      simp [del]
    | some x =>
      obtain ⟨pre, post, rfl, hpre, hx⟩ := getOne_split h
      rw [update_split hpre hx, del_append, del_append]
      simp [del, hx]

/-- **C16 (`WithFQDN`, `WithDomainSearchList`).** Both work on messages and on
relay messages alike: the option — holding a FRESH label set (`original` nil)
with the given name(s), in the given order — goes through `UpdateOption`, so
`C16_update` says where it lands; afterwards it is the first option of its code. -/
theorem C16_mod_names (m : Msg6) (f : UInt8) (name : Bytes) (names : List Bytes) :
    applyMod m (.fqdn f name) = .ok (m.updateOption (.fqdn f ⟨none, [name]⟩)) ∧
    applyMod m (.domainSearchList names) = .ok (m.updateOption (.domainSearch ⟨none, names⟩)) ∧
    getOne ocFQDN (m.updateOption (.fqdn f ⟨none, [name]⟩)).opts = some (.fqdn f ⟨none, [name]⟩) ∧
    getOne ocDomainSearchList (m.updateOption (.domainSearch ⟨none, names⟩)).opts =
      some (.domainSearch ⟨none, names⟩) := by
  refine ⟨rfl, rfl, ?_, ?_⟩
  · rw [updateOption_eq, withOpts_opts]; exact getOne_update_self (.fqdn f ⟨none, [name]⟩) _
  · rw [updateOption_eq, withOpts_opts]; exact getOne_update_self (.domainSearch ⟨none, names⟩) _

/-- **C16 (`WithIANA`).** On a relay message nothing happens.  On a message whose
code-3 options are all `*OptIANA` (always so after decoding): with no IA_NA a
new one — IAID 00000000, T1 = T2 = 0 — holding exactly the given addresses is
APPENDED; otherwise the given addresses are appended, in order, to the
sub-options of the FIRST IA_NA, which keeps its place, IAID, T1, T2 and earlier
sub-options, and nothing else changes.  An option that carries code 3 without
being an `*OptIANA` (hand-built only) makes the modifier panic. -/
theorem C16_mod_ianaAddrs (t : UInt8) (xid : Bytes) (os : List Opt6) (addrs : List IAAddr) :
    (∀ h l p, applyMod (.relay t h l p os) (.ianaAddrs addrs) = .ok (.relay t h l p os)) ∧
    (IANATyped os → getOne ocIANA os = none →
      applyMod (.msg t xid os) (.ianaAddrs addrs) =
        .ok (.msg t xid (os ++ [.iana (zeros 4) 0 0 (addrs.map IAAddr.toOpt)]))) ∧
    (∀ pre id t1 t2 sub post, IANATyped os → os = pre ++ .iana id t1 t2 sub :: post →
      (∀ y ∈ pre, y.code ≠ ocIANA) →
      applyMod (.msg t xid os) (.ianaAddrs addrs) =
        .ok (.msg t xid (pre ++ .iana id t1 t2 (sub ++ addrs.map IAAddr.toOpt) :: post))) ∧
    (¬ IANATyped os → applyMod (.msg t xid os) (.ianaAddrs addrs) = .panic) := by
  refine ⟨fun _ _ _ => rfl, ?_, ?_, ?_⟩
  · intro hty hn
    simp only [applyMod, oneIANAOf_typed hty, hn, Msg6.updateOption]
    rw [update_of_getOne_none (o := .iana (zeros 4) 0 0 _) hn]
  · intro pre id t1 t2 sub post hty he hpre
    have hg : getOne ocIANA os = some (.iana id t1 t2 sub) := by
      rw [he]; exact getOne_of_split hpre rfl
    simp only [applyMod, oneIANAOf_typed hty, hg, Msg6.updateOption]
    rw [he, update_split (o := .iana id t1 t2 (sub ++ addrs.map IAAddr.toOpt)) (x := .iana id t1 t2 sub) hpre rfl]
  · intro hty
    simp only [applyMod, oneIANAOf_untyped hty]

/-- **C16 (`WithIATA`).** As `WithIANA` for the IA_TA code (4), and the IAID of
the (first or new) IA_TA is SET to the given one (`copy` into the 4-byte array). -/
theorem C16_mod_iata (t : UInt8) (xid : Bytes) (os : List Opt6) (id : Bytes) (addrs : List IAAddr) :
    (∀ h l p, applyMod (.relay t h l p os) (.iata id addrs) = .ok (.relay t h l p os)) ∧
    (CodeTyped ocIATA Opt6.isIATA os → getOne ocIATA os = none →
      applyMod (.msg t xid os) (.iata id addrs) =
        .ok (.msg t xid (os ++ [.iata (copyInto 4 id) (addrs.map IAAddr.toOpt)]))) ∧
    (∀ pre id0 sub post, CodeTyped ocIATA Opt6.isIATA os → os = pre ++ .iata id0 sub :: post →
      (∀ y ∈ pre, y.code ≠ ocIATA) →
      applyMod (.msg t xid os) (.iata id addrs) =
        .ok (.msg t xid (pre ++ .iata (copyInto 4 id) (sub ++ addrs.map IAAddr.toOpt) :: post))) ∧
    (¬ CodeTyped ocIATA Opt6.isIATA os → applyMod (.msg t xid os) (.iata id addrs) = .panic) := by
  refine ⟨fun _ _ _ => rfl, ?_, ?_, ?_⟩
  · intro hty hn
    simp only [applyMod, oneIATAOf_typed hty, hn, Msg6.updateOption]
    rw [update_of_getOne_none (o := .iata _ _) hn]
  · intro pre id0 sub post hty he hpre
    have hg : getOne ocIATA os = some (.iata id0 sub) := by
      rw [he]; exact getOne_of_split hpre rfl
    simp only [applyMod, oneIATAOf_typed hty, hg, Msg6.updateOption]
    rw [he, update_split (o := .iata (copyInto 4 id) (sub ++ addrs.map IAAddr.toOpt)) (x := .iata id0 sub) hpre rfl]
  · intro hty
    simp only [applyMod, oneIATAOf_untyped hty]

/-- **C16 (`WithIAPD`).** As `WithIATA` for the IA_PD code (25): the prefixes are
appended to the first IA_PD's sub-options (T1, T2 kept) or to a new IA_PD with
T1 = T2 = 0, whose IAID is set to the given one. -/
theorem C16_mod_iapd (t : UInt8) (xid : Bytes) (os : List Opt6) (id : Bytes) (pfxs : List IAPfx) :
    (∀ h l p, applyMod (.relay t h l p os) (.iapd id pfxs) = .ok (.relay t h l p os)) ∧
    (CodeTyped ocIAPD Opt6.isIAPD os → getOne ocIAPD os = none →
      applyMod (.msg t xid os) (.iapd id pfxs) =
        .ok (.msg t xid (os ++ [.iapd (copyInto 4 id) 0 0 (pfxs.map IAPfx.toOpt)]))) ∧
    (∀ pre id0 t1 t2 sub post, CodeTyped ocIAPD Opt6.isIAPD os →
      os = pre ++ .iapd id0 t1 t2 sub :: post → (∀ y ∈ pre, y.code ≠ ocIAPD) →
      applyMod (.msg t xid os) (.iapd id pfxs) =
        .ok (.msg t xid (pre ++ .iapd (copyInto 4 id) t1 t2 (sub ++ pfxs.map IAPfx.toOpt) :: post))) ∧
    (¬ CodeTyped ocIAPD Opt6.isIAPD os → applyMod (.msg t xid os) (.iapd id pfxs) = .panic) := by
  refine ⟨fun _ _ _ => rfl, ?_, ?_, ?_⟩
  · intro hty hn
    simp only [applyMod, oneIAPDOf_typed hty, hn, Msg6.updateOption]
    rw [update_of_getOne_none (o := .iapd _ _ _ _) hn]
  · intro pre id0 t1 t2 sub post hty he hpre
    have hg : getOne ocIAPD os = some (.iapd id0 t1 t2 sub) := by
      rw [he]; exact getOne_of_split hpre rfl
    simp only [applyMod, oneIAPDOf_typed hty, hg, Msg6.updateOption]
    rw [he, update_split (o := .iapd (copyInto 4 id) t1 t2 (sub ++ pfxs.map IAPfx.toOpt)) (x := .iapd id0 t1 t2 sub) hpre rfl]
  · intro hty
    simp only [applyMod, oneIAPDOf_untyped hty]

/-- on DECODED messages the three identity-association modifiers never panic
(the decoder parses codes 3, 4 and 25 into their own option types only) -/
theorem C16_mod_ia_decoded (b : Bytes) (m : Msg6) (h : dec6 b = .ok m) (id : Bytes)
    (addrs : List IAAddr) (pfxs : List IAPfx) :
    applyMod m (.ianaAddrs addrs) ≠ .panic ∧ applyMod m (.iata id addrs) ≠ .panic ∧
    applyMod m (.iapd id pfxs) ≠ .panic := by
  obtain ⟨h3, h4, h25⟩ := dec6_iaTyped h
  cases m with
  | relay t hc l p os => exact ⟨by simp [applyMod], by simp [applyMod], by simp [applyMod]⟩
  | msg t x os =>
    simp only [Msg6.opts] at h3 h4 h25
    refine ⟨?_, ?_, ?_⟩
    · simp only [applyMod, oneIANAOf_typed ((IANATyped_iff os).mpr h3)]
      cases hg : getOne ocIANA os with
      | none => simp
      | some x =>
        have := h3 x (getOne_mem hg) (getOne_code hg)
        cases x <;> simp [Opt6.isIANA] at this ⊢
    · simp only [applyMod, oneIATAOf_typed h4]
      cases hg : getOne ocIATA os with
      | none => simp
      | some x =>
        have := h4 x (getOne_mem hg) (getOne_code hg)
        cases x <;> simp [Opt6.isIATA] at this ⊢
    · simp only [applyMod, oneIAPDOf_typed h25]
      cases hg : getOne ocIAPD os with
      | none => simp
      | some x =>
        have := h25 x (getOne_mem hg) (getOne_code hg)
        cases x <;> simp [Opt6.isIAPD] at this ⊢

/-! ### non-vacuity -/

section Examples

def exInner : Msg6 := .msg mtSolicit [1, 2, 3] [.clientID (.ll 1 [0, 1, 2, 3, 4, 5]), .generic ocRapidCommit []]
def exReply : Msg6 := .msg mtReply [1, 2, 3] [.clientID (.ll 1 [0, 1, 2, 3, 4, 5])]
def ip (n : UInt8) : IP := some (List.replicate 15 0 ++ [n])

/-- a depth-3 relay-forward chain with six distinct addresses, an interface-id
at level 2 only (after the relay message) and a remote-id at the innermost level -/
def exL3 : Msg6 := .relay relayForward 0 (ip 5) (ip 6) [.remoteID 9 [7], .relayMsg exInner]
def exL2 : Msg6 := .relay relayForward 1 (ip 3) (ip 4) [.relayMsg exL3, .interfaceID [0xaa], .interfaceID [0xbb]]
def exL1 : Msg6 := .relay relayForward 2 (ip 1) (ip 2) [.relayMsg exL2]

def exLevels : List RLevel :=
  [⟨relayForward, 2, ip 1, ip 2, [.relayMsg exL2]⟩,
   ⟨relayForward, 1, ip 3, ip 4, [.relayMsg exL3, .interfaceID [0xaa], .interfaceID [0xbb]]⟩,
   ⟨relayForward, 0, ip 5, ip 6, [.remoteID 9 [7], .relayMsg exInner]⟩]

/-- the hypotheses of `C16_relay_reply` hold for it … -/
example : Chain exL1 exLevels exInner ∧ exL1.typ = relayForward ∧ exReply.isRelay = false :=
  ⟨.cons rfl (.cons rfl (.last rfl rfl)), rfl, rfl⟩

/-- … and the reply is the expected three-level relay-reply -/
example : newRelayReplFromRelayForw exL1 exReply =
    .ok (.relay relayReply 2 (ip 1) (ip 2)
      [.relayMsg (.relay relayReply 1 (ip 3) (ip 4)
        [.relayMsg (.relay relayReply 0 (ip 5) (ip 6) [.relayMsg exReply, .remoteID 9 [7]]),
         .interfaceID [0xaa]])]) := by
  rw [C16_relay_reply_exact exL1 exReply exInner exLevels (.cons rfl (.cons rfl (.last rfl rfl))) rfl rfl]
  rfl

/-- the chain is the 3-fold encapsulation shape of `C16_inner` when built by `encapAll` -/
example : ∃ c, encapAll exInner [⟨relayForward, ip 1, ip 2⟩, ⟨relayReply, ip 3, ip 4⟩, ⟨relayForward, ip 5, ip 6⟩] = .ok c ∧
    getInnerMessage c = .ok exInner :=
  C16_inner exInner rfl _ _ (by decide)

example : getInnerMessage exL1 = .ok exInner :=
  C16_inner_chain _ _ exLevels (.cons rfl (.cons rfl (.last rfl rfl)))

/-- a chain with a level lacking the relay-message option is `Broken` -/
example : Broken (.relay relayForward 1 (ip 1) (ip 2) [.relayMsg (.relay relayForward 0 (ip 3) (ip 4) [.interfaceID [1]])]) :=
  .deeper rfl (.here rfl)

/-- builders: hypotheses satisfiable -/
example : newReplyFromMessage exInner [] = .ok (.msg mtReply [1, 2, 3] [.clientID (.ll 1 [0, 1, 2, 3, 4, 5]), .generic ocRapidCommit []]) :=
  (C16_reply mtSolicit _ _ _ rfl).2 rfl rfl

example : IANATyped [.clientID (.en 1 []), .serverID (.en 2 []), .iana [0, 0, 0, 1] 0 0 [], .iana [0, 0, 0, 2] 0 0 []] := by
  intro o ho hc
  simp at ho
  rcases ho with rfl | rfl | rfl | rfl <;> first | rfl | (simp [Opt6.code, ocIANA] at hc)

/-- modifiers: `WithIANA` on a message with two IA_NAs extends the first one in place;
`WithIATA` on a message without IA_TA appends a new one; `Del` drops both IA_NAs -/
def exTwoIANA : Msg6 := .msg mtAdvertise [1, 2, 3]
  [.clientID (.en 1 []), .iana [0, 0, 0, 1] 5 6 [.status 0 []], .elapsed 0, .iana [0, 0, 0, 2] 0 0 []]

example : applyMod exTwoIANA (.ianaAddrs [⟨ip 9, 1, 2, []⟩]) = .ok (.msg mtAdvertise [1, 2, 3]
    [.clientID (.en 1 []), .iana [0, 0, 0, 1] 5 6 [.status 0 [], .iaaddr (ip 9) 1 2 []], .elapsed 0,
     .iana [0, 0, 0, 2] 0 0 []]) := by
  refine (C16_mod_ianaAddrs _ _ _ _).2.2.1 [.clientID (.en 1 [])] _ _ _ _ _ ?_ rfl ?_
  · intro o ho hc
    simp [exTwoIANA] at ho
    rcases ho with rfl | rfl | rfl | rfl <;> first | rfl | (simp [Opt6.code, ocIANA] at hc)
  · intro y hy; simp at hy; subst hy; decide

example : applyMod exTwoIANA (.iata [7, 7, 7, 7] [⟨ip 9, 1, 2, []⟩]) = .ok (.msg mtAdvertise [1, 2, 3]
    [.clientID (.en 1 []), .iana [0, 0, 0, 1] 5 6 [.status 0 []], .elapsed 0, .iana [0, 0, 0, 2] 0 0 [],
     .iata [7, 7, 7, 7] [.iaaddr (ip 9) 1 2 []]]) := by
  refine (C16_mod_iata _ _ _ _ _).2.1 ?_ rfl
  intro o ho hc
  simp [exTwoIANA] at ho
  rcases ho with rfl | rfl | rfl | rfl <;> simp [Opt6.code, ocIATA] at hc

example : exTwoIANA.delOption ocIANA = .msg mtAdvertise [1, 2, 3] [.clientID (.en 1 []), .elapsed 0] := by
  simp [exTwoIANA, Msg6.delOption, del, Opt6.code, ocIANA]

example : applyMod (.msg mtSolicit [] [.generic ocIATA [1]]) (.iata [] []) = .panic := by
  refine (C16_mod_iata _ _ _ _ _).2.2.2 ?_
  intro h
  have := h (.generic ocIATA [1]) (by simp) rfl
  simp [Opt6.isIATA] at this

end Examples

end Dhcp.Props

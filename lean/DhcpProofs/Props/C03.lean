import DhcpProofs.Lemmas.V6NoPanic
import DhcpProofs.Lemmas.V6Termination
import DhcpProofs.Lemmas.V4Opts
import DhcpProofs.Props.C06
import DhcpProofs.Props.C16
import DhcpProofs.Props.C18
import DhcpProofs.Props.C19
/-
  C03 — no input can crash decoding or any read-only use of a decoded message.

  What is proved here, for ALL byte strings (no length bound): the models of the
  DHCPv4 and DHCPv6 decoding entry points never take a `Res.panic` branch.  In
  the model every Go operation that can panic (index, slice with computed
  bounds, unchecked type assertion, nil dereference) is an explicit guard that
  returns `Res.panic`, so `f b ≠ .panic` says that no such guard fires.

  Termination.  Every function below is accepted by Lean's termination checker
  (structural recursion on an explicit fuel argument; no `partial`, no
  `decreasing_by`), so each is total: it returns on every input.  The model's
  out-of-fuel branches, which the Go code does not have, are shown unreachable
  with the fuel the entry points pass, as fuel irrelevance (more fuel never
  changes the result): `C03_optsLoop_fuel` (DHCPv4 option loop),
  `C03_dec6_fuel` / `C03_parseOption_fuel` / `C03_decOpts6_fuel` (DHCPv6 nesting:
  one level costs two units of fuel and at least a four-byte option header) and
  `C03_v6_loops_fuel` (the flat DHCPv6 loops: every iteration takes bytes off the
  buffer); labels: `C03_label_terminates`.

  Labels and raw frames: restated from C19 / C18, which own those models.
  Not proved here (see `missing_part` in the evidence): String/Summary
  formatting, the ZTP/netboot string handling, typed accessors, builders, relay
  handling, architecture lists — where models exist they belong to the checks
  C15–C17; for those operations C03's assurance is the crash search of oracle
  c03 on the real code (recover + watchdog around every call).
-/
namespace Dhcp.Props
open Dhcp

/-- **C03 (dhcpv4.FromBytes).** No byte string makes the DHCPv4 packet decoder panic. -/
theorem C03_dec4 (b : Bytes) : V4.dec4 b ≠ .panic := V4.dec4_ne_panic b

/-- **C03 (dhcpv4.Options.FromBytes).** The option-list decoder returns a map or an
error for every byte string, every starting map and either End-checking mode.  The
model's result type (`Option Opts`) has no panic outcome because the Go loop
contains no panic-capable operation once the Lexer's short reads are accounted
for (`Consume` returns nil instead of slicing out of range; the only slice
expression, `data[:length:length]`, is executed after `len(data) = length` was
established) — the statement records that every outcome is one of the two. -/
theorem C03_optsFromBytes (o : V4.Opts) (b : Bytes) (checkEnd : Bool) :
    V4.optsFromBytes o b checkEnd = none ∨ ∃ o', V4.optsFromBytes o b checkEnd = some o' := by
  cases V4.optsFromBytes o b checkEnd with
  | none => exact Or.inl rfl
  | some o' => exact Or.inr ⟨o', rfl⟩

/-- **C03 (termination of the DHCPv4 option loop).** The loop's out-of-fuel branch is
unreachable: any two fuels above the number of unread bytes give the same result,
so the fuel `data.length + 1` that `optsFromBytes` passes never runs out. -/
theorem C03_optsLoop_fuel (f1 f2 : Nat) (l : Lexer) (o : V4.Opts)
    (h1 : l.data.length < f1) (h2 : l.data.length < f2) : V4.optsLoop f1 l o = V4.optsLoop f2 l o :=
  V4.optsLoop_fuel f1 f2 l o h1 h2

/-- **C03 (re-encoding).** Every packet the DHCPv4 decoder accepts re-encodes:
`ToBytes` on a decoded packet returns bytes (its only panic, a non-IPv4 address
in a header field, cannot occur because decoded addresses are 4 bytes long). -/
theorem C03_enc_decoded (b : Bytes) (p : V4.Pkt4) (h : V4.dec4 b = .ok p) : ∃ b', V4.enc4 p = .ok b' :=
  C06_v4_reencode_total b p h

/-- **C03 (dhcpv6.FromBytes).** No byte string makes the DHCPv6 decoder panic: messages,
relay messages, every option type of the `ParseOption` table at any nesting depth. -/
theorem C03_dec6 (b : Bytes) : V6.dec6 b ≠ .panic := V6.dec6_ne_panic b

/-- **C03 (dhcpv6.MessageFromBytes / RelayMessageFromBytes).** -/
theorem C03_decMessage (b : Bytes) : V6.decMessage b ≠ .panic := V6.decMessage_ne_panic b
theorem C03_decRelay (b : Bytes) : V6.decRelay b ≠ .panic := V6.decRelay_ne_panic b

/-- **C03 (dhcpv6.ParseOption).** For every option code (known or not) and every payload. -/
theorem C03_parseOption (code : Nat) (b : Bytes) : V6.parseOption code b ≠ .panic :=
  V6.parseOption_ne_panic code b

/-- **C03 (dhcpv6.Options.FromBytes).** -/
theorem C03_decOpts6 (b : Bytes) : V6.decOpts b ≠ .panic := V6.decOpts_ne_panic b

/-- **C03 (dhcpv6.DUIDFromBytes).** -/
theorem C03_decDUID (b : Bytes) : V6.decDUID b ≠ .panic := V6.decDUID_ne_panic b

/-- **C03 (rfc1035label.FromBytes), over the temporary label model.** -/
theorem C03_labelFromBytes (b : Bytes) : Label.fromBytes b ≠ .panic := Label.fromBytes_ne_panic b

/-- **C03 (label decoding terminates).** The `for` loop of `labelsFromBytes` returns
within the fuel the model passes, on every buffer (compression pointers included):
restated from C19. -/
theorem C03_label_terminates (b : Bytes) :
    ∃ r, Label.loop b (Label.fuelFor b) Label.init = some r ∧ Label.labelsFromBytes b = r :=
  let ⟨r, h1, h2, _⟩ := Label.C19_terminates b
  ⟨r, h1, h2⟩

/-- **C03 (re-encoding a label set).** `(*Labels).ToBytes` never panics, whatever the
fields hold (decoded or edited): restated from C19. -/
theorem C03_labelToBytes (l : Label.Labels) : l.toBytesR ≠ .panic := Label.C19_toBytes_no_panic l

/-- **C03 (raw IPv4/UDP frames).** No frame and no sequence of frames makes the raw
connection's `ReadFrom` panic, for every bound address and every buffer length
(0 included): restated from C18, whose model guards the negative `Consume`
length that the unfixed code computed. -/
theorem C03_rawRead (bound : Option Raw.Addr) (buflen : Nat) (frames : List Bytes) :
    Raw.readFrom bound buflen frames ≠ .panic :=
  (Raw.C18_read_no_panic bound buflen).2.2 frames

/-- **C03 (termination of DHCPv6 decoding: nesting).** `fuelFor b = |b| + 2` is never
exhausted: with any amount of additional fuel the three entry points return the
same result, at any nesting depth the buffer can hold. -/
theorem C03_dec6_fuel (b : Bytes) (k : Nat) : V6.decMsgF (V6.fuelFor b + k) b = V6.dec6 b := V6.dec6_fuel b k
theorem C03_parseOption_fuel (code : Nat) (b : Bytes) (k : Nat) :
    V6.parseOpt (V6.fuelFor b + k) code b = V6.parseOption code b := V6.parseOption_fuel code b k
theorem C03_decOpts6_fuel (b : Bytes) (k : Nat) : V6.decOptsF (V6.fuelFor b + k) b = V6.decOpts b :=
  V6.decOpts_fuel b k

/-- **C03 (termination of DHCPv6 decoding: flat loops).** The option loop
(`for buf.Has(4)`), and the `Has(2)` / `Has(16)` loops of the list-valued options,
do not depend on their fuel once it exceeds the number of unread bytes; the
decoders pass `data.length + 1`. -/
theorem C03_v6_loops_fuel (f1 f2 : Nat) (l : Lexer) (h1 : l.data.length < f1) (h2 : l.data.length < f2) :
    (∀ {α : Type} (p : Nat → Bytes → Res α) (acc : List α), V6.tlvLoop p f1 l acc = V6.tlvLoop p f2 l acc) ∧
    (∀ acc, V6.u16Loop f1 l acc = V6.u16Loop f2 l acc) ∧
    (∀ acc, V6.lenPrefLoop f1 l acc = V6.lenPrefLoop f2 l acc) ∧
    (∀ acc, V6.ip16Loop f1 l acc = V6.ip16Loop f2 l acc) :=
  ⟨fun p acc => V6.tlvLoop_fuel p f1 f2 l acc h1 h2, fun acc => V6.u16Loop_fuel f1 f2 l acc h1 h2,
   fun acc => V6.lenPrefLoop_fuel f1 f2 l acc h1 h2, fun acc => V6.ip16Loop_fuel f1 f2 l acc h1 h2⟩

/-- **C03 (DHCPv6 builders and relay handling on decoded messages).** For every byte
string the decoder accepts: `GetInnerMessage`, the relay-reply builder (with any
reply message) and the request builder do not panic, and neither do the
advertise and reply builders on a decoded client message.  Restated from C16,
which owns the builder model (`Dhcp/V6/Build.lean`, unchecked type assertions
modelled as `panic`); the request builder is the one case where decodedness is
needed (`C16_request_panics`: a hand-built message can make it panic). -/
theorem C03_v6_builders_decoded (b : Bytes) (m reply : V6.Msg6) (xid : Bytes) (h : V6.dec6 b = .ok m) :
    V6.getInnerMessage m ≠ .panic ∧
    V6.newRelayReplFromRelayForw m reply ≠ .panic ∧
    V6.newRequestFromAdvertise xid m [] ≠ .panic ∧
    (∀ t x os, m = .msg t x os →
      V6.newAdvertiseFromSolicit m [] ≠ .panic ∧ V6.newReplyFromMessage m [] ≠ .panic) :=
  ⟨(C16_inner_total m).1, (C16_relay_reply_rejects m reply).2.2, C16_request_decoded b m xid h,
   fun t x os hm => by subst hm; exact ⟨(C16_advertise t x os).2.2.2, (C16_reply_rejects t x os).2.2.2⟩⟩

/-- The no-panic statements hold at every fuel, not only the one the entry points
pass: the argument does not depend on fuel sufficiency. -/
theorem C03_dec6_any_fuel (fuel : Nat) (b : Bytes) :
    V6.decMsgF fuel b ≠ .panic ∧ V6.decOptsF fuel b ≠ .panic ∧ ∀ code, V6.parseOpt fuel code b ≠ .panic :=
  ⟨(V6.dec_ne_panic fuel).2.2 b, (V6.dec_ne_panic fuel).2.1 b, fun code => (V6.dec_ne_panic fuel).1 code b⟩

/-- Non-vacuity: the decoders do accept inputs — a SOLICIT with an elapsed-time
option decodes to a value (so "value or error" is not "always error"), and the
guards are real: the encoder model does return `panic` on an undecodable packet
(a 5-byte "IPv4 address" in a header field), which C03_enc_decoded excludes for
decoded packets. -/
example : V6.dec6 [1, 0xaa, 0xbb, 0xcc, 0, 8, 0, 2, 0, 5] =
    .ok (.msg 1 [0xaa, 0xbb, 0xcc] [.elapsed 50000000]) := by rfl

example : V4.writeIP (some [1, 2, 3, 4, 5]) = .panic := by decide

end Dhcp.Props

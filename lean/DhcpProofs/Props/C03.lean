import DhcpProofs.Lemmas.V6NoPanic
import DhcpProofs.Lemmas.V6Termination
import DhcpProofs.Lemmas.V4Opts
import DhcpProofs.Props.C06
import DhcpProofs.Props.C16
import DhcpProofs.Props.C18
import DhcpProofs.Props.C19
import DhcpProofs.Lemmas.C03Relay
import DhcpProofs.Lemmas.C03Observe6
import DhcpProofs.Lemmas.C03Observe4
import DhcpProofs.Lemmas.V6Access
/-
  C03 — no input can crash decoding or any read-only use of a decoded message.

  What is proved here, for ALL byte strings (no length bound): the models of the
  DHCPv4 and DHCPv6 decoding entry points never take a `Res.panic` branch.  In
  the model every Go operation that can panic (index, slice with computed
  bounds, unchecked type assertion, nil dereference) is an explicit guard that
  returns `Res.panic`, so `f b ≠ .panic` says that no such guard fires.

  Termination.  Every function below is accepted by Lean's termination checker
  (structural recursion on an explicit fuel argument; no `partial`, no
  `decreasing_by`), so each is total: it returns on every input.  The model's
  out-of-fuel branches, which the Go code does not have, are shown unreachable
  with the fuel the entry points pass, as fuel irrelevance (more fuel never
  changes the result): `C03_optsLoop_fuel` (DHCPv4 option loop),
  `C03_dec6_fuel` / `C03_parseOption_fuel` / `C03_decOpts6_fuel` (DHCPv6 nesting:
  one level costs two units of fuel and at least a four-byte option header) and
  `C03_v6_loops_fuel` (the flat DHCPv6 loops: every iteration takes bytes off the
  buffer); labels: `C03_label_terminates`.

  Labels and raw frames: restated from C19 / C18, which own those models.

  Read-only use of decoded values (second half of this file; models
  Dhcp/V6/Build.lean, Dhcp/V6/Observe.lean, Dhcp/V4/Observe.lean,
  Dhcp/V4/Values.lean; correspondence stream `c03x`): relay decapsulation at
  every index, `GetMacAddressFromEUI64`, `ExtractMAC`, the netboot extractors
  over conversations of any length, the ZTP vendor-string parsers, the DHCPv4
  typed accessors and DHCPv6 re-encoding.  Statements that are true of every
  value are stated for every value; the ones that need decodedness say
  `dec6 b = .ok m` and come with a hand-built counterexample (`C03_*_full`
  false), because there the Go code does panic on values no decoder produces.

  Not proved here (see `missing_part` in the evidence): String/Summary
  formatting (goes through `fmt`), `ztpv4.ParseCircuitID`'s eleven regular
  expressions and `ztpv6.ParseRemoteID`'s two (abstracted as a total matcher:
  Go's `regexp` is trusted not to panic), the DHCPv4 builders (C15), the other
  DHCPv6 typed accessors, architecture lists; for those C03's assurance is the
  crash search of oracle c03 on the real code (recover + watchdog around every
  call).
-/
namespace Dhcp.Props
open Dhcp

/-- **C03 (dhcpv4.FromBytes).** No byte string makes the DHCPv4 packet decoder panic. -/
theorem C03_dec4 (b : Bytes) : V4.dec4 b ≠ .panic := V4.dec4_ne_panic b

/-- **C03 (dhcpv4.Options.FromBytes).** The option-list decoder returns a map or an
error for every byte string, every starting map and either End-checking mode.  The
model's result type (`Option Opts`) has no panic outcome because the Go loop
contains no panic-capable operation once the Lexer's short reads are accounted
for (`Consume` returns nil instead of slicing out of range; the only slice
expression, `data[:length:length]`, is executed after `len(data) = length` was
established) — the statement records that every outcome is one of the two. -/
theorem C03_optsFromBytes (o : V4.Opts) (b : Bytes) (checkEnd : Bool) :
    V4.optsFromBytes o b checkEnd = none ∨ ∃ o', V4.optsFromBytes o b checkEnd = some o' := by
  cases V4.optsFromBytes o b checkEnd with
  | none => exact Or.inl rfl
  | some o' => exact Or.inr ⟨o', rfl⟩

/-- **C03 (termination of the DHCPv4 option loop).** The loop's out-of-fuel branch is
unreachable: any two fuels above the number of unread bytes give the same result,
so the fuel `data.length + 1` that `optsFromBytes` passes never runs out. -/
theorem C03_optsLoop_fuel (f1 f2 : Nat) (l : Lexer) (o : V4.Opts)
    (h1 : l.data.length < f1) (h2 : l.data.length < f2) : V4.optsLoop f1 l o = V4.optsLoop f2 l o :=
  V4.optsLoop_fuel f1 f2 l o h1 h2

/-- **C03 (re-encoding).** Every packet the DHCPv4 decoder accepts re-encodes:
`ToBytes` on a decoded packet returns bytes (its only panic, a non-IPv4 address
in a header field, cannot occur because decoded addresses are 4 bytes long). -/
theorem C03_enc_decoded (b : Bytes) (p : V4.Pkt4) (h : V4.dec4 b = .ok p) : ∃ b', V4.enc4 p = .ok b' :=
  C06_v4_reencode_total b p h

/-- **C03 (dhcpv6.FromBytes).** No byte string makes the DHCPv6 decoder panic: messages,
relay messages, every option type of the `ParseOption` table at any nesting depth. -/
theorem C03_dec6 (b : Bytes) : V6.dec6 b ≠ .panic := V6.dec6_ne_panic b

/-- **C03 (dhcpv6.MessageFromBytes / RelayMessageFromBytes).** -/
theorem C03_decMessage (b : Bytes) : V6.decMessage b ≠ .panic := V6.decMessage_ne_panic b
theorem C03_decRelay (b : Bytes) : V6.decRelay b ≠ .panic := V6.decRelay_ne_panic b

/-- **C03 (dhcpv6.ParseOption).** For every option code (known or not) and every payload. -/
theorem C03_parseOption (code : Nat) (b : Bytes) : V6.parseOption code b ≠ .panic :=
  V6.parseOption_ne_panic code b

/-- **C03 (dhcpv6.Options.FromBytes).** -/
theorem C03_decOpts6 (b : Bytes) : V6.decOpts b ≠ .panic := V6.decOpts_ne_panic b

/-- **C03 (dhcpv6.DUIDFromBytes).** -/
theorem C03_decDUID (b : Bytes) : V6.decDUID b ≠ .panic := V6.decDUID_ne_panic b

/-- **C03 (rfc1035label.FromBytes), over the temporary label model.** -/
theorem C03_labelFromBytes (b : Bytes) : Label.fromBytes b ≠ .panic := Label.fromBytes_ne_panic b

/-- **C03 (label decoding terminates).** The `for` loop of `labelsFromBytes` returns
within the fuel the model passes, on every buffer (compression pointers included):
restated from C19. -/
theorem C03_label_terminates (b : Bytes) :
    ∃ r, Label.loop b (Label.fuelFor b) Label.init = some r ∧ Label.labelsFromBytes b = r :=
  let ⟨r, h1, h2, _⟩ := Label.C19_terminates b
  ⟨r, h1, h2⟩

/-- **C03 (re-encoding a label set).** `(*Labels).ToBytes` never panics, whatever the
fields hold (decoded or edited): restated from C19. -/
theorem C03_labelToBytes (l : Label.Labels) : l.toBytesR ≠ .panic := Label.C19_toBytes_no_panic l

/-- **C03 (raw IPv4/UDP frames).** No frame and no sequence of frames makes the raw
connection's `ReadFrom` panic, for every bound address and every buffer length
(0 included): restated from C18, whose model guards the negative `Consume`
length that the unfixed code computed. -/
theorem C03_rawRead (bound : Option Raw.Addr) (buflen : Nat) (frames : List Bytes) :
    Raw.readFrom bound buflen frames ≠ .panic :=
  (Raw.C18_read_no_panic bound buflen).2.2 frames

/-- **C03 (termination of DHCPv6 decoding: nesting).** `fuelFor b = |b| + 2` is never
exhausted: with any amount of additional fuel the three entry points return the
same result, at any nesting depth the buffer can hold. -/
theorem C03_dec6_fuel (b : Bytes) (k : Nat) : V6.decMsgF (V6.fuelFor b + k) b = V6.dec6 b := V6.dec6_fuel b k
theorem C03_parseOption_fuel (code : Nat) (b : Bytes) (k : Nat) :
    V6.parseOpt (V6.fuelFor b + k) code b = V6.parseOption code b := V6.parseOption_fuel code b k
theorem C03_decOpts6_fuel (b : Bytes) (k : Nat) : V6.decOptsF (V6.fuelFor b + k) b = V6.decOpts b :=
  V6.decOpts_fuel b k

/-- **C03 (termination of DHCPv6 decoding: flat loops).** The option loop
(`for buf.Has(4)`), and the `Has(2)` / `Has(16)` loops of the list-valued options,
do not depend on their fuel once it exceeds the number of unread bytes; the
decoders pass `data.length + 1`. -/
theorem C03_v6_loops_fuel (f1 f2 : Nat) (l : Lexer) (h1 : l.data.length < f1) (h2 : l.data.length < f2) :
    (∀ {α : Type} (p : Nat → Bytes → Res α) (acc : List α), V6.tlvLoop p f1 l acc = V6.tlvLoop p f2 l acc) ∧
    (∀ acc, V6.u16Loop f1 l acc = V6.u16Loop f2 l acc) ∧
    (∀ acc, V6.lenPrefLoop f1 l acc = V6.lenPrefLoop f2 l acc) ∧
    (∀ acc, V6.ip16Loop f1 l acc = V6.ip16Loop f2 l acc) :=
  ⟨fun p acc => V6.tlvLoop_fuel p f1 f2 l acc h1 h2, fun acc => V6.u16Loop_fuel f1 f2 l acc h1 h2,
   fun acc => V6.lenPrefLoop_fuel f1 f2 l acc h1 h2, fun acc => V6.ip16Loop_fuel f1 f2 l acc h1 h2⟩

/-- **C03 (DHCPv6 builders and relay handling on decoded messages).** For every byte
string the decoder accepts: `GetInnerMessage`, the relay-reply builder (with any
reply message) and the request builder do not panic, and neither do the
advertise and reply builders on a decoded client message.  Restated from C16,
which owns the builder model (`Dhcp/V6/Build.lean`, unchecked type assertions
modelled as `panic`); the request builder is the one case where decodedness is
needed (`C16_request_panics`: a hand-built message can make it panic). -/
theorem C03_v6_builders_decoded (b : Bytes) (m reply : V6.Msg6) (xid : Bytes) (h : V6.dec6 b = .ok m) :
    V6.getInnerMessage m ≠ .panic ∧
    V6.newRelayReplFromRelayForw m reply ≠ .panic ∧
    V6.newRequestFromAdvertise xid m [] ≠ .panic ∧
    (∀ t x os, m = .msg t x os →
      V6.newAdvertiseFromSolicit m [] ≠ .panic ∧ V6.newReplyFromMessage m [] ≠ .panic) :=
  ⟨(C16_inner_total m).1, (C16_relay_reply_rejects m reply).2.2, C16_request_decoded b m xid h,
   fun t x os hm => by subst hm; exact ⟨(C16_advertise t x os).2.2.2, (C16_reply_rejects t x os).2.2.2⟩⟩

/-- The no-panic statements hold at every fuel, not only the one the entry points
pass: the argument does not depend on fuel sufficiency. -/
theorem C03_dec6_any_fuel (fuel : Nat) (b : Bytes) :
    V6.decMsgF fuel b ≠ .panic ∧ V6.decOptsF fuel b ≠ .panic ∧ ∀ code, V6.parseOpt fuel code b ≠ .panic :=
  ⟨(V6.dec_ne_panic fuel).2.2 b, (V6.dec_ne_panic fuel).2.1 b, fun code => (V6.dec_ne_panic fuel).1 code b⟩

/-- Non-vacuity: the decoders do accept inputs — a SOLICIT with an elapsed-time
option decodes to a value (so "value or error" is not "always error"), and the
guards are real: the encoder model does return `panic` on an undecodable packet
(a 5-byte "IPv4 address" in a header field), which C03_enc_decoded excludes for
decoded packets. -/
example : V6.dec6 [1, 0xaa, 0xbb, 0xcc, 0, 8, 0, 2, 0, 5] =
    .ok (.msg 1 [0xaa, 0xbb, 0xcc] [.elapsed 50000000]) := by rfl

example : V4.writeIP (some [1, 2, 3, 4, 5]) = .panic := by decide

/-! ## Read-only use of decoded values -/

open Dhcp.V6 Dhcp.Spec in
/-- **C03 (shape of decoded messages).** What the observers below rely on, at every
nesting depth: an `OptionGeneric` only carries a code outside the `ParseOption`
table (so an option found under a known code has that code's Go type), relay
headers carry 16-byte addresses and a relay type, other messages any other type,
an embedded DHCPv4 message was accepted by the DHCPv4 decoder. -/
theorem C03_decoded_shape (b : Bytes) (m : V6.Msg6) (h : V6.dec6 b = .ok m) : V6.DecMsg m :=
  V6.decMsg_of_dec6 h

/-! ### relay decapsulation (dhcpv6/dhcpv6.go) -/

/-- **C03 (DecapsulateRelay).** Never panics, for every message value: the assertion
`l.(*RelayMessage)` follows an `IsRelay()` test and `RelayOptions.RelayMessage()`
uses a checked assertion. -/
theorem C03_decapsulateRelay (m : V6.Msg6) : V6.decapsulateRelay m ≠ .panic := V6.decapsulateRelay_ne_panic m

/-- **C03 (DecapsulateRelayIndex).** Never panics, for every message value (decoded or
built by hand) and every index: negative, in range, beyond the depth. -/
theorem C03_decapsulateRelayIndex (m : V6.Msg6) (idx : Int) : V6.decapsulateRelayIndex m idx ≠ .panic :=
  V6.decapsulateRelayIndex_ne_panic m idx

/-- a message that is not a relay message is returned as it is, whatever the index -/
theorem C03_decapsulateRelayIndex_nonrelay (m : V6.Msg6) (hm : m.isRelay = false) (idx : Int) :
    V6.decapsulateRelayIndex m idx = .ok m := by
  simp [V6.decapsulateRelayIndex, hm]

/-- **C03 (which level DecapsulateRelayIndex returns).** On a relay chain with levels
`lvls` (outermost first) around the non-relay message `inner`: index `k ≥ 0`
with `k + 1 < |lvls|` returns the relay message `k + 1` levels down (the chain
without its first `k + 1` levels); every index with `k + 1 ≥ |lvls|` — at and
beyond the depth — returns `inner`; `-1` returns the innermost relay LEVEL (a
one-level chain around `inner`, its header the last of `lvls`), not the message;
every index below `-1` is an error. -/
theorem C03_decapsulateRelayIndex_chain (c inner : V6.Msg6) (lvls : List Spec.RLevel)
    (h : Spec.Chain c lvls inner) :
    (∀ k : Nat, k + 1 < lvls.length →
      ∃ c', V6.decapsulateRelayIndex c (k : Int) = .ok c' ∧ Spec.Chain c' (lvls.drop (k + 1)) inner) ∧
    (∀ k : Nat, lvls.length ≤ k + 1 → V6.decapsulateRelayIndex c (k : Int) = .ok inner) ∧
    (∃ c' lv, V6.decapsulateRelayIndex c (-1) = .ok c' ∧ Spec.Chain c' [lv] inner ∧ lvls.getLast? = some lv) ∧
    (∀ i : Int, i < -1 → V6.decapsulateRelayIndex c i = .err) :=
  V6.decapsulateRelayIndex_chain h

/-- … and on a relay message one of whose levels lacks a (usable) relay-message
option: `-1` is an error, so is every index that reaches past the break (every
`k` with `k + 1 ≥ msgDepth c`), so is any index below `-1`; an index that stays
above the break returns the relay level found there, itself a broken chain;
never a panic. -/
theorem C03_decapsulateRelayIndex_broken (c : V6.Msg6) (h : Spec.Broken c) :
    V6.decapsulateRelayIndex c (-1) = .err ∧
    (∀ k : Nat, V6.msgDepth c ≤ k + 1 → V6.decapsulateRelayIndex c (k : Int) = .err) ∧
    (∀ i : Int, i < -1 → V6.decapsulateRelayIndex c i = .err) ∧
    (∀ k : Nat, V6.decapsulateRelayIndex c (k : Int) = .err ∨
      ∃ c', V6.decapsulateRelayIndex c (k : Int) = .ok c' ∧ Spec.Broken c') :=
  V6.decapsulateRelayIndex_broken h

/-- the two cases cover every relay message -/
theorem C03_relay_chain_or_broken (c : V6.Msg6) (hc : c.isRelay = true) :
    (∃ lvls inner, Spec.Chain c lvls inner) ∨ Spec.Broken c :=
  (C16_inner_total c).2 hc

/-- the `for { … }` loop of index `-1` terminates: the model's out-of-fuel branch is
unreachable (any fuel ≥ the nesting depth gives the same result).  A cyclic
`RelayMessage` graph, which would make the Go loop spin, is not a value of
`Msg6` and not something `FromBytes` can build. -/
theorem C03_lastRelay_fuel (c : V6.Msg6) (hc : c.isRelay = true) (f1 f2 : Nat)
    (h1 : V6.msgDepth c ≤ f1) (h2 : V6.msgDepth c ≤ f2) : V6.lastRelay f1 c = V6.lastRelay f2 c :=
  V6.lastRelay_fuel f1 f2 c hc h1 h2

/-- whatever `DecapsulateRelayIndex` returns from a decoded message is decoded -/
theorem C03_decapsulateRelayIndex_decoded (b : Bytes) (m r : V6.Msg6) (idx : Int) (h : V6.dec6 b = .ok m)
    (hr : V6.decapsulateRelayIndex m idx = .ok r) : V6.DecMsg r :=
  V6.decapsulateRelayIndex_dec (V6.decMsg_of_dec6 h) hr

/-! ### MAC extraction (dhcpv6/iputils.go) -/

/-- **C03 (GetMacAddressFromEUI64, exactly).** The function panics on exactly the
4-byte addresses: `ip.To16() == nil` lets them through and `ip[11]` is then out
of range.  Nil, 16-byte and all other lengths give a value or an error. -/
theorem C03_getMac_panic_iff (ip : V6.IP) :
    V6.getMacAddressFromEUI64 ip = .panic ↔ ∃ b, ip = some b ∧ b.length = 4 :=
  V6.getMacAddressFromEUI64_panic_iff ip

/-- … so it does not panic on any address field of a decoded message (16 bytes) -/
theorem C03_getMac_decoded (b : Bytes) (t h : UInt8) (link peer : V6.IP) (os : List V6.Opt6)
    (hd : V6.dec6 b = .ok (.relay t h link peer os)) :
    V6.getMacAddressFromEUI64 peer ≠ .panic ∧ V6.getMacAddressFromEUI64 link ≠ .panic := by
  have := V6.decMsg_of_dec6 hd
  exact ⟨V6.getMacAddressFromEUI64_ne_panic_of_ip16 this.2.2.1, V6.getMacAddressFromEUI64_ne_panic_of_ip16 this.2.1⟩

/-- **C03 (ExtractMAC).** No decoded message, relay or not, at any depth, makes
`ExtractMAC` panic: `inner.(*RelayMessage)` holds because index `-1` returns a
relay level, `GetMacAddressFromEUI64` gets a 16-byte peer address,
`msg.(*Message)` holds for the innermost message and the unchecked
`opt.(*optClientID)` inside `ClientID()` holds because a decoded option with
code 1 is a client-id option. -/
theorem C03_extractMAC (b : Bytes) (m : V6.Msg6) (h : V6.dec6 b = .ok m) : V6.extractMAC m ≠ .panic :=
  V6.extractMAC_dec (V6.decMsg_of_dec6 h)

/-- the same for every message value is FALSE: hand-built values reach both panics -/
def C03_extractMAC_full : Prop := ∀ m : V6.Msg6, V6.extractMAC m ≠ .panic

theorem C03_extractMAC_counterexample : ¬ C03_extractMAC_full := by
  intro h
  exact h (.msg 1 [] [.generic 1 []]) (by decide)

/-- a relay level with a 4-byte peer address (only constructible by hand) panics too -/
example : V6.extractMAC (.relay 12 0 none (some [10, 0, 0, 1]) [.relayMsg (.msg 1 [] [])]) = .panic := by decide

/-! ### netboot -/

/-- **C03 (GetNetConfFromPacketv6).** On the options of a decoded message: the
unchecked `o.(*OptIANA)` and `o.(*OptIAAddress)` hold. -/
theorem C03_getNetConfFromPacketv6 (b : Bytes) (t : UInt8) (x : Bytes) (os : List V6.Opt6)
    (h : V6.dec6 b = .ok (.msg t x os)) : V6.getNetConfFromPacketv6 os ≠ .panic :=
  V6.getNetConfFromPacketv6_ne_panic (V6.decMsg_of_dec6 h).2

/-- **C03 (ConversationToNetconf).** For every list of decoded messages — any length,
any mix of types, relay messages included: no panic.  `m.(*dhcpv6.Message)` is
only evaluated for types ADVERTISE and REPLY, which no decoded relay message
has; `advertise` is only dereferenced behind its nil test. -/
theorem C03_conversationToNetconf (ms : List V6.Msg6) (h : ∀ m ∈ ms, ∃ b, V6.dec6 b = .ok m) :
    V6.conversationToNetconf ms ≠ .panic :=
  V6.conversationToNetconf_ne_panic (fun m hm => let ⟨_, hb⟩ := h m hm; V6.decMsg_of_dec6 hb)

def C03_conversationToNetconf_full : Prop := ∀ ms : List V6.Msg6, V6.conversationToNetconf ms ≠ .panic

/-- a hand-built `RelayMessage` whose `MessageType` is REPLY fails the assertion -/
theorem C03_conversationToNetconf_counterexample : ¬ C03_conversationToNetconf_full := by
  intro h
  exact h [.relay 7 0 none none []] (by decide)

/-- non-vacuity and the fallback: a REPLY with an address but no boot file URL takes
the URL of the ADVERTISE; without an ADVERTISE that is an error, not a panic
(the nil dereference fixed in /repo by 46ccaa9) -/
example :
    V6.conversationToNetconf
      [.msg 2 [1, 2, 3] [.bootfileURL [104]], .msg 7 [1, 2, 3] [.iana [0, 0, 0, 1] 0 0 [.iaaddr none 0 0 []]]] =
      .ok { net := { addrs := [⟨none, 0, 0⟩], dns := [], search := [], ntp := [] }, url := [104], params := [] } ∧
    V6.conversationToNetconf [.msg 7 [1, 2, 3] [.iana [0, 0, 0, 1] 0 0 []]] = .err := by decide

/-- **C03 (GetNetConfFromPacketv4 / ConversationToNetconfv4).** No panic, for every
address, option map and conversation (decoded or not): they only go through
typed accessors. -/
theorem C03_getNetConfFromPacketv4 (yiaddr : V4.IP) (o : V4.GOpts) : V4.Obs.getNetConfFromPacketv4 yiaddr o ≠ .panic :=
  V4.Obs.getNetConfFromPacketv4_ne_panic yiaddr o

theorem C03_conversationToNetconfv4 (conv : List V4.Pkt4) : V4.Obs.conversationToNetconfv4 conv ≠ .panic :=
  V4.Obs.conversationToNetconfv4_ne_panic conv

/-! ### ZTP vendor strings -/

/-- `strings.Split` returns at least one piece, and at least two when the string
starts with a prefix that contains the (one-byte) separator — what makes the
unguarded `p[1]` of ztpv4's `Juniper-` case safe -/
theorem C03_split_pieces (s sep : Bytes) :
    1 ≤ (Str.split s sep).length ∧
    ∀ (p : Bytes) (d : UInt8), sep = [d] → Str.hasPrefix s p = true → d ∈ p → 2 ≤ (Str.split s sep).length :=
  ⟨Str.split_length_pos s sep, fun _ _ hs hp hd => by subst hs; exact Str.split_two_of_hasPrefix hp hd⟩

/-- **C03 (ztpv6.ParseVendorData).** On every decoded message (relay or not):
`opt17.(*OptVendorOpts)` / `opt16.(*OptVendorClass)` hold, every index into a
split result lies below the length tested just before, and the Ciena branch's
`GetInnerMessage` / `ClientID()` run on decoded messages. -/
theorem C03_ztp6_parseVendorData (b : Bytes) (m : V6.Msg6) (h : V6.dec6 b = .ok m) :
    V6.ztp6ParseVendorData m ≠ .panic :=
  V6.ztp6ParseVendorData_ne_panic (V6.decMsg_of_dec6 h)

def C03_ztp6_parseVendorData_full : Prop := ∀ m : V6.Msg6, V6.ztp6ParseVendorData m ≠ .panic

theorem C03_ztp6_parseVendorData_counterexample : ¬ C03_ztp6_parseVendorData_full := by
  intro h
  exact h (.msg 1 [] [.generic 17 []]) (by decide)

/-- **C03 (ztpv6.ParseRemoteID).** For every message value and every total matcher in
place of the two regular expressions. -/
theorem C03_ztp6_parseRemoteID (mc : Bytes → Option V6.CircuitID) (m : V6.Msg6) : V6.parseRemoteID mc m ≠ .panic :=
  V6.parseRemoteID_ne_panic mc m

/-- **C03 (ztpv4.ParseVendorData, parseClassIdentifier, parseVIVC).** For every option
map, whatever octets options 60, 12, 61 and 124 hold. -/
theorem C03_ztp4_parseVendorData (o : V4.GOpts) :
    V4.Obs.parseVendorData o ≠ .panic ∧ V4.Obs.parseClassIdentifier o ≠ .panic ∧ V4.Obs.parseVIVC o ≠ .panic :=
  ⟨V4.Obs.parseVendorData_ne_panic o, V4.Obs.parseClassIdentifier_ne_panic o, V4.Obs.parseVIVC_ne_panic o⟩

/-- **C03 (ztpv4.ParseCircuitID).** For every option map and every total matcher in
place of the eleven regular expressions. -/
theorem C03_ztp4_parseCircuitID {γ : Type} (mc : Bytes → Option γ) (o : V4.GOpts) :
    V4.Obs.parseCircuitID mc o ≠ .panic :=
  V4.Obs.parseCircuitID_ne_panic mc o

/-- the vendor-string parsers on decoded packets (what the stream exercises) -/
theorem C03_ztp4_decoded (b : Bytes) (p : V4.Pkt4) (_h : V4.dec4 b = .ok p) :
    V4.Obs.parseVendorData (Client.Lease.toG p.opts) ≠ .panic ∧
    V4.Obs.getNetConfFromPacketv4 p.yiaddr (Client.Lease.toG p.opts) ≠ .panic :=
  ⟨V4.Obs.parseVendorData_ne_panic _, V4.Obs.getNetConfFromPacketv4_ne_panic _ _⟩

/-- the `Juniper-` case with the shortest possible value: two pieces, `p[1] = ""` -/
example : Str.split V4.Obs.pfxJuniperDash V4.Obs.sepDash = [Str.ascii "Juniper".toList, []] := by decide

/-! ### DHCPv4 typed accessors on decoded packets, DHCPv6 re-encoding -/

/-- **C03 (DHCPv4 typed accessors).** The accessor models of C17
(`V4.Acc.*`, Dhcp/V4/Values.lean) read a decoded packet `p` as
`toG p.opts`.  Twenty-six of the twenty-nine return a plain value (address,
list, string, duration, pair …): their result type has no panic outcome because
their Go bodies contain no panic-capable operation beyond the `FromBytes` of
the value type, which goes through the `uio.Lexer` (short reads set a sticky
error instead of slicing out of range).  The three whose model can express a
failure — `DomainSearch` (label decoder), `MaxMessageSize` (`(uint16, error)`)
and `AutoConfigure` (`GetByte`: `data[0]` behind `len(data) != 1`) — do not
panic, for every option map. -/
theorem C03_v4_accessors (o : V4.GOpts) :
    V4.Acc.domainSearch o ≠ .panic ∧ V4.Acc.maxMessageSize o ≠ .panic ∧
    V4.getByte V4.Code.autoConfigure o ≠ .panic := by
  refine ⟨V4.Obs.domainSearch_ne_panic o, ?_, ?_⟩
  · unfold V4.Acc.maxMessageSize V4.getUint16
    split
    · simp
    · split <;> simp
  · unfold V4.getByte
    split <;> simp

theorem C03_v4_accessors_decoded (b : Bytes) (p : V4.Pkt4) (_h : V4.dec4 b = .ok p) :
    V4.Acc.domainSearch (Client.Lease.toG p.opts) ≠ .panic ∧ V4.Acc.maxMessageSize (Client.Lease.toG p.opts) ≠ .panic ∧
    V4.getByte V4.Code.autoConfigure (Client.Lease.toG p.opts) ≠ .panic :=
  C03_v4_accessors _

/-- **C03 (re-encoding a decoded DHCPv6 message).** `encMsg` is a total function: the
DHCPv6 encoders have no panic-capable operation of their own.  The one way
`ToBytes` can panic is through an embedded DHCPv4 message (option 87) whose
header holds a non-IPv4 address (`V4.enc4 = panic`); `encMsgR` is `ToBytes` with
that panic (searched at every depth).  On a decoded message it cannot happen:
every embedded DHCPv4 message was itself decoded, so it re-encodes
(`C03_enc_decoded`). -/
theorem C03_reencode6 (b : Bytes) (m : V6.Msg6) (h : V6.dec6 b = .ok m) : V6.encMsgR m = .ok (V6.encMsg m) :=
  V6.encMsgR_dec (V6.decMsg_of_dec6 h)

def C03_reencode6_full : Prop := ∀ m : V6.Msg6, V6.encMsgR m ≠ .panic

theorem C03_reencode6_counterexample : ¬ C03_reencode6_full := by
  intro h
  exact h (.msg 1 [] [.dhcpv4Msg (V4.Pkt4.mk 1 1 [] 0 [0, 0, 0, 0] 0 0 (some [1, 2, 3, 4, 5]) none none none [] []
    V4.Opts.empty)]) (by decide)

/-! ### Every typed accessor of the DHCPv6 option sets (Dhcp/V6/Access.lean)

All 39 accessor methods of `MessageOptions`, `RelayOptions`, `IdentityOptions`,
`AddressOptions`, `PDOptions`, `PrefixOptions` and `FourRDOptions`, on the
message's own option set and on every option set nested in it, at any depth. -/

/-- On a decoded message no accessor panics, whatever option set of the message it is
called on (`path`: indices of the options gone through). -/
theorem C03_v6_accessors_decoded (b : Bytes) (m : V6.Msg6) (h : V6.dec6 b = .ok m)
    (path : List Nat) (a : V6.Acc) : V6.accessAt m path a ≠ some .panic := by
  unfold V6.accessAt
  cases hs : V6.setAt m.rootSet path with
  | none => simp
  | some s =>
    obtain ⟨k, os⟩ := s
    have hd : V6.DecOpts os :=
      V6.DecOpts.setAt path (k := m.rootSet.1) (os := m.rootSet.2) (V6.decMsg_of_dec6 h).rootSet hs
    by_cases hk : k = a.kind
    · simp only [hk, if_true, ne_eq, Option.some.injEq]
      exact hd.runAcc a
    · simp [hk]

/-- The accessors whose Go type assertion is checked (`v, ok := opt.(*T)`) never
panic, on ANY option list, decoded or hand-built. -/
theorem C03_v6_checked_accessors_total (a : V6.Acc) (os : List V6.Opt6)
    (ha : a ∉ [V6.Acc.archTypes, .clientID, .serverID, .iana, .oneIANA, .iata, .oneIATA, .iapd, .oneIAPD,
      .addresses, .oneAddress]) : V6.runAcc a os ≠ .panic := by
  cases a <;> simp only [V6.runAcc] <;> first
    | (intro hc; cases hc)
    | (exfalso; simp at ha)

/-- The full statement (every value, decoded or not) is FALSE of model and code: the
eleven accessors with an unchecked assertion panic on a hand-built option list in
which an `OptionGeneric` carries their code. -/
def C03_v6_accessors_full : Prop := ∀ (a : V6.Acc) (os : List V6.Opt6), V6.runAcc a os ≠ .panic

theorem C03_v6_accessors_counterexample : ¬ C03_v6_accessors_full := by
  intro h
  exact h .archTypes [.generic 61 [0, 7]] rfl

example : V6.runAcc .addresses [.generic 5 []] = .panic := rfl
example : V6.runAcc .oneIANA [.generic 3 []] = .panic := rfl
/-- non-vacuity: a decoded message with a nested option set, and accessors finding things in it -/
example : ∃ m, V6.dec6 [1, 0xaa, 0xbb, 0xcc, 0, 3, 0, 40, 1, 2, 3, 4, 0, 0, 0, 10, 0, 0, 0, 20,
      0, 5, 0, 24, 0x20, 1, 0xd, 0xb8, 0, 0, 0, 0, 0, 0, 0, 0, 0, 0, 0, 1, 0, 0, 0, 30, 0, 0, 0, 40] = .ok m ∧
    (∃ o, V6.accessAt m [] .oneIANA = some (.ok (.opt o))) ∧
    (∃ os, V6.accessAt m [0] .addresses = some (.ok (.opts os)) ∧ os.length = 1) ∧
    V6.accessAt m [0, 0] .addrStatus = some (.ok .nil) ∧
    V6.accessAt m [0] .prefixes = none := by
  refine ⟨_, rfl, ⟨_, rfl⟩, ⟨_, rfl, rfl⟩, rfl, rfl⟩

end Dhcp.Props

import DhcpProofs.Lemmas.V4Canon
import DhcpProofs.Lemmas.V4Parse
import DhcpProofs.Lemmas.V4RoundTrip
/-
  C07 — DHCPv4 encoding is deterministic, canonical and readable by any RFC
  decoder.  `enc4` models `(*DHCPv4).ToBytes`, `marshalOpts` models
  `Options.Marshal`, `Spec.Parses4` is the independent RFC reader.
-/
namespace Dhcp.Props
open Dhcp Dhcp.V4 Dhcp.Spec List

/-- codes in non-decreasing order, except that all instances of code 82 come last -/
def Sorted82Last (cs : List UInt8) : Prop :=
  ∃ (l : List UInt8) (k : Nat), cs = l ++ List.replicate k 82 ∧ l.Pairwise (· ≤ ·) ∧ 82 ∉ l

/-- **C07 (at least 300 bytes).** Whatever the packet, if `ToBytes` returns it
returns at least the BOOTP minimum. -/
theorem C07_len_ge_300 (p : Pkt4) (b : Bytes) (h : enc4 p = .ok b) : 300 ≤ b.length := by
  simp only [enc4, bind, pure] at h
  obtain ⟨ci, _, h⟩ := Res.bind_eq_ok h
  obtain ⟨yi, _, h⟩ := Res.bind_eq_ok h
  obtain ⟨si, _, h⟩ := Res.bind_eq_ok h
  obtain ⟨gi, _, h⟩ := Res.bind_eq_ok h
  have := Res.ok.inj h
  subst this
  simp only [List.length_append, zeros_length, bootpMinLen]
  omega

/-- **C07 (layout).** On the encodable domain the output is: 236-byte BOOTP
header, magic cookie, the options area, exactly one End option, then only
zero padding. -/
theorem C07_layout (p : Pkt4) (h : Encodable p) :
    ∃ (hdr : Bytes) (pad : Nat), hdr.length = 236 ∧
      enc4 p = .ok (hdr ++ (magicCookie ++ (marshalOpts p.opts ++ 255 :: zeros pad))) := by
  obtain ⟨pad, hpad⟩ := enc4_ok p h
  refine ⟨p.op :: UInt8.ofNat p.htype :: UInt8.ofNat p.hw.length :: p.hops ::
      (copyInto 4 p.xid ++ (be16 p.secs ++ (be16 p.flags ++ (ip4 p.ciaddr ++ (ip4 p.yiaddr ++
      (ip4 p.siaddr ++ (ip4 p.giaddr ++ (copyInto chaddrLen p.hw ++ (nameField snameCap p.sname ++
      nameField fileCap p.file))))))))), pad, ?_, ?_⟩
  · simp [copyInto_length, ip4_length _ h.ci, ip4_length _ h.yi, ip4_length _ h.si,
      ip4_length _ h.gi, nameField_length, chaddrLen, snameCap, fileCap]
  · rw [hpad]; simp [optEnd, List.append_assoc]

/-- **C07 (canonical options area).** The options area followed by End (and
anything) is a well-formed pad/TLV run; its instances are, in wire order,
`instsOf o`; every instance carries at most 255 value bytes; instance codes are
ascending with all instances of option 82 last; and no instance has code 0
or 255 (so there is exactly one End outside values). Any option map. -/
theorem C07_area (o : Opts) (tail : Bytes) :
    RunEnd (marshalOpts o ++ 255 :: tail) (instsOf o) ∧
    (∀ i ∈ instsOf o, i.2.length ≤ 255 ∧ i.1 ≠ 0 ∧ i.1 ≠ 255) ∧
    Sorted82Last ((instsOf o).map (·.1)) := by
  refine ⟨RunEnd_marshal o tail, ?_, ?_⟩
  · intro i hi
    simp only [instsOf, List.mem_flatMap] at hi
    obtain ⟨c, hc, hi⟩ := hi
    have h1 := chunkInsts_code c _ i hi
    have h2 := (mem_marshalCodes o c).mp hc
    exact ⟨h1.2, by rw [h1.1]; exact h2.2.1, by rw [h1.1]; exact h2.2.2⟩
  · obtain ⟨l, hl, hsorted, h82⟩ := marshalCodes_shape o
    have hmap : ∀ cs : List UInt8, (cs.flatMap (fun c => chunkInsts c ((o.f c).getD []))).map (·.1)
        = cs.flatMap (fun c => List.replicate (chunkInsts c ((o.f c).getD [])).length c) := by
      intro cs
      induction cs with
      | nil => rfl
      | cons c cs ih =>
        simp only [List.flatMap_cons, List.map_append, ih]
        congr 1
        apply List.ext_getElem
        · simp
        · intro n h1 h2
          simp only [List.getElem_map, List.getElem_replicate]
          exact (chunkInsts_code c _ _ (List.getElem_mem _)).1
    refine ⟨l.flatMap (fun c => List.replicate (chunkInsts c ((o.f c).getD [])).length c),
      if o.has 82 then (chunkInsts 82 ((o.f 82).getD [])).length else 0, ?_, ?_, ?_⟩
    · unfold instsOf
      rw [hmap, hl, List.flatMap_append]
      congr 1
      by_cases h : o.has 82 = true <;> simp [h]
    · rw [List.pairwise_flatMap]
      refine ⟨fun a _ => by simp [List.pairwise_replicate], ?_⟩
      refine List.Pairwise.imp ?_ hsorted
      intro a b hab x hx y hy
      rw [(List.mem_replicate.mp hx).2, (List.mem_replicate.mp hy).2]
      exact UInt8.le_of_lt hab
    · intro hm
      simp only [List.mem_flatMap] at hm
      obtain ⟨c, hc, hx⟩ := hm
      rw [(List.mem_replicate.mp hx).2] at h82
      exact h82 hc

/-- **C07 (readable by an independent RFC decoder).** The declarative RFC
grammar recovers exactly the packet's fields and option values from the
encoder's bytes. -/
theorem C07_parses (p : Pkt4) (h : Encodable p) :
    ∃ b, enc4 p = .ok b ∧ Parses4 b (norm p) := by
  obtain ⟨b, h1, h2⟩ := enc4_dec4 p h
  exact ⟨b, h1, dec4_sound b _ h2⟩

/-- option-map edits: the operations by which callers build a packet -/
inductive OptOp where
  | update (c : UInt8) (v : Bytes)
  | delete (c : UInt8)

def applyOp (o : Opts) : OptOp → Opts
  | .update c v => o.set c v
  | .delete c => o.del c

def applyOps (o : Opts) (ops : List OptOp) : Opts := ops.foldl applyOp o

/-- **C07 (order independence).** Two histories of option updates and
deletions — any lengths, any orders — that leave the same contents give
identical bytes. In the model this is extensionality of the option map (the
map has no iteration order); that the Go code does not depend on map
iteration order is what the `v4enc` correspondence stream observes (each
packet is encoded repeatedly, Go randomises iteration per `range`). -/
theorem C07_order_independent (p : Pkt4) (ops₁ ops₂ : List OptOp)
    (h : ∀ c, (applyOps p.opts ops₁).f c = (applyOps p.opts ops₂).f c) :
    enc4 { p with opts := applyOps p.opts ops₁ } = enc4 { p with opts := applyOps p.opts ops₂ } := by
  have : applyOps p.opts ops₁ = applyOps p.opts ops₂ := Opts.ext' h
  rw [this]

/-- a permutation of updates to distinct codes is one such pair of histories -/
theorem C07_swap_updates (o : Opts) (c d : UInt8) (v w : Bytes) (hcd : c ≠ d) :
    ∀ k, (applyOps o [.update c v, .update d w]).f k = (applyOps o [.update d w, .update c v]).f k := by
  intro k
  simp only [applyOps, List.foldl_cons, List.foldl_nil, applyOp, Opts.set]
  by_cases hk : k = c <;> by_cases hk' : k = d <;> simp_all

set_option maxRecDepth 4000 in
/-- Non-vacuity: a 300-byte value is written as two instances of 255 and 45
bytes, and the code sequence 1, 3, 43, 43, 82 is `Sorted82Last`. -/
example : (chunkInsts 43 (zeros 300)).map (fun i => (i.1, i.2.length)) = [(43, 255), (43, 45)] := by
  decide

example : Sorted82Last [1, 3, 43, 43, 82] := ⟨[1, 3, 43, 43], 1, rfl, by decide, by decide⟩

end Dhcp.Props

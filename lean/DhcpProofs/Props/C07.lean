import DhcpProofs.Lemmas.V4MapOrder
import DhcpProofs.Lemmas.V4Canon
import DhcpProofs.Lemmas.V4Parse
import DhcpProofs.Lemmas.V4RoundTrip
/-
  C07 — DHCPv4 encoding is deterministic, canonical and readable by any RFC
  decoder.  `enc4` models `(*DHCPv4).ToBytes`, `marshalOpts` models
  `Options.Marshal`, `Spec.Parses4` is the independent RFC reader.
-/
namespace Dhcp.Props
open Dhcp Dhcp.V4 Dhcp.Spec List

/-- codes in non-decreasing order, except that all instances of code 82 come last -/
def Sorted82Last (cs : List UInt8) : Prop :=
  ∃ (l : List UInt8) (k : Nat), cs = l ++ List.replicate k 82 ∧ l.Pairwise (· ≤ ·) ∧ 82 ∉ l

/-- **C07 (at least 300 bytes).** Whatever the packet, if `ToBytes` returns it
returns at least the BOOTP minimum. -/
theorem C07_len_ge_300 (p : Pkt4) (b : Bytes) (h : enc4 p = .ok b) : 300 ≤ b.length := by
  simp only [enc4, bind, pure] at h
  obtain ⟨ci, _, h⟩ := Res.bind_eq_ok h
  obtain ⟨yi, _, h⟩ := Res.bind_eq_ok h
  obtain ⟨si, _, h⟩ := Res.bind_eq_ok h
  obtain ⟨gi, _, h⟩ := Res.bind_eq_ok h
  have := Res.ok.inj h
  subst this
  simp only [List.length_append, zeros_length, bootpMinLen]
  omega

/-- **C07 (layout).** On the encodable domain the output is: 236-byte BOOTP
header, magic cookie, the options area, exactly one End option, then only
zero padding. -/
theorem C07_layout (p : Pkt4) (h : Encodable p) :
    ∃ (hdr : Bytes) (pad : Nat), hdr.length = 236 ∧
      enc4 p = .ok (hdr ++ (magicCookie ++ (marshalOpts p.opts ++ 255 :: zeros pad))) := by
  obtain ⟨pad, hpad⟩ := enc4_ok p h
  refine ⟨p.op :: UInt8.ofNat p.htype :: UInt8.ofNat p.hw.length :: p.hops ::
      (copyInto 4 p.xid ++ (be16 p.secs ++ (be16 p.flags ++ (ip4 p.ciaddr ++ (ip4 p.yiaddr ++
      (ip4 p.siaddr ++ (ip4 p.giaddr ++ (copyInto chaddrLen p.hw ++ (nameField snameCap p.sname ++
      nameField fileCap p.file))))))))), pad, ?_, ?_⟩
  · simp [copyInto_length, ip4_length _ h.ci, ip4_length _ h.yi, ip4_length _ h.si,
      ip4_length _ h.gi, nameField_length, chaddrLen, snameCap, fileCap]
  · rw [hpad]; simp [optEnd, List.append_assoc]

/-- **C07 (canonical options area).** The options area followed by End (and
anything) is a well-formed pad/TLV run; its instances are, in wire order,
`instsOf o`; every instance carries at most 255 value bytes; instance codes are
ascending with all instances of option 82 last; and no instance has code 0
or 255 (so there is exactly one End outside values). Any option map. -/
theorem C07_area (o : Opts) (tail : Bytes) :
    RunEnd (marshalOpts o ++ 255 :: tail) (instsOf o) ∧
    (∀ i ∈ instsOf o, i.2.length ≤ 255 ∧ i.1 ≠ 0 ∧ i.1 ≠ 255) ∧
    Sorted82Last ((instsOf o).map (·.1)) := by
  refine ⟨RunEnd_marshal o tail, ?_, ?_⟩
  · intro i hi
    simp only [instsOf, List.mem_flatMap] at hi
    obtain ⟨c, hc, hi⟩ := hi
    have h1 := chunkInsts_code c _ i hi
    have h2 := (mem_marshalCodes o c).mp hc
    exact ⟨h1.2, by rw [h1.1]; exact h2.2.1, by rw [h1.1]; exact h2.2.2⟩
  · obtain ⟨l, hl, hsorted, h82⟩ := marshalCodes_shape o
    have hmap : ∀ cs : List UInt8, (cs.flatMap (fun c => chunkInsts c ((o.f c).getD []))).map (·.1)
        = cs.flatMap (fun c => List.replicate (chunkInsts c ((o.f c).getD [])).length c) := by
      intro cs
      induction cs with
      | nil => rfl
      | cons c cs ih =>
        simp only [List.flatMap_cons, List.map_append, ih]
        congr 1
        apply List.ext_getElem
        · simp
        · intro n h1 h2
          simp only [List.getElem_map, List.getElem_replicate]
          exact (chunkInsts_code c _ _ (List.getElem_mem _)).1
    refine ⟨l.flatMap (fun c => List.replicate (chunkInsts c ((o.f c).getD [])).length c),
      if o.has 82 then (chunkInsts 82 ((o.f 82).getD [])).length else 0, ?_, ?_, ?_⟩
    · unfold instsOf
      rw [hmap, hl, List.flatMap_append]
      congr 1
      by_cases h : o.has 82 = true <;> simp [h]
    · rw [List.pairwise_flatMap]
      refine ⟨fun a _ => by simp [List.pairwise_replicate], ?_⟩
      refine List.Pairwise.imp ?_ hsorted
      intro a b hab x hx y hy
      rw [(List.mem_replicate.mp hx).2, (List.mem_replicate.mp hy).2]
      exact UInt8.le_of_lt hab
    · intro hm
      simp only [List.mem_flatMap] at hm
      obtain ⟨c, hc, hx⟩ := hm
      rw [(List.mem_replicate.mp hx).2] at h82
      exact h82 hc

/-- **C07 (readable by an independent RFC decoder).** The declarative RFC
grammar recovers exactly the packet's fields and option values from the
encoder's bytes. -/
theorem C07_parses (p : Pkt4) (h : Encodable p) :
    ∃ b, enc4 p = .ok b ∧ Parses4 b (norm p) := by
  obtain ⟨b, h1, h2⟩ := enc4_dec4 p h
  exact ⟨b, h1, dec4_sound b _ h2⟩

/-- option-map edits: the operations by which callers build a packet -/
inductive OptOp where
  | update (c : UInt8) (v : Bytes)
  | delete (c : UInt8)

def applyOp (o : Opts) : OptOp → Opts
  | .update c v => o.set c v
  | .delete c => o.del c

def applyOps (o : Opts) (ops : List OptOp) : Opts := ops.foldl applyOp o

/-- **C07 (order independence).** Two histories of option updates and
deletions — any lengths, any orders — that leave the same contents give
identical bytes. In the model this is extensionality of the option map (the
map has no iteration order); that the Go code does not depend on map
iteration order is what the `v4enc` correspondence stream observes (each
packet is encoded repeatedly, Go randomises iteration per `range`). -/
theorem C07_order_independent (p : Pkt4) (ops₁ ops₂ : List OptOp)
    (h : ∀ c, (applyOps p.opts ops₁).f c = (applyOps p.opts ops₂).f c) :
    enc4 { p with opts := applyOps p.opts ops₁ } = enc4 { p with opts := applyOps p.opts ops₂ } := by
  have : applyOps p.opts ops₁ = applyOps p.opts ops₂ := Opts.ext' h
  rw [this]

/-- a permutation of updates to distinct codes is one such pair of histories -/
theorem C07_swap_updates (o : Opts) (c d : UInt8) (v w : Bytes) (hcd : c ≠ d) :
    ∀ k, (applyOps o [.update c v, .update d w]).f k = (applyOps o [.update d w, .update c v]).f k := by
  intro k
  simp only [applyOps, List.foldl_cons, List.foldl_nil, applyOp, Opts.set]
  by_cases hk : k = c <;> by_cases hk' : k = d <;> simp_all

/-! ### the order in which Go's runtime yields the map's keys

`Options` is a Go map: `for k := range o` in `sortedKeys` yields the keys in an
order that is unspecified and differs from run to run.  `enc4From it p` is
`ToBytes` executed when that loop yields the keys in the order `it`.  The
theorems quantify over EVERY such order (every permutation of the key set), so
"the bytes do not depend on the order in which the options were added" is a
statement about the algorithm the code runs — collect, sort, append 82 and 255 —
and not only about the model's order-free map.  That `sortedKeys` has that
shape (one `range`, the codes 82 and 255 skipped, a sort call between the loop
and the appends of 82 and 255 in that order; `Marshal` ranges over
`o.sortedKeys()` only) is re-read from the source on every run:
`fact_sortedKeys_shape` (DhcpProofs/Facts/V4Codec.lean). -/

/-- `(*DHCPv4).ToBytes` when `range o` yields the option codes in the order `it` -/
def enc4From (it : List UInt8) (p : Pkt4) : Res Bytes := do
  let ci ← writeIP p.ciaddr
  let yi ← writeIP p.yiaddr
  let si ← writeIP p.siaddr
  let gi ← writeIP p.giaddr
  let body : Bytes :=
    [p.op, UInt8.ofNat p.htype, UInt8.ofNat p.hw.length, p.hops] ++ copyInto 4 p.xid
      ++ be16 p.secs ++ be16 p.flags ++ ci ++ yi ++ si ++ gi
      ++ copyInto chaddrLen p.hw
      ++ nameField snameCap p.sname
      ++ nameField fileCap p.file
      ++ magicCookie ++ marshalOptsFrom it p.opts ++ [optEnd]
  pure (body ++ zeros (bootpMinLen - body.length))

/-- **C07 (map iteration order).** For every packet — in the encodable domain or
not — and every order `it` in which the runtime may yield the keys of the
option map, the encoder produces the bytes of `enc4`: the output is a function
of the option set's CONTENTS alone. -/
theorem C07_map_order_irrelevant (p : Pkt4) (it : List UInt8) (h : it.Perm p.opts.keys) :
    enc4From it p = enc4 p := by
  unfold enc4From enc4
  rw [marshalOptsFrom_eq p.opts it h]

/-- two runs of the encoder on packets with the same contents, each under its own
iteration order, give identical bytes -/
theorem C07_map_order_pair (p : Pkt4) (it₁ it₂ : List UInt8)
    (h₁ : it₁.Perm p.opts.keys) (h₂ : it₂.Perm p.opts.keys) :
    enc4From it₁ p = enc4From it₂ p := by
  rw [C07_map_order_irrelevant p it₁ h₁, C07_map_order_irrelevant p it₂ h₂]

/-- the same through two different build histories: any two edit histories that
leave the same contents, encoded under any two iteration orders -/
theorem C07_order_independent_any_iteration (p : Pkt4) (ops₁ ops₂ : List OptOp) (it₁ it₂ : List UInt8)
    (h : ∀ c, (applyOps p.opts ops₁).f c = (applyOps p.opts ops₂).f c)
    (h₁ : it₁.Perm (applyOps p.opts ops₁).keys) (h₂ : it₂.Perm (applyOps p.opts ops₂).keys) :
    enc4From it₁ { p with opts := applyOps p.opts ops₁ } =
      enc4From it₂ { p with opts := applyOps p.opts ops₂ } := by
  rw [C07_map_order_irrelevant _ it₁ h₁, C07_map_order_irrelevant _ it₂ h₂]
  exact C07_order_independent p ops₁ ops₂ h

/-- what the sort contributes: WITHOUT it the output would follow the iteration
order (two orders of the keys {1, 3} give different code sequences), so the
statement above is not true of "collect and append" alone -/
theorem C07_sort_needed :
    ([3, 1] : List UInt8).Perm [1, 3] ∧ ([3, 1] : List UInt8) ≠ [1, 3] ∧
    sortedKeysFrom [3, 1] = [1, 3] ∧ sortedKeysFrom [1, 3] = [1, 3] := by
  refine ⟨List.Perm.swap 1 3 [], by decide, by decide, by decide⟩

/-- `sort.Ints` enters only through its specification: any function that returns
an ascending permutation of the collected codes yields the same key list -/
theorem C07_any_sort (l r : List UInt8) (hr : Asc r) (hp : r.Perm l) : r = sortCodes l :=
  sortCodes_unique l r hr hp

/-- Non-vacuity: the keys {82, 5, 255, 3, 200, 1} yielded in that scrambled order
come out as 1, 3, 5, 200, then 82, then 255 -/
example : sortedKeysFrom [82, 5, 255, 3, 200, 1] = [1, 3, 5, 200, 82, 255] := by decide

set_option maxRecDepth 4000 in
/-- Non-vacuity: a 300-byte value is written as two instances of 255 and 45
bytes, and the code sequence 1, 3, 43, 43, 82 is `Sorted82Last`. -/
example : (chunkInsts 43 (zeros 300)).map (fun i => (i.1, i.2.length)) = [(43, 255), (43, 45)] := by
  decide

example : Sorted82Last [1, 3, 43, 43, 82] := ⟨[1, 3, 43, 43], 1, rfl, by decide, by decide⟩

end Dhcp.Props

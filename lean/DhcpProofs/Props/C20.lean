import Dhcp.ReadOnly
/-
  C20: calling any accessor or String/Summary method, any number of times and
  in any order, leaves the value — hence its later encoding and the results of
  every other accessor — unchanged, and repeated calls return equal results.

  Stated over the state-passing model of Dhcp/ReadOnly.lean for EVERY world
  (value type, outputs, results, and whatever a write would do) and every
  effect function; the hypothesis "the table entry of each operation used is
  false" is discharged for the regenerated table in
  DhcpProofs/Facts/ReadOnly.lean (`fact_no_read_method_writes`), where the
  theorems are also specialised to it.
-/
namespace Dhcp.Props.C20
open Dhcp.ReadOnly

variable {Val Out : Type}

/-- An operation whose table entry is `false` returns the receiver unchanged. -/
theorem C20_frame (effects : String → Bool) (w : World Val Out) (op : ReadOp) (v : Val)
    (h : effects op.name = false) : (read effects w op v).2 = v := by
  simp [Dhcp.ReadOnly.read, h]

/-- Any list of operations whose entries are all `false` — any length, any
    order, repetitions allowed — ends with the receiver it started from. -/
theorem C20_any_sequence_value (effects : String → Bool) (w : World Val Out) (ops : List ReadOp) (v : Val)
    (h : ∀ op ∈ ops, effects op.name = false) : (runReads effects w v ops).2 = v := by
  induction ops generalizing v with
  | nil => rfl
  | cons op ops ih =>
    have h1 : (read effects w op v).2 = v := C20_frame effects w op v (h op (List.mem_cons_self ..))
    have h2 := ih ((read effects w op v).2) (fun o ho => h o (List.mem_cons_of_mem _ ho))
    simp only [runReads]
    rw [h2, h1]

/-- ... hence its encoding is what it was, for any encoder, and so is what any
    observer (another accessor, a structural snapshot) sees, and the result of
    every other operation run afterwards. -/
theorem C20_any_sequence (effects : String → Bool) (w : World Val Out) (ops : List ReadOp) (v : Val)
    (h : ∀ op ∈ ops, effects op.name = false) :
    (runReads effects w v ops).2 = v
    ∧ (∀ {Wire : Type} (enc : Val → Wire), enc (runReads effects w v ops).2 = enc v)
    ∧ (∀ {Obs : Type} (observe : Val → Obs), observe (runReads effects w v ops).2 = observe v)
    ∧ (∀ other : ReadOp, (read effects w other (runReads effects w v ops).2).1 = (read effects w other v).1) := by
  have hv := C20_any_sequence_value effects w ops v h
  exact ⟨hv, fun enc => by rw [hv], fun obs => by rw [hv], fun other => by rw [hv]⟩

/-- Every output produced along such a sequence is the one the operation gives
    on the ORIGINAL value: where an operation sits in the sequence, and what
    ran before it, does not matter. -/
theorem C20_outputs (effects : String → Bool) (w : World Val Out) (ops : List ReadOp) (v : Val)
    (h : ∀ op ∈ ops, effects op.name = false) :
    (runReads effects w v ops).1 = ops.map (fun op => w.result op v) := by
  induction ops generalizing v with
  | nil => rfl
  | cons op ops ih =>
    have h1 : (read effects w op v).2 = v := C20_frame effects w op v (h op (List.mem_cons_self ..))
    have h2 := ih ((read effects w op v).2) (fun o ho => h o (List.mem_cons_of_mem _ ho))
    simp only [runReads, List.map_cons]
    rw [h2, h1]
    rfl

/-- Repeated calls return equal results: calling `op` again — immediately, or
    after any other read operations — gives the output of the first call. -/
theorem C20_idempotent (effects : String → Bool) (w : World Val Out) (op : ReadOp) (between : List ReadOp) (v : Val)
    (hop : effects op.name = false) (h : ∀ o ∈ between, effects o.name = false) :
    (read effects w op (runReads effects w (read effects w op v).2 between).2).1 = (read effects w op v).1 := by
  rw [C20_any_sequence_value effects w between _ h, C20_frame effects w op v hop]

/-- n consecutive calls of the same operation: n equal outputs, value unchanged. -/
theorem C20_repeat (effects : String → Bool) (w : World Val Out) (op : ReadOp) (n : Nat) (v : Val)
    (hop : effects op.name = false) :
    runReads effects w v (List.replicate n op) = (List.replicate n (w.result op v), v) := by
  have hall : ∀ o ∈ List.replicate n op, effects o.name = false := by
    intro o ho
    rw [List.eq_of_mem_replicate ho]; exact hop
  have h1 := C20_outputs effects w (List.replicate n op) v hall
  have h2 := C20_any_sequence_value effects w (List.replicate n op) v hall
  rw [List.map_replicate] at h1
  exact Prod.ext h1 h2

/-! ### Non-vacuity: the table entry is what the theorems rest on -/

/-- The old defect as a world: values are code lists, the encoding is the list
    itself, and `OptionCodeList.String` sorts its receiver in place. -/
def sortingWorld : World (List Nat) String where
  result := fun _ v => toString v
  scramble := fun _ v => isort v

def stringOp : ReadOp := ⟨"dhcpv4.OptionCodeList.String"⟩

/-- With the entry `true` (what the extractor reported before the fix in /repo)
    printing the parameter request list [3, 1] changes what is encoded next:
    [3, 1] before, [1, 3] after — the reproduced failing input of DESIGN.md F8. -/
theorem C20_old_counterexample :
    let effects : String → Bool := fun n => n == "dhcpv4.OptionCodeList.String"
    let enc : List Nat → List Nat := id
    enc (read effects sortingWorld stringOp [3, 1]).2 = [1, 3] ∧
    enc (read effects sortingWorld stringOp [3, 1]).2 ≠ enc [3, 1] := by
  decide

/-- In general: whenever an operation's entry is `true` there is a world (a
    scramble) and a value whose encoding the call changes — so the hypothesis of
    `C20_frame`/`C20_any_sequence` cannot be dropped, and the theorems say
    something only because the regenerated table says `false`. -/
theorem C20_true_entry_can_change_encoding (effects : String → Bool) (op : ReadOp) (h : effects op.name = true) :
    ∃ (w : World Bool Unit) (v : Bool) (enc : Bool → Bool), enc (read effects w op v).2 ≠ enc v := by
  refine ⟨⟨fun _ _ => (), fun _ b => !b⟩, true, id, ?_⟩
  simp [Dhcp.ReadOnly.read, h]

/-- ... and an output can change too: the second of two calls differs from the first. -/
theorem C20_true_entry_can_change_result (effects : String → Bool) (op : ReadOp) (h : effects op.name = true) :
    ∃ (w : World Bool Bool) (v : Bool), (read effects w op (read effects w op v).2).1 ≠ (read effects w op v).1 := by
  refine ⟨⟨fun _ b => b, fun _ b => !b⟩, true, ?_⟩
  simp [Dhcp.ReadOnly.read, h]

/-- The hypotheses are satisfiable by a non-trivial sequence: three different
    operations, one repeated, on a world whose scramble WOULD change the value. -/
example :
    let effects : String → Bool := fun n => n == "x.Setter"
    (runReads effects sortingWorld [3, 1] [⟨"a.String"⟩, ⟨"b.Summary"⟩, ⟨"a.String"⟩, ⟨"c.ToBytes"⟩]).2 = [3, 1]
    ∧ (runReads effects sortingWorld [3, 1] [⟨"a.String"⟩, ⟨"x.Setter"⟩]).2 = [1, 3] := by
  decide

end Dhcp.Props.C20

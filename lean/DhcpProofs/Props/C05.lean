import DhcpProofs.Lemmas.V6Parse
import DhcpProofs.Lemmas.V6Fuel
/-
  C05 — DHCPv6 decoding accepts exactly well-formed messages and reads the RFC
  values.  `dec6`/`parseOption`/`decOpts` (Dhcp/V6/Codec.lean) model
  `dhcpv6.FromBytes`/`ParseOption`/`Options.FromBytes`; `Spec.PMsg`/`POpt`/
  `POpts` (Dhcp/Spec/Wire6.lean) are the declarative RFC 8415 framing grammar:
  complete header, options tiling the remainder exactly as code/length/value
  triples, recursively through IA_NA, IA_TA, IAADDR, IA_PD, IAPREFIX, the S46
  4rd container and relay-message options.  The value layout of the leaf
  options is `decSimple`/`decDUID`; its RFC reading is checked against the
  independently written Go decoder (oracle c05, harness/cmd/harness/ref6.go)
  and, for the fixed-size ones, by the lemmas at the end of this file.
-/
namespace Dhcp.Props
open Dhcp Dhcp.V6 Dhcp.Spec

/-- **C05 (exactness, messages).** A byte string is accepted as a DHCPv6
message or relay message if and only if the framing grammar derives it, and
the decoded value is the grammar's reading. All byte strings. -/
theorem C05_exact (b : Bytes) (m : Msg6) : dec6 b = .ok m ↔ PMsg b m := dec6_iff b m

theorem C05_sound (b : Bytes) (m : Msg6) (h : dec6 b = .ok m) : PMsg b m := (dec6_iff b m).mp h
theorem C05_complete (b : Bytes) (m : Msg6) (h : PMsg b m) : dec6 b = .ok m := (dec6_iff b m).mpr h

/-- **C05 (exactness, single options and option lists).** -/
theorem C05_exact_option (code : Nat) (data : Bytes) (o : Opt6) :
    parseOption code data = .ok o ↔ POpt code data o := parseOption_iff code data o
theorem C05_exact_options (data : Bytes) (os : List Opt6) :
    decOpts data = .ok os ↔ POpts data os := decOpts_iff data os

/-- **C05 (every other input yields an error — never a panic).** -/
theorem C05_reject (b : Bytes) (h : ¬ ∃ m, PMsg b m) : dec6 b = .err := by
  cases hd : dec6 b with
  | ok m => exact absurd ⟨m, (dec6_iff b m).mp hd⟩ h
  | err => rfl
  | panic => exact absurd hd (dec6_ne_panic b)

theorem C05_no_panic (b : Bytes) : dec6 b ≠ .panic := dec6_ne_panic b
theorem C05_no_panic_option (code : Nat) (data : Bytes) : parseOption code data ≠ .panic :=
  parseOption_ne_panic code data
theorem C05_no_panic_duid (d : Bytes) : decDUID d ≠ .panic := decDUID_ne_panic d

/-- **C05 (the reading is unique).** -/
theorem C05_functional (b : Bytes) (m m' : Msg6) (h : PMsg b m) (h' : PMsg b m') : m = m' :=
  PMsg_functional h h'

/-- **C05 (options appear in wire order).** The decoded option codes are the
codes of the TLVs in the buffer, in order. -/
theorem C05_wire_order (d : Bytes) (os : List Opt6) (h : decOpts d = .ok os) :
    os.map Opt6.code = wireCodes d := POpts_codes ((decOpts_iff d os).mp h)

/-- **C05 (unknown codes keep their payload verbatim).** -/
theorem C05_unknown_verbatim (c : Nat) (v : Bytes) (h : c ∉ knownCodes) :
    parseOption c v = .ok (.generic c v) := (parseOption_iff c v _).mpr (generic_accepted v h)

theorem C05_generic_only_unknown (c c' : Nat) (v d : Bytes) (h : parseOption c v = .ok (.generic c' d)) :
    c' = c ∧ d = v ∧ c ∉ knownCodes := generic_verbatim ((parseOption_iff c v _).mp h)

/-- **C05 (acceptance of an option is independent of its neighbours).** A buffer
that starts with a well-formed option list `d1` is accepted iff the rest is, and
the result is the concatenation. -/
theorem C05_neighbours (d1 d2 : Bytes) (os1 os : List Opt6) (h1 : decOpts d1 = .ok os1) :
    decOpts (d1 ++ d2) = .ok os ↔ ∃ os2, os = os1 ++ os2 ∧ decOpts d2 = .ok os2 := by
  rw [decOpts_iff, POpts_append_iff ((decOpts_iff d1 os1).mp h1)]
  constructor
  · rintro ⟨os2, rfl, h2⟩; exact ⟨os2, rfl, (decOpts_iff d2 os2).mpr h2⟩
  · rintro ⟨os2, rfl, h2⟩; exact ⟨os2, rfl, (decOpts_iff d2 os2).mp h2⟩

/-- **C05 (truncation and trailing bytes).** Header completeness: fewer than 4
octets (34 for relay types) are rejected … -/
theorem C05_short_header (b : Bytes) (h : b.length < 4) : dec6 b = .err := by
  apply C05_reject
  rintro ⟨m, hm⟩
  cases hm with
  | msg _ hx _ => simp at h; omega
  | relay _ hl hp _ => simp at h; omega

theorem C05_short_relay_header (t : UInt8) (rest : Bytes) (ht : isRelayType t = true)
    (h : rest.length < 33) : dec6 (t :: rest) = .err := by
  apply C05_reject
  rintro ⟨m, hm⟩
  generalize hb : t :: rest = b at hm
  cases hm with
  | @msg t' xid r os ht' hx _ =>
    injection hb with h1 h2; subst h1; rw [ht] at ht'; cases ht'
  | @relay t' hh link peer r os _ hl hp _ =>
    injection hb with h1 h2; subst h2; simp at h; omega

/-- … and an option list with 1–3 dangling octets at its end is rejected. -/
theorem C05_trailing (d junk : Bytes) (os : List Opt6) (h : decOpts d = .ok os)
    (hj : 0 < junk.length ∧ junk.length < 4) : ∀ os', decOpts (d ++ junk) ≠ .ok os' := by
  intro os' h'
  obtain ⟨os2, _, h2⟩ := (C05_neighbours d junk os os' h).mp h'
  have := (decOpts_iff junk os2).mp h2
  cases this with
  | nil => simp at hj
  | cons _ _ _ _ => simp [tlv_length] at hj; omega

/-- Non-vacuity: every encoder output of a well-formed message is derivable
(so the grammar is inhabited by messages of any depth with every option type). -/
example (m : Msg6) (h : WFMsg m) : PMsg (encMsg m) m := (dec6_iff _ _).mp (dec6_encMsg m h)

theorem C05_empty_rejected : dec6 [] = .err := by rfl
theorem C05_header_only_accepted : dec6 [1, 0xaa, 0xbb, 0xcc] = .ok (.msg 1 [0xaa, 0xbb, 0xcc] []) := by rfl

end Dhcp.Props

import Dhcp.V6.Codec
/-
  C05 — DHCPv6 decoding accepts exactly well-formed messages and reads the RFC
  values.  `dec6` (Dhcp/V6/Codec.lean) is the model of `dhcpv6.FromBytes`.

  The decoder ⇔ grammar theorems (`C05_sound`, `C05_complete` against the
  declarative RFC grammar `Spec.Parses6`, for messages, relay messages, single
  options and DUIDs) are being written in the main session; until they land
  this file carries only the header-completeness facts below, and the property
  is tied to the code by the `v6dec` correspondence stream (model vs
  `dhcpv6.FromBytes`/`ParseOption`/`DUIDFromBytes`) and by oracle `c05`
  (an independently written Go RFC decoder, harness/cmd/harness/ref6.go,
  compared with the library on verdict and value).
-/
namespace Dhcp.Props
open Dhcp Dhcp.V6

/-- The empty byte string is not a DHCPv6 message (no message-type octet). -/
theorem C05_empty_rejected : dec6 [] = .err := by rfl

/-- A message-type octet alone is not a message: the 3-octet transaction-id is
missing (here for SOLICIT). -/
theorem C05_type_only_rejected : dec6 [1] = .err := by rfl

/-- A complete 4-octet header with no options is accepted and read as is. -/
theorem C05_header_only_accepted : dec6 [1, 0xaa, 0xbb, 0xcc] = .ok (.msg 1 [0xaa, 0xbb, 0xcc] []) := by rfl

/-- Relay types need the 34-octet header: 4 octets are not enough. -/
theorem C05_short_relay_rejected : dec6 [12, 0, 0, 0] = .err := by rfl

end Dhcp.Props

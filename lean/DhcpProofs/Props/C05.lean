import DhcpProofs.Lemmas.V6Parse
import DhcpProofs.Lemmas.V6Fuel
import DhcpProofs.Lemmas.V6LeafIff
/-
  C05 — DHCPv6 decoding accepts exactly well-formed messages and reads the RFC
  values.  `dec6`/`parseOption`/`decOpts` (Dhcp/V6/Codec.lean) model
  `dhcpv6.FromBytes`/`ParseOption`/`Options.FromBytes`; `Spec.PMsg`/`POpt`/
  `POpts` (Dhcp/Spec/Wire6.lean) are the declarative RFC 8415 framing grammar:
  complete header, options tiling the remainder exactly as code/length/value
  triples, recursively through IA_NA, IA_TA, IAADDR, IA_PD, IAPREFIX, the S46
  4rd container and relay-message options.  In `PMsg` the value layout of the
  leaf options is delegated to `decSimple`/`decDUID`; `Spec.PMsg'`/`POpt'`/
  `POpts'` (Dhcp/Spec/Wire6Rfc.lean) is the same grammar with every leaf option
  and DUID given by the declarative per-option RFC layouts `Spec.PLeaf` /
  `Spec.PDUID` (Dhcp/Spec/Leaf6.lean: no Lexer, no decoder code; the places
  where the library's acceptance departs from the RFC text are marked
  `-- library deviation:` there).  The `*_rfc` theorems below state the
  property against that grammar.  The Go reference decoder of oracle c05
  (harness/cmd/harness/ref6.go) remains as the tie of the same layouts to the
  real code.
-/
namespace Dhcp.Props
open Dhcp Dhcp.V6 Dhcp.Spec

/-- **C05 (exactness, messages).** A byte string is accepted as a DHCPv6
message or relay message if and only if the framing grammar derives it, and
the decoded value is the grammar's reading. All byte strings. -/
theorem C05_exact (b : Bytes) (m : Msg6) : dec6 b = .ok m ↔ PMsg b m := dec6_iff b m

theorem C05_sound (b : Bytes) (m : Msg6) (h : dec6 b = .ok m) : PMsg b m := (dec6_iff b m).mp h
theorem C05_complete (b : Bytes) (m : Msg6) (h : PMsg b m) : dec6 b = .ok m := (dec6_iff b m).mpr h

/-- **C05 (exactness, single options and option lists).** -/
theorem C05_exact_option (code : Nat) (data : Bytes) (o : Opt6) :
    parseOption code data = .ok o ↔ POpt code data o := parseOption_iff code data o
theorem C05_exact_options (data : Bytes) (os : List Opt6) :
    decOpts data = .ok os ↔ POpts data os := decOpts_iff data os

/-- **C05 (every other input yields an error — never a panic).** -/
theorem C05_reject (b : Bytes) (h : ¬ ∃ m, PMsg b m) : dec6 b = .err := by
  cases hd : dec6 b with
  | ok m => exact absurd ⟨m, (dec6_iff b m).mp hd⟩ h
  | err => rfl
  | panic => exact absurd hd (dec6_ne_panic b)

theorem C05_no_panic (b : Bytes) : dec6 b ≠ .panic := dec6_ne_panic b
theorem C05_no_panic_option (code : Nat) (data : Bytes) : parseOption code data ≠ .panic :=
  parseOption_ne_panic code data
theorem C05_no_panic_duid (d : Bytes) : decDUID d ≠ .panic := decDUID_ne_panic d

/-- **C05 (the reading is unique).** -/
theorem C05_functional (b : Bytes) (m m' : Msg6) (h : PMsg b m) (h' : PMsg b m') : m = m' :=
  PMsg_functional h h'

/-- **C05 (options appear in wire order).** The decoded option codes are the
codes of the TLVs in the buffer, in order. -/
theorem C05_wire_order (d : Bytes) (os : List Opt6) (h : decOpts d = .ok os) :
    os.map Opt6.code = wireCodes d := POpts_codes ((decOpts_iff d os).mp h)

/-- **C05 (unknown codes keep their payload verbatim).** -/
theorem C05_unknown_verbatim (c : Nat) (v : Bytes) (h : c ∉ knownCodes) :
    parseOption c v = .ok (.generic c v) := (parseOption_iff c v _).mpr (generic_accepted v h)

theorem C05_generic_only_unknown (c c' : Nat) (v d : Bytes) (h : parseOption c v = .ok (.generic c' d)) :
    c' = c ∧ d = v ∧ c ∉ knownCodes := generic_verbatim ((parseOption_iff c v _).mp h)

/-- **C05 (acceptance of an option is independent of its neighbours).** A buffer
that starts with a well-formed option list `d1` is accepted iff the rest is, and
the result is the concatenation. -/
theorem C05_neighbours (d1 d2 : Bytes) (os1 os : List Opt6) (h1 : decOpts d1 = .ok os1) :
    decOpts (d1 ++ d2) = .ok os ↔ ∃ os2, os = os1 ++ os2 ∧ decOpts d2 = .ok os2 := by
  rw [decOpts_iff, POpts_append_iff ((decOpts_iff d1 os1).mp h1)]
  constructor
  · rintro ⟨os2, rfl, h2⟩; exact ⟨os2, rfl, (decOpts_iff d2 os2).mpr h2⟩
  · rintro ⟨os2, rfl, h2⟩; exact ⟨os2, rfl, (decOpts_iff d2 os2).mp h2⟩

/-- **C05 (truncation and trailing bytes).** Header completeness: fewer than 4
octets (34 for relay types) are rejected … -/
theorem C05_short_header (b : Bytes) (h : b.length < 4) : dec6 b = .err := by
  apply C05_reject
  rintro ⟨m, hm⟩
  cases hm with
  | msg _ hx _ => simp at h; omega
  | relay _ hl hp _ => simp at h; omega

theorem C05_short_relay_header (t : UInt8) (rest : Bytes) (ht : isRelayType t = true)
    (h : rest.length < 33) : dec6 (t :: rest) = .err := by
  apply C05_reject
  rintro ⟨m, hm⟩
  generalize hb : t :: rest = b at hm
  cases hm with
  | @msg t' xid r os ht' hx _ =>
    injection hb with h1 h2; subst h1; rw [ht] at ht'; cases ht'
  | @relay t' hh link peer r os _ hl hp _ =>
    injection hb with h1 h2; subst h2; simp at h; omega

/-- … and an option list with 1–3 dangling octets at its end is rejected. -/
theorem C05_trailing (d junk : Bytes) (os : List Opt6) (h : decOpts d = .ok os)
    (hj : 0 < junk.length ∧ junk.length < 4) : ∀ os', decOpts (d ++ junk) ≠ .ok os' := by
  intro os' h'
  obtain ⟨os2, _, h2⟩ := (C05_neighbours d junk os os' h).mp h'
  have := (decOpts_iff junk os2).mp h2
  cases this with
  | nil => simp at hj
  | cons _ _ _ _ => simp [tlv_length] at hj; omega

/-- Non-vacuity: every encoder output of a well-formed message is derivable
(so the grammar is inhabited by messages of any depth with every option type). -/
example (m : Msg6) (h : WFMsg m) : PMsg (encMsg m) m := (dec6_iff _ _).mp (dec6_encMsg m h)

/-! ### against the fully declarative grammar (leaf layouts per RFC) -/

/-- **C05 (exactness against the per-option RFC layouts, messages).** A byte
string is accepted as a DHCPv6 message or relay message if and only if the
declarative grammar `PMsg'` derives it — RFC 8415 framing at every nesting level
AND the RFC layout of every option value and DUID (`PLeaf`, `PDUID`) — and the
decoded value is the grammar's reading. All byte strings. -/
theorem C05_exact_rfc (b : Bytes) (m : Msg6) : dec6 b = .ok m ↔ PMsg' b m := dec6_iff_rfc b m

theorem C05_exact_rfc_option (code : Nat) (data : Bytes) (o : Opt6) :
    parseOption code data = .ok o ↔ POpt' code data o := parseOption_iff_rfc code data o
theorem C05_exact_rfc_options (data : Bytes) (os : List Opt6) :
    decOpts data = .ok os ↔ POpts' data os := decOpts_iff_rfc data os

/-- **C05 (leaf options: accepted exactly in their RFC layout).** For every
option code that holds no DHCPv6 options — the 23 codes with a parser and every
unknown code — `ParseOption` accepts a value iff it has the declarative layout
`PLeaf` of that code, and returns its reading. -/
theorem C05_leaf_layout (c : Nat) (v : Bytes) (o : Opt6) (hc : c ∉ containerCodes) :
    parseOption c v = .ok o ↔ PLeaf c v o := parseOption_leaf_iff c v o hc

/-- **C05 (DUIDs: accepted exactly in their RFC 8415 §11 layout).** -/
theorem C05_duid_layout (v : Bytes) (d : DUID) : decDUID v = .ok d ↔ PDUID v d := decDUID_iff v d

/-- **C05 (NTP sub-options, RFC 5908 §4).** -/
theorem C05_ntp_suboption_layout (c : Nat) (v : Bytes) (s : NTPSub) :
    parseNTPSub c v = .ok s ↔ PNTPSub c v s := parseNTPSub_iff c v s

/-- the two grammars derive the same messages with the same readings -/
theorem C05_grammars_agree (b : Bytes) (m : Msg6) : PMsg b m ↔ PMsg' b m := PMsg_iff_rfc b m

/-- **C05 (everything without an RFC reading is an error, never a panic).** -/
theorem C05_reject_rfc (b : Bytes) (h : ¬ ∃ m, PMsg' b m) : dec6 b = .err :=
  C05_reject b (fun ⟨m, hm⟩ => h ⟨m, (PMsg_iff_rfc b m).mp hm⟩)

/-- **C05 (the RFC reading is unique).** -/
theorem C05_functional_rfc (b : Bytes) (m m' : Msg6) (h : PMsg' b m) (h' : PMsg' b m') : m = m' :=
  PMsg_functional ((PMsg_iff_rfc b m).mpr h) ((PMsg_iff_rfc b m').mpr h')

/-- Edge cases of leaf layouts as lemmas: an ORO value of odd length is rejected … -/
theorem C05_oro_odd_rejected (v : Bytes) (h : v.length % 2 = 1) : parseOption 6 v = .err := by
  cases hp : parseOption 6 v with
  | ok o =>
    have hl := (C05_leaf_layout 6 v o (by decide)).mp hp
    generalize h6 : (6 : Nat) = c at hl
    cases hl with
    | oro hu =>
      obtain ⟨_, rfl⟩ := hu
      rw [flatMap_be16_length] at h; omega
    | generic hn => subst h6; exact absurd (by decide) hn
    | _ => cases h6
  | err => rfl
  | panic => exact absurd hp (parseOption_ne_panic 6 v)

/-- … repeated codes of an ORO are dropped on decode, first occurrence kept
(the library's normalisation, part of the specified reading) … -/
theorem C05_oro_reading (cs : List Nat) (h : ∀ c ∈ cs, c < 65536) :
    parseOption 6 (cs.flatMap be16) = .ok (.oro (keepFirst cs)) :=
  (C05_leaf_layout 6 _ _ (by decide)).mpr (.oro ⟨h, rfl⟩)

/-- … and elapsed-time is exactly two octets in units of 10 ms. -/
theorem C05_elapsed_layout (v : Bytes) (o : Opt6) :
    parseOption 8 v = .ok o ↔ ∃ t, t < 65536 ∧ v = be16 t ∧ o = .elapsed ((t : Int) * 10000000) := by
  rw [C05_leaf_layout 8 v o (by decide)]
  constructor
  · intro hl
    generalize h8 : (8 : Nat) = c at hl
    cases hl with
    | elapsed ht => exact ⟨_, ht, rfl, rfl⟩
    | generic hn => subst h8; exact absurd (by decide) hn
    | _ => cases h8
  · rintro ⟨t, ht, rfl, rfl⟩
    exact .elapsed ht

/-- option-code(2) option-len(2) option-data, followed by `rest` (RFC 8415 §21.1) -/
private abbrev tlvThen (c : Nat) (v rest : Bytes) : Bytes := be16 c ++ (be16 v.length ++ (v ++ rest))

/-- a SOLICIT carrying a client identifier (DUID-LL), an option request with a
repeated code, an elapsed time of one second, one DNS server, and an IA_NA
holding an IAADDR that holds a status code -/
private abbrev exSolicit : Bytes :=
  1 :: ([0xaa, 0xbb, 0xcc] ++
    tlvThen 1 (be16 3 ++ (be16 1 ++ [0, 1, 2, 3, 4, 5]))
    (tlvThen 6 ([23, 24, 23].flatMap be16)
    (tlvThen 8 (be16 100)
    (tlvThen 23 ([0x20, 1, 0xd, 0xb8, 0, 0, 0, 0, 0, 0, 0, 0, 0, 0, 0, 1] ++ [])
    (tlvThen 3 ([0, 0, 0, 7] ++ (be32 3600 ++ (be32 5400 ++
        tlvThen 5 ([0x20, 1, 0xd, 0xb8, 0, 0, 0, 0, 0, 0, 0, 0, 0, 0, 0, 2] ++ (be32 7200 ++ (be32 10800 ++
          tlvThen 13 (be16 0 ++ [0x6f, 0x6b, 0x61, 0x79]) []))) [])))
    [])))))

/-- its octets on the wire -/
example : exSolicit =
    [1, 0xaa, 0xbb, 0xcc,
     0, 1, 0, 10, 0, 3, 0, 1, 0, 1, 2, 3, 4, 5,
     0, 6, 0, 6, 0, 23, 0, 24, 0, 23,
     0, 8, 0, 2, 0, 100,
     0, 23, 0, 16, 0x20, 1, 0xd, 0xb8, 0, 0, 0, 0, 0, 0, 0, 0, 0, 0, 0, 1,
     0, 3, 0, 50, 0, 0, 0, 7, 0, 0, 0x0e, 0x10, 0, 0, 0x15, 0x18,
       0, 5, 0, 34, 0x20, 1, 0xd, 0xb8, 0, 0, 0, 0, 0, 0, 0, 0, 0, 0, 0, 2,
         0, 0, 0x1c, 0x20, 0, 0, 0x2a, 0x30,
         0, 13, 0, 6, 0, 0, 0x6f, 0x6b, 0x61, 0x79] := rfl

/-- Non-vacuity of the declarative grammar, derived in the specification alone
(no decoder involved): the message above has a reading, with the repeated ORO
code dropped, times in nanoseconds, and the nested options in place. -/
example : PMsg' exSolicit
    (.msg 1 [0xaa, 0xbb, 0xcc]
      [.clientID (.ll 1 [0, 1, 2, 3, 4, 5]), .oro [23, 24], .elapsed 1000000000,
       .dns [some [0x20, 1, 0xd, 0xb8, 0, 0, 0, 0, 0, 0, 0, 0, 0, 0, 0, 1]],
       .iana [0, 0, 0, 7] 3600000000000 5400000000000
         [.iaaddr (some [0x20, 1, 0xd, 0xb8, 0, 0, 0, 0, 0, 0, 0, 0, 0, 0, 0, 2])
            7200000000000 10800000000000 [.status 0 [0x6f, 0x6b, 0x61, 0x79]]]]) :=
  .msg (t := 1) (xid := [0xaa, 0xbb, 0xcc]) rfl rfl <|
    .cons (code := 1) (v := be16 3 ++ (be16 1 ++ [0, 1, 2, 3, 4, 5])) (by decide) (by decide)
      (.clientID (.ll (ht := 1) (a := [0, 1, 2, 3, 4, 5]) (by decide) (by decide))) <|
    .cons (code := 6) (v := [23, 24, 23].flatMap be16) (by decide) (by decide)
      (.leaf (.oro (cs := [23, 24, 23]) ⟨by decide, rfl⟩)) <|
    .cons (code := 8) (v := be16 100) (by decide) (by decide) (.leaf (.elapsed (t := 100) (by decide))) <|
    .cons (code := 23) (v := [0x20, 1, 0xd, 0xb8, 0, 0, 0, 0, 0, 0, 0, 0, 0, 0, 0, 1] ++ [])
      (by decide) (by decide) (.leaf (.dns (.cons rfl .nil))) <|
    .cons (code := 3) (rest := []) (by decide) (by decide)
      (.iana (iaid := [0, 0, 0, 7]) (s1 := 3600) (s2 := 5400) rfl (by decide) (by decide) <|
        .cons (code := 5) (rest := []) (by decide) (by decide)
          (.iaaddr (ip := [0x20, 1, 0xd, 0xb8, 0, 0, 0, 0, 0, 0, 0, 0, 0, 0, 0, 2]) (s1 := 7200)
            (s2 := 10800) rfl (by decide) (by decide) <|
            .cons (code := 13) (v := be16 0 ++ [0x6f, 0x6b, 0x61, 0x79]) (rest := []) (by decide)
              (by decide) (.leaf (.status (c := 0) (by decide))) .nil)
          .nil)
      .nil

/-- … and the same bytes are what the decoder model reads (the iff, used). -/
example : dec6
    [1, 0xaa, 0xbb, 0xcc, 0, 6, 0, 6, 0, 23, 0, 24, 0, 23, 0, 8, 0, 2, 0, 100] =
    .ok (.msg 1 [0xaa, 0xbb, 0xcc] [.oro [23, 24], .elapsed 1000000000]) :=
  (C05_exact_rfc _ _).mpr <|
    .msg (t := 1) (xid := [0xaa, 0xbb, 0xcc]) rfl rfl <|
      .cons (code := 6) (v := [23, 24, 23].flatMap be16) (by decide) (by decide)
        (.leaf (.oro (cs := [23, 24, 23]) ⟨by decide, rfl⟩)) <|
      .cons (code := 8) (v := be16 100) (rest := []) (by decide) (by decide)
        (.leaf (.elapsed (t := 100) (by decide))) .nil

/-- A DUID with nothing after its type code has no reading (RFC 8415 §11.1). -/
example : ¬ ∃ d, PDUID [0, 5] d := by
  rintro ⟨d, h⟩
  have := (C05_duid_layout _ _).mpr h
  simp [decDUID, Lexer.new, Lexer.has, Lexer.read16, Lexer.consume, Lexer.len] at this

theorem C05_empty_rejected : dec6 [] = .err := by rfl
theorem C05_header_only_accepted : dec6 [1, 0xaa, 0xbb, 0xcc] = .ok (.msg 1 [0xaa, 0xbb, 0xcc] []) := by rfl

end Dhcp.Props

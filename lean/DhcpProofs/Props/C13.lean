import Dhcp.Client.Lease
import DhcpProofs.Lemmas.Lease
import DhcpProofs.Lemmas.Lease6
import DhcpProofs.Props.C15
import DhcpProofs.Props.C16
import DhcpProofs.Props.C10
import DhcpProofs.Lemmas.ClientRefine
/-
  C13 — lease acquisition follows the exchange rules.  Property theorems only;
  helper lemmas live in DhcpProofs/Lemmas/Lease.lean and Lease6.lean.

  Every theorem is for EVERY response stream (any length, any order and
  multiplicity, any packets: several servers, late, duplicated or hostile
  replies — undecodable datagrams and datagrams for other transactions never
  reach the stream: that is C10), every offer / lease / advertise, every
  transaction id and every list of user modifiers.  `stream` is what the
  routed channel delivers to the call (see Dhcp/Client/Lease.lean for the
  abstraction; the last section of this file, "The abstract call IS the timed
  call", proves that C11/C12's timed machine run on the routed stream returns
  exactly this call's answer, and says precisely what is not covered).

  `Completes offer p` is the test of the property text: message type ACK or
  NAK and a server identifier `Equal` (net.IP.Equal) to the offer's.

  Where the code does something other than the property text says, the theorem
  states what the code does and the stronger reading is kept as a
  `def …_full : Prop` with a proved `…_counterexample : ¬ …_full`.
-/
namespace Dhcp.Client.Lease
open Dhcp Dhcp.V4 List

/-! ### the matchers as coded -/

/-- **C13 (matcher of RequestFromOffer and Renew).**
`IsAll(IsCorrectServer(offer.ServerIdentifier()), IsMessageType(Ack, Nak))`
accepts exactly the packets whose typed message type is ACK or NAK and whose
typed server identifier is `Equal` to the offer's. -/
theorem C13_matcher (offer p : Pkt4) : ackNakMatcher offer p = true ↔ Completes offer p :=
  ackNakMatcher_iff offer p

/-- **C13 (the two typed accessors).** `MessageType()` is option 53 when that
is exactly one byte, else 0; `ServerIdentifier()` is option 54 when that is
exactly four bytes, else nil. -/
theorem C13_accessors (p : Pkt4) :
    messageType p = (match p.opts.get optMessageType with
      | some [b] => b
      | _ => 0) ∧
    serverIdentifier p = (match p.opts.get optServerID with
      | some [a, b, c, d] => some [a, b, c, d]
      | _ => none) :=
  ⟨messageType_eq p, serverIdentifier_eq p⟩

/-- **C13 (`net.IP.Equal` as `IsCorrectServer` uses it).** nil equals nil;
addresses of equal length are compared bytewise; a 4-byte address equals
exactly its 16-byte IPv4-mapped form; a 4-byte address never equals nil. -/
theorem C13_ip_equal :
    ipEqual none none = true ∧
    (∀ a b : Bytes, a.length = b.length → (ipEqual (some a) (some b) = true ↔ a = b)) ∧
    (∀ a b : Bytes, a.length = 4 → b.length = 16 →
      (ipEqual (some a) (some b) = true ↔ b = v4InV6Prefix ++ a)) ∧
    (∀ a : Bytes, a.length = 4 → ipEqual (some a) none = false ∧ ipEqual none (some a) = false) :=
  ⟨ipEqual_nil_nil, fun _ _ h => ipEqual_same_len h, fun _ _ ha hb => ipEqual_4_16 ha hb,
   fun _ h => ⟨ipEqual_some_none h, ipEqual_none_some h⟩⟩

/-! ### the REQUEST -/

/-- **C13 (REQUEST fields)**, via `C15_request_from_offer`: the REQUEST that
`RequestFromOffer` hands to `SendAndRead` carries the offer's hardware address
(= the client's: routed offers are filtered by it, see `C13_request_dora`), the
offered address as option 50, the offer's option 54 verbatim (absent when the
offer has none), the offer's transaction id, message type REQUEST (raw and
through the typed accessor) and maximum message size 1500 — each for every user
modifier list none of whose members writes that field. -/
theorem C13_request_fields (xid : Bytes) (offer : Pkt4) (user : List Modifier) :
    (NoWrite user .hw → (requestPkt xid offer user).hw = offer.hw) ∧
    (NoWrite user (.opt optRequestedIP) →
      (requestPkt xid offer user).opts.get optRequestedIP = some (ipTo4Bytes offer.yiaddr) ∧
      (∀ b, offer.yiaddr = some b → b.length = 4 →
        (requestPkt xid offer user).opts.get optRequestedIP = some b)) ∧
    (NoWrite user (.opt optServerID) →
      (∀ v, offer.opts.get optServerID = some v → v ≠ [] →
        (requestPkt xid offer user).opts.get optServerID = some v) ∧
      ((requestPkt xid offer user).opts.get optServerID ≠ none ↔
        ∃ v, offer.opts.get optServerID = some v ∧ v ≠ [])) ∧
    (NoWrite user .xid → (requestPkt xid offer user).xid = offer.xid) ∧
    (NoWrite user (.opt optMessageType) →
      (requestPkt xid offer user).opts.get optMessageType = some [mtRequest] ∧
      messageType (requestPkt xid offer user) = mtRequest) ∧
    (NoWrite user (.opt optMaxMsgSize) →
      (requestPkt xid offer user).opts.get optMaxMsgSize = some [5, 220]) := by
  have h15 := C15_request_from_offer xid offer (prependModifiers user [mmsMod])
  obtain ⟨hx, hmt, hrip, hsid, _, _, hhw, _, _⟩ := h15
  refine ⟨fun h => hhw (noWrite_mms h (by decide)), fun h => ?_, fun h => hsid (noWrite_mms h (by decide)),
    fun h => hx (noWrite_mms h (by decide)), fun h => ?_, fun h => build_mms _ xid user h⟩
  · refine ⟨hrip (noWrite_mms h (by decide)), fun b hb hl => ?_⟩
    exact (C15_request_from_offer_partial xid offer _ (noWrite_mms h (by decide))).2 b hb hl
  · have := hmt (noWrite_mms h (by decide))
    refine ⟨this, ?_⟩
    rw [messageType_eq]
    unfold requestPkt
    rw [this]

/-- **C13 (Request = DiscoverOffer then RequestFromOffer, SAME modifiers).**
Without an OFFER in the stream routed to the DISCOVER call only the DISCOVER is
sent and the result is the no-response error.  Otherwise `offer` is the first
routed packet whose typed message type is OFFER (everything before it is
skipped), the second datagram is the REQUEST built from that offer with the
same user modifiers, and the result is that of `RequestFromOffer`; the REQUEST
carries the client's hardware address because routed packets do. -/
theorem C13_request_dora (xid xid2 hw : Bytes) (user : List Modifier) (s1 s2 : List Pkt4) :
    ((∀ q ∈ s1, messageType q ≠ mtOffer) →
      (request xid xid2 hw user s1 s2).sent = [discoverPkt xid hw user] ∧
      (request xid xid2 hw user s1 s2).res = .errNoResponse) ∧
    (∀ pre offer post, s1 = pre ++ offer :: post → messageType offer = mtOffer →
      (∀ q ∈ pre, messageType q ≠ mtOffer) →
      (request xid xid2 hw user s1 s2).sent = [discoverPkt xid hw user, requestPkt xid2 offer user] ∧
      (request xid xid2 hw user s1 s2).res = (requestFromOffer xid2 offer user s2).res ∧
      ((∀ q ∈ s1, q.hw = hw) → NoWrite user .hw → (requestPkt xid2 offer user).hw = hw)) := by
  constructor
  · intro h
    have : sendAndRead s1 offerMatcher = none := by
      rw [sendAndRead_none_iff]
      intro q hq
      have := h q hq
      rw [← Bool.not_eq_true, offerMatcher_iff]; exact this
    simp [request, discoverOffer, this]
  · intro pre offer post hs ho hpre
    have : sendAndRead s1 offerMatcher = some offer := by
      rw [hs]
      apply sendAndRead_append
      · exact (offerMatcher_iff offer).2 ho
      · intro q hq
        rw [← Bool.not_eq_true, offerMatcher_iff]; exact hpre q hq
    refine ⟨by simp [request, discoverOffer, this, requestFromOffer],
            by simp [request, discoverOffer, this], fun hr hn => ?_⟩
    rw [(C13_request_fields xid2 offer user).1 hn]
    exact hr offer (by rw [hs]; simp)

/-- the DISCOVER of `DiscoverOffer` / `Request` (via `C15_discover`): the
client's hardware address, message type DISCOVER, the drawn transaction id,
maximum message size 1500. -/
theorem C13_discover_fields (xid hw : Bytes) (user : List Modifier) :
    (NoWrite user .hw → (discoverPkt xid hw user).hw = hw) ∧
    (NoWrite user (.opt optMessageType) →
      (discoverPkt xid hw user).opts.get optMessageType = some [mtDiscover]) ∧
    (NoWrite user .xid → (discoverPkt xid hw user).xid = xid) ∧
    (NoWrite user (.opt optMaxMsgSize) →
      (discoverPkt xid hw user).opts.get optMaxMsgSize = some [5, 220]) := by
  obtain ⟨hmt, hhw, _, _, _, hx⟩ := C15_discover xid hw (prependModifiers user [mmsMod])
  exact ⟨fun h => hhw (noWrite_mms h (by decide)), fun h => hmt (noWrite_mms h (by decide)),
    fun h => hx (noWrite_mms h (by decide)), fun h => build_mms _ xid user h⟩

/-! ### completion -/

/-- **C13 (completes only on ACK/NAK from the offer's server; everything else
is ignored).** If `RequestFromOffer` yields a lease or a NAK error, the offer
in it is the offer given, the packet in it is in the stream, has message type
ACK or NAK and a server identifier Equal to the offer's, and EVERY packet that
arrived before it fails that test. -/
theorem C13_completes_only_on (xid : Bytes) (offer : Pkt4) (user : List Modifier) (stream : List Pkt4)
    (o r : Pkt4)
    (h : (requestFromOffer xid offer user stream).res = .lease o r ∨
         (requestFromOffer xid offer user stream).res = .errNak o r) :
    o = offer ∧ Completes offer r ∧
      ∃ pre post, stream = pre ++ r :: post ∧ ∀ q ∈ pre, ¬ Completes offer q := by
  have key : o = offer ∧ sendAndRead stream (ackNakMatcher offer) = some r := by
    rcases h with h | h
    · exact ⟨((completion_lease_iff _ _ _ _).1 h).1, ((completion_lease_iff _ _ _ _).1 h).2.1⟩
    · exact ⟨((completion_nak_iff _ _ _ _).1 h).1, ((completion_nak_iff _ _ _ _).1 h).2.1⟩
  obtain ⟨ho, hs⟩ := key
  obtain ⟨hm, pre, post, hst, hpre⟩ := (sendAndRead_some_iff _ _ _).1 hs
  refine ⟨ho, (C13_matcher offer r).1 hm, pre, post, hst, fun q hq hc => ?_⟩
  have := hpre q hq
  rw [(C13_matcher offer q).2 hc] at this
  cases this

/-- **C13 (ACK ⇒ lease of THAT offer and THAT ack).** The first packet passing
the test, when its type is ACK, becomes the lease together with the offer —
whatever precedes it (none of which passes) and whatever follows. -/
theorem C13_ack_lease (xid : Bytes) (offer : Pkt4) (user : List Modifier) (pre post : List Pkt4) (ack : Pkt4)
    (hc : Completes offer ack) (ht : messageType ack = mtAck)
    (hpre : ∀ q ∈ pre, ¬ Completes offer q) :
    (requestFromOffer xid offer user (pre ++ ack :: post)).res = .lease offer ack := by
  have hs : sendAndRead (pre ++ ack :: post) (ackNakMatcher offer) = some ack := by
    apply sendAndRead_append
    · exact (C13_matcher offer ack).2 hc
    · intro q hq
      rw [← Bool.not_eq_true, C13_matcher]; exact hpre q hq
  show completion offer _ = _
  rw [hs]
  exact (completion_lease_iff _ _ _ _).2 ⟨rfl, rfl, by rw [ht]; decide⟩

/-- **C13 (NAK ⇒ NAK error with that offer and that nak).** -/
theorem C13_nak (xid : Bytes) (offer : Pkt4) (user : List Modifier) (pre post : List Pkt4) (nak : Pkt4)
    (hc : Completes offer nak) (ht : messageType nak = mtNak)
    (hpre : ∀ q ∈ pre, ¬ Completes offer q) :
    (requestFromOffer xid offer user (pre ++ nak :: post)).res = .errNak offer nak := by
  have hs : sendAndRead (pre ++ nak :: post) (ackNakMatcher offer) = some nak := by
    apply sendAndRead_append
    · exact (C13_matcher offer nak).2 hc
    · intro q hq
      rw [← Bool.not_eq_true, C13_matcher]; exact hpre q hq
  show completion offer _ = _
  rw [hs]
  exact (completion_nak_iff _ _ _ _).2 ⟨rfl, rfl, ht⟩

/-- **C13 (nothing passes the test ⇔ no-response error).** -/
theorem C13_none (xid : Bytes) (offer : Pkt4) (user : List Modifier) (stream : List Pkt4) :
    (requestFromOffer xid offer user stream).res = .errNoResponse ↔ ∀ q ∈ stream, ¬ Completes offer q := by
  show completion offer _ = _ ↔ _
  rw [completion_none_iff, sendAndRead_none_iff]
  constructor
  · intro h q hq hc
    have := h q hq
    rw [(C13_matcher offer q).2 hc] at this
    cases this
  · intro h q hq
    rw [← Bool.not_eq_true, C13_matcher]; exact h q hq

/-- **C13 (a well-formed offer: "bearing that server identifier" verbatim).**
When the offer's option 54 is four bytes long, a packet passes the test iff its
type is ACK or NAK and its option 54 is those same four bytes. -/
theorem C13_completes_wellformed_partial (offer p : Pkt4) (sid : Bytes)
    (hs : offer.opts.get optServerID = some sid) (hl : sid.length = 4) :
    Completes offer p ↔
      (messageType p = mtAck ∨ messageType p = mtNak) ∧ p.opts.get optServerID = some sid := by
  unfold Completes
  rw [serverIdentifier_of_len4 hs hl]
  constructor
  · rintro ⟨ht, he⟩
    refine ⟨ht, ?_⟩
    rcases serverIdentifier_cases p with hn | ⟨v, hv, hvl, hraw⟩
    · rw [hn, ipEqual_none_some hl] at he; cases he
    · rw [hv, ipEqual_same_len (hvl.trans hl.symm)] at he
      rw [hraw, he]
  · rintro ⟨ht, he⟩
    exact ⟨ht, by rw [serverIdentifier_of_len4 he hl]; exact ipEqual_refl _⟩

/-- The stronger reading "a completing packet BEARS the offering server's
identifier": it carries a non-empty option 54 and the offer carries the same. -/
def C13_completes_bearing_full : Prop :=
  ∀ (xid : Bytes) (offer : Pkt4) (user : List Modifier) (stream : List Pkt4) (o r : Pkt4),
    (requestFromOffer xid offer user stream).res = .lease o r →
    ∃ v, v ≠ [] ∧ r.opts.get optServerID = some v ∧ offer.opts.get optServerID = some v

private def pkt (mt : UInt8) (yi : Bytes) (sid : Option Bytes) : Pkt4 :=
  { op := 2, htype := 1, hw := [2, 0, 0, 0, 0, 1], hops := 0, xid := [1, 2, 3, 4], secs := 0,
    flags := 0, ciaddr := some [0, 0, 0, 0], yiaddr := some yi, siaddr := some [0, 0, 0, 0],
    giaddr := some [0, 0, 0, 0], sname := [], file := [],
    opts := match sid with
      | some s => (Opts.empty.set 53 [mt]).set 54 s
      | none => Opts.empty.set 53 [mt] }

/-- False of the model and of the code: an offer WITHOUT a (four-byte) server
identifier makes `IsCorrectServer(nil)` accept exactly the replies without one:
here an ACK with no option 54 at all completes the exchange. -/
theorem C13_completes_bearing_counterexample : ¬ C13_completes_bearing_full := by
  intro h
  have hl := C13_ack_lease [0, 0, 0, 0] (pkt 2 [10, 0, 0, 50] none) [] [] [] (pkt 5 [10, 0, 0, 66] none)
    (by decide) (by decide) (by simp)
  obtain ⟨v, hv, hr, _⟩ := h _ _ _ _ _ _ hl
  have : (pkt 5 [10, 0, 0, 66] none).opts.get optServerID = none := by decide
  rw [this] at hr; cases hr

/-- With such an offer the replies that DO name their server are the ones
ignored: an ACK carrying a well-formed server identifier never completes. -/
theorem C13_offer_without_server_id (offer p : Pkt4) (h : serverIdentifier offer = none) :
    Completes offer p ↔
      (messageType p = mtAck ∨ messageType p = mtNak) ∧ serverIdentifier p = none := by
  unfold Completes
  rw [h]
  constructor
  · rintro ⟨ht, he⟩
    refine ⟨ht, ?_⟩
    rcases serverIdentifier_cases p with hn | ⟨v, hv, hvl, _⟩
    · exact hn
    · rw [hv, ipEqual_some_none hvl] at he; cases he
  · rintro ⟨ht, he⟩
    exact ⟨ht, by rw [he]; exact ipEqual_nil_nil⟩

/-- The clause "the REQUEST carries the offered address as requested address"
read for `Request` (the whole handshake) and EVERY user modifier list. -/
def C13_request_offered_address_full : Prop :=
  ∀ (xid xid2 hw : Bytes) (user : List Modifier) (s1 s2 : List Pkt4) (offer req : Pkt4),
    sendAndRead s1 offerMatcher = some offer →
    (request xid xid2 hw user s1 s2).sent = [discoverPkt xid hw user, req] →
    req.opts.get optRequestedIP = some (ipTo4Bytes offer.yiaddr)

/-- False of the model and of the code: `Request` applies the caller's
modifiers to BOTH messages, so the usual way of asking for one's previous
address in the DISCOVER (`WithOption(OptRequestedIPAddress(10.0.0.9))`) also
overwrites option 50 of the REQUEST: the server offered 10.0.0.50, the REQUEST
asks for 10.0.0.9. -/
theorem C13_request_offered_address_counterexample : ¬ C13_request_offered_address_full := by
  intro h
  have := h [0, 0, 0, 0] [0, 0, 0, 0] [2, 0, 0, 0, 0, 1] [.withOption (.requestedIP (some [10, 0, 0, 9]))]
    [pkt 2 [10, 0, 0, 50] (some [10, 0, 0, 1])] [] (pkt 2 [10, 0, 0, 50] (some [10, 0, 0, 1]))
    (requestPkt [0, 0, 0, 0] (pkt 2 [10, 0, 0, 50] (some [10, 0, 0, 1]))
      [.withOption (.requestedIP (some [10, 0, 0, 9]))])
    ((sendAndRead_some_iff _ _ _).2 ⟨by decide, [], [], rfl, by simp⟩) rfl
  revert this
  decide

/-! ### renewal -/

/-- **C13 (renew)**, via `C15_renew`: the renewing REQUEST has the leased
address (the ACK's yiaddr) in the client-address field, the broadcast bit
clear, message type REQUEST, NO requested-address and NO server-identifier
option (unless a user modifier adds them), the ACK's hardware address and
transaction id; it completes by the same rule as `RequestFromOffer` with the
server identifier of the lease's OFFER: first packet passing
`Completes lease.offer`, ACK ⇒ lease of the old offer and the new ACK, NAK ⇒
NAK error with the old offer, none ⇒ no-response error. -/
theorem C13_renew (xid : Bytes) (l : Lease) (user : List Modifier) (stream : List Pkt4) :
    (renew xid l user stream).sent = [renewPkt xid l user] ∧
    (NoWrite user .ciaddr → (renewPkt xid l user).ciaddr = l.ack.yiaddr) ∧
    (NoWrite user .flags → isBroadcast (renewPkt xid l user) = false) ∧
    (NoWrite user (.opt optMessageType) →
      (renewPkt xid l user).opts.get optMessageType = some [mtRequest]) ∧
    (NoWrite user (.opt optRequestedIP) → (renewPkt xid l user).opts.get optRequestedIP = none) ∧
    (NoWrite user (.opt optServerID) → (renewPkt xid l user).opts.get optServerID = none) ∧
    (NoWrite user .hw → (renewPkt xid l user).hw = l.ack.hw) ∧
    (NoWrite user .xid → (renewPkt xid l user).xid = l.ack.xid) ∧
    (∀ o r, ((renew xid l user stream).res = .lease o r ∨ (renew xid l user stream).res = .errNak o r) →
      o = l.offer ∧ Completes l.offer r ∧
        ∃ pre post, stream = pre ++ r :: post ∧ ∀ q ∈ pre, ¬ Completes l.offer q) ∧
    (∀ pre post r, stream = pre ++ r :: post → Completes l.offer r → (∀ q ∈ pre, ¬ Completes l.offer q) →
      (messageType r = mtAck → (renew xid l user stream).res = .lease l.offer r) ∧
      (messageType r = mtNak → (renew xid l user stream).res = .errNak l.offer r)) ∧
    ((renew xid l user stream).res = .errNoResponse ↔ ∀ q ∈ stream, ¬ Completes l.offer q) := by
  obtain ⟨hci, hfl, hmt, hrip, hsid, _, hx, hhw⟩ := C15_renew xid l.ack (prependModifiers user [mmsMod])
  refine ⟨rfl, fun h => hci (noWrite_mms h (by decide)), fun h => (hfl (noWrite_mms h (by decide))).1,
    fun h => hmt (noWrite_mms h (by decide)), fun h => hrip (noWrite_mms h (by decide)),
    fun h => hsid (noWrite_mms h (by decide)), fun h => hhw (noWrite_mms h (by decide)),
    fun h => hx (noWrite_mms h (by decide)), ?_, ?_, ?_⟩
  · intro o r h
    exact C13_completes_only_on xid l.offer user stream o r h
  · intro pre post r hs hc hpre
    subst hs
    exact ⟨fun ht => C13_ack_lease xid l.offer user pre post r hc ht hpre,
           fun ht => C13_nak xid l.offer user pre post r hc ht hpre⟩
  · exact C13_none xid l.offer user stream

/-- The reading "a renewal is completed by the ACK of the server that granted
the lease": an ACK in the stream carrying the same (non-empty) server
identifier as the lease's ACK completes it. -/
def C13_renew_ack_server_full : Prop :=
  ∀ (xid : Bytes) (l : Lease) (user : List Modifier) (stream : List Pkt4) (a : Pkt4) (sid : Bytes),
    a ∈ stream → messageType a = mtAck → sid ≠ [] →
    l.ack.opts.get optServerID = some sid → a.opts.get optServerID = some sid →
    (renew xid l user stream).res ≠ .errNoResponse

/-- False of the model and of the code: `Renew` keys on the server identifier
of `lease.Offer`, never on the ACK's.  A lease whose OFFER had no option 54 but
whose ACK names server 10.0.0.1 cannot be renewed by that server: its
(well-formed) renewal ACK is ignored and the call ends with the no-response
error. -/
theorem C13_renew_ack_server_counterexample : ¬ C13_renew_ack_server_full := by
  intro h
  refine h [0, 0, 0, 0] ⟨pkt 2 [10, 0, 0, 50] none, pkt 5 [10, 0, 0, 50] (some [10, 0, 0, 1])⟩ []
    [pkt 5 [10, 0, 0, 50] (some [10, 0, 0, 1])] (pkt 5 [10, 0, 0, 50] (some [10, 0, 0, 1])) [10, 0, 0, 1]
    (by simp) (by decide) (by decide) (by decide) (by decide) ?_
  rw [(C13_renew _ _ _ _).2.2.2.2.2.2.2.2.2.2]
  decide

/-! ### release -/

/-- **C13 (release)**, via `C15_release`: exactly ONE datagram is written; it is
a RELEASE with the leased address in the client-address field, the ACK's
hardware address, broadcast bit clear, the ACK's server identifier copied;
its destination is (the RAW option 54 of the lease's ACK, port 67). -/
theorem C13_release (xid : Bytes) (l : Lease) (user : List Modifier) :
    release xid l user = [(releasePkt xid l user, (releaseDestIP l, 67))] ∧
    (NoWrite user (.opt optMessageType) →
      (releasePkt xid l user).opts.get optMessageType = some [mtRelease]) ∧
    (NoWrite user .ciaddr → (releasePkt xid l user).ciaddr = l.ack.yiaddr) ∧
    (NoWrite user .hw → (releasePkt xid l user).hw = l.ack.hw) ∧
    (NoWrite user .flags → isBroadcast (releasePkt xid l user) = false) ∧
    (NoWrite user (.opt optServerID) → ∀ v, l.ack.opts.get optServerID = some v → v ≠ [] →
      (releasePkt xid l user).opts.get optServerID = some v) ∧
    (∀ v, l.ack.opts.get optServerID = some v → v ≠ [] → releaseDestIP l = some v) ∧
    ((l.ack.opts.get optServerID = none ∨ l.ack.opts.get optServerID = some []) → releaseDestIP l = none) := by
  obtain ⟨hmt, hci, hhw, hfl, _, hsid⟩ := C15_release xid l.ack user
  refine ⟨rfl, hmt, hci, hhw, fun h => (hfl h).1, fun h => (hsid h).1, ?_, ?_⟩
  · intro v hv hne
    unfold releaseDestIP
    rw [hv]
    cases v with
    | nil => exact absurd rfl hne
    | cons a as => rfl
  · intro h
    unfold releaseDestIP
    rcases h with h | h <;> rw [h] <;> rfl

/-- The reading "the RELEASE goes to the lease's server": the destination is an
IPv4 address (four bytes). -/
def C13_release_dest_full : Prop :=
  ∀ (xid : Bytes) (l : Lease) (user : List Modifier) (d : Pkt4 × (IP × Nat)),
    d ∈ release xid l user → ∃ a : Bytes, d.2.1 = some a ∧ a.length = 4

/-- False of the model and of the code: the destination is the raw option 54
of the ACK, unvalidated — a lease whose ACK has no option 54 (the case in which
an offer without one was completed) releases to the nil address, port 67. -/
theorem C13_release_dest_counterexample : ¬ C13_release_dest_full := by
  intro h
  obtain ⟨a, ha, _⟩ := h [0, 0, 0, 0] ⟨pkt 2 [10, 0, 0, 50] none, pkt 5 [10, 0, 0, 50] none⟩ [] _
    (List.mem_singleton.2 rfl)
  have : releaseDestIP ⟨pkt 2 [10, 0, 0, 50] none, pkt 5 [10, 0, 0, 50] none⟩ = none := by decide
  simp only at ha
  rw [this] at ha; cases ha

/-! ### inform -/

/-- **C13 (inform).** One INFORM with the client's hardware address and the
given local address; answer = the first routed packet whose typed message type
is ACK, whatever its server identifier. -/
theorem C13_inform (xid hw : Bytes) (localIP : IP) (user : List Modifier) (stream : List Pkt4) :
    (inform xid hw localIP user stream).sent = [newInform xid hw localIP user] ∧
    (∀ r, (inform xid hw localIP user stream).res = some r ↔
      messageType r = mtAck ∧ ∃ pre post, stream = pre ++ r :: post ∧ ∀ q ∈ pre, messageType q ≠ mtAck) ∧
    ((inform xid hw localIP user stream).res = none ↔ ∀ q ∈ stream, messageType q ≠ mtAck) := by
  have hm : ∀ q, isMessageType mtAck [] q = true ↔ messageType q = mtAck := by
    intro q; simp [isMessageType_iff]
  refine ⟨rfl, fun r => ?_, ?_⟩
  · show sendAndRead _ _ = some r ↔ _
    rw [sendAndRead_some_iff, hm]
    constructor
    · rintro ⟨h1, pre, post, hs, hp⟩
      exact ⟨h1, pre, post, hs, fun q hq hc => by have := hp q hq; rw [(hm q).2 hc] at this; cases this⟩
    · rintro ⟨h1, pre, post, hs, hp⟩
      exact ⟨h1, pre, post, hs, fun q hq => by rw [← Bool.not_eq_true, hm]; exact hp q hq⟩
  · show sendAndRead _ _ = none ↔ _
    rw [sendAndRead_none_iff]
    constructor
    · intro h q hq hc
      have := h q hq; rw [(hm q).2 hc] at this; cases this
    · intro h q hq
      rw [← Bool.not_eq_true, hm]; exact h q hq

/-! ### DHCPv6 -/

section V6
open Dhcp.V6

/-- **C13 (v6 solicit).** The SOLICIT built without caller modifiers carries a
DUID-LLT client id of the hardware address, the option request, elapsed-time 0
and an IA_NA whose IAID is the last four octets of the hardware address; the
answer is the first routed message whose type is ADVERTISE (routing = same
transaction id, C10); a hardware address shorter than four octets is a builder
error and nothing is sent. -/
theorem C13_v6_solicit (xid : Bytes) (time : Nat) (hw : Bytes) (stream : List Msg6) :
    (4 ≤ hw.length →
      (solicit xid time hw [] stream).sent =
        [.msg mtSolicit xid
          [.clientID (.llt hwTypeEthernet time hw), .oro [ocDNS, ocDomainSearchList], .elapsed 0,
           .iana (copyInto 4 (hw.drop (hw.length - 4))) 0 0 []]] ∧
      (∀ r, (solicit xid time hw [] stream).res = .msg r ↔
        r.typ = mtAdvertise ∧ ∃ pre post, stream = pre ++ r :: post ∧ ∀ q ∈ pre, q.typ ≠ mtAdvertise) ∧
      ((solicit xid time hw [] stream).res = .errNoResponse ↔ ∀ q ∈ stream, q.typ ≠ mtAdvertise)) ∧
    (hw.length < 4 → ∀ mods, (solicit xid time hw mods stream).sent = [] ∧
      (solicit xid time hw mods stream).res = .errBuild) := by
  have hm : ∀ q : Msg6, isMessageType6 mtAdvertise [] q = true ↔ q.typ = mtAdvertise := by
    intro q; simp [isMessageType6_iff]
  constructor
  · intro h
    unfold solicit
    rw [newSolicit_nil xid time hw h]
    refine ⟨rfl, fun r => ?_, ?_⟩
    · rw [(call6_ok _ _ _).2]
      cases hs : sendAndRead6 stream (some (isMessageType6 mtAdvertise [])) with
      | none =>
        simp only [reduceCtorEq, false_iff]
        rintro ⟨h1, pre, post, hst, _⟩
        have := (sendAndRead6_none_iff _ _).1 hs r (by rw [hst]; simp)
        rw [(hm r).2 h1] at this; cases this
      | some x =>
        simp only [Result6.msg.injEq]
        obtain ⟨hx, pre, post, hst, hp⟩ := (sendAndRead6_some_iff _ _ _).1 hs
        constructor
        · rintro rfl
          exact ⟨(hm x).1 hx, pre, post, hst,
            fun q hq hc => by have := hp q hq; rw [(hm q).2 hc] at this; cases this⟩
        · rintro ⟨h1, pre', post', hst', hp'⟩
          have : sendAndRead6 stream (some (isMessageType6 mtAdvertise [])) = some r :=
            (sendAndRead6_some_iff _ _ _).2 ⟨(hm r).2 h1, pre', post', hst',
              fun q hq => by rw [← Bool.not_eq_true, hm]; exact hp' q hq⟩
          rw [hs] at this; cases this; rfl
    · rw [(call6_ok _ _ _).2]
      cases hs : sendAndRead6 stream (some (isMessageType6 mtAdvertise [])) with
      | none =>
        simp only [true_iff]
        intro q hq hc
        have := (sendAndRead6_none_iff _ _).1 hs q hq
        rw [(hm q).2 hc] at this; cases this
      | some x =>
        simp only [reduceCtorEq, false_iff]
        intro hall
        obtain ⟨hx, pre, post, hst, _⟩ := (sendAndRead6_some_iff _ _ _).1 hs
        exact hall x (by rw [hst]; simp) ((hm x).1 hx)
  · intro h mods
    unfold solicit
    rw [newSolicit_short xid time hw mods h]
    exact ⟨rfl, rfl⟩

/-- **C13 (v6 request)**, via `C16_request`: from an ADVERTISE with client id,
server id and a (well-typed) IA_NA the REQUEST has its OWN transaction id `xid`
(not the ADVERTISE's) and carries exactly: the advertise's first client id, its
first server id, elapsed-time 0, its FIRST IA_NA, its first IA_PD if any (no
further IA_NA/IA_PD, no IA_TA), the option request for DNS and domain search
list, the first vendor class if any.  The accepted answer is the FIRST REPLY
routed to the call (messages of other types carrying that transaction id are
passed over); a stream without REPLY is the no-response error. -/
theorem C13_v6_request (xid axid : Bytes) (os : List Opt6) (cid sid ia : Opt6) (stream : List Msg6)
    (hc : getOne ocClientID os = some cid) (hs : getOne ocServerID os = some sid)
    (hi : getOne ocIANA os = some ia) (hty : IANATyped os) :
    (request6 xid (.msg mtAdvertise axid os) [] stream).sent =
      [.msg V6.mtRequest xid
        ([cid, sid, .elapsed 0, ia] ++ (getOne ocIAPD os).toList ++
          [.oro [ocDNS, ocDomainSearchList]] ++ (getOne ocVendorClass os).toList)] ∧
    (∀ pre r post, stream = pre ++ r :: post → r.typ = mtReply → (∀ q ∈ pre, q.typ ≠ mtReply) →
      (request6 xid (.msg mtAdvertise axid os) [] stream).res = .msg r) ∧
    ((∀ q ∈ stream, q.typ ≠ mtReply) →
      (request6 xid (.msg mtAdvertise axid os) [] stream).res = .errNoResponse) := by
  unfold request6
  rw [Dhcp.Props.C16_request xid axid os cid sid ia hc hs hi hty]
  refine ⟨rfl, ?_, ?_⟩
  · rintro pre r post rfl hr hpre
    have : (pre ++ r :: post).find? (isMessageType6 mtReply []) = some r := by
      rw [List.find?_append]
      have h1 : pre.find? (isMessageType6 mtReply []) = none := by
        rw [List.find?_eq_none]
        intro q hq
        have := hpre q hq
        simp [isMessageType6, this]
      rw [h1]
      simp [isMessageType6, hr]
    simp only [call6, sendAndRead6, this]
  · intro hall
    have : stream.find? (isMessageType6 mtReply []) = none := by
      rw [List.find?_eq_none]
      intro q hq
      have := hall q hq
      simp [isMessageType6, this]
    simp only [call6, sendAndRead6, this]

/-- an ADVERTISE the builder refuses (wrong type, no client id, no server id,
no IA_NA) is an error of `Request` and nothing is sent; with user modifiers the
REQUEST is the one above with the modifiers applied in order (`C16_modifiers`). -/
theorem C13_v6_request_build (xid : Bytes) (adv : Msg6) (mods : List Mod6) (stream : List Msg6) :
    (newRequestFromAdvertise xid adv mods = .err →
      (request6 xid adv mods stream).sent = [] ∧ (request6 xid adv mods stream).res = .errBuild) ∧
    (∀ req, newRequestFromAdvertise xid adv mods = .ok req →
      (request6 xid adv mods stream).sent = [req] ∧
      (request6 xid adv mods stream).res =
        (match stream.find? (isMessageType6 mtReply []) with
         | some r => .msg r
         | none => .errNoResponse)) ∧
    newRequestFromAdvertise xid adv mods =
      (newRequestFromAdvertise xid adv []).bind (fun a => applyMods a mods) := by
  refine ⟨fun h => ?_, fun req h => ?_, (Dhcp.Props.C16_modifiers adv xid mods).2.1⟩
  · unfold request6; rw [h]; exact ⟨rfl, rfl⟩
  · unfold request6; rw [h]; exact ⟨rfl, rfl⟩

/-- **C13 (v6 request/reply pairing).** What `Request` returns is a REPLY
(since /repo commit 80184de; before it the matcher was nil and a second
ADVERTISE carrying the REQUEST's transaction id was returned as the answer). -/
theorem C13_v6_reply_type (xid : Bytes) (adv : Msg6) (mods : List Mod6) (stream : List Msg6) (r : Msg6)
    (h : (request6 xid adv mods stream).res = .msg r) : r.typ = mtReply := by
  unfold request6 call6 at h
  cases hb : newRequestFromAdvertise xid adv mods with
  | ok m =>
    rw [hb] at h
    simp only [sendAndRead6] at h
    cases hf : stream.find? (isMessageType6 mtReply []) with
    | none => rw [hf] at h; cases h
    | some x =>
      rw [hf] at h
      have hx : x = r := by injection h
      have := List.find?_some hf
      subst hx
      simpa [isMessageType6] using this
  | err => rw [hb] at h; cases h
  | panic => rw [hb] at h; cases h

private def exCid : Opt6 := .clientID (.ll 1 [2, 0, 0, 0, 0, 1])
private def exSid : Opt6 := .serverID (.ll 1 [2, 0, 0, 0, 0, 9])
private def exIana : Opt6 := .iana [0, 0, 0, 1] 0 0 [.iaaddr (some (zeros 15 ++ [7])) 100 200 []]
private def exAdv : Msg6 := .msg mtAdvertise [1, 2, 3] [exCid, exSid, exIana]

/-- non-vacuity: a late ADVERTISE before the REPLY is passed over -/
example : (request6 [9, 9, 9] exAdv []
    [.msg mtAdvertise [9, 9, 9] [exCid, exSid], .msg mtReply [9, 9, 9] [exCid, exSid, exIana]]).res =
    .msg (.msg mtReply [9, 9, 9] [exCid, exSid, exIana]) := by rfl

/-- **C13 (v6 rapid solicit).** The SOLICIT carries a rapid-commit option.  The
first routed message of type REPLY or ADVERTISE decides: a REPLY is returned
directly and nothing more is sent; an ADVERTISE leads to `Request` from that
advertise with the caller's modifiers (a second datagram), whose outcome is the
outcome; no such message is the no-response error. -/
theorem C13_v6_rapid (xid xid2 : Bytes) (time : Nat) (hw : Bytes) (mods : List Mod6) (s1 s2 : List Msg6)
    (sol : Msg6) (hb : newSolicit xid time hw (mods ++ [.rapidCommit]) = .ok sol) :
    getOne ocRapidCommit sol.opts = some (.generic ocRapidCommit []) ∧
    (∀ pre m post, s1 = pre ++ m :: post → (∀ q ∈ pre, q.typ ≠ mtReply ∧ q.typ ≠ mtAdvertise) →
      (m.typ = mtReply →
        (rapidSolicit xid xid2 time hw mods s1 s2).sent = [sol] ∧
        (rapidSolicit xid xid2 time hw mods s1 s2).res = .msg m) ∧
      (m.typ = mtAdvertise →
        (rapidSolicit xid xid2 time hw mods s1 s2).sent = sol :: (request6 xid2 m mods s2).sent ∧
        (rapidSolicit xid xid2 time hw mods s1 s2).res = (request6 xid2 m mods s2).res)) ∧
    ((∀ q ∈ s1, q.typ ≠ mtReply ∧ q.typ ≠ mtAdvertise) →
      (rapidSolicit xid xid2 time hw mods s1 s2).sent = [sol] ∧
      (rapidSolicit xid xid2 time hw mods s1 s2).res = .errNoResponse) := by
  have hm : ∀ q : Msg6, isMessageType6 mtReply [mtAdvertise] q = true ↔ q.typ = mtReply ∨ q.typ = mtAdvertise := by
    intro q; simp [isMessageType6_iff]
  have hmf : ∀ q : Msg6, (q.typ ≠ mtReply ∧ q.typ ≠ mtAdvertise) → isMessageType6 mtReply [mtAdvertise] q = false := by
    intro q hq
    rw [← Bool.not_eq_true, hm]
    rintro (h | h)
    · exact hq.1 h
    · exact hq.2 h
  refine ⟨newSolicit_rapid hb, ?_, ?_⟩
  · intro pre m post hs hpre
    have hfind : ∀ (hmt : m.typ = mtReply ∨ m.typ = mtAdvertise),
        sendAndRead6 s1 (some (isMessageType6 mtReply [mtAdvertise])) = some m := fun hmt =>
      (sendAndRead6_some_iff _ _ _).2 ⟨(hm m).2 hmt, pre, post, hs, fun q hq => hmf q (hpre q hq)⟩
    constructor
    · intro ht
      unfold rapidSolicit
      simp [hb, call6, hfind (.inl ht), ht]
    · intro ht
      unfold rapidSolicit
      have hd : ¬ (mtAdvertise = mtReply) := by decide
      simp [hb, call6, hfind (.inr ht), ht, hd]
  · intro hall
    have : sendAndRead6 s1 (some (isMessageType6 mtReply [mtAdvertise])) = none :=
      (sendAndRead6_none_iff _ _).2 (fun q hq => hmf q (hall q hq))
    unfold rapidSolicit
    simp [hb, call6, this]

/-- The reading "a RAPID-COMMIT reply is accepted directly": the REPLY returned
without a REQUEST having been sent carries a rapid-commit option. -/
def C13_v6_rapid_commit_full : Prop :=
  ∀ (xid xid2 : Bytes) (time : Nat) (hw : Bytes) (mods : List Mod6) (s1 s2 : List Msg6) (sol r : Msg6),
    (rapidSolicit xid xid2 time hw mods s1 s2).sent = [sol] →
    (rapidSolicit xid xid2 time hw mods s1 s2).res = .msg r →
    getOne ocRapidCommit r.opts ≠ none

/-- False of the model and of the code: `RapidSolicit` returns the first REPLY
with its transaction id whether or not it carries the rapid-commit option
(RFC 8415 section 18.2.1 says such a REPLY must be discarded). -/
theorem C13_v6_rapid_commit_counterexample : ¬ C13_v6_rapid_commit_full := by
  intro h
  have := h [7, 7, 7] [8, 8, 8] 0 [2, 0, 0, 0, 0, 1] [] [.msg mtReply [7, 7, 7] [exCid, exSid]] []
    (.msg mtSolicit [7, 7, 7]
      [.clientID (.llt 1 0 [2, 0, 0, 0, 0, 1]), .oro [23, 24], .elapsed 0, .iana [0, 0, 0, 1] 0 0 [],
       .generic 14 []])
    (.msg mtReply [7, 7, 7] [exCid, exSid]) rfl rfl
  revert this; decide

end V6

/-! ### Non-vacuity: hostile streams -/

private def exOffer : Pkt4 := pkt 2 [10, 0, 0, 50] (some [10, 0, 0, 1])
private def ackFrom (s : Bytes) : Pkt4 := pkt 5 [10, 0, 0, 50] (some s)
private def nakFrom (s : Bytes) : Pkt4 := pkt 6 [0, 0, 0, 0] (some s)

/-- a wrong-server ACK, a duplicate OFFER, a NAK from another server and an ACK
with a malformed (five-byte) server identifier are all ignored; the right
server's ACK — which is followed by its duplicate and by a late NAK — makes the
lease, with THAT offer and THAT ack -/
example : (requestFromOffer [0, 0, 0, 0] exOffer []
      ([ackFrom [10, 0, 0, 2], exOffer, nakFrom [10, 0, 0, 2], ackFrom [10, 0, 0, 1, 0]] ++
        ackFrom [10, 0, 0, 1] :: [ackFrom [10, 0, 0, 1], nakFrom [10, 0, 0, 1]])).res =
    .lease exOffer (ackFrom [10, 0, 0, 1]) :=
  C13_ack_lease _ _ _ _ _ _ (by decide) (by decide) (by decide)

/-- a NAK from another server is ignored, the offering server's NAK is the error -/
example : (requestFromOffer [0, 0, 0, 0] exOffer []
      ([nakFrom [10, 0, 0, 2]] ++ nakFrom [10, 0, 0, 1] :: [ackFrom [10, 0, 0, 1]])).res =
    .errNak exOffer (nakFrom [10, 0, 0, 1]) :=
  C13_nak _ _ _ _ _ _ (by decide) (by decide) (by decide)

/-- only other servers answer: no-response error -/
example : (requestFromOffer [0, 0, 0, 0] exOffer []
      [ackFrom [10, 0, 0, 2], nakFrom [10, 0, 0, 3], exOffer, pkt 5 [10, 0, 0, 50] none]).res = .errNoResponse :=
  (C13_none _ _ _ _).2 (by decide)

/-- the REQUEST for `exOffer`: option 50 = 10.0.0.50, option 54 = 10.0.0.1,
the offer's xid and hardware address, 1500 as maximum message size -/
example : (requestPkt [9, 9, 9, 9] exOffer []).opts.get 50 = some [10, 0, 0, 50] ∧
    (requestPkt [9, 9, 9, 9] exOffer []).opts.get 54 = some [10, 0, 0, 1] ∧
    (requestPkt [9, 9, 9, 9] exOffer []).opts.get 57 = some [5, 220] ∧
    (requestPkt [9, 9, 9, 9] exOffer []).xid = [1, 2, 3, 4] ∧
    (requestPkt [9, 9, 9, 9] exOffer []).hw = [2, 0, 0, 0, 0, 1] := by decide

/-- renew and release of the lease (exOffer, ack): ciaddr, no 50/54 in the
renewal, release to 10.0.0.1:67 -/
example : (renewPkt [9, 9, 9, 9] ⟨exOffer, ackFrom [10, 0, 0, 1]⟩ []).ciaddr = some [10, 0, 0, 50] ∧
    (renewPkt [9, 9, 9, 9] ⟨exOffer, ackFrom [10, 0, 0, 1]⟩ []).opts.get 50 = none ∧
    (renewPkt [9, 9, 9, 9] ⟨exOffer, ackFrom [10, 0, 0, 1]⟩ []).opts.get 54 = none ∧
    releaseDestIP ⟨exOffer, ackFrom [10, 0, 0, 1]⟩ = some [10, 0, 0, 1] ∧
    (releasePkt [9, 9, 9, 9] ⟨exOffer, ackFrom [10, 0, 0, 1]⟩ []).ciaddr = some [10, 0, 0, 50] := by decide

/-! ## The abstract call IS the timed call (refinement)

Everything above is about `sendAndRead stream match = stream.find? match`.  This
section proves that the timed machine of ONE `SendAndRead` call
(`Dhcp.Client.Timed.runObs`, the subject of C11/C12) run on a routed stream
returns exactly that — so that C13's results hold of the exchanges run on the
timed machine (`requestTimed` &c., Dhcp/Client/Refine.lean), not only of the
abstraction — and restates C10's "first acceptable in routing order" of the
interleaving model as `List.find?`.

Vocabulary (Dhcp/Client/Refine.lean): `arr : List (Int × α)` is the routed
stream with the instant (from the start of the call) at which the caller's
`select` receives each packet; `obsOf m fl arr` its observation sequence
(`acc`/`rej` by the matcher `m`, tag = position, quiescence flag `fl i`);
`streamOf arr` the packets; `answer arr ret` reads `.resp i` back as packet
number `i`; `Ordered arr`: instants ≥ 0 and non-decreasing; `InBudget T n arr`:
every instant strictly before `callBudget T n = T·(2^n − 1)` (no condition when
`n < 0`); `timedCall T n m arr H = answer arr (runObs T n (obsOf m quiescent arr) H).ret`. -/

section Refinement
open Dhcp.Client.Refine Dhcp.Client.Timed

/-- **C13 (the call refines the timed machine).** Timeout `T > 0`, ANY retry
count `n` (`n ≥ 1`, `n = 0`, or the retry-for-ever `n < 0`), any matcher, a
routed stream in time order whose arrivals all lie strictly before the budget,
ANY quiescence flags (every arrival may or may not race with a per-try
deadline), any horizon:
(1) the packet the timed machine hands back is `find?` of the stream — the
abstract call;
(2) when `find?` is `some p` the machine returns `.resp i` AT `p`'s arrival
instant, `i` the position of `p`, everything before position `i` rejected;
(3) when `find?` is `none` the machine returns the no-response error at the
budget after exactly `n` transmissions at `T·(2^k − 1)` (`n ≥ 0`), and is
still running at every horizon (`n < 0`). -/
theorem C13_call_refines_timed {α : Type} (T n : Int) (m : α → Bool) (fl : Nat → Bool) (arr : List (Int × α))
    (H : Int) (hT : 0 < T) (ho : Ordered arr) (hb : InBudget T n arr) :
    answer arr (runObs T n (obsOf m fl arr) H).ret = (streamOf arr).find? m ∧
    (∀ p, (streamOf arr).find? m = some p →
      ∃ i t, arr[i]? = some (t, p) ∧ (∀ j q, j < i → arr[j]? = some q → m q.2 = false) ∧
        (runObs T n (obsOf m fl arr) H).ret = some (t, .resp i)) ∧
    ((streamOf arr).find? m = none →
      (0 ≤ n → callBudget T n ≤ H →
        runObs T n (obsOf m fl arr) H =
          ⟨(List.range n.toNat).map (fun k => T * (2 ^ k - 1)), some (callBudget T n, .noResp)⟩) ∧
      (n < 0 → (∀ a ∈ arr, a.1 ≤ H) → 0 ≤ H → (runObs T n (obsOf m fl arr) H).ret = none)) := by
  refine ⟨answer_refines hT m fl arr H ho hb, fun p hf => ?_, fun hf => ?_⟩
  · obtain ⟨i, t, hi, _, hpre, hrun⟩ := refines_some (n := n) hT m fl arr ho p hf
    refine ⟨i, t, hi, hpre, ?_⟩
    have := hrun [] H (by
      by_cases hn : n < 0
      · exact Or.inl hn
      · exact Or.inr (hb (by omega) (t, p) (List.mem_of_getElem? hi)))
    simpa using this
  · obtain ⟨h1, h2, _⟩ := refines_none (n := n) hT m fl arr hf H
    exact ⟨h1, h2⟩

/-- **C13 (the abstract calls of the lease model are timed calls).** For the
matchers of nclient4 and of nclient6 (nil matcher included). -/
theorem C13_call_timed (T n : Int) (H : Int) (hT : 0 < T) :
    (∀ (mtch : Matcher) (arr : List (Int × Pkt4)), Ordered arr → InBudget T n arr →
      timedCall T n mtch arr H = sendAndRead (streamOf arr) mtch) ∧
    (∀ (mtch : Matcher6) (arr : List (Int × V6.Msg6)), Ordered arr → InBudget T n arr →
      timedCall T n (matcher6 mtch) arr H = sendAndRead6 (streamOf arr) mtch) := by
  refine ⟨fun mtch arr ho hb => timedCall_eq_find hT mtch arr H ho hb, fun mtch arr ho hb => ?_⟩
  rw [timedCall_eq_find hT _ arr H ho hb]
  cases mtch with
  | none => simp [matcher6, sendAndRead6, List.head?_eq_getElem?]; cases streamOf arr <;> simp
  | some f => rfl

/-- **C13 (accepted during try `k`: transmissions).** `C12_stop` composed in: the
accepted packet applied at quiescence at instant `t` — the machine finds the
try `k` with `T·(2^k − 1) ≤ t < T·(2^(k+1) − 1)`, has transmitted exactly `k + 1`
times and nothing follows, whatever is observed later. -/
theorem C13_call_transmissions {α : Type} (T n : Int) (m : α → Bool) (fl : Nat → Bool) (pre post : List (Int × α))
    (t : Int) (p : α) (rest : List Obs) (H : Int) (hT : 0 < T) (ho : Ordered (pre ++ (t, p) :: post))
    (hpre : ∀ a ∈ pre, m a.2 = false) (hp : m p = true) (hfl : fl pre.length = true)
    (hb : n < 0 ∨ t < callBudget T n) :
    ∃ k : Nat, T * (2 ^ k - 1) ≤ t ∧ t < T * (2 ^ (k + 1) - 1) ∧ (n < 0 ∨ (k : Int) < n) ∧
      runObs T n (obsOf m fl (pre ++ (t, p) :: post) ++ rest) H =
        ⟨(List.range (k + 1)).map (fun j => T * (2 ^ j - 1)), some (t, .resp pre.length)⟩ :=
  refines_some_full hT m fl pre post t p ho hpre hp hfl rest H hb

/-- **C13 (cancelled context / Close).** The caller observes its context's end
(`k = ctx`) or the client's Close (`k = closed`) at instant `c`, strictly before
the budget, after the part `pre` of the routed stream: the packet returned is
`find?` on `pre` ALONE (the packets `post` that arrive later are never looked
at); when that is `none` the call returns at `c` with the context's error /
the no-response error. -/
theorem C13_call_cancelled {α : Type} (T n : Int) (m : α → Bool) (fl : Nat → Bool) (pre post : List (Int × α))
    (c : Int) (k : Kind) (tag : Nat) (after : Bool) (H : Int) (hT : 0 < T) (hk : k = .ctx ∨ k = .closed)
    (ho : Ordered pre) (hc : ∀ a ∈ pre, a.1 ≤ c) (h0 : 0 ≤ c) (hb : n < 0 ∨ c < callBudget T n) :
    answer (pre ++ post)
      (runObs T n (obsOf m fl pre ++ ⟨c, k, tag, after⟩ :: obsFrom m fl pre.length post) H).ret =
      (streamOf pre).find? m ∧
    ((streamOf pre).find? m = none →
      (runObs T n (obsOf m fl pre ++ ⟨c, k, tag, after⟩ :: obsFrom m fl pre.length post) H).ret =
        some (c, stopOutcome k)) := by
  refine ⟨answer_refines_stop hT m fl pre post c k hk tag after H ho hc h0 hb, fun hf => ?_⟩
  have := refines_stop hT m fl pre c k hk tag after (obsFrom m fl pre.length post) H ho hc h0 hb
  rw [hf] at this
  exact this

/-- **C13 (what arrives on or after the budget is not part of the call).**
`n ≥ 0`; `late` arrives at or after `T·(2^n − 1)` (applied at quiescence): the
result is `find?` on the arrivals strictly before the budget — a late packet
the matcher would accept is never returned. -/
theorem C13_call_late_ignored {α : Type} (T n : Int) (m : α → Bool) (live late : List (Int × α)) (H : Int)
    (hT : 0 < T) (hn : 0 ≤ n) (ho : Ordered live) (hb : ∀ a ∈ live, a.1 < callBudget T n)
    (hlate : ∀ a ∈ late, callBudget T n ≤ a.1) (hH : callBudget T n ≤ H) :
    answer (live ++ late) (runObs T n (obsOf m quiescent (live ++ late)) H).ret = (streamOf live).find? m := by
  have h := sendAndRead_refines_cut hT hn m quiescent live late H ho hb hlate (fun _ _ => rfl)
  cases hf : (streamOf live).find? m with
  | some p =>
    rw [hf] at h
    obtain ⟨i, t, hi, hr⟩ := h
    rw [hr]
    have hlt : i < live.length := (List.getElem?_eq_some_iff.1 hi).1
    simp [answer, List.getElem?_append_left hlt, hi]
  | none =>
    rw [hf] at h
    rw [h hH]; rfl

/-- **C13 (datagrams the caller never sees do not matter).** `obs`: ANY
observation sequence in time order which, once the `irr` observations
(datagrams of other transactions, undecodable ones, ones dropped by the
filters or lost between two tries: any number, any instants) are deleted, is
the observation sequence of the routed stream: same answer. -/
theorem C13_call_unseen_ignored {α : Type} (T n : Int) (m : α → Bool) (fl : Nat → Bool) (arr : List (Int × α))
    (obs : List Obs) (H : Int) (hT : 0 < T) (ho : OrderedObs obs)
    (hobs : obs.filter (fun o => o.kind != .irr) = obsOf m fl arr) (hb : InBudget T n arr) :
    answer arr (runObs T n obs H).ret = (streamOf arr).find? m := by
  have h := refines_with_irrelevant hT m fl arr obs H ho hobs hb
  cases hf : (streamOf arr).find? m with
  | some p =>
    rw [hf] at h
    obtain ⟨i, t, hi, hr⟩ := h
    rw [hr]; simp [answer, hi]
  | none =>
    rw [hf] at h
    rcases quiet_ret (n := n) hT obs H h with hr | ⟨t, hr⟩ <;> rw [hr] <;> rfl

/-! ### the exchanges on the timed machine -/

/-- **C13 (every exchange of the lease model, run on the timed machine, is the
exchange over the abstract call).** Each call of an exchange gets its routed
stream with instants counted from the start of that call; all of them in time
order and within the budget.  Hence every `C13_*` theorem above about
`discoverOffer`, `requestFromOffer`, `request`, `renew`, `inform`, `call6`
(`solicit`, `request6`) holds verbatim of the timed versions. -/
theorem C13_exchanges_timed (T n : Int) (H : Int) (hT : 0 < T) :
    (∀ xid hw user (a : List (Int × Pkt4)), Ordered a → InBudget T n a →
      discoverOfferTimed T n xid hw user a H = discoverOffer xid hw user (streamOf a)) ∧
    (∀ xid offer user (a : List (Int × Pkt4)), Ordered a → InBudget T n a →
      requestFromOfferTimed T n xid offer user a H = requestFromOffer xid offer user (streamOf a)) ∧
    (∀ xid xid2 hw user (a1 a2 : List (Int × Pkt4)), Ordered a1 → InBudget T n a1 → Ordered a2 → InBudget T n a2 →
      requestTimed T n xid xid2 hw user a1 a2 H = request xid xid2 hw user (streamOf a1) (streamOf a2)) ∧
    (∀ xid l user (a : List (Int × Pkt4)), Ordered a → InBudget T n a →
      renewTimed T n xid l user a H = renew xid l user (streamOf a)) ∧
    (∀ xid hw localIP user (a : List (Int × Pkt4)), Ordered a → InBudget T n a →
      informTimed T n xid hw localIP user a H = inform xid hw localIP user (streamOf a)) ∧
    (∀ built (a : List (Int × V6.Msg6)) mtch, Ordered a → InBudget T n a →
      call6Timed T n built a mtch H = call6 built (streamOf a) mtch) := by
  have h4 := (C13_call_timed T n H hT).1
  have h6 := (C13_call_timed T n H hT).2
  refine ⟨fun xid hw user a ho hb => ?_, fun xid offer user a ho hb => ?_,
    fun xid xid2 hw user a1 a2 ho1 hb1 ho2 hb2 => ?_, fun xid l user a ho hb => ?_,
    fun xid hw localIP user a ho hb => ?_, fun built a mtch ho hb => ?_⟩
  · simp only [discoverOfferTimed, discoverOffer, h4 _ a ho hb]
  · simp only [requestFromOfferTimed, requestFromOffer, h4 _ a ho hb]
  · simp only [requestTimed, request, discoverOfferTimed, discoverOffer, requestFromOfferTimed, requestFromOffer,
      h4 _ a1 ho1 hb1, h4 _ a2 ho2 hb2]
    generalize sendAndRead (streamOf a1) offerMatcher = x
    cases x <;> rfl
  · simp only [renewTimed, renew, h4 _ a ho hb]
  · simp only [informTimed, inform, h4 _ a ho hb]
  · cases built <;> simp only [call6Timed, call6, h6 _ a ho hb]
    generalize sendAndRead6 (streamOf a) mtch = x
    cases x <;> rfl

/-- **C13 (DORA on the timed machine).** `Request` with client timeout `T` and
`n` tries.  The DISCOVER call's routed stream `pre1 ++ (t1, offer) :: post1`:
`offer` is the first packet of type OFFER; the REQUEST call's routed stream
`pre2 ++ (t2, r) :: post2` (instants from the start of the second call): `r` is
the first packet that `Completes offer` (ACK/NAK from the offer's server); both
in time order, `t1`, `t2` strictly before the budget.  Then: the DISCOVER call
returns at `t1` with packet number `|pre1|`, the REQUEST call at `t2` with packet
number `|pre2|`, two datagrams are handed to `SendAndRead` — the DISCOVER and the
REQUEST built from THAT offer — and the result is the lease `(offer, r)` when `r`
is an ACK, the NAK error `(offer, r)` when it is a NAK. -/
theorem C13_request_timed (T n : Int) (xid xid2 hw : Bytes) (user : List Modifier)
    (pre1 post1 pre2 post2 : List (Int × Pkt4)) (t1 t2 : Int) (offer r : Pkt4) (H : Int) (hT : 0 < T)
    (ho1 : Ordered (pre1 ++ (t1, offer) :: post1)) (ho2 : Ordered (pre2 ++ (t2, r) :: post2))
    (hb1 : n < 0 ∨ t1 < callBudget T n) (hb2 : n < 0 ∨ t2 < callBudget T n)
    (hoffer : messageType offer = mtOffer) (hpre1 : ∀ a ∈ pre1, messageType a.2 ≠ mtOffer)
    (hr : Completes offer r) (hpre2 : ∀ a ∈ pre2, ¬ Completes offer a.2) :
    (runObs T n (obsOf offerMatcher quiescent (pre1 ++ (t1, offer) :: post1)) H).ret = some (t1, .resp pre1.length) ∧
    (runObs T n (obsOf (ackNakMatcher offer) quiescent (pre2 ++ (t2, r) :: post2)) H).ret =
      some (t2, .resp pre2.length) ∧
    (requestTimed T n xid xid2 hw user (pre1 ++ (t1, offer) :: post1) (pre2 ++ (t2, r) :: post2) H).sent =
      [discoverPkt xid hw user, requestPkt xid2 offer user] ∧
    (messageType r = mtAck →
      (requestTimed T n xid xid2 hw user (pre1 ++ (t1, offer) :: post1) (pre2 ++ (t2, r) :: post2) H).res =
        .lease offer r) ∧
    (messageType r = mtNak →
      (requestTimed T n xid xid2 hw user (pre1 ++ (t1, offer) :: post1) (pre2 ++ (t2, r) :: post2) H).res =
        .errNak offer r) := by
  have hm1 : ∀ a ∈ pre1, offerMatcher a.2 = false := fun a ha => by
    rw [← Bool.not_eq_true, offerMatcher_iff]; exact hpre1 a ha
  have hm2 : ∀ a ∈ pre2, ackNakMatcher offer a.2 = false := fun a ha => by
    rw [← Bool.not_eq_true, C13_matcher]; exact hpre2 a ha
  have ha1 : offerMatcher offer = true := (offerMatcher_iff offer).2 hoffer
  have ha2 : ackNakMatcher offer r = true := (C13_matcher offer r).2 hr
  obtain ⟨_, _, _, _, hrun1⟩ := refines_some_full (n := n) hT offerMatcher quiescent pre1 post1 t1 offer ho1 hm1 ha1 rfl
    [] H hb1
  obtain ⟨_, _, _, _, hrun2⟩ := refines_some_full (n := n) hT (ackNakMatcher offer) quiescent pre2 post2 t2 r ho2 hm2
    ha2 rfl [] H hb2
  rw [List.append_nil] at hrun1 hrun2
  have hc1 : timedCall T n offerMatcher (pre1 ++ (t1, offer) :: post1) H = some offer := by
    simp [timedCall, hrun1, answer]
  have hc2 : timedCall T n (ackNakMatcher offer) (pre2 ++ (t2, r) :: post2) H = some r := by
    simp [timedCall, hrun2, answer]
  refine ⟨by rw [hrun1], by rw [hrun2], ?_, fun ht => ?_, fun ht => ?_⟩
  · simp [requestTimed, discoverOfferTimed, requestFromOfferTimed, hc1]
  · simp only [requestTimed, discoverOfferTimed, requestFromOfferTimed, hc1, hc2]
    exact (completion_lease_iff _ _ _ _).2 ⟨rfl, rfl, by rw [ht]; decide⟩
  · simp only [requestTimed, discoverOfferTimed, requestFromOfferTimed, hc1, hc2]
    exact (completion_nak_iff _ _ _ _).2 ⟨rfl, rfl, ht⟩

/-- … and when no OFFER is routed to the DISCOVER call before its budget
(`n ≥ 0`, horizon past the budget) the timed DISCOVER call transmits `n` times,
fails with the no-response error at `T·(2^n − 1)`, only the DISCOVER is handed to
`SendAndRead` and `Request` fails with the no-response error. -/
theorem C13_request_timed_no_offer (T n : Int) (xid xid2 hw : Bytes) (user : List Modifier)
    (a1 a2 : List (Int × Pkt4)) (H : Int) (hT : 0 < T) (hn : 0 ≤ n) (hH : callBudget T n ≤ H)
    (hno : ∀ a ∈ a1, messageType a.2 ≠ mtOffer) :
    runObs T n (obsOf offerMatcher quiescent a1) H =
      ⟨(List.range n.toNat).map (fun k => T * (2 ^ k - 1)), some (callBudget T n, .noResp)⟩ ∧
    (requestTimed T n xid xid2 hw user a1 a2 H).sent = [discoverPkt xid hw user] ∧
    (requestTimed T n xid xid2 hw user a1 a2 H).res = .errNoResponse := by
  have hf : (streamOf a1).find? offerMatcher = none := by
    rw [List.find?_eq_none]
    intro q hq
    obtain ⟨a, ha, rfl⟩ := List.mem_map.1 hq
    rw [offerMatcher_iff]
    exact hno a ha
  have hrun := (refines_none (n := n) hT offerMatcher quiescent a1 hf H).1 hn hH
  have hc : timedCall T n offerMatcher a1 H = none := by simp [timedCall, hrun, answer]
  exact ⟨hrun, by simp [requestTimed, discoverOfferTimed, hc], by simp [requestTimed, discoverOfferTimed, hc]⟩

/-! ### the script-level model (`runCall`, the function whose output the
client4/client6 correspondence streams compare with the real clients) -/

/-- **C13 (script level, quiescent).** The script that injects the routed
stream (in time order), every datagram applied at quiescence — on a deadline or
not — allows EXACTLY ONE result: the timed machine's on the stream's observation
sequence, i.e. (by `C13_call_refines_timed`) the abstract call's answer.  The
same holds whatever the sync flags when no datagram arrives exactly on a
retransmission deadline `T·(2^(k+1) − 1)`. -/
theorem C13_call_script {α : Type} (T n : Int) (m : α → Bool) (arr : List (Int × α)) (H : Int) (hT : 0 < T)
    (ho : Ordered arr) :
    runCall T n (scriptOf m arr) H = [runObs T n (obsOf m quiescent arr) H] ∧
    (∀ sy : Nat → Bool, (∀ a ∈ arr, ∀ k : Nat, a.1 ≠ T * (2 ^ (k + 1) - 1)) →
      runCall T n (scriptFrom m sy 0 arr) H = [runObs T n (obsOf m quiescent arr) H]) :=
  ⟨runCall_scriptOf hT m arr H ho, fun sy hnd => runCall_scriptFrom_no_coincidence hT m sy arr H ho hnd⟩

/-- **C13 (script level, racing: what is NOT the abstract call, exactly).** ANY
sync flags (datagrams racing with per-try deadlines, where the script-level
model lets a datagram be lost to the registration being torn down, or be seen by
the old or the new try).  For EVERY result `r` the model allows:
(1) if `r` is a response it is a packet of the stream that the matcher accepts,
returned at its arrival instant, and every accepted packet BEFORE it arrived
exactly on a retransmission deadline — so `r` is `find?` of the stream with
some deadline-coincident packets deleted;
(2) if `r` is not a response, every accepted packet of the stream arrived
exactly on a retransmission deadline, or at/after the budget.
In particular a rejected packet is never returned, nothing is invented, and
without a coincidence the answer is `find?` of the whole stream. -/
theorem C13_call_script_racing {α : Type} (T n : Int) (m : α → Bool) (sy : Nat → Bool) (arr : List (Int × α))
    (H : Int) (hT : 0 < T) (ho : Ordered arr) (r : Result) (hr : r ∈ runCall T n (scriptFrom m sy 0 arr) H) :
    (∀ t i, r.ret = some (t, .resp i) → ∃ p, arr[i]? = some (t, p) ∧ m p = true ∧
      ∀ j q, j < i → arr[j]? = some q → m q.2 = true → ∃ k : Nat, q.1 = T * (2 ^ (k + 1) - 1)) ∧
    ((∀ t i, r.ret ≠ some (t, .resp i)) → ∀ a ∈ arr, m a.2 = true →
      (∃ k : Nat, a.1 = T * (2 ^ (k + 1) - 1)) ∨ (0 ≤ n ∧ callBudget T n ≤ a.1)) :=
  runCall_stream hT m sy arr H ho r hr

/-- The reading "the script-level model returns `find?` of the routed stream"
for EVERY script, racing ones included. -/
def C13_call_script_full : Prop :=
  ∀ (T n : Int) (m : Nat → Bool) (sy : Nat → Bool) (arr : List (Int × Nat)) (H : Int), 0 < T → Ordered arr →
    InBudget T n arr → ∀ r ∈ runCall T n (scriptFrom m sy 0 arr) H, answer arr r.ret = (streamOf arr).find? m

/-- False of the model (which is deliberately a superset of the Go runtime's
behaviour there): an acceptable datagram injected, without waiting for
quiescence, at the very instant of the first deadline may be delivered to the
registration being torn down and lost; the call then returns the NEXT acceptable
packet (here: packet number 1 instead of number 0). -/
theorem C13_call_script_counterexample : ¬ C13_call_script_full := by
  intro h
  have := h 1000 3 (fun p => p == 7 || p == 8) (fun _ => false) [(1000, 7), (1500, 8)] 10000 (by decide)
    ⟨by decide, by decide⟩ (fun _ => by decide) ⟨[0, 1000], some (1500, .resp 1)⟩ (by decide)
  revert this
  decide

/-! Non-vacuity of the refinement: concrete timed runs (kernel-evaluated). -/

/-- packets are numbers, the matcher accepts 7; T = 1000, 3 tries; a rejected 3
at 400, a rejected 5 exactly ON the first deadline and racing with it, the
accepted 7 at 2500, another 7 later: returned at 2500, packet number 2, after two
transmissions; `find?` gives the same packet -/
example : runObs 1000 3 (obsOf (· == 7) (fun i => i != 1) [(400, 3), (1000, 5), (2500, 7), (2600, 7)]) 10000 =
      ⟨[0, 1000], some (2500, .resp 2)⟩ ∧
    answer [(400, 3), (1000, 5), (2500, 7), (2600, 7)] (some (2500, .resp 2)) = some 7 ∧
    (streamOf [((400 : Int), 3), (1000, 5), (2500, 7), (2600, 7)]).find? (· == 7) = some 7 := by decide

/-- nothing accepted: three transmissions, the no-response error at the budget 7000 -/
example : runObs 1000 3 (obsOf (· == 7) quiescent [(400, 3), (1000, 5), (6999, 9)]) 10000 =
      ⟨[0, 1000, 3000], some (callBudget 1000 3, .noResp)⟩ ∧ callBudget 1000 3 = 7000 ∧
    (streamOf [((400 : Int), 3), (1000, 5), (6999, 9)]).find? (· == 7) = none := by decide

/-- the hypotheses of `C13_call_refines_timed` hold of the first stream -/
example : Ordered [((400 : Int), 3), (1000, 5), (2500, 7), (2600, 7)] ∧
    InBudget 1000 3 [((400 : Int), 3), (1000, 5), (2500, 7), (2600, 7)] := by
  refine ⟨⟨by decide, by decide⟩, fun _ => by decide⟩

/-- context cancelled at 2000, between the rejected packets and the acceptable
one: the context's error at 2000; the acceptable packet at 2500 is never seen -/
example : (runObs 1000 3 (obsOf (· == 7) quiescent [(400, 3), (1000, 5)] ++
      ⟨2000, .ctx, 0, true⟩ :: obsFrom (· == 7) quiescent 2 [(2500, 7)]) 10000).ret = some (2000, .ctxErr) := by
  decide

/-- an acceptable packet arriving exactly at the budget, applied at quiescence: not returned -/
example : (runObs 1000 3 (obsOf (· == 7) quiescent [(400, 3), (7000, 7)]) 10000).ret = some (7000, .noResp) := by
  decide

/-- the script-level model on the first stream, all at quiescence: one result -/
example : runCall 1000 3 (scriptOf (· == 7) [(400, 3), (1000, 5), (2500, 7), (2600, 7)]) 10000 =
    [⟨[0, 1000], some (2500, .resp 2)⟩] := by decide

/-- … racing: an acceptable packet exactly on the first deadline may be seen by
the new try (two transmissions), be lost (then the next acceptable packet,
number 1, is returned), or be seen by the old try (one transmission): three results, all covered by
`C13_call_script_racing` -/
example : runCall 1000 3 (scriptFrom (fun p => p == 7 || p == 8) (fun _ => false) 0 [(1000, 7), (1500, 8)]) 10000 =
    [⟨[0, 1000], some (1000, .resp 0)⟩, ⟨[0, 1000], some (1500, .resp 1)⟩, ⟨[0], some (1000, .resp 0)⟩] := by decide

/-- DORA on the timed machine with the hostile stream of the example above:
OFFER at 120 ns after a wrong-type packet, then (second call) a wrong-server
ACK, a duplicate OFFER, and the right ACK at 1300 ns — during the second try -/
example : (requestTimed 1000 3 [0, 0, 0, 0] [0, 0, 0, 0] [2, 0, 0, 0, 0, 1] []
      ([(50, ackFrom [10, 0, 0, 1])] ++ (120, exOffer) :: [(130, exOffer)])
      ([(10, ackFrom [10, 0, 0, 2]), (20, exOffer)] ++ (1300, ackFrom [10, 0, 0, 1]) :: [(1400, nakFrom [10, 0, 0, 1])])
      10000).res = .lease exOffer (ackFrom [10, 0, 0, 1]) :=
  (C13_request_timed 1000 3 _ _ _ _ _ _ _ _ 120 1300 exOffer (ackFrom [10, 0, 0, 1]) 10000 (by decide)
    ⟨by decide, by decide⟩ ⟨by decide, by decide⟩ (Or.inr (by decide)) (Or.inr (by decide))
    (by decide) (by decide) (by decide) (by decide)).2.2.2.1 (by decide)

end Refinement

end Dhcp.Client.Lease

/-
  The interleaving model's side of the same statement.
-/
namespace Dhcp.Client.LTS

/-- **C13 (in the interleaving model a returned packet is `find?` of what was
routed).** `C10_first` restated with `List.find?`: in every reachable state of
the labelled transition system (any number of callers, any interleaving with
the receive loop, Close, timers, contexts), a caller that has returned a packet
returned exactly `find?` — with its matcher — of the list of packets the
receive loop routed to the registration of the try that returned; in the form
of the abstract call: on the datagrams, `(routed.map (·.d)).find? accepted`. -/
theorem C13_call_is_find (cfg : Cfg) (hf : cfg.cancelChecksOwner = true) (s : State) (hr : Reachable cfg s)
    (i : Nat) (p : Pkt) (hret : (getC s i).pc = .returned (.ok (some p))) :
    (getR s (getC s i).lastReg).routed.find? (fun q : Pkt => accepted (cfg.caller i) q.d) = some p ∧
    ((getR s (getC s i).lastReg).routed.map (·.d)).find? (accepted (cfg.caller i)) = some p.d := by
  obtain ⟨pre, post, heq, hacc, hpre⟩ := C10_first cfg hf s hr i p hret
  have h1 : (getR s (getC s i).lastReg).routed.find? (fun q : Pkt => accepted (cfg.caller i) q.d) = some p := by
    rw [heq]
    exact List.find?_eq_some_iff_append.2 ⟨by simpa using hacc, pre, post, rfl, fun q hq => by simpa using hpre q hq⟩
  refine ⟨h1, ?_⟩
  rw [List.find?_map]
  show Option.map _ (List.find? (fun q : Pkt => accepted (cfg.caller i) q.d) _) = _
  rw [h1]; rfl

/-- non-vacuity: the reachable state of `C10.ownTrace` (a rejected datagram, a
foreign one, an undecodable one, then the accepted one) -/
example : ∃ s, Reachable cfgTag s ∧ (getC s 0).pc = .returned (.ok (some ⟨3, ⟨3, true, 1⟩⟩)) ∧
    (getR s (getC s 0).lastReg).routed = [⟨0, ⟨3, true, 0⟩⟩, ⟨3, ⟨3, true, 1⟩⟩] :=
  ⟨_, ⟨ownTrace, rfl⟩, by decide, by decide⟩

end Dhcp.Client.LTS

import Dhcp.Server
import DhcpProofs.Lemmas.Server
import DhcpProofs.Lemmas.ServerHistory
import DhcpProofs.Lemmas.V6Parse
/-
  C14 — the servers dispatch each decodable datagram exactly once and survive
  bad ones.  Property theorems only; helper lemmas live in
  DhcpProofs/Lemmas/Server.lean.

  `serve4 = serve decode4 peer4` is the model of `(*server4.Server).Serve`
  with `decode4` = the model of `dhcpv4.FromBytes`; `serve6 dec6 = serve dec6
  peer6` is the model of `(*server6.Server).Serve`: every `…6` theorem holds
  for EVERY decoder `dec6`, and the `…6_dec6` theorems instantiate them with
  `serve6dec = serve6 decode6`, `decode6` = the model of `dhcpv6.FromBytes`
  (`Dhcp.V6.dec6`, which never panics: `C14_no_panic6`).  Sequences of read
  results have any length.

  `SocketPeers rs`: no read returns an interface holding a nil
  `*net.UDPAddr` (no socket does; server4 would dereference it — see
  `C14_panic4_nilptr`).  DHCPv6 needs no such hypothesis.
-/
namespace Dhcp.Server
open Dhcp List

/-- the reads come from a socket: no sender address is a nil `*net.UDPAddr` -/
def SocketPeers (rs : List ReadResult) : Prop := ∀ b, ReadResult.datagram b .udpNilPtr ∉ rs

/-! ## DHCPv4 -/

/-- **C14 (exactness, v4).** The handler invocations are, in order, the
decodings of the datagrams read before the first failed read, each with its
own (rewritten) sender: one per datagram that decodes and comes from a UDP
sender, none for the others. -/
theorem C14_exact4 (rs : List ReadResult) (h : SocketPeers rs) :
    (serve4 rs).invocations =
      ((rs.takeWhile ReadResult.isDatagram).zipIdx).filterMap (fun x =>
        match x.1 with
        | .datagram b p =>
          (decode4 (b.take readBufLen)).bind (fun m =>
            (peer4 p).toOption.map (fun q => (⟨x.2, m, q⟩ : Invocation V4.Pkt4)))
        | .readError => none) := by
  rw [serve4, serve, serveFrom_invocations _ _ 0 rs (peer4_noPanic _ rs h)]
  congr 1
  funext x
  cases x.1 with
  | readError => rfl
  | datagram b p =>
    simp only [handlerCall]
    cases decode4 (b.take readBufLen) <;> simp only [Option.bind]
    cases peer4 p <;> rfl

/-- **C14 (never for an undecodable datagram, v4).** Every invocation points at
a datagram of the sequence that `FromBytes` accepts, carries exactly that
decoding, and the sender that the peer rule makes of that datagram's sender. -/
theorem C14_never_undecodable4 (rs : List ReadResult) (v : Invocation V4.Pkt4)
    (hv : v ∈ (serve4 rs).invocations) :
    ∃ b p, rs[v.idx]? = some (.datagram b p) ∧ V4.dec4 (b.take readBufLen) = .ok v.msg ∧
      peer4 p = .ok v.peer := by
  obtain ⟨_, b, p, h1, h2, h3⟩ := serveFrom_mem decode4 peer4 0 rs v hv
  refine ⟨b, p, by simpa using h1, ?_, h3⟩
  simp only [decode4] at h2
  cases hd : V4.dec4 (b.take readBufLen) <;> simp_all [Res.toOption]

/-- the same, read the other way: a datagram that does not decode is never dispatched -/
theorem C14_undecodable_never_dispatched4 (rs : List ReadResult) (i : Nat) (b : Bytes) (p : Peer)
    (hi : rs[i]? = some (.datagram b p)) (hd : V4.dec4 (b.take readBufLen) = .err) :
    ∀ v ∈ (serve4 rs).invocations, v.idx ≠ i := by
  intro v hv e
  obtain ⟨b', p', h1, h2, _⟩ := C14_never_undecodable4 rs v hv
  rw [e, hi] at h1
  cases h1
  rw [hd] at h2
  cases h2

/-- **C14 (exactly once, v4).** A datagram read before the first failed read
that decodes to `m` and whose sender the peer rule maps to `q` is dispatched
exactly once, as `(m, q)`. -/
theorem C14_exactly_once4 (rs : List ReadResult) (h : SocketPeers rs) (i : Nat) (b : Bytes)
    (p q : Peer) (m : V4.Pkt4) (hi : rs[i]? = some (.datagram b p))
    (hlive : i < (rs.takeWhile ReadResult.isDatagram).length)
    (hd : V4.dec4 (b.take readBufLen) = .ok m) (hp : peer4 p = .ok q) :
    (serve4 rs).invocations.filter (fun v => v.idx == i) = [⟨i, m, q⟩] := by
  have := serveFrom_filter_idx decode4 peer4 0 i rs (peer4_noPanic _ rs h) _ hi hlive
  simp only [Nat.zero_add] at this
  rw [serve4, serve, this]
  simp [handlerCall, decode4, hd, hp, Res.toOption]

/-- **C14 (a malformed datagram does not stop the loop, v4).** Inserting a
datagram that does not decode anywhere in the sequence changes neither what
the handler is called with nor how `Serve` ends. -/
theorem C14_malformed_continues4 (a c : List ReadResult) (b : Bytes) (p : Peer)
    (hd : V4.dec4 (b.take readBufLen) = .err) :
    (serve4 (a ++ .datagram b p :: c)).calls = (serve4 (a ++ c)).calls ∧
      (serve4 (a ++ .datagram b p :: c)).exit = (serve4 (a ++ c)).exit :=
  serveFrom_skip decode4 peer4 0 a c _ (by simp [step, decode4, hd, Res.toOption])

/-- **C14 (exit, v4).** `Serve` returns exactly when some read fails;
otherwise it is still waiting for the next datagram. -/
theorem C14_exit4 (rs : List ReadResult) (h : SocketPeers rs) :
    ((serve4 rs).exit = .returned ↔ .readError ∈ rs) ∧
      ((serve4 rs).exit = .blocked ↔ .readError ∉ rs) :=
  let t := serveFrom_exit decode4 peer4 0 rs (peer4_noPanic _ rs h)
  ⟨t.1, t.2.1⟩

/-- nothing read after the first failed read is processed (v4) -/
theorem C14_exit_stops4 (a b : List ReadResult) :
    serve4 (a ++ .readError :: b) = serve4 (a ++ [.readError]) :=
  serveFrom_readError decode4 peer4 0 a b []

/-- **C14 (peer rule, v4).** A sender without IP address (nil) or with
0.0.0.0 (4-byte or IPv4-mapped form) becomes 255.255.255.255 with the sender's
port; every other UDP sender is passed on unchanged; a non-UDP sender address
gets no invocation. -/
theorem C14_peer4 (port : Nat) (zone : Bytes) :
    peer4 (.udp none port zone) = .ok (.udp (some ipv4bcast) port []) ∧
    (∀ ip, (ip = [0, 0, 0, 0] ∨ ip = [0, 0, 0, 0, 0, 0, 0, 0, 0, 0, 255, 255, 0, 0, 0, 0]) →
      peer4 (.udp (some ip) port zone) = .ok (.udp (some ipv4bcast) port [])) ∧
    (∀ ip, ¬ (ip = [0, 0, 0, 0] ∨ ip = [0, 0, 0, 0, 0, 0, 0, 0, 0, 0, 255, 255, 0, 0, 0, 0]) →
      peer4 (.udp (some ip) port zone) = .ok (.udp (some ip) port zone)) ∧
    (∀ id, peer4 (.other id) = .err) ∧ peer4 .nilAddr = .err ∧
    ipv4bcast = [0, 0, 0, 0, 0, 0, 0, 0, 0, 0, 255, 255, 255, 255, 255, 255] := by
  refine ⟨rfl, ?_, ?_, fun _ => rfl, rfl, rfl⟩
  · intro ip h
    rcases h with rfl | rfl <;> rfl
  · intro ip h
    have : isZero4 ip = false := by
      cases hz : isZero4 ip with
      | false => rfl
      | true => exact absurd ((isZero4_iff ip).mp hz) h
    simp [peer4, this]

/-- **C14 (independence, v4).** There is ONE function of a read result and
its position such that, for every sequence, the invocations for position `i`
are that function of the `i`-th read result alone — whatever was read before
or after it. -/
theorem C14_independent4 :
    ∃ f : ReadResult → Nat → Option (Invocation V4.Pkt4),
      ∀ (rs : List ReadResult), SocketPeers rs → ∀ (i : Nat) (r : ReadResult),
        rs[i]? = some r → i < (rs.takeWhile ReadResult.isDatagram).length →
        (serve4 rs).invocations.filter (fun v => v.idx == i) = (f r i).toList := by
  refine ⟨handlerCall decode4 peer4, fun rs h i r hr hl => ?_⟩
  have := serveFrom_filter_idx decode4 peer4 0 i rs (peer4_noPanic _ rs h) r hr hl
  simpa [serve4, serve] using this

/-- The guard is stated, not hidden: a decodable datagram whose sender address
is a nil `*net.UDPAddr` makes server4's loop panic (outside the property's
domain: no socket returns such an address). -/
theorem C14_panic4_nilptr (b : Bytes) (m : V4.Pkt4) (rest : List ReadResult)
    (hd : V4.dec4 (b.take readBufLen) = .ok m) :
    (serve4 (.datagram b .udpNilPtr :: rest)).exit = .panicked := by
  simp [serve4, serve, serveFrom, step, decode4, hd, Res.toOption, peer4]

/-! ## DHCPv6 (for every decoder `dec6`) -/

section
variable {α : Type} (dec6 : Bytes → Option α)

/-- **C14 (exactness, v6).** -/
theorem C14_exact6 (rs : List ReadResult) :
    (serve6 dec6 rs).invocations =
      ((rs.takeWhile ReadResult.isDatagram).zipIdx).filterMap (fun x =>
        match x.1 with
        | .datagram b p => (dec6 (b.take readBufLen)).map (fun m => (⟨x.2, m, p⟩ : Invocation α))
        | .readError => none) := by
  rw [serve6, serve, serveFrom_invocations _ _ 0 rs (peer6_noPanic _ rs)]
  congr 1
  funext x
  cases x.1 with
  | readError => rfl
  | datagram b p =>
    simp only [handlerCall, peer6]
    cases dec6 (b.take readBufLen) <;> rfl

/-- **C14 (never for an undecodable datagram; sender unchanged, v6).** -/
theorem C14_never_undecodable6 (rs : List ReadResult) (v : Invocation α)
    (hv : v ∈ (serve6 dec6 rs).invocations) :
    ∃ b, rs[v.idx]? = some (.datagram b v.peer) ∧ dec6 (b.take readBufLen) = some v.msg := by
  obtain ⟨_, b, p, h1, h2, h3⟩ := serveFrom_mem dec6 peer6 0 rs v hv
  simp only [peer6, Res.ok.injEq] at h3
  subst h3
  exact ⟨b, by simpa using h1, h2⟩

/-- **C14 (exactly once, v6).** -/
theorem C14_exactly_once6 (rs : List ReadResult) (i : Nat) (b : Bytes) (p : Peer) (m : α)
    (hi : rs[i]? = some (.datagram b p))
    (hlive : i < (rs.takeWhile ReadResult.isDatagram).length)
    (hd : dec6 (b.take readBufLen) = some m) :
    (serve6 dec6 rs).invocations.filter (fun v => v.idx == i) = [⟨i, m, p⟩] := by
  have := serveFrom_filter_idx dec6 peer6 0 i rs (peer6_noPanic _ rs) _ hi hlive
  simp only [Nat.zero_add] at this
  rw [serve6, serve, this]
  simp [handlerCall, hd, peer6]

/-- **C14 (a malformed datagram does not stop the loop, v6).** -/
theorem C14_malformed_continues6 (a c : List ReadResult) (b : Bytes) (p : Peer)
    (hd : dec6 (b.take readBufLen) = none) :
    (serve6 dec6 (a ++ .datagram b p :: c)).calls = (serve6 dec6 (a ++ c)).calls ∧
      (serve6 dec6 (a ++ .datagram b p :: c)).exit = (serve6 dec6 (a ++ c)).exit :=
  serveFrom_skip dec6 peer6 0 a c _ (by simp [step, hd])

/-- **C14 (exit, v6).** -/
theorem C14_exit6 (rs : List ReadResult) :
    ((serve6 dec6 rs).exit = .returned ↔ .readError ∈ rs) ∧
      ((serve6 dec6 rs).exit = .blocked ↔ .readError ∉ rs) :=
  let t := serveFrom_exit dec6 peer6 0 rs (peer6_noPanic _ rs)
  ⟨t.1, t.2.1⟩

theorem C14_exit_stops6 (a b : List ReadResult) :
    serve6 dec6 (a ++ .readError :: b) = serve6 dec6 (a ++ [.readError]) :=
  serveFrom_readError dec6 peer6 0 a b []

/-- **C14 (independence, v6).** -/
theorem C14_independent6 :
    ∃ f : ReadResult → Nat → Option (Invocation α),
      ∀ (rs : List ReadResult) (i : Nat) (r : ReadResult),
        rs[i]? = some r → i < (rs.takeWhile ReadResult.isDatagram).length →
        (serve6 dec6 rs).invocations.filter (fun v => v.idx == i) = (f r i).toList := by
  refine ⟨handlerCall dec6 peer6, fun rs i r hr hl => ?_⟩
  have := serveFrom_filter_idx dec6 peer6 0 i rs (peer6_noPanic _ rs) r hr hl
  simpa [serve6, serve] using this
end

/-! ## DHCPv6 instantiated with the codec model `Dhcp.V6.dec6` -/

/-- `dhcpv6.FromBytes` (model) returns a message or an error, never `panic`, and
the peer rule of server6 cannot panic either: the DHCPv6 loop never panics,
whatever is read from whatever sender address. -/
theorem C14_no_panic6 (rs : List ReadResult) :
    (∀ b, V6.dec6 b ≠ .panic) ∧ (serve6dec rs).exit ≠ .panicked :=
  ⟨V6.dec6_ne_panic, (serveFrom_exit decode6 peer6 0 rs (peer6_noPanic _ rs)).2.2⟩

/-- **C14 (exactness, v6, `dec6`).** -/
theorem C14_exact6_dec6 (rs : List ReadResult) :
    (serve6dec rs).invocations =
      ((rs.takeWhile ReadResult.isDatagram).zipIdx).filterMap (fun x =>
        match x.1 with
        | .datagram b p =>
          (V6.dec6 (b.take readBufLen)).toOption.map (fun m => (⟨x.2, m, p⟩ : Invocation V6.Msg6))
        | .readError => none) :=
  C14_exact6 decode6 rs

/-- **C14 (never for an undecodable datagram; message = its decoding; sender unchanged, v6, `dec6`).** -/
theorem C14_never_undecodable6_dec6 (rs : List ReadResult) (v : Invocation V6.Msg6)
    (hv : v ∈ (serve6dec rs).invocations) :
    ∃ b, rs[v.idx]? = some (.datagram b v.peer) ∧ V6.dec6 (b.take readBufLen) = .ok v.msg := by
  obtain ⟨b, h1, h2⟩ := C14_never_undecodable6 decode6 rs v hv
  refine ⟨b, h1, ?_⟩
  simp only [decode6] at h2
  cases hd : V6.dec6 (b.take readBufLen) <;> simp_all [Res.toOption]

/-- a datagram that `dec6` rejects is never dispatched -/
theorem C14_undecodable_never_dispatched6_dec6 (rs : List ReadResult) (i : Nat) (b : Bytes) (p : Peer)
    (hi : rs[i]? = some (.datagram b p)) (hd : V6.dec6 (b.take readBufLen) = .err) :
    ∀ v ∈ (serve6dec rs).invocations, v.idx ≠ i := by
  intro v hv e
  obtain ⟨b', h1, h2⟩ := C14_never_undecodable6_dec6 rs v hv
  rw [e, hi] at h1
  cases h1
  rw [hd] at h2
  cases h2

/-- **C14 (exactly once, v6, `dec6`).** -/
theorem C14_exactly_once6_dec6 (rs : List ReadResult) (i : Nat) (b : Bytes) (p : Peer) (m : V6.Msg6)
    (hi : rs[i]? = some (.datagram b p))
    (hlive : i < (rs.takeWhile ReadResult.isDatagram).length)
    (hd : V6.dec6 (b.take readBufLen) = .ok m) :
    (serve6dec rs).invocations.filter (fun v => v.idx == i) = [⟨i, m, p⟩] :=
  C14_exactly_once6 decode6 rs i b p m hi hlive (by simp [decode6, hd, Res.toOption])

/-- **C14 (a malformed datagram does not stop the loop, v6, `dec6`).** -/
theorem C14_malformed_continues6_dec6 (a c : List ReadResult) (b : Bytes) (p : Peer)
    (hd : V6.dec6 (b.take readBufLen) = .err) :
    (serve6dec (a ++ .datagram b p :: c)).calls = (serve6dec (a ++ c)).calls ∧
      (serve6dec (a ++ .datagram b p :: c)).exit = (serve6dec (a ++ c)).exit :=
  C14_malformed_continues6 decode6 a c b p (by simp [decode6, hd, Res.toOption])

/-- **C14 (exit, v6, `dec6`).** -/
theorem C14_exit6_dec6 (rs : List ReadResult) :
    ((serve6dec rs).exit = .returned ↔ .readError ∈ rs) ∧
      ((serve6dec rs).exit = .blocked ↔ .readError ∉ rs) :=
  C14_exit6 decode6 rs

theorem C14_exit_stops6_dec6 (a b : List ReadResult) :
    serve6dec (a ++ .readError :: b) = serve6dec (a ++ [.readError]) :=
  C14_exit_stops6 decode6 a b

/-- **C14 (independence, v6, `dec6`).** -/
theorem C14_independent6_dec6 :
    ∃ f : ReadResult → Nat → Option (Invocation V6.Msg6),
      ∀ (rs : List ReadResult) (i : Nat) (r : ReadResult),
        rs[i]? = some r → i < (rs.takeWhile ReadResult.isDatagram).length →
        (serve6dec rs).invocations.filter (fun v => v.idx == i) = (f r i).toList :=
  C14_independent6 decode6

/-! ## Histories compared: non-interference and monotonicity

Two histories `a ++ r :: c` and `a ++ r' :: c` that differ in the read at
position `|a|` only, and a history `a` compared with its extension `a ++ b`.
`a`, `b`, `c` are arbitrary (any length, read errors and — for DHCPv4 — even
nil `*net.UDPAddr` senders allowed in them: no `SocketPeers` hypothesis).
What this says and does not say: the MODEL hands each handler a value computed
from its own datagram's first 4096 bytes and sender only, and never revises
what it has handed out.  That the Go values handed out share no memory with
the read buffer or with each other (C08), and in which order the handler
goroutines run, is outside the fold model (checked on the code: blocking
handlers, scribbling connection, race detector). -/

/-- **C14 (non-interference, v4).**
(i) Nothing before position `|a|` depends on what is read at `|a|` or later —
whatever `r`, `r'` are (a datagram turned into a read error or vice versa
included): the invocations with a smaller index are those of the history `a`.
(ii) If both variants are datagrams from socket senders, every invocation
other than the one for position `|a|` is the same in both runs, and `Serve`
ends the same way: changing datagram `|a|` changes at most invocation `|a|`.
(iii) Two datagrams with the same first 4096 bytes and the same sender are
indistinguishable: the whole outcome is the same. -/
theorem C14_noninterference4 (a c : List ReadResult) (r r' : ReadResult) :
    ((serve4 (a ++ r :: c)).invocations.filter (fun v => decide (v.idx < a.length)) = (serve4 a).invocations ∧
     (serve4 (a ++ r' :: c)).invocations.filter (fun v => decide (v.idx < a.length)) = (serve4 a).invocations) ∧
    (∀ b p b' p', r = .datagram b p → r' = .datagram b' p' → p ≠ .udpNilPtr → p' ≠ .udpNilPtr →
      (serve4 (a ++ r :: c)).invocations.filter (fun v => v.idx != a.length) =
        (serve4 (a ++ r' :: c)).invocations.filter (fun v => v.idx != a.length) ∧
      (serve4 (a ++ r :: c)).exit = (serve4 (a ++ r' :: c)).exit) ∧
    (∀ b b' p, r = .datagram b p → r' = .datagram b' p → b.take readBufLen = b'.take readBufLen →
      serve4 (a ++ r :: c) = serve4 (a ++ r' :: c)) := by
  refine ⟨⟨?_, ?_⟩, ?_, ?_⟩
  · exact (by have h := serveFrom_before decode4 peer4 0 a (r :: c); simp only [Nat.zero_add] at h; exact h)
  · exact (by have h := serveFrom_before decode4 peer4 0 a (r' :: c); simp only [Nat.zero_add] at h; exact h)
  · rintro b p b' p' rfl rfl hp hp'
    have h := serveFrom_nonint decode4 peer4 0 a c _ _
      (step_datagram_ne_stop4 decode4 b p hp) (step_datagram_ne_stop4 decode4 b' p' hp')
    simp only [Nat.zero_add] at h
    exact h
  · rintro b b' p rfl rfl h
    exact serveFrom_congr_step decode4 peer4 0 a c _ _ (step_take decode4 peer4 b b' p h)

/-- **C14 (monotonicity, v4).** The invocations of a prefix of the history are
a prefix of the invocations of the history: what a handler has been handed
never changes when more datagrams arrive, more reads only ADD invocations, for
the new positions only; and once `Serve` has ended nothing is added at all. -/
theorem C14_prefix4 (a b : List ReadResult) :
    (serve4 a).invocations <+: (serve4 (a ++ b)).invocations ∧
    (serve4 (a ++ b)).invocations.filter (fun v => decide (v.idx < a.length)) = (serve4 a).invocations ∧
    ((serve4 a).exit ≠ .blocked → serve4 (a ++ b) = serve4 a) := by
  obtain ⟨h1, h2⟩ := serveFrom_prefix decode4 peer4 0 a b
  have h := serveFrom_before decode4 peer4 0 a b
  simp only [Nat.zero_add] at h
  exact ⟨h1, h, h2⟩

section
variable {α : Type} (dec6 : Bytes → Option α)

/-- **C14 (non-interference, v6, every decoder).** As `C14_noninterference4`;
no condition on the senders (server6 never looks at them). -/
theorem C14_noninterference6 (a c : List ReadResult) (r r' : ReadResult) :
    ((serve6 dec6 (a ++ r :: c)).invocations.filter (fun v => decide (v.idx < a.length)) =
        (serve6 dec6 a).invocations ∧
     (serve6 dec6 (a ++ r' :: c)).invocations.filter (fun v => decide (v.idx < a.length)) =
        (serve6 dec6 a).invocations) ∧
    (r.isDatagram = true → r'.isDatagram = true →
      (serve6 dec6 (a ++ r :: c)).invocations.filter (fun v => v.idx != a.length) =
        (serve6 dec6 (a ++ r' :: c)).invocations.filter (fun v => v.idx != a.length) ∧
      (serve6 dec6 (a ++ r :: c)).exit = (serve6 dec6 (a ++ r' :: c)).exit) ∧
    (∀ b b' p, r = .datagram b p → r' = .datagram b' p → b.take readBufLen = b'.take readBufLen →
      serve6 dec6 (a ++ r :: c) = serve6 dec6 (a ++ r' :: c)) := by
  refine ⟨⟨?_, ?_⟩, ?_, ?_⟩
  · exact (by have h := serveFrom_before dec6 peer6 0 a (r :: c); simp only [Nat.zero_add] at h; exact h)
  · exact (by have h := serveFrom_before dec6 peer6 0 a (r' :: c); simp only [Nat.zero_add] at h; exact h)
  · intro hr hr'
    cases r with
    | readError => cases hr
    | datagram b p =>
      cases r' with
      | readError => cases hr'
      | datagram b' p' =>
        have h := serveFrom_nonint dec6 peer6 0 a c _ _
          (step_datagram_ne_stop6 dec6 b p) (step_datagram_ne_stop6 dec6 b' p')
        simp only [Nat.zero_add] at h
        exact h
  · rintro b b' p rfl rfl h
    exact serveFrom_congr_step dec6 peer6 0 a c _ _ (step_take dec6 peer6 b b' p h)

/-- **C14 (monotonicity, v6, every decoder).** -/
theorem C14_prefix6 (a b : List ReadResult) :
    (serve6 dec6 a).invocations <+: (serve6 dec6 (a ++ b)).invocations ∧
    (serve6 dec6 (a ++ b)).invocations.filter (fun v => decide (v.idx < a.length)) =
      (serve6 dec6 a).invocations ∧
    ((serve6 dec6 a).exit ≠ .blocked → serve6 dec6 (a ++ b) = serve6 dec6 a) := by
  obtain ⟨h1, h2⟩ := serveFrom_prefix dec6 peer6 0 a b
  have h := serveFrom_before dec6 peer6 0 a b
  simp only [Nat.zero_add] at h
  exact ⟨h1, h, h2⟩
end

/-- **C14 (non-interference, v6, `dec6`).** -/
theorem C14_noninterference6_dec6 (a c : List ReadResult) (r r' : ReadResult) :
    ((serve6dec (a ++ r :: c)).invocations.filter (fun v => decide (v.idx < a.length)) =
        (serve6dec a).invocations ∧
     (serve6dec (a ++ r' :: c)).invocations.filter (fun v => decide (v.idx < a.length)) =
        (serve6dec a).invocations) ∧
    (r.isDatagram = true → r'.isDatagram = true →
      (serve6dec (a ++ r :: c)).invocations.filter (fun v => v.idx != a.length) =
        (serve6dec (a ++ r' :: c)).invocations.filter (fun v => v.idx != a.length) ∧
      (serve6dec (a ++ r :: c)).exit = (serve6dec (a ++ r' :: c)).exit) ∧
    (∀ b b' p, r = .datagram b p → r' = .datagram b' p → b.take readBufLen = b'.take readBufLen →
      serve6dec (a ++ r :: c) = serve6dec (a ++ r' :: c)) :=
  C14_noninterference6 decode6 a c r r'

/-- **C14 (monotonicity, v6, `dec6`).** -/
theorem C14_prefix6_dec6 (a b : List ReadResult) :
    (serve6dec a).invocations <+: (serve6dec (a ++ b)).invocations ∧
    (serve6dec (a ++ b)).invocations.filter (fun v => decide (v.idx < a.length)) = (serve6dec a).invocations ∧
    ((serve6dec a).exit ≠ .blocked → serve6dec (a ++ b) = serve6dec a) :=
  C14_prefix6 decode6 a b

/-! ## Non-vacuity -/

/-- a minimal BOOTP header + cookie + End: accepted by the `FromBytes` model -/
def sampleDatagram : Bytes := [1, 1, 6, 0] ++ zeros 232 ++ V4.magicCookie ++ [255]

set_option maxRecDepth 8000 in
example : (decode4 (sampleDatagram.take readBufLen)).isSome = true := by decide
example : (decode4 (([1, 2, 3] : Bytes).take readBufLen)).isNone = true := by decide

set_option maxRecDepth 16000 in
/-- a run with an address-less sender, an undecodable datagram, an ordinary
sender, a non-UDP sender, an empty read, then a failed read and a datagram
that is never looked at: positions 0 and 2 are dispatched, 0 to the broadcast
address with the sender's port; `Serve` returns. -/
example :
    let rs : List ReadResult :=
      [.datagram sampleDatagram (.udp none 68 []), .datagram [1, 2, 3] (.udp (some [10, 0, 0, 1]) 68 []),
       .datagram sampleDatagram (.udp (some [10, 0, 0, 2]) 67 []), .datagram sampleDatagram (.other 7),
       .datagram [] (.udp (some [10, 0, 0, 3]) 68 []), .readError,
       .datagram sampleDatagram (.udp (some [10, 0, 0, 4]) 68 [])]
    SocketPeers rs ∧ (rs.takeWhile ReadResult.isDatagram).length = 5 ∧
    (serve4 rs).invocations.map (fun v => (v.idx, v.peer)) =
      [(0, .udp (some ipv4bcast) 68 []), (2, .udp (some [10, 0, 0, 2]) 67 [])] ∧
    (serve4 rs).exit = .returned := by
  refine ⟨?_, by decide, by decide, by decide⟩
  intro b hb
  simp at hb

/-- DHCPv6 with a toy decoder (accept ≥ 4 bytes): the sender — a non-UDP address, a
`*net.UDPAddr` without IP — reaches the handler untouched; the 1-byte datagram is skipped. -/
example :
    let dec6 : Bytes → Option Bytes := fun b => if b.length ≥ 4 then some b else none
    let o := serve6 dec6 [.datagram [1, 0, 0, 1] (.other 3), .datagram [1] .nilAddr,
      .datagram [3, 0, 0, 2, 0] (.udp none 546 []), .readError]
    o.invocations.map (fun v => (v.idx, v.msg, v.peer)) =
      [(0, [1, 0, 0, 1], .other 3), (2, [3, 0, 0, 2, 0], .udp none 546 [])] ∧ o.exit = .returned := by
  decide

/-- DHCPv6 with the codec model: a SOLICIT with a client-id option (accepted by `dec6`)
from a link-local sender, a 2-byte datagram (rejected), the SOLICIT again from a non-UDP
sender, then Close: positions 0 and 2 are dispatched with their senders untouched. -/
example :
    let sol : Bytes := [1, 0xaa, 0xbb, 0xcc, 0, 1, 0, 10, 0, 3, 0, 1, 0, 0x11, 0x22, 0x33, 0x44, 0x55]
    let ll : Peer := .udp (some ([0xfe, 0x80] ++ zeros 13 ++ [10])) 546 [101, 116, 104, 48]
    let rs : List ReadResult := [.datagram sol ll, .datagram [1, 2] ll, .datagram sol (.other 9), .readError]
    (decode6 (sol.take readBufLen)).isSome = true ∧ (decode6 (([1, 2] : Bytes).take readBufLen)).isNone = true ∧
    (serve6dec rs).invocations.map (fun v => (v.idx, v.peer)) = [(0, ll), (2, .other 9)] ∧
    (serve6dec rs).exit = .returned := by
  refine ⟨by decide, by decide, by decide, by decide⟩

/-! ### non-interference and monotonicity on concrete histories -/

set_option maxRecDepth 16000 in
/-- v4: position 1 holds a decodable datagram in one history, an undecodable
one in the second, a failed read in the third; positions 0, 2 and the final
failed read are common.  Invocation 0 is the same in all three; invocation 2
and the exit are the same in the two histories where position 1 is a datagram;
the read error at 1 ends the loop there (nothing after it, still nothing
before it changes). -/
example :
    let p (k : UInt8) : Peer := .udp (some [10, 0, 0, k]) 68 []
    let a : List ReadResult := [.datagram sampleDatagram (p 1)]
    let c : List ReadResult := [.datagram sampleDatagram (p 3), .readError]
    (serve4 (a ++ .datagram sampleDatagram (p 2) :: c)).invocations.map (fun v => (v.idx, v.peer)) =
      [(0, p 1), (1, p 2), (2, p 3)] ∧
    (serve4 (a ++ .datagram [1, 2, 3] (p 2) :: c)).invocations.map (fun v => (v.idx, v.peer)) =
      [(0, p 1), (2, p 3)] ∧
    (serve4 (a ++ .readError :: c)).invocations.map (fun v => (v.idx, v.peer)) = [(0, p 1)] ∧
    (serve4 (a ++ .datagram sampleDatagram (p 2) :: c)).exit = .returned ∧
    (serve4 (a ++ .datagram [1, 2, 3] (p 2) :: c)).exit = .returned := by
  refine ⟨by decide, by decide, by decide, by decide, by decide⟩

/-- v6 (toy decoder, accept ≥ 4 bytes): a prefix of the history gives a prefix
of the invocations and is still waiting (`blocked`); the whole history has
returned, and the reads after the failed one added nothing. -/
example :
    let dec6 : Bytes → Option Nat := fun b => if b.length ≥ 4 then some b.length else none
    let a : List ReadResult := [.datagram [1, 0, 0, 1] (.other 3), .datagram [1] .nilAddr]
    let b : List ReadResult := [.datagram [3, 0, 0, 2, 0] (.udp none 546 []), .readError, .datagram [1, 0, 0, 2] .nilAddr]
    (serve6 dec6 a).invocations.map (fun v => (v.idx, v.msg)) = [(0, 4)] ∧ (serve6 dec6 a).exit = .blocked ∧
    (serve6 dec6 (a ++ b)).invocations.map (fun v => (v.idx, v.msg)) = [(0, 4), (2, 5)] ∧
    (serve6 dec6 (a ++ b)).exit = .returned := by
  decide

/-- clause (iii) is not vacuous: two different datagrams with the same first 4096 bytes -/
example :
    (List.replicate 4096 (7 : UInt8) ++ [1]) ≠ List.replicate 4096 (7 : UInt8) ++ [2] ∧
    (List.replicate 4096 (7 : UInt8) ++ [1]).take readBufLen =
      (List.replicate 4096 (7 : UInt8) ++ [2]).take readBufLen := by
  refine ⟨fun h => ?_, ?_⟩
  · have := List.append_cancel_left h
    simp at this
  · show (List.replicate 4096 (7 : UInt8) ++ [1]).take 4096 = (List.replicate 4096 (7 : UInt8) ++ [2]).take 4096
    rw [List.take_left' List.length_replicate, List.take_left' List.length_replicate]

/-! ### A read that completes while `Close` runs

`Close` closes the connection; a `ReadFrom` that had already got its datagram
returns it all the same, and the NEXT read fails.  For the loop that is the
history `a ++ [datagram, readError] ++ c`: the datagram was read successfully, so
it is the handler's - exactly once, with its own decoding and sender - and
`Serve` returns; nothing of `c` is processed.  (The scripts' event `k:<datagram>`;
a server dropping what it had read "because it is closing" breaks this.) -/

theorem C14_read_completing_during_close6 {α : Type} (dec6 : Bytes → Option α)
    (a c : List ReadResult) (ha : a.all ReadResult.isDatagram = true)
    (b : Bytes) (p : Peer) (m : α) (hd : dec6 (b.take readBufLen) = some m) :
    let rs := a ++ .datagram b p :: .readError :: c
    (serve6 dec6 rs).invocations.filter (fun v => v.idx == a.length) = [⟨a.length, m, p⟩] ∧
      (serve6 dec6 rs).exit = .returned ∧
      serve6 dec6 rs = serve6 dec6 (a ++ [.datagram b p, .readError]) := by
  intro rs
  have hi : rs[a.length]? = some (.datagram b p) := by simp [rs]
  have htw : (a ++ .datagram b p :: .readError :: c).takeWhile ReadResult.isDatagram = a ++ [.datagram b p] := by
    rw [List.takeWhile_append_of_pos (by simpa [List.all_eq_true] using ha)]
    simp [List.takeWhile, ReadResult.isDatagram]
  have hlive : a.length < (rs.takeWhile ReadResult.isDatagram).length := by
    simp only [rs, htw]; simp
  refine ⟨C14_exactly_once6 dec6 rs a.length b p m hi hlive hd, ?_, ?_⟩
  · exact (C14_exit6 dec6 rs).1.2 (by simp [rs])
  · have := C14_exit_stops6 dec6 (a ++ [.datagram b p]) c
    simpa [rs, List.append_assoc] using this

theorem C14_read_completing_during_close6_dec6 (a c : List ReadResult)
    (ha : a.all ReadResult.isDatagram = true) (b : Bytes) (p : Peer) (m : V6.Msg6)
    (hd : V6.dec6 (b.take readBufLen) = .ok m) :
    let rs := a ++ .datagram b p :: .readError :: c
    (serve6dec rs).invocations.filter (fun v => v.idx == a.length) = [⟨a.length, m, p⟩] ∧
      (serve6dec rs).exit = .returned ∧
      serve6dec rs = serve6dec (a ++ [.datagram b p, .readError]) :=
  C14_read_completing_during_close6 decode6 a c ha b p m (by simp [decode6, hd, Res.toOption])

theorem C14_read_completing_during_close4 (a c : List ReadResult)
    (ha : a.all ReadResult.isDatagram = true) (b : Bytes) (p q : Peer) (m : V4.Pkt4)
    (h : SocketPeers (a ++ .datagram b p :: .readError :: c))
    (hd : V4.dec4 (b.take readBufLen) = .ok m) (hp : peer4 p = .ok q) :
    let rs := a ++ .datagram b p :: .readError :: c
    (serve4 rs).invocations.filter (fun v => v.idx == a.length) = [⟨a.length, m, q⟩] ∧
      (serve4 rs).exit = .returned ∧
      serve4 rs = serve4 (a ++ [.datagram b p, .readError]) := by
  intro rs
  have hi : rs[a.length]? = some (.datagram b p) := by simp [rs]
  have htw : (a ++ .datagram b p :: .readError :: c).takeWhile ReadResult.isDatagram = a ++ [.datagram b p] := by
    rw [List.takeWhile_append_of_pos (by simpa [List.all_eq_true] using ha)]
    simp [List.takeWhile, ReadResult.isDatagram]
  have hlive : a.length < (rs.takeWhile ReadResult.isDatagram).length := by
    simp only [rs, htw]; simp
  refine ⟨C14_exactly_once4 rs h a.length b p q m hi hlive hd hp, ?_, ?_⟩
  · exact (C14_exit4 rs h).1.2 (by simp [rs])
  · have := C14_exit_stops4 (a ++ [.datagram b p]) c
    simpa [rs, List.append_assoc] using this

end Dhcp.Server

import Dhcp.Server
import DhcpProofs.Lemmas.Server
import DhcpProofs.Lemmas.V6Parse
/-
  C14 — the servers dispatch each decodable datagram exactly once and survive
  bad ones.  Property theorems only; helper lemmas live in
  DhcpProofs/Lemmas/Server.lean.

  `serve4 = serve decode4 peer4` is the model of `(*server4.Server).Serve`
  with `decode4` = the model of `dhcpv4.FromBytes`; `serve6 dec6 = serve dec6
  peer6` is the model of `(*server6.Server).Serve`: every `…6` theorem holds
  for EVERY decoder `dec6`, and the `…6_dec6` theorems instantiate them with
  `serve6dec = serve6 decode6`, `decode6` = the model of `dhcpv6.FromBytes`
  (`Dhcp.V6.dec6`, which never panics: `C14_no_panic6`).  Sequences of read
  results have any length.

  `SocketPeers rs`: no read returns an interface holding a nil
  `*net.UDPAddr` (no socket does; server4 would dereference it — see
  `C14_panic4_nilptr`).  DHCPv6 needs no such hypothesis.
-/
namespace Dhcp.Server
open Dhcp List

/-- the reads come from a socket: no sender address is a nil `*net.UDPAddr` -/
def SocketPeers (rs : List ReadResult) : Prop := ∀ b, ReadResult.datagram b .udpNilPtr ∉ rs

/-! ## DHCPv4 -/

/-- **C14 (exactness, v4).** The handler invocations are, in order, the
decodings of the datagrams read before the first failed read, each with its
own (rewritten) sender: one per datagram that decodes and comes from a UDP
sender, none for the others. -/
theorem C14_exact4 (rs : List ReadResult) (h : SocketPeers rs) :
    (serve4 rs).invocations =
      ((rs.takeWhile ReadResult.isDatagram).zipIdx).filterMap (fun x =>
        match x.1 with
        | .datagram b p =>
          (decode4 (b.take readBufLen)).bind (fun m =>
            (peer4 p).toOption.map (fun q => (⟨x.2, m, q⟩ : Invocation V4.Pkt4)))
        | .readError => none) := by
  rw [serve4, serve, serveFrom_invocations _ _ 0 rs (peer4_noPanic _ rs h)]
  congr 1
  funext x
  cases x.1 with
  | readError => rfl
  | datagram b p =>
    simp only [handlerCall]
    cases decode4 (b.take readBufLen) <;> simp only [Option.bind]
    cases peer4 p <;> rfl

/-- **C14 (never for an undecodable datagram, v4).** Every invocation points at
a datagram of the sequence that `FromBytes` accepts, carries exactly that
decoding, and the sender that the peer rule makes of that datagram's sender. -/
theorem C14_never_undecodable4 (rs : List ReadResult) (v : Invocation V4.Pkt4)
    (hv : v ∈ (serve4 rs).invocations) :
    ∃ b p, rs[v.idx]? = some (.datagram b p) ∧ V4.dec4 (b.take readBufLen) = .ok v.msg ∧
      peer4 p = .ok v.peer := by
  obtain ⟨_, b, p, h1, h2, h3⟩ := serveFrom_mem decode4 peer4 0 rs v hv
  refine ⟨b, p, by simpa using h1, ?_, h3⟩
  simp only [decode4] at h2
  cases hd : V4.dec4 (b.take readBufLen) <;> simp_all [Res.toOption]

/-- the same, read the other way: a datagram that does not decode is never dispatched -/
theorem C14_undecodable_never_dispatched4 (rs : List ReadResult) (i : Nat) (b : Bytes) (p : Peer)
    (hi : rs[i]? = some (.datagram b p)) (hd : V4.dec4 (b.take readBufLen) = .err) :
    ∀ v ∈ (serve4 rs).invocations, v.idx ≠ i := by
  intro v hv e
  obtain ⟨b', p', h1, h2, _⟩ := C14_never_undecodable4 rs v hv
  rw [e, hi] at h1
  cases h1
  rw [hd] at h2
  cases h2

/-- **C14 (exactly once, v4).** A datagram read before the first failed read
that decodes to `m` and whose sender the peer rule maps to `q` is dispatched
exactly once, as `(m, q)`. -/
theorem C14_exactly_once4 (rs : List ReadResult) (h : SocketPeers rs) (i : Nat) (b : Bytes)
    (p q : Peer) (m : V4.Pkt4) (hi : rs[i]? = some (.datagram b p))
    (hlive : i < (rs.takeWhile ReadResult.isDatagram).length)
    (hd : V4.dec4 (b.take readBufLen) = .ok m) (hp : peer4 p = .ok q) :
    (serve4 rs).invocations.filter (fun v => v.idx == i) = [⟨i, m, q⟩] := by
  have := serveFrom_filter_idx decode4 peer4 0 i rs (peer4_noPanic _ rs h) _ hi hlive
  simp only [Nat.zero_add] at this
  rw [serve4, serve, this]
  simp [handlerCall, decode4, hd, hp, Res.toOption]

/-- **C14 (a malformed datagram does not stop the loop, v4).** Inserting a
datagram that does not decode anywhere in the sequence changes neither what
the handler is called with nor how `Serve` ends. -/
theorem C14_malformed_continues4 (a c : List ReadResult) (b : Bytes) (p : Peer)
    (hd : V4.dec4 (b.take readBufLen) = .err) :
    (serve4 (a ++ .datagram b p :: c)).calls = (serve4 (a ++ c)).calls ∧
      (serve4 (a ++ .datagram b p :: c)).exit = (serve4 (a ++ c)).exit :=
  serveFrom_skip decode4 peer4 0 a c _ (by simp [step, decode4, hd, Res.toOption])

/-- **C14 (exit, v4).** `Serve` returns exactly when some read fails;
otherwise it is still waiting for the next datagram. -/
theorem C14_exit4 (rs : List ReadResult) (h : SocketPeers rs) :
    ((serve4 rs).exit = .returned ↔ .readError ∈ rs) ∧
      ((serve4 rs).exit = .blocked ↔ .readError ∉ rs) :=
  let t := serveFrom_exit decode4 peer4 0 rs (peer4_noPanic _ rs h)
  ⟨t.1, t.2.1⟩

/-- nothing read after the first failed read is processed (v4) -/
theorem C14_exit_stops4 (a b : List ReadResult) :
    serve4 (a ++ .readError :: b) = serve4 (a ++ [.readError]) :=
  serveFrom_readError decode4 peer4 0 a b []

/-- **C14 (peer rule, v4).** A sender without IP address (nil) or with
0.0.0.0 (4-byte or IPv4-mapped form) becomes 255.255.255.255 with the sender's
port; every other UDP sender is passed on unchanged; a non-UDP sender address
gets no invocation. -/
theorem C14_peer4 (port : Nat) (zone : Bytes) :
    peer4 (.udp none port zone) = .ok (.udp (some ipv4bcast) port []) ∧
    (∀ ip, (ip = [0, 0, 0, 0] ∨ ip = [0, 0, 0, 0, 0, 0, 0, 0, 0, 0, 255, 255, 0, 0, 0, 0]) →
      peer4 (.udp (some ip) port zone) = .ok (.udp (some ipv4bcast) port [])) ∧
    (∀ ip, ¬ (ip = [0, 0, 0, 0] ∨ ip = [0, 0, 0, 0, 0, 0, 0, 0, 0, 0, 255, 255, 0, 0, 0, 0]) →
      peer4 (.udp (some ip) port zone) = .ok (.udp (some ip) port zone)) ∧
    (∀ id, peer4 (.other id) = .err) ∧ peer4 .nilAddr = .err ∧
    ipv4bcast = [0, 0, 0, 0, 0, 0, 0, 0, 0, 0, 255, 255, 255, 255, 255, 255] := by
  refine ⟨rfl, ?_, ?_, fun _ => rfl, rfl, rfl⟩
  · intro ip h
    rcases h with rfl | rfl <;> rfl
  · intro ip h
    have : isZero4 ip = false := by
      cases hz : isZero4 ip with
      | false => rfl
      | true => exact absurd ((isZero4_iff ip).mp hz) h
    simp [peer4, this]

/-- **C14 (independence, v4).** There is ONE function of a read result and
its position such that, for every sequence, the invocations for position `i`
are that function of the `i`-th read result alone — whatever was read before
or after it. -/
theorem C14_independent4 :
    ∃ f : ReadResult → Nat → Option (Invocation V4.Pkt4),
      ∀ (rs : List ReadResult), SocketPeers rs → ∀ (i : Nat) (r : ReadResult),
        rs[i]? = some r → i < (rs.takeWhile ReadResult.isDatagram).length →
        (serve4 rs).invocations.filter (fun v => v.idx == i) = (f r i).toList := by
  refine ⟨handlerCall decode4 peer4, fun rs h i r hr hl => ?_⟩
  have := serveFrom_filter_idx decode4 peer4 0 i rs (peer4_noPanic _ rs h) r hr hl
  simpa [serve4, serve] using this

/-- The guard is stated, not hidden: a decodable datagram whose sender address
is a nil `*net.UDPAddr` makes server4's loop panic (outside the property's
domain: no socket returns such an address). -/
theorem C14_panic4_nilptr (b : Bytes) (m : V4.Pkt4) (rest : List ReadResult)
    (hd : V4.dec4 (b.take readBufLen) = .ok m) :
    (serve4 (.datagram b .udpNilPtr :: rest)).exit = .panicked := by
  simp [serve4, serve, serveFrom, step, decode4, hd, Res.toOption, peer4]

/-! ## DHCPv6 (for every decoder `dec6`) -/

section
variable {α : Type} (dec6 : Bytes → Option α)

/-- **C14 (exactness, v6).** -/
theorem C14_exact6 (rs : List ReadResult) :
    (serve6 dec6 rs).invocations =
      ((rs.takeWhile ReadResult.isDatagram).zipIdx).filterMap (fun x =>
        match x.1 with
        | .datagram b p => (dec6 (b.take readBufLen)).map (fun m => (⟨x.2, m, p⟩ : Invocation α))
        | .readError => none) := by
  rw [serve6, serve, serveFrom_invocations _ _ 0 rs (peer6_noPanic _ rs)]
  congr 1
  funext x
  cases x.1 with
  | readError => rfl
  | datagram b p =>
    simp only [handlerCall, peer6]
    cases dec6 (b.take readBufLen) <;> rfl

/-- **C14 (never for an undecodable datagram; sender unchanged, v6).** -/
theorem C14_never_undecodable6 (rs : List ReadResult) (v : Invocation α)
    (hv : v ∈ (serve6 dec6 rs).invocations) :
    ∃ b, rs[v.idx]? = some (.datagram b v.peer) ∧ dec6 (b.take readBufLen) = some v.msg := by
  obtain ⟨_, b, p, h1, h2, h3⟩ := serveFrom_mem dec6 peer6 0 rs v hv
  simp only [peer6, Res.ok.injEq] at h3
  subst h3
  exact ⟨b, by simpa using h1, h2⟩

/-- **C14 (exactly once, v6).** -/
theorem C14_exactly_once6 (rs : List ReadResult) (i : Nat) (b : Bytes) (p : Peer) (m : α)
    (hi : rs[i]? = some (.datagram b p))
    (hlive : i < (rs.takeWhile ReadResult.isDatagram).length)
    (hd : dec6 (b.take readBufLen) = some m) :
    (serve6 dec6 rs).invocations.filter (fun v => v.idx == i) = [⟨i, m, p⟩] := by
  have := serveFrom_filter_idx dec6 peer6 0 i rs (peer6_noPanic _ rs) _ hi hlive
  simp only [Nat.zero_add] at this
  rw [serve6, serve, this]
  simp [handlerCall, hd, peer6]

/-- **C14 (a malformed datagram does not stop the loop, v6).** -/
theorem C14_malformed_continues6 (a c : List ReadResult) (b : Bytes) (p : Peer)
    (hd : dec6 (b.take readBufLen) = none) :
    (serve6 dec6 (a ++ .datagram b p :: c)).calls = (serve6 dec6 (a ++ c)).calls ∧
      (serve6 dec6 (a ++ .datagram b p :: c)).exit = (serve6 dec6 (a ++ c)).exit :=
  serveFrom_skip dec6 peer6 0 a c _ (by simp [step, hd])

/-- **C14 (exit, v6).** -/
theorem C14_exit6 (rs : List ReadResult) :
    ((serve6 dec6 rs).exit = .returned ↔ .readError ∈ rs) ∧
      ((serve6 dec6 rs).exit = .blocked ↔ .readError ∉ rs) :=
  let t := serveFrom_exit dec6 peer6 0 rs (peer6_noPanic _ rs)
  ⟨t.1, t.2.1⟩

theorem C14_exit_stops6 (a b : List ReadResult) :
    serve6 dec6 (a ++ .readError :: b) = serve6 dec6 (a ++ [.readError]) :=
  serveFrom_readError dec6 peer6 0 a b []

/-- **C14 (independence, v6).** -/
theorem C14_independent6 :
    ∃ f : ReadResult → Nat → Option (Invocation α),
      ∀ (rs : List ReadResult) (i : Nat) (r : ReadResult),
        rs[i]? = some r → i < (rs.takeWhile ReadResult.isDatagram).length →
        (serve6 dec6 rs).invocations.filter (fun v => v.idx == i) = (f r i).toList := by
  refine ⟨handlerCall dec6 peer6, fun rs i r hr hl => ?_⟩
  have := serveFrom_filter_idx dec6 peer6 0 i rs (peer6_noPanic _ rs) r hr hl
  simpa [serve6, serve] using this
end

/-! ## DHCPv6 instantiated with the codec model `Dhcp.V6.dec6` -/

/-- `dhcpv6.FromBytes` (model) returns a message or an error, never `panic`, and
the peer rule of server6 cannot panic either: the DHCPv6 loop never panics,
whatever is read from whatever sender address. -/
theorem C14_no_panic6 (rs : List ReadResult) :
    (∀ b, V6.dec6 b ≠ .panic) ∧ (serve6dec rs).exit ≠ .panicked :=
  ⟨V6.dec6_ne_panic, (serveFrom_exit decode6 peer6 0 rs (peer6_noPanic _ rs)).2.2⟩

/-- **C14 (exactness, v6, `dec6`).** -/
theorem C14_exact6_dec6 (rs : List ReadResult) :
    (serve6dec rs).invocations =
      ((rs.takeWhile ReadResult.isDatagram).zipIdx).filterMap (fun x =>
        match x.1 with
        | .datagram b p =>
          (V6.dec6 (b.take readBufLen)).toOption.map (fun m => (⟨x.2, m, p⟩ : Invocation V6.Msg6))
        | .readError => none) :=
  C14_exact6 decode6 rs

/-- **C14 (never for an undecodable datagram; message = its decoding; sender unchanged, v6, `dec6`).** -/
theorem C14_never_undecodable6_dec6 (rs : List ReadResult) (v : Invocation V6.Msg6)
    (hv : v ∈ (serve6dec rs).invocations) :
    ∃ b, rs[v.idx]? = some (.datagram b v.peer) ∧ V6.dec6 (b.take readBufLen) = .ok v.msg := by
  obtain ⟨b, h1, h2⟩ := C14_never_undecodable6 decode6 rs v hv
  refine ⟨b, h1, ?_⟩
  simp only [decode6] at h2
  cases hd : V6.dec6 (b.take readBufLen) <;> simp_all [Res.toOption]

/-- a datagram that `dec6` rejects is never dispatched -/
theorem C14_undecodable_never_dispatched6_dec6 (rs : List ReadResult) (i : Nat) (b : Bytes) (p : Peer)
    (hi : rs[i]? = some (.datagram b p)) (hd : V6.dec6 (b.take readBufLen) = .err) :
    ∀ v ∈ (serve6dec rs).invocations, v.idx ≠ i := by
  intro v hv e
  obtain ⟨b', h1, h2⟩ := C14_never_undecodable6_dec6 rs v hv
  rw [e, hi] at h1
  cases h1
  rw [hd] at h2
  cases h2

/-- **C14 (exactly once, v6, `dec6`).** -/
theorem C14_exactly_once6_dec6 (rs : List ReadResult) (i : Nat) (b : Bytes) (p : Peer) (m : V6.Msg6)
    (hi : rs[i]? = some (.datagram b p))
    (hlive : i < (rs.takeWhile ReadResult.isDatagram).length)
    (hd : V6.dec6 (b.take readBufLen) = .ok m) :
    (serve6dec rs).invocations.filter (fun v => v.idx == i) = [⟨i, m, p⟩] :=
  C14_exactly_once6 decode6 rs i b p m hi hlive (by simp [decode6, hd, Res.toOption])

/-- **C14 (a malformed datagram does not stop the loop, v6, `dec6`).** -/
theorem C14_malformed_continues6_dec6 (a c : List ReadResult) (b : Bytes) (p : Peer)
    (hd : V6.dec6 (b.take readBufLen) = .err) :
    (serve6dec (a ++ .datagram b p :: c)).calls = (serve6dec (a ++ c)).calls ∧
      (serve6dec (a ++ .datagram b p :: c)).exit = (serve6dec (a ++ c)).exit :=
  C14_malformed_continues6 decode6 a c b p (by simp [decode6, hd, Res.toOption])

/-- **C14 (exit, v6, `dec6`).** -/
theorem C14_exit6_dec6 (rs : List ReadResult) :
    ((serve6dec rs).exit = .returned ↔ .readError ∈ rs) ∧
      ((serve6dec rs).exit = .blocked ↔ .readError ∉ rs) :=
  C14_exit6 decode6 rs

theorem C14_exit_stops6_dec6 (a b : List ReadResult) :
    serve6dec (a ++ .readError :: b) = serve6dec (a ++ [.readError]) :=
  C14_exit_stops6 decode6 a b

/-- **C14 (independence, v6, `dec6`).** -/
theorem C14_independent6_dec6 :
    ∃ f : ReadResult → Nat → Option (Invocation V6.Msg6),
      ∀ (rs : List ReadResult) (i : Nat) (r : ReadResult),
        rs[i]? = some r → i < (rs.takeWhile ReadResult.isDatagram).length →
        (serve6dec rs).invocations.filter (fun v => v.idx == i) = (f r i).toList :=
  C14_independent6 decode6

/-! ## Non-vacuity -/

/-- a minimal BOOTP header + cookie + End: accepted by the `FromBytes` model -/
def sampleDatagram : Bytes := [1, 1, 6, 0] ++ zeros 232 ++ V4.magicCookie ++ [255]

set_option maxRecDepth 8000 in
example : (decode4 (sampleDatagram.take readBufLen)).isSome = true := by decide
example : (decode4 (([1, 2, 3] : Bytes).take readBufLen)).isNone = true := by decide

set_option maxRecDepth 16000 in
/-- a run with an address-less sender, an undecodable datagram, an ordinary
sender, a non-UDP sender, an empty read, then a failed read and a datagram
that is never looked at: positions 0 and 2 are dispatched, 0 to the broadcast
address with the sender's port; `Serve` returns. -/
example :
    let rs : List ReadResult :=
      [.datagram sampleDatagram (.udp none 68 []), .datagram [1, 2, 3] (.udp (some [10, 0, 0, 1]) 68 []),
       .datagram sampleDatagram (.udp (some [10, 0, 0, 2]) 67 []), .datagram sampleDatagram (.other 7),
       .datagram [] (.udp (some [10, 0, 0, 3]) 68 []), .readError,
       .datagram sampleDatagram (.udp (some [10, 0, 0, 4]) 68 [])]
    SocketPeers rs ∧ (rs.takeWhile ReadResult.isDatagram).length = 5 ∧
    (serve4 rs).invocations.map (fun v => (v.idx, v.peer)) =
      [(0, .udp (some ipv4bcast) 68 []), (2, .udp (some [10, 0, 0, 2]) 67 [])] ∧
    (serve4 rs).exit = .returned := by
  refine ⟨?_, by decide, by decide, by decide⟩
  intro b hb
  simp at hb

/-- DHCPv6 with a toy decoder (accept ≥ 4 bytes): the sender — a non-UDP address, a
`*net.UDPAddr` without IP — reaches the handler untouched; the 1-byte datagram is skipped. -/
example :
    let dec6 : Bytes → Option Bytes := fun b => if b.length ≥ 4 then some b else none
    let o := serve6 dec6 [.datagram [1, 0, 0, 1] (.other 3), .datagram [1] .nilAddr,
      .datagram [3, 0, 0, 2, 0] (.udp none 546 []), .readError]
    o.invocations.map (fun v => (v.idx, v.msg, v.peer)) =
      [(0, [1, 0, 0, 1], .other 3), (2, [3, 0, 0, 2, 0], .udp none 546 [])] ∧ o.exit = .returned := by
  decide

/-- DHCPv6 with the codec model: a SOLICIT with a client-id option (accepted by `dec6`)
from a link-local sender, a 2-byte datagram (rejected), the SOLICIT again from a non-UDP
sender, then Close: positions 0 and 2 are dispatched with their senders untouched. -/
example :
    let sol : Bytes := [1, 0xaa, 0xbb, 0xcc, 0, 1, 0, 10, 0, 3, 0, 1, 0, 0x11, 0x22, 0x33, 0x44, 0x55]
    let ll : Peer := .udp (some ([0xfe, 0x80] ++ zeros 13 ++ [10])) 546 [101, 116, 104, 48]
    let rs : List ReadResult := [.datagram sol ll, .datagram [1, 2] ll, .datagram sol (.other 9), .readError]
    (decode6 (sol.take readBufLen)).isSome = true ∧ (decode6 (([1, 2] : Bytes).take readBufLen)).isNone = true ∧
    (serve6dec rs).invocations.map (fun v => (v.idx, v.peer)) = [(0, ll), (2, .other 9)] ∧
    (serve6dec rs).exit = .returned := by
  refine ⟨by decide, by decide, by decide, by decide⟩

end Dhcp.Server

import DhcpProofs.Lemmas.Cost6
/-
  C09 — decoding cost is bounded: linear retained size, at most quadratic work.

  Measures (Dhcp/Cost.lean) are structural functions of the value produced by
  the ordinary model decoders `dec4` / `dec6` / `Label.fromBytes` (no
  instrumented decoder): `size4`, `size6`/`sizeOpt`, `sizeLabels` (payload
  bytes of every leaf + `nodeC = 32` per node), `depth6` (option-list nesting
  depth, top level = 1) and the allocation envelope
      work6 m b = |b|·(depth6 m + c1) + c2·size6 m          (c1 = 8, c2 = 4).

  Why `work6` is the allocation of the Go code (this correspondence is what the
  `cost` stream and the `c09` oracle measure, two-sidedly, on the real code):
    * decoding: every IA_NA / IA_TA / IA_PD / IAAddr / IAPrefix / vendor-opts
      parser hands `buf.ReadAll()` — a COPY of the rest of its value — to the
      nested `Options.FromBytes`; relay-message, 4RD and NTP parse in place.
      A byte of the input is therefore copied at most once per enclosing
      option list: ≤ |b| per level, ≤ |b|·depth6 in total;
    * every leaf is copied once (`CopyN`, `ReadAll`, `append([]byte(nil), …)`,
      `string(…)`), every option is one struct, one interface slot in an
      `Options` slice grown by doubling: a fixed multiple of `size6`;
    * re-encoding: `Options.ToBytes` builds every option value in its own
      buffer (`opt.ToBytes()`) and copies it into the buffer of the enclosing
      list, so each byte is written once per enclosing level (relay, 4RD and
      NTP levels included): again ≤ |b|-ish per level, buffers grown by
      doubling — the `c1` and the α of the stream absorb the growth factor.
  Go's allocator (size classes, tiny allocator) and GC are not modelled; the
  theorems are about the cost function, the measurement stream shows that the
  function tracks `runtime.MemStats.TotalAlloc` within fixed constants.

  The label expansion factor: one 2-byte compression pointer yields one name of
  at most 253 bytes (`Label.maxNameLength`, re-checked against the source by
  DhcpProofs/Facts/LabelCap.lean) plus its node, (253 + 32)/2 < 143 per input
  byte, + 1 for the retained copy of the wire form: K = 144.  On inputs in
  which no octet has both top bits set no pointer can be read and K = 33
  (an empty name, one node, per zero octet).
-/
namespace Dhcp.Props
open Dhcp Dhcp.V4 Dhcp.V6 Dhcp.Cost

/-! ### retained size -/

/-- **C09 (size, DHCPv4).** K₁ = 16, K₀ = 0: every option instance costs at
least two octets of input and at most one map entry (32) plus its value. -/
theorem C09_size_v4 (b : Bytes) (p : Pkt4) (h : dec4 b = .ok p) : size4 p ≤ 16 * b.length :=
  size4_le b p h

/-- **C09 (size, DHCPv4, fine).** The input once + at most 256 map entries. -/
theorem C09_size_v4_tight (b : Bytes) (p : Pkt4) (h : dec4 b = .ok p) :
    size4 p ≤ b.length + 256 * 32 + 64 :=
  size4_le_tight b p h

/-- **C09 (repeated DHCPv4 options).** The instances of one code concatenate
to a value no longer than the options area … -/
theorem C09_v4_concat_linear (b : Bytes) (p : Pkt4) (h : dec4 b = .ok p) (c : UInt8) (v : Bytes)
    (hv : p.opts.f c = some v) : v.length + 240 ≤ b.length :=
  v4_concat_linear b p h c v hv

/-- … and so do all values together. -/
theorem C09_v4_values_total (b : Bytes) (p : Pkt4) (h : dec4 b = .ok p) :
    (Opts.allCodes.map (fun k => ((p.opts.f k).getD []).length)).sum + 240 ≤ b.length :=
  v4_values_total b p h

/-- **C09 (labels).** K = 144 with compression pointers … -/
theorem C09_size_label (buf : Bytes) (l : Label.Labels) (h : Label.fromBytes buf = .ok l) :
    sizeLabels l ≤ 144 * buf.length + 32 :=
  sizeLabels_le buf l h

/-- … K = 33 when no octet can be read as a pointer … -/
theorem C09_size_label_noptr (buf : Bytes) (hn : NoPtr buf) (l : Label.Labels)
    (h : Label.fromBytes buf = .ok l) : sizeLabels l ≤ 33 * buf.length + 32 :=
  sizeLabels_le_noptr buf hn l h

/-- … and no decoded name exceeds the cap, whatever the pointers do. -/
theorem C09_label_name_cap (buf : Bytes) (labs : List Bytes)
    (h : Label.labelsFromBytes buf = .ok labs) : ∀ n ∈ labs, n.length ≤ 253 :=
  labels_name_le buf labs h

/-- **C09 (size, DHCPv6).** All 32 option types, arbitrary nesting, all
inputs: K₁' = 144, K₀' = 64. The factor is the label expansion factor; every
other option type stays below 24 (see `C09_size_v6_noptr`). -/
theorem C09_size_v6 (b : Bytes) (m : Msg6) (h : dec6 b = .ok m) : size6 m ≤ 144 * b.length + 64 :=
  ((bounds_all closedTrue (by decide) labelBound_gen size4_le (fuelFor b)).2.2 b m trivial h).1

/-- **C09 (size, DHCPv6, no compression pointers).** If no octet of the input
has both top bits set, K₁' = 33. -/
theorem C09_size_v6_noptr (b : Bytes) (hn : NoPtr b) (m : Msg6) (h : dec6 b = .ok m) :
    size6 m ≤ 33 * b.length + 64 :=
  ((bounds_all closedNoPtr (by decide) labelBound_noptr size4_le (fuelFor b)).2.2 b m hn h).1

/-- The same for `ParseOption` on one option value (4 = its header). -/
theorem C09_size_opt (code : Nat) (data : Bytes) (o : Opt6) (h : parseOption code data = .ok o) :
    sizeOpt o ≤ 144 * (data.length + 4) :=
  ((bounds_all closedTrue (by decide) labelBound_gen size4_le (fuelFor data)).1 code data o trivial h).1

/-! ### nesting depth and loop progress -/

/-- **C09 (depth).** Every nesting level costs at least a 4-byte option header. -/
theorem C09_depth_v6 (b : Bytes) (m : Msg6) (h : dec6 b = .ok m) : 4 * depth6 m ≤ b.length + 4 :=
  ((bounds_all closedTrue (by decide) labelBound_gen size4_le (fuelFor b)).2.2 b m trivial h).2

theorem C09_depth_opt (code : Nat) (data : Bytes) (o : Opt6) (h : parseOption code data = .ok o) :
    4 * depthOpt o ≤ data.length + 4 :=
  ((bounds_all closedTrue (by decide) labelBound_gen size4_le (fuelFor data)).1 code data o trivial h).2

/-- **C09 (loop progress).** One iteration of `Options.FromBytesWithParser`
continues with a lexer at least 4 bytes shorter — whether or not the value
overran the buffer (then `od = none`, the sticky error is set, and the loop
still goes on with the 4 header bytes consumed). -/
theorem C09_v6_loop_progress {α : Type} (parse : Nat → Bytes → Res α) (fuel : Nat) (l : Lexer)
    (acc : List α) (h : l.has 4 = true) :
    ∃ (code : Nat) (od : Option Bytes) (l' : Lexer),
      l'.data.length + 4 + (od.getD []).length ≤ l.data.length ∧
      (od = none → l'.err = true) ∧
      tlvLoop parse (fuel + 1) l acc =
        (match parse code (od.getD []) with
         | .ok o => tlvLoop parse fuel l' (acc ++ [o])
         | .err => .err
         | .panic => .panic) := by
  have h4 : 4 ≤ l.data.length := by simpa [Lexer.has] using h
  have d1 := read16_has l (by omega)
  have d2 := read16_has l.read16.2 (by rw [d1]; simp; omega)
  have c3 := consume_spec l.read16.2.read16.2 l.read16.2.read16.1
  refine ⟨l.read16.1, (l.read16.2.read16.2.consume l.read16.2.read16.1).1,
    (l.read16.2.read16.2.consume l.read16.2.read16.1).2, ?_, ?_, ?_⟩
  · have : l.read16.2.read16.2.data.length + 4 = l.data.length := by rw [d2, d1]; simp; omega
    omega
  · unfold Lexer.consume; split <;> simp
  · rw [tlvLoop]; simp only [h, if_true]; rfl

/-- Hence a successful loop produced at most one option per 4 bytes. -/
theorem C09_v6_options_count {α : Type} (parse : Nat → Bytes → Res α) (fuel : Nat) (l : Lexer)
    (acc os : List α) (h : tlvLoop parse fuel l acc = .ok os) :
    ∃ new, os = acc ++ new ∧ 4 * new.length ≤ l.data.length := by
  obtain ⟨new, h1, _, _, h4⟩ := tlvLoop_bound parse closedTrue (fun _ => 0) (fun _ => 0) 0
    (by intros; simp) fuel l acc os trivial h
  exact ⟨new, h1, h4⟩

/-! ### work -/

/-- linear coefficient of the work bound: `c1 + c2·(144 + 64)` -/
def K2 : Nat := c1 + c2 * (144 + 64)
theorem C09_K2_eq : K2 = 840 := by decide

/-- **C09 (work, DHCPv6).** The allocation envelope of decoding and
re-encoding is at most `840·|b| + |b|·(|b|/4 + 1)`: a fixed multiple of the
input plus one copy of the input per nesting level, of which there are at most
`|b|/4 + 1` — at most quadratic, coefficient 1/4. -/
theorem C09_work_v6 (b : Bytes) (m : Msg6) (h : dec6 b = .ok m) :
    work6 m b ≤ K2 * b.length + b.length * (b.length / 4 + 1) := by
  have hs := C09_size_v6 b m h
  have hd := C09_depth_v6 b m h
  have hn := dec6_nonempty b m h
  have hd' : depth6 m ≤ b.length / 4 + 1 := by omega
  have h1 : b.length * depth6 m ≤ b.length * (b.length / 4 + 1) := Nat.mul_le_mul_left _ hd'
  simp only [work6, K2, c1, c2, Nat.mul_add] at *
  omega

/-- The form the property text uses: a fixed multiple of the input plus one
copy of the input per level of nesting. -/
theorem C09_work_v6_per_level (b : Bytes) (m : Msg6) (h : dec6 b = .ok m) :
    work6 m b ≤ K2 * b.length + b.length * depth6 m := by
  have hs := C09_size_v6 b m h
  have hn := dec6_nonempty b m h
  simp only [work6, K2, c1, c2, Nat.mul_add] at *
  omega

/-- Without compression pointers the linear coefficient drops to `c1 + c2·(33 + 64) = 396`. -/
theorem C09_work_v6_noptr (b : Bytes) (hp : NoPtr b) (m : Msg6) (h : dec6 b = .ok m) :
    work6 m b ≤ 396 * b.length + b.length * (b.length / 4 + 1) := by
  have hs := C09_size_v6_noptr b hp m h
  have hd := C09_depth_v6 b m h
  have hn := dec6_nonempty b m h
  have hd' : depth6 m ≤ b.length / 4 + 1 := by omega
  have h1 : b.length * depth6 m ≤ b.length * (b.length / 4 + 1) := Nat.mul_le_mul_left _ hd'
  simp only [work6, c1, c2, Nat.mul_add] at *
  omega

/-- **C09 (work, DHCPv4).** No nesting: linear, `c1 + 16·c2 = 72` per byte. -/
theorem C09_work_v4 (b : Bytes) (p : Pkt4) (h : dec4 b = .ok p) : work4 p b ≤ 72 * b.length := by
  have := C09_size_v4 b p h
  simp only [work4, c1, c2]; omega

/-- The fine-grained measure `nest6` the `cost` stream fits against real
allocation is computed in one pass; the lengths it sums are those of the model
encoder (so it is "bytes written by ToBytes, every level's buffer counted"). -/
theorem C09_nest_lengths (m : Msg6) : (lenNest6 m).1 = (encMsg m).length := lenNest6_fst m

/-! ### non-vacuity -/

/-- IA_NA{IAAddr{}} in a Solicit: decodes, three levels of option lists. -/
def exNested : Bytes :=
  [1,0,0,0, 0,3,0,40, 0,0,0,1, 0,0,0,0, 0,0,0,0, 0,5,0,24,
   32,1,0,0,0,0,0,0,0,0,0,0,0,0,0,1, 0,0,0,10, 0,0,0,20]

example : (match dec6 exNested with | .ok m => (size6 m, depth6 m) | _ => (0, 0)) = (119, 3) := by
  decide

/-- a domain-search option whose second name is a compression pointer: the
decoded value is larger than its wire form (expansion happens), within the bound -/
example : (match parseOption 24 [1, 97, 0, 0xc0, 0] with | .ok o => sizeOpt o | _ => 0) = 135 := by
  decide

example : NoPtr [1, 0, 0, 0, 0, 8, 0, 2, 0, 0] := by unfold NoPtr; decide

end Dhcp.Props

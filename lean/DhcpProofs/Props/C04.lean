import DhcpProofs.Lemmas.V4Parse
import DhcpProofs.Lemmas.V4RoundTrip
/-
  C04 — DHCPv4 decoding accepts exactly well-formed packets and reads the RFC
  values.  `Spec.Parses4` (Dhcp/Spec/Wire4.lean) is the declarative RFC
  2131/2132/3396 grammar; `dec4` is the model of `dhcpv4.FromBytes`.
-/
namespace Dhcp.Props
open Dhcp Dhcp.V4 Dhcp.Spec

/-- **C04 (soundness).** Whatever the decoder accepts is a well-formed packet
and the decoded value is its RFC reading (fields = wire bytes, hardware address
clipped to min(hlen,16), names cut at the first NUL, each code mapped to the
concatenation of its instances in order of appearance). All byte strings. -/
theorem C04_sound (b : Bytes) (p : Pkt4) (h : dec4 b = .ok p) : Parses4 b p :=
  dec4_sound b p h

/-- **C04 (completeness).** Every well-formed packet is accepted with exactly
its RFC reading. -/
theorem C04_complete (b : Bytes) (p : Pkt4) (h : Parses4 b p) : dec4 b = .ok p :=
  dec4_complete b p h

/-- **C04 (exactness).** Acceptance coincides with well-formedness. -/
theorem C04_exact (b : Bytes) : (∃ p, dec4 b = .ok p) ↔ (∃ p, Parses4 b p) :=
  ⟨fun ⟨p, h⟩ => ⟨p, dec4_sound b p h⟩, fun ⟨p, h⟩ => ⟨p, dec4_complete b p h⟩⟩

/-- **C04 (every other input yields an error, never a panic).** -/
theorem C04_reject (b : Bytes) (h : ¬ ∃ p, Parses4 b p) : dec4 b = .err := by
  cases hd : dec4 b with
  | ok p => exact absurd ⟨p, dec4_sound b p hd⟩ h
  | err => rfl
  | panic => exact absurd hd (dec4_ne_panic b)

/-- The RFC reading is unique. -/
theorem C04_functional (b : Bytes) (p q : Pkt4) (hp : Parses4 b p) (hq : Parses4 b q) : p = q := by
  have h1 := dec4_complete b p hp
  have h2 := dec4_complete b q hq
  rw [h1] at h2
  exact Res.ok.inj h2

/-- Edge cases as lemmas, not samples: fewer than 240 bytes is rejected … -/
theorem C04_short (b : Bytes) (h : b.length < 240) : dec4 b = .err := dec4_short b h

/-- … a wrong cookie is rejected … -/
theorem C04_cookie (b : Bytes) (h : 240 ≤ b.length) (hc : slice b 236 240 ≠ [99, 130, 83, 99]) :
    dec4 b = .err := by
  have hc' : slice b 236 240 ≠ magicCookie := hc
  rw [dec4_of_len b h, if_pos hc']

/-- … an options area without End is rejected unless it is empty (exactly 240
bytes are accepted) … -/
theorem C04_bare_header (b : Bytes) (h : b.length = 240) (hc : slice b 236 240 = [99, 130, 83, 99]) :
    ∃ p, dec4 b = .ok p ∧ ∀ c, p.opts.f c = none := by
  have hd : b.drop 240 = [] := by simp [h]
  rw [dec4_of_len b (by omega)]
  have : ¬ slice b 236 240 ≠ magicCookie := by rw [hc]; decide
  rw [if_neg this, hd]
  exact ⟨_, rfl, fun _ => rfl⟩

/-- … and bytes after End are ignored: a well-formed run has the shape
`pre ++ End :: tail` and stays well-formed, with the same instances, under any
replacement of `tail`. -/
theorem C04_after_end (a : Bytes) (is : List (UInt8 × Bytes)) (h : RunEnd a is) :
    ∃ pre tail, a = pre ++ 255 :: tail ∧ ∀ tail', RunEnd (pre ++ 255 :: tail') is := by
  induction h with
  | fin tail => exact ⟨[], tail, rfl, fun t => RunEnd.fin t⟩
  | pad _ ih =>
    obtain ⟨pre, tail, h1, h2⟩ := ih
    exact ⟨0 :: pre, tail, by simp [h1], fun t => RunEnd.pad (h2 t)⟩
  | @opt rest is c len v h0 h255 hv _ ih =>
    obtain ⟨pre, tail, h1, h2⟩ := ih
    refine ⟨c :: len :: (v ++ pre), tail, by simp [h1], fun t => ?_⟩
    have := RunEnd.opt c len v h0 h255 hv (h2 t)
    simpa using this

/-- Non-vacuity: the encoding of any encodable packet is a well-formed packet
(so `Parses4` is inhabited by packets with options of any length). -/
example (p : Pkt4) (h : Encodable p) : ∃ b, Parses4 b (norm p) := by
  obtain ⟨b, _, h2⟩ := enc4_dec4 p h
  exact ⟨b, dec4_sound b _ h2⟩

end Dhcp.Props

import DhcpProofs.Lemmas.Basic
import DhcpProofs.Lemmas.V4Opts
import DhcpProofs.Lemmas.V4Marshal
import DhcpProofs.Lemmas.V4Dec
import DhcpProofs.Lemmas.V4RoundTrip
import DhcpProofs.Facts.V4Codec
import DhcpProofs.Props.C01

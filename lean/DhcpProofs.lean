import DhcpProofs.Lemmas.Basic

import Dhcp.Go.Basic
import Dhcp.Go.Lexer
import Dhcp.V4.Packet
import Dhcp.V4.Domain
import Dhcp.V4.Build
import Dhcp.Spec.V4Client

import Dhcp.Go.Basic
import Dhcp.Go.Lexer
import Dhcp.V4.Packet
import Dhcp.V4.Values
import Dhcp.Spec.Val4

import Dhcp.Go.Basic
import Dhcp.Go.Lexer
import Dhcp.V4.Packet
import Dhcp.Client.Timed
import Dhcp.Client.LTS

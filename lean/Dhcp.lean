import Dhcp.Go.Basic
import Dhcp.Go.Lexer
import Dhcp.V4.Packet
import Dhcp.V4.Domain
import Dhcp.Spec.Wire4
import Dhcp.Label
import Dhcp.V6.Types
import Dhcp.V6.Codec

import Dhcp.Go.Basic
import Dhcp.Go.Lexer
import Dhcp.V4.Packet
import Dhcp.Label
import Dhcp.Spec.Name
